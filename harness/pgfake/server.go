package pgfake

import (
	"context"
	"fmt"
	"net"
	"os"
	"path/filepath"
	"sort"
	"strings"
	"sync"

	"github.com/jackc/pgx/v4/pgxpool"
)

// Options configure Start.
type Options struct {
	RepoRoot string // root of the rolling-shutter Go module; default /repo/rolling-shutter
	Network  string // "tcp" (default, 127.0.0.1:0) or "unix"
}

// DefaultRepoRoot is used when Options.RepoRoot is empty.
const DefaultRepoRoot = "/repo/rolling-shutter"

// FaultKind selects what an injected fault does.
type FaultKind int

const (
	// DropBefore: when about to process frontend message number AtMsg, close
	// that connection instead (an open transaction is discarded).
	DropBefore FaultKind = iota
	// DropAfterCommit: if message AtMsg commits (a "commit" of a healthy
	// explicit transaction, the Sync that ends a modifying autocommit
	// statement, or a modifying simple-protocol autocommit statement), apply
	// the commit and then close the connection without replying.
	DropAfterCommit
	// FailStatement: if message AtMsg is an Execute, or a Query carrying a
	// data statement, answer it with ErrorResponse(SQLState) without executing.
	FailStatement
)

func (k FaultKind) String() string {
	switch k {
	case DropBefore:
		return "DropBefore"
	case DropAfterCommit:
		return "DropAfterCommit"
	case FailStatement:
		return "FailStatement"
	}
	return fmt.Sprintf("FaultKind(%d)", int(k))
}

// Fault is a one-shot fault bound to a frontend message index (see MsgCount).
type Fault struct {
	AtMsg    int64
	Kind     FaultKind
	SQLState string // FailStatement only; default XX000
}

// FiredFault reports what became of an injected fault when its message arrived.
type FiredFault struct {
	Fault
	Conn    int
	MsgKind string
	Stmt    string
	Applied bool   // false: the message was not of a kind the fault applies to
	Note    string // human readable
}

// MsgLogEntry describes one processed frontend message.
type MsgLogEntry struct {
	Index int64
	Conn  int
	Kind  string // Startup, Parse, Describe, Bind, Execute, Sync, Flush, Close, Query, Terminate
	Stmt  string // statement key ("keyper/database.GetEon"), or begin/commit/..., or ""
}

// RuntimeIssue is a problem observed while serving.
type RuntimeIssue struct {
	Kind   string // unimplemented-statement | unknown-statement | changed-statement-used | handler-panic | bad-row-order | ...
	Stmt   string
	Detail string
	Count  int // number of occurrences
}

func (r RuntimeIssue) String() string {
	return fmt.Sprintf("%s %s (x%d): %s", r.Kind, r.Stmt, r.Count, r.Detail)
}

// StatementInfo describes a statement known from the source and its handler.
type StatementInfo struct {
	Statement
	Implemented bool
	Changed     bool // the handler was written against a different text
	Ordered     bool
	ParamOIDs   []uint32
	Result      []ResultCol
}

type stmtEntry struct {
	Statement
	h       *Handler
	changed bool
}

type failNextEntry struct {
	name     string
	sqlstate string
	skip     int
}

// Server is a fake PostgreSQL server.
type Server struct {
	opts    Options
	ln      net.Listener
	network string
	addr    string
	sockDir string
	store   *Store
	wg      sync.WaitGroup

	mu            sync.Mutex // guards everything below; never held while taking a Store mutex
	byText        map[string]*stmtEntry
	byKey         map[string]*stmtEntry
	ties          []TieIssue
	runtimeIssues []*RuntimeIssue
	msgCount      int64
	msgLog        []MsgLogEntry
	faults        []Fault
	fired         []FiredFault
	failNext      []*failNextEntry
	conns         map[*conn]struct{}
	nextConnID    int
	closed        bool
}

// Start loads the statements of the repository, checks the tie to the
// handlers and schemas, and starts listening.
func Start(opts Options) (*Server, error) {
	if opts.RepoRoot == "" {
		opts.RepoRoot = DefaultRepoRoot
	}
	if opts.Network == "" {
		opts.Network = "tcp"
	}
	stmts, err := LoadStatements(opts.RepoRoot)
	if err != nil {
		return nil, err
	}
	s := &Server{
		opts:   opts,
		byText: map[string]*stmtEntry{},
		byKey:  map[string]*stmtEntry{},
		conns:  map[*conn]struct{}{},
	}
	for _, st := range stmts {
		e := &stmtEntry{Statement: st, h: handlers[st.Key]}
		s.byKey[st.Key] = e
		if other, dup := s.byText[st.SQL]; dup {
			return nil, fmt.Errorf("pgfake: statements %s and %s have identical text", other.Key, st.Key)
		}
		s.byText[st.SQL] = e
		switch {
		case e.h == nil:
			s.ties = append(s.ties, TieIssue{"unimplemented", st.Key, "statement in the source has no pgfake handler"})
		case e.h.Hash != st.Hash:
			e.changed = true
			s.ties = append(s.ties, TieIssue{"changed", st.Key,
				fmt.Sprintf("statement text hash is %s, handler was written against %s", st.Hash, e.h.Hash)})
		}
	}
	for _, k := range HandlerKeys() {
		if _, ok := s.byKey[k]; !ok {
			s.ties = append(s.ties, TieIssue{"missing", k, "handler exists but the statement is no longer in the source"})
		}
	}
	s.ties = append(s.ties, checkSchemaFiles(opts.RepoRoot)...)
	sort.SliceStable(s.ties, func(i, j int) bool {
		if s.ties[i].Kind != s.ties[j].Kind {
			return s.ties[i].Kind < s.ties[j].Kind
		}
		return s.ties[i].Name < s.ties[j].Name
	})

	s.store = newStore()
	s.store.onIssue = func(kind, detail string) { s.addIssue(kind, "", detail) }

	switch opts.Network {
	case "tcp":
		ln, err := net.Listen("tcp", "127.0.0.1:0")
		if err != nil {
			return nil, err
		}
		s.ln, s.network, s.addr = ln, "tcp", ln.Addr().String()
	case "unix":
		dir, err := os.MkdirTemp("", "pgfake")
		if err != nil {
			return nil, err
		}
		path := filepath.Join(dir, ".s.PGSQL.5432")
		ln, err := net.Listen("unix", path)
		if err != nil {
			os.RemoveAll(dir)
			return nil, err
		}
		s.ln, s.network, s.addr, s.sockDir = ln, "unix", path, dir
	default:
		return nil, fmt.Errorf("pgfake: unknown network %q", opts.Network)
	}
	s.wg.Add(1)
	go s.acceptLoop()
	return s, nil
}

func (s *Server) acceptLoop() {
	defer s.wg.Done()
	for {
		nc, err := s.ln.Accept()
		if err != nil {
			return
		}
		s.mu.Lock()
		if s.closed {
			s.mu.Unlock()
			nc.Close()
			return
		}
		s.nextConnID++
		c := newConn(s, nc, s.nextConnID)
		s.conns[c] = struct{}{}
		s.mu.Unlock()
		s.wg.Add(1)
		go func() {
			defer s.wg.Done()
			c.serve()
			s.mu.Lock()
			delete(s.conns, c)
			s.mu.Unlock()
		}()
	}
}

// ConnString returns a connection URL for pgx / pgxpool.
func (s *Server) ConnString() string {
	if s.network == "unix" {
		return "postgres:///db?host=" + s.sockDir + "&port=5432&user=u&sslmode=disable&pool_max_conns=4"
	}
	return "postgres://u@" + s.addr + "/db?sslmode=disable&pool_max_conns=4"
}

// Pool opens a new pgxpool.Pool connected to the server.
func (s *Server) Pool(ctx context.Context) (*pgxpool.Pool, error) {
	return pgxpool.Connect(ctx, s.ConnString())
}

// Close stops the server and closes all its connections.
func (s *Server) Close() {
	s.mu.Lock()
	if s.closed {
		s.mu.Unlock()
		return
	}
	s.closed = true
	var cs []*conn
	for c := range s.conns {
		cs = append(cs, c)
	}
	s.mu.Unlock()
	s.ln.Close()
	for _, c := range cs {
		c.nc.Close()
	}
	s.wg.Wait()
	if s.sockDir != "" {
		os.RemoveAll(s.sockDir)
	}
}

// Store returns the committed store (for test setup and observation).
func (s *Server) Store() *Store { return s.store }

// SetStore replaces the content of the committed store by a deep copy of st
// (tables and sequence positions).  Open transactions that modified data
// will fail to commit with a serialization failure.
func (s *Server) SetStore(st *Store) {
	snap := st.Snapshot()
	s.store.mu.Lock()
	defer s.store.mu.Unlock()
	s.store.tables = snap.tables
	s.store.owned = map[string]bool{}
	s.store.seqs = snap.seqs
	s.store.version++
}

// SetRowOrder installs the row enumeration order oracle.  Whenever a
// statement enumerates the n candidate rows of a table (after its WHERE
// clause, before ORDER BY / LIMIT), order(table, n) must return a permutation
// p of 0..n-1; the rows are delivered as row[p[0]], row[p[1]], ... where row[]
// is in insertion order.  ORDER BY is a stable sort on top of this, so the
// oracle also decides the order among ties and which row an unordered LIMIT 1
// picks.  nil (the default) means insertion order.  It applies to
// transactions begun after the call.
func (s *Server) SetRowOrder(order func(table string, n int) []int) {
	s.store.mu.Lock()
	defer s.store.mu.Unlock()
	s.store.order = order
}

// Ties returns the problems found at Start in the tie between pgfake and the
// source: changed / missing / unimplemented statements and schema-changed files.
func (s *Server) Ties() []TieIssue {
	s.mu.Lock()
	defer s.mu.Unlock()
	return append([]TieIssue(nil), s.ties...)
}

// RuntimeIssues returns the problems observed while serving (unknown or
// unimplemented statements that were sent, changed statements that were
// executed with their old meaning, handler panics, ...).
func (s *Server) RuntimeIssues() []RuntimeIssue {
	s.mu.Lock()
	defer s.mu.Unlock()
	out := make([]RuntimeIssue, len(s.runtimeIssues))
	for i, r := range s.runtimeIssues {
		out[i] = *r
	}
	return out
}

// ClearRuntimeIssues forgets the recorded runtime issues.
func (s *Server) ClearRuntimeIssues() {
	s.mu.Lock()
	defer s.mu.Unlock()
	s.runtimeIssues = nil
}

func (s *Server) addIssue(kind, stmt, detail string) {
	s.mu.Lock()
	defer s.mu.Unlock()
	for _, r := range s.runtimeIssues {
		if r.Kind == kind && r.Stmt == stmt {
			r.Count++
			return
		}
	}
	s.runtimeIssues = append(s.runtimeIssues, &RuntimeIssue{Kind: kind, Stmt: stmt, Detail: detail, Count: 1})
}

// Statements lists all statements found in the source with their handler status.
func (s *Server) Statements() []StatementInfo {
	s.mu.Lock()
	defer s.mu.Unlock()
	var out []StatementInfo
	for _, e := range s.byKey {
		si := StatementInfo{Statement: e.Statement, Implemented: e.h != nil, Changed: e.changed}
		if e.h != nil {
			si.Ordered = e.h.Ordered
			si.ParamOIDs = append([]uint32(nil), e.h.Params...)
			si.Result = append([]ResultCol(nil), e.h.Result...)
		}
		out = append(out, si)
	}
	sort.Slice(out, func(i, j int) bool { return out[i].Key < out[j].Key })
	return out
}

// StatementSQL returns the exact text of the statement with the given key
// ("keyper/database.GetEon"), or "".
func (s *Server) StatementSQL(key string) string {
	s.mu.Lock()
	defer s.mu.Unlock()
	if e, ok := s.byKey[key]; ok {
		return e.SQL
	}
	return ""
}

// MsgCount is the number of frontend messages processed so far over all
// connections; it is also the index the next message will get (indices start
// at 0; the StartupMessage of a connection counts).
func (s *Server) MsgCount() int64 {
	s.mu.Lock()
	defer s.mu.Unlock()
	return s.msgCount
}

// MsgLog returns the log of processed frontend messages.
func (s *Server) MsgLog() []MsgLogEntry {
	s.mu.Lock()
	defer s.mu.Unlock()
	return append([]MsgLogEntry(nil), s.msgLog...)
}

// InjectFault arms a one-shot fault for the frontend message with index f.AtMsg.
func (s *Server) InjectFault(f Fault) {
	s.mu.Lock()
	defer s.mu.Unlock()
	s.faults = append(s.faults, f)
}

// FiredFaults reports the faults whose message has arrived.
func (s *Server) FiredFaults() []FiredFault {
	s.mu.Lock()
	defer s.mu.Unlock()
	return append([]FiredFault(nil), s.fired...)
}

// PendingFaults returns the faults whose message has not arrived yet.
func (s *Server) PendingFaults() []Fault {
	s.mu.Lock()
	defer s.mu.Unlock()
	return append([]Fault(nil), s.faults...)
}

// FailNext makes the (skip+1)-th upcoming execution of the named statement
// fail with the given SQLSTATE (default XX000) instead of executing.  The
// name is a statement key ("keyper/database.InsertEon") or, if unambiguous
// enough for the caller, the bare query name ("InsertEon", matching every
// package).
func (s *Server) FailNext(stmtName string, sqlstate string, skip int) {
	if sqlstate == "" {
		sqlstate = "XX000"
	}
	s.mu.Lock()
	defer s.mu.Unlock()
	s.failNext = append(s.failNext, &failNextEntry{name: stmtName, sqlstate: sqlstate, skip: skip})
}

// ResetCounters resets the message counter and log and disarms all pending
// faults and FailNext entries.
func (s *Server) ResetCounters() {
	s.mu.Lock()
	defer s.mu.Unlock()
	s.msgCount = 0
	s.msgLog = nil
	s.faults = nil
	s.fired = nil
	s.failNext = nil
}

// noteMsg counts and logs a frontend message and returns its index and the
// fault armed for it, if any.
func (s *Server) noteMsg(connID int, kind, stmt string) (int64, *Fault) {
	s.mu.Lock()
	defer s.mu.Unlock()
	idx := s.msgCount
	s.msgCount++
	s.msgLog = append(s.msgLog, MsgLogEntry{Index: idx, Conn: connID, Kind: kind, Stmt: stmt})
	for i, f := range s.faults {
		if f.AtMsg == idx {
			s.faults = append(s.faults[:i], s.faults[i+1:]...)
			ff := f
			return idx, &ff
		}
	}
	return idx, nil
}

func (s *Server) recordFired(f *Fault, connID int, kind, stmt string, applied bool, note string) {
	s.mu.Lock()
	defer s.mu.Unlock()
	s.fired = append(s.fired, FiredFault{Fault: *f, Conn: connID, MsgKind: kind, Stmt: stmt, Applied: applied, Note: note})
}

// takeFailNext reports whether this execution of the statement must fail.
func (s *Server) takeFailNext(key string) (string, bool) {
	s.mu.Lock()
	defer s.mu.Unlock()
	// every matching entry counts this execution; the first one that has no
	// executions left to skip fires
	fired := -1
	for i, fn := range s.failNext {
		if fn.name != key && !strings.HasSuffix(key, "."+fn.name) {
			continue
		}
		if fn.skip > 0 {
			fn.skip--
		} else if fired < 0 {
			fired = i
		}
	}
	if fired < 0 {
		return "", false
	}
	state := s.failNext[fired].sqlstate
	s.failNext = append(s.failNext[:fired], s.failNext[fired+1:]...)
	return state, true
}

func (s *Server) lookupText(sql string) *stmtEntry {
	s.mu.Lock()
	defer s.mu.Unlock()
	return s.byText[sql]
}
