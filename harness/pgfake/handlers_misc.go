package pgfake

// Handlers for keyperimpl/primev/database, chainobserver/db/{keyper,sync,collator}
// and medley/db.

func init() {
	primevHandlers()
	observerHandlers()
	medleyHandlers()
}

func primevHandlers() {
	const p = pkgPrimev + "."

	// DELETE FROM provider_registry_events WHERE block_number >= $1
	reg(p+"DeleteProviderRegistryEventsFromBlockNumber", "1c60c8c49e419642", params(i8), nil, ordered,
		deleteStmt("provider_registry_events", func(r Row, a []any) bool { return sqlGe(r["block_number"], a[0]) }))

	// SELECT c.tx_hashes, c.provider_address, c.commitment_signature, c.commitment_digest, c.block_number,
	//     c.received_bid_digest, c.received_bid_signature, c.bidder_node_address
	// FROM commitment c
	// WHERE $1 = ANY(c.tx_hashes)
	//
	// $1 is compared with the *elements* of a text[] column, so PostgreSQL types
	// it as text (OID 25), although sqlc generated a []string parameter.  pgfake
	// reports text like PostgreSQL does; pgx then fails to encode the []string
	// argument on the client side.  No ORDER BY.
	reg(p+"GetCommitmentByTxHash", "c78b15cae0680a2f", params(txt), starCols("commitment"), unordered,
		selectStmt("commitment", allCols("commitment"), func(r Row, a []any) bool {
			if a[0] == nil || r["tx_hashes"] == nil {
				return false
			}
			for _, h := range r["tx_hashes"].([]string) {
				if h == a[0].(string) {
					return true
				}
			}
			return false
		}, nil, -1))

	// SELECT enforce_one_row, block_hash, block_number FROM provider_registry_events_synced_until LIMIT 1
	reg(p+"GetProviderRegistryEventsSyncedUntil", "7ae6aa6a47ac1399", nil, starCols("provider_registry_events_synced_until"), unordered,
		selectStmt("provider_registry_events_synced_until", allCols("provider_registry_events_synced_until"), nil, nil, 1))

	// WITH inserted_transactions AS (
	//     INSERT INTO committed_transactions (eon, identity_preimage, identity_prefix, block_number, tx_hash, commitment_digest, provider_address)
	//     SELECT
	//         unnest($1::bigint[]) as eon,
	//         unnest($2::text[]) as identity_preimage,
	//         unnest($3::text[]) as identity_prefix,
	//         unnest($4::bigint[]) as block_number,
	//         unnest($5::text[]) as tx_hash,
	//         $6,
	//         $7
	//     ON CONFLICT (eon, identity_preimage, tx_hash, block_number)
	//     DO NOTHING
	//     RETURNING tx_hash as hashes
	// ),
	// upserted_commitment AS (
	//     INSERT INTO commitment (tx_hashes, provider_address, commitment_signature, commitment_digest, block_number, received_bid_digest, received_bid_signature, bidder_node_address)
	//     SELECT ARRAY_AGG(hashes), $7, $8, $6, $9, $10, $11, $12
	//     FROM inserted_transactions
	//     ON CONFLICT (provider_address, commitment_digest)
	//     DO UPDATE SET
	//         tx_hashes = commitment.tx_hashes || EXCLUDED.tx_hashes,
	//         received_bid_digest = EXCLUDED.received_bid_digest,
	//         received_bid_signature = EXCLUDED.received_bid_signature,
	//         bidder_node_address = EXCLUDED.bidder_node_address
	//     RETURNING tx_hashes, provider_address
	// )
	// SELECT tx_hashes, provider_address FROM upserted_commitment
	//
	// Meaning:
	//  1. The five unnests advance in lock step (shorter arrays padded with NULL,
	//     which then violates NOT NULL); each tuple is inserted into
	//     committed_transactions unless its primary key exists already (also if
	//     it was inserted earlier by this same statement).
	//  2. The aggregate SELECT without GROUP BY yields exactly one row;
	//     ARRAY_AGG over zero newly inserted transactions is NULL, and the
	//     proposed commitment row then violates tx_hashes NOT NULL (23502) -
	//     NOT NULL is checked before the conflict check, so this happens even
	//     if the commitment exists already.
	//  3. Otherwise the commitment is inserted, or on conflict the newly
	//     inserted hashes are appended and the three bid columns replaced
	//     (commitment_signature and block_number keep their old values).
	//  4. The foreign key committed_transactions -> commitment is checked at
	//     the end of the statement, when the commitment exists.
	reg(p+"InsertMultipleTransactionsAndUpsertCommitment", "d678205eba689df8",
		params(i8Arr, txtArr, txtArr, i8Arr, txtArr, txt, txt, txt, i8, txt, txt, txt),
		colsOf("commitment", "tx_hashes", "provider_address"), ordered,
		func(tx *Store, a []any) ([][]any, string, error) {
			var hashes []string
			for _, t := range unnestLockstep(a[0], a[1], a[2], a[3], a[4]) {
				r, affected, err := tx.insert("committed_transactions", Row{
					"eon": t[0], "identity_preimage": t[1], "identity_prefix": t[2], "block_number": t[3], "tx_hash": t[4],
					"commitment_digest": a[5], "provider_address": a[6],
				}, doNothingOn("eon", "identity_preimage", "tx_hash", "block_number"))
				if err != nil {
					return nil, "", err
				}
				if affected {
					hashes = append(hashes, r["tx_hash"].(string))
				}
			}
			var agg any // ARRAY_AGG over no rows is NULL
			if len(hashes) > 0 {
				agg = hashes
			}
			r, _, err := tx.insert("commitment", Row{
				"tx_hashes": agg, "provider_address": a[6], "commitment_signature": a[7], "commitment_digest": a[5],
				"block_number": a[8], "received_bid_digest": a[9], "received_bid_signature": a[10], "bidder_node_address": a[11],
			}, doUpdate([]string{"provider_address", "commitment_digest"}, func(existing, excluded Row) (Row, error) {
				var cat any
				if existing["tx_hashes"] != nil || excluded["tx_hashes"] != nil {
					var c []string
					if existing["tx_hashes"] != nil {
						c = append(c, existing["tx_hashes"].([]string)...)
					}
					if excluded["tx_hashes"] != nil {
						c = append(c, excluded["tx_hashes"].([]string)...)
					}
					if c == nil {
						c = []string{}
					}
					cat = c
				}
				return Row{
					"tx_hashes":              cat,
					"received_bid_digest":    excluded["received_bid_digest"],
					"received_bid_signature": excluded["received_bid_signature"],
					"bidder_node_address":    excluded["bidder_node_address"],
				}, nil
			}))
			if err != nil {
				return nil, "", err
			}
			return [][]any{{r["tx_hashes"], r["provider_address"]}}, tagSelect(1), nil
		})

	// INSERT INTO provider_registry_events (block_number, block_hash, tx_index, log_index, provider_address, bls_keys)
	// VALUES ($1, $2, $3, $4, $5, $6)
	// ON CONFLICT (block_number, tx_index, log_index) DO UPDATE SET
	// block_number = $1, block_hash = $2, tx_index = $3, log_index = $4, bls_keys = $6
	// (provider_address keeps its old value on conflict)
	reg(p+"InsertProviderRegistryEvent", "08ebd27de285fae8", params(i8, bya, i8, i8, txt, byaArr), nil, ordered,
		insertStmt("provider_registry_events",
			[]string{"block_number", "block_hash", "tx_index", "log_index", "provider_address", "bls_keys"},
			setParams([]string{"block_number", "tx_index", "log_index"}, map[string]int{
				"block_number": 1, "block_hash": 2, "tx_index": 3, "log_index": 4, "bls_keys": 6})))

	// INSERT INTO provider_registry_events_synced_until (block_hash, block_number) VALUES ($1, $2)
	// ON CONFLICT (enforce_one_row) DO UPDATE SET block_hash = $1, block_number = $2
	reg(p+"SetProviderRegistryEventsSyncedUntil", "99158fe1d49f4ee1", params(bya, i8), nil, ordered,
		insertStmt("provider_registry_events_synced_until", []string{"block_hash", "block_number"},
			setParams([]string{"enforce_one_row"}, map[string]int{"block_hash": 1, "block_number": 2})))
}

func observerHandlers() {
	{
		const p = pkgObsKpr + "."

		// SELECT keyper_config_index, activation_block_number, keypers, threshold FROM keyper_set
		// WHERE activation_block_number <= $1
		// ORDER BY activation_block_number DESC LIMIT 1
		// (activation_block_number is not unique: among ties the scan order decides)
		reg(p+"GetKeyperSet", "af0d71f87f529eae", params(i8), starCols("keyper_set"), unordered,
			selectStmt("keyper_set", allCols("keyper_set"), func(r Row, a []any) bool { return sqlLe(r["activation_block_number"], a[0]) },
				[]sortKey{desc("activation_block_number")}, 1))

		// SELECT ... FROM keyper_set WHERE keyper_config_index=$1
		reg(p+"GetKeyperSetByKeyperConfigIndex", "0dfcb243eb78241a", params(i8), starCols("keyper_set"), ordered,
			selectStmt("keyper_set", allCols("keyper_set"), func(r Row, a []any) bool { return sqlEq(r["keyper_config_index"], a[0]) }, nil, -1))

		// SELECT ... FROM keyper_set ORDER BY activation_block_number ASC   (ties in scan order)
		reg(p+"GetKeyperSets", "c84808c4c940f3ea", nil, starCols("keyper_set"), unordered,
			selectStmt("keyper_set", allCols("keyper_set"), nil, []sortKey{asc("activation_block_number")}, -1))

		// INSERT INTO keyper_set (keyper_config_index, activation_block_number, keypers, threshold)
		// VALUES ($1, $2, $3, $4) ON CONFLICT DO NOTHING
		reg(p+"InsertKeyperSet", "b7344c84bf3ccedf", params(i8, i8, txtArr, i4), nil, ordered,
			insertStmt("keyper_set", []string{"keyper_config_index", "activation_block_number", "keypers", "threshold"}, always(doNothing())))
	}
	{
		const p = pkgObsSync + "."

		// SELECT next_block_number, next_log_index FROM event_sync_progress LIMIT 1
		reg(p+"GetEventSyncProgress", "070941a2453da0d6", nil, colsOf("event_sync_progress", "next_block_number", "next_log_index"), unordered,
			selectStmt("event_sync_progress", []string{"next_block_number", "next_log_index"}, nil, nil, 1))

		// SELECT next_block_number from event_sync_progress LIMIT 1
		reg(p+"GetNextBlockNumber", "865f5391206c49ee", nil, colsOf("event_sync_progress", "next_block_number"), unordered,
			selectStmt("event_sync_progress", []string{"next_block_number"}, nil, nil, 1))

		// INSERT INTO event_sync_progress (next_block_number, next_log_index) VALUES ($1, $2)
		// ON CONFLICT (id) DO UPDATE SET next_block_number = $1, next_log_index = $2
		// (both columns are integer = int4)
		reg(p+"UpdateEventSyncProgress", "81ab57d7505cf564", params(i4, i4), nil, ordered,
			insertStmt("event_sync_progress", []string{"next_block_number", "next_log_index"},
				setParams([]string{"id"}, map[string]int{"next_block_number": 1, "next_log_index": 2})))
	}
	{
		const p = pkgObsColl + "."

		// SELECT activation_block_number, collator FROM chain_collator
		// WHERE activation_block_number <= $1 ORDER BY activation_block_number DESC LIMIT 1   (primary key)
		reg(p+"GetChainCollator", "5ba140383d196fe3", params(i8), starCols("chain_collator"), ordered,
			selectStmt("chain_collator", allCols("chain_collator"), func(r Row, a []any) bool { return sqlLe(r["activation_block_number"], a[0]) },
				[]sortKey{desc("activation_block_number")}, 1))

		// INSERT INTO chain_collator (activation_block_number, collator) VALUES ($1, $2)
		reg(p+"InsertChainCollator", "a8baa3633ba7b161", params(i8, txt), nil, ordered,
			insertStmt("chain_collator", []string{"activation_block_number", "collator"}, nil))
	}
}

func medleyHandlers() {
	const p = pkgMedleyDB + "."

	// SELECT value FROM meta_inf WHERE key = $1
	reg(p+"GetMeta", "1aa8651745003bd8", params(txt), colsOf("meta_inf", "value"), ordered,
		selectStmt("meta_inf", []string{"value"}, func(r Row, a []any) bool { return sqlEq(r["key"], a[0]) }, nil, -1))

	// INSERT INTO meta_inf (key, value) VALUES ($1, $2)
	reg(p+"InsertMeta", "899dc8a5097ec082", params(txt, txt), nil, ordered,
		insertStmt("meta_inf", []string{"key", "value"}, nil))

	// UPDATE meta_inf SET value = $1 WHERE key = $2
	reg(p+"UpdateMeta", "0e7febdc46c461eb", params(txt, txt), nil, ordered,
		func(tx *Store, a []any) ([][]any, string, error) {
			u, err := tx.updateWhere("meta_inf",
				func(r Row) bool { return sqlEq(r["key"], a[1]) },
				func(Row) (Row, error) { return Row{"value": a[0]}, nil })
			return nil, tagUpdate(len(u)), err
		})
}
