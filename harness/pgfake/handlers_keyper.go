package pgfake

// Handlers for keyper/database (keyper.sqlc.gen.go).  The SQL quoted in the
// comments is the text of the generated code (sqlc has expanded "*" and turned
// named arguments into $n).

func init() {
	const p = pkgKeyper + "."

	// SELECT count(*) FROM tendermint_batch_config
	reg(p+"CountBatchConfigs", "33d1e4e5f6b5e709", nil, countCol, ordered,
		countStmt("tendermint_batch_config", nil))

	// SELECT COUNT(*) FROM tendermint_batch_config
	// WHERE $1 <= activation_block_number AND activation_block_number < $2
	reg(p+"CountBatchConfigsInBlockRange", "d7017214b0fe1f81", params(i8, i8), countCol, ordered,
		countStmt("tendermint_batch_config", func(r Row, a []any) bool {
			return sqlLe(a[0], r["activation_block_number"]) && sqlLt(r["activation_block_number"], a[1])
		}))

	// SELECT COUNT(*) FROM tendermint_batch_config
	// WHERE ($1::TEXT[]) && keypers AND $2 <= activation_block_number AND activation_block_number < $3
	// (&& is array overlap: some element in common; NULL array -> unknown -> row excluded)
	reg(p+"CountBatchConfigsInBlockRangeWithKeyper", "2435d9ac1e914465", params(txtArr, i8, i8), countCol, ordered,
		countStmt("tendermint_batch_config", func(r Row, a []any) bool {
			return textArrayOverlap(a[0], r["keypers"]) == true &&
				sqlLe(a[1], r["activation_block_number"]) && sqlLt(r["activation_block_number"], a[2])
		}))

	// SELECT count(*) FROM decryption_key_share WHERE eon = $1 AND epoch_id = $2
	reg(p+"CountDecryptionKeyShares", "838004385ea7d949", params(i8, bya), countCol, ordered,
		countStmt("decryption_key_share", func(r Row, a []any) bool {
			return sqlEq(r["eon"], a[0]) && sqlEq(r["epoch_id"], a[1])
		}))

	// DELETE FROM poly_evals ev WHERE ev.eon=$1 AND ev.receiver_address=$2
	reg(p+"DeletePolyEval", "aedb31ce1c354775", params(i8, txt), nil, ordered,
		deleteStmt("poly_evals", func(r Row, a []any) bool {
			return sqlEq(r["eon"], a[0]) && sqlEq(r["receiver_address"], a[1])
		}))

	// DELETE FROM poly_evals ev WHERE ev.eon=$1
	reg(p+"DeletePolyEvalByEon", "40269eabf76204bd", params(i8), nil, ordered,
		deleteStmt("poly_evals", func(r Row, a []any) bool { return sqlEq(r["eon"], a[0]) }))

	// DELETE FROM puredkg WHERE eon=$1
	reg(p+"DeletePureDKG", "25a8ad489c8d028b", params(i8), nil, ordered,
		deleteStmt("puredkg", func(r Row, a []any) bool { return sqlEq(r["eon"], a[0]) }))

	// DELETE FROM tendermint_outgoing_messages WHERE id=$1        (id is SERIAL = integer)
	reg(p+"DeleteShutterMessage", "59b09733f5a10d20", params(i4), nil, ordered,
		deleteStmt("tendermint_outgoing_messages", func(r Row, a []any) bool { return sqlEq(r["id"], a[0]) }))

	// DELETE FROM tendermint_outgoing_messages WHERE description=$1
	reg(p+"DeleteShutterMessageByDesc", "9b95cf7447d55fbf", params(txt), nil, ordered,
		deleteStmt("tendermint_outgoing_messages", func(r Row, a []any) bool { return sqlEq(r["description"], a[0]) }))

	// SELECT EXISTS (SELECT 1 FROM decryption_key WHERE eon = $1 AND epoch_id = $2)
	reg(p+"ExistsDecryptionKey", "6ccc329e87aa9d91", params(i8, bya), existsCol, ordered,
		existsStmt("decryption_key", func(r Row, a []any) bool {
			return sqlEq(r["eon"], a[0]) && sqlEq(r["epoch_id"], a[1])
		}))

	// SELECT EXISTS (SELECT 1 FROM decryption_key_share WHERE eon = $1 AND epoch_id = $2 AND keyper_index = $3)
	reg(p+"ExistsDecryptionKeyShare", "677cb0a8ac2b1ea1", params(i8, bya, i8), existsCol, ordered,
		existsStmt("decryption_key_share", func(r Row, a []any) bool {
			return sqlEq(r["eon"], a[0]) && sqlEq(r["epoch_id"], a[1]) && sqlEq(r["keyper_index"], a[2])
		}))

	// SELECT eon, success, error, pure_result FROM dkg_result ORDER BY eon ASC
	reg(p+"GetAllDKGResults", "185a02cfeade98d7", nil, starCols("dkg_result"), ordered,
		selectStmt("dkg_result", allCols("dkg_result"), nil, []sortKey{asc("eon")}, -1))

	// SELECT eon, height, activation_block_number, keyper_config_index FROM eons ORDER BY eon
	reg(p+"GetAllEons", "dc6bdeeacac6995a", nil, starCols("eons"), ordered,
		selectStmt("eons", allCols("eons"), nil, []sortKey{asc("eon")}, -1))

	// WITH t1 AS (DELETE FROM outgoing_eon_keys RETURNING eon_public_key, eon)
	// SELECT t1.eon_public_key, t1.eon, eons.activation_block_number, tbc.keypers, tbc.keyper_config_index
	// FROM t1
	// INNER JOIN eons ON t1.eon = eons.eon
	// INNER JOIN tendermint_batch_config tbc ON eons.keyper_config_index = tbc.keyper_config_index
	//
	// All rows of outgoing_eon_keys are deleted, including those that find no
	// join partner (and are therefore not returned).  No ORDER BY.
	reg(p+"GetAndDeleteEonPublicKeys", "da2a8bdd0e0a225d", nil,
		concatCols(colsOf("outgoing_eon_keys", "eon_public_key", "eon"), colsOf("eons", "activation_block_number"),
			colsOf("tendermint_batch_config", "keypers", "keyper_config_index")), unordered,
		func(tx *Store, a []any) ([][]any, string, error) {
			t1 := tx.permute("outgoing_eon_keys", tx.deleteWhere("outgoing_eon_keys", nil))
			var out [][]any
			for _, k := range t1 {
				for _, e := range tx.where("eons", func(e Row) bool { return sqlEq(k["eon"], e["eon"]) }) {
					for _, c := range tx.where("tendermint_batch_config", func(c Row) bool {
						return sqlEq(e["keyper_config_index"], c["keyper_config_index"])
					}) {
						out = append(out, []any{k["eon_public_key"], k["eon"], e["activation_block_number"], c["keypers"], c["keyper_config_index"]})
					}
				}
			}
			return out, tagSelect(len(out)), nil
		})

	// SELECT keyper_config_index, height, keypers, threshold, started, activation_block_number
	// FROM tendermint_batch_config WHERE keyper_config_index = $1          (integer column)
	reg(p+"GetBatchConfig", "1667ed1b2b4e32e7", params(i4), starCols("tendermint_batch_config"), ordered,
		selectStmt("tendermint_batch_config", allCols("tendermint_batch_config"),
			func(r Row, a []any) bool { return sqlEq(r["keyper_config_index"], a[0]) }, nil, -1))

	// SELECT ... FROM tendermint_batch_config ORDER BY keyper_config_index
	reg(p+"GetBatchConfigs", "570dca04336ce758", nil, starCols("tendermint_batch_config"), ordered,
		selectStmt("tendermint_batch_config", allCols("tendermint_batch_config"), nil, []sortKey{asc("keyper_config_index")}, -1))

	// SELECT eon, success, error, pure_result FROM dkg_result WHERE eon = $1
	reg(p+"GetDKGResult", "c1343d9527af9230", params(i8), starCols("dkg_result"), ordered,
		selectStmt("dkg_result", allCols("dkg_result"), func(r Row, a []any) bool { return sqlEq(r["eon"], a[0]) }, nil, -1))

	// SELECT eon, success, error, pure_result FROM dkg_result
	// WHERE eon = (SELECT eon FROM eons WHERE activation_block_number <= $1
	//              ORDER BY activation_block_number DESC, height DESC LIMIT 1)
	// The scalar subquery is NULL when eons has no such row; eon = NULL keeps no row.
	// (activation_block_number, height) is not unique, so among ties the scan order decides.
	reg(p+"GetDKGResultForBlockNumber", "a31906552873b76e", params(i8), starCols("dkg_result"), unordered,
		func(tx *Store, a []any) ([][]any, string, error) {
			sub := orderRows(tx.where("eons", func(r Row) bool { return sqlLe(r["activation_block_number"], a[0]) }),
				desc("activation_block_number"), desc("height"))
			var eon any
			if len(sub) > 0 {
				eon = sub[0]["eon"]
			}
			rows := tx.where("dkg_result", func(r Row) bool { return sqlEq(r["eon"], eon) })
			return tx.star("dkg_result", rows), tagSelect(len(rows)), nil
		})

	// SELECT eon, success, error, pure_result FROM dkg_result
	// WHERE eon = (SELECT max(eon) FROM eons WHERE keyper_config_index = $1)
	// max over no rows is NULL; eon = NULL keeps no row.
	reg(p+"GetDKGResultForKeyperConfigIndex", "5d9a0ce7b0b93334", params(i8), starCols("dkg_result"), ordered,
		func(tx *Store, a []any) ([][]any, string, error) {
			m := tx.maxOf("eons", "eon", func(r Row) bool { return sqlEq(r["keyper_config_index"], a[0]) })
			rows := tx.where("dkg_result", func(r Row) bool { return sqlEq(r["eon"], m) })
			return tx.star("dkg_result", rows), tagSelect(len(rows)), nil
		})

	// SELECT eon, epoch_id, decryption_key FROM decryption_key WHERE eon = $1 AND epoch_id = $2
	reg(p+"GetDecryptionKey", "1662948b82280a39", params(i8, bya), starCols("decryption_key"), ordered,
		selectStmt("decryption_key", allCols("decryption_key"), func(r Row, a []any) bool {
			return sqlEq(r["eon"], a[0]) && sqlEq(r["epoch_id"], a[1])
		}, nil, -1))

	// SELECT eon, epoch_id, keyper_index, decryption_key_share FROM decryption_key_share
	// WHERE eon = $1 AND epoch_id = $2 AND keyper_index = $3
	reg(p+"GetDecryptionKeyShare", "8b7deca3bdbd794b", params(i8, bya, i8), starCols("decryption_key_share"), ordered,
		selectStmt("decryption_key_share", allCols("decryption_key_share"), func(r Row, a []any) bool {
			return sqlEq(r["eon"], a[0]) && sqlEq(r["epoch_id"], a[1]) && sqlEq(r["keyper_index"], a[2])
		}, nil, -1))

	// SELECT DISTINCT ON (address) address, encryption_public_key, height
	// FROM tendermint_encryption_key ORDER BY address, height DESC
	// = for every address the row with the greatest height, ordered by address.
	reg(p+"GetEncryptionKeys", "a4eae52b3c86915f", nil, starCols("tendermint_encryption_key"), ordered,
		func(tx *Store, a []any) ([][]any, string, error) {
			rows := latestEncryptionKeys(tx)
			return tx.star("tendermint_encryption_key", rows), tagSelect(len(rows)), nil
		})

	// SELECT eon, height, activation_block_number, keyper_config_index FROM eons WHERE eon=$1
	reg(p+"GetEon", "7034ca503bd676a7", params(i8), starCols("eons"), ordered,
		selectStmt("eons", allCols("eons"), func(r Row, a []any) bool { return sqlEq(r["eon"], a[0]) }, nil, -1))

	// SELECT eon, height, activation_block_number, keyper_config_index FROM eons
	// WHERE activation_block_number <= $1
	// ORDER BY activation_block_number DESC, height DESC LIMIT 1
	// (the sort key is not unique: among ties the scan order decides)
	reg(p+"GetEonForBlockNumber", "0b649d77a020c192", params(i8), starCols("eons"), unordered,
		selectStmt("eons", allCols("eons"), func(r Row, a []any) bool { return sqlLe(r["activation_block_number"], a[0]) },
			[]sortKey{desc("activation_block_number"), desc("height")}, 1))

	// SELECT ($1::TEXT[] && tbc.keypers)::BOOL AS is_keyper
	// FROM tendermint_batch_config AS tbc
	// LEFT JOIN eons ON eons.keyper_config_index =  tbc.keyper_config_index
	// WHERE eons.eon = $2
	// The WHERE on eons.eon discards the NULL-extended rows, so this is an inner join.
	reg(p+"GetKeyperStateForEon", "d3008e7939eb11f9", params(txtArr, i8), []ResultCol{{"is_keyper", OIDBool}}, unordered,
		func(tx *Store, a []any) ([][]any, string, error) {
			var out [][]any
			for _, c := range tx.all("tendermint_batch_config") {
				for _, e := range tx.where("eons", func(e Row) bool {
					return sqlEq(e["keyper_config_index"], c["keyper_config_index"]) && sqlEq(e["eon"], a[1])
				}) {
					_ = e
					out = append(out, []any{textArrayOverlap(a[0], c["keypers"])})
				}
			}
			return out, tagSelect(len(out)), nil
		})

	// SELECT keyper_config_index FROM last_batch_config_sent LIMIT 1
	reg(p+"GetLastBatchConfigProcessed", "4f97af480deaf9f5", nil, colsOf("last_batch_config_sent", "keyper_config_index"), unordered,
		selectStmt("last_batch_config_sent", []string{"keyper_config_index"}, nil, nil, 1))

	// SELECT block_number FROM last_block_seen LIMIT 1
	reg(p+"GetLastBlockSeen", "bc30456de4897eb2", nil, colsOf("last_block_seen", "block_number"), unordered,
		selectStmt("last_block_seen", []string{"block_number"}, nil, nil, 1))

	// SELECT last_committed_height FROM tendermint_sync_meta
	// ORDER BY current_block DESC, last_committed_height DESC LIMIT 1      (sort key = primary key)
	reg(p+"GetLastCommittedHeight", "bd57751fa59ce1ad", nil, colsOf("tendermint_sync_meta", "last_committed_height"), ordered,
		selectStmt("tendermint_sync_meta", []string{"last_committed_height"}, nil,
			[]sortKey{desc("current_block"), desc("last_committed_height")}, 1))

	// SELECT ... FROM tendermint_batch_config ORDER BY keyper_config_index DESC LIMIT 1
	reg(p+"GetLatestBatchConfig", "e10176ac76a8f848", nil, starCols("tendermint_batch_config"), ordered,
		selectStmt("tendermint_batch_config", allCols("tendermint_batch_config"), nil, []sortKey{desc("keyper_config_index")}, 1))

	// SELECT max(eons.eon)::INT FROM eons WHERE eons.keyper_config_index = $1
	// Always exactly one row; NULL if no eon matches; "integer out of range"
	// (22003) if the maximum does not fit int4.
	reg(p+"GetLatestEonForKeyperConfig", "9d72da234a4782c4", params(i8), []ResultCol{{"max", OIDInt4}}, ordered,
		func(tx *Store, a []any) ([][]any, string, error) {
			m := tx.maxOf("eons", "eon", func(r Row) bool { return sqlEq(r["keyper_config_index"], a[0]) })
			if m != nil {
				if _, err := normalise(OIDInt4, m); err != nil {
					return nil, "", err
				}
			}
			return [][]any{{m}}, tagSelect(1), nil
		})

	// SELECT eon, height, activation_block_number, keyper_config_index FROM eons
	// WHERE keyper_config_index = $1 ORDER BY eon DESC LIMIT 1
	reg(p+"GetLatestStartedEonByKeyperConfigIndex", "c1b138efb3c372cc", params(i8), starCols("eons"), ordered,
		selectStmt("eons", allCols("eons"), func(r Row, a []any) bool { return sqlEq(r["keyper_config_index"], a[0]) },
			[]sortKey{desc("eon")}, 1))

	// SELECT id, description, msg from tendermint_outgoing_messages ORDER BY id LIMIT 1
	reg(p+"GetNextShutterMessage", "5bda564c6e9b6575", nil, starCols("tendermint_outgoing_messages"), ordered,
		selectStmt("tendermint_outgoing_messages", allCols("tendermint_outgoing_messages"), nil, []sortKey{asc("id")}, 1))

	// INSERT INTO tendermint_batch_config (keyper_config_index, height, keypers, threshold, started, activation_block_number)
	// VALUES ($1, $2, $3, $4, $5, $6)
	reg(p+"InsertBatchConfig", "8c67a1ec5ceea8ee", params(i4, i8, txtArr, i4, bl, i8), nil, ordered,
		insertStmt("tendermint_batch_config",
			[]string{"keyper_config_index", "height", "keypers", "threshold", "started", "activation_block_number"}, nil))

	// INSERT INTO dkg_result (eon,success,error,pure_result) VALUES ($1,$2,$3,$4)
	reg(p+"InsertDKGResult", "1560f8d4c81ea57e", params(i8, bl, txt, bya), nil, ordered,
		insertStmt("dkg_result", []string{"eon", "success", "error", "pure_result"}, nil))

	// INSERT INTO decryption_key (eon, epoch_id, decryption_key) VALUES ($1, $2, $3) ON CONFLICT DO NOTHING
	reg(p+"InsertDecryptionKey", "be34bf6cde53e82f", params(i8, bya, bya), nil, ordered,
		insertStmt("decryption_key", []string{"eon", "epoch_id", "decryption_key"}, always(doNothing())))

	// INSERT INTO decryption_key_share (eon, epoch_id, keyper_index, decryption_key_share)
	// VALUES ($1, $2, $3, $4) ON CONFLICT DO NOTHING
	reg(p+"InsertDecryptionKeyShare", "1a60cce4ebecc5cc", params(i8, bya, i8, bya), nil, ordered,
		insertStmt("decryption_key_share", []string{"eon", "epoch_id", "keyper_index", "decryption_key_share"}, always(doNothing())))

	// INSERT INTO tendermint_encryption_key (address, encryption_public_key, height) VALUES ($1, $2, $3)
	// ON CONFLICT (address, height) DO UPDATE SET encryption_public_key = EXCLUDED.encryption_public_key
	reg(p+"InsertEncryptionKey", "d174717d6aff9f2c", params(txt, bya, i8), nil, ordered,
		insertStmt("tendermint_encryption_key", []string{"address", "encryption_public_key", "height"},
			setExcluded([]string{"address", "height"}, "encryption_public_key")))

	// INSERT INTO eons (eon, height, activation_block_number, keyper_config_index) VALUES ($1, $2, $3, $4)
	reg(p+"InsertEon", "83abaf1d61ebdc19", params(i8, i8, i8, i8), nil, ordered,
		insertStmt("eons", []string{"eon", "height", "activation_block_number", "keyper_config_index"}, nil))

	// INSERT INTO outgoing_eon_keys (eon_public_key, eon) VALUES ($1, $2)
	reg(p+"InsertEonPublicKey", "ab1a895566729a64", params(bya, i8), nil, ordered,
		insertStmt("outgoing_eon_keys", []string{"eon_public_key", "eon"}, nil))

	// INSERT INTO poly_evals (eon, receiver_address, eval) VALUES ($1, $2, $3)
	reg(p+"InsertPolyEval", "c493e04cfc66a6e7", params(i8, txt, bya), nil, ordered,
		insertStmt("poly_evals", []string{"eon", "receiver_address", "eval"}, nil))

	// INSERT INTO puredkg (eon, puredkg) VALUES ($1, $2)
	// ON CONFLICT (eon) DO UPDATE SET puredkg=EXCLUDED.puredkg
	reg(p+"InsertPureDKG", "5f4ccf3220d9992e", params(i8, bya), nil, ordered,
		insertStmt("puredkg", []string{"eon", "puredkg"}, setExcluded([]string{"eon"}, "puredkg")))

	// WITH latest_keys AS (
	//     SELECT DISTINCT ON (address) address, encryption_public_key, height
	//     FROM tendermint_encryption_key ORDER BY address, height DESC)
	// SELECT ev.eon, ev.receiver_address, ev.eval, k.encryption_public_key, eon.height
	// FROM poly_evals ev
	// INNER JOIN latest_keys k ON ev.receiver_address = k.address
	// INNER JOIN eons eon ON ev.eon = eon.eon
	// ORDER BY ev.eon
	// Rows with the same ev.eon (different receivers) come in scan order.
	reg(p+"PolyEvalsWithEncryptionKeys", "d3062dd74d0e5d77", nil,
		concatCols(colsOf("poly_evals", "eon", "receiver_address", "eval"),
			colsOf("tendermint_encryption_key", "encryption_public_key"), colsOf("eons", "height")), unordered,
		func(tx *Store, a []any) ([][]any, string, error) {
			keys := latestEncryptionKeys(tx)
			var out [][]any
			for _, ev := range orderRows(tx.all("poly_evals"), asc("eon")) {
				for _, k := range keys {
					if !sqlEq(ev["receiver_address"], k["address"]) {
						continue
					}
					for _, e := range tx.where("eons", func(e Row) bool { return sqlEq(ev["eon"], e["eon"]) }) {
						out = append(out, []any{ev["eon"], ev["receiver_address"], ev["eval"], k["encryption_public_key"], e["height"]})
					}
				}
			}
			return out, tagSelect(len(out)), nil
		})

	// INSERT INTO tendermint_outgoing_messages (description, msg) VALUES ($1, $2) RETURNING id
	reg(p+"ScheduleSerializedShutterMessage", "acc406f37653042b", params(txt, bya), colsOf("tendermint_outgoing_messages", "id"), ordered,
		func(tx *Store, a []any) ([][]any, string, error) {
			r, _, err := tx.insert("tendermint_outgoing_messages", Row{"description": a[0], "msg": a[1]}, conflict{})
			if err != nil {
				return nil, "", err
			}
			return [][]any{{r["id"]}}, tagInsert(1), nil
		})

	// SELECT eon, epoch_id, keyper_index, decryption_key_share FROM decryption_key_share
	// WHERE eon = $1 AND epoch_id = $2                               (no ORDER BY)
	reg(p+"SelectDecryptionKeyShares", "007665558507fdfa", params(i8, bya), starCols("decryption_key_share"), unordered,
		selectStmt("decryption_key_share", allCols("decryption_key_share"), func(r Row, a []any) bool {
			return sqlEq(r["eon"], a[0]) && sqlEq(r["epoch_id"], a[1])
		}, nil, -1))

	// SELECT eon, puredkg FROM puredkg                               (no ORDER BY)
	reg(p+"SelectPureDKG", "cb9e743ddb5d0e02", nil, starCols("puredkg"), unordered,
		selectStmt("puredkg", allCols("puredkg"), nil, nil, -1))

	// UPDATE tendermint_batch_config SET started = TRUE WHERE keyper_config_index = $1
	reg(p+"SetBatchConfigStarted", "921d522eca705d90", params(i4), nil, ordered,
		func(tx *Store, a []any) ([][]any, string, error) {
			u, err := tx.updateWhere("tendermint_batch_config",
				func(r Row) bool { return sqlEq(r["keyper_config_index"], a[0]) },
				func(Row) (Row, error) { return Row{"started": true}, nil })
			return nil, tagUpdate(len(u)), err
		})

	// INSERT INTO last_batch_config_sent (keyper_config_index) VALUES ($1)
	// ON CONFLICT (enforce_one_row) DO UPDATE SET keyper_config_index = $1
	reg(p+"SetLastBatchConfigProcessed", "8e5e3cf66538c7a2", params(i8), nil, ordered,
		insertStmt("last_batch_config_sent", []string{"keyper_config_index"},
			setParams([]string{"enforce_one_row"}, map[string]int{"keyper_config_index": 1})))

	// INSERT INTO last_block_seen (block_number) VALUES ($1)
	// ON CONFLICT (enforce_one_row) DO UPDATE SET block_number = $1
	reg(p+"SetLastBlockSeen", "8948ff0208607ac1", params(i8), nil, ordered,
		insertStmt("last_block_seen", []string{"block_number"},
			setParams([]string{"enforce_one_row"}, map[string]int{"block_number": 1})))

	// SELECT current_block, last_committed_height, sync_timestamp FROM tendermint_sync_meta
	// ORDER BY current_block DESC, last_committed_height DESC LIMIT 1
	reg(p+"TMGetSyncMeta", "f6aa2593dd1a8de8", nil, starCols("tendermint_sync_meta"), ordered,
		selectStmt("tendermint_sync_meta", allCols("tendermint_sync_meta"), nil,
			[]sortKey{desc("current_block"), desc("last_committed_height")}, 1))

	// INSERT INTO tendermint_sync_meta (current_block, last_committed_height, sync_timestamp) VALUES ($1, $2, $3)
	reg(p+"TMSetSyncMeta", "41105e99b4a8771b", params(i8, i8, tstamp), nil, ordered,
		insertStmt("tendermint_sync_meta", []string{"current_block", "last_committed_height", "sync_timestamp"}, nil))
}

// latestEncryptionKeys evaluates
//
//	SELECT DISTINCT ON (address) address, encryption_public_key, height
//	FROM tendermint_encryption_key ORDER BY address, height DESC
func latestEncryptionKeys(tx *Store) []Row {
	return distinctOn(orderRows(tx.all("tendermint_encryption_key"), asc("address"), desc("height")), "address")
}
