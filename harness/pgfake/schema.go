package pgfake

import "fmt"

// Package directories (relative to the repository root) whose sqlc statements
// and schemas pgfake knows about.
var PackageDirs = []string{
	"keyper/database",
	"keyperimpl/shutterservice/database",
	"keyperimpl/gnosis/database",
	"keyperimpl/primev/database",
	"chainobserver/db/keyper",
	"chainobserver/db/sync",
	"chainobserver/db/collator",
	"medley/db",
}

const (
	pkgKeyper   = "keyper/database"
	pkgService  = "keyperimpl/shutterservice/database"
	pkgGnosis   = "keyperimpl/gnosis/database"
	pkgPrimev   = "keyperimpl/primev/database"
	pkgObsKpr   = "chainobserver/db/keyper"
	pkgObsSync  = "chainobserver/db/sync"
	pkgObsColl  = "chainobserver/db/collator"
	pkgMedleyDB = "medley/db"
)

// Store names of the two tables whose SQL name clashes across packages
// (shutterservice and gnosis both define current_decryption_trigger, with
// different columns).  All other tables are stored under their SQL name.
const (
	TableServiceCurrentDecryptionTrigger = "shutterservice.current_decryption_trigger"
	TableGnosisCurrentDecryptionTrigger  = "gnosis.current_decryption_trigger"
)

// schemaFileHashes records sha256[:16] of every schema / migration file that
// was transcribed into tableDefs below.  A difference (or a file that is not
// listed) is reported as a schema-changed TieIssue.
var schemaFileHashes = map[string]string{
	"keyper/database/sql/schemas/keyper.sql":                                              "168eb8f5fae7c0a4",
	"keyper/database/sql/migrations/V2_updatable_encryption_keys.sql":                     "2c23a3b526b5c48b",
	"keyperimpl/shutterservice/database/sql/schemas/shutterservice.sql":                   "c99bb5e6a4a5015f",
	"keyperimpl/shutterservice/database/sql/migrations/V2_event_based_triggers.sql":       "aa7d2a0ba385aa11",
	"keyperimpl/shutterservice/database/sql/migrations/V3_event_trigger_identity_key.sql": "03878472ae4e7a9b",
	"keyperimpl/gnosis/database/sql/schemas/gnosiskeyper.sql":                             "18ad98991fd55a58",
	"keyperimpl/gnosis/database/sql/migrations/V2_validatorRegistrations.sql":             "016f3954a478f191",
	"keyperimpl/primev/database/sql/schemas/primev.sql":                                   "eabed6097a4615e3",
	"chainobserver/db/keyper/sql/schemas/keyper.sql":                                      "e036d312bb0026b6",
	"chainobserver/db/sync/sql/schemas/sync.sql":                                          "eaf7e294b9385cdc",
	"chainobserver/db/collator/sql/schemas/collator.sql":                                  "ee600afa6b54568f",
	"medley/db/sql/schemas/meta.sql":                                                      "bbc4e117ec61ae89",
}

type colOpt func(*Column)

func notNull(c *Column) { c.NotNull = true }
func nonNeg(c *Column)  { c.NonNeg = true }
func serial(c *Column)  { c.Serial = true; c.NotNull = true }
func dflt(v any) colOpt {
	return func(c *Column) { c.HasDefault = true; c.Default = v }
}

func col(name string, oid uint32, opts ...colOpt) Column {
	c := Column{Name: name, OID: oid}
	for _, o := range opts {
		o(&c)
	}
	return c
}

func bigint(name string, opts ...colOpt) Column  { return col(name, OIDInt8, opts...) }
func integer(name string, opts ...colOpt) Column { return col(name, OIDInt4, opts...) }
func text(name string, opts ...colOpt) Column    { return col(name, OIDText, opts...) }
func bytea(name string, opts ...colOpt) Column   { return col(name, OIDBytea, opts...) }
func boolean(name string, opts ...colOpt) Column { return col(name, OIDBool, opts...) }
func textArr(name string, opts ...colOpt) Column { return col(name, OIDTextArray, opts...) }

type initialRow struct {
	table string
	row   Row
}

// initialRows are the rows inserted by the schema files themselves.
var initialRows = []initialRow{
	// keyper.sql: INSERT INTO last_batch_config_sent (keyper_config_index) VALUES (0);
	{"last_batch_config_sent", Row{"keyper_config_index": int64(0)}},
	// keyper.sql: INSERT INTO last_block_seen (block_number) VALUES (-1);
	{"last_block_seen", Row{"block_number": int64(-1)}},
	// sync.sql: INSERT INTO event_sync_progress (next_block_number, next_log_index) VALUES (0,0);
	{"event_sync_progress", Row{"next_block_number": int64(0), "next_log_index": int64(0)}},
}

// tableDefs is the hand transcription of sql/schemas/*.sql with all
// sql/migrations/*.sql applied in order (the final schema).
var tableDefs = finishDefs([]*TableDef{
	// ------------------------------------------------------------------ keyper/database
	// CREATE TABLE decryption_trigger (epoch_id bytea PRIMARY KEY);
	{SQLName: "decryption_trigger", Pkg: pkgKeyper, Cols: []Column{bytea("epoch_id")}, PK: []string{"epoch_id"}},
	// CREATE TABLE decryption_key_share (eon bigint, epoch_id bytea, keyper_index bigint,
	//   decryption_key_share bytea, PRIMARY KEY (eon, epoch_id, keyper_index));
	{SQLName: "decryption_key_share", Pkg: pkgKeyper,
		Cols: []Column{bigint("eon"), bytea("epoch_id"), bigint("keyper_index"), bytea("decryption_key_share")},
		PK:   []string{"eon", "epoch_id", "keyper_index"}},
	// CREATE TABLE decryption_key (eon bigint, epoch_id bytea, decryption_key bytea, PRIMARY KEY (eon, epoch_id));
	{SQLName: "decryption_key", Pkg: pkgKeyper,
		Cols: []Column{bigint("eon"), bytea("epoch_id"), bytea("decryption_key")},
		PK:   []string{"eon", "epoch_id"}},
	// CREATE TABLE last_batch_config_sent(enforce_one_row BOOL PRIMARY KEY DEFAULT TRUE, keyper_config_index bigint NOT NULL);
	{SQLName: "last_batch_config_sent", Pkg: pkgKeyper,
		Cols: []Column{boolean("enforce_one_row", dflt(true)), bigint("keyper_config_index", notNull)},
		PK:   []string{"enforce_one_row"}},
	// CREATE TABLE last_block_seen(enforce_one_row BOOL PRIMARY KEY DEFAULT TRUE, block_number bigint NOT NULL);
	{SQLName: "last_block_seen", Pkg: pkgKeyper,
		Cols: []Column{boolean("enforce_one_row", dflt(true)), bigint("block_number", notNull)},
		PK:   []string{"enforce_one_row"}},
	// CREATE TABLE tendermint_sync_meta (current_block bigint NOT NULL, last_committed_height bigint NOT NULL,
	//   sync_timestamp timestamp NOT NULL, PRIMARY KEY (current_block, last_committed_height));
	{SQLName: "tendermint_sync_meta", Pkg: pkgKeyper,
		Cols: []Column{bigint("current_block", notNull), bigint("last_committed_height", notNull), col("sync_timestamp", OIDTimestamp, notNull)},
		PK:   []string{"current_block", "last_committed_height"}},
	// CREATE TABLE puredkg (eon bigint PRIMARY KEY, puredkg BYTEA NOT NULL);
	{SQLName: "puredkg", Pkg: pkgKeyper,
		Cols: []Column{bigint("eon"), bytea("puredkg", notNull)},
		PK:   []string{"eon"}},
	// CREATE TABLE tendermint_batch_config(keyper_config_index integer PRIMARY KEY, height bigint NOT NULL,
	//   keypers text[] NOT NULL, threshold integer NOT NULL, started boolean NOT NULL, activation_block_number bigint NOT NULL);
	{SQLName: "tendermint_batch_config", Pkg: pkgKeyper,
		Cols: []Column{integer("keyper_config_index"), bigint("height", notNull), textArr("keypers", notNull),
			integer("threshold", notNull), boolean("started", notNull), bigint("activation_block_number", notNull)},
		PK: []string{"keyper_config_index"}},
	// CREATE TABLE tendermint_encryption_key(address TEXT PRIMARY KEY, encryption_public_key BYTEA NOT NULL);
	// V2: ADD COLUMN height bigint NOT NULL DEFAULT 0; DROP CONSTRAINT tendermint_encryption_key_pkey;
	//     ADD PRIMARY KEY (address, height);
	{SQLName: "tendermint_encryption_key", Pkg: pkgKeyper,
		Cols: []Column{text("address"), bytea("encryption_public_key", notNull), bigint("height", notNull, dflt(int64(0)))},
		PK:   []string{"address", "height"}},
	// CREATE TABLE tendermint_outgoing_messages(id SERIAL PRIMARY KEY, description TEXT NOT NULL, msg BYTEA NOT NULL);
	{SQLName: "tendermint_outgoing_messages", Pkg: pkgKeyper,
		Cols: []Column{integer("id", serial), text("description", notNull), bytea("msg", notNull)},
		PK:   []string{"id"}},
	// CREATE TABLE eons(eon bigint PRIMARY KEY, height bigint NOT NULL, activation_block_number bigint NOT NULL,
	//   keyper_config_index bigint NOT NULL);
	{SQLName: "eons", Pkg: pkgKeyper,
		Cols: []Column{bigint("eon"), bigint("height", notNull), bigint("activation_block_number", notNull), bigint("keyper_config_index", notNull)},
		PK:   []string{"eon"}},
	// CREATE TABLE poly_evals(eon bigint NOT NULL, receiver_address TEXT NOT NULL, eval BYTEA NOT NULL,
	//   PRIMARY KEY (eon, receiver_address));
	{SQLName: "poly_evals", Pkg: pkgKeyper,
		Cols: []Column{bigint("eon", notNull), text("receiver_address", notNull), bytea("eval", notNull)},
		PK:   []string{"eon", "receiver_address"}},
	// CREATE TABLE dkg_result(eon bigint PRIMARY KEY, success BOOLEAN NOT NULL, error TEXT, pure_result BYTEA);
	{SQLName: "dkg_result", Pkg: pkgKeyper,
		Cols: []Column{bigint("eon"), boolean("success", notNull), text("error"), bytea("pure_result")},
		PK:   []string{"eon"}},
	// CREATE TABLE outgoing_eon_keys(eon_public_key bytea, eon bigint NOT NULL PRIMARY KEY);
	{SQLName: "outgoing_eon_keys", Pkg: pkgKeyper,
		Cols: []Column{bytea("eon_public_key"), bigint("eon", notNull)},
		PK:   []string{"eon"}},

	// ------------------------------------------------------------------ keyperimpl/shutterservice/database
	// CREATE TABLE identity_registered_event (block_number bigint NOT NULL CHECK (block_number >= 0),
	//   block_hash bytea NOT NULL, tx_index bigint NOT NULL CHECK (tx_index >= 0),
	//   log_index bigint NOT NULL CHECK (log_index >= 0), eon bigint NOT NULL CHECK (eon >= 0),
	//   identity_prefix bytea NOT NULL, sender text NOT NULL, timestamp bigint NOT NULL,
	//   decrypted boolean NOT NULL DEFAULT false, identity bytea NOT NULL, PRIMARY KEY (identity_prefix, sender));
	{SQLName: "identity_registered_event", Pkg: pkgService,
		Cols: []Column{bigint("block_number", notNull, nonNeg), bytea("block_hash", notNull), bigint("tx_index", notNull, nonNeg),
			bigint("log_index", notNull, nonNeg), bigint("eon", notNull, nonNeg), bytea("identity_prefix", notNull),
			text("sender", notNull), bigint("timestamp", notNull), boolean("decrypted", notNull, dflt(false)), bytea("identity", notNull)},
		PK: []string{"identity_prefix", "sender"}},
	// CREATE TABLE identity_registered_events_synced_until(enforce_one_row bool PRIMARY KEY DEFAULT true,
	//   block_hash bytea NOT NULL, block_number bigint NOT NULL CHECK (block_number >= 0));
	{SQLName: "identity_registered_events_synced_until", Pkg: pkgService,
		Cols: []Column{boolean("enforce_one_row", dflt(true)), bytea("block_hash", notNull), bigint("block_number", notNull, nonNeg)},
		PK:   []string{"enforce_one_row"}},
	// CREATE TABLE current_decryption_trigger(eon bigint CHECK (eon >= 0),
	//   triggered_block_number bigint NOT NULL CHECK (triggered_block_number >= 0),
	//   identities_hash bytea NOT NULL, PRIMARY KEY (eon, triggered_block_number));
	{Name: TableServiceCurrentDecryptionTrigger, SQLName: "current_decryption_trigger", Pkg: pkgService,
		Cols: []Column{bigint("eon", nonNeg), bigint("triggered_block_number", notNull, nonNeg), bytea("identities_hash", notNull)},
		PK:   []string{"eon", "triggered_block_number"}},
	// CREATE TABLE decryption_signatures(eon bigint NOT NULL CHECK (eon >= 0), keyper_index bigint NOT NULL,
	//   identities_hash bytea NOT NULL, signature bytea NOT NULL, PRIMARY KEY (eon, keyper_index, identities_hash));
	{SQLName: "decryption_signatures", Pkg: pkgService,
		Cols: []Column{bigint("eon", notNull, nonNeg), bigint("keyper_index", notNull), bytea("identities_hash", notNull), bytea("signature", notNull)},
		PK:   []string{"eon", "keyper_index", "identities_hash"}},
	// V2: CREATE TABLE event_trigger_registered_event (block_number bigint NOT NULL CHECK (block_number >= 0),
	//   block_hash bytea NOT NULL, tx_index bigint NOT NULL CHECK (tx_index >= 0),
	//   log_index bigint NOT NULL CHECK (log_index >= 0), eon bigint NOT NULL CHECK (eon >= 0),
	//   identity_prefix bytea NOT NULL, sender text NOT NULL, definition bytea NOT NULL,
	//   expiration_block_number bigint NOT NULL CHECK (expiration_block_number >= 0),
	//   decrypted boolean NOT NULL DEFAULT false, identity bytea NOT NULL,
	//   PRIMARY KEY (eon, identity_prefix, sender));
	// V3: primary key replaced by PRIMARY KEY (eon, identity).
	{SQLName: "event_trigger_registered_event", Pkg: pkgService,
		Cols: []Column{bigint("block_number", notNull, nonNeg), bytea("block_hash", notNull), bigint("tx_index", notNull, nonNeg),
			bigint("log_index", notNull, nonNeg), bigint("eon", notNull, nonNeg), bytea("identity_prefix", notNull),
			text("sender", notNull), bytea("definition", notNull), bigint("expiration_block_number", notNull, nonNeg),
			boolean("decrypted", notNull, dflt(false)), bytea("identity", notNull)},
		PK: []string{"eon", "identity"}},
	// V2: CREATE TABLE multi_event_sync_status (enforce_one_row bool PRIMARY KEY DEFAULT true,
	//   block_number bigint NOT NULL CHECK (block_number >= 0), block_hash bytea NOT NULL);
	{SQLName: "multi_event_sync_status", Pkg: pkgService,
		Cols: []Column{boolean("enforce_one_row", dflt(true)), bigint("block_number", notNull, nonNeg), bytea("block_hash", notNull)},
		PK:   []string{"enforce_one_row"}},
	// V2: CREATE TABLE fired_triggers (eon bigint NOT NULL, identity_prefix bytea NOT NULL, sender text NOT NULL,
	//   block_number bigint NOT NULL CHECK (block_number >= 0), block_hash bytea NOT NULL,
	//   tx_index bigint NOT NULL CHECK (tx_index >= 0), log_index bigint NOT NULL CHECK (log_index >= 0),
	//   PRIMARY KEY (eon, identity_prefix, sender), FOREIGN KEY (eon, identity_prefix, sender) REFERENCES ... ON DELETE CASCADE);
	// V3: ADD COLUMN identity bytea (then SET NOT NULL); old fkey and pkey dropped;
	//   PRIMARY KEY (eon, identity); CONSTRAINT fired_triggers_eon_identity_fkey FOREIGN KEY (eon, identity)
	//   REFERENCES event_trigger_registered_event (eon, identity) ON DELETE CASCADE.
	{SQLName: "fired_triggers", Pkg: pkgService,
		Cols: []Column{bigint("eon", notNull), bytea("identity_prefix", notNull), text("sender", notNull),
			bigint("block_number", notNull, nonNeg), bytea("block_hash", notNull), bigint("tx_index", notNull, nonNeg),
			bigint("log_index", notNull, nonNeg), bytea("identity", notNull)},
		PK: []string{"eon", "identity"},
		FKs: []ForeignKey{{Name: "fired_triggers_eon_identity_fkey", Cols: []string{"eon", "identity"},
			RefTable: "event_trigger_registered_event", RefCols: []string{"eon", "identity"}, OnDeleteCascade: true}}},

	// ------------------------------------------------------------------ keyperimpl/gnosis/database
	// CREATE TABLE transaction_submitted_event (index bigint CHECK (index >= 0),
	//   block_number bigint NOT NULL CHECK (block_number >= 0), block_hash bytea NOT NULL,
	//   tx_index bigint NOT NULL CHECK (tx_index >= 0), log_index bigint NOT NULL CHECK (log_index >= 0),
	//   eon bigint NOT NULL CHECK (eon >= 0), identity_prefix bytea NOT NULL, sender text NOT NULL,
	//   gas_limit bigint NOT NULL CHECK (gas_limit >= 0), PRIMARY KEY (index, eon));
	{SQLName: "transaction_submitted_event", Pkg: pkgGnosis,
		Cols: []Column{bigint("index", nonNeg), bigint("block_number", notNull, nonNeg), bytea("block_hash", notNull),
			bigint("tx_index", notNull, nonNeg), bigint("log_index", notNull, nonNeg), bigint("eon", notNull, nonNeg),
			bytea("identity_prefix", notNull), text("sender", notNull), bigint("gas_limit", notNull, nonNeg)},
		PK: []string{"index", "eon"}},
	// CREATE TABLE transaction_submitted_events_synced_until(enforce_one_row bool PRIMARY KEY DEFAULT true,
	//   block_hash bytea NOT NULL, block_number bigint NOT NULL CHECK (block_number >= 0),
	//   slot bigint NOT NULL CHECK (slot >= 0));
	{SQLName: "transaction_submitted_events_synced_until", Pkg: pkgGnosis,
		Cols: []Column{boolean("enforce_one_row", dflt(true)), bytea("block_hash", notNull), bigint("block_number", notNull, nonNeg), bigint("slot", notNull, nonNeg)},
		PK:   []string{"enforce_one_row"}},
	// CREATE TABLE transaction_submitted_event_count(eon bigint PRIMARY KEY,
	//   event_count bigint NOT NULL DEFAULT 0 CHECK (event_count >= 0));
	{SQLName: "transaction_submitted_event_count", Pkg: pkgGnosis,
		Cols: []Column{bigint("eon"), bigint("event_count", notNull, nonNeg, dflt(int64(0)))},
		PK:   []string{"eon"}},
	// CREATE TABLE tx_pointer(eon bigint PRIMARY KEY, age bigint, value bigint NOT NULL DEFAULT 0);
	{SQLName: "tx_pointer", Pkg: pkgGnosis,
		Cols: []Column{bigint("eon"), bigint("age"), bigint("value", notNull, dflt(int64(0)))},
		PK:   []string{"eon"}},
	// CREATE TABLE current_decryption_trigger(eon bigint PRIMARY KEY CHECK (eon >= 0),
	//   slot bigint NOT NULL CHECK (slot >= 0), tx_pointer bigint NOT NULL CHECK (tx_pointer >= 0),
	//   identities_hash bytea NOT NULL);
	{Name: TableGnosisCurrentDecryptionTrigger, SQLName: "current_decryption_trigger", Pkg: pkgGnosis,
		Cols: []Column{bigint("eon", nonNeg), bigint("slot", notNull, nonNeg), bigint("tx_pointer", notNull, nonNeg), bytea("identities_hash", notNull)},
		PK:   []string{"eon"}},
	// CREATE TABLE slot_decryption_signatures(eon bigint NOT NULL CHECK (eon >= 0),
	//   slot bigint NOT NULL CHECK (slot >= 0), keyper_index bigint NOT NULL,
	//   tx_pointer bigint NOT NULL CHECK (tx_pointer >= 0), identities_hash bytea NOT NULL,
	//   signature bytea NOT NULL, PRIMARY KEY (eon, slot, keyper_index));
	{SQLName: "slot_decryption_signatures", Pkg: pkgGnosis,
		Cols: []Column{bigint("eon", notNull, nonNeg), bigint("slot", notNull, nonNeg), bigint("keyper_index", notNull),
			bigint("tx_pointer", notNull, nonNeg), bytea("identities_hash", notNull), bytea("signature", notNull)},
		PK: []string{"eon", "slot", "keyper_index"}},
	// CREATE TABLE validator_registrations(block_number bigint NOT NULL CHECK (block_number >= 0),
	//   block_hash bytea NOT NULL, tx_index bigint NOT NULL CHECK (tx_index >= 0),
	//   log_index bigint NOT NULL CHECK (log_index >= 0), validator_index bigint NOT NULL CHECK (validator_index >= 0),
	//   nonce bigint NOT NULL CHECK (nonce >= 0), is_registration bool NOT NULL,
	//   PRIMARY KEY (block_number, tx_index, log_index));
	// V2: DROP CONSTRAINT validator_registrations_pkey, ADD PRIMARY KEY (block_number, tx_index, log_index, validator_index);
	{SQLName: "validator_registrations", Pkg: pkgGnosis,
		Cols: []Column{bigint("block_number", notNull, nonNeg), bytea("block_hash", notNull), bigint("tx_index", notNull, nonNeg),
			bigint("log_index", notNull, nonNeg), bigint("validator_index", notNull, nonNeg), bigint("nonce", notNull, nonNeg),
			boolean("is_registration", notNull)},
		PK: []string{"block_number", "tx_index", "log_index", "validator_index"}},
	// CREATE TABLE validator_registrations_synced_until(enforce_one_row bool PRIMARY KEY DEFAULT true,
	//   block_hash bytea NOT NULL, block_number bigint NOT NULL CHECK (block_number >= 0));
	{SQLName: "validator_registrations_synced_until", Pkg: pkgGnosis,
		Cols: []Column{boolean("enforce_one_row", dflt(true)), bytea("block_hash", notNull), bigint("block_number", notNull, nonNeg)},
		PK:   []string{"enforce_one_row"}},

	// ------------------------------------------------------------------ keyperimpl/primev/database
	// CREATE TABLE commitment(tx_hashes text[] NOT NULL, provider_address text NOT NULL,
	//   commitment_signature text NOT NULL, commitment_digest text NOT NULL,
	//   block_number bigint NOT NULL CHECK (block_number >= 0), received_bid_digest text NOT NULL,
	//   received_bid_signature text NOT NULL, bidder_node_address text NOT NULL,
	//   PRIMARY KEY (commitment_digest, provider_address));
	{SQLName: "commitment", Pkg: pkgPrimev,
		Cols: []Column{textArr("tx_hashes", notNull), text("provider_address", notNull), text("commitment_signature", notNull),
			text("commitment_digest", notNull), bigint("block_number", notNull, nonNeg), text("received_bid_digest", notNull),
			text("received_bid_signature", notNull), text("bidder_node_address", notNull)},
		PK: []string{"commitment_digest", "provider_address"}},
	// CREATE TABLE committed_transactions(eon bigint NOT NULL CHECK (eon >= 0), identity_prefix text NOT NULL,
	//   identity_preimage text NOT NULL, block_number bigint NOT NULL CHECK (block_number >= 0),
	//   tx_hash text NOT NULL, commitment_digest text NOT NULL, provider_address text NOT NULL,
	//   PRIMARY KEY (eon, identity_preimage, tx_hash, block_number),
	//   FOREIGN KEY (commitment_digest, provider_address) REFERENCES commitment(commitment_digest, provider_address));
	{SQLName: "committed_transactions", Pkg: pkgPrimev,
		Cols: []Column{bigint("eon", notNull, nonNeg), text("identity_prefix", notNull), text("identity_preimage", notNull),
			bigint("block_number", notNull, nonNeg), text("tx_hash", notNull), text("commitment_digest", notNull), text("provider_address", notNull)},
		PK: []string{"eon", "identity_preimage", "tx_hash", "block_number"},
		FKs: []ForeignKey{{Name: "committed_transactions_commitment_digest_provider_address_fkey",
			Cols: []string{"commitment_digest", "provider_address"}, RefTable: "commitment", RefCols: []string{"commitment_digest", "provider_address"}}}},
	// CREATE TABLE provider_registry_events_synced_until(enforce_one_row bool PRIMARY KEY DEFAULT true,
	//   block_hash bytea NOT NULL, block_number bigint NOT NULL CHECK (block_number >= 0));
	{SQLName: "provider_registry_events_synced_until", Pkg: pkgPrimev,
		Cols: []Column{boolean("enforce_one_row", dflt(true)), bytea("block_hash", notNull), bigint("block_number", notNull, nonNeg)},
		PK:   []string{"enforce_one_row"}},
	// CREATE TABLE provider_registry_events(block_number bigint NOT NULL CHECK (block_number >= 0),
	//   block_hash bytea NOT NULL, tx_index bigint NOT NULL CHECK (tx_index >= 0),
	//   log_index bigint NOT NULL CHECK (log_index >= 0), provider_address text NOT NULL,
	//   bls_keys bytea[] NOT NULL, PRIMARY KEY (block_number, tx_index, log_index));
	{SQLName: "provider_registry_events", Pkg: pkgPrimev,
		Cols: []Column{bigint("block_number", notNull, nonNeg), bytea("block_hash", notNull), bigint("tx_index", notNull, nonNeg),
			bigint("log_index", notNull, nonNeg), text("provider_address", notNull), col("bls_keys", OIDByteaArray, notNull)},
		PK: []string{"block_number", "tx_index", "log_index"}},

	// ------------------------------------------------------------------ chainobserver/db/keyper
	// CREATE TABLE keyper_set(keyper_config_index bigint NOT NULL, activation_block_number bigint NOT NULL,
	//   keypers text[] NOT NULL, threshold integer NOT NULL, PRIMARY KEY (keyper_config_index));
	{SQLName: "keyper_set", Pkg: pkgObsKpr,
		Cols: []Column{bigint("keyper_config_index", notNull), bigint("activation_block_number", notNull), textArr("keypers", notNull), integer("threshold", notNull)},
		PK:   []string{"keyper_config_index"}},
	// CREATE TABLE recent_block (block_hash bytea NOT NULL, block_number bigint NOT NULL, parent_hash bytea NOT NULL,
	//   timestamp bigint NOT NULL, header bytea NOT NULL, PRIMARY KEY (block_number));
	{SQLName: "recent_block", Pkg: pkgObsKpr,
		Cols: []Column{bytea("block_hash", notNull), bigint("block_number", notNull), bytea("parent_hash", notNull), bigint("timestamp", notNull), bytea("header", notNull)},
		PK:   []string{"block_number"}},

	// ------------------------------------------------------------------ chainobserver/db/sync
	// CREATE TABLE event_sync_progress (id bool UNIQUE NOT NULL DEFAULT true,
	//   next_block_number integer NOT NULL, next_log_index integer NOT NULL);
	{SQLName: "event_sync_progress", Pkg: pkgObsSync,
		Cols:    []Column{boolean("id", notNull, dflt(true)), integer("next_block_number", notNull), integer("next_log_index", notNull)},
		Uniques: [][]string{{"id"}}},

	// ------------------------------------------------------------------ chainobserver/db/collator
	// CREATE TABLE chain_collator(activation_block_number bigint PRIMARY KEY, collator text NOT NULL);
	{SQLName: "chain_collator", Pkg: pkgObsColl,
		Cols: []Column{bigint("activation_block_number"), text("collator", notNull)},
		PK:   []string{"activation_block_number"}},

	// ------------------------------------------------------------------ medley/db
	// CREATE TABLE meta_inf(key text PRIMARY KEY, value text NOT NULL);
	{SQLName: "meta_inf", Pkg: pkgMedleyDB,
		Cols: []Column{text("key"), text("value", notNull)},
		PK:   []string{"key"}},
})

func finishDefs(defs []*TableDef) []*TableDef {
	seen := map[string]bool{}
	for _, d := range defs {
		if d.Name == "" {
			d.Name = d.SQLName
		}
		if seen[d.Name] {
			panic("pgfake: duplicate table name " + d.Name)
		}
		seen[d.Name] = true
		for _, k := range d.PK {
			c := d.col(k)
			if c == nil {
				panic(fmt.Sprintf("pgfake: table %s: primary key column %s missing", d.Name, k))
			}
			c.NotNull = true // PRIMARY KEY implies NOT NULL
		}
		for _, u := range d.Uniques {
			for _, k := range u {
				if d.col(k) == nil {
					panic(fmt.Sprintf("pgfake: table %s: unique column %s missing", d.Name, k))
				}
			}
		}
		for _, c := range d.Cols {
			if c.HasDefault {
				v, err := normalise(c.OID, c.Default)
				if err != nil || v == nil {
					panic(fmt.Sprintf("pgfake: table %s: bad default for %s", d.Name, c.Name))
				}
			}
		}
	}
	for _, d := range defs {
		for _, fk := range d.FKs {
			if !seen[fk.RefTable] {
				panic(fmt.Sprintf("pgfake: table %s: foreign key to unknown table %s", d.Name, fk.RefTable))
			}
		}
	}
	return defs
}

func tableDefByName(name string) *TableDef {
	for _, d := range tableDefs {
		if d.Name == name {
			return d
		}
	}
	return nil
}
