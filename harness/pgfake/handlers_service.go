package pgfake

// Handlers for keyperimpl/shutterservice/database (shutterservice.sqlc.gen.go).

func init() {
	const p = pkgService + "."
	const cdt = TableServiceCurrentDecryptionTrigger

	// DELETE FROM event_trigger_registered_event WHERE block_number >= $1
	// (fired_triggers rows referencing a deleted event go too: ON DELETE CASCADE)
	reg(p+"DeleteEventTriggerRegisteredEventsFromBlockNumber", "7f579ecd449db0cf", params(i8), nil, ordered,
		deleteStmt("event_trigger_registered_event", func(r Row, a []any) bool { return sqlGe(r["block_number"], a[0]) }))

	// DELETE FROM fired_triggers WHERE block_number >= $1
	reg(p+"DeleteFiredTriggersFromBlockNumber", "e8ba0365a1770bb0", params(i8), nil, ordered,
		deleteStmt("fired_triggers", func(r Row, a []any) bool { return sqlGe(r["block_number"], a[0]) }))

	// DELETE FROM identity_registered_event WHERE block_number >= $1
	reg(p+"DeleteIdentityRegisteredEventsFromBlockNumber", "13730194a67a2ee7", params(i8), nil, ordered,
		deleteStmt("identity_registered_event", func(r Row, a []any) bool { return sqlGe(r["block_number"], a[0]) }))

	// SELECT <all columns> FROM event_trigger_registered_event e
	// WHERE e.expiration_block_number >= $1 -- not expired at given block
	// AND e.decrypted = false  -- not decrypted yet
	// AND NOT EXISTS (  -- not fired yet
	//     SELECT 1 FROM fired_triggers t WHERE t.eon = e.eon AND t.identity = e.identity)
	// No ORDER BY.
	reg(p+"GetActiveEventTriggerRegisteredEvents", "f7f676e9d9275821", params(i8), starCols("event_trigger_registered_event"), unordered,
		func(tx *Store, a []any) ([][]any, string, error) {
			rows := tx.where("event_trigger_registered_event", func(e Row) bool {
				return sqlGe(e["expiration_block_number"], a[0]) && sqlEq(e["decrypted"], false) &&
					!tx.exists("fired_triggers", func(t Row) bool {
						return sqlEq(t["eon"], e["eon"]) && sqlEq(t["identity"], e["identity"])
					})
			})
			return tx.star("event_trigger_registered_event", rows), tagSelect(len(rows)), nil
		})

	// SELECT eon, triggered_block_number, identities_hash FROM current_decryption_trigger
	// WHERE eon = $1 ORDER BY triggered_block_number DESC LIMIT 1       (unique within an eon)
	reg(p+"GetCurrentDecryptionTrigger", "dc9ccf3257aa01d5", params(i8), starCols(cdt), ordered,
		selectStmt(cdt, allCols(cdt), func(r Row, a []any) bool { return sqlEq(r["eon"], a[0]) },
			[]sortKey{desc("triggered_block_number")}, 1))

	// SELECT eon, keyper_index, identities_hash, signature FROM decryption_signatures
	// WHERE eon = $1 AND identities_hash = $2 ORDER BY keyper_index ASC LIMIT $3
	// (keyper_index is unique for fixed eon and identities_hash; LIMIT takes a bigint)
	reg(p+"GetDecryptionSignatures", "3b562aafe62b29f1", params(i8, bya, i8), starCols("decryption_signatures"), ordered,
		func(tx *Store, a []any) ([][]any, string, error) {
			rows := orderRows(tx.where("decryption_signatures", func(r Row) bool {
				return sqlEq(r["eon"], a[0]) && sqlEq(r["identities_hash"], a[1])
			}), asc("keyper_index"))
			rows, err := limitRows(rows, a[2])
			if err != nil {
				return nil, "", err
			}
			return tx.star("decryption_signatures", rows), tagSelect(len(rows)), nil
		})

	// SELECT enforce_one_row, block_hash, block_number FROM identity_registered_events_synced_until LIMIT 1
	reg(p+"GetIdentityRegisteredEventsSyncedUntil", "2395713f667346b1", nil, starCols("identity_registered_events_synced_until"), unordered,
		selectStmt("identity_registered_events_synced_until", allCols("identity_registered_events_synced_until"), nil, nil, 1))

	// SELECT enforce_one_row, block_number, block_hash FROM multi_event_sync_status LIMIT 1
	reg(p+"GetMultiEventSyncStatus", "efc374481990315e", nil, starCols("multi_event_sync_status"), unordered,
		selectStmt("multi_event_sync_status", allCols("multi_event_sync_status"), nil, nil, 1))

	// SELECT <all columns> FROM identity_registered_event
	// WHERE timestamp >= $1 AND timestamp <= $2 AND decrypted = false
	// ORDER BY timestamp ASC              (timestamp is not unique: ties come in scan order)
	reg(p+"GetNotDecryptedIdentityRegisteredEvents", "dc8a40b6fb1b1595", params(i8, i8), starCols("identity_registered_event"), unordered,
		selectStmt("identity_registered_event", allCols("identity_registered_event"), func(r Row, a []any) bool {
			return sqlGe(r["timestamp"], a[0]) && sqlLe(r["timestamp"], a[1]) && sqlEq(r["decrypted"], false)
		}, []sortKey{asc("timestamp")}, -1))

	// SELECT f.identity_prefix, f.sender, f.block_number, f.block_hash, f.tx_index, f.log_index,
	//    e.eon AS eon, e.expiration_block_number AS expiration_block_number,
	//    e.identity AS identity, e.decrypted AS decrypted
	// FROM fired_triggers f
	// INNER JOIN event_trigger_registered_event e ON f.eon = e.eon AND f.identity = e.identity
	// WHERE NOT EXISTS (  -- not decrypted yet
	//     SELECT 1 FROM event_trigger_registered_event e
	//     WHERE e.eon = f.eon AND e.identity = f.identity AND e.decrypted = true)
	// No ORDER BY.
	reg(p+"GetUndecryptedFiredTriggers", "8757fc78c0d8989b", nil,
		concatCols(colsOf("fired_triggers", "identity_prefix", "sender", "block_number", "block_hash", "tx_index", "log_index"),
			colsOf("event_trigger_registered_event", "eon", "expiration_block_number", "identity", "decrypted")), unordered,
		func(tx *Store, a []any) ([][]any, string, error) {
			var out [][]any
			for _, f := range tx.all("fired_triggers") {
				if tx.exists("event_trigger_registered_event", func(e Row) bool {
					return sqlEq(e["eon"], f["eon"]) && sqlEq(e["identity"], f["identity"]) && sqlEq(e["decrypted"], true)
				}) {
					continue
				}
				for _, e := range tx.where("event_trigger_registered_event", func(e Row) bool {
					return sqlEq(f["eon"], e["eon"]) && sqlEq(f["identity"], e["identity"])
				}) {
					out = append(out, []any{f["identity_prefix"], f["sender"], f["block_number"], f["block_hash"], f["tx_index"], f["log_index"],
						e["eon"], e["expiration_block_number"], e["identity"], e["decrypted"]})
				}
			}
			return out, tagSelect(len(out)), nil
		})

	// INSERT INTO decryption_signatures (eon, keyper_index, identities_hash, signature)
	// VALUES ($1, $2, $3, $4) ON CONFLICT DO NOTHING
	reg(p+"InsertDecryptionSignature", "482f9177babecfae", params(i8, i8, bya, bya), nil, ordered,
		insertStmt("decryption_signatures", []string{"eon", "keyper_index", "identities_hash", "signature"}, always(doNothing())))

	// INSERT INTO event_trigger_registered_event (block_number, block_hash, tx_index, log_index, eon,
	//     identity_prefix, sender, definition, expiration_block_number, identity)
	// VALUES ($1, $2, $3, $4, $5, $6, $7, $8, $9, $10)
	// ON CONFLICT (eon, identity) DO UPDATE SET
	// block_number = $1, block_hash = $2, tx_index = $3, log_index = $4,
	// definition = $8, expiration_block_number = $9, identity = $10
	// On conflict eon, identity_prefix, sender and decrypted keep their old values.
	reg(p+"InsertEventTriggerRegisteredEvent", "c6b76fb70fa10a51", params(i8, bya, i8, i8, i8, bya, txt, bya, i8, bya), nil, ordered,
		insertStmt("event_trigger_registered_event",
			[]string{"block_number", "block_hash", "tx_index", "log_index", "eon", "identity_prefix", "sender", "definition", "expiration_block_number", "identity"},
			setParams([]string{"eon", "identity"}, map[string]int{
				"block_number": 1, "block_hash": 2, "tx_index": 3, "log_index": 4,
				"definition": 8, "expiration_block_number": 9, "identity": 10})))

	// INSERT INTO fired_triggers (eon, identity, identity_prefix, sender, block_number, block_hash, tx_index, log_index)
	// VALUES ($1, $2, $3, $4, $5, $6, $7, $8)
	// ON CONFLICT (eon, identity) DO NOTHING
	// (without a registered event (eon, identity) the insert violates the foreign key: 23503)
	reg(p+"InsertFiredTrigger", "7482ed6ba519571f", params(i8, bya, bya, txt, i8, bya, i8, i8), nil, ordered,
		insertStmt("fired_triggers",
			[]string{"eon", "identity", "identity_prefix", "sender", "block_number", "block_hash", "tx_index", "log_index"},
			always(doNothingOn("eon", "identity"))))

	// INSERT INTO identity_registered_event (block_number, block_hash, tx_index, log_index, eon,
	//     identity_prefix, sender, timestamp, identity)
	// VALUES ($1, $2, $3, $4, $5, $6, $7, $8, $9)
	// ON CONFLICT (identity_prefix, sender) DO UPDATE SET
	// block_number = $1, block_hash = $2, tx_index = $3, log_index = $4,
	// sender = $7, timestamp = $8, identity = $9
	// On conflict eon, identity_prefix and decrypted keep their old values.
	reg(p+"InsertIdentityRegisteredEvent", "2652807c64c3e52a", params(i8, bya, i8, i8, i8, bya, txt, i8, bya), nil, ordered,
		insertStmt("identity_registered_event",
			[]string{"block_number", "block_hash", "tx_index", "log_index", "eon", "identity_prefix", "sender", "timestamp", "identity"},
			setParams([]string{"identity_prefix", "sender"}, map[string]int{
				"block_number": 1, "block_hash": 2, "tx_index": 3, "log_index": 4,
				"sender": 7, "timestamp": 8, "identity": 9})))

	// INSERT INTO current_decryption_trigger (eon, triggered_block_number, identities_hash)
	// VALUES ($1, $2, $3)
	// ON CONFLICT (eon, triggered_block_number) DO UPDATE
	// SET triggered_block_number = $2, identities_hash = $3
	reg(p+"SetCurrentDecryptionTrigger", "47d8cf336f35151d", params(i8, i8, bya), nil, ordered,
		insertStmt(cdt, []string{"eon", "triggered_block_number", "identities_hash"},
			setParams([]string{"eon", "triggered_block_number"}, map[string]int{"triggered_block_number": 2, "identities_hash": 3})))

	// INSERT INTO identity_registered_events_synced_until (block_hash, block_number) VALUES ($1, $2)
	// ON CONFLICT (enforce_one_row) DO UPDATE SET block_hash = $1, block_number = $2
	reg(p+"SetIdentityRegisteredEventSyncedUntil", "444b5da4261dbe1f", params(bya, i8), nil, ordered,
		insertStmt("identity_registered_events_synced_until", []string{"block_hash", "block_number"},
			setParams([]string{"enforce_one_row"}, map[string]int{"block_hash": 1, "block_number": 2})))

	// INSERT INTO multi_event_sync_status (block_number, block_hash) VALUES ($1, $2)
	// ON CONFLICT (enforce_one_row) DO UPDATE SET block_number = $1, block_hash = $2
	reg(p+"SetMultiEventSyncStatus", "cf18723e39c2411c", params(i8, bya), nil, ordered,
		insertStmt("multi_event_sync_status", []string{"block_number", "block_hash"},
			setParams([]string{"enforce_one_row"}, map[string]int{"block_number": 1, "block_hash": 2})))

	// UPDATE event_trigger_registered_event SET decrypted = TRUE
	// WHERE (eon, identity) IN (SELECT UNNEST($1::bigint[]), UNNEST($2::bytea[]))
	// The two UNNESTs advance in lock step: the i-th eon is paired with the i-th
	// identity; if the arrays differ in length the shorter one is padded with
	// NULL, and a pair containing NULL matches no row.
	reg(p+"UpdateEventBasedDecryptedFlags", "876f2de504539451", params(i8Arr, byaArr), nil, ordered,
		updateDecryptedFlags("event_trigger_registered_event"))

	// UPDATE identity_registered_event SET decrypted = TRUE
	// WHERE (eon, identity) IN (SELECT UNNEST($1::bigint[]), UNNEST($2::bytea[]))
	reg(p+"UpdateTimeBasedDecryptedFlags", "64d486e319c1dcfe", params(i8Arr, byaArr), nil, ordered,
		updateDecryptedFlags("identity_registered_event"))
}

func updateDecryptedFlags(table string) ExecFunc {
	return func(tx *Store, a []any) ([][]any, string, error) {
		pairs := unnestLockstep(a[0], a[1])
		u, err := tx.updateWhere(table,
			func(r Row) bool {
				for _, pr := range pairs {
					if sqlEq(r["eon"], pr[0]) && sqlEq(r["identity"], pr[1]) {
						return true
					}
				}
				return false
			},
			func(Row) (Row, error) { return Row{"decrypted": true}, nil })
		return nil, tagUpdate(len(u)), err
	}
}
