package pgfake

import (
	"fmt"
	"sort"
	"strings"
	"sync"
)

// Column describes one table column.
type Column struct {
	Name       string
	OID        uint32
	NotNull    bool
	HasDefault bool
	Default    any  // constant default (normalised); only meaningful if HasDefault
	Serial     bool // DEFAULT nextval('<table>_<col>_seq')
	NonNeg     bool // CHECK (<col> >= 0)
}

// ForeignKey is a (non-deferred, MATCH SIMPLE, ON UPDATE NO ACTION) foreign key.
type ForeignKey struct {
	Name            string
	Cols            []string
	RefTable        string // store name of the referenced table
	RefCols         []string
	OnDeleteCascade bool
}

// TableDef is the final (schema + all migrations) definition of a table.
type TableDef struct {
	Name    string // name in the store (namespaced if the SQL name clashes across packages)
	SQLName string // name in the SQL text
	Pkg     string // package directory the schema comes from
	Cols    []Column
	PK      []string
	Uniques [][]string // further UNIQUE constraints
	FKs     []ForeignKey
}

func (d *TableDef) col(name string) *Column {
	for i := range d.Cols {
		if d.Cols[i].Name == name {
			return &d.Cols[i]
		}
	}
	return nil
}

// ColumnNames returns the column names in table order.
func (d *TableDef) ColumnNames() []string {
	out := make([]string, len(d.Cols))
	for i, c := range d.Cols {
		out[i] = c.Name
	}
	return out
}

type uniqueConstraint struct {
	name string
	cols []string
}

func (d *TableDef) uniqueConstraints() []uniqueConstraint {
	var out []uniqueConstraint
	if len(d.PK) > 0 {
		out = append(out, uniqueConstraint{d.SQLName + "_pkey", d.PK})
	}
	for _, u := range d.Uniques {
		out = append(out, uniqueConstraint{d.SQLName + "_" + strings.Join(u, "_") + "_key", u})
	}
	return out
}

func sameColSet(a, b []string) bool {
	if len(a) != len(b) {
		return false
	}
	x, y := sortStrings(a), sortStrings(b)
	for i := range x {
		if x[i] != y[i] {
			return false
		}
	}
	return true
}

type tableData struct {
	def  *TableDef
	rows []Row // insertion order; the Row maps are immutable
}

type seqState struct {
	mu   sync.Mutex
	last map[string]int64
}

func (q *seqState) next(name string) int64 {
	q.mu.Lock()
	defer q.mu.Unlock()
	q.last[name]++
	return q.last[name]
}

func (q *seqState) clone() *seqState {
	q.mu.Lock()
	defer q.mu.Unlock()
	out := &seqState{last: map[string]int64{}}
	for k, v := range q.last {
		out.last[k] = v
	}
	return out
}

// Store is a set of tables.  The store of a Server (the "committed" store) is
// guarded by its mutex; a transaction works on a private copy-on-write child
// that is installed at commit.
//
// Like in PostgreSQL, sequences (serial columns) are not transactional: a
// rolled-back insert still consumes a value.
type Store struct {
	mu      sync.Mutex
	tables  map[string]*tableData
	owned   map[string]bool // tables that may be modified in place (not shared with a snapshot)
	version int64           // committed store: bumped by every modifying commit; child: version at begin
	dirty   bool            // child: has been modified
	seqs    *seqState
	order   func(table string, n int) []int
	onIssue func(kind, detail string)
	pending []func() error // end-of-statement constraint checks
}

func newStore() *Store {
	st := &Store{tables: map[string]*tableData{}, owned: map[string]bool{}, seqs: &seqState{last: map[string]int64{}}}
	for _, d := range tableDefs {
		st.tables[d.Name] = &tableData{def: d}
		st.owned[d.Name] = true
	}
	for _, ir := range initialRows {
		if _, _, err := st.insert(ir.table, ir.row, conflict{}); err != nil {
			panic("pgfake: initial rows: " + err.Error())
		}
	}
	if err := st.endStatement(); err != nil {
		panic("pgfake: initial rows: " + err.Error())
	}
	st.dirty = false
	return st
}

// child returns a copy-on-write copy; the caller must hold st.mu if st is shared.
func (st *Store) child() *Store {
	c := &Store{
		tables:  make(map[string]*tableData, len(st.tables)),
		owned:   map[string]bool{},
		version: st.version,
		seqs:    st.seqs,
		order:   st.order,
		onIssue: st.onIssue,
	}
	for k, v := range st.tables {
		c.tables[k] = v
	}
	// the tables are now shared: st must not modify them in place any more
	st.owned = map[string]bool{}
	return c
}

// install makes st's content equal to c's (caller holds st.mu).
func (st *Store) install(c *Store) {
	st.tables = c.tables
	st.owned = map[string]bool{}
	c.owned = map[string]bool{}
	st.version++
}

// Snapshot returns an independent deep copy of the store (including sequence
// positions).
func (st *Store) Snapshot() *Store {
	st.mu.Lock()
	defer st.mu.Unlock()
	c := st.child()
	c.seqs = st.seqs.clone()
	c.version = 0
	c.order = nil
	c.onIssue = nil
	return c
}

// Table is a handle on a table of a Store.
type Table struct {
	st   *Store
	name string
}

// Table returns a handle for the named table, or nil if there is none.
func (st *Store) Table(name string) *Table {
	st.mu.Lock()
	defer st.mu.Unlock()
	if _, ok := st.tables[name]; !ok {
		return nil
	}
	return &Table{st: st, name: name}
}

// TableNames lists all tables, sorted.
func (st *Store) TableNames() []string {
	st.mu.Lock()
	defer st.mu.Unlock()
	var out []string
	for k := range st.tables {
		out = append(out, k)
	}
	sort.Strings(out)
	return out
}

// Name is the store name of the table.
func (t *Table) Name() string { return t.name }

// Def returns the table definition.
func (t *Table) Def() *TableDef {
	t.st.mu.Lock()
	defer t.st.mu.Unlock()
	return t.st.tables[t.name].def
}

// Rows returns a deep copy of the current rows in insertion order.
func (t *Table) Rows() []Row {
	t.st.mu.Lock()
	defer t.st.mu.Unlock()
	td := t.st.tables[t.name]
	out := make([]Row, len(td.rows))
	for i, r := range td.rows {
		out[i] = cloneRow(r)
	}
	return out
}

// Len is the current number of rows.
func (t *Table) Len() int {
	t.st.mu.Lock()
	defer t.st.mu.Unlock()
	return len(t.st.tables[t.name].rows)
}

// Insert adds a row like a plain INSERT listing exactly the given columns:
// defaults and serials are filled in, NOT NULL / CHECK / PRIMARY KEY / UNIQUE /
// FOREIGN KEY are enforced.  Values may be any Go integer type, string,
// []byte, bool, []string, [][]byte, time.Time or nil.
func (st *Store) Insert(table string, row Row) error {
	st.mu.Lock()
	defer st.mu.Unlock()
	if _, ok := st.tables[table]; !ok {
		return fmt.Errorf("pgfake: no table %q", table)
	}
	c := st.child()
	if _, _, err := c.insert(table, row, conflict{}); err != nil {
		return err
	}
	if err := c.endStatement(); err != nil {
		return err
	}
	st.install(c)
	return nil
}

// DeleteAll removes all rows of the table (like TRUNCATE ... CASCADE for
// ON DELETE CASCADE children; other referencing rows make it fail).
func (st *Store) DeleteAll(table string) error {
	st.mu.Lock()
	defer st.mu.Unlock()
	if _, ok := st.tables[table]; !ok {
		return fmt.Errorf("pgfake: no table %q", table)
	}
	c := st.child()
	c.deleteWhere(table, func(Row) bool { return true })
	if err := c.endStatement(); err != nil {
		return err
	}
	st.install(c)
	return nil
}

// Dump renders the tables canonically: tables sorted by name, rows sorted by
// their rendered text, columns in table order, bytes in hex.  Sequence
// positions are not included (see DumpWithSequences).
func (st *Store) Dump() string { return st.dump(false) }

// DumpWithSequences is Dump followed by the positions of all used sequences.
func (st *Store) DumpWithSequences() string { return st.dump(true) }

func (st *Store) dump(withSeq bool) string {
	st.mu.Lock()
	defer st.mu.Unlock()
	var names []string
	for k := range st.tables {
		names = append(names, k)
	}
	sort.Strings(names)
	var sb strings.Builder
	for _, n := range names {
		td := st.tables[n]
		fmt.Fprintf(&sb, "table %s (%d rows)\n", n, len(td.rows))
		lines := make([]string, len(td.rows))
		for i, r := range td.rows {
			parts := make([]string, len(td.def.Cols))
			for j, c := range td.def.Cols {
				parts[j] = c.Name + "=" + renderVal(r[c.Name])
			}
			lines[i] = "  " + strings.Join(parts, " ")
		}
		sort.Strings(lines)
		for _, l := range lines {
			sb.WriteString(l)
			sb.WriteByte('\n')
		}
	}
	if withSeq {
		q := st.seqs.clone()
		var sn []string
		for k := range q.last {
			sn = append(sn, k)
		}
		sort.Strings(sn)
		for _, k := range sn {
			fmt.Fprintf(&sb, "sequence %s last_value=%d\n", k, q.last[k])
		}
	}
	return sb.String()
}

// ---------------------------------------------------------------------------
// internal, lock-free operations (used on private children)

func (st *Store) td(table string) *tableData {
	t, ok := st.tables[table]
	if !ok {
		panic("pgfake: handler refers to unknown table " + table)
	}
	return t
}

// wtd returns the table for modification, copying it first if it is shared.
func (st *Store) wtd(table string) *tableData {
	t := st.td(table)
	if !st.owned[table] {
		t = &tableData{def: t.def, rows: append([]Row(nil), t.rows...)}
		st.tables[table] = t
		st.owned[table] = true
	}
	st.dirty = true
	return t
}

// permute applies the row order oracle to a candidate row list.
func (st *Store) permute(table string, rows []Row) []Row {
	if st.order == nil || len(rows) < 2 {
		return rows
	}
	p := st.order(table, len(rows))
	ok := len(p) == len(rows)
	if ok {
		seen := make([]bool, len(p))
		for _, i := range p {
			if i < 0 || i >= len(p) || seen[i] {
				ok = false
				break
			}
			seen[i] = true
		}
	}
	if !ok {
		if st.onIssue != nil {
			st.onIssue("bad-row-order", fmt.Sprintf("row order oracle returned a non-permutation of 0..%d for table %s: %v", len(rows)-1, table, p))
		}
		return rows
	}
	out := make([]Row, len(rows))
	for i, j := range p {
		out[i] = rows[j]
	}
	return out
}

// where returns the rows of the table satisfying pred, in the order in which a
// scan "happens" to deliver them: insertion order permuted by the row order
// oracle.  ORDER BY is then applied with a stable sort, so the oracle also
// decides the order among ties, as a real scan order would.
func (st *Store) where(table string, pred func(Row) bool) []Row {
	var out []Row
	for _, r := range st.td(table).rows {
		if pred == nil || pred(r) {
			out = append(out, r)
		}
	}
	return st.permute(table, out)
}

// all returns all rows (oracle order).
func (st *Store) all(table string) []Row { return st.where(table, nil) }

// count counts matching rows.
func (st *Store) count(table string, pred func(Row) bool) int64 {
	var n int64
	for _, r := range st.td(table).rows {
		if pred == nil || pred(r) {
			n++
		}
	}
	return n
}

// exists reports whether a matching row exists.
func (st *Store) exists(table string, pred func(Row) bool) bool {
	for _, r := range st.td(table).rows {
		if pred(r) {
			return true
		}
	}
	return false
}

// maxOf is max(col) over the matching rows; NULL (nil) if there is no non-NULL value.
func (st *Store) maxOf(table, col string, pred func(Row) bool) any {
	var m any
	for _, r := range st.td(table).rows {
		if pred != nil && !pred(r) {
			continue
		}
		v := r[col]
		if v == nil {
			continue
		}
		if m == nil || compareVals(v, m) > 0 {
			m = v
		}
	}
	return m
}

type sortKey struct {
	col  string
	desc bool
}

func asc(col string) sortKey  { return sortKey{col, false} }
func desc(col string) sortKey { return sortKey{col, true} }

// orderRows is ORDER BY: a stable sort; NULLs sort as larger than everything
// (NULLS LAST for ASC, NULLS FIRST for DESC), which is the PostgreSQL default.
func orderRows(rows []Row, keys ...sortKey) []Row {
	out := append([]Row(nil), rows...)
	sort.SliceStable(out, func(i, j int) bool {
		for _, k := range keys {
			a, b := out[i][k.col], out[j][k.col]
			var c int
			switch {
			case a == nil && b == nil:
				c = 0
			case a == nil:
				c = 1
			case b == nil:
				c = -1
			default:
				c = compareVals(a, b)
			}
			if k.desc {
				c = -c
			}
			if c != 0 {
				return c < 0
			}
		}
		return false
	})
	return out
}

// distinctOn keeps the first row of every run of rows with equal values in
// cols (the input must already be sorted by cols, as DISTINCT ON requires).
func distinctOn(rows []Row, cols ...string) []Row {
	var out []Row
	for i, r := range rows {
		if i > 0 {
			same := true
			for _, c := range cols {
				a, b := rows[i-1][c], r[c]
				if (a == nil) != (b == nil) || (a != nil && compareVals(a, b) != 0) {
					same = false
					break
				}
			}
			if same {
				continue
			}
		}
		out = append(out, r)
	}
	return out
}

// limitRows is LIMIT lim: NULL means no limit, a negative value is an error.
func limitRows(rows []Row, lim any) ([]Row, error) {
	if lim == nil {
		return rows, nil
	}
	n := lim.(int64)
	if n < 0 {
		return nil, pgerr("2201W", "LIMIT must not be negative")
	}
	if int64(len(rows)) > n {
		return rows[:n], nil
	}
	return rows, nil
}

// project turns rows into result tuples.
func project(rows []Row, cols ...string) [][]any {
	out := make([][]any, len(rows))
	for i, r := range rows {
		t := make([]any, len(cols))
		for j, c := range cols {
			t[j] = r[c]
		}
		out[i] = t
	}
	return out
}

// star projects all columns in table order (SELECT * / RETURNING *).
func (st *Store) star(table string, rows []Row) [][]any {
	return project(rows, st.td(table).def.ColumnNames()...)
}

type conflictMode int

const (
	onConflictError   conflictMode = iota // plain INSERT
	onConflictNothing                     // ON CONFLICT [(target)] DO NOTHING
	onConflictUpdate                      // ON CONFLICT (target) DO UPDATE SET ...
)

// conflict describes the ON CONFLICT clause of an INSERT.
type conflict struct {
	mode   conflictMode
	target []string // arbiter constraint columns; nil = any constraint (DO NOTHING only)
	// set computes the assignments of DO UPDATE from the existing row and the
	// row proposed for insertion (EXCLUDED); only the returned columns change.
	set func(existing, excluded Row) (Row, error)
}

func doNothing() conflict { return conflict{mode: onConflictNothing} }
func doNothingOn(target ...string) conflict {
	return conflict{mode: onConflictNothing, target: target}
}
func doUpdate(target []string, set func(existing, excluded Row) (Row, error)) conflict {
	return conflict{mode: onConflictUpdate, target: target, set: set}
}

func (st *Store) checkRowConstraints(def *TableDef, r Row) error {
	// ExecConstraints: NOT NULL first, then CHECK constraints.
	for _, c := range def.Cols {
		if c.NotNull && r[c.Name] == nil {
			return &PgError{Code: "23502", Table: def.SQLName, Column: c.Name,
				Message: fmt.Sprintf("null value in column %q of relation %q violates not-null constraint", c.Name, def.SQLName)}
		}
	}
	for _, c := range def.Cols {
		// CHECK (c >= 0) is satisfied when the result is TRUE or NULL
		if c.NonNeg && r[c.Name] != nil && r[c.Name].(int64) < 0 {
			name := def.SQLName + "_" + c.Name + "_check"
			return &PgError{Code: "23514", Table: def.SQLName, Constraint: name,
				Message: fmt.Sprintf("new row for relation %q violates check constraint %q", def.SQLName, name)}
		}
	}
	return nil
}

func rowVals(r Row, cols []string) []any {
	out := make([]any, len(cols))
	for i, c := range cols {
		out[i] = r[c]
	}
	return out
}

func valsEqual(a, b []any) bool {
	for i := range a {
		if !sqlEq(a[i], b[i]) {
			return false
		}
	}
	return true
}

// findConflict returns the index of a row (other than skip) that has the same
// non-NULL key as r under the constraint, or -1.
func findConflict(t *tableData, u uniqueConstraint, r Row, skip int) int {
	key := rowVals(r, u.cols)
	for _, v := range key {
		if v == nil {
			return -1 // NULLs are distinct
		}
	}
	for i, o := range t.rows {
		if i == skip {
			continue
		}
		if valsEqual(key, rowVals(o, u.cols)) {
			return i
		}
	}
	return -1
}

func uniqueViolation(def *TableDef, u uniqueConstraint, r Row) *PgError {
	vals := rowVals(r, u.cols)
	parts := make([]string, len(vals))
	for i, v := range vals {
		parts[i] = renderVal(v)
	}
	return &PgError{Code: "23505", Table: def.SQLName, Constraint: u.name,
		Message: fmt.Sprintf("duplicate key value violates unique constraint %q", u.name),
		Detail:  fmt.Sprintf("Key (%s)=(%s) already exists.", strings.Join(u.cols, ", "), strings.Join(parts, ", "))}
}

// insert implements INSERT INTO table (cols of vals) VALUES (...) [ON CONFLICT ...].
// It returns the inserted or updated row (for RETURNING) and whether a row was
// affected (counts towards the command tag).
func (st *Store) insert(table string, vals Row, oc conflict) (Row, bool, error) {
	def := st.td(table).def
	row := make(Row, len(def.Cols))
	for k := range vals {
		if def.col(k) == nil {
			panic(fmt.Sprintf("pgfake: insert into %s: unknown column %s", table, k))
		}
	}
	for _, c := range def.Cols {
		if v, ok := vals[c.Name]; ok {
			nv, err := normalise(c.OID, v)
			if err != nil {
				return nil, false, err
			}
			row[c.Name] = nv
			continue
		}
		// Defaults are evaluated before any conflict check, so a serial
		// consumes a sequence value even if the row is not inserted.
		switch {
		case c.Serial:
			row[c.Name] = st.seqs.next(def.SQLName + "_" + c.Name + "_seq")
		case c.HasDefault:
			row[c.Name] = cloneVal(c.Default)
		default:
			row[c.Name] = nil
		}
	}
	if err := st.checkRowConstraints(def, row); err != nil {
		return nil, false, err
	}
	ucs := def.uniqueConstraints()
	t := st.td(table)
	switch oc.mode {
	case onConflictError:
		for _, u := range ucs {
			if findConflict(t, u, row, -1) >= 0 {
				return nil, false, uniqueViolation(def, u, row)
			}
		}
	case onConflictNothing, onConflictUpdate:
		arbiter := -1
		if oc.target != nil {
			for i, u := range ucs {
				if sameColSet(u.cols, oc.target) {
					arbiter = i
				}
			}
			if arbiter < 0 {
				return nil, false, pgerr("42P10", "there is no unique or exclusion constraint matching the ON CONFLICT specification")
			}
		} else if oc.mode == onConflictUpdate {
			panic("pgfake: ON CONFLICT DO UPDATE requires a conflict target")
		}
		// arbiter constraints first
		for i, u := range ucs {
			if arbiter >= 0 && i != arbiter {
				continue
			}
			idx := findConflict(t, u, row, -1)
			if idx < 0 {
				continue
			}
			if oc.mode == onConflictNothing {
				return nil, false, nil
			}
			existing := t.rows[idx]
			changes, err := oc.set(existing, row)
			if err != nil {
				return nil, false, err
			}
			nr, err := st.updateAt(table, idx, changes)
			if err != nil {
				return nil, false, err
			}
			return nr, true, nil
		}
		// non-arbiter unique constraints raise as usual
		if arbiter >= 0 {
			for i, u := range ucs {
				if i != arbiter && findConflict(t, u, row, -1) >= 0 {
					return nil, false, uniqueViolation(def, u, row)
				}
			}
		}
	}
	wt := st.wtd(table)
	wt.rows = append(wt.rows, row)
	st.deferFKChild(def, row, nil)
	return row, true, nil
}

// updateAt applies the column changes to the row at idx, enforcing all
// constraints, and returns the new row.
func (st *Store) updateAt(table string, idx int, changes Row) (Row, error) {
	t := st.td(table)
	def := t.def
	old := t.rows[idx]
	nr := make(Row, len(old))
	for k, v := range old {
		nr[k] = v
	}
	for k, v := range changes {
		c := def.col(k)
		if c == nil {
			panic(fmt.Sprintf("pgfake: update %s: unknown column %s", table, k))
		}
		nv, err := normalise(c.OID, v)
		if err != nil {
			return nil, err
		}
		nr[k] = nv
	}
	if err := st.checkRowConstraints(def, nr); err != nil {
		return nil, err
	}
	for _, u := range def.uniqueConstraints() {
		if valsEqual(rowVals(old, u.cols), rowVals(nr, u.cols)) {
			continue
		}
		if findConflict(t, u, nr, idx) >= 0 {
			return nil, uniqueViolation(def, u, nr)
		}
	}
	wt := st.wtd(table)
	wt.rows[idx] = nr
	st.deferFKChild(def, nr, old)
	st.deferFKParentChange(def, old, nr)
	return nr, nil
}

// updateWhere is UPDATE table SET ... WHERE pred; set returns the changed
// columns for a row.  It returns the new rows (for RETURNING).
func (st *Store) updateWhere(table string, pred func(Row) bool, set func(Row) (Row, error)) ([]Row, error) {
	var out []Row
	// The set of rows to update is determined on the statement's snapshot.
	var idxs []int
	for i, r := range st.td(table).rows {
		if pred == nil || pred(r) {
			idxs = append(idxs, i)
		}
	}
	for _, i := range idxs {
		changes, err := set(st.td(table).rows[i])
		if err != nil {
			return nil, err
		}
		nr, err := st.updateAt(table, i, changes)
		if err != nil {
			return nil, err
		}
		out = append(out, nr)
	}
	return out, nil
}

// deleteWhere is DELETE FROM table WHERE pred, returning the deleted rows in
// scan (insertion) order.  ON DELETE CASCADE children are deleted too; other
// referencing rows are checked at the end of the statement.
func (st *Store) deleteWhere(table string, pred func(Row) bool) []Row {
	t := st.td(table)
	var deleted, kept []Row
	for _, r := range t.rows {
		if pred == nil || pred(r) {
			deleted = append(deleted, r)
		} else {
			kept = append(kept, r)
		}
	}
	if len(deleted) == 0 {
		return nil
	}
	wt := st.wtd(table)
	wt.rows = kept
	for _, cd := range tableDefs {
		for i := range cd.FKs {
			fk := &cd.FKs[i]
			if fk.RefTable != table {
				continue
			}
			for _, d := range deleted {
				key := rowVals(d, fk.RefCols)
				if fk.OnDeleteCascade {
					st.deleteWhere(cd.Name, func(c Row) bool { return valsEqual(key, rowVals(c, fk.Cols)) })
				} else {
					st.deferNoChild(cd, fk, key)
				}
			}
		}
	}
	return deleted
}

// deferFKChild schedules the end-of-statement check that the (new) child row
// has a parent for each of its foreign keys.
func (st *Store) deferFKChild(def *TableDef, nr, old Row) {
	for i := range def.FKs {
		fk := &def.FKs[i]
		key := rowVals(nr, fk.Cols)
		if old != nil && valsEqual(key, rowVals(old, fk.Cols)) {
			continue
		}
		null := false
		for _, v := range key {
			if v == nil {
				null = true // MATCH SIMPLE: not checked
			}
		}
		if null {
			continue
		}
		st.pending = append(st.pending, func() error {
			if st.exists(fk.RefTable, func(p Row) bool { return valsEqual(key, rowVals(p, fk.RefCols)) }) {
				return nil
			}
			return &PgError{Code: "23503", Table: def.SQLName, Constraint: fk.Name,
				Message: fmt.Sprintf("insert or update on table %q violates foreign key constraint %q", def.SQLName, fk.Name)}
		})
	}
}

// deferFKParentChange schedules the NO ACTION check for an updated parent key.
func (st *Store) deferFKParentChange(def *TableDef, old, nr Row) {
	for _, cd := range tableDefs {
		for i := range cd.FKs {
			fk := &cd.FKs[i]
			if fk.RefTable != def.Name {
				continue
			}
			key := rowVals(old, fk.RefCols)
			if valsEqual(key, rowVals(nr, fk.RefCols)) {
				continue
			}
			st.deferNoChild(cd, fk, key)
		}
	}
}

// deferNoChild schedules the check that no child row references key unless a
// parent with that key (still/again) exists.
func (st *Store) deferNoChild(cd *TableDef, fk *ForeignKey, key []any) {
	st.pending = append(st.pending, func() error {
		if !st.exists(cd.Name, func(c Row) bool { return valsEqual(key, rowVals(c, fk.Cols)) }) {
			return nil
		}
		if st.exists(fk.RefTable, func(p Row) bool { return valsEqual(key, rowVals(p, fk.RefCols)) }) {
			return nil
		}
		ref := st.td(fk.RefTable).def.SQLName
		return &PgError{Code: "23503", Table: ref, Constraint: fk.Name,
			Message: fmt.Sprintf("update or delete on table %q violates foreign key constraint %q on table %q", ref, fk.Name, cd.SQLName)}
	})
}

// endStatement runs the checks deferred to the end of the statement (foreign keys).
func (st *Store) endStatement() error {
	p := st.pending
	st.pending = nil
	for _, f := range p {
		if err := f(); err != nil {
			return err
		}
	}
	return nil
}
