package pgfake

import (
	"crypto/sha256"
	"encoding/hex"
	"fmt"
	"go/ast"
	"go/parser"
	"go/token"
	"os"
	"path/filepath"
	"regexp"
	"sort"
	"strconv"
	"strings"
)

// Statement is one sqlc statement found in the repository source.
type Statement struct {
	Key  string // "<pkgdir>.<QueryName>", e.g. "keyper/database.InsertDecryptionKey"
	Pkg  string // package directory relative to the repository root
	Name string // sqlc query name
	Kind string // one, many, exec, execresult, execrows, copyfrom, ...
	SQL  string // exact text the generated code sends
	Hash string // sha256(SQL) hex, first 16 characters
	File string
}

// HashSQL is the hash recorded by handlers: the first 16 hex characters of the
// SHA-256 of the exact statement text.
func HashSQL(sql string) string {
	h := sha256.Sum256([]byte(sql))
	return hex.EncodeToString(h[:])[:16]
}

var sqlcHeader = regexp.MustCompile(`^-- name: (\S+) :(\S+)`)

// LoadStatements parses every *.sqlc.gen.go under the known package
// directories of the repository and returns the statements, sorted by key.
func LoadStatements(repoRoot string) ([]Statement, error) {
	var out []Statement
	seen := map[string]bool{}
	for _, pkg := range PackageDirs {
		files, err := filepath.Glob(filepath.Join(repoRoot, pkg, "*.sqlc.gen.go"))
		if err != nil {
			return nil, err
		}
		if len(files) == 0 {
			return nil, fmt.Errorf("pgfake: no *.sqlc.gen.go files in %s", filepath.Join(repoRoot, pkg))
		}
		sort.Strings(files)
		for _, f := range files {
			fset := token.NewFileSet()
			af, err := parser.ParseFile(fset, f, nil, 0)
			if err != nil {
				return nil, fmt.Errorf("pgfake: parse %s: %w", f, err)
			}
			for _, decl := range af.Decls {
				gd, ok := decl.(*ast.GenDecl)
				if !ok || gd.Tok != token.CONST {
					continue
				}
				for _, spec := range gd.Specs {
					vs, ok := spec.(*ast.ValueSpec)
					if !ok {
						continue
					}
					for _, v := range vs.Values {
						lit, ok := v.(*ast.BasicLit)
						if !ok || lit.Kind != token.STRING {
							continue
						}
						text, err := strconv.Unquote(lit.Value)
						if err != nil {
							continue
						}
						m := sqlcHeader.FindStringSubmatch(text)
						if m == nil {
							continue
						}
						st := Statement{Key: pkg + "." + m[1], Pkg: pkg, Name: m[1], Kind: m[2], SQL: text, Hash: HashSQL(text), File: f}
						if seen[st.Key] {
							return nil, fmt.Errorf("pgfake: duplicate statement %s", st.Key)
						}
						seen[st.Key] = true
						out = append(out, st)
					}
				}
			}
		}
	}
	sort.Slice(out, func(i, j int) bool { return out[i].Key < out[j].Key })
	return out, nil
}

// TieIssue is a problem in the tie between pgfake and the repository source,
// found at Start.
type TieIssue struct {
	Kind   string // changed | missing | unimplemented | schema-changed
	Name   string // statement key or schema file
	Detail string
}

func (t TieIssue) String() string { return t.Kind + " " + t.Name + ": " + t.Detail }

// Informational reports whether the issue is merely informational
// (a statement in the source without handler).
func (t TieIssue) Informational() bool { return t.Kind == "unimplemented" }

// checkSchemaFiles compares the schema/migration files with the recorded hashes.
func checkSchemaFiles(repoRoot string) []TieIssue {
	var out []TieIssue
	found := map[string]bool{}
	for _, pkg := range PackageDirs {
		for _, sub := range []string{"sql/schemas", "sql/migrations"} {
			files, _ := filepath.Glob(filepath.Join(repoRoot, pkg, sub, "*.sql"))
			sort.Strings(files)
			for _, f := range files {
				rel, err := filepath.Rel(repoRoot, f)
				if err != nil {
					rel = f
				}
				rel = filepath.ToSlash(rel)
				found[rel] = true
				b, err := os.ReadFile(f)
				if err != nil {
					out = append(out, TieIssue{"schema-changed", rel, "cannot read: " + err.Error()})
					continue
				}
				h := sha256.Sum256(b)
				got := hex.EncodeToString(h[:])[:16]
				want, ok := schemaFileHashes[rel]
				switch {
				case !ok:
					out = append(out, TieIssue{"schema-changed", rel, "schema/migration file was not transcribed into pgfake (hash " + got + ")"})
				case want != got:
					out = append(out, TieIssue{"schema-changed", rel, "file hash " + got + " differs from transcribed " + want})
				}
			}
		}
	}
	var names []string
	for k := range schemaFileHashes {
		names = append(names, k)
	}
	sort.Strings(names)
	for _, k := range names {
		if !found[k] {
			out = append(out, TieIssue{"schema-changed", k, "transcribed schema file no longer exists"})
		}
	}
	return out
}

// firstLine is used to name unknown statements in error messages.
func firstLine(sql string) string {
	s := strings.TrimSpace(sql)
	if i := strings.IndexByte(s, '\n'); i >= 0 {
		s = s[:i]
	}
	if len(s) > 120 {
		s = s[:120] + "..."
	}
	return s
}
