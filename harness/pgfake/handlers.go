package pgfake

import (
	"fmt"
	"sort"
)

// ResultCol describes one result column of a statement.
type ResultCol struct {
	Name string
	OID  uint32
}

// ExecFunc gives a statement its meaning over a (transaction-private) store.
// args are the normalised parameter values ($1 is args[0]).  It returns the
// result tuples (values in the normalised representation matching the declared
// result columns) and the command tag.
type ExecFunc func(tx *Store, args []any) (rows [][]any, tag string, err error)

// Handler is the hand-written PostgreSQL meaning of one sqlc statement.
type Handler struct {
	Key     string      // "<pkgdir>.<QueryName>"
	Hash    string      // HashSQL of the statement text the handler was written against
	Params  []uint32    // parameter type OIDs, in $n order
	Result  []ResultCol // nil: the statement returns no rows
	Ordered bool        // the result order is fully determined by the statement (or it has at most one row)
	Exec    ExecFunc
}

var handlers = map[string]*Handler{}

const (
	// ordered: ORDER BY on a unique key, an aggregate, or at most one row by a key lookup.
	ordered = true
	// unordered: PostgreSQL may return the rows (or pick the LIMIT 1 row, or
	// order ties) in any order; the row order oracle applies.
	unordered = false
)

func reg(key, hash string, params []uint32, result []ResultCol, isOrdered bool, exec ExecFunc) {
	if _, dup := handlers[key]; dup {
		panic("pgfake: duplicate handler " + key)
	}
	handlers[key] = &Handler{Key: key, Hash: hash, Params: params, Result: result, Ordered: isOrdered, Exec: exec}
}

// HandlerKeys lists the keys of all registered handlers, sorted.
func HandlerKeys() []string {
	var out []string
	for k := range handlers {
		out = append(out, k)
	}
	sort.Strings(out)
	return out
}

func params(oids ...uint32) []uint32 { return oids }

const (
	i8     = OIDInt8
	i4     = OIDInt4
	txt    = OIDText
	bya    = OIDBytea
	bl     = OIDBool
	txtArr = OIDTextArray
	byaArr = OIDByteaArray
	i8Arr  = OIDInt8Array
	tstamp = OIDTimestamp
)

// colsOf returns result columns named like table columns, with their types.
func colsOf(table string, names ...string) []ResultCol {
	d := tableDefByName(table)
	if d == nil {
		panic("pgfake: colsOf: unknown table " + table)
	}
	out := make([]ResultCol, len(names))
	for i, n := range names {
		c := d.col(n)
		if c == nil {
			panic(fmt.Sprintf("pgfake: colsOf: table %s has no column %s", table, n))
		}
		out[i] = ResultCol{Name: n, OID: c.OID}
	}
	return out
}

// starCols are the result columns of SELECT * (sqlc expands * to all columns
// in table order).
func starCols(table string) []ResultCol {
	d := tableDefByName(table)
	if d == nil {
		panic("pgfake: starCols: unknown table " + table)
	}
	return colsOf(table, d.ColumnNames()...)
}

func rc(name string, oid uint32) ResultCol { return ResultCol{name, oid} }

func concatCols(cs ...[]ResultCol) []ResultCol {
	var out []ResultCol
	for _, c := range cs {
		out = append(out, c...)
	}
	return out
}

func tagSelect(n int) string { return fmt.Sprintf("SELECT %d", n) }
func tagInsert(n int) string { return fmt.Sprintf("INSERT 0 %d", n) }
func tagUpdate(n int) string { return fmt.Sprintf("UPDATE %d", n) }
func tagDelete(n int) string { return fmt.Sprintf("DELETE %d", n) }

func b2i(b bool) int {
	if b {
		return 1
	}
	return 0
}

// --- generic statement shapes ------------------------------------------------

// insertStmt: INSERT INTO table (cols...) VALUES ($1, $2, ...) [ON CONFLICT ...]
// where the i-th listed column receives $i+1.
func insertStmt(table string, cols []string, oc func(a []any) conflict) ExecFunc {
	return func(tx *Store, a []any) ([][]any, string, error) {
		vals := Row{}
		for i, c := range cols {
			vals[c] = a[i]
		}
		var c conflict
		if oc != nil {
			c = oc(a)
		}
		_, affected, err := tx.insert(table, vals, c)
		if err != nil {
			return nil, "", err
		}
		return nil, tagInsert(b2i(affected)), nil
	}
}

func always(c conflict) func([]any) conflict { return func([]any) conflict { return c } }

// setCols builds the DO UPDATE SET list "col = $n" from (column, parameter
// index) pairs; exactly the listed columns are assigned.
func setParams(target []string, assign map[string]int) func(a []any) conflict {
	return func(a []any) conflict {
		return doUpdate(target, func(existing, excluded Row) (Row, error) {
			ch := Row{}
			for c, i := range assign {
				ch[c] = a[i-1]
			}
			return ch, nil
		})
	}
}

// setExcluded builds the DO UPDATE SET list "col = EXCLUDED.col".
func setExcluded(target []string, cols ...string) func(a []any) conflict {
	return func(a []any) conflict {
		return doUpdate(target, func(existing, excluded Row) (Row, error) {
			ch := Row{}
			for _, c := range cols {
				ch[c] = excluded[c]
			}
			return ch, nil
		})
	}
}

// selectStmt: SELECT cols FROM table WHERE pred [ORDER BY keys] [LIMIT lim].
// limit < 0 means no LIMIT clause.
func selectStmt(table string, cols []string, pred func(r Row, a []any) bool, keys []sortKey, limit int64) ExecFunc {
	return func(tx *Store, a []any) ([][]any, string, error) {
		var p func(Row) bool
		if pred != nil {
			p = func(r Row) bool { return pred(r, a) }
		}
		rows := tx.where(table, p)
		if len(keys) > 0 {
			rows = orderRows(rows, keys...)
		}
		if limit >= 0 {
			rows, _ = limitRows(rows, limit)
		}
		return project(rows, cols...), tagSelect(len(rows)), nil
	}
}

func allCols(table string) []string { return tableDefByName(table).ColumnNames() }

// deleteStmt: DELETE FROM table WHERE pred.
func deleteStmt(table string, pred func(r Row, a []any) bool) ExecFunc {
	return func(tx *Store, a []any) ([][]any, string, error) {
		d := tx.deleteWhere(table, func(r Row) bool { return pred(r, a) })
		return nil, tagDelete(len(d)), nil
	}
}

// countStmt: SELECT count(*) FROM table WHERE pred.
func countStmt(table string, pred func(r Row, a []any) bool) ExecFunc {
	return func(tx *Store, a []any) ([][]any, string, error) {
		var p func(Row) bool
		if pred != nil {
			p = func(r Row) bool { return pred(r, a) }
		}
		return [][]any{{tx.count(table, p)}}, tagSelect(1), nil
	}
}

// existsStmt: SELECT EXISTS (SELECT 1 FROM table WHERE pred).
func existsStmt(table string, pred func(r Row, a []any) bool) ExecFunc {
	return func(tx *Store, a []any) ([][]any, string, error) {
		return [][]any{{tx.exists(table, func(r Row) bool { return pred(r, a) })}}, tagSelect(1), nil
	}
}

var countCol = []ResultCol{{"count", OIDInt8}}
var existsCol = []ResultCol{{"exists", OIDBool}}

// unnestPairs evaluates SELECT UNNEST($a::bigint[]), UNNEST($b::bytea[]): the
// set-returning functions advance in lock step; the shorter one is padded
// with NULLs; a NULL array yields no rows.
func unnestLockstep(arrays ...any) [][]any {
	n := 0
	lens := make([]int, len(arrays))
	for i, arr := range arrays {
		switch x := arr.(type) {
		case nil:
		case []int64:
			lens[i] = len(x)
		case []string:
			lens[i] = len(x)
		case [][]byte:
			lens[i] = len(x)
		default:
			panic(fmt.Sprintf("pgfake: unnest of %T", arr))
		}
		if lens[i] > n {
			n = lens[i]
		}
	}
	out := make([][]any, n)
	for r := 0; r < n; r++ {
		t := make([]any, len(arrays))
		for i, arr := range arrays {
			if r >= lens[i] {
				continue
			}
			switch x := arr.(type) {
			case []int64:
				t[i] = x[r]
			case []string:
				t[i] = x[r]
			case [][]byte:
				t[i] = x[r]
			}
		}
		out[r] = t
	}
	return out
}
