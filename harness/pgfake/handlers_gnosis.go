package pgfake

// Handlers for keyperimpl/gnosis/database (gnosiskeyper.sqlc.gen.go).

func init() {
	const p = pkgGnosis + "."
	const cdt = TableGnosisCurrentDecryptionTrigger

	// DELETE FROM transaction_submitted_event WHERE block_number >= $1
	reg(p+"DeleteTransactionSubmittedEventsFromBlockNumber", "4fa29271e01c401b", params(i8), nil, ordered,
		deleteStmt("transaction_submitted_event", func(r Row, a []any) bool { return sqlGe(r["block_number"], a[0]) }))

	// SELECT eon, slot, tx_pointer, identities_hash FROM current_decryption_trigger WHERE eon = $1
	reg(p+"GetCurrentDecryptionTrigger", "86dc8eb9bcf55d00", params(i8), starCols(cdt), ordered,
		selectStmt(cdt, allCols(cdt), func(r Row, a []any) bool { return sqlEq(r["eon"], a[0]) }, nil, -1))

	// SELECT COUNT(*) FROM validator_registrations
	reg(p+"GetNumValidatorRegistrations", "a9e2ee140819669b", nil, countCol, ordered,
		countStmt("validator_registrations", nil))

	// SELECT eon, slot, keyper_index, tx_pointer, identities_hash, signature FROM slot_decryption_signatures
	// WHERE eon = $1 AND slot = $2 AND tx_pointer = $3 AND identities_hash = $4
	// ORDER BY keyper_index ASC LIMIT $5         (keyper_index unique for fixed eon and slot)
	reg(p+"GetSlotDecryptionSignatures", "7c335b6b5e6b80cb", params(i8, i8, i8, bya, i8), starCols("slot_decryption_signatures"), ordered,
		func(tx *Store, a []any) ([][]any, string, error) {
			rows := orderRows(tx.where("slot_decryption_signatures", func(r Row) bool {
				return sqlEq(r["eon"], a[0]) && sqlEq(r["slot"], a[1]) && sqlEq(r["tx_pointer"], a[2]) && sqlEq(r["identities_hash"], a[3])
			}), asc("keyper_index"))
			rows, err := limitRows(rows, a[4])
			if err != nil {
				return nil, "", err
			}
			return tx.star("slot_decryption_signatures", rows), tagSelect(len(rows)), nil
		})

	// SELECT cast(coalesce(max(index) + 1, 0) AS bigint) FROM transaction_submitted_event WHERE eon = $1
	// Always one row: 0 if the eon has no events, else the largest index plus one.
	reg(p+"GetTransactionSubmittedEventCount", "e5bc3739054ea782", params(i8), []ResultCol{{"coalesce", OIDInt8}}, ordered,
		func(tx *Store, a []any) ([][]any, string, error) {
			m := tx.maxOf("transaction_submitted_event", "index", func(r Row) bool { return sqlEq(r["eon"], a[0]) })
			v, err := addInt8(m, int64(1))
			if err != nil {
				return nil, "", err
			}
			if v == nil {
				v = int64(0)
			}
			return [][]any{{v}}, tagSelect(1), nil
		})

	// SELECT <all columns> FROM transaction_submitted_event
	// WHERE eon = $1 AND index >= $2 AND index < $2 + $3
	// ORDER BY index ASC LIMIT $3                (index unique within an eon)
	// $3 is a bigint, used both in the arithmetic and as the LIMIT;
	// $2 + $3 raises "bigint out of range" on overflow; a NULL $2 or $3
	// makes the condition unknown (no rows).
	reg(p+"GetTransactionSubmittedEvents", "a9c1bf9cf7af9cf9", params(i8, i8, i8), starCols("transaction_submitted_event"), ordered,
		func(tx *Store, a []any) ([][]any, string, error) {
			if a[2] != nil && a[2].(int64) < 0 {
				// LIMIT is evaluated at executor start, before any row is scanned
				return nil, "", pgerr("2201W", "LIMIT must not be negative")
			}
			hi, err := addInt8(a[1], a[2])
			if err != nil {
				// PostgreSQL evaluates the constant expression $2 + $3 once even if no row qualifies
				return nil, "", err
			}
			rows := orderRows(tx.where("transaction_submitted_event", func(r Row) bool {
				return sqlEq(r["eon"], a[0]) && sqlGe(r["index"], a[1]) && sqlLt(r["index"], hi)
			}), asc("index"))
			rows, err = limitRows(rows, a[2])
			if err != nil {
				return nil, "", err
			}
			return tx.star("transaction_submitted_event", rows), tagSelect(len(rows)), nil
		})

	// SELECT enforce_one_row, block_hash, block_number, slot FROM transaction_submitted_events_synced_until LIMIT 1
	reg(p+"GetTransactionSubmittedEventsSyncedUntil", "55b77c3efe2485fc", nil, starCols("transaction_submitted_events_synced_until"), unordered,
		selectStmt("transaction_submitted_events_synced_until", allCols("transaction_submitted_events_synced_until"), nil, nil, 1))

	// SELECT eon, age, value FROM tx_pointer WHERE eon = $1
	reg(p+"GetTxPointer", "f50d107c2649b2d9", params(i8), starCols("tx_pointer"), ordered,
		selectStmt("tx_pointer", allCols("tx_pointer"), func(r Row, a []any) bool { return sqlEq(r["eon"], a[0]) }, nil, -1))

	// SELECT nonce FROM validator_registrations
	// WHERE validator_index = $1 AND block_number <= $2 AND tx_index <= $3 AND log_index <= $4
	// ORDER BY block_number DESC, tx_index DESC, log_index DESC LIMIT 1
	// (note: the three <= are independent conditions, not a lexicographic comparison;
	//  for a fixed validator_index the sort key is unique)
	reg(p+"GetValidatorRegistrationNonceBefore", "0ecc84f34ca96d80", params(i8, i8, i8, i8), colsOf("validator_registrations", "nonce"), ordered,
		selectStmt("validator_registrations", []string{"nonce"}, func(r Row, a []any) bool {
			return sqlEq(r["validator_index"], a[0]) && sqlLe(r["block_number"], a[1]) && sqlLe(r["tx_index"], a[2]) && sqlLe(r["log_index"], a[3])
		}, []sortKey{desc("block_number"), desc("tx_index"), desc("log_index")}, 1))

	// SELECT enforce_one_row, block_hash, block_number FROM validator_registrations_synced_until LIMIT 1
	reg(p+"GetValidatorRegistrationsSyncedUntil", "a5b20500980f64b4", nil, starCols("validator_registrations_synced_until"), unordered,
		selectStmt("validator_registrations_synced_until", allCols("validator_registrations_synced_until"), nil, nil, 1))

	// UPDATE tx_pointer SET age = age + 1 WHERE eon = $1 RETURNING age
	// NULL + 1 is NULL: a reset pointer stays NULL.  No row -> no result row.
	reg(p+"IncrementTxPointerAge", "9033255e11971874", params(i8), colsOf("tx_pointer", "age"), ordered,
		func(tx *Store, a []any) ([][]any, string, error) {
			u, err := tx.updateWhere("tx_pointer",
				func(r Row) bool { return sqlEq(r["eon"], a[0]) },
				func(r Row) (Row, error) {
					v, err := addInt8(r["age"], int64(1))
					return Row{"age": v}, err
				})
			if err != nil {
				return nil, "", err
			}
			return project(u, "age"), tagUpdate(len(u)), nil
		})

	// INSERT INTO tx_pointer (eon, age, value) VALUES ($1, $2, $3) ON CONFLICT DO NOTHING
	reg(p+"InitTxPointer", "d3009b6a15ade897", params(i8, i8, i8), nil, ordered,
		insertStmt("tx_pointer", []string{"eon", "age", "value"}, always(doNothing())))

	// INSERT INTO slot_decryption_signatures (eon, slot, keyper_index, tx_pointer, identities_hash, signature)
	// VALUES ($1, $2, $3, $4, $5, $6) ON CONFLICT DO NOTHING
	reg(p+"InsertSlotDecryptionSignature", "43f8bf577ba787ff", params(i8, i8, i8, i8, bya, bya), nil, ordered,
		insertStmt("slot_decryption_signatures", []string{"eon", "slot", "keyper_index", "tx_pointer", "identities_hash", "signature"}, always(doNothing())))

	// INSERT INTO transaction_submitted_event (index, block_number, block_hash, tx_index, log_index, eon,
	//     identity_prefix, sender, gas_limit)
	// VALUES ($1, $2, $3, $4, $5, $6, $7, $8, $9)
	// ON CONFLICT (index, eon) DO UPDATE SET
	// block_number = $2, block_hash = $3, tx_index = $4, log_index = $5,
	// identity_prefix = $7, sender = $8, gas_limit = $9
	reg(p+"InsertTransactionSubmittedEvent", "45ac0f4f00735773", params(i8, i8, bya, i8, i8, i8, bya, txt, i8), nil, ordered,
		insertStmt("transaction_submitted_event",
			[]string{"index", "block_number", "block_hash", "tx_index", "log_index", "eon", "identity_prefix", "sender", "gas_limit"},
			setParams([]string{"index", "eon"}, map[string]int{
				"block_number": 2, "block_hash": 3, "tx_index": 4, "log_index": 5,
				"identity_prefix": 7, "sender": 8, "gas_limit": 9})))

	// INSERT INTO validator_registrations (block_number, block_hash, tx_index, log_index, validator_index,
	//     nonce, is_registration) VALUES ($1, $2, $3, $4, $5, $6, $7)
	reg(p+"InsertValidatorRegistration", "22431dfff6d09c90", params(i8, bya, i8, i8, i8, i8, bl), nil, ordered,
		insertStmt("validator_registrations",
			[]string{"block_number", "block_hash", "tx_index", "log_index", "validator_index", "nonce", "is_registration"}, nil))

	// SELECT is_registration FROM validator_registrations
	// WHERE validator_index = $1 AND block_number < $2
	// ORDER BY block_number DESC, tx_index DESC, log_index DESC LIMIT 1
	reg(p+"IsValidatorRegistered", "dab5c859b0c45b22", params(i8, i8), colsOf("validator_registrations", "is_registration"), ordered,
		selectStmt("validator_registrations", []string{"is_registration"}, func(r Row, a []any) bool {
			return sqlEq(r["validator_index"], a[0]) && sqlLt(r["block_number"], a[1])
		}, []sortKey{desc("block_number"), desc("tx_index"), desc("log_index")}, 1))

	// UPDATE tx_pointer SET age = NULL
	reg(p+"ResetAllTxPointerAges", "59c5e6a3918721ff", nil, nil, ordered,
		func(tx *Store, a []any) ([][]any, string, error) {
			u, err := tx.updateWhere("tx_pointer", nil, func(Row) (Row, error) { return Row{"age": nil}, nil })
			return nil, tagUpdate(len(u)), err
		})

	// INSERT INTO current_decryption_trigger (eon, slot, tx_pointer, identities_hash) VALUES ($1, $2, $3, $4)
	// ON CONFLICT (eon) DO UPDATE SET slot = $2, tx_pointer = $3, identities_hash = $4
	reg(p+"SetCurrentDecryptionTrigger", "3ede00a3e4998aa5", params(i8, i8, i8, bya), nil, ordered,
		insertStmt(cdt, []string{"eon", "slot", "tx_pointer", "identities_hash"},
			setParams([]string{"eon"}, map[string]int{"slot": 2, "tx_pointer": 3, "identities_hash": 4})))

	// INSERT INTO transaction_submitted_events_synced_until (block_hash, block_number, slot) VALUES ($1, $2, $3)
	// ON CONFLICT (enforce_one_row) DO UPDATE SET block_hash = $1, block_number = $2, slot = $3
	reg(p+"SetTransactionSubmittedEventsSyncedUntil", "4ae6e037bca06838", params(bya, i8, i8), nil, ordered,
		insertStmt("transaction_submitted_events_synced_until", []string{"block_hash", "block_number", "slot"},
			setParams([]string{"enforce_one_row"}, map[string]int{"block_hash": 1, "block_number": 2, "slot": 3})))

	// INSERT INTO tx_pointer (eon, age, value) VALUES ($1, $2, $3)
	// ON CONFLICT (eon) DO UPDATE SET age = $2, value = $3
	reg(p+"SetTxPointer", "d6b4e17ebb5e5f15", params(i8, i8, i8), nil, ordered,
		insertStmt("tx_pointer", []string{"eon", "age", "value"},
			setParams([]string{"eon"}, map[string]int{"age": 2, "value": 3})))

	// INSERT INTO validator_registrations_synced_until (block_hash, block_number) VALUES ($1, $2)
	// ON CONFLICT (enforce_one_row) DO UPDATE SET block_hash = $1, block_number = $2
	reg(p+"SetValidatorRegistrationsSyncedUntil", "01a5ba84ac65bb64", params(bya, i8), nil, ordered,
		insertStmt("validator_registrations_synced_until", []string{"block_hash", "block_number"},
			setParams([]string{"enforce_one_row"}, map[string]int{"block_hash": 1, "block_number": 2})))
}
