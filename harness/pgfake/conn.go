package pgfake

import (
	"fmt"
	"net"
	"runtime/debug"
	"strings"

	"github.com/jackc/pgproto3/v2"
)

type ctlKind int

const (
	ctlEmpty ctlKind = iota
	ctlBegin
	ctlCommit
	ctlRollback
	ctlSavepoint
	ctlRelease
	ctlRollbackTo
	ctlDeallocate
	ctlListen
	ctlUnlisten
)

// controlCmd is a recognised utility statement (transaction control etc.).
type controlCmd struct {
	kind ctlKind
	arg  string
	word string // for the message log
}

// parseControl recognises the utility statements pgx sends by itself.
func parseControl(sql string) *controlCmd {
	t := strings.TrimSpace(sql)
	t = strings.TrimSpace(strings.TrimRight(t, ";"))
	f := strings.Fields(strings.ToLower(t))
	if len(f) == 0 {
		return &controlCmd{kind: ctlEmpty, word: "(empty)"}
	}
	last := f[len(f)-1]
	switch f[0] {
	case "begin":
		return &controlCmd{kind: ctlBegin, word: "begin"}
	case "start":
		if len(f) > 1 && f[1] == "transaction" {
			return &controlCmd{kind: ctlBegin, word: "begin"}
		}
	case "commit", "end":
		if len(f) == 1 || (len(f) == 2 && (f[1] == "transaction" || f[1] == "work")) {
			return &controlCmd{kind: ctlCommit, word: "commit"}
		}
	case "abort":
		return &controlCmd{kind: ctlRollback, word: "rollback"}
	case "rollback":
		if len(f) >= 3 && f[1] == "to" {
			return &controlCmd{kind: ctlRollbackTo, arg: last, word: "rollback to savepoint"}
		}
		if len(f) == 1 || (len(f) == 2 && (f[1] == "transaction" || f[1] == "work")) {
			return &controlCmd{kind: ctlRollback, word: "rollback"}
		}
	case "savepoint":
		if len(f) == 2 {
			return &controlCmd{kind: ctlSavepoint, arg: last, word: "savepoint"}
		}
	case "release":
		if len(f) == 2 || (len(f) == 3 && f[1] == "savepoint") {
			return &controlCmd{kind: ctlRelease, arg: last, word: "release savepoint"}
		}
	case "deallocate":
		if len(f) == 2 || (len(f) == 3 && f[1] == "prepare") {
			// statement names are case sensitive only if quoted; pgx uses lower case names
			orig := strings.Fields(t)
			return &controlCmd{kind: ctlDeallocate, arg: strings.Trim(orig[len(orig)-1], `"`), word: "deallocate"}
		}
	case "listen":
		if len(f) == 2 {
			return &controlCmd{kind: ctlListen, arg: last, word: "listen"}
		}
	case "unlisten":
		if len(f) == 2 {
			return &controlCmd{kind: ctlUnlisten, arg: last, word: "unlisten"}
		}
	}
	return nil
}

type prepared struct {
	sql   string
	entry *stmtEntry  // data statement
	ctl   *controlCmd // or utility statement
}

func (p *prepared) logName() string {
	if p == nil {
		return ""
	}
	if p.entry != nil {
		return p.entry.Key
	}
	if p.ctl != nil {
		return p.ctl.word
	}
	return ""
}

type portal struct {
	ps            *prepared
	args          []any
	resultFormats []int16
}

type savepoint struct {
	name string
	st   *Store
}

type conn struct {
	s  *Server
	nc net.Conn
	id int
	be *pgproto3.Backend

	out      []byte
	prepared map[string]*prepared
	portals  map[string]*portal

	tx         *Store // private store of the current transaction, nil if none
	explicit   bool   // opened by BEGIN
	failed     bool   // explicit transaction is in the failed state
	locked     bool   // holds s.store.mu: a modifying autocommit statement awaits its Sync
	savepoints []savepoint
	skip       bool // after an error: discard messages until Sync
}

func newConn(s *Server, nc net.Conn, id int) *conn {
	return &conn{s: s, nc: nc, id: id, prepared: map[string]*prepared{}, portals: map[string]*portal{}}
}

func (c *conn) send(m pgproto3.BackendMessage) { c.out = m.Encode(c.out) }

func (c *conn) flush() error {
	if len(c.out) == 0 {
		return nil
	}
	_, err := c.nc.Write(c.out)
	c.out = c.out[:0]
	return err
}

func (c *conn) txStatus() byte {
	switch {
	case c.explicit && c.failed:
		return 'E'
	case c.explicit:
		return 'T'
	}
	return 'I'
}

func (c *conn) sendError(e *PgError) {
	c.send(&pgproto3.ErrorResponse{
		Severity: "ERROR", SeverityUnlocalized: "ERROR", Code: e.Code, Message: e.Message, Detail: e.Detail,
		TableName: e.Table, ColumnName: e.Column, ConstraintName: e.Constraint,
	})
}

func asPgError(err error) *PgError {
	if err == nil {
		return nil
	}
	if pe, ok := err.(*PgError); ok {
		return pe
	}
	return &PgError{Code: "XX000", Message: "pgfake: " + err.Error()}
}

// discardTx drops the current transaction (explicit or implicit) and releases
// the store lock if held.
func (c *conn) discardTx() {
	c.tx = nil
	c.explicit = false
	c.failed = false
	c.savepoints = nil
	if c.locked {
		c.locked = false
		c.s.store.mu.Unlock()
	}
}

// finishImplicit ends the implicit transaction of an autocommit statement.
// It reports whether a modification was committed.
func (c *conn) finishImplicit(commit bool) bool {
	if c.tx == nil || c.explicit {
		return false
	}
	committed := false
	if commit && c.locked && c.tx.dirty {
		c.s.store.install(c.tx)
		committed = true
	}
	c.discardTx()
	return committed
}

// implicitCommitPending reports whether the next Sync will commit a modification.
func (c *conn) implicitCommitPending() bool {
	return c.tx != nil && !c.explicit && c.locked && c.tx.dirty
}

func (c *conn) serve() {
	defer func() {
		c.discardTx()
		c.nc.Close()
	}()
	c.be = pgproto3.NewBackend(pgproto3.NewChunkReader(c.nc), c.nc)
	for {
		sm, err := c.be.ReceiveStartupMessage()
		if err != nil {
			return
		}
		switch sm.(type) {
		case *pgproto3.SSLRequest, *pgproto3.GSSEncRequest:
			if _, err := c.nc.Write([]byte{'N'}); err != nil {
				return
			}
			continue
		case *pgproto3.CancelRequest:
			return
		case *pgproto3.StartupMessage:
		default:
			return
		}
		break
	}
	if _, f := c.s.noteMsg(c.id, "Startup", ""); f != nil {
		if f.Kind == DropBefore {
			c.s.recordFired(f, c.id, "Startup", "", true, "connection closed before startup was answered")
			return
		}
		c.s.recordFired(f, c.id, "Startup", "", false, "fault kind does not apply to a startup message")
	}
	c.send(&pgproto3.AuthenticationOk{})
	for _, kv := range [][2]string{
		{"server_version", "14.0"}, {"client_encoding", "UTF8"}, {"standard_conforming_strings", "on"},
		{"integer_datetimes", "on"}, {"DateStyle", "ISO, MDY"}, {"TimeZone", "UTC"}, {"server_encoding", "UTF8"},
	} {
		c.send(&pgproto3.ParameterStatus{Name: kv[0], Value: kv[1]})
	}
	c.send(&pgproto3.BackendKeyData{ProcessID: uint32(c.id), SecretKey: 0x5eed})
	c.send(&pgproto3.ReadyForQuery{TxStatus: 'I'})
	if c.flush() != nil {
		return
	}

	for {
		msg, err := c.be.Receive()
		if err != nil {
			return
		}
		kind, stmt := c.classify(msg)
		_, fault := c.s.noteMsg(c.id, kind, stmt)
		if fault != nil && fault.Kind == DropBefore {
			c.s.recordFired(fault, c.id, kind, stmt, true, "connection closed before processing the message")
			return
		}
		cont := c.handle(msg, kind, stmt, fault)
		if !cont {
			return
		}
	}
}

// classify names a message for the log (no side effects).
func (c *conn) classify(msg pgproto3.FrontendMessage) (kind, stmt string) {
	nameOfSQL := func(sql string) string {
		if e := c.s.lookupText(sql); e != nil {
			return e.Key
		}
		if ctl := parseControl(sql); ctl != nil {
			return ctl.word
		}
		return firstLine(sql)
	}
	switch m := msg.(type) {
	case *pgproto3.Parse:
		return "Parse", nameOfSQL(m.Query)
	case *pgproto3.Bind:
		return "Bind", c.prepared[m.PreparedStatement].logName()
	case *pgproto3.Describe:
		if m.ObjectType == 'S' {
			return "Describe", c.prepared[m.Name].logName()
		}
		if p := c.portals[m.Name]; p != nil {
			return "Describe", p.ps.logName()
		}
		return "Describe", ""
	case *pgproto3.Execute:
		if p := c.portals[m.Portal]; p != nil {
			return "Execute", p.ps.logName()
		}
		return "Execute", ""
	case *pgproto3.Sync:
		return "Sync", ""
	case *pgproto3.Flush:
		return "Flush", ""
	case *pgproto3.Close:
		return "Close", ""
	case *pgproto3.Query:
		return "Query", nameOfSQL(m.String)
	case *pgproto3.Terminate:
		return "Terminate", ""
	}
	return fmt.Sprintf("%T", msg), ""
}

// handle processes one message; it returns false if the connection must be closed.
func (c *conn) handle(msg pgproto3.FrontendMessage, kind, stmt string, fault *Fault) bool {
	notApplicable := func() {
		if fault != nil {
			c.s.recordFired(fault, c.id, kind, stmt, false, "fault kind "+fault.Kind.String()+" does not apply to this message")
		}
	}
	switch m := msg.(type) {
	case *pgproto3.Terminate:
		notApplicable()
		return false

	case *pgproto3.Sync:
		if fault != nil && fault.Kind == DropAfterCommit && c.implicitCommitPending() {
			c.finishImplicit(true)
			c.s.recordFired(fault, c.id, kind, stmt, true, "autocommit statement committed, connection closed before ReadyForQuery")
			return false
		}
		notApplicable()
		c.finishImplicit(!c.skip)
		c.skip = false
		c.send(&pgproto3.ReadyForQuery{TxStatus: c.txStatus()})
		return c.flush() == nil

	case *pgproto3.Flush:
		notApplicable()
		return c.flush() == nil

	case *pgproto3.Query:
		return c.handleQuery(m.String, kind, stmt, fault)
	}

	// extended protocol messages other than Sync are discarded after an error
	if c.skip {
		notApplicable()
		return true
	}
	fail := func(e *PgError) bool {
		c.sendError(e)
		c.skip = true
		if c.explicit {
			c.failed = true
		} else {
			c.finishImplicit(false)
		}
		return true
	}

	switch m := msg.(type) {
	case *pgproto3.Parse:
		notApplicable()
		if c.explicit && c.failed {
			if ctl := parseControl(m.Query); ctl == nil || (ctl.kind != ctlCommit && ctl.kind != ctlRollback && ctl.kind != ctlRollbackTo) {
				return fail(pgerr("25P02", "current transaction is aborted, commands ignored until end of transaction block"))
			}
		}
		ps, e := c.prepare(m.Query)
		if e != nil {
			return fail(e)
		}
		if m.Name != "" {
			if _, dup := c.prepared[m.Name]; dup {
				return fail(pgerr("42P05", "prepared statement %q already exists", m.Name))
			}
		}
		c.prepared[m.Name] = ps
		c.send(&pgproto3.ParseComplete{})

	case *pgproto3.Describe:
		notApplicable()
		if m.ObjectType == 'S' {
			ps := c.prepared[m.Name]
			if ps == nil {
				return fail(pgerr("26000", "prepared statement %q does not exist", m.Name))
			}
			pd := &pgproto3.ParameterDescription{ParameterOIDs: []uint32{}}
			if ps.entry != nil {
				pd.ParameterOIDs = append(pd.ParameterOIDs, ps.entry.h.Params...)
			}
			c.send(pd)
			c.sendRowDescription(ps, nil)
		} else {
			p := c.portals[m.Name]
			if p == nil {
				return fail(pgerr("34000", "portal %q does not exist", m.Name))
			}
			c.sendRowDescription(p.ps, p.resultFormats)
		}

	case *pgproto3.Bind:
		notApplicable()
		ps := c.prepared[m.PreparedStatement]
		if ps == nil {
			return fail(pgerr("26000", "prepared statement %q does not exist", m.PreparedStatement))
		}
		p := &portal{ps: ps, resultFormats: append([]int16(nil), m.ResultFormatCodes...)}
		var want []uint32
		if ps.entry != nil {
			want = ps.entry.h.Params
		}
		if len(m.Parameters) != len(want) {
			return fail(pgerr("08P01", "bind message supplies %d parameters, but prepared statement %q requires %d",
				len(m.Parameters), m.PreparedStatement, len(want)))
		}
		if n := len(m.ParameterFormatCodes); n > 1 && n != len(want) {
			return fail(pgerr("08P01", "bind message has %d parameter formats but %d parameters", n, len(want)))
		}
		for i, raw := range m.Parameters {
			var format int16
			switch len(m.ParameterFormatCodes) {
			case 0:
			case 1:
				format = m.ParameterFormatCodes[0]
			default:
				format = m.ParameterFormatCodes[i]
			}
			v, err := decodeWire(want[i], format, raw)
			if err != nil {
				return fail(asPgError(err))
			}
			p.args = append(p.args, v)
		}
		c.portals[m.DestinationPortal] = p
		c.send(&pgproto3.BindComplete{})

	case *pgproto3.Execute:
		p := c.portals[m.Portal]
		if p == nil {
			notApplicable()
			return fail(pgerr("34000", "portal %q does not exist", m.Portal))
		}
		if p.ps.ctl != nil {
			if c.locked {
				c.finishImplicit(true)
			}
			dropAfter := fault != nil && fault.Kind == DropAfterCommit && p.ps.ctl.kind == ctlCommit && c.explicit && !c.failed
			if !dropAfter {
				notApplicable()
			}
			tag, e := c.runControl(p.ps.ctl)
			if dropAfter {
				c.s.recordFired(fault, c.id, kind, stmt, e == nil, "commit processed, connection closed before reply")
				if e == nil {
					return false
				}
			}
			if e != nil {
				return fail(e)
			}
			if p.ps.ctl.kind == ctlEmpty {
				c.send(&pgproto3.EmptyQueryResponse{})
			} else {
				c.send(&pgproto3.CommandComplete{CommandTag: []byte(tag)})
			}
			return true
		}
		var injected *PgError
		if fault != nil {
			if fault.Kind == FailStatement {
				injected = injectedError(fault.SQLState, p.ps.entry.Key)
				c.s.recordFired(fault, c.id, kind, stmt, true, "statement failed with injected SQLSTATE "+injected.Code)
			} else {
				notApplicable()
			}
		}
		rows, tag, e := c.runStatement(p.ps.entry, p.args, p.resultFormats, injected)
		if e != nil {
			return fail(e)
		}
		if m.MaxRows != 0 && uint32(len(rows)) > m.MaxRows {
			c.s.addIssue("maxrows-ignored", p.ps.entry.Key, "Execute with a row limit is not supported; all rows were sent")
		}
		for _, r := range rows {
			c.send(&pgproto3.DataRow{Values: r})
		}
		c.send(&pgproto3.CommandComplete{CommandTag: []byte(tag)})

	case *pgproto3.Close:
		notApplicable()
		if m.ObjectType == 'S' {
			delete(c.prepared, m.Name)
		} else {
			delete(c.portals, m.Name)
		}
		c.send(&pgproto3.CloseComplete{})

	default:
		notApplicable()
		return fail(pgerr("0A000", "pgfake: unsupported frontend message %T", msg))
	}
	return true
}

func injectedError(state, key string) *PgError {
	if state == "" {
		state = "XX000"
	}
	return &PgError{Code: state, Message: "pgfake: injected failure of " + key}
}

// prepare resolves a statement text.
func (c *conn) prepare(sql string) (*prepared, *PgError) {
	if e := c.s.lookupText(sql); e != nil {
		if e.h == nil {
			c.s.addIssue("unimplemented-statement", e.Key, "statement without pgfake handler was sent")
			return nil, pgerr("0A000", "pgfake: unimplemented statement %s", e.Key)
		}
		return &prepared{sql: sql, entry: e}, nil
	}
	if ctl := parseControl(sql); ctl != nil {
		return &prepared{sql: sql, ctl: ctl}, nil
	}
	c.s.addIssue("unknown-statement", firstLine(sql), "statement text is not a known sqlc statement: "+truncate(sql, 400))
	return nil, pgerr("0A000", "pgfake: unimplemented statement %s", firstLine(sql))
}

func truncate(s string, n int) string {
	if len(s) > n {
		return s[:n] + "..."
	}
	return s
}

func (c *conn) sendRowDescription(ps *prepared, formats []int16) {
	if ps.entry == nil || ps.entry.h.Result == nil {
		c.send(&pgproto3.NoData{})
		return
	}
	c.send(rowDescription(ps.entry.h.Result, formats))
}

func formatFor(formats []int16, i int) int16 {
	switch len(formats) {
	case 0:
		return 0
	case 1:
		return formats[0]
	}
	if i < len(formats) {
		return formats[i]
	}
	return 0
}

func rowDescription(cols []ResultCol, formats []int16) *pgproto3.RowDescription {
	rd := &pgproto3.RowDescription{}
	for i, col := range cols {
		rd.Fields = append(rd.Fields, pgproto3.FieldDescription{
			Name: []byte(col.Name), DataTypeOID: col.OID, DataTypeSize: typeSize(col.OID), TypeModifier: -1,
			Format: formatFor(formats, i),
		})
	}
	return rd
}

// runStatement executes a data statement in the current (or a fresh implicit)
// transaction and encodes its result.  A modifying autocommit statement keeps
// the committed store locked until finishImplicit, so that it commits
// atomically at Sync as in PostgreSQL.
func (c *conn) runStatement(e *stmtEntry, args []any, formats []int16, injected *PgError) (out [][][]byte, tag string, perr *PgError) {
	if c.explicit && c.failed {
		return nil, "", pgerr("25P02", "current transaction is aborted, commands ignored until end of transaction block")
	}
	if injected == nil {
		if state, ok := c.s.takeFailNext(e.Key); ok {
			injected = injectedError(state, e.Key)
		}
	}
	if injected != nil {
		return nil, "", injected
	}
	if e.changed {
		c.s.addIssue("changed-statement-used", e.Key,
			fmt.Sprintf("statement text (hash %s) differs from the text the handler was written against (%s); executed with the old meaning", e.Hash, e.h.Hash))
	}
	if c.tx == nil {
		c.s.store.mu.Lock()
		c.locked = true
		c.tx = c.s.store.child()
	}
	tx := c.tx
	var rows [][]any
	func() {
		defer func() {
			if r := recover(); r != nil {
				c.s.addIssue("handler-panic", e.Key, fmt.Sprintf("%v\n%s", r, debug.Stack()))
				perr = pgerr("XX000", "pgfake: handler for %s panicked: %v", e.Key, r)
			}
		}()
		var err error
		rows, tag, err = e.h.Exec(tx, args)
		if err == nil {
			err = tx.endStatement()
		} else {
			tx.pending = nil
		}
		perr = asPgError(err)
	}()
	if perr == nil {
		ncol := len(e.h.Result)
		for _, r := range rows {
			if len(r) != ncol {
				perr = pgerr("XX000", "pgfake: internal: handler %s returned %d columns, declared %d", e.Key, len(r), ncol)
				break
			}
			enc := make([][]byte, ncol)
			for i, v := range r {
				b, err := encodeWire(e.h.Result[i].OID, formatFor(formats, i), v)
				if err != nil {
					perr = asPgError(err)
					break
				}
				enc[i] = b
			}
			if perr != nil {
				break
			}
			out = append(out, enc)
		}
	}
	if perr != nil {
		// the caller marks an explicit transaction failed / drops the implicit one
		return nil, "", perr
	}
	if !c.explicit && !tx.dirty {
		// read-only autocommit statement: nothing to commit, release at once
		c.discardTx()
	}
	return out, tag, nil
}

// runControl executes a utility statement and returns its command tag.
func (c *conn) runControl(ctl *controlCmd) (string, *PgError) {
	aborted := func() *PgError {
		return pgerr("25P02", "current transaction is aborted, commands ignored until end of transaction block")
	}
	switch ctl.kind {
	case ctlEmpty:
		return "", nil
	case ctlBegin:
		if c.explicit {
			if c.failed {
				return "", aborted()
			}
			return "BEGIN", nil // PostgreSQL: WARNING there is already a transaction in progress
		}
		c.s.store.mu.Lock()
		c.tx = c.s.store.child()
		c.s.store.mu.Unlock()
		c.explicit, c.failed, c.savepoints = true, false, nil
		return "BEGIN", nil
	case ctlCommit:
		if !c.explicit {
			return "COMMIT", nil // WARNING: there is no transaction in progress
		}
		if c.failed {
			c.discardTx()
			return "ROLLBACK", nil
		}
		if c.tx.dirty {
			st := c.s.store
			st.mu.Lock()
			if st.version != c.tx.version {
				st.mu.Unlock()
				c.discardTx()
				return "", pgerr("40001", "could not serialize access due to concurrent update")
			}
			st.install(c.tx)
			st.mu.Unlock()
		}
		c.discardTx()
		return "COMMIT", nil
	case ctlRollback:
		c.discardTx()
		return "ROLLBACK", nil
	case ctlSavepoint:
		if !c.explicit {
			return "", pgerr("25P01", "SAVEPOINT can only be used in transaction blocks")
		}
		if c.failed {
			return "", aborted()
		}
		snap := c.tx.child()
		snap.dirty = c.tx.dirty
		c.savepoints = append(c.savepoints, savepoint{name: ctl.arg, st: snap})
		return "SAVEPOINT", nil
	case ctlRelease:
		if !c.explicit {
			return "", pgerr("25P01", "RELEASE SAVEPOINT can only be used in transaction blocks")
		}
		if c.failed {
			return "", aborted()
		}
		for i := len(c.savepoints) - 1; i >= 0; i-- {
			if c.savepoints[i].name == ctl.arg {
				c.savepoints = c.savepoints[:i]
				return "RELEASE", nil
			}
		}
		return "", pgerr("3B001", "savepoint %q does not exist", ctl.arg)
	case ctlRollbackTo:
		if !c.explicit {
			return "", pgerr("25P01", "ROLLBACK TO SAVEPOINT can only be used in transaction blocks")
		}
		for i := len(c.savepoints) - 1; i >= 0; i-- {
			if c.savepoints[i].name == ctl.arg {
				sp := c.savepoints[i]
				c.savepoints = c.savepoints[:i+1]
				c.tx = sp.st.child()
				c.tx.dirty = sp.st.dirty
				c.failed = false
				return "ROLLBACK", nil
			}
		}
		return "", pgerr("3B001", "savepoint %q does not exist", ctl.arg)
	case ctlDeallocate:
		if strings.EqualFold(ctl.arg, "all") {
			c.prepared = map[string]*prepared{}
			return "DEALLOCATE ALL", nil
		}
		if _, ok := c.prepared[ctl.arg]; !ok {
			return "", pgerr("26000", "prepared statement %q does not exist", ctl.arg)
		}
		delete(c.prepared, ctl.arg)
		return "DEALLOCATE", nil
	case ctlListen:
		return "LISTEN", nil // accepted; pgfake never sends notifications
	case ctlUnlisten:
		return "UNLISTEN", nil
	}
	return "", pgerr("0A000", "pgfake: unsupported utility statement")
}

// handleQuery processes a simple-protocol Query message.
func (c *conn) handleQuery(sql, kind, stmt string, fault *Fault) bool {
	notApplicable := func() {
		if fault != nil {
			c.s.recordFired(fault, c.id, kind, stmt, false, "fault kind "+fault.Kind.String()+" does not apply to this message")
		}
	}
	c.skip = false
	ready := func() bool {
		c.send(&pgproto3.ReadyForQuery{TxStatus: c.txStatus()})
		return c.flush() == nil
	}
	fail := func(e *PgError) bool {
		c.sendError(e)
		if c.explicit {
			c.failed = true
		} else {
			c.finishImplicit(false)
		}
		return ready()
	}
	if c.locked {
		// a Query while an extended-protocol autocommit statement awaits its Sync
		c.finishImplicit(true)
	}
	e := c.s.lookupText(sql)
	if e == nil {
		ctl := parseControl(sql)
		if ctl == nil {
			notApplicable()
			_, pe := c.prepare(sql) // records the issue
			return fail(pe)
		}
		dropAfter := fault != nil && fault.Kind == DropAfterCommit && ctl.kind == ctlCommit && c.explicit && !c.failed
		if !dropAfter {
			notApplicable()
		}
		if c.explicit && c.failed && ctl.kind != ctlCommit && ctl.kind != ctlRollback && ctl.kind != ctlRollbackTo {
			return fail(pgerr("25P02", "current transaction is aborted, commands ignored until end of transaction block"))
		}
		tag, pe := c.runControl(ctl)
		if dropAfter {
			if pe == nil {
				c.s.recordFired(fault, c.id, kind, stmt, true, "transaction committed, connection closed before reply")
				return false
			}
			c.s.recordFired(fault, c.id, kind, stmt, false, "commit failed: "+pe.Error())
		}
		if pe != nil {
			return fail(pe)
		}
		if ctl.kind == ctlEmpty {
			c.send(&pgproto3.EmptyQueryResponse{})
		} else {
			c.send(&pgproto3.CommandComplete{CommandTag: []byte(tag)})
		}
		return ready()
	}
	if e.h == nil {
		notApplicable()
		_, pe := c.prepare(sql)
		return fail(pe)
	}
	if len(e.h.Params) > 0 {
		notApplicable()
		return fail(pgerr("42P02", "there is no parameter $1"))
	}
	var injected *PgError
	dropAfter := false
	if fault != nil {
		switch fault.Kind {
		case FailStatement:
			injected = injectedError(fault.SQLState, e.Key)
			c.s.recordFired(fault, c.id, kind, stmt, true, "statement failed with injected SQLSTATE "+injected.Code)
		case DropAfterCommit:
			dropAfter = !c.explicit
			if !dropAfter {
				notApplicable()
			}
		default:
			notApplicable()
		}
	}
	rows, tag, pe := c.runStatement(e, nil, nil, injected)
	if pe != nil {
		if dropAfter {
			c.s.recordFired(fault, c.id, kind, stmt, false, "statement failed: "+pe.Error())
		}
		return fail(pe)
	}
	committed := c.finishImplicit(true)
	if dropAfter {
		if committed {
			c.s.recordFired(fault, c.id, kind, stmt, true, "autocommit statement committed, connection closed before reply")
			return false
		}
		c.s.recordFired(fault, c.id, kind, stmt, false, "statement did not modify anything; nothing was committed")
	}
	if e.h.Result != nil {
		c.send(rowDescription(e.h.Result, nil))
		for _, r := range rows {
			c.send(&pgproto3.DataRow{Values: r})
		}
	}
	c.send(&pgproto3.CommandComplete{CommandTag: []byte(tag)})
	return ready()
}
