// Package pgfake is an in-memory fake PostgreSQL server (wire protocol v3
// backend) that gives the sqlc statements of the rolling-shutter repository
// their PostgreSQL meaning over a small dynamic store.  It exists because the
// verification sandbox has no Postgres binary, while the code under test takes
// a concrete *pgxpool.Pool.
//
// Statements are recognised by their exact sqlc text (see catalog.go); every
// handler records the hash of the text it was written against, so that a drift
// of the source is reported instead of being silently mis-executed.
package pgfake

import (
	"bytes"
	"encoding/hex"
	"fmt"
	"math"
	"sort"
	"strconv"
	"strings"
	"time"

	"github.com/jackc/pgtype"
)

// PostgreSQL type OIDs used by the transcribed schemas.
const (
	OIDBool        uint32 = 16
	OIDBytea       uint32 = 17
	OIDInt8        uint32 = 20
	OIDInt4        uint32 = 23
	OIDText        uint32 = 25
	OIDByteaArray  uint32 = 1001
	OIDTextArray   uint32 = 1009
	OIDInt8Array   uint32 = 1016
	OIDTimestamp   uint32 = 1114
	OIDTimestamptz uint32 = 1184
)

// Row is one table row.  Values are normalised Go values:
//
//	int64      bigint / integer / serial
//	string     text
//	[]byte     bytea
//	bool       boolean
//	[]string   text[]
//	[][]byte   bytea[]
//	[]int64    bigint[]  (parameters only)
//	time.Time  timestamp / timestamptz (UTC, microsecond precision)
//	nil        NULL
//
// Rows held by a Store are immutable: an update replaces the map.
type Row map[string]any

// PgError is an error with a SQLSTATE; it is sent to the client as an
// ErrorResponse.
type PgError struct {
	Code       string
	Message    string
	Detail     string
	Table      string
	Column     string
	Constraint string
}

func (e *PgError) Error() string { return fmt.Sprintf("%s (SQLSTATE %s)", e.Message, e.Code) }

func pgerr(code, format string, a ...any) *PgError {
	return &PgError{Code: code, Message: fmt.Sprintf(format, a...)}
}

var connInfo = pgtype.NewConnInfo()

func oidName(oid uint32) string {
	switch oid {
	case OIDBool:
		return "boolean"
	case OIDBytea:
		return "bytea"
	case OIDInt8:
		return "bigint"
	case OIDInt4:
		return "integer"
	case OIDText:
		return "text"
	case OIDByteaArray:
		return "bytea[]"
	case OIDTextArray:
		return "text[]"
	case OIDInt8Array:
		return "bigint[]"
	case OIDTimestamp:
		return "timestamp"
	case OIDTimestamptz:
		return "timestamptz"
	}
	return fmt.Sprintf("oid%d", oid)
}

// normalise converts a Go value into the canonical representation for a
// column/parameter of type oid, checking ranges.
func normalise(oid uint32, v any) (any, error) {
	if v == nil {
		return nil, nil
	}
	switch oid {
	case OIDInt8, OIDInt4:
		var n int64
		switch x := v.(type) {
		case int:
			n = int64(x)
		case int8:
			n = int64(x)
		case int16:
			n = int64(x)
		case int32:
			n = int64(x)
		case int64:
			n = x
		case uint8:
			n = int64(x)
		case uint16:
			n = int64(x)
		case uint32:
			n = int64(x)
		case uint:
			if uint64(x) > math.MaxInt64 {
				return nil, pgerr("22003", "bigint out of range")
			}
			n = int64(x)
		case uint64:
			if x > math.MaxInt64 {
				return nil, pgerr("22003", "bigint out of range")
			}
			n = int64(x)
		default:
			return nil, pgerr("42804", "pgfake: cannot use %T as %s", v, oidName(oid))
		}
		if oid == OIDInt4 && (n < math.MinInt32 || n > math.MaxInt32) {
			return nil, pgerr("22003", "integer out of range")
		}
		return n, nil
	case OIDText:
		if x, ok := v.(string); ok {
			if strings.IndexByte(x, 0) >= 0 {
				return nil, pgerr("22021", "invalid byte sequence for encoding \"UTF8\": 0x00")
			}
			return x, nil
		}
	case OIDBytea:
		if x, ok := v.([]byte); ok {
			if x == nil {
				return nil, nil
			}
			return append([]byte{}, x...), nil
		}
	case OIDBool:
		if x, ok := v.(bool); ok {
			return x, nil
		}
	case OIDTextArray:
		if x, ok := v.([]string); ok {
			if x == nil {
				return nil, nil
			}
			return append([]string{}, x...), nil
		}
	case OIDByteaArray:
		if x, ok := v.([][]byte); ok {
			if x == nil {
				return nil, nil
			}
			out := make([][]byte, len(x))
			for i := range x {
				out[i] = append([]byte{}, x[i]...)
			}
			return out, nil
		}
	case OIDInt8Array:
		if x, ok := v.([]int64); ok {
			if x == nil {
				return nil, nil
			}
			return append([]int64{}, x...), nil
		}
	case OIDTimestamp:
		if x, ok := v.(time.Time); ok {
			// "timestamp without time zone": the wall clock reading is kept,
			// the zone is dropped (this is what pgtype.Timestamp.Set does).
			t := time.Date(x.Year(), x.Month(), x.Day(), x.Hour(), x.Minute(), x.Second(), x.Nanosecond(), time.UTC)
			return t.Truncate(time.Microsecond), nil
		}
	case OIDTimestamptz:
		if x, ok := v.(time.Time); ok {
			return x.UTC().Truncate(time.Microsecond), nil
		}
	default:
		return nil, pgerr("0A000", "pgfake: unsupported type oid %d", oid)
	}
	return nil, pgerr("42804", "pgfake: cannot use %T as %s", v, oidName(oid))
}

// cloneVal deep-copies a normalised value.
func cloneVal(v any) any {
	switch x := v.(type) {
	case []byte:
		return append([]byte{}, x...)
	case []string:
		return append([]string{}, x...)
	case []int64:
		return append([]int64{}, x...)
	case [][]byte:
		out := make([][]byte, len(x))
		for i := range x {
			out[i] = append([]byte{}, x[i]...)
		}
		return out
	}
	return v
}

func cloneRow(r Row) Row {
	out := make(Row, len(r))
	for k, v := range r {
		out[k] = cloneVal(v)
	}
	return out
}

// compareVals orders two non-NULL values of the same type the way PostgreSQL
// does for the column types in use: integers numerically, text bytewise (C
// collation), bytea bytewise, false < true, timestamps chronologically.
func compareVals(a, b any) int {
	switch x := a.(type) {
	case int64:
		y := b.(int64)
		switch {
		case x < y:
			return -1
		case x > y:
			return 1
		}
		return 0
	case string:
		return strings.Compare(x, b.(string))
	case []byte:
		return bytes.Compare(x, b.([]byte))
	case bool:
		y := b.(bool)
		switch {
		case !x && y:
			return -1
		case x && !y:
			return 1
		}
		return 0
	case time.Time:
		y := b.(time.Time)
		switch {
		case x.Before(y):
			return -1
		case x.After(y):
			return 1
		}
		return 0
	case []string:
		y := b.([]string)
		for i := 0; i < len(x) && i < len(y); i++ {
			if c := strings.Compare(x[i], y[i]); c != 0 {
				return c
			}
		}
		return len(x) - len(y)
	case [][]byte:
		y := b.([][]byte)
		for i := 0; i < len(x) && i < len(y); i++ {
			if c := bytes.Compare(x[i], y[i]); c != 0 {
				return c
			}
		}
		return len(x) - len(y)
	}
	panic(fmt.Sprintf("pgfake: compareVals: unsupported type %T", a))
}

// SQL comparison operators under three-valued logic, collapsed to "is the
// result TRUE": a comparison with NULL is unknown, and a WHERE clause keeps a
// row only when its condition is TRUE.
func sqlEq(a, b any) bool { return a != nil && b != nil && compareVals(a, b) == 0 }
func sqlLt(a, b any) bool { return a != nil && b != nil && compareVals(a, b) < 0 }
func sqlLe(a, b any) bool { return a != nil && b != nil && compareVals(a, b) <= 0 }
func sqlGt(a, b any) bool { return a != nil && b != nil && compareVals(a, b) > 0 }
func sqlGe(a, b any) bool { return a != nil && b != nil && compareVals(a, b) >= 0 }

// addInt8 is bigint + bigint with PostgreSQL's overflow error; NULL if either is NULL.
func addInt8(a, b any) (any, error) {
	if a == nil || b == nil {
		return nil, nil
	}
	x, y := a.(int64), b.(int64)
	s := x + y
	if (y > 0 && s < x) || (y < 0 && s > x) {
		return nil, pgerr("22003", "bigint out of range")
	}
	return s, nil
}

// textArrayOverlap is the && operator on text[]: TRUE iff the arrays have an
// element in common; NULL if either array is NULL.
func textArrayOverlap(a, b any) any {
	if a == nil || b == nil {
		return nil
	}
	x, y := a.([]string), b.([]string)
	for _, s := range x {
		for _, t := range y {
			if s == t {
				return true
			}
		}
	}
	return false
}

// renderVal renders a value canonically for Dump.
func renderVal(v any) string {
	switch x := v.(type) {
	case nil:
		return "NULL"
	case int64:
		return strconv.FormatInt(x, 10)
	case string:
		return strconv.Quote(x)
	case []byte:
		return "x'" + hex.EncodeToString(x) + "'"
	case bool:
		if x {
			return "true"
		}
		return "false"
	case time.Time:
		return x.UTC().Format("2006-01-02T15:04:05.000000Z")
	case []string:
		parts := make([]string, len(x))
		for i, s := range x {
			parts[i] = strconv.Quote(s)
		}
		return "{" + strings.Join(parts, ",") + "}"
	case [][]byte:
		parts := make([]string, len(x))
		for i, s := range x {
			parts[i] = "x'" + hex.EncodeToString(s) + "'"
		}
		return "{" + strings.Join(parts, ",") + "}"
	case []int64:
		parts := make([]string, len(x))
		for i, s := range x {
			parts[i] = strconv.FormatInt(s, 10)
		}
		return "{" + strings.Join(parts, ",") + "}"
	}
	return fmt.Sprintf("?%T(%v)", v, v)
}

// keyString renders a list of values into a string usable as a map key for
// uniqueness checks.  hasNull reports whether any value is NULL (such keys
// never conflict: UNIQUE treats NULLs as distinct).
func keyString(vals []any) (key string, hasNull bool) {
	var sb strings.Builder
	for _, v := range vals {
		if v == nil {
			hasNull = true
		}
		sb.WriteString(renderVal(v))
		sb.WriteByte('|')
	}
	return sb.String(), hasNull
}

// ---------------------------------------------------------------------------
// wire encoding / decoding via pgtype

type binTextDecoder interface {
	DecodeBinary(ci *pgtype.ConnInfo, src []byte) error
	DecodeText(ci *pgtype.ConnInfo, src []byte) error
}

type binTextEncoder interface {
	EncodeBinary(ci *pgtype.ConnInfo, buf []byte) ([]byte, error)
	EncodeText(ci *pgtype.ConnInfo, buf []byte) ([]byte, error)
}

// decodeWire decodes one parameter value sent by the client.
func decodeWire(oid uint32, format int16, src []byte) (any, error) {
	if src == nil {
		return nil, nil
	}
	dec := func(d binTextDecoder) error {
		if format == 1 {
			return d.DecodeBinary(connInfo, src)
		}
		return d.DecodeText(connInfo, src)
	}
	bad := func(err error) (any, error) {
		return nil, pgerr("22P03", "pgfake: cannot decode %s parameter (format %d): %v", oidName(oid), format, err)
	}
	switch oid {
	case OIDInt8:
		var v pgtype.Int8
		if err := dec(&v); err != nil {
			return bad(err)
		}
		return v.Int, nil
	case OIDInt4:
		var v pgtype.Int4
		if err := dec(&v); err != nil {
			return bad(err)
		}
		return int64(v.Int), nil
	case OIDText:
		var v pgtype.Text
		if err := dec(&v); err != nil {
			return bad(err)
		}
		return normalise(OIDText, v.String)
	case OIDBytea:
		var v pgtype.Bytea
		if err := dec(&v); err != nil {
			return bad(err)
		}
		return append([]byte{}, v.Bytes...), nil
	case OIDBool:
		var v pgtype.Bool
		if err := dec(&v); err != nil {
			return bad(err)
		}
		return v.Bool, nil
	case OIDTextArray:
		var v pgtype.TextArray
		if err := dec(&v); err != nil {
			return bad(err)
		}
		if len(v.Dimensions) > 1 {
			return nil, pgerr("0A000", "pgfake: multidimensional arrays are not supported")
		}
		out := make([]string, len(v.Elements))
		for i, e := range v.Elements {
			if e.Status != pgtype.Present {
				return nil, pgerr("0A000", "pgfake: NULL array elements are not supported")
			}
			out[i] = e.String
		}
		return out, nil
	case OIDByteaArray:
		var v pgtype.ByteaArray
		if err := dec(&v); err != nil {
			return bad(err)
		}
		if len(v.Dimensions) > 1 {
			return nil, pgerr("0A000", "pgfake: multidimensional arrays are not supported")
		}
		out := make([][]byte, len(v.Elements))
		for i, e := range v.Elements {
			if e.Status != pgtype.Present {
				return nil, pgerr("0A000", "pgfake: NULL array elements are not supported")
			}
			out[i] = append([]byte{}, e.Bytes...)
		}
		return out, nil
	case OIDInt8Array:
		var v pgtype.Int8Array
		if err := dec(&v); err != nil {
			return bad(err)
		}
		if len(v.Dimensions) > 1 {
			return nil, pgerr("0A000", "pgfake: multidimensional arrays are not supported")
		}
		out := make([]int64, len(v.Elements))
		for i, e := range v.Elements {
			if e.Status != pgtype.Present {
				return nil, pgerr("0A000", "pgfake: NULL array elements are not supported")
			}
			out[i] = e.Int
		}
		return out, nil
	case OIDTimestamp:
		var v pgtype.Timestamp
		if err := dec(&v); err != nil {
			return bad(err)
		}
		if v.InfinityModifier != pgtype.None {
			return nil, pgerr("0A000", "pgfake: infinite timestamps are not supported")
		}
		return normalise(OIDTimestamp, v.Time)
	case OIDTimestamptz:
		var v pgtype.Timestamptz
		if err := dec(&v); err != nil {
			return bad(err)
		}
		if v.InfinityModifier != pgtype.None {
			return nil, pgerr("0A000", "pgfake: infinite timestamps are not supported")
		}
		return normalise(OIDTimestamptz, v.Time)
	}
	return nil, pgerr("0A000", "pgfake: unsupported parameter type oid %d", oid)
}

// encodeWire encodes one result value.  A nil result slice means NULL.
func encodeWire(oid uint32, format int16, v any) ([]byte, error) {
	if v == nil {
		return nil, nil
	}
	var enc binTextEncoder
	mismatch := func() ([]byte, error) {
		return nil, pgerr("XX000", "pgfake: internal: result value %T does not fit column type %s", v, oidName(oid))
	}
	switch oid {
	case OIDInt8:
		x, ok := v.(int64)
		if !ok {
			return mismatch()
		}
		enc = &pgtype.Int8{Int: x, Status: pgtype.Present}
	case OIDInt4:
		x, ok := v.(int64)
		if !ok {
			return mismatch()
		}
		if x < math.MinInt32 || x > math.MaxInt32 {
			return nil, pgerr("22003", "integer out of range")
		}
		enc = &pgtype.Int4{Int: int32(x), Status: pgtype.Present}
	case OIDText:
		x, ok := v.(string)
		if !ok {
			return mismatch()
		}
		enc = &pgtype.Text{String: x, Status: pgtype.Present}
	case OIDBytea:
		x, ok := v.([]byte)
		if !ok {
			return mismatch()
		}
		if x == nil {
			x = []byte{}
		}
		enc = &pgtype.Bytea{Bytes: x, Status: pgtype.Present}
	case OIDBool:
		x, ok := v.(bool)
		if !ok {
			return mismatch()
		}
		enc = &pgtype.Bool{Bool: x, Status: pgtype.Present}
	case OIDTextArray:
		x, ok := v.([]string)
		if !ok {
			return mismatch()
		}
		a := &pgtype.TextArray{Status: pgtype.Present}
		if len(x) > 0 {
			a.Dimensions = []pgtype.ArrayDimension{{Length: int32(len(x)), LowerBound: 1}}
			for _, s := range x {
				a.Elements = append(a.Elements, pgtype.Text{String: s, Status: pgtype.Present})
			}
		}
		enc = a
	case OIDByteaArray:
		x, ok := v.([][]byte)
		if !ok {
			return mismatch()
		}
		a := &pgtype.ByteaArray{Status: pgtype.Present}
		if len(x) > 0 {
			a.Dimensions = []pgtype.ArrayDimension{{Length: int32(len(x)), LowerBound: 1}}
			for _, s := range x {
				if s == nil {
					s = []byte{}
				}
				a.Elements = append(a.Elements, pgtype.Bytea{Bytes: s, Status: pgtype.Present})
			}
		}
		enc = a
	case OIDInt8Array:
		x, ok := v.([]int64)
		if !ok {
			return mismatch()
		}
		a := &pgtype.Int8Array{Status: pgtype.Present}
		if len(x) > 0 {
			a.Dimensions = []pgtype.ArrayDimension{{Length: int32(len(x)), LowerBound: 1}}
			for _, s := range x {
				a.Elements = append(a.Elements, pgtype.Int8{Int: s, Status: pgtype.Present})
			}
		}
		enc = a
	case OIDTimestamp:
		x, ok := v.(time.Time)
		if !ok {
			return mismatch()
		}
		enc = &pgtype.Timestamp{Time: x, Status: pgtype.Present}
	case OIDTimestamptz:
		x, ok := v.(time.Time)
		if !ok {
			return mismatch()
		}
		enc = &pgtype.Timestamptz{Time: x, Status: pgtype.Present}
	default:
		return nil, pgerr("0A000", "pgfake: unsupported result type oid %d", oid)
	}
	var out []byte
	var err error
	if format == 1 {
		out, err = enc.EncodeBinary(connInfo, []byte{})
	} else {
		out, err = enc.EncodeText(connInfo, []byte{})
	}
	if err != nil {
		return nil, pgerr("XX000", "pgfake: encode %s: %v", oidName(oid), err)
	}
	if out == nil {
		out = []byte{}
	}
	return out, nil
}

func typeSize(oid uint32) int16 {
	switch oid {
	case OIDBool:
		return 1
	case OIDInt8, OIDTimestamp, OIDTimestamptz:
		return 8
	case OIDInt4:
		return 4
	}
	return -1
}

// sortStrings returns a sorted copy.
func sortStrings(in []string) []string {
	out := append([]string{}, in...)
	sort.Strings(out)
	return out
}
