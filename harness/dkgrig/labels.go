//go:build verif

package dkgrig

import (
	"fmt"
	"math/big"
	"sort"

	"github.com/ethereum/go-ethereum/common"

	"github.com/shutter-network/shutter/shlib/puredkg"
	"github.com/shutter-network/shutter/shlib/shcrypto"

	"github.com/shutter-network/rolling-shutter/rolling-shutter/keyper/shutterevents"
	"github.com/shutter-network/rolling-shutter/rolling-shutter/shmsg"

	"verifharness/vh"
)

// Labeller renders the real DKG objects of a run as the label instance of the Coq models
// (Corr/C07.v): a commitment is (identity of the gamma vector, number of gammas), an evaluation
// is (ValidEval, identities of its dealer's commitments it verifies against under the index it
// is checked with; computed with the real shcrypto.VerifyPolyEval).

func NewLabeller(rig *Rig, members []int, t int) *Labeller {
	return &Labeller{Rig: rig, Members: members, T: t, ids: map[string]uint64{}, byEon: map[uint64]map[int][]cm{}, verMemo: map[string]bool{}}
}

func (lb *Labeller) MemberIdx(party int) int {
	for k, m := range lb.Members {
		if m == party {
			return k
		}
	}
	return -1
}

type Labeller struct {
	Rig     *Rig
	Members []int // party indices of the eon's keyper set, in order
	T       int
	ids     map[string]uint64       // gamma bytes -> id
	byEon   map[uint64]map[int][]cm // eon -> dealer party -> its commitments
	verMemo map[string]bool
}

type cm struct {
	id uint64
	g  *shcrypto.Gammas
}

func gkey(g *shcrypto.Gammas) string {
	b, _ := g.GobEncode()
	return fmt.Sprintf("%d:", len(*g)) + string(b)
}

func (lb *Labeller) Commit(eon uint64, dealer int, g *shcrypto.Gammas) (id uint64, n int) {
	k := gkey(g)
	id, ok := lb.ids[k]
	if !ok {
		id = uint64(len(lb.ids) + 1)
		lb.ids[k] = id
	}
	if lb.byEon[eon] == nil {
		lb.byEon[eon] = map[int][]cm{}
	}
	have := false
	for _, c := range lb.byEon[eon][dealer] {
		if c.id == id {
			have = true
		}
	}
	if !have {
		lb.byEon[eon][dealer] = append(lb.byEon[eon][dealer], cm{id, g})
	}
	return id, len(*g)
}

func CoqC(id uint64, n int) string { return vh.CApp("mkC", vh.CN(id), vh.CN(uint64(n))) }

// eval label: ValidEval and the dealer's commitments it verifies against under index idx
func (lb *Labeller) Eval(eon uint64, dealer int, idx int, v *big.Int) string {
	var ok []uint64
	if idx >= 0 {
		for _, c := range lb.byEon[eon][dealer] {
			mk := fmt.Sprintf("%d/%d/%s/%d", idx, c.id, v.String(), lb.T)
			r, seen := lb.verMemo[mk]
			if !seen {
				r = shcrypto.VerifyPolyEval(idx, v, c.g, uint64(lb.T))
				lb.verMemo[mk] = r
			}
			if r {
				ok = append(ok, c.id)
			}
		}
	}
	sort.Slice(ok, func(a, b int) bool { return ok[a] < ok[b] })
	return vh.CApp("mkE", vh.CBool(shcrypto.ValidEval(v)), vh.CNList(ok))
}

func AddrsCoq(as []common.Address) string {
	xs := make([]string, len(as))
	for i, a := range as {
		xs[i] = vh.CBytes(a.Bytes())
	}
	return vh.CList(xs)
}

func (lb *Labeller) CollectCommits() {
	rig := lb.Rig
	for h := int64(1); h <= rig.Chain.Height(); h++ {
		for _, ev := range EventsOf(rig.Chain.BlockAt(h)) {
			if pc, ok := ev.(*shutterevents.PolyCommitment); ok {
				lb.Commit(pc.Eon, rig.IndexOf(pc.Sender), pc.Gammas)
			}
		}
	}
	for i := range rig.Parties {
		for _, s := range rig.SentBy(rig.Parties[i].Name) {
			if s.Msg != nil && s.Msg.GetPolyCommitment() != nil {
				if g, ok := GammasOf(s.Msg.GetPolyCommitment()); ok {
					lb.Commit(s.Msg.GetPolyCommitment().Eon, i, g)
				}
			}
		}
	}
}

func (lb *Labeller) EventCoq(ev shutterevents.IEvent) (string, bool) {
	rig := lb.Rig
	switch e := ev.(type) {
	case *shutterevents.CheckIn:
		return vh.CApp("DCheckIn", vh.CBytes(e.Sender.Bytes())), true
	case *shutterevents.BatchConfig:
		return vh.CApp("DBatchConfig", vh.CN(e.KeyperConfigIndex), vh.CN(e.ActivationBlockNumber), vh.CN(e.Threshold), AddrsCoq(e.Keypers), vh.CBool(e.Started)), true
	case *shutterevents.BatchConfigStarted:
		return vh.CApp("DBatchConfigStarted", vh.CN(e.KeyperConfigIndex)), true
	case *shutterevents.EonStarted:
		return vh.CApp("DEonStarted", vh.CN(e.Eon), vh.CN(e.ActivationBlockNumber), vh.CN(e.KeyperConfigIndex)), true
	case *shutterevents.PolyCommitment:
		id, n := lb.Commit(e.Eon, rig.IndexOf(e.Sender), e.Gammas)
		return vh.CApp("DCommit", vh.CBytes(e.Sender.Bytes()), vh.CN(e.Eon), CoqC(id, n)), true
	case *shutterevents.PolyEval:
		vals := make([]string, len(e.EncryptedEvals))
		dealer := rig.IndexOf(e.Sender)
		for k := range e.EncryptedEvals {
			vals[k] = "None"
			if k >= len(e.Receivers) {
				continue
			}
			p := rig.IndexOf(e.Receivers[k])
			if p < 0 {
				continue
			}
			if v, ok := rig.DecryptEval(p, e.EncryptedEvals[k]); ok {
				vals[k] = vh.CSome(lb.Eval(e.Eon, dealer, lb.MemberIdx(p), v))
			}
		}
		return vh.CApp("DEval", vh.CBytes(e.Sender.Bytes()), vh.CN(e.Eon), AddrsCoq(e.Receivers), vh.CList(vals)), true
	case *shutterevents.Accusation:
		return vh.CApp("DAccusation", vh.CBytes(e.Sender.Bytes()), vh.CN(e.Eon), AddrsCoq(e.Accused)), true
	case *shutterevents.Apology:
		vals := make([]string, len(e.PolyEval))
		dealer := rig.IndexOf(e.Sender)
		for k := range e.PolyEval {
			idx := -1
			if k < len(e.Accusers) {
				idx = lb.MemberIdx(rig.IndexOf(e.Accusers[k]))
			}
			vals[k] = lb.Eval(e.Eon, dealer, idx, e.PolyEval[k])
		}
		return vh.CApp("DApology", vh.CBytes(e.Sender.Bytes()), vh.CN(e.Eon), AddrsCoq(e.Accusers), vh.CList(vals)), true
	}
	return "", false
}

func (lb *Labeller) SnapCoq(party int, eon uint64, p *puredkg.PureDKG) string {
	me := lb.MemberIdx(party)
	dealerParty := func(idx uint64) int {
		if int(idx) < len(lb.Members) {
			return lb.Members[idx]
		}
		return -1
	}
	cs := make([]string, len(p.Commitments))
	for k, c := range p.Commitments {
		cs[k] = "None"
		if c != nil {
			id, n := lb.Commit(eon, dealerParty(uint64(k)), c)
			cs[k] = vh.CSome(CoqC(id, n))
		}
	}
	es := make([]string, len(p.Evals))
	for k, v := range p.Evals {
		es[k] = "None"
		if v != nil {
			es[k] = vh.CSome(lb.Eval(eon, dealerParty(uint64(k)), me, v))
		}
	}
	var accs []string
	for k := range p.Accusations {
		accs = append(accs, vh.CPair(vh.CNat(int(k.Accuser)), vh.CNat(int(k.Accused))))
	}
	sort.Strings(accs)
	var apos []string
	for k, v := range p.Apologies {
		apos = append(apos, vh.CPair(vh.CPair(vh.CNat(int(k.Accuser)), vh.CNat(int(k.Accused))), lb.Eval(eon, dealerParty(k.Accused), int(k.Accuser), v)))
	}
	sort.Strings(apos)
	return vh.CApp("mkSnap", vh.CNat(int(p.Phase)), vh.CList(cs), vh.CList(es), vh.CList(accs), vh.CList(apos))
}

func (lb *Labeller) MsgCoq(party int, m *shmsg.Message) (string, bool) {
	rig := lb.Rig
	switch {
	case m.GetCheckIn() != nil:
		return "MCheckIn", true
	case m.GetPolyCommitment() != nil:
		x := m.GetPolyCommitment()
		g, ok := GammasOf(x)
		if !ok {
			return "", false
		}
		id, n := lb.Commit(x.Eon, party, g)
		return vh.CApp("MCommit", vh.CN(x.Eon), CoqC(id, n)), true
	case m.GetPolyEval() != nil:
		x := m.GetPolyEval()
		vals := []string{}
		for k, r := range x.Receivers {
			p := rig.IndexOf(common.BytesToAddress(r))
			lab := vh.CApp("mkE", "false", "[]")
			if p >= 0 && k < len(x.EncryptedEvals) {
				if v, ok := rig.DecryptEval(p, x.EncryptedEvals[k]); ok {
					lab = lb.Eval(x.Eon, party, lb.MemberIdx(p), v)
				}
			}
			vals = append(vals, lab)
		}
		return vh.CApp("MEvals", vh.CN(x.Eon), vh.CBytesList(x.Receivers), vh.CList(vals)), true
	case m.GetAccusation() != nil:
		x := m.GetAccusation()
		return vh.CApp("MAccusation", vh.CN(x.Eon), vh.CBytesList(x.Accused)), true
	case m.GetApology() != nil:
		x := m.GetApology()
		vals := []string{}
		for k, a := range x.Accusers {
			idx := lb.MemberIdx(rig.IndexOf(common.BytesToAddress(a)))
			v := new(big.Int)
			if k < len(x.PolyEvals) {
				v.SetBytes(x.PolyEvals[k])
			}
			vals = append(vals, lb.Eval(x.Eon, party, idx, v))
		}
		return vh.CApp("MApology", vh.CN(x.Eon), vh.CBytesList(x.Accusers), vh.CList(vals)), true
	case m.GetDkgResult() != nil:
		x := m.GetDkgResult()
		return vh.CApp("MResult", vh.CN(x.Eon), vh.CBool(x.Success)), true
	}
	return "", false
}
