//go:build verif

// Package dkgrig runs n real keyper DKG stacks against one in-process shuttermint chain:
// per keyper the repository's own operateShuttermint loop body (smobserver.SyncAppWithDB with a
// real ShuttermintState, KeyperCore.handleOnChainChanges, fx.SendShutterMessages with the real
// RPCMessageSender; reached through keyper.VerifShuttermintLoop), the real puredkg / shcrypto
// and real ECIES keys, each keyper on its own pgfake database, all of them talking to a
// tmfake chain around the real app.ShutterApp.  The driver owns the schedule: which keyper runs
// an iteration when, when a block closes, and what Byzantine parties submit.  It is shared by
// the drivers of C07 (agreement) and C08 (crash recovery).
package dkgrig

import (
	"context"
	"crypto/ecdsa"
	"crypto/ed25519"
	"crypto/rand"
	"fmt"
	"math/big"
	"sort"
	"time"

	"github.com/ethereum/go-ethereum/common"
	"github.com/ethereum/go-ethereum/crypto"
	"github.com/ethereum/go-ethereum/crypto/ecies"
	"github.com/jackc/pgx/v4/pgxpool"
	blst "github.com/supranational/blst/bindings/go"
	abcitypes "github.com/tendermint/tendermint/abci/types"
	"google.golang.org/protobuf/proto"

	"github.com/shutter-network/shutter/shlib/puredkg"
	"github.com/shutter-network/shutter/shlib/shcrypto"

	"github.com/shutter-network/rolling-shutter/rolling-shutter/keyper"
	"github.com/shutter-network/rolling-shutter/rolling-shutter/keyper/kprconfig"
	"github.com/shutter-network/rolling-shutter/rolling-shutter/keyper/shutterevents"
	"github.com/shutter-network/rolling-shutter/rolling-shutter/medley/configuration"
	"github.com/shutter-network/rolling-shutter/rolling-shutter/medley/encodeable/keys"
	"github.com/shutter-network/rolling-shutter/rolling-shutter/shdb"
	"github.com/shutter-network/rolling-shutter/rolling-shutter/shmsg"

	"verifharness/appdrv"
	"verifharness/pgfake"
	"verifharness/tmfake"
	"verifharness/vh"
)

// ---------------------------------------------------------------------------------------
// database servers (started once per worker, their stores are reset per run)

type Servers struct {
	Srv   []*pgfake.Server
	empty *pgfake.Store
}

func NewServers(repo string, n int) (*Servers, error) {
	s := &Servers{}
	for i := 0; i < n; i++ {
		srv, err := pgfake.Start(pgfake.Options{RepoRoot: repo})
		if err != nil {
			return nil, err
		}
		if s.empty == nil {
			s.empty = srv.Store().Snapshot()
		}
		s.Srv = append(s.Srv, srv)
	}
	return s, nil
}

func (s *Servers) Close() {
	for _, x := range s.Srv {
		x.Close()
	}
}

// Issues lists the broken ties of the fake databases (changed SQL, unknown statements, ...).
func (s *Servers) Issues() []string {
	var out []string
	seen := map[string]bool{}
	for _, srv := range s.Srv {
		for _, t := range srv.Ties() {
			if m := "pgfake tie: " + t.String(); !seen[m] {
				seen[m] = true
				out = append(out, m)
			}
		}
		for _, ri := range srv.RuntimeIssues() {
			if m := "pgfake runtime issue: " + ri.Kind + " " + ri.Stmt + ": " + ri.Detail; !seen[m] {
				seen[m] = true
				out = append(out, m)
			}
		}
	}
	return out
}

// ---------------------------------------------------------------------------------------
// parties

type Params struct {
	N          int    `json:"n"`
	T          int    `json:"t"`
	PhaseLen   int64  `json:"phase_len"`
	Fork       bool   `json:"fork"`        // check-in update fork active from the first block
	StartDelta uint64 `json:"start_delta"` // DKGStartBlockDelta
}

type Party struct {
	Idx      int
	Name     string
	Key      *ecdsa.PrivateKey
	Addr     common.Address
	EncKey   *ecdsa.PrivateKey
	ValKey   ed25519.PublicKey
	Cfg      *kprconfig.Config
	Srv      *pgfake.Server
	Pool     *pgxpool.Pool
	Cl       *tmfake.Client
	Loop     *keyper.VerifShuttermintLoop
	Restarts int
	Errors   []string // errors returned by loop steps (a crash-free run has none)
}

type Rig struct {
	P       Params
	Chain   *tmfake.Chain
	Parties []*Party
	ChainID string
	ctx     context.Context
	nonce   uint64
}

func detKey(tag string, i int) *ecdsa.PrivateKey {
	d := new(big.Int).SetBytes(crypto.Keccak256([]byte(fmt.Sprintf("%s-%d", tag, i))))
	k, err := crypto.ToECDSA(common.LeftPadBytes(d.Bytes(), 32))
	if err != nil {
		panic(err)
	}
	return k
}

// New builds the chain (genesis: the n parties are the keypers of config 0 with threshold t)
// and one keyper stack per party on the given servers.
func New(p Params, servers *Servers) (*Rig, error) {
	if len(servers.Srv) < p.N {
		return nil, fmt.Errorf("need %d servers", p.N)
	}
	ctx := context.Background()
	r := &Rig{P: p, ChainID: "verif-dkg", ctx: ctx, nonce: 1 << 40}
	g := appdrv.Genesis{Threshold: uint64(p.T), InitialEon: 0, ChainID: r.ChainID,
		ForkEnabled: p.Fork, ForkHeight: 0,
		Validators: []appdrv.KV{{K: crypto.Keccak256([]byte("verif-genesis-validator")), P: 10}}}
	for i := 0; i < p.N; i++ {
		k := detKey("verif-dkg-key", i)
		pt := &Party{Idx: i, Name: fmt.Sprintf("k%d", i), Key: k, Addr: crypto.PubkeyToAddress(k.PublicKey),
			EncKey: detKey("verif-dkg-enckey", i),
			ValKey: ed25519.PublicKey(crypto.Keccak256([]byte(fmt.Sprintf("verif-dkg-valkey-%d", i))))}
		g.Keypers = append(g.Keypers, pt.Addr.Bytes())
		r.Parties = append(r.Parties, pt)
	}
	a, err := appdrv.NewApp(g)
	if err != nil {
		return nil, err
	}
	r.Chain = tmfake.New(a, r.ChainID)
	for i, pt := range r.Parties {
		pt.Srv = servers.Srv[i]
		pt.Srv.SetStore(servers.empty)
		pt.Srv.ResetCounters()
		pt.Srv.ClearRuntimeIssues()
		// what KeyperDB.Init does after creating the schema
		if err := pt.Srv.Store().Insert("tendermint_sync_meta", pgfake.Row{
			"current_block": int64(0), "last_committed_height": int64(-1), "sync_timestamp": time.Unix(0, 0).UTC(),
		}); err != nil {
			return nil, err
		}
		pt.Cfg = &kprconfig.Config{
			Ethereum: &configuration.EthnodeConfig{PrivateKey: &keys.ECDSAPrivate{Key: pt.Key}},
			Shuttermint: &kprconfig.ShuttermintConfig{
				ValidatorPublicKey: &keys.Ed25519Public{Key: pt.ValKey},
				EncryptionKey:      &keys.ECDSAPrivate{Key: pt.EncKey},
				DKGPhaseLength:     p.PhaseLen,
				DKGStartBlockDelta: p.StartDelta,
			},
		}
		if err := r.boot(pt); err != nil {
			return nil, err
		}
	}
	return r, nil
}

// boot gives the party what a freshly started process has: new connections, a new RPC client
// and message sender, an empty ShuttermintState.
func (r *Rig) boot(pt *Party) error {
	pool, err := pt.Srv.Pool(r.ctx)
	if err != nil {
		return err
	}
	pt.Pool = pool
	pt.Cl = r.Chain.NewClient(pt.Name)
	pt.Loop = keyper.VerifNewShuttermintLoop(pt.Cfg, pool, pt.Cl)
	return nil
}

// Restart models the death of the process and its restart: all volatile state is dropped.
func (r *Rig) Restart(i int) error {
	pt := r.Parties[i]
	if pt.Pool != nil {
		pt.Pool.Close()
	}
	pt.Restarts++
	return r.boot(pt)
}

func (r *Rig) Close() {
	for _, pt := range r.Parties {
		if pt.Pool != nil {
			pt.Pool.Close()
			pt.Pool = nil
		}
	}
}

// StepResult says how far one iteration of the loop body got.
type StepResult struct {
	Stage string // "" (complete) | sync | onchain | send
	Err   string
	Panic bool
}

func (s StepResult) OK() bool { return s.Stage == "" }

// Iterate runs one iteration of the operateShuttermint loop body for party i with the given
// main chain block number: sync; handle on-chain changes; send messages.  between, if not nil,
// is called after each completed stage (observation only).
func (r *Rig) Iterate(i int, l1 uint64, between func(stage string)) StepResult {
	pt := r.Parties[i]
	stages := []struct {
		name string
		f    func() error
	}{
		{"sync", func() error { return pt.Loop.Sync(r.ctx) }},
		{"onchain", func() error { return pt.Loop.HandleOnChainChanges(r.ctx, l1) }},
		{"send", func() error { return pt.Loop.SendShutterMessages(r.ctx) }},
	}
	for _, st := range stages {
		var err error
		p, msg := vh.Guard(func() { err = st.f() })
		if p {
			pt.Errors = append(pt.Errors, st.name+": panic: "+msg)
			return StepResult{Stage: st.name, Err: msg, Panic: true}
		}
		if err != nil {
			pt.Errors = append(pt.Errors, st.name+": "+err.Error())
			return StepResult{Stage: st.name, Err: err.Error()}
		}
		if between != nil {
			between(st.name)
		}
	}
	return StepResult{}
}

// AddKeyperSet makes a keyper set visible in every party's database, as the chain observer
// does when the contract announces it.
func (r *Rig) AddKeyperSet(index, activation int64, members []int, threshold int) error {
	ks := []string{}
	for _, m := range members {
		ks = append(ks, shdb.EncodeAddress(r.Parties[m].Addr))
	}
	for _, pt := range r.Parties {
		if err := pt.Srv.Store().Insert("keyper_set", pgfake.Row{
			"keyper_config_index": index, "activation_block_number": activation,
			"keypers": append([]string{}, ks...), "threshold": int64(threshold),
		}); err != nil {
			return err
		}
	}
	return nil
}

// ---------------------------------------------------------------------------------------
// transactions of driver-played parties

func (r *Rig) NextNonce() uint64 { r.nonce++; return r.nonce }

// SubmitAs signs msg with party i's key and submits it to the open block.
func (r *Rig) SubmitAs(i int, msg *shmsg.Message) (check, deliver uint32) {
	tx := appdrv.SignTx(r.Parties[i].Key, r.ChainID, r.NextNonce(), msg)
	chk, dl, _ := r.Chain.Submit(r.Parties[i].Name+"*", tx)
	return chk.Code, dl.Code
}

// EncryptEval encrypts a polynomial evaluation for party `to` the way sendPolyEvals does.
func (r *Rig) EncryptEval(to int, v *big.Int) []byte {
	pub := ecies.ImportECDSAPublic(&r.Parties[to].EncKey.PublicKey)
	enc, err := ecies.Encrypt(rand.Reader, pub, shdb.EncodeBigint(v), nil, nil)
	if err != nil {
		panic(err)
	}
	return enc
}

// DecryptEval decrypts a blob with party i's encryption key the way handlePolyEval does.
func (r *Rig) DecryptEval(i int, blob []byte) (*big.Int, bool) {
	b, err := ecies.ImportECDSA(r.Parties[i].EncKey).Decrypt(blob, []byte(""), []byte(""))
	if err != nil {
		return nil, false
	}
	return new(big.Int).SetBytes(b), true
}

func (r *Rig) IndexOf(a common.Address) int {
	for i, pt := range r.Parties {
		if pt.Addr == a {
			return i
		}
	}
	return -1
}

// ---------------------------------------------------------------------------------------
// reading the chain

type BlockEvents struct {
	Height int64
	Events []shutterevents.IEvent
}

// EventsOf decodes the events of a closed block in the order handleBlock processes them.
func EventsOf(b *tmfake.Block) []shutterevents.IEvent {
	var raw []abcitypes.Event
	raw = append(raw, b.BeginEvents...)
	for _, t := range b.TxResults {
		raw = append(raw, t.Events...)
	}
	raw = append(raw, b.EndEvents...)
	var out []shutterevents.IEvent
	for _, e := range raw {
		x, err := shutterevents.MakeEvent(e, b.Height)
		if err == nil {
			out = append(out, x)
		}
	}
	return out
}

type EonInfo struct {
	Eon    uint64
	Start  int64
	CfgIdx uint64
}

// Eons lists the EonStarted events of the closed blocks.
func (r *Rig) Eons() []EonInfo {
	var out []EonInfo
	for h := int64(1); h <= r.Chain.Height(); h++ {
		for _, e := range EventsOf(r.Chain.BlockAt(h)) {
			if es, ok := e.(*shutterevents.EonStarted); ok {
				out = append(out, EonInfo{Eon: es.Eon, Start: h, CfgIdx: es.KeyperConfigIndex})
			}
		}
	}
	return out
}

// PhaseAt is dkgphase.GetPhaseAtHeight for the rig's constant phase length.
func (r *Rig) PhaseAt(height, start int64) puredkg.Phase {
	return r.Parties[0].Cfg.GetDKGPhaseLength().GetPhaseAtHeight(height, start)
}

// ---------------------------------------------------------------------------------------
// reading a keyper's durable state

type ResultRow struct {
	Eon     int64
	Success bool
	Error   string
	Result  *puredkg.Result // nil when not successful or undecodable
	DecErr  string
}

func (r *Rig) Results(i int) []ResultRow {
	var out []ResultRow
	for _, row := range r.Parties[i].Srv.Store().Table("dkg_result").Rows() {
		rr := ResultRow{Eon: row["eon"].(int64), Success: row["success"].(bool)}
		if s, ok := row["error"].(string); ok {
			rr.Error = s
		}
		if b, ok := row["pure_result"].([]byte); ok && b != nil {
			res, err := shdb.DecodePureDKGResult(b)
			if err != nil {
				rr.DecErr = err.Error()
			} else {
				rr.Result = res
			}
		}
		out = append(out, rr)
	}
	sort.Slice(out, func(a, b int) bool { return out[a].Eon < out[b].Eon })
	return out
}

// Pure returns the stored puredkg instances of party i (eon -> state).
func (r *Rig) Pure(i int) (map[uint64]*puredkg.PureDKG, error) {
	out := map[uint64]*puredkg.PureDKG{}
	for _, row := range r.Parties[i].Srv.Store().Table("puredkg").Rows() {
		p, err := shdb.DecodePureDKG(row["puredkg"].([]byte))
		if err != nil {
			return nil, err
		}
		out[uint64(row["eon"].(int64))] = p
	}
	return out, nil
}

type OutRow struct {
	ID   int64
	Desc string
	Msg  []byte
}

func (r *Rig) Outbox(i int) []OutRow {
	var out []OutRow
	for _, row := range r.Parties[i].Srv.Store().Table("tendermint_outgoing_messages").Rows() {
		out = append(out, OutRow{ID: asInt(row["id"]), Desc: row["description"].(string), Msg: row["msg"].([]byte)})
	}
	sort.Slice(out, func(a, b int) bool { return out[a].ID < out[b].ID })
	return out
}

func asInt(v any) int64 {
	switch x := v.(type) {
	case int64:
		return x
	case int32:
		return int64(x)
	case int:
		return int64(x)
	}
	panic(fmt.Sprintf("not an integer: %T", v))
}

// SyncPos returns the sync position and the list of current_block values of the sync meta rows.
func (r *Rig) SyncPos(i int) (int64, []int64) {
	var all []int64
	mx := int64(-1)
	for _, row := range r.Parties[i].Srv.Store().Table("tendermint_sync_meta").Rows() {
		c := row["current_block"].(int64)
		all = append(all, c)
		if c > mx {
			mx = c
		}
	}
	sort.Slice(all, func(a, b int) bool { return all[a] < all[b] })
	return mx, all
}

// SentBy returns the decoded messages the chain received from the named client, in order.
type Sent struct {
	Rec tmfake.TxRecord
	Msg *shmsg.Message
	Raw []byte // proto.Marshal of Msg (what the outbox row holds)
}

func (r *Rig) SentBy(name string) []Sent {
	var out []Sent
	for _, rec := range r.Chain.Log {
		if rec.From != name {
			continue
		}
		m, ok := appdrv.MessageOf(rec.Tx)
		if !ok {
			out = append(out, Sent{Rec: rec})
			continue
		}
		raw, _ := proto.Marshal(m)
		out = append(out, Sent{Rec: rec, Msg: m, Raw: raw})
	}
	return out
}

// Kind names the payload of a message.
func Kind(m *shmsg.Message) string {
	switch {
	case m == nil:
		return "undecodable"
	case m.GetBatchConfig() != nil:
		return "batchconfig"
	case m.GetBlockSeen() != nil:
		return "blockseen"
	case m.GetCheckIn() != nil:
		return "checkin"
	case m.GetDkgResult() != nil:
		return "dkgresult"
	case m.GetPolyEval() != nil:
		return "polyeval"
	case m.GetPolyCommitment() != nil:
		return "polycommitment"
	case m.GetAccusation() != nil:
		return "accusation"
	case m.GetApology() != nil:
		return "apology"
	}
	return "none"
}

// GammasOf decodes the gammas of a commitment message.
func GammasOf(m *shmsg.PolyCommitment) (*shcrypto.Gammas, bool) {
	gs := shcrypto.Gammas{}
	for _, g := range m.Gammas {
		p := new(blst.P2Affine)
		p = p.Uncompress(g)
		if p == nil || !p.InG2() {
			return nil, false
		}
		gs = append(gs, p)
	}
	return &gs, true
}
