//go:build verif

package gossipdrv

import (
	"encoding/hex"
	"fmt"
	"math"
	"strings"

	"github.com/ethereum/go-ethereum/common"
	"github.com/ethereum/go-ethereum/crypto"

	"github.com/shutter-network/rolling-shutter/rolling-shutter/keyperimpl/gnosis/gnosisssztypes"
	"github.com/shutter-network/rolling-shutter/rolling-shutter/keyperimpl/shutterservice/serviceztypes"
	"github.com/shutter-network/rolling-shutter/rolling-shutter/medley/identitypreimage"
	"github.com/shutter-network/rolling-shutter/rolling-shutter/p2pmsg"

	"verifharness/vh"
)

// ---------------------------------------------------------------------------------------------
// receiver state

type ConfigRow struct {
	Kci     int64 `json:"kci"`     // keyper_config_index (integer column)
	Keypers []int `json:"keypers"` // address indices; -1: a string that is not an address
}
type EonRow struct {
	Eon int64 `json:"eon"`
	Kci int64 `json:"kci"`
}
type DkgRow struct {
	Eon     int64  `json:"eon"`
	Kind    string `json:"kind"` // ok | failed | garbled
	Set     int    `json:"set"`
	NShares int    `json:"nshares"` // len(PublicKeyShares)
	T       int    `json:"t"`
	Keyper  int    `json:"keyper,omitempty"` // whose DKG result it is (index and secret key share)
}
type KeyRow struct {
	Eon   int64  `json:"eon"`
	Ident string `json:"ident"`
	Val   Val    `json:"val"`
}
type ShareRow struct {
	Eon   int64  `json:"eon"`
	Ident string `json:"ident"`
	Kidx  int64  `json:"kidx"`
	Val   Val    `json:"val"`
}
type KSetRow struct {
	Kci       int64 `json:"kci"`
	Keypers   []int `json:"keypers"`
	Threshold int32 `json:"threshold"`
}
type CollRow struct {
	Act  int64 `json:"act"`
	Addr int   `json:"addr"` // -1: not an address
}
type AnKey struct {
	Eon uint64 `json:"eon"`
	Set int    `json:"set"`
}
type AnKSet struct {
	Eon       uint64 `json:"eon"`
	Keypers   []int  `json:"keypers"`
	Threshold int32  `json:"threshold"`
}

// State is everything a validator or handler can read.
type State struct {
	Name      string      `json:"name"`
	Inst      uint64      `json:"inst"`
	MaxKeys   uint64      `json:"maxkeys"`
	Self      int         `json:"self"`
	Configs   []ConfigRow `json:"configs,omitempty"`
	Eons      []EonRow    `json:"eons,omitempty"`
	Dkg       []DkgRow    `json:"dkg,omitempty"`
	Keys      []KeyRow    `json:"keys,omitempty"`
	Shares    []ShareRow  `json:"shares,omitempty"`
	KSets     []KSetRow   `json:"ksets,omitempty"`
	Collators []CollRow   `json:"collators,omitempty"`
	AnKeys    []AnKey     `json:"ankeys,omitempty"`
	AnKSets   []AnKSet    `json:"anksets,omitempty"`
	// AnKeysFirst: the access node saw the eon key broadcasts before the keyper set events
	AnKeysFirst bool `json:"ankeysfirst,omitempty"`
	// AnSetsAgain: after that, the keyper set events were reported to the access node once more
	// (initial poll plus the subscription starting at the same block, or a re-delivery)
	AnSetsAgain bool `json:"ansetsagain,omitempty"`
}

func (s *State) Clone() *State {
	c := *s
	c.Configs = append([]ConfigRow(nil), s.Configs...)
	c.Eons = append([]EonRow(nil), s.Eons...)
	c.Dkg = append([]DkgRow(nil), s.Dkg...)
	c.Keys = append([]KeyRow(nil), s.Keys...)
	c.Shares = append([]ShareRow(nil), s.Shares...)
	c.KSets = append([]KSetRow(nil), s.KSets...)
	c.Collators = append([]CollRow(nil), s.Collators...)
	c.AnKeys = append([]AnKey(nil), s.AnKeys...)
	c.AnKSets = append([]AnKSet(nil), s.AnKSets...)
	return &c
}

func addrLabel(i int) string {
	if i < 0 {
		return vh.CN(BadAddrLabel)
	}
	return vh.CN(uint64(i))
}

func addrOptLabel(i int) string {
	if i < 0 {
		return "None"
	}
	return vh.CSome(vh.CN(uint64(i)))
}

func coqKeyperSet(keypers []int, threshold int32) string {
	xs := make([]string, len(keypers))
	for i, k := range keypers {
		xs[i] = addrOptLabel(k)
	}
	return fmt.Sprintf("{| ks_keypers := %s; ks_threshold := %s |}", vh.CList(xs), vh.CZ(int64(threshold)))
}

// CoqCore renders the cstate.
func (s *State) CoqCore(m *Material) string {
	cfg := make([]string, len(s.Configs))
	for i, c := range s.Configs {
		ks := make([]string, len(c.Keypers))
		for j, k := range c.Keypers {
			ks[j] = addrLabel(k)
		}
		cfg[i] = vh.CPair(vh.CZ(c.Kci), vh.CList(ks))
	}
	eons := make([]string, len(s.Eons))
	for i, e := range s.Eons {
		eons[i] = vh.CPair(vh.CZ(e.Eon), vh.CZ(e.Kci))
	}
	dkg := make([]string, len(s.Dkg))
	for i, d := range s.Dkg {
		var r string
		switch d.Kind {
		case "ok":
			r = vh.CApp("DkgOk", vh.CN(uint64(d.Set)), vh.CN(uint64(d.NShares)), vh.CN(uint64(d.T)))
		case "failed":
			r = "DkgBad"
		default:
			r = "DkgGarbled"
		}
		dkg[i] = vh.CPair(vh.CZ(d.Eon), r)
	}
	keys := make([]string, len(s.Keys))
	for i, k := range s.Keys {
		keys[i] = "(" + vh.CZ(k.Eon) + ", " + vh.CBytes(unhex(k.Ident)) + ", " + vh.CBytes(m.Bytes(k.Val)) + ")"
	}
	shares := make([]string, len(s.Shares))
	for i, r := range s.Shares {
		shares[i] = vh.CApp("mkShareRow", vh.CZ(r.Eon), vh.CBytes(unhex(r.Ident)), vh.CZ(r.Kidx), m.CoqKV(r.Val))
	}
	return vh.CApp("mkCState", vh.CN(s.Inst), vh.CN(s.MaxKeys), addrLabel(s.Self),
		vh.CList(cfg), vh.CList(eons), vh.CList(dkg), vh.CList(keys), vh.CList(shares))
}

// Coq renders the gstate.
func (s *State) Coq(m *Material) string {
	ks := make([]string, len(s.KSets))
	for i, k := range s.KSets {
		ks[i] = vh.CPair(vh.CZ(k.Kci), coqKeyperSet(k.Keypers, k.Threshold))
	}
	cs := make([]string, len(s.Collators))
	for i, c := range s.Collators {
		cs[i] = vh.CPair(vh.CZ(c.Act), addrOptLabel(c.Addr))
	}
	aeons := make([]string, len(s.AnKeys))
	asets := make([]string, len(s.AnKeys))
	for i, a := range s.AnKeys {
		aeons[i] = vh.CN(a.Eon)
		asets[i] = vh.CPair(vh.CN(a.Eon), vh.CN(uint64(a.Set)))
	}
	aks := make([]string, len(s.AnKSets))
	for i, a := range s.AnKSets {
		aks[i] = vh.CPair(vh.CN(a.Eon), coqKeyperSet(a.Keypers, a.Threshold))
	}
	an := fmt.Sprintf("{| an_instance := %s; an_maxkeys := %s; an_eonkeys := %s; an_keypersets := %s |}",
		vh.CN(s.Inst), vh.CN(s.MaxKeys), vh.CList(aeons), vh.CList(aks))
	return vh.CApp("mkGState", vh.CApp("mkFState", s.CoqCore(m), vh.CList(ks)), vh.CList(cs), an, vh.CList(asets))
}

// ---------------------------------------------------------------------------------------------
// signatures over the Gnosis / service signature data

type Tuple struct {
	Flavour string   `json:"flavour"` // gnosis | service
	Inst    uint64   `json:"inst"`
	Eon     uint64   `json:"eon"`
	Slot    uint64   `json:"slot,omitempty"`
	Txp     uint64   `json:"txp,omitempty"`
	Ids     []string `json:"ids"`
}

type Sig struct {
	Kind string `json:"kind"`          // by | stray | short64 | long66 | badv | empty | raw
	Key  int    `json:"key,omitempty"` // by: address index of the signer
	T    *Tuple `json:"t,omitempty"`   // by: what was signed (nil: the message's own data, filled in by Fill)
	Raw  string `json:"raw,omitempty"`
}

func preimages(ids []string) []identitypreimage.IdentityPreimage {
	out := []identitypreimage.IdentityPreimage{}
	for _, s := range ids {
		out = append(out, identitypreimage.IdentityPreimage(unhex(s)))
	}
	return out
}

// Hashable: the repository can build and hash the signature data (at most 1024 identities of
// the fixed width).
func (t *Tuple) Hashable() bool {
	w := 32
	if t.Flavour == "gnosis" {
		w = 52
	}
	if len(t.Ids) > 1024 {
		return false
	}
	for _, s := range t.Ids {
		if len(s) != 2*w {
			return false
		}
	}
	return true
}

func (m *Material) signTuple(key int, t *Tuple) []byte {
	if t == nil {
		return nil
	}
	ck := fmt.Sprintf("sig|%d|%s|%d|%d|%d|%d|%s", key, t.Flavour, t.Inst, t.Eon, t.Slot, t.Txp, strings.Join(t.Ids, ","))
	m.mu.Lock()
	if s, ok := m.cache[ck]; ok {
		m.mu.Unlock()
		return s
	}
	m.mu.Unlock()
	var sig []byte
	var err error
	if t.Flavour == "gnosis" {
		var d *gnosisssztypes.SlotDecryptionSignatureData
		d, err = gnosisssztypes.NewSlotDecryptionSignatureData(t.Inst, t.Eon, t.Slot, t.Txp, preimages(t.Ids))
		if err == nil {
			sig, err = d.ComputeSignature(m.Keys[key])
		}
	} else {
		var d *serviceztypes.DecryptionSignatureData
		d, err = serviceztypes.NewDecryptionSignatureData(t.Inst, t.Eon, preimages(t.Ids))
		if err == nil {
			sig, err = d.ComputeSignature(m.Keys[key])
		}
	}
	if err != nil {
		sig = nil
	}
	m.mu.Lock()
	m.cache[ck] = sig
	m.mu.Unlock()
	return sig
}

func (m *Material) unrelatedSig() []byte {
	b, err := crypto.Sign(crypto.Keccak256([]byte("verif-gossip-unrelated")), m.Keys[NumAddr-1])
	if err != nil {
		panic(err)
	}
	return b
}

// SigBytes realises a signature spec. A "by" signature over data the repository cannot hash
// does not exist; an unrelated valid signature is used and the label is SigStray.
func (m *Material) SigBytes(s Sig) []byte {
	switch s.Kind {
	case "by":
		if b := m.signTuple(s.Key, s.T); b != nil {
			return b
		}
		return m.unrelatedSig()
	case "stray":
		return m.unrelatedSig()
	case "short64":
		return m.unrelatedSig()[:64]
	case "long66":
		return append(m.unrelatedSig(), 0)
	case "badv":
		b := append([]byte(nil), m.unrelatedSig()...)
		b[64] = 9
		return b
	case "empty":
		return []byte{}
	case "raw":
		return unhex(s.Raw)
	}
	panic("sig kind " + s.Kind)
}

func coqIds(ids []string) string {
	xs := make([]string, len(ids))
	for i, s := range ids {
		xs[i] = vh.CBytes(unhex(s))
	}
	return vh.CList(xs)
}

func coqTuple(t *Tuple) string {
	if t.Flavour == "gnosis" {
		return vh.CApp("TGnosis", vh.CN(t.Inst), vh.CN(t.Eon), vh.CN(t.Slot), vh.CN(t.Txp), coqIds(t.Ids))
	}
	return vh.CApp("TService", vh.CN(t.Inst), vh.CN(t.Eon), coqIds(t.Ids))
}

// CoqSig is the csig label.
func (m *Material) CoqSig(s Sig) string {
	switch s.Kind {
	case "by":
		if m.signTuple(s.Key, s.T) == nil {
			return "SigStray"
		}
		return vh.CApp("SigBy", vh.CN(uint64(s.Key)), coqTuple(s.T))
	case "stray":
		return "SigStray"
	case "raw":
		b := unhex(s.Raw)
		if len(b) != 65 || b[64] > 3 {
			return "SigMalformed"
		}
		if _, err := crypto.SigToPub(make([]byte, 32), b); err != nil {
			return "SigMalformed"
		}
		return "SigStray"
	}
	return "SigMalformed"
}

// ---------------------------------------------------------------------------------------------
// messages

type Item struct {
	Ident string `json:"ident"`
	Val   Val    `json:"val"`
}

type Extra struct {
	Kind    string   `json:"kind"` // none | gnosis | gnosisnil | service | servicenil | optimism | optimismnil
	Slot    uint64   `json:"slot,omitempty"`
	Txp     uint64   `json:"txp,omitempty"`
	Sig     *Sig     `json:"sig,omitempty"` // key shares
	Signers []uint64 `json:"signers,omitempty"`
	Sigs    []Sig    `json:"sigs,omitempty"`
}

type Commit struct {
	TxHashes   []string `json:"txhashes"`
	Identities []string `json:"identities"`
	Block      int64    `json:"block"`
	BidDigest  string   `json:"biddigest"`
	BidSig     string   `json:"bidsig"`
	Provider   string   `json:"provider,omitempty"`
}

// Msg describes one gossip message of any type.
type Msg struct {
	Type  string `json:"type"` // shares | keys | eonpk | trigger | commit
	Inst  uint64 `json:"inst"`
	Eon   uint64 `json:"eon,omitempty"`
	Kidx  uint64 `json:"kidx,omitempty"`
	Items []Item `json:"items,omitempty"`
	Extra Extra  `json:"extra"`
	// trigger
	Block uint64 `json:"block,omitempty"`
	Ident string `json:"ident,omitempty"`
	TSig  string `json:"tsig,omitempty"` // by | otherhash | short | stray
	TKey  int    `json:"tkey,omitempty"`
	// commitment
	Commit *Commit `json:"commit,omitempty"`
}

func (m *Msg) Clone() *Msg {
	c := *m
	c.Items = append([]Item(nil), m.Items...)
	c.Extra.Signers = append([]uint64(nil), m.Extra.Signers...)
	c.Extra.Sigs = append([]Sig(nil), m.Extra.Sigs...)
	if m.Extra.Sig != nil {
		s := *m.Extra.Sig
		c.Extra.Sig = &s
	}
	if m.Commit != nil {
		cc := *m.Commit
		cc.TxHashes = append([]string(nil), m.Commit.TxHashes...)
		cc.Identities = append([]string(nil), m.Commit.Identities...)
		c.Commit = &cc
	}
	return &c
}

func (m *Msg) shareSig() Sig {
	if m.Extra.Sig == nil {
		return Sig{Kind: "empty"}
	}
	return *m.Extra.Sig
}

func (m *Msg) Ids() []string {
	out := make([]string, len(m.Items))
	for i, it := range m.Items {
		out[i] = it.Ident
	}
	return out
}

// OwnTuple is the data the message's signatures have to be over.
func (m *Msg) OwnTuple() *Tuple {
	switch m.Extra.Kind {
	case "gnosis":
		return &Tuple{Flavour: "gnosis", Inst: m.Inst, Eon: m.Eon, Slot: m.Extra.Slot, Txp: m.Extra.Txp, Ids: m.Ids()}
	case "service":
		return &Tuple{Flavour: "service", Inst: m.Inst, Eon: m.Eon, Ids: m.Ids()}
	}
	return nil
}

// Fill binds every "by" signature without explicit data to the message's own data, as it is
// at this moment (mutations applied afterwards leave the signatures behind, as on the wire).
func (m *Msg) Fill() {
	t := m.OwnTuple()
	if t == nil {
		return
	}
	if m.Extra.Sig != nil && m.Extra.Sig.Kind == "by" && m.Extra.Sig.T == nil {
		m.Extra.Sig.T = t
	}
	for i := range m.Extra.Sigs {
		if m.Extra.Sigs[i].Kind == "by" && m.Extra.Sigs[i].T == nil {
			m.Extra.Sigs[i].T = t
		}
	}
}

func (mat *Material) sigsBytes(ss []Sig) [][]byte {
	out := [][]byte{}
	for _, s := range ss {
		out = append(out, mat.SigBytes(s))
	}
	return out
}

// Build produces the protobuf message.
func (m *Msg) Build(mat *Material) p2pmsg.Message {
	m.Fill()
	switch m.Type {
	case "shares":
		out := &p2pmsg.DecryptionKeyShares{InstanceId: m.Inst, Eon: m.Eon, KeyperIndex: m.Kidx}
		for _, it := range m.Items {
			out.Shares = append(out.Shares, &p2pmsg.KeyShare{IdentityPreimage: unhex(it.Ident), Share: mat.Bytes(it.Val)})
		}
		switch m.Extra.Kind {
		case "gnosis":
			out.Extra = &p2pmsg.DecryptionKeyShares_Gnosis{Gnosis: &p2pmsg.GnosisDecryptionKeySharesExtra{
				Slot: m.Extra.Slot, TxPointer: m.Extra.Txp, Signature: mat.SigBytes(m.shareSig())}}
		case "gnosisnil":
			out.Extra = &p2pmsg.DecryptionKeyShares_Gnosis{}
		case "service":
			out.Extra = &p2pmsg.DecryptionKeyShares_Service{Service: &p2pmsg.ShutterServiceDecryptionKeySharesExtra{
				Signature: mat.SigBytes(m.shareSig())}}
		case "servicenil":
			out.Extra = &p2pmsg.DecryptionKeyShares_Service{}
		case "optimism":
			out.Extra = &p2pmsg.DecryptionKeyShares_Optimism{Optimism: &p2pmsg.OptimismDecryptionKeySharesExtra{}}
		case "optimismnil":
			out.Extra = &p2pmsg.DecryptionKeyShares_Optimism{}
		}
		return out
	case "keys":
		out := &p2pmsg.DecryptionKeys{InstanceId: m.Inst, Eon: m.Eon}
		for _, it := range m.Items {
			out.Keys = append(out.Keys, &p2pmsg.Key{IdentityPreimage: unhex(it.Ident), Key: mat.Bytes(it.Val)})
		}
		switch m.Extra.Kind {
		case "gnosis":
			out.Extra = &p2pmsg.DecryptionKeys_Gnosis{Gnosis: &p2pmsg.GnosisDecryptionKeysExtra{
				Slot: m.Extra.Slot, TxPointer: m.Extra.Txp, SignerIndices: m.Extra.Signers, Signatures: mat.sigsBytes(m.Extra.Sigs)}}
		case "gnosisnil":
			out.Extra = &p2pmsg.DecryptionKeys_Gnosis{}
		case "service":
			out.Extra = &p2pmsg.DecryptionKeys_Service{Service: &p2pmsg.ShutterServiceDecryptionKeysExtra{
				SignerIndices: m.Extra.Signers, Signature: mat.sigsBytes(m.Extra.Sigs)}}
		case "servicenil":
			out.Extra = &p2pmsg.DecryptionKeys_Service{}
		case "optimism":
			out.Extra = &p2pmsg.DecryptionKeys_Optimism{Optimism: &p2pmsg.OptimismDecryptionKeysExtra{}}
		case "optimismnil":
			out.Extra = &p2pmsg.DecryptionKeys_Optimism{}
		}
		return out
	case "eonpk":
		pk := mat.Sets[0].EonPublicKey().Marshal()
		if m.Ident != "" {
			pk = unhex(strings.TrimPrefix(m.Ident, "pk:")) // "pk:<hex>": other public key bytes ("pk:" = none)
		}
		return &p2pmsg.EonPublicKey{InstanceId: m.Inst, PublicKey: pk,
			ActivationBlock: m.Block, KeyperConfigIndex: m.Eon, Eon: m.Eon}
	case "trigger":
		t := &p2pmsg.DecryptionTrigger{InstanceId: m.Inst, IdentityPreimage: unhex(m.Ident), BlockNumber: m.Block,
			TransactionsHash: []byte{1, 2, 3}}
		switch m.TSig {
		case "by":
			if err := p2pmsg.Sign(t, mat.Keys[m.TKey]); err != nil {
				panic(err)
			}
		case "otherhash":
			o := &p2pmsg.DecryptionTrigger{InstanceId: m.Inst + 1, IdentityPreimage: unhex(m.Ident), TransactionsHash: []byte{1, 2, 3}}
			if err := p2pmsg.Sign(o, mat.Keys[m.TKey]); err != nil {
				panic(err)
			}
			t.Signature = o.Signature
		case "short":
			t.Signature = mat.unrelatedSig()[:40]
		case "stray":
			t.Signature = mat.unrelatedSig()
		}
		return t
	case "commit":
		c := m.Commit
		return &p2pmsg.Commitment{InstanceId: m.Inst, TxHashes: c.TxHashes, Identities: c.Identities, BlockNumber: c.Block,
			ReceivedBidDigest: c.BidDigest, ReceivedBidSignature: c.BidSig, ProviderAddress: c.Provider,
			CommitmentDigest: "0xd1", CommitmentSignature: "0x51", BidAmount: "1"}
	}
	panic("msg type " + m.Type)
}

func (m *Msg) coqItems(mat *Material) string {
	xs := make([]string, len(m.Items))
	for i, it := range m.Items {
		xs[i] = vh.CPair(vh.CBytes(unhex(it.Ident)), mat.CoqKV(it.Val))
	}
	return vh.CList(xs)
}

func (mat *Material) coqSigs(ss []Sig) string {
	xs := make([]string, len(ss))
	for i, s := range ss {
		xs[i] = mat.CoqSig(s)
	}
	return vh.CList(xs)
}

// Coq renders the gmsg.
func (m *Msg) Coq(mat *Material) string {
	m.Fill()
	switch m.Type {
	case "shares":
		var ex string
		switch m.Extra.Kind {
		case "gnosis":
			ex = vh.CApp("SxGnosis", vh.CN(m.Extra.Slot), vh.CN(m.Extra.Txp), mat.CoqSig(m.shareSig()))
		case "gnosisnil":
			ex = "SxGnosisNil"
		case "service":
			ex = vh.CApp("SxService", mat.CoqSig(m.shareSig()))
		case "servicenil":
			ex = "SxServiceNil"
		case "optimism", "optimismnil":
			ex = "SxOptimism"
		default:
			ex = "SxNone"
		}
		return vh.CApp("MShares", vh.CApp("mkSharesMsg", vh.CN(m.Inst), vh.CN(m.Eon), vh.CN(m.Kidx), m.coqItems(mat), ex))
	case "keys":
		var ex string
		switch m.Extra.Kind {
		case "gnosis":
			ex = vh.CApp("KxGnosis", vh.CN(m.Extra.Slot), vh.CN(m.Extra.Txp), vh.CNList(m.Extra.Signers), mat.coqSigs(m.Extra.Sigs))
		case "gnosisnil":
			ex = "KxGnosisNil"
		case "service":
			ex = vh.CApp("KxService", vh.CNList(m.Extra.Signers), mat.coqSigs(m.Extra.Sigs))
		case "servicenil":
			ex = "KxServiceNil"
		case "optimism", "optimismnil":
			ex = "KxOptimism"
		default:
			ex = "KxNone"
		}
		return vh.CApp("MKeys", vh.CApp("mkKeysMsg", vh.CN(m.Inst), vh.CN(m.Eon), m.coqItems(mat), ex))
	case "eonpk":
		return vh.CApp("MEonPK", vh.CApp("mkEonPK", vh.CN(m.Inst)))
	case "trigger":
		var sg string
		switch m.TSig {
		case "by":
			sg = vh.CApp("TsBy", vh.CN(uint64(m.TKey)))
		case "short":
			sg = "TsMalformed"
		default:
			sg = "TsStray"
		}
		return vh.CApp("MTrigger", vh.CApp("mkTrigger", vh.CN(m.Inst), vh.CN(m.Block), sg))
	case "commit":
		c := m.Commit
		return vh.CApp("MCommit", vh.CApp("mkCommit", vh.CN(m.Inst), vh.CNat(len(c.Identities)), vh.CNat(len(c.TxHashes)),
			vh.CNat(len(common.FromHex(c.BidSig)))))
	}
	panic("msg type " + m.Type)
}

// WireNilInner: the message has a oneof wrapper with a nil inner message; the wire decoder
// turns that into an empty inner message, so the record the validators see after decoding
// differs from the one built in memory.
func (m *Msg) NilInner() bool { return strings.HasSuffix(m.Extra.Kind, "nil") }

// AfterWire is the message as it looks after Marshal + Unmarshal.
func (m *Msg) AfterWire() *Msg {
	if !m.NilInner() {
		return m
	}
	c := m.Clone()
	c.Extra.Kind = strings.TrimSuffix(m.Extra.Kind, "nil")
	if m.Type == "shares" && c.Extra.Kind != "optimism" {
		c.Extra.Sig = &Sig{Kind: "empty"}
	}
	return c
}

func CoqU64(x uint64) string { return vh.CN(x) }

func hexOf(b []byte) string { return hex.EncodeToString(b) }

var _ = math.MaxInt64
