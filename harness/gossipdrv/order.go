//go:build verif

package gossipdrv

import (
	"encoding/hex"

	"verifharness/vh"
)

// OrderRecorder permutes the candidate rows of the unordered SELECT on the share table and
// remembers how (pgfake asks only when there are two or more candidate rows).
type OrderRecorder struct {
	RNG   *vh.RNG
	Perms [][]int
}

func (o *OrderRecorder) Order(table string, n int) []int {
	if table != "decryption_key_share" {
		p := make([]int, n)
		for i := range p {
			p[i] = i
		}
		return p
	}
	p := o.RNG.Perm(n)
	o.Perms = append(o.Perms, p)
	return p
}

// PermsFor aligns the recorded permutations with the positions of the identities of a
// key-shares message (the handler selects once per identity, in message order) and renders
// them as the Coq `list (list nat)` from which Corr/Gossip.v builds the row order oracle. It
// reads the share table as it is after the call (the handler inserts before it selects and
// never deletes).
func (w *World) PermsFor(eon uint64, idents []string, rec *OrderRecorder) string {
	rows := w.Srv.Store().Table("decryption_key_share").Rows()
	var xs []string
	next := 0
	for _, ident := range idents {
		n := 0
		for _, row := range rows {
			if row["eon"].(int64) == int64(eon) && hex.EncodeToString(row["epoch_id"].([]byte)) == ident {
				n++
			}
		}
		var p []int
		if n >= 2 && next < len(rec.Perms) && len(rec.Perms[next]) == n {
			p = rec.Perms[next]
			next++
		} else {
			for i := 0; i < n; i++ {
				p = append(p, i)
			}
		}
		ys := make([]string, len(p))
		for i, j := range p {
			ys[i] = vh.CNat(j)
		}
		xs = append(xs, vh.CList(ys))
	}
	return vh.CList(xs)
}
