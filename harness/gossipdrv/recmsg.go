//go:build verif

package gossipdrv

import (
	"context"

	"github.com/shutter-network/rolling-shutter/rolling-shutter/medley/retry"
	"github.com/shutter-network/rolling-shutter/rolling-shutter/medley/service"
	"github.com/shutter-network/rolling-shutter/rolling-shutter/p2p"
	"github.com/shutter-network/rolling-shutter/rolling-shutter/p2pmsg"
)

// RecMessaging is a p2p.Messaging that records what a messaging middleware passes on.
type RecMessaging struct{ Sent []p2pmsg.Message }

func (r *RecMessaging) Start(context.Context, service.Runner) error { return nil }
func (r *RecMessaging) SendMessage(_ context.Context, m p2pmsg.Message, _ ...retry.Option) error {
	r.Sent = append(r.Sent, m)
	return nil
}
func (r *RecMessaging) AddValidator(p2p.ValidatorFunc, ...p2pmsg.Message) {}
func (r *RecMessaging) AddMessageHandler(...p2p.MessageHandler)           {}
