//go:build verif

package gossipdrv

import (
	"bytes"
	"fmt"
	"math"
)

// The property oracle of C04, written from the property text over the case description (the
// state rows and the message fields as they were generated), not over the Coq model:
//
//	"A key-shares message is accepted iff its instance id matches, the receiver is a keyper of
//	 the named keyper set and that set's key generation succeeded, it carries between one and
//	 the configured maximum of shares with non-decreasing identities, the claimed sender index
//	 exists, and every share verifies against that sender's public key share; a keys message is
//	 accepted iff the same structural rules hold and every key is the valid epoch key for its
//	 identity under the eon public key (or equals a key already stored)."

// NamedSet finds the keyper set the message names and the key generation result that counts
// for it (the latest eon started for that set).
func (st *State) NamedSet(eon uint64) (cfg *ConfigRow, dkg *DkgRow, why string) {
	if eon > math.MaxInt64 {
		return nil, nil, "eon does not name a keyper set (above MaxInt64)"
	}
	for i := range st.Configs {
		if st.Configs[i].Kci == int64(eon) {
			cfg = &st.Configs[i]
		}
	}
	if cfg == nil {
		return nil, nil, "no such keyper set"
	}
	var maxEon *int64
	for i := range st.Eons {
		if st.Eons[i].Kci == int64(eon) && (maxEon == nil || st.Eons[i].Eon > *maxEon) {
			e := st.Eons[i].Eon
			maxEon = &e
		}
	}
	if maxEon == nil {
		return cfg, nil, "no eon was started for the keyper set"
	}
	for i := range st.Dkg {
		if st.Dkg[i].Eon == *maxEon {
			dkg = &st.Dkg[i]
		}
	}
	if dkg == nil {
		return cfg, nil, "the key generation of the set's latest eon has no result"
	}
	if dkg.Kind != "ok" {
		return cfg, nil, "the key generation of the set's latest eon did not succeed"
	}
	return cfg, dkg, ""
}

// WfCore evaluates the right-hand side of the property for a key-shares or keys message.
func WfCore(mat *Material, st *State, m *Msg) (bool, string) {
	if m.Inst != st.Inst {
		return false, "instance id differs"
	}
	cfg, dkg, why := st.NamedSet(m.Eon)
	if cfg == nil {
		return false, why
	}
	member := false
	for _, k := range cfg.Keypers {
		if k == st.Self {
			member = true
		}
	}
	if !member {
		return false, "receiver is not a keyper of the set"
	}
	if dkg == nil {
		return false, why
	}
	if len(m.Items) < 1 {
		return false, "no shares / keys"
	}
	if st.MaxKeys > math.MaxInt64 || uint64(len(m.Items)) > st.MaxKeys {
		return false, "more than the configured maximum"
	}
	for i := 1; i < len(m.Items); i++ {
		if bytes.Compare(unhex(m.Items[i].Ident), unhex(m.Items[i-1].Ident)) < 0 {
			return false, "identities decrease"
		}
	}
	if m.Type == "shares" {
		if m.Kidx >= uint64(dkg.NShares) {
			return false, "the claimed sender index does not exist"
		}
		for i, it := range m.Items {
			v := it.Val
			// the share keyper Kidx computes for this identity with the set's eon secret
			if !(v.Kind == "share" && v.Set == dkg.Set && v.Keyper == int(m.Kidx)%mat.N && v.Ident == it.Ident) {
				return false, fmt.Sprintf("share %d is not the sender's share for its identity", i)
			}
		}
		return true, ""
	}
	for i, it := range m.Items {
		v := it.Val
		if v.Kind == "key" && v.Set == dkg.Set && v.Ident == it.Ident {
			continue
		}
		stored := false
		for _, k := range st.Keys {
			if k.Eon == int64(m.Eon) && k.Ident == it.Ident && bytes.Equal(mat.Bytes(k.Val), mat.Bytes(v)) {
				stored = true
			}
		}
		if !stored {
			return false, fmt.Sprintf("key %d is neither the epoch key of its identity nor the stored key", i)
		}
	}
	return true, ""
}
