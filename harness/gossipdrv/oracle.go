//go:build verif

package gossipdrv

import (
	"bytes"
	"fmt"
	"math"

	"github.com/shutter-network/shutter/shlib/shcrypto"
)

// The property oracle of C04, written from the property text over the case description (the
// state rows and the message fields as they were generated), not over the Coq model:
//
//	"A key-shares message is accepted iff its instance id matches, the receiver is a keyper of
//	 the named keyper set and that set's key generation succeeded, it carries between one and
//	 the configured maximum of shares with non-decreasing identities, the claimed sender index
//	 exists, and every share verifies against that sender's public key share; a keys message is
//	 accepted iff the same structural rules hold and every key is the valid epoch key for its
//	 identity under the eon public key (or equals a key already stored)."

// NamedSet finds the keyper set the message names and the key generation result that counts
// for it (the latest eon started for that set).
func (st *State) NamedSet(eon uint64) (cfg *ConfigRow, dkg *DkgRow, why string) {
	if eon > math.MaxInt64 {
		return nil, nil, "eon does not name a keyper set (above MaxInt64)"
	}
	for i := range st.Configs {
		if st.Configs[i].Kci == int64(eon) {
			cfg = &st.Configs[i]
		}
	}
	if cfg == nil {
		return nil, nil, "no such keyper set"
	}
	var maxEon *int64
	for i := range st.Eons {
		if st.Eons[i].Kci == int64(eon) && (maxEon == nil || st.Eons[i].Eon > *maxEon) {
			e := st.Eons[i].Eon
			maxEon = &e
		}
	}
	if maxEon == nil {
		return cfg, nil, "no eon was started for the keyper set"
	}
	for i := range st.Dkg {
		if st.Dkg[i].Eon == *maxEon {
			dkg = &st.Dkg[i]
		}
	}
	if dkg == nil {
		return cfg, nil, "the key generation of the set's latest eon has no result"
	}
	if dkg.Kind != "ok" {
		return cfg, nil, "the key generation of the set's latest eon did not succeed"
	}
	return cfg, dkg, ""
}

// WfCore evaluates the right-hand side of the property for a key-shares or keys message.
func WfCore(mat *Material, st *State, m *Msg) (bool, string) {
	if m.Inst != st.Inst {
		return false, "instance id differs"
	}
	cfg, dkg, why := st.NamedSet(m.Eon)
	if cfg == nil {
		return false, why
	}
	member := false
	for _, k := range cfg.Keypers {
		if k == st.Self {
			member = true
		}
	}
	if !member {
		return false, "receiver is not a keyper of the set"
	}
	if dkg == nil {
		return false, why
	}
	if len(m.Items) < 1 {
		return false, "no shares / keys"
	}
	if st.MaxKeys > math.MaxInt64 || uint64(len(m.Items)) > st.MaxKeys {
		return false, "more than the configured maximum"
	}
	for i := 1; i < len(m.Items); i++ {
		if bytes.Compare(unhex(m.Items[i].Ident), unhex(m.Items[i-1].Ident)) < 0 {
			return false, "identities decrease"
		}
	}
	if m.Type == "shares" {
		if m.Kidx >= uint64(dkg.NShares) {
			return false, "the claimed sender index does not exist"
		}
		for i, it := range m.Items {
			v := mat.CanonAt(it.Val, it.Ident)
			// the share keyper Kidx computes for this identity with the set's eon secret
			if !(v.Kind == "share" && v.Set == dkg.Set && v.Keyper == int(m.Kidx)%mat.N && v.Ident == it.Ident) {
				return false, fmt.Sprintf("share %d is not the sender's share for its identity", i)
			}
		}
		return true, ""
	}
	for i, it := range m.Items {
		v := mat.CanonAt(it.Val, it.Ident)
		if v.Kind == "key" && v.Set == dkg.Set && v.Ident == it.Ident {
			continue
		}
		stored := false
		for _, k := range st.Keys {
			if k.Eon == int64(m.Eon) && k.Ident == it.Ident && bytes.Equal(mat.Bytes(k.Val), mat.Bytes(v)) {
				stored = true
			}
		}
		if !stored {
			return false, fmt.Sprintf("key %d is neither the epoch key of its identity nor the stored key", i)
		}
	}
	return true, ""
}

// ElementsValid is the element-wise reference verdict with the real cryptography: every share
// (key) of the message must be, by shcrypto.VerifyEpochSecretKeyShare (VerifyEpochSecretKey),
// the valid share of the claimed sender (the valid epoch secret key) for ITS OWN identity under
// the key generation result that counts for the named keyper set - or, for keys, byte-equal to
// the key stored for (eon, identity). Returns the first offending position. Messages for which
// no such result exists are not judged here (ok = true).
func ElementsValid(mat *Material, st *State, m *Msg) (bool, int) {
	_, dkg, _ := st.NamedSet(m.Eon)
	if dkg == nil || (m.Type != "shares" && m.Type != "keys") {
		return true, -1
	}
	if m.Type == "shares" && m.Kidx >= uint64(dkg.NShares) {
		return true, -1
	}
	for i, it := range m.Items {
		b := mat.Bytes(it.Val)
		id := unhex(it.Ident)
		if m.Type == "shares" {
			sh := new(shcrypto.EpochSecretKeyShare)
			if err := sh.Unmarshal(b); err != nil {
				return false, i
			}
			if !shcrypto.VerifyEpochSecretKeyShare(sh, mat.Sets[dkg.Set].EonPublicKeyShare(int(m.Kidx)%mat.N), shcrypto.ComputeEpochID(id)) {
				return false, i
			}
			continue
		}
		stored := false
		for _, k := range st.Keys {
			if k.Eon == int64(m.Eon) && k.Ident == it.Ident && bytes.Equal(mat.Bytes(k.Val), b) {
				stored = true
			}
		}
		if stored {
			continue
		}
		k := new(shcrypto.EpochSecretKey)
		if err := k.Unmarshal(b); err != nil {
			return false, i
		}
		if ok, err := shcrypto.VerifyEpochSecretKey(k, mat.Sets[dkg.Set].EonPublicKey(), id); err != nil || !ok {
			return false, i
		}
	}
	return true, -1
}
