//go:build verif

// Package gossipdrv is the rig shared by the drivers of C04 and C05 (and the handler stream of
// C01): real BLS / ECDSA material, a pgfake-backed keyper database, the real message handlers of
// every node flavour registered on a real p2p.P2PMessaging the way each flavour's Start does, the
// combined topic validator obtained through the verif hook, and the emitters of the Coq terms of
// Model/Gossip.v / Model/GossipMisc.v.
package gossipdrv

import (
	"crypto/ecdsa"
	"encoding/hex"
	"fmt"
	"math/big"
	"sort"
	"sync"

	"github.com/ethereum/go-ethereum/common"
	"github.com/ethereum/go-ethereum/crypto"
	"github.com/shutter-network/shutter/shlib/shcrypto"
	blst "github.com/supranational/blst/bindings/go"

	"github.com/shutter-network/rolling-shutter/rolling-shutter/medley/identitypreimage"
	"github.com/shutter-network/rolling-shutter/rolling-shutter/medley/testkeygen"
	"github.com/shutter-network/rolling-shutter/rolling-shutter/shdb"

	"verifharness/vh"
)

// NumAddr is the size of the address universe: indices 0..N-1 are the keypers of the set, the
// rest are strangers.
const NumAddr = 8

// BadAddrLabel is the Coq label of a keyper string that is not an address.
const BadAddrLabel = 999

// BadAddrString is what such an entry holds.
const BadAddrString = "not-an-address"

type rngReader struct{ r *vh.RNG }

func (rr rngReader) Read(p []byte) (int, error) {
	copy(p, rr.r.Bytes(len(p)))
	return len(p), nil
}

// Material is the key material of one keyper set: two eon key sets (0: the one the DKG result
// of the tests holds, 1: another eon's) over N keypers with threshold T >= 2 (with T = 1 every
// keyper holds the same secret and the labels "share of keyper i" would coincide), and ECDSA
// node keys.
type Material struct {
	N, T    int
	Sets    [2]*testkeygen.EonKeys
	Keys    []*ecdsa.PrivateKey
	Addrs   []common.Address
	AddrStr []string
	NotG1   []byte // 48 bytes blst uncompresses to a curve point outside G1 (Unmarshal error)

	mu    sync.Mutex
	cache map[string][]byte
}

func NewMaterial(seed uint64, n, t int) *Material {
	if t < 2 || t > n {
		panic("material needs 2 <= t <= n")
	}
	r := vh.NewRNG(seed ^ 0x60551b ^ uint64(n)<<20 ^ uint64(t)<<28)
	m := &Material{N: n, T: t, cache: map[string][]byte{}}
	for i := range m.Sets {
		k, err := testkeygen.NewEonKeys(rngReader{r}, uint64(n), uint64(t))
		if err != nil {
			panic(err)
		}
		m.Sets[i] = k
	}
	for i := 0; i < NumAddr; i++ {
		k, err := crypto.ToECDSA(crypto.Keccak256([]byte(fmt.Sprintf("verif gossip node key %d", i))))
		if err != nil {
			panic(err)
		}
		m.Keys = append(m.Keys, k)
		a := crypto.PubkeyToAddress(k.PublicKey)
		m.Addrs = append(m.Addrs, a)
		m.AddrStr = append(m.AddrStr, shdb.EncodeAddress(a))
	}
	m.NotG1 = findNotG1(r)
	return m
}

// findNotG1 searches a compressed encoding that uncompresses (x is on the curve) but whose
// point is not in the prime-order subgroup: the only byte strings for which
// (*EpochSecretKeyShare).Unmarshal and (*EpochSecretKey).Unmarshal return an error.
func findNotG1(r *vh.RNG) []byte {
	for i := 0; i < 10000; i++ {
		b := r.Bytes(48)
		b[0] = 0x80 | (b[0] & 0x1f) // compressed, not infinity, x below the modulus
		if err := new(shcrypto.EpochSecretKeyShare).Unmarshal(b); err != nil {
			if err2 := new(shcrypto.EpochSecretKey).Unmarshal(b); err2 != nil {
				return b
			}
		}
	}
	panic("no curve point outside G1 found")
}

// Val describes the group element carried by a share or a key.
type Val struct {
	Kind   string `json:"kind"`             // share | key | junk | empty | short | notg1 | raw
	Set    int    `json:"set,omitempty"`    // eon key set (share, key)
	Keyper int    `json:"keyper,omitempty"` // whose share
	Ident  string `json:"ident,omitempty"`  // hex: the identity it was computed for (share, key, junk)
	Tag    int    `json:"tag,omitempty"`    // junk variant
	Raw    string `json:"raw,omitempty"`    // hex (raw)
	Terms  []Term `json:"terms,omitempty"`  // comb: the G1 sum of these values (negated where Neg)
}

// Term is one summand of a "comb" value.
type Term struct {
	Val Val  `json:"val"`
	Neg bool `json:"neg,omitempty"`
}

func unhex(s string) []byte {
	b, err := hex.DecodeString(s)
	if err != nil {
		panic(err)
	}
	return b
}

// Bytes produces the bytes with the repository's own key generator.
func (m *Material) Bytes(v Val) []byte {
	ck := fmt.Sprintf("%s|%d|%d|%s|%d|%s|%+v", v.Kind, v.Set, v.Keyper, v.Ident, v.Tag, v.Raw, v.Terms)
	m.mu.Lock()
	if b, ok := m.cache[ck]; ok {
		m.mu.Unlock()
		return b
	}
	m.mu.Unlock()
	var b []byte
	switch v.Kind {
	case "share":
		b = m.Sets[v.Set].EpochSecretKeyShare(identitypreimage.IdentityPreimage(unhex(v.Ident)), v.Keyper).Marshal()
	case "key":
		k, err := m.Sets[v.Set].EpochSecretKey(identitypreimage.IdentityPreimage(unhex(v.Ident)))
		if err != nil {
			panic(err)
		}
		b = k.Marshal()
	case "junk":
		s := shcrypto.EonSecretKeyShare(*big.NewInt(int64(1000003 + 17*v.Tag)))
		b = shcrypto.ComputeEpochSecretKeyShare(&s, shcrypto.ComputeEpochID(unhex(v.Ident))).Marshal()
	case "empty":
		b = []byte{}
	case "short":
		b = []byte{0x80, 1, 2, 3, 4, 5, 6, 7, 8, byte(v.Tag)}
	case "notg1":
		b = m.NotG1
	case "raw":
		b = unhex(v.Raw)
	case "inf":
		b = new(blst.P1Affine).Compress() // the point at infinity, properly encoded
	case "comb":
		sum := new(blst.P1)
		for _, t := range v.Terms {
			p := new(blst.P1Affine).Uncompress(m.Bytes(t.Val))
			if p == nil {
				continue // bytes blst cannot uncompress count as the point at infinity, as in the code under test
			}
			if t.Neg {
				sum.SubAssign(p)
			} else {
				sum.AddAssign(p)
			}
		}
		b = sum.ToAffine().Compress()
	default:
		panic("val kind " + v.Kind)
	}
	m.mu.Lock()
	m.cache[ck] = b
	m.mu.Unlock()
	return b
}

// Decodes says whether Unmarshal accepts the bytes (checked against the real decoder by the
// driver whenever it matters).
func (m *Material) Decodes(v Val) bool {
	switch v.Kind {
	case "notg1":
		return false
	case "raw", "comb", "inf":
		// ask the real decoder: a sum with a term outside G1 is itself outside G1
		return new(shcrypto.EpochSecretKeyShare).Unmarshal(m.Bytes(v)) == nil
	}
	return true
}

// CoqLabel is the label of Model/EpochKGLabels.v the value carries (None: does not decode).
func (m *Material) CoqLabel(v Val) string {
	switch v.Kind {
	case "share":
		return vh.CSome(vh.CApp("LShare", vh.CN(uint64(v.Set)), vh.CN(uint64(v.Keyper)), vh.CBytes(unhex(v.Ident))))
	case "key":
		return vh.CSome(vh.CApp("LKey", vh.CN(uint64(v.Set)), vh.CBytes(unhex(v.Ident))))
	case "notg1":
		return "None"
	case "raw", "comb", "inf":
		// by the bytes: a genuine value under another description is that value
		if c := m.Canon(v); c.Kind == "share" || c.Kind == "key" {
			return m.CoqLabel(c)
		}
		if !m.Decodes(v) {
			return "None"
		}
		return vh.CSome("LOther")
	}
	return vh.CSome("LOther")
}

func (m *Material) CoqKV(v Val) string {
	return vh.CApp("mkKV", vh.CBytes(m.Bytes(v)), m.CoqLabel(v))
}

// ClassifyKey tells what a key produced by the implementation is: the label of the epoch
// secret key of key set 0 or 1 for the identity, or LOther.
func (m *Material) ClassifyKey(ident, key []byte) string {
	for set := 0; set < 2; set++ {
		if string(m.Bytes(Val{Kind: "key", Set: set, Ident: hex.EncodeToString(ident)})) == string(key) {
			return vh.CApp("LKey", vh.CN(uint64(set)), vh.CBytes(ident))
		}
	}
	return "LOther"
}

// Canon describes a value by the BYTES it produces. The kinds share / key / junk / empty / short
// / notg1 say what their bytes are. Every other kind (a sum of terms at any nesting depth, raw
// bytes, the encoded point at infinity) is computed first and then classified: bytes equal to a
// genuine key or share (any key set, any keyper) for an identity that occurs in the value or for
// the identity it is sent under are that genuine value; bytes equal to a junk term are that
// term; everything else keeps its description and gets its label from the real decoder
// (CoqLabel: another group element, or undecodable). So no combination of kinds - terms that
// cancel, terms that are no group elements and count as the point at infinity, sums of sums -
// can describe a valid value as an invalid one or the other way round.
func (m *Material) Canon(v Val) Val { return m.CanonAt(v, "") }

func (m *Material) leaves(v Val, idents map[string]bool, junk *[]Val) {
	switch v.Kind {
	case "share", "key":
		idents[v.Ident] = true
	case "junk":
		idents[v.Ident] = true
		*junk = append(*junk, v)
	case "comb":
		for _, t := range v.Terms {
			m.leaves(t.Val, idents, junk)
		}
	}
}

// CanonAt is Canon for a value sent under the identity ident (hex; "" = none).
func (m *Material) CanonAt(v Val, ident string) Val {
	switch v.Kind {
	case "share", "key", "junk", "empty", "short", "notg1":
		return v
	}
	b := string(m.Bytes(v))
	idents := map[string]bool{}
	var junk []Val
	m.leaves(v, idents, &junk)
	if ident != "" {
		idents[ident] = true
	}
	ids := make([]string, 0, len(idents))
	for id := range idents {
		ids = append(ids, id)
	}
	sort.Strings(ids)
	for _, id := range ids {
		if _, err := hex.DecodeString(id); err != nil {
			continue
		}
		for set := range m.Sets {
			if g := (Val{Kind: "key", Set: set, Ident: id}); string(m.Bytes(g)) == b {
				return g
			}
			for k := 0; k < m.N; k++ {
				if g := (Val{Kind: "share", Set: set, Keyper: k, Ident: id}); string(m.Bytes(g)) == b {
					return g
				}
			}
		}
	}
	for _, g := range junk {
		if string(m.Bytes(g)) == b {
			return g
		}
	}
	return v
}

// CanonMsg canonicalises every value of the message.
func (m *Material) CanonMsg(msg *Msg) {
	for i := range msg.Items {
		msg.Items[i].Val = m.CanonAt(msg.Items[i].Val, msg.Items[i].Ident)
	}
}
