//go:build verif

package gossipdrv

import (
	"bytes"
	"encoding/hex"
	"fmt"
	"strings"
	"time"

	"github.com/ethereum/go-ethereum/crypto"
	"github.com/shutter-network/shutter/shlib/shcrypto"

	"github.com/shutter-network/rolling-shutter/rolling-shutter/keyper/database"
	"github.com/shutter-network/rolling-shutter/rolling-shutter/keyper/epochkghandler"
	"github.com/shutter-network/rolling-shutter/rolling-shutter/keyperimpl/gnosis"
	gnosisdatabase "github.com/shutter-network/rolling-shutter/rolling-shutter/keyperimpl/gnosis/database"
	"github.com/shutter-network/rolling-shutter/rolling-shutter/keyperimpl/shutterservice"
	"github.com/shutter-network/rolling-shutter/rolling-shutter/medley/configuration"
	"github.com/shutter-network/rolling-shutter/rolling-shutter/medley/encodeable/keys"
	"github.com/shutter-network/rolling-shutter/rolling-shutter/medley/identitypreimage"
	"github.com/shutter-network/rolling-shutter/rolling-shutter/p2pmsg"

	"verifharness/vh"
)

// gossipsim: n real handler stacks of one flavour (plus, for Gnosis, the access node), each on
// its own fake database. libp2p is replaced by the gate every real deployment has:
// publish(i, m) first runs node i's own combined topic validator (a reject means the message is
// never sent); a delivery runs the receiver's combined validator and, only on Accept, its
// handlers; a node does not handle its own messages.

const (
	SimInst    = 7
	SimMaxKeys = 3
	SimEon     = 5 // eons.eon
	SimKci     = 1 // eons.keyper_config_index = the `eon` field of the gossip messages
	SimSlot    = 12
	SimTxp     = 3
)

type SimConfig struct {
	Flavour string   `json:"flavour"` // core | gnosis | service
	N       int      `json:"n"`
	T       int      `json:"t"`
	Idents  []string `json:"idents"` // hex, bytewise sorted
	// Access (Gnosis): the order in which the access node's two independent chain syncers
	// reported before the schedule starts: "" or "set-key" (keyper set, then eon key), "key-set",
	// "set-key-set" (the keyper set is announced again after the key)
	Access string `json:"access,omitempty"`
}

// AccessOrders are the values of SimConfig.Access.
var AccessOrders = []string{"set-key", "key-set", "set-key-set"}

// SimOp: "T" node is triggered for the identities; "D" message number Msg (in order of
// publication) is delivered to node Node (index N = the access node). An op that names a
// message not yet published, the sender itself, or a topic the node is not subscribed to is a
// no-op. Two abstract forms are resolved into "D" operations while the schedule runs (message
// numbers depend on what was published before): "S" = the share message keyper From published
// goes to Node; "K" = every keys message published so far goes to every node that has not
// received it yet (repeated until nothing is pending).
type SimOp struct {
	K    string `json:"k"` // T | S | K | KA | D
	Node int    `json:"node"`
	From int    `json:"from,omitempty"` // S: the latest share message of keyper From goes to Node
	Ids  []int  `json:"ids,omitempty"`  // T: positions of the identities the trigger names (default: all)
	Slot int64  `json:"slot,omitempty"` // T (Gnosis): slot and tx pointer of the trigger row (default SimSlot, SimTxp)
	Txp  int64  `json:"txp,omitempty"`
	Msg  int    `json:"msg,omitempty"` // D: message number
}

type simMsg struct {
	from int
	pm   p2pmsg.Message
	data []byte
	kind string // shares | keys
}

// SimPool holds the worlds (one fake database each) that simulations reuse.
type SimPool struct {
	Run    *vh.Run
	worlds []*World
	mats   map[string]*Material
}

func NewSimPool(run *vh.Run, nodes int) *SimPool {
	p := &SimPool{Run: run, mats: map[string]*Material{}}
	for i := 0; i < nodes; i++ {
		w := NewWorld(run, nil)
		w.NoMemStats = true
		// many simulations share the machine with other checks; a slow call is not a hang (hangs
		// are C05's subject, with its own watchdog)
		w.Timeout = 3 * time.Minute
		p.worlds = append(p.worlds, w)
	}
	return p
}

func (p *SimPool) Close() {
	for _, w := range p.worlds {
		w.Close()
	}
}

// Material must be called before simulations run in parallel.
func (p *SimPool) Material(n, t int) *Material {
	k := fmt.Sprintf("%d/%d", n, t)
	if m, ok := p.mats[k]; ok {
		return m
	}
	m := NewMaterial(1, n, t)
	p.mats[k] = m
	return m
}

func seq(n int) []int {
	out := make([]int, n)
	for i := range out {
		out[i] = i
	}
	return out
}

// SimState is the database of keyper i at the start.
func SimState(c SimConfig, i int) *State {
	st := &State{Name: fmt.Sprintf("sim-%s-%d-%d-%d", c.Flavour, c.N, c.T, i), Inst: SimInst, MaxKeys: SimMaxKeys, Self: i,
		Configs: []ConfigRow{{Kci: SimKci, Keypers: seq(c.N)}},
		Eons:    []EonRow{{Eon: SimEon, Kci: SimKci}},
		Dkg:     []DkgRow{{Eon: SimEon, Kind: "ok", Set: 0, NShares: c.N, T: c.T, Keyper: i}},
		KSets:   []KSetRow{{Kci: SimKci, Keypers: seq(c.N), Threshold: int32(c.T)}},
	}
	return st
}

func simAccessState(c SimConfig) *State {
	// built through the node's own callbacks (World.Node), in the order the configuration names
	order := c.Access
	if order == "" {
		order = "set-key"
	}
	if order != "set-key" && order != "key-set" && order != "set-key-set" {
		panic("access order " + order)
	}
	return &State{Name: fmt.Sprintf("sim-access-%d-%d-%s", c.N, c.T, order), Inst: SimInst, MaxKeys: SimMaxKeys, Self: 0,
		AnKeys:      []AnKey{{Eon: SimKci, Set: 0}},
		AnKSets:     []AnKSet{{Eon: SimKci, Keypers: seq(c.N), Threshold: int32(c.T)}},
		AnKeysFirst: order == "key-set",
		AnSetsAgain: order == "set-key-set",
	}
}

// SimKeyObs is one decryption_key row at quiescence with the verdict of the real crypto.
type SimKeyObs struct {
	Eon     int64  `json:"eon"`
	Ident   string `json:"ident"`
	Key     string `json:"key"`
	Correct bool   `json:"correct"`
}

// SimStep is what one operation did.
type SimStep struct {
	Skipped  bool     `json:"skipped,omitempty"`
	Verdict  string   `json:"verdict,omitempty"`
	Kind     string   `json:"kind,omitempty"` // delivered message kind
	From     int      `json:"from,omitempty"`
	Pubs     []string `json:"pubs,omitempty"` // kind:own-verdict:signers
	ProdErr  string   `json:"prod_err,omitempty"`
	Crash    string   `json:"crash,omitempty"`
	coq      string
	newMsgs  int
	accepted bool
}

type SimResult struct {
	Steps    []SimStep     `json:"steps"`
	Keys     [][]SimKeyObs `json:"keys"` // per keyper node
	Coq      string        `json:"-"`    // arguments of the CNet case after the id
	Messages int           `json:"messages"`
	// bookkeeping for the oracle
	Triggered     []bool
	ForeignShares []map[int]bool // per node: senders whose share message it handled
	GotKeys       []bool         // per node: handled a keys message
	CompletedOwn  []bool         // per node: handled a foreign share message when own + foreign distinct >= t
	MsgKinds      []string
	MsgFrom       []int
}

func (p *SimPool) keyCorrect(mat *Material, ident, key []byte) bool {
	k := new(shcrypto.EpochSecretKey)
	if err := k.Unmarshal(key); err != nil {
		return false
	}
	ok, err := shcrypto.VerifyEpochSecretKey(k, mat.Sets[0].EonPublicKey(), ident)
	if err != nil || !ok {
		return false
	}
	var sigma shcrypto.Block
	copy(sigma[:], crypto.Keccak256(ident))
	msg := []byte("C03 trial message")
	enc := shcrypto.Encrypt(msg, mat.Sets[0].EonPublicKey(), shcrypto.ComputeEpochID(ident), sigma)
	dec, err := enc.Decrypt(k)
	if err != nil || !bytes.Equal(dec, msg) {
		return false
	}
	return bytes.Equal(key, mat.Bytes(Val{Kind: "key", Set: 0, Ident: hex.EncodeToString(ident)}))
}

// Sim runs one schedule on worlds[base .. base+N] (base+N: the access node's world).
func (p *SimPool) Sim(base int, c SimConfig, ops []SimOp) *SimResult {
	mat := p.mats[fmt.Sprintf("%d/%d", c.N, c.T)]
	nn := c.N
	withAccess := c.Flavour == "gnosis"
	total := nn
	if withAccess {
		total++
	}
	worlds := p.worlds[base : base+total]
	states := make([]*State, total)
	nodes := make([]*Node, total)
	for i := 0; i < total; i++ {
		w := worlds[i]
		w.Mat = mat
		if i < nn {
			states[i] = SimState(c, i)
			w.Install(states[i])
			nodes[i] = w.Node(c.Flavour, states[i])
		} else {
			states[i] = simAccessState(c)
			w.Install(states[i])
			nodes[i] = w.Node("access", states[i])
		}
	}
	res := &SimResult{Triggered: make([]bool, nn), GotKeys: make([]bool, nn), CompletedOwn: make([]bool, nn)}
	for i := 0; i < nn; i++ {
		res.ForeignShares = append(res.ForeignShares, map[int]bool{})
	}
	var msgs []*simMsg
	var pre []identitypreimage.IdentityPreimage
	var idBytes [][]byte
	for _, id := range c.Idents {
		b := unhex(id)
		idBytes = append(idBytes, b)
		pre = append(pre, identitypreimage.IdentityPreimage(b))
	}
	var coqOps, coqObs []string

	// publish: the sender's own validator first
	publish := func(i int, out []p2pmsg.Message, st *SimStep) []string {
		var pubs []string
		for _, pm := range out {
			data, err := p2pmsg.Marshal(pm, nil)
			if err != nil {
				panic(err)
			}
			topic := pm.Topic()
			own, ex := nodes[i].Combined(topic, topic, data)
			if ex.Crashed() {
				st.Crash += "own validator: " + ex.Panic + ";"
			}
			kind := "shares"
			signers := ""
			if km, ok := pm.(*p2pmsg.DecryptionKeys); ok {
				kind = "keys"
				switch e := km.Extra.(type) {
				case *p2pmsg.DecryptionKeys_Gnosis:
					signers = fmt.Sprint(e.Gnosis.GetSignerIndices())
				case *p2pmsg.DecryptionKeys_Service:
					signers = fmt.Sprint(e.Service.GetSignerIndices())
				}
			}
			st.Pubs = append(st.Pubs, kind+":"+own+":"+signers)
			term, _ := mat.Lift(pm)
			pubs = append(pubs, vh.CApp("Pub", term, CoqVres(own)))
			if own == "accept" {
				msgs = append(msgs, &simMsg{from: i, pm: pm, data: data, kind: kind})
				res.MsgKinds = append(res.MsgKinds, kind)
				res.MsgFrom = append(res.MsgFrom, i)
				st.newMsgs++
			}
		}
		return pubs
	}

	shareMsg := map[int]int{}
	keysDone := map[[2]int]bool{}
	trigger := func(i int, sel []int, slot, txp int64) {
		if slot == 0 {
			slot, txp = SimSlot, SimTxp
		}
		ids, pre, idBytes := c.Idents, pre, idBytes
		if len(sel) > 0 {
			ids, pre, idBytes = nil, nil, nil
			for _, k := range sel {
				ids = append(ids, c.Idents[k])
				b := unhex(c.Idents[k])
				idBytes = append(idBytes, b)
				pre = append(pre, identitypreimage.IdentityPreimage(b))
			}
		}
		var st SimStep
		defer func() {
			if st.Skipped {
				st.coq = "SkipOp"
			}
			coqObs = append(coqObs, st.coq)
			res.Steps = append(res.Steps, st)
		}()
		coqOps = append(coqOps, vh.CApp("OpTrigger", vh.CNat(i), vh.CZ(SimEon), vh.CZ(SimKci), vh.CZ(slot), vh.CZ(txp), coqIds(ids)))
		if i < 0 || i >= nn {
			st.Skipped = true
			return
		}
		w := worlds[i]
		if c.Flavour == "gnosis" {
			// newslot.go stores the trigger row before it hands the trigger to the key share handler
			err := gnosisdatabase.New(w.Pool).SetCurrentDecryptionTrigger(w.Ctx, gnosisdatabase.SetCurrentDecryptionTriggerParams{
				Eon: SimKci, Slot: slot, TxPointer: txp, IdentitiesHash: crypto.Keccak256(idBytes...)})
			if err != nil {
				panic(err)
			}
		}
		ksh := &epochkghandler.KeyShareHandler{InstanceID: SimInst, KeyperAddress: mat.Addrs[i], MaxNumKeysPerMessage: SimMaxKeys, DBPool: w.Pool}
		var msg *p2pmsg.DecryptionKeyShares
		var err error
		ex := w.guard(func() {
			msg, err = ksh.ConstructDecryptionKeyShares(w.Ctx, database.Eon{Eon: SimEon, Height: 1, KeyperConfigIndex: SimKci}, pre)
		})
		if ex.Crashed() {
			st.Crash = "construct: " + ex.Panic
			st.Skipped = true
			return
		}
		if err != nil {
			st.ProdErr = err.Error()
			st.Skipped = true
			return
		}
		res.Triggered[i] = true
		out, perr := p.throughMiddleware(w, c.Flavour, mat, i, msg)
		if perr != nil {
			st.ProdErr = perr.Error()
		}
		before := len(msgs)
		st.coq = vh.CApp("Did", "VAccept", vh.CList(publish(i, out, &st)))
		if len(msgs) > before {
			shareMsg[i] = before
		}
	}
	deliver := func(mi, j int) {
		var st SimStep
		defer func() {
			if st.Skipped {
				st.coq = "SkipOp"
			}
			coqObs = append(coqObs, st.coq)
			res.Steps = append(res.Steps, st)
		}()
		if mi < 0 || mi >= len(msgs) || j < 0 || j >= total || msgs[mi].from == j || (j >= nn && msgs[mi].kind != "keys") {
			coqOps = append(coqOps, vh.CApp("OpDeliver", vh.CNat(mi), vh.CNat(j), "[]"))
			st.Skipped = true
			return
		}
		m := msgs[mi]
		if m.kind == "keys" {
			keysDone[[2]int{mi, j}] = true
		}
		st.Kind, st.From = m.kind, m.from
		topic := m.pm.Topic()
		verdict, ex := nodes[j].Combined(topic, topic, m.data)
		st.Verdict = verdict
		if ex.Crashed() {
			st.Crash = "validator: " + ex.Panic
		}
		perms := "[]"
		if verdict != "accept" {
			st.coq = vh.CApp("Did", CoqVres(verdict), "[]")
			coqOps = append(coqOps, vh.CApp("OpDeliver", vh.CNat(mi), vh.CNat(j), perms))
			return
		}
		st.accepted = true
		w := worlds[j]
		rec := &OrderRecorder{RNG: vh.NewRNG(uint64(len(coqOps))*131 + uint64(j))}
		w.Srv.SetRowOrder(rec.Order)
		h := nodes[j].Handle(m.pm)
		w.Srv.SetRowOrder(nil)
		if h.Exec.Crashed() {
			st.Crash += "handle: " + h.Exec.Panic
			if h.Exec.Timeout {
				st.Crash += "(no return within the watchdog time)"
			}
		}
		if ks, ok := m.pm.(*p2pmsg.DecryptionKeyShares); ok && j < nn {
			var ids []string
			for _, s := range ks.Shares {
				ids = append(ids, hex.EncodeToString(s.IdentityPreimage))
			}
			perms = w.PermsFor(ks.Eon, ids, rec)
			res.ForeignShares[j][m.from] = true
			distinct := len(res.ForeignShares[j])
			if res.Triggered[j] {
				distinct++
			}
			if distinct >= c.T {
				res.CompletedOwn[j] = true
			}
		} else if j < nn {
			res.GotKeys[j] = true
		}
		coqOps = append(coqOps, vh.CApp("OpDeliver", vh.CNat(mi), vh.CNat(j), perms))
		st.coq = vh.CApp("Did", "VAccept", vh.CList(publish(j, h.Out, &st)))
	}
	for _, op := range ops {
		switch op.K {
		case "T":
			trigger(op.Node, op.Ids, op.Slot, op.Txp)
		case "D":
			deliver(op.Msg, op.Node)
		case "S":
			mi, ok := shareMsg[op.From]
			if !ok {
				mi = len(msgs) // not published (yet): a no-op
			}
			deliver(mi, op.Node)
		case "K":
			for again := true; again; {
				again = false
				for mi := 0; mi < len(msgs); mi++ {
					if msgs[mi].kind != "keys" {
						continue
					}
					for j := 0; j < total; j++ {
						if j != msgs[mi].from && !keysDone[[2]int{mi, j}] {
							deliver(mi, j)
							again = true
						}
					}
				}
			}
		case "KA": // every keys message published so far goes to every node once more
			for mi, n0 := 0, len(msgs); mi < n0; mi++ {
				if msgs[mi].kind == "keys" {
					for j := 0; j < total; j++ {
						if j != msgs[mi].from {
							deliver(mi, j)
						}
					}
				}
			}
		default:
			panic("sim op " + op.K)
		}
	}
	res.Messages = len(msgs)

	// quiescence: the key table of every keyper
	var finals []string
	for i := 0; i < nn; i++ {
		var obs []SimKeyObs
		var rows []string
		for _, row := range worlds[i].Srv.Store().Table("decryption_key").Rows() {
			id := row["epoch_id"].([]byte)
			k := row["decryption_key"].([]byte)
			obs = append(obs, SimKeyObs{Eon: row["eon"].(int64), Ident: hex.EncodeToString(id), Key: hex.EncodeToString(k), Correct: p.keyCorrect(mat, id, k)})
			rows = append(rows, "("+vh.CZ(row["eon"].(int64))+", "+vh.CBytes(id)+", "+vh.CBytes(k)+")")
		}
		res.Keys = append(res.Keys, obs)
		finals = append(finals, vh.CList(rows))
	}

	// the model's inputs
	var knodes []string
	for i := 0; i < total; i++ {
		fl := CoqNode(c.Flavour)
		if i >= nn {
			fl = "NAccess"
		}
		knodes = append(knodes, vh.CApp("mkKNode", fl, states[i].Coq(mat), "[]", "[]"))
	}
	var shb, kb []string
	for _, id := range c.Idents {
		for k := 0; k < nn; k++ {
			shb = append(shb, "("+vh.CN(uint64(k))+", "+vh.CBytes(unhex(id))+", "+vh.CBytes(mat.Bytes(Val{Kind: "share", Set: 0, Keyper: k, Ident: id}))+")")
		}
		kb = append(kb, vh.CPair(vh.CBytes(unhex(id)), vh.CBytes(mat.Bytes(Val{Kind: "key", Set: 0, Ident: id}))))
	}
	res.Coq = strings.Join([]string{vh.CList(knodes), vh.CList(shb), vh.CList(kb), vh.CList(coqOps), vh.CList(coqObs), vh.CList(finals)}, " ")
	return res
}

// throughMiddleware hands the constructed message to the flavour's messaging middleware the
// way KeyShareHandler.handleEvent does (Messaging.SendMessage) and returns what the middleware
// passes on to the p2p layer.
func (p *SimPool) throughMiddleware(w *World, fl string, mat *Material, i int, msg *p2pmsg.DecryptionKeyShares) ([]p2pmsg.Message, error) {
	selfKey := &keys.ECDSAPrivate{Key: mat.Keys[i]}
	rec := &RecMessaging{}
	var err error
	switch fl {
	case "gnosis":
		cfg := &gnosis.Config{InstanceID: SimInst, MaxNumKeysPerMessage: SimMaxKeys,
			Gnosis: &gnosis.GnosisConfig{Node: &configuration.EthnodeConfig{PrivateKey: selfKey}, SecondsPerSlot: 5, GenesisSlotTimestamp: 1000}}
		err = gnosis.NewMessagingMiddleware(rec, w.Pool, cfg).SendMessage(w.Ctx, msg)
	case "service":
		cfg := &shutterservice.Config{InstanceID: SimInst, MaxNumKeysPerMessage: SimMaxKeys,
			Chain: &shutterservice.ChainConfig{Node: &configuration.EthnodeConfig{PrivateKey: selfKey}, Contracts: &shutterservice.ContractsConfig{}}}
		err = shutterservice.NewMessagingMiddleware(rec, w.Pool, cfg).SendMessage(w.Ctx, msg)
	default:
		return []p2pmsg.Message{msg}, nil
	}
	return rec.Sent, err
}

// DumpTable renders one table of world i (debugging aid).
func (p *SimPool) DumpTable(i int, table string) string {
	s := ""
	for _, r := range p.worlds[i].Srv.Store().Table(table).Rows() {
		s += fmt.Sprintf("%v\n", r)
	}
	return s
}
