//go:build verif

package gossipdrv

import (
	"context"
	"fmt"
	"runtime"
	"runtime/debug"
	"sort"
	"strings"
	"time"

	"github.com/ethereum/go-ethereum/common"
	"github.com/jackc/pgx/v4/pgxpool"
	pubsub "github.com/libp2p/go-libp2p-pubsub"
	pubsubpb "github.com/libp2p/go-libp2p-pubsub/pb"
	"github.com/libp2p/go-libp2p/core/peer"
	"github.com/shutter-network/shutter/shlib/puredkg"

	obskeyperdatabase "github.com/shutter-network/rolling-shutter/rolling-shutter/chainobserver/db/keyper"
	"github.com/shutter-network/rolling-shutter/rolling-shutter/gnosisaccessnode"
	"github.com/shutter-network/rolling-shutter/rolling-shutter/keyper/epochkghandler"
	"github.com/shutter-network/rolling-shutter/rolling-shutter/keyper/kprconfig"
	"github.com/shutter-network/rolling-shutter/rolling-shutter/keyperimpl/gnosis"
	"github.com/shutter-network/rolling-shutter/rolling-shutter/keyperimpl/primev"
	"github.com/shutter-network/rolling-shutter/rolling-shutter/keyperimpl/shutterservice"
	snapshotkeyper "github.com/shutter-network/rolling-shutter/rolling-shutter/keyperimpl/snapshot"
	"github.com/shutter-network/rolling-shutter/rolling-shutter/medley/broker"
	syncevent "github.com/shutter-network/rolling-shutter/rolling-shutter/medley/chainsync/event"
	"github.com/shutter-network/rolling-shutter/rolling-shutter/medley/configuration"
	"github.com/shutter-network/rolling-shutter/rolling-shutter/medley/encodeable/keys"
	"github.com/shutter-network/rolling-shutter/rolling-shutter/p2p"
	"github.com/shutter-network/rolling-shutter/rolling-shutter/p2pmsg"
	"github.com/shutter-network/rolling-shutter/rolling-shutter/shdb"

	"verifharness/pgfake"
	"verifharness/vh"
)

// Flavours, in the order of Model/GossipMisc.v `node`.
var Flavours = []string{"core", "gnosis", "service", "primev", "snapshot", "access"}

func CoqNode(fl string) string {
	switch fl {
	case "core":
		return "NCore"
	case "gnosis":
		return "NGnosis"
	case "service":
		return "NService"
	case "primev":
		return "NPrimev"
	case "snapshot":
		return "NSnapshot"
	case "access":
		return "NAccess"
	}
	panic("flavour " + fl)
}

// Topics known to the model; anything else is TpOther.
func CoqTopic(t string) string {
	switch t {
	case "decryptionKeyShares":
		return "TpShares"
	case "decryptionKeys":
		return "TpKeys"
	case "EonPublicKey":
		return "TpEonPK"
	case "decryptionTrigger":
		return "TpTrigger"
	case "primevCommitment":
		return "TpCommit"
	}
	return "TpOther"
}

var AllTopics = []string{"decryptionKeyShares", "decryptionKeys", "EonPublicKey", "decryptionTrigger", "primevCommitment"}

// World is one fake database plus the nodes built on it.
type World struct {
	Run   *vh.Run
	Srv   *pgfake.Server
	Pool  *pgxpool.Pool
	Empty *pgfake.Store
	Mat   *Material
	Ctx   context.Context

	nodes     map[string]*Node
	installed *State
	Timeout   time.Duration
	// NoMemStats switches the allocation measurement off (runtime.ReadMemStats stops the
	// world, which serialises simulations that run in parallel)
	NoMemStats bool
}

func NewWorld(run *vh.Run, mat *Material) *World {
	ctx := context.Background()
	srv, err := pgfake.Start(pgfake.Options{RepoRoot: run.Repo})
	if err != nil {
		panic(err)
	}
	pool, err := srv.Pool(ctx)
	if err != nil {
		panic(err)
	}
	for _, t := range srv.Ties() {
		run.Tie("pgfake: " + fmt.Sprint(t))
	}
	debug.SetMemoryLimit(256 << 20)
	return &World{Run: run, Srv: srv, Pool: pool, Empty: srv.Store().Snapshot(), Mat: mat, Ctx: ctx,
		nodes: map[string]*Node{}, Timeout: 20 * time.Second}
}

// Close reports what pgfake noticed while serving.
func (w *World) Close() {
	for _, i := range w.Srv.RuntimeIssues() {
		w.Run.Tie("pgfake runtime: " + i.String())
	}
	w.Pool.Close()
	w.Srv.Close()
}

func addrStr(m *Material, i int) string {
	if i < 0 {
		return BadAddrString
	}
	return m.AddrStr[i]
}

func addrStrs(m *Material, is []int) []string {
	out := make([]string, len(is))
	for i, k := range is {
		out[i] = addrStr(m, k)
	}
	return out
}

func (w *World) dkgBytes(d DkgRow) []byte {
	m := w.Mat
	res := &puredkg.Result{
		Eon: uint64(d.Eon), NumKeypers: uint64(m.N), Threshold: uint64(d.T), Keyper: uint64(d.Keyper),
		SecretKeyShare: m.Sets[d.Set].EonSecretKeyShare(d.Keyper % m.N),
		PublicKey:      m.Sets[d.Set].EonPublicKey(),
	}
	for i := 0; i < d.NShares; i++ {
		res.PublicKeyShares = append(res.PublicKeyShares, m.Sets[d.Set].EonPublicKeyShare(i%m.N))
	}
	b, err := shdb.EncodePureDKGResult(res)
	if err != nil {
		panic(err)
	}
	return b
}

// Install replaces the database content by the state.
func (w *World) Install(st *State) {
	w.Srv.SetStore(w.Empty)
	w.Srv.SetRowOrder(nil)
	s := w.Srv.Store()
	must := func(err error) {
		if err != nil {
			panic(fmt.Sprintf("install %s: %v", st.Name, err))
		}
	}
	for _, c := range st.Configs {
		must(s.Insert("tendermint_batch_config", pgfake.Row{"keyper_config_index": c.Kci, "height": int64(1),
			"keypers": addrStrs(w.Mat, c.Keypers), "threshold": int64(w.Mat.T), "started": true, "activation_block_number": int64(0)}))
	}
	for _, e := range st.Eons {
		must(s.Insert("eons", pgfake.Row{"eon": e.Eon, "height": int64(1), "activation_block_number": int64(0), "keyper_config_index": e.Kci}))
	}
	for _, d := range st.Dkg {
		switch d.Kind {
		case "ok":
			must(s.Insert("dkg_result", pgfake.Row{"eon": d.Eon, "success": true, "error": nil, "pure_result": w.dkgBytes(d)}))
		case "failed":
			must(s.Insert("dkg_result", pgfake.Row{"eon": d.Eon, "success": false, "error": "dkg failed", "pure_result": nil}))
		default:
			must(s.Insert("dkg_result", pgfake.Row{"eon": d.Eon, "success": true, "error": nil, "pure_result": []byte("not a gob stream")}))
		}
	}
	for _, k := range st.Keys {
		must(s.Insert("decryption_key", pgfake.Row{"eon": k.Eon, "epoch_id": unhex(k.Ident), "decryption_key": w.Mat.Bytes(k.Val)}))
	}
	for _, r := range st.Shares {
		must(s.Insert("decryption_key_share", pgfake.Row{"eon": r.Eon, "epoch_id": unhex(r.Ident), "keyper_index": r.Kidx,
			"decryption_key_share": w.Mat.Bytes(r.Val)}))
	}
	for _, k := range st.KSets {
		must(s.Insert("keyper_set", pgfake.Row{"keyper_config_index": k.Kci, "activation_block_number": int64(0),
			"keypers": addrStrs(w.Mat, k.Keypers), "threshold": int64(k.Threshold)}))
	}
	for _, c := range st.Collators {
		must(s.Insert("chain_collator", pgfake.Row{"activation_block_number": c.Act, "collator": addrStr(w.Mat, c.Addr)}))
	}
	w.installed = st
}

// ---------------------------------------------------------------------------------------------
// nodes

type Node struct {
	Flavour  string
	M        *p2p.P2PMessaging
	Direct   map[string]p2p.MessageHandler // the handler objects by model name (VsCoreShares ...)
	triggers chan *broker.Event[*epochkghandler.DecryptionTrigger]
	w        *World
}

func newMessaging() *p2p.P2PMessaging {
	cfg := p2p.NewConfig()
	if err := cfg.SetExampleValues(); err != nil {
		panic(err)
	}
	m, err := p2p.New(cfg)
	if err != nil {
		panic(err)
	}
	return m
}

// Node builds (or returns the cached) node of a flavour for the configuration part of the
// state (instance id, maximum number of keys, own key). The access node is rebuilt for every
// state: its storage is part of the state.
func (w *World) Node(fl string, st *State) *Node {
	key := fmt.Sprintf("%s/%d/%d/%d", fl, st.Inst, st.MaxKeys, st.Self)
	if fl == "access" {
		key += "/" + st.Name
	}
	if n, ok := w.nodes[key]; ok {
		return n
	}
	if len(w.nodes) > 400 {
		w.nodes = map[string]*Node{}
	}
	n := &Node{Flavour: fl, M: newMessaging(), Direct: map[string]p2p.MessageHandler{}, w: w,
		triggers: make(chan *broker.Event[*epochkghandler.DecryptionTrigger], 1<<16)}
	selfKey := &keys.ECDSAPrivate{Key: w.Mat.Keys[st.Self]}
	kcfg := &kprconfig.Config{InstanceID: st.Inst, MaxNumKeysPerMessage: st.MaxKeys,
		Ethereum: &configuration.EthnodeConfig{PrivateKey: selfKey}}
	// keyper.KeyperCore.Start: the three epochkghandler handlers, then the optional ones
	addCore := func(ms p2p.Messaging, opt ...p2p.MessageHandler) {
		hk := epochkghandler.NewDecryptionKeyHandler(kcfg, w.Pool)
		hs := epochkghandler.NewDecryptionKeyShareHandler(kcfg, w.Pool)
		he := epochkghandler.NewEonPublicKeyHandler(kcfg, w.Pool)
		n.Direct["VsCoreKeys"], n.Direct["VsCoreShares"], n.Direct["VsCoreEonPK"] = hk, hs, he
		ms.AddMessageHandler(hk, hs, he)
		ms.AddMessageHandler(opt...)
	}
	switch fl {
	case "core":
		addCore(n.M)
	case "gnosis":
		hs := gnosis.VerifGossipHandlers(w.Pool)
		n.Direct["VsGnosisShares"], n.Direct["VsGnosisKeys"] = hs[0], hs[1]
		n.M.AddMessageHandler(hs[0])
		n.M.AddMessageHandler(hs[1])
		gcfg := &gnosis.Config{InstanceID: st.Inst, MaxNumKeysPerMessage: st.MaxKeys,
			Gnosis: &gnosis.GnosisConfig{Node: &configuration.EthnodeConfig{PrivateKey: selfKey}, SecondsPerSlot: 5, GenesisSlotTimestamp: 1000}}
		addCore(gnosis.NewMessagingMiddleware(n.M, w.Pool, gcfg))
	case "service":
		hs := shutterservice.VerifGossipHandlers(w.Pool)
		n.Direct["VsServiceShares"], n.Direct["VsServiceKeys"] = hs[0], hs[1]
		n.M.AddMessageHandler(hs[0])
		n.M.AddMessageHandler(hs[1])
		scfg := &shutterservice.Config{InstanceID: st.Inst, MaxNumKeysPerMessage: st.MaxKeys,
			Chain: &shutterservice.ChainConfig{Node: &configuration.EthnodeConfig{PrivateKey: selfKey}, Contracts: &shutterservice.ContractsConfig{}}}
		addCore(shutterservice.NewMessagingMiddleware(n.M, w.Pool, scfg))
	case "primev":
		pcfg := &primev.Config{InstanceID: st.Inst, MaxNumKeysPerMessage: st.MaxKeys}
		h := primev.VerifGossipHandler(pcfg, n.triggers, w.Pool)
		n.Direct["VsCommit"] = h
		n.M.AddMessageHandler(h)
		addCore(n.M)
	case "snapshot":
		scfg := snapshotkeyper.Config{InstanceID: st.Inst, MaxNumKeysPerMessage: st.MaxKeys}
		h := snapshotkeyper.NewDecryptionTriggerHandler(scfg, w.Pool, n.triggers)
		n.Direct["VsTrigger"] = h
		addCore(n.M, h)
	case "access":
		acfg := &gnosisaccessnode.Config{InstanceID: st.Inst, MaxNumKeysPerMessage: st.MaxKeys}
		viaCallbacks := true
		for _, a := range st.AnKSets {
			for _, k := range a.Keypers {
				if k < 0 {
					viaCallbacks = false // an entry that is not an address cannot come from a keyper set event
				}
			}
		}
		var h p2p.MessageHandler
		if viaCallbacks {
			// the state is built through the node's own chain sync callbacks, in the order the state names
			an := gnosisaccessnode.New(acfg)
			addKeys := func() {
				for _, a := range st.AnKeys {
					if err := an.VerifOnNewEonKey(w.Ctx, &syncevent.EonPublicKey{Eon: a.Eon, Key: w.Mat.Sets[a.Set].EonPublicKey().Marshal()}); err != nil {
						panic(err)
					}
				}
			}
			addSets := func() {
				for _, a := range st.AnKSets {
					var members []common.Address
					for _, k := range a.Keypers {
						members = append(members, w.Mat.Addrs[k])
					}
					if err := an.VerifOnNewKeyperSet(w.Ctx, &syncevent.KeyperSet{Eon: a.Eon, Members: members, Threshold: uint64(a.Threshold)}); err != nil {
						panic(err)
					}
				}
			}
			if st.AnKeysFirst {
				addKeys()
				addSets()
			} else {
				addSets()
				addKeys()
			}
			if st.AnSetsAgain {
				addSets()
			}
			h = an.VerifDecryptionKeysHandler()
		} else {
			storage := gnosisaccessnode.NewStorage()
			for _, a := range st.AnKeys {
				storage.AddEonKey(a.Eon, w.Mat.Sets[a.Set].EonPublicKey())
			}
			for _, a := range st.AnKSets {
				storage.AddKeyperSet(a.Eon, &obskeyperdatabase.KeyperSet{KeyperConfigIndex: int64(a.Eon),
					Keypers: addrStrs(w.Mat, a.Keypers), Threshold: a.Threshold})
			}
			h = gnosisaccessnode.NewDecryptionKeysHandler(acfg, storage)
		}
		n.Direct["VsAccessKeys"] = h
		n.M.AddMessageHandler(h)
	default:
		panic("flavour " + fl)
	}
	w.nodes[key] = n
	return n
}

// DirectNames lists the validators of the node in the model's naming, sorted.
func (n *Node) DirectNames() []string {
	out := []string{}
	for k := range n.Direct {
		out = append(out, k)
	}
	sort.Strings(out)
	return out
}

// ---------------------------------------------------------------------------------------------
// guarded execution

// Exec is the result of one guarded call.
type Exec struct {
	Panic   string `json:"panic,omitempty"`
	Timeout bool   `json:"timeout,omitempty"`
	Alloc   uint64 `json:"alloc,omitempty"` // bytes allocated by the process during the call
	Stmts   int    `json:"stmts"`           // SQL statements executed by the database during the call
}

func (e Exec) Crashed() bool { return e.Panic != "" || e.Timeout }

// guard runs f under recover() with a watchdog and measures allocation and statements.
func (w *World) guard(f func()) Exec {
	var ms0, ms1 runtime.MemStats
	w.Srv.ResetCounters()
	if !w.NoMemStats {
		runtime.ReadMemStats(&ms0)
	}
	done := make(chan string, 1)
	go func() {
		defer func() {
			if e := recover(); e != nil {
				done <- "panic: " + fmt.Sprint(e)
				return
			}
			done <- ""
		}()
		f()
	}()
	var ex Exec
	select {
	case p := <-done:
		ex.Panic = p
	case <-time.After(w.Timeout):
		ex.Timeout = true
	}
	if !w.NoMemStats {
		runtime.ReadMemStats(&ms1)
		ex.Alloc = ms1.TotalAlloc - ms0.TotalAlloc
	}
	ex.Stmts = w.execCount()
	return ex
}

// GuardCall runs f under recover(), the watchdog and the allocation measurement.
func (w *World) GuardCall(f func()) Exec { return w.guard(f) }

func (w *World) execCount() int {
	n := 0
	for _, e := range w.Srv.MsgLog() {
		if e.Kind == "Execute" {
			n++
		}
	}
	return n
}

// PubsubMessage wraps bytes the way libp2p hands them to a topic validator.
func PubsubMessage(topic string, data []byte) *pubsub.Message {
	t := topic
	return &pubsub.Message{Message: &pubsubpb.Message{Data: data, Topic: &t, From: []byte("verif-peer")}, ReceivedFrom: peer.ID("verif-peer")}
}

// Combined runs the validator libp2p would run for messages on regTopic; msgTopic is the topic
// field of the message itself.
func (n *Node) Combined(regTopic, msgTopic string, data []byte) (string, Exec) {
	v := n.M.VerifCombinedValidator(regTopic)
	var res pubsub.ValidationResult
	ex := n.w.guard(func() { res = v(n.w.Ctx, peer.ID("verif-peer"), PubsubMessage(msgTopic, data)) })
	switch {
	case ex.Timeout:
		return "timeout", ex
	case ex.Panic != "":
		return "panic", ex
	case res == pubsub.ValidationAccept:
		return "accept", ex
	case res == pubsub.ValidationReject:
		return "reject", ex
	case res == pubsub.ValidationIgnore:
		return "ignore", ex
	}
	return fmt.Sprintf("other(%d)", res), ex
}

func CoqVres(s string) string {
	switch s {
	case "accept":
		return "VAccept"
	case "reject":
		return "VReject"
	case "ignore":
		return "VIgnore"
	}
	return "VPanic"
}

// DirectResult is what one handler's ValidateMessage returned.
type DirectResult struct {
	Verdict string `json:"verdict"` // accept | reject | panic | timeout | other
	Reason  string `json:"reason,omitempty"`
	Err     string `json:"err,omitempty"`
	Exec    Exec   `json:"exec"`
}

// ValidateDirect calls the handler's ValidateMessage on an in-memory message.
func (n *Node) ValidateDirect(which string, msg p2pmsg.Message) DirectResult {
	h := n.Direct[which]
	var res pubsub.ValidationResult
	var err error
	ex := n.w.guard(func() { res, err = h.ValidateMessage(n.w.Ctx, msg) })
	out := DirectResult{Exec: ex}
	switch {
	case ex.Timeout:
		out.Verdict = "timeout"
	case ex.Panic != "":
		out.Verdict = "panic"
		out.Err = ex.Panic
	case res == pubsub.ValidationAccept:
		out.Verdict = "accept"
		if err != nil {
			n.w.Run.Tie(which + ": Accept returned together with an error: " + err.Error())
		}
	case res == pubsub.ValidationReject:
		out.Verdict = "reject"
		if err != nil {
			out.Err = err.Error()
		}
		out.Reason = classify(which, out.Err)
		if out.Reason == "" {
			n.w.Run.Tie(which + ": unclassified rejection: " + out.Err)
			out.Reason = "GS RExtraType"
		}
	default:
		out.Verdict = fmt.Sprintf("other(%d)", res)
	}
	return out
}

func (d DirectResult) Coq() string {
	switch d.Verdict {
	case "accept":
		return "GAccept"
	case "reject":
		return "(GReject (" + d.Reason + "))"
	}
	return "GPanic"
}

// classify maps the rejection text of one validator to the model's reason.
func classify(which, err string) string {
	has := func(s string) bool { return strings.Contains(err, s) }
	gs := func(r string) string { return "GS " + r }
	switch which {
	case "VsCoreShares", "VsCoreKeys":
		switch {
		case err == "":
			return "GNotKeyper"
		case has("instance ID mismatch"):
			return gs("RInstance")
		case has("overflows int64"), has("overflow error while converting eon"):
			return gs("REonOverflow")
		case has("failed to get config"):
			return "GNoBatchConfig"
		case has("no DKG result found"):
			return "GNoDkg"
		case has("no successful DKG result"):
			return "GDkgFailed"
		case has("error while decoding pure DKG result"):
			return "GDkgDecode"
		case has("no key shares in message"), has("no keys in message"):
			return gs("RNoKeysCommon")
		case has("too many key shares in message"), has("too many keys in message"):
			return gs("RTooManyKeys")
		case has("failed to unmarshal decryption key"):
			return gs("RKeyDecode")
		case has("cannot verify secret key share"):
			return "GShareInvalid"
		case has("not ordered"):
			return gs("RKeysUnordered")
		case has("epoch secret key for identity"):
			return gs("RKeyInvalid")
		case has("keyper index") && has("out of range"):
			return "GSenderRange"
		}
	case "VsCoreEonPK":
		if has("instance ID mismatch") {
			return gs("RInstance")
		}
	case "VsGnosisShares", "VsServiceShares", "VsGnosisKeys", "VsServiceKeys", "VsAccessKeys":
		switch {
		case has("expected one signature per signer"):
			return gs("RSigCount")
		case has("signers, got"):
			return gs("RSignerCount")
		case has("duplicate signer index"):
			return gs("RDuplicate")
		case has("signer indices not ordered"):
			return gs("RUnordered")
		case has("signer index out of range"):
			return gs("ROutOfRange")
		case has("out of range for keyper set"):
			return gs("ROutOfRange")
		case has("keyper index") && has("out of range"), has("failed to decode keyper address"), has("not an address"), has("invalid address"):
			return gs("RSubset")
		case has("signature data object"):
			return gs("RTooManyIds")
		case has("failed to check"):
			return gs("RCheckError")
		case has("signature invalid"):
			return gs("RInvalidSig")
		case has("unexpected extra type"):
			return gs("RExtraType")
		case has("missing extra"):
			return gs("RExtraNil")
		case has("slot number too large"):
			return gs("RSlotTooLarge")
		case has("tx pointer too large"):
			return gs("RTxpTooLarge")
		case has("msg does not contain any keys"):
			return gs("RNoKeys")
		case has("failed to get keyper set from database"), has("no keyper set found"):
			return gs("RNoKeyperSet")
		case has("instance ID mismatch"):
			return gs("RInstance")
		case has("overflows int64"):
			return gs("REonOverflow")
		case has("no keys in message"):
			return gs("RNoKeysCommon")
		case has("too many keys in message"):
			return gs("RTooManyKeys")
		case has("no eon key found"):
			return gs("RNoEonKey")
		case has("failed to unmarshal decryption key"):
			return gs("RKeyDecode")
		case has("epoch secret key for identity"):
			return gs("RKeyInvalid")
		case has("keys not ordered"):
			return gs("RKeysUnordered")
		}
	case "VsTrigger":
		switch {
		case has("instance ID mismatch"):
			return gs("RInstance")
		case has("overflows int64"):
			return "GBlockOverflow"
		case has("no collator for given block"):
			return "GNoCollator"
		case has("error while converting collator"):
			return "GCollatorDecode"
		case has("error while verifying decryption trigger signature"):
			return "GTriggerSigError"
		case has("signature invalid"):
			return "GTriggerSigInvalid"
		}
	case "VsCommit":
		switch {
		case has("unexpected type"):
			return gs("RExtraType")
		case has("number of identities"):
			return "GCommitLens"
		case has("instance ID mismatch"):
			return gs("RInstance")
		}
	}
	return ""
}

// HandleResult is what P2PMessaging.Handle did with a decoded message.
type HandleResult struct {
	Out  []p2pmsg.Message `json:"-"`
	Err  string           `json:"err,omitempty"`
	Exec Exec             `json:"exec"`
}

// Handle runs the exported P2PMessaging.Handle (all handler functions of the message's type).
func (n *Node) Handle(msg p2pmsg.Message) HandleResult {
	var out []p2pmsg.Message
	var err error
	ex := n.w.guard(func() { out, err = n.M.Handle(n.w.Ctx, msg) })
	n.drain()
	r := HandleResult{Out: out, Exec: ex}
	if err != nil {
		r.Err = err.Error()
	}
	return r
}

// HandleRaw runs the unexported handle on a pubsub message (unmarshal, Handle, SendMessage of
// the results on a node that is not connected).
func (n *Node) HandleRaw(topic string, data []byte) (string, Exec) {
	var err error
	ex := n.w.guard(func() { err = n.M.VerifHandlePubsubMessage(n.w.Ctx, PubsubMessage(topic, data)) })
	n.drain()
	if err != nil {
		return err.Error(), ex
	}
	return "", ex
}

func (n *Node) drain() {
	for {
		select {
		case <-n.triggers:
		default:
			return
		}
	}
}

func CoqHres(ex Exec) string {
	if ex.Crashed() {
		return "HCrash"
	}
	return "HFin"
}

// Dump is the canonical rendering of the whole database (for "nothing was stored").
func (w *World) Dump() string { return w.Srv.Store().Dump() }
