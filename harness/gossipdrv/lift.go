//go:build verif

package gossipdrv

import (
	"github.com/ethereum/go-ethereum/common"
	"github.com/ethereum/go-ethereum/crypto"
	"github.com/shutter-network/shutter/shlib/shcrypto"
	"google.golang.org/protobuf/proto"

	"github.com/shutter-network/rolling-shutter/rolling-shutter/keyperimpl/gnosis/gnosisssztypes"
	"github.com/shutter-network/rolling-shutter/rolling-shutter/keyperimpl/shutterservice/serviceztypes"
	"github.com/shutter-network/rolling-shutter/rolling-shutter/medley/identitypreimage"
	"github.com/shutter-network/rolling-shutter/rolling-shutter/p2pmsg"

	"verifharness/vh"
)

// This file turns an arbitrary decoded p2pmsg message (for instance one that came out of
// mutated bytes) into the model's record: group elements and signatures are classified
// against the material.

// LabelOfBytes classifies share / key bytes found next to identity ident.
func (m *Material) LabelOfBytes(ident, b []byte) string {
	if err := new(shcrypto.EpochSecretKeyShare).Unmarshal(b); err != nil {
		return "None"
	}
	idh := hexOf(ident)
	for set := 0; set < 2; set++ {
		if string(m.Bytes(Val{Kind: "key", Set: set, Ident: idh})) == string(b) {
			return vh.CSome(vh.CApp("LKey", vh.CN(uint64(set)), vh.CBytes(ident)))
		}
		for k := 0; k < m.N; k++ {
			if string(m.Bytes(Val{Kind: "share", Set: set, Keyper: k, Ident: idh})) == string(b) {
				return vh.CSome(vh.CApp("LShare", vh.CN(uint64(set)), vh.CN(uint64(k)), vh.CBytes(ident)))
			}
		}
	}
	return vh.CSome("LOther")
}

func (m *Material) liftKV(ident, b []byte) string {
	return vh.CApp("mkKV", vh.CBytes(b), m.LabelOfBytes(ident, b))
}

// liftSig classifies signature bytes relative to the data they would have to be over.
func (m *Material) liftSig(sig []byte, t *Tuple) string {
	var root [32]byte
	var err error
	if !t.Hashable() {
		// the repository cannot hash the data: CheckSignature fails before looking at the
		// signature; any label gives the same verdict
		return "SigStray"
	}
	if t.Flavour == "gnosis" {
		var d *gnosisssztypes.SlotDecryptionSignatureData
		d, err = gnosisssztypes.NewSlotDecryptionSignatureData(t.Inst, t.Eon, t.Slot, t.Txp, preimages(t.Ids))
		if err == nil {
			root, err = d.HashTreeRoot()
		}
	} else {
		var d *serviceztypes.DecryptionSignatureData
		d, err = serviceztypes.NewDecryptionSignatureData(t.Inst, t.Eon, preimages(t.Ids))
		if err == nil {
			root, err = d.HashTreeRoot()
		}
	}
	if err != nil {
		return "SigStray"
	}
	pk, err := crypto.SigToPub(root[:], sig)
	if err != nil {
		return "SigMalformed"
	}
	a := crypto.PubkeyToAddress(*pk)
	for i, x := range m.Addrs {
		if x == a {
			return vh.CApp("SigBy", vh.CN(uint64(i)), coqTuple(t))
		}
	}
	return "SigStray"
}

func (m *Material) liftSigs(sigs [][]byte, t *Tuple) string {
	xs := make([]string, len(sigs))
	for i, s := range sigs {
		xs[i] = m.liftSig(s, t)
	}
	return vh.CList(xs)
}

// Lift renders a decoded message as the model's gmsg; ok=false for a message type the model
// does not know.
func (m *Material) Lift(msg p2pmsg.Message) (string, bool) {
	switch x := msg.(type) {
	case *p2pmsg.DecryptionKeyShares:
		items := make([]string, len(x.Shares))
		ids := make([]string, len(x.Shares))
		for i, s := range x.Shares {
			items[i] = vh.CPair(vh.CBytes(s.GetIdentityPreimage()), m.liftKV(s.GetIdentityPreimage(), s.GetShare()))
			ids[i] = hexOf(s.GetIdentityPreimage())
		}
		ex := "SxNone"
		switch e := x.Extra.(type) {
		case *p2pmsg.DecryptionKeyShares_Gnosis:
			if e.Gnosis == nil {
				ex = "SxGnosisNil"
			} else {
				t := &Tuple{Flavour: "gnosis", Inst: x.InstanceId, Eon: x.Eon, Slot: e.Gnosis.Slot, Txp: e.Gnosis.TxPointer, Ids: ids}
				ex = vh.CApp("SxGnosis", vh.CN(e.Gnosis.Slot), vh.CN(e.Gnosis.TxPointer), m.liftSig(e.Gnosis.Signature, t))
			}
		case *p2pmsg.DecryptionKeyShares_Service:
			if e.Service == nil {
				ex = "SxServiceNil"
			} else {
				t := &Tuple{Flavour: "service", Inst: x.InstanceId, Eon: x.Eon, Ids: ids}
				ex = vh.CApp("SxService", m.liftSig(e.Service.Signature, t))
			}
		case *p2pmsg.DecryptionKeyShares_Optimism:
			ex = "SxOptimism"
		}
		return vh.CApp("MShares", vh.CApp("mkSharesMsg", vh.CN(x.InstanceId), vh.CN(x.Eon), vh.CN(x.KeyperIndex), vh.CList(items), ex)), true
	case *p2pmsg.DecryptionKeys:
		items := make([]string, len(x.Keys))
		ids := make([]string, len(x.Keys))
		for i, k := range x.Keys {
			items[i] = vh.CPair(vh.CBytes(k.GetIdentityPreimage()), m.liftKV(k.GetIdentityPreimage(), k.GetKey()))
			ids[i] = hexOf(k.GetIdentityPreimage())
		}
		ex := "KxNone"
		switch e := x.Extra.(type) {
		case *p2pmsg.DecryptionKeys_Gnosis:
			if e.Gnosis == nil {
				ex = "KxGnosisNil"
			} else {
				t := &Tuple{Flavour: "gnosis", Inst: x.InstanceId, Eon: x.Eon, Slot: e.Gnosis.Slot, Txp: e.Gnosis.TxPointer, Ids: ids}
				ex = vh.CApp("KxGnosis", vh.CN(e.Gnosis.Slot), vh.CN(e.Gnosis.TxPointer), vh.CNList(e.Gnosis.SignerIndices), m.liftSigs(e.Gnosis.Signatures, t))
			}
		case *p2pmsg.DecryptionKeys_Service:
			if e.Service == nil {
				ex = "KxServiceNil"
			} else {
				t := &Tuple{Flavour: "service", Inst: x.InstanceId, Eon: x.Eon, Ids: ids}
				ex = vh.CApp("KxService", vh.CNList(e.Service.SignerIndices), m.liftSigs(e.Service.Signature, t))
			}
		case *p2pmsg.DecryptionKeys_Optimism:
			ex = "KxOptimism"
		}
		return vh.CApp("MKeys", vh.CApp("mkKeysMsg", vh.CN(x.InstanceId), vh.CN(x.Eon), vh.CList(items), ex)), true
	case *p2pmsg.EonPublicKey:
		return vh.CApp("MEonPK", vh.CApp("mkEonPK", vh.CN(x.InstanceId))), true
	case *p2pmsg.DecryptionTrigger:
		sg := "TsStray"
		a, err := p2pmsg.RecoverAddress(x)
		if err != nil {
			sg = "TsMalformed"
		} else {
			for i, y := range m.Addrs {
				if y == a {
					sg = vh.CApp("TsBy", vh.CN(uint64(i)))
				}
			}
		}
		return vh.CApp("MTrigger", vh.CApp("mkTrigger", vh.CN(x.InstanceId), vh.CN(x.BlockNumber), sg)), true
	case *p2pmsg.Commitment:
		return vh.CApp("MCommit", vh.CApp("mkCommit", vh.CN(x.InstanceId), vh.CNat(len(x.Identities)), vh.CNat(len(x.TxHashes)),
			vh.CNat(len(common.FromHex(x.ReceivedBidSignature))))), true
	}
	return "", false
}

// DecodeWire reproduces the steps of p2pmsg.Unmarshal with the repository's own protobuf
// types and reports what the decoder produced: the model's `wire`, and the message if there
// is one.
func (m *Material) DecodeWire(data []byte) (string, p2pmsg.Message) {
	env := &p2pmsg.Envelope{}
	if err := proto.Unmarshal(data, env); err != nil {
		return "WGarbage", nil
	}
	version := vh.CBytes([]byte(env.GetVersion()))
	inner, err := env.GetMessage().UnmarshalNew()
	if err != nil {
		return vh.CApp("WEnv", version, "PNone"), nil
	}
	pm, ok := inner.(p2pmsg.Message)
	if !ok {
		return vh.CApp("WEnv", version, "PNone"), nil
	}
	term, known := m.Lift(pm)
	if !known {
		return vh.CApp("WEnv", version, "PNone"), nil
	}
	return vh.CApp("WEnv", version, vh.CApp("PMsg", term)), pm
}

var _ = identitypreimage.IdentityPreimage(nil)
