//go:build verif

package appdrv

import (
	"fmt"
	"reflect"
	"sort"
	"strings"

	"github.com/shutter-network/rolling-shutter/rolling-shutter/app"
)

// DeepState renders EVERY exported field reachable from the application (reflection: structs,
// pointers, maps with sorted keys, slices) except the top-level fields named in skip; nil and
// empty maps / slices render alike (gob does not distinguish them). Unlike StateString it needs
// no knowledge of the fields, so state that a change adds or fills differently (an entry with
// an empty value, a new cache) shows up too.
func DeepState(a *app.ShutterApp, skip ...string) string {
	var sb strings.Builder
	sk := map[string]bool{}
	for _, s := range skip {
		sk[s] = true
	}
	v := reflect.ValueOf(a).Elem()
	t := v.Type()
	for i := 0; i < t.NumField(); i++ {
		f := t.Field(i)
		if !f.IsExported() || sk[f.Name] {
			continue
		}
		sb.WriteString(f.Name)
		sb.WriteString("=")
		deep(&sb, v.Field(i), 0)
		sb.WriteString("\n")
	}
	return sb.String()
}

func deep(sb *strings.Builder, v reflect.Value, depth int) {
	if depth > 12 {
		sb.WriteString("<deep>")
		return
	}
	switch v.Kind() {
	case reflect.Ptr, reflect.Interface:
		if v.IsNil() {
			sb.WriteString("nil")
			return
		}
		deep(sb, v.Elem(), depth+1)
	case reflect.Struct:
		t := v.Type()
		exported := 0
		for i := 0; i < t.NumField(); i++ {
			if t.Field(i).IsExported() {
				exported++
			}
		}
		if exported == 0 && t.NumField() > 0 {
			// opaque (big.Int, time.Time ...): its printed form
			if v.CanInterface() {
				fmt.Fprintf(sb, "%v", v.Interface())
			} else {
				sb.WriteString("<opaque>")
			}
			return
		}
		sb.WriteString("{")
		for i := 0; i < t.NumField(); i++ {
			if !t.Field(i).IsExported() {
				continue
			}
			sb.WriteString(t.Field(i).Name)
			sb.WriteString(":")
			deep(sb, v.Field(i), depth+1)
			sb.WriteString(" ")
		}
		sb.WriteString("}")
	case reflect.Map:
		var items []string
		iter := v.MapRange()
		for iter.Next() {
			var kb, vb strings.Builder
			deep(&kb, iter.Key(), depth+1)
			deep(&vb, iter.Value(), depth+1)
			items = append(items, kb.String()+"->"+vb.String())
		}
		sort.Strings(items)
		sb.WriteString("map[" + strings.Join(items, ", ") + "]")
	case reflect.Slice, reflect.Array:
		if v.Type().Elem().Kind() == reflect.Uint8 {
			sb.WriteString("0x")
			for i := 0; i < v.Len(); i++ {
				fmt.Fprintf(sb, "%02x", v.Index(i).Uint())
			}
			return
		}
		sb.WriteString("[")
		for i := 0; i < v.Len(); i++ {
			deep(sb, v.Index(i), depth+1)
			sb.WriteString(" ")
		}
		sb.WriteString("]")
	case reflect.String:
		fmt.Fprintf(sb, "%q", v.String())
	case reflect.Bool:
		fmt.Fprintf(sb, "%v", v.Bool())
	case reflect.Int, reflect.Int8, reflect.Int16, reflect.Int32, reflect.Int64:
		fmt.Fprintf(sb, "%d", v.Int())
	case reflect.Uint, reflect.Uint8, reflect.Uint16, reflect.Uint32, reflect.Uint64, reflect.Uintptr:
		fmt.Fprintf(sb, "%d", v.Uint())
	default:
		fmt.Fprintf(sb, "<%s>", v.Kind())
	}
}
