//go:build verif

// Package appdrv drives the real shuttermint application (rolling-shutter/app) through its
// ABCI methods and renders genesis, calls, responses and a state projection as Coq terms of
// Verif.Model.App / Verif.Corr.App. It is shared by the drivers of C09..C13.
package appdrv

import (
	"bytes"
	"crypto/ecdsa"
	"encoding/base64"
	"fmt"
	"math/big"
	"os"
	"sort"
	"strings"

	"github.com/ethereum/go-ethereum/common"
	"github.com/ethereum/go-ethereum/crypto"
	"github.com/rs/zerolog"
	blst "github.com/supranational/blst/bindings/go"
	"github.com/tendermint/go-amino"
	abcitypes "github.com/tendermint/tendermint/abci/types"
	tmcrypto "github.com/tendermint/tendermint/proto/tendermint/crypto"
	tmproto "github.com/tendermint/tendermint/proto/tendermint/types"
	"google.golang.org/protobuf/proto"

	"github.com/shutter-network/rolling-shutter/rolling-shutter/app"
	"github.com/shutter-network/rolling-shutter/rolling-shutter/keyper/shutterevents"
	"github.com/shutter-network/rolling-shutter/rolling-shutter/shmsg"

	"verifharness/vh"
)

// only fatal log lines are shown (a log.Fatal inside the application ends the driver: it must be visible)
func init() {
	zerolog.SetGlobalLevel(zerolog.FatalLevel)
	if os.Getenv("VERIF_LOG") != "" {
		zerolog.SetGlobalLevel(zerolog.InfoLevel)
	}
}

// ---------------------------------------------------------------------------------------
// universe: a fixed small set of keys (derived deterministically, independent of the seed)

type Universe struct {
	Keys    []*ecdsa.PrivateKey
	Addrs   []common.Address
	ValKeys [][]byte // 32-byte validator keys
	EncKeys [][]byte // valid compressed secp256k1 public keys
	Gammas  [][]byte // valid compressed G2 points
}

func NewUniverse(n int) *Universe {
	u := &Universe{}
	for i := 0; i < n; i++ {
		d := new(big.Int).SetBytes(crypto.Keccak256([]byte(fmt.Sprintf("verif-key-%d", i))))
		k, err := crypto.ToECDSA(common.LeftPadBytes(d.Bytes(), 32))
		if err != nil {
			panic(err)
		}
		u.Keys = append(u.Keys, k)
		u.Addrs = append(u.Addrs, crypto.PubkeyToAddress(k.PublicKey))
		vk := crypto.Keccak256([]byte(fmt.Sprintf("verif-valkey-%d", i)))
		u.ValKeys = append(u.ValKeys, vk)
		u.EncKeys = append(u.EncKeys, crypto.CompressPubkey(&k.PublicKey))
	}
	for i := 0; i < 4; i++ {
		sc := new(blst.Scalar).FromBEndian(common.LeftPadBytes([]byte{byte(i + 1)}, 32))
		p := blst.P2Generator().Mult(sc).ToAffine()
		u.Gammas = append(u.Gammas, p.Compress())
	}
	return u
}

// ---------------------------------------------------------------------------------------
// histories

type KV struct {
	K []byte `json:"k"`
	P int64  `json:"p"`
}

type Genesis struct {
	Keypers     [][]byte `json:"keypers"` // 20-byte addresses
	Threshold   uint64   `json:"threshold"`
	InitialEon  uint64   `json:"initial_eon"`
	ForkEnabled bool     `json:"fork_enabled"`
	ForkHeight  int64    `json:"fork_height"`
	ForkNil     bool     `json:"fork_nil"` // genesis without forkHeights (migrated to all-disabled)
	// genesis written in the legacy format: only forkHeights.checkInUpdate = ForkHeight is set;
	// InitChain (and every load) migrates it to "enabled at that height"
	ForkLegacy bool   `json:"fork_legacy,omitempty"`
	Validators []KV   `json:"validators"`
	ChainID    string `json:"chain_id"`
	DevMode    bool   `json:"dev_mode"`
}

type Call struct {
	Kind   string `json:"kind"` // begin | check | deliver | end | commit
	Height int64  `json:"height,omitempty"`
	Tx     []byte `json:"tx,omitempty"`
	Note   string `json:"note,omitempty"` // generator's description (not used by the run)
}

type History struct {
	Genesis Genesis `json:"genesis"`
	Calls   []Call  `json:"calls"`
}

// ---------------------------------------------------------------------------------------
// canonical responses

type Ev struct {
	T      string   `json:"t"`
	Sender []byte   `json:"sender,omitempty"`
	Eon    uint64   `json:"eon,omitempty"`
	Act    uint64   `json:"act,omitempty"`
	Thr    uint64   `json:"thr,omitempty"`
	Idx    uint64   `json:"idx,omitempty"`
	Addrs  [][]byte `json:"addrs,omitempty"`
	Blobs  [][]byte `json:"blobs,omitempty"`
	Key    []byte   `json:"key,omitempty"`
	Raw    string   `json:"raw,omitempty"` // set when the event could not be decoded
}

type Resp struct {
	Kind    string `json:"kind"`
	Code    uint32 `json:"code"`
	Events  []Ev   `json:"events,omitempty"`
	Updates []KV   `json:"updates,omitempty"`
	Panic   string `json:"panic,omitempty"`
}

func (r Resp) Key() string { return fmt.Sprintf("%+v", r) }

// NewApp builds a fresh application and runs InitChain with the given genesis.
func NewApp(g Genesis) (*app.ShutterApp, error) {
	a := app.NewShutterApp()
	a.DevMode = g.DevMode
	keypers := []common.Address{}
	for _, k := range g.Keypers {
		keypers = append(keypers, common.BytesToAddress(k))
	}
	var fh *app.ForkHeights
	if g.ForkLegacy {
		h := g.ForkHeight
		fh = &app.ForkHeights{CheckInUpdate: &h}
	} else if !g.ForkNil {
		fh = &app.ForkHeights{CheckInUpdateNew: app.ForkHeight{Enabled: g.ForkEnabled, Height: g.ForkHeight}}
	}
	gs := app.NewGenesisAppState(keypers, int(g.Threshold), g.InitialEon, fh)
	gs.Threshold = g.Threshold
	bs, err := amino.NewCodec().MarshalJSON(gs)
	if err != nil {
		return nil, err
	}
	var vals []abcitypes.ValidatorUpdate
	for _, v := range g.Validators {
		vals = append(vals, abcitypes.ValidatorUpdate{
			Power:  v.P,
			PubKey: tmcrypto.PublicKey{Sum: &tmcrypto.PublicKey_Ed25519{Ed25519: v.K}},
		})
	}
	a.InitChain(abcitypes.RequestInitChain{ChainId: g.ChainID, Validators: vals, AppStateBytes: bs})
	return a, nil
}

func convEvents(evs []abcitypes.Event) []Ev {
	var out []Ev
	for _, e := range evs {
		out = append(out, convEvent(e))
	}
	return out
}

func addrBytes(as []common.Address) [][]byte {
	out := [][]byte{}
	for _, a := range as {
		out = append(out, a.Bytes())
	}
	return out
}

func convEvent(e abcitypes.Event) Ev {
	ie, err := shutterevents.MakeEvent(e, 0)
	if err != nil {
		return Ev{T: "undecodable", Raw: fmt.Sprintf("%v: %v", e, err)}
	}
	switch x := ie.(type) {
	case *shutterevents.CheckIn:
		return Ev{T: "checkin", Sender: x.Sender.Bytes(), Key: crypto.CompressPubkey(x.EncryptionPublicKey.ExportECDSA())}
	case *shutterevents.BatchConfig:
		return Ev{T: "batchconfig", Act: x.ActivationBlockNumber, Thr: x.Threshold, Addrs: addrBytes(x.Keypers), Idx: x.KeyperConfigIndex}
	case *shutterevents.BatchConfigStarted:
		return Ev{T: "started", Idx: x.KeyperConfigIndex}
	case *shutterevents.EonStarted:
		return Ev{T: "eonstarted", Eon: x.Eon, Act: x.ActivationBlockNumber, Idx: x.KeyperConfigIndex}
	case *shutterevents.PolyEval:
		return Ev{T: "polyeval", Sender: x.Sender.Bytes(), Eon: x.Eon, Addrs: addrBytes(x.Receivers), Blobs: nz(x.EncryptedEvals)}
	case *shutterevents.PolyCommitment:
		bl := [][]byte{}
		for _, g := range *x.Gammas {
			bl = append(bl, g.Compress())
		}
		return Ev{T: "polycommitment", Sender: x.Sender.Bytes(), Eon: x.Eon, Blobs: bl}
	case *shutterevents.Accusation:
		return Ev{T: "accusation", Sender: x.Sender.Bytes(), Eon: x.Eon, Addrs: addrBytes(x.Accused)}
	case *shutterevents.Apology:
		bl := [][]byte{}
		for _, p := range x.PolyEval {
			bl = append(bl, p.Bytes())
		}
		return Ev{T: "apology", Sender: x.Sender.Bytes(), Eon: x.Eon, Addrs: addrBytes(x.Accusers), Blobs: bl}
	}
	return Ev{T: "unknown", Raw: fmt.Sprint(e)}
}

func nz(b [][]byte) [][]byte {
	if b == nil {
		return [][]byte{}
	}
	return b
}

// Exec performs one call on the application (panics are caught and reported).
func Exec(a *app.ShutterApp, c Call) Resp {
	var r Resp
	r.Kind = c.Kind
	p, msg := vh.Guard(func() {
		switch c.Kind {
		case "begin":
			res := a.BeginBlock(abcitypes.RequestBeginBlock{Header: tmproto.Header{Height: c.Height}})
			r.Events = convEvents(res.Events)
		case "check":
			res := a.CheckTx(abcitypes.RequestCheckTx{Tx: c.Tx})
			r.Code = res.Code
		case "deliver":
			res := a.DeliverTx(abcitypes.RequestDeliverTx{Tx: c.Tx})
			r.Code = res.Code
			r.Events = convEvents(res.Events)
		case "end":
			res := a.EndBlock(abcitypes.RequestEndBlock{Height: c.Height})
			r.Events = convEvents(res.Events)
			for _, u := range res.ValidatorUpdates {
				r.Updates = append(r.Updates, KV{K: u.PubKey.GetEd25519(), P: u.Power})
			}
		case "commit":
			a.Commit()
		default:
			panic("bad call kind " + c.Kind)
		}
	})
	if p {
		r = Resp{Kind: c.Kind, Panic: msg}
	}
	return r
}

// RawResp performs the call and returns the marshalled response bytes (for replica comparison).
func RawResp(a *app.ShutterApp, c Call) (out string) {
	p, msg := vh.Guard(func() {
		switch c.Kind {
		case "begin":
			res := a.BeginBlock(abcitypes.RequestBeginBlock{Header: tmproto.Header{Height: c.Height}})
			b, _ := res.Marshal()
			out = string(b)
		case "check":
			res := a.CheckTx(abcitypes.RequestCheckTx{Tx: c.Tx})
			res.Log = ""
			b, _ := res.Marshal()
			out = string(b)
		case "deliver":
			res := a.DeliverTx(abcitypes.RequestDeliverTx{Tx: c.Tx})
			b, _ := res.Marshal()
			out = string(b)
		case "end":
			res := a.EndBlock(abcitypes.RequestEndBlock{Height: c.Height})
			b, _ := res.Marshal()
			out = string(b)
		case "commit":
			res := a.Commit()
			b, _ := res.Marshal()
			out = string(b)
		}
	})
	if p {
		return "PANIC:" + msg
	}
	return out
}

// ---------------------------------------------------------------------------------------
// transactions

// SignTx builds a transaction exactly like a keyper does (shmsg.SignMessage + base64url).
func SignTx(key *ecdsa.PrivateKey, chainID string, nonce uint64, m *shmsg.Message) []byte {
	mw := &shmsg.MessageWithNonce{ChainId: []byte(chainID), RandomNonce: nonce, Msg: m}
	signed, err := shmsg.SignMessage(mw, key)
	if err != nil {
		panic(err)
	}
	return []byte(base64.RawURLEncoding.EncodeToString(signed))
}

// SignRaw signs arbitrary protobuf bytes as the envelope content.
func SignRaw(key *ecdsa.PrivateKey, mw proto.Message) []byte {
	signed, err := shmsg.SignMessage(mw, key)
	if err != nil {
		panic(err)
	}
	return []byte(base64.RawURLEncoding.EncodeToString(signed))
}

// DecodeTx mirrors app.decodeTx with the exported pieces it is made of (the decode layer is an
// oracle for the model) and renders the decoded transaction as a Coq `tx`.
func DecodeTx(raw []byte) (coq string, signer []byte, ok bool) {
	signed, err := base64.RawURLEncoding.DecodeString(string(raw))
	if err != nil {
		return "TxBad", nil, false
	}
	sg, err := shmsg.GetSigner(signed)
	if err != nil {
		return "TxBad", nil, false
	}
	msg, err := shmsg.GetMessage(signed)
	if err != nil {
		return "TxBad", nil, false
	}
	return vh.CApp("Tx", vh.CBytes(sg.Bytes()), vh.CBytes(msg.ChainId), vh.CN(msg.RandomNonce), payloadCoq(msg.Msg)), sg.Bytes(), true
}

func gammaOK(g []byte) bool {
	p := new(blst.P2Affine)
	p = p.Uncompress(g)
	if p == nil {
		return false
	}
	return p.InG2()
}

func encKeyOK(k []byte) bool {
	_, err := crypto.DecompressPubkey(k)
	return err == nil
}

func payloadCoq(m *shmsg.Message) string {
	switch {
	case m.GetBatchConfig() != nil:
		x := m.GetBatchConfig()
		return vh.CApp("PBatchConfig", vh.CN(x.ActivationBlockNumber), vh.CBytesList(x.Keypers), vh.CN(x.Threshold), vh.CN(x.KeyperConfigIndex))
	case m.GetBlockSeen() != nil:
		return vh.CApp("PBlockSeen", vh.CN(m.GetBlockSeen().BlockNumber))
	case m.GetCheckIn() != nil:
		x := m.GetCheckIn()
		return vh.CApp("PCheckIn", vh.CBytes(x.ValidatorPublicKey), vh.CBytes(x.EncryptionPublicKey), vh.CBool(encKeyOK(x.EncryptionPublicKey)))
	case m.GetDkgResult() != nil:
		x := m.GetDkgResult()
		return vh.CApp("PDkgResult", vh.CBool(x.Success), vh.CN(x.Eon))
	case m.GetPolyEval() != nil:
		x := m.GetPolyEval()
		return vh.CApp("PPolyEval", vh.CN(x.Eon), vh.CBytesList(x.Receivers), vh.CBytesList(x.EncryptedEvals))
	case m.GetPolyCommitment() != nil:
		x := m.GetPolyCommitment()
		gs := []string{}
		for _, g := range x.Gammas {
			gs = append(gs, vh.CPair(vh.CBytes(g), vh.CBool(gammaOK(g))))
		}
		return vh.CApp("PPolyCommitment", vh.CN(x.Eon), vh.CList(gs))
	case m.GetAccusation() != nil:
		x := m.GetAccusation()
		return vh.CApp("PAccusation", vh.CN(x.Eon), vh.CBytesList(x.Accused))
	case m.GetApology() != nil:
		x := m.GetApology()
		return vh.CApp("PApology", vh.CN(x.Eon), vh.CBytesList(x.Accusers), vh.CBytesList(x.PolyEvals))
	}
	return "PNone"
}

// ---------------------------------------------------------------------------------------
// Coq rendering

func kvsCoq(l []KV) string {
	xs := make([]string, len(l))
	for i, e := range l {
		xs[i] = vh.CPair(vh.CBytes(e.K), vh.CZ(e.P))
	}
	return vh.CList(xs)
}

func GenesisCoq(g Genesis) string {
	fe, fhh := g.ForkEnabled, g.ForkHeight
	if g.ForkLegacy {
		fe = true
	} else if g.ForkNil {
		fe, fhh = false, 0
	}
	return vh.CApp("mkGenesis", vh.CBytesList(g.Keypers), vh.CN(g.Threshold), vh.CN(g.InitialEon), vh.CBool(fe),
		vh.CZ(fhh), kvsCoq(g.Validators), vh.CStr(g.ChainID), vh.CBool(g.DevMode))
}

func CallCoq(c Call) string {
	switch c.Kind {
	case "begin":
		return vh.CApp("CBegin", vh.CZ(c.Height))
	case "check":
		t, _, _ := DecodeTx(c.Tx)
		return vh.CApp("CCheck", t)
	case "deliver":
		t, _, _ := DecodeTx(c.Tx)
		return vh.CApp("CDeliver", t)
	case "end":
		return vh.CApp("CEnd", vh.CZ(c.Height))
	}
	return "CCommit"
}

func evCoq(e Ev) string {
	switch e.T {
	case "checkin":
		return vh.CApp("EvCheckIn", vh.CBytes(e.Sender), vh.CBytes(e.Key))
	case "batchconfig":
		return vh.CApp("EvBatchConfig", vh.CN(e.Act), vh.CN(e.Thr), vh.CBytesList(e.Addrs), vh.CN(e.Idx))
	case "started":
		return vh.CApp("EvBatchConfigStarted", vh.CN(e.Idx))
	case "eonstarted":
		return vh.CApp("EvEonStarted", vh.CN(e.Eon), vh.CN(e.Act), vh.CN(e.Idx))
	case "polyeval":
		return vh.CApp("EvPolyEval", vh.CBytes(e.Sender), vh.CN(e.Eon), vh.CBytesList(e.Addrs), vh.CBytesList(e.Blobs))
	case "polycommitment":
		return vh.CApp("EvPolyCommitment", vh.CBytes(e.Sender), vh.CN(e.Eon), vh.CBytesList(e.Blobs))
	case "accusation":
		return vh.CApp("EvAccusation", vh.CBytes(e.Sender), vh.CN(e.Eon), vh.CBytesList(e.Addrs))
	case "apology":
		return vh.CApp("EvApology", vh.CBytes(e.Sender), vh.CN(e.Eon), vh.CBytesList(e.Addrs), vh.CBytesList(e.Blobs))
	}
	// an event the keyper-side decoder refuses: rendered as something the model never emits
	return vh.CApp("EvBatchConfigStarted", vh.CN(18446744073709551615))
}

func evsCoq(es []Ev) string {
	xs := make([]string, len(es))
	for i, e := range es {
		xs[i] = evCoq(e)
	}
	return vh.CList(xs)
}

func RespCoq(r Resp) string {
	if r.Panic != "" {
		return "RPanic"
	}
	switch r.Kind {
	case "begin":
		return vh.CApp("RBegin", evsCoq(r.Events))
	case "check":
		return vh.CApp("RCheck", vh.CN(uint64(r.Code)))
	case "deliver":
		return vh.CApp("RDeliver", vh.CN(uint64(r.Code)), evsCoq(r.Events))
	case "end":
		return vh.CApp("REnd", kvsCoq(r.Updates), evsCoq(r.Events))
	}
	return "RCommit"
}

func configCoq(c *app.BatchConfig) string {
	return vh.CApp("mkConfig", vh.CN(c.ActivationBlockNumber), vh.CBytesList(addrBytes(c.Keypers)), vh.CN(c.Threshold),
		vh.CN(c.KeyperConfigIndex), vh.CBool(c.Started), vh.CBool(c.ValidatorsUpdated))
}

type bk struct {
	k []byte
	v string
}

func sortedPairs(l []bk) string {
	sort.Slice(l, func(i, j int) bool { return bytes.Compare(l[i].k, l[j].k) < 0 })
	xs := make([]string, len(l))
	for i, e := range l {
		xs[i] = vh.CPair(vh.CBytes(e.k), e.v)
	}
	return vh.CList(xs)
}

func votesCoq(m map[common.Address]int) string {
	var l []bk
	for a, i := range m {
		l = append(l, bk{a.Bytes(), vh.CNat(i)})
	}
	return sortedPairs(l)
}

// ProjCoq renders the projection of the application state compared with the model.
func ProjCoq(a *app.ShutterApp) string {
	cfgs := []string{}
	for _, c := range a.Configs {
		cfgs = append(cfgs, configCoq(c))
	}
	var ids, seen, vals []bk
	for k, v := range a.Identities {
		ids = append(ids, bk{k.Bytes(), vh.CBytes([]byte(v.Ed25519pubkey))})
	}
	for k, v := range a.BlocksSeen {
		seen = append(seen, bk{k.Bytes(), vh.CN(v)})
	}
	for k, v := range a.Validators {
		vals = append(vals, bk{[]byte(k.Ed25519pubkey), vh.CZ(v)})
	}
	eons := []uint64{}
	for e := range a.DKGMap {
		eons = append(eons, e)
	}
	sort.Slice(eons, func(i, j int) bool { return eons[i] < eons[j] })
	dk := []string{}
	for _, e := range eons {
		d := a.DKGMap[e]
		counts := "(" + strings.Join([]string{vh.CNat(len(d.PolyEvalsSeen)), vh.CNat(len(d.PolyCommitmentsSeen)),
			vh.CNat(len(d.AccusationsSeen)), vh.CNat(len(d.ApologiesSeen))}, ", ") + ")"
		dk = append(dk, vh.CPair(vh.CN(e), "("+vh.CN(d.Config.KeyperConfigIndex)+", "+votesCoq(d.SuccessVoting.Votes)+", "+counts+")"))
	}
	nn := 0
	for _, m := range a.NonceTracker.RandomNonces {
		nn += len(m)
	}
	var mem []bk
	for m := range a.CheckTxState.Members {
		mem = append(mem, bk{m.Bytes(), ""})
	}
	sort.Slice(mem, func(i, j int) bool { return bytes.Compare(mem[i].k, mem[j].k) < 0 })
	ms := []string{}
	for _, m := range mem {
		ms = append(ms, vh.CBytes(m.k))
	}
	return vh.CApp("mkProj", vh.CList(cfgs), vh.CN(a.EONCounter), vh.CZ(a.LastBlockHeight), sortedPairs(ids), sortedPairs(seen),
		sortedPairs(vals), votesCoq(a.ConfigVoting.Votes), vh.CNat(len(a.ConfigVoting.Candidates)), vh.CList(dk), vh.CNat(nn), vh.CList(ms))
}

// RunHistory executes a history on a fresh application; it returns the responses and the app.
func RunHistory(h History) ([]Resp, *app.ShutterApp, error) {
	a, err := NewApp(h.Genesis)
	if err != nil {
		return nil, nil, err
	}
	var rs []Resp
	for _, c := range h.Calls {
		rs = append(rs, Exec(a, c))
	}
	return rs, a, nil
}

// CaseCoq renders `mkAppCase id genesis calls resps final`.
func CaseCoq(id uint64, h History, rs []Resp, a *app.ShutterApp) string {
	cs := make([]string, len(h.Calls))
	for i, c := range h.Calls {
		cs[i] = CallCoq(c)
	}
	os := make([]string, len(rs))
	for i, r := range rs {
		os[i] = RespCoq(r)
	}
	return vh.CApp("mkAppCase", vh.CN(id), GenesisCoq(h.Genesis), vh.CList(cs), vh.CList(os), ProjCoq(a))
}

// StateString renders the complete application state deterministically (maps sorted); the
// blocks-seen entry and the nonces of `hide` (if non-nil) are left out. Used by the oracles.
func StateString(a *app.ShutterApp, hide []byte) string {
	var sb strings.Builder
	hid := func(b []byte) bool { return hide != nil && bytes.Equal(b, hide) }
	for _, c := range a.Configs {
		fmt.Fprintf(&sb, "cfg %d %d %d %v %v %x\n", c.KeyperConfigIndex, c.ActivationBlockNumber, c.Threshold, c.Started, c.ValidatorsUpdated, addrBytes(c.Keypers))
	}
	fmt.Fprintf(&sb, "eon %d height %d dev %v chain %s\n", a.EONCounter, a.LastBlockHeight, a.DevMode, a.ChainID)
	lines := []string{}
	for k, v := range a.Identities {
		lines = append(lines, fmt.Sprintf("id %x %x", k.Bytes(), v.Ed25519pubkey))
	}
	for k, v := range a.BlocksSeen {
		if !hid(k.Bytes()) {
			lines = append(lines, fmt.Sprintf("seen %x %d", k.Bytes(), v))
		}
	}
	for k, v := range a.Validators {
		lines = append(lines, fmt.Sprintf("val %x %d", k.Ed25519pubkey, v))
	}
	for k, v := range a.ConfigVoting.Votes {
		lines = append(lines, fmt.Sprintf("cvote %x %d", k.Bytes(), v))
	}
	for i, c := range a.ConfigVoting.Candidates {
		lines = append(lines, fmt.Sprintf("ccand %d %d %d %d %x", i, c.KeyperConfigIndex, c.ActivationBlockNumber, c.Threshold, addrBytes(c.Keypers)))
	}
	for e, d := range a.DKGMap {
		lines = append(lines, fmt.Sprintf("dkg %d cfg %d cands %v", e, d.Config.KeyperConfigIndex, d.SuccessVoting.Candidates))
		for k, v := range d.SuccessVoting.Votes {
			lines = append(lines, fmt.Sprintf("dkg %d vote %x %d", e, k.Bytes(), v))
		}
		for k := range d.PolyEvalsSeen {
			lines = append(lines, fmt.Sprintf("dkg %d eval %x %x", e, k.Sender.Bytes(), k.Receiver.Bytes()))
		}
		for k := range d.PolyCommitmentsSeen {
			lines = append(lines, fmt.Sprintf("dkg %d commit %x", e, k.Bytes()))
		}
		for k := range d.AccusationsSeen {
			lines = append(lines, fmt.Sprintf("dkg %d acc %x", e, k.Bytes()))
		}
		for k := range d.ApologiesSeen {
			lines = append(lines, fmt.Sprintf("dkg %d apo %x", e, k.Bytes()))
		}
	}
	for k, m := range a.NonceTracker.RandomNonces {
		if hid(k.Bytes()) {
			continue
		}
		for n := range m {
			lines = append(lines, fmt.Sprintf("nonce %x %d", k.Bytes(), n))
		}
	}
	for k := range a.CheckTxState.Members {
		lines = append(lines, fmt.Sprintf("member %x", k.Bytes()))
	}
	for k, v := range a.CheckTxState.TxCounts {
		lines = append(lines, fmt.Sprintf("chkcount %x %d", k.Bytes(), v))
	}
	if a.ForkHeights != nil {
		lines = append(lines, fmt.Sprintf("fork %v %d legacy-nil=%v", a.ForkHeights.CheckInUpdateNew.Enabled, a.ForkHeights.CheckInUpdateNew.Height, a.ForkHeights.CheckInUpdate == nil))
	}
	sort.Strings(lines)
	sb.WriteString(strings.Join(lines, "\n"))
	return sb.String()
}

// ChainOf returns the chain id carried by a decodable raw transaction.
func ChainOf(raw []byte) (string, bool) {
	signed, err := base64.RawURLEncoding.DecodeString(string(raw))
	if err != nil {
		return "", false
	}
	if _, err := shmsg.GetSigner(signed); err != nil {
		return "", false
	}
	msg, err := shmsg.GetMessage(signed)
	if err != nil {
		return "", false
	}
	return string(msg.ChainId), true
}

// MessageOf returns the payload message of a decodable raw transaction.
func MessageOf(raw []byte) (*shmsg.Message, bool) {
	signed, err := base64.RawURLEncoding.DecodeString(string(raw))
	if err != nil {
		return nil, false
	}
	if _, err := shmsg.GetSigner(signed); err != nil {
		return nil, false
	}
	msg, err := shmsg.GetMessage(signed)
	if err != nil || msg.Msg == nil {
		return nil, false
	}
	return msg.Msg, true
}

// NewAppAt is NewApp for a node that persists its state: the application is obtained from
// LoadShutterAppFromFile (a fresh one when the file does not exist), as cmd/chain does.
func NewAppAt(g Genesis, gobpath string) (*app.ShutterApp, error) {
	sa, err := app.LoadShutterAppFromFile(gobpath)
	if err != nil {
		return nil, err
	}
	a := &sa
	a.DevMode = g.DevMode
	keypers := []common.Address{}
	for _, k := range g.Keypers {
		keypers = append(keypers, common.BytesToAddress(k))
	}
	var fh *app.ForkHeights
	if g.ForkLegacy {
		h := g.ForkHeight
		fh = &app.ForkHeights{CheckInUpdate: &h}
	} else if !g.ForkNil {
		fh = &app.ForkHeights{CheckInUpdateNew: app.ForkHeight{Enabled: g.ForkEnabled, Height: g.ForkHeight}}
	}
	gs := app.NewGenesisAppState(keypers, int(g.Threshold), g.InitialEon, fh)
	gs.Threshold = g.Threshold
	bs, err := amino.NewCodec().MarshalJSON(gs)
	if err != nil {
		return nil, err
	}
	var vals []abcitypes.ValidatorUpdate
	for _, v := range g.Validators {
		vals = append(vals, abcitypes.ValidatorUpdate{Power: v.P, PubKey: tmcrypto.PublicKey{Sum: &tmcrypto.PublicKey_Ed25519{Ed25519: v.K}}})
	}
	a.InitChain(abcitypes.RequestInitChain{ChainId: g.ChainID, Validators: vals, AppStateBytes: bs})
	return a, nil
}

// CallsCoq / RespsCoq render lists for case constructors of other Corr modules.
func CallsCoq(cs []Call) string {
	xs := make([]string, len(cs))
	for i, c := range cs {
		xs[i] = CallCoq(c)
	}
	return vh.CList(xs)
}

func RespsCoq(rs []Resp) string {
	xs := make([]string, len(rs))
	for i, r := range rs {
		xs[i] = RespCoq(r)
	}
	return vh.CList(xs)
}
