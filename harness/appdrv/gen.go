//go:build verif

package appdrv

import (
	"fmt"
	"math/big"

	"github.com/ethereum/go-ethereum/common"

	"github.com/shutter-network/rolling-shutter/rolling-shutter/app"
	"github.com/shutter-network/rolling-shutter/rolling-shutter/shmsg"

	"verifharness/vh"
)

// Gen generates histories online: the next call is drawn with a view on the real
// application's current state so that most transactions are admissible, with a separate
// malformed stream mixed in. Every choice comes from the RNG.
type Gen struct {
	U      *Universe
	R      *vh.RNG
	G      Genesis
	nonce  uint64
	sent   [][]byte // raw transactions sent so far (for replays)
	cands  []*shmsg.Message
	Weird  bool // include integer-boundary configs (threshold >= 2^63 ...)
	NoJunk bool
	// the last signed payload: re-signed now and then by ANOTHER key with the SAME nonce (the
	// nonce is per sender, so this is legal; two transactions then differ only in the signature)
	lastMsg   *shmsg.Message
	lastNonce uint64
	lastKey   int
}

var chainIDs = []string{"verif-chain", "verif-chain", "shutter-api-gnosis-1002", "shutter-gnosis-1000"}

func (g *Gen) RandomGenesis() Genesis {
	r := g.R
	n := 2 + r.Intn(4)
	perm := r.Perm(6)
	var ks [][]byte
	for i := 0; i < n; i++ {
		ks = append(ks, g.U.Addrs[perm[i]].Bytes())
	}
	ge := Genesis{Keypers: ks, Threshold: uint64(1 + r.Intn(n)), ChainID: vh.Pick(r, chainIDs...)}
	ge.InitialEon = vh.Pick(r, uint64(0), 0, 5, 8, 18446744073709551614)
	switch r.Intn(6) {
	case 0:
		ge.ForkNil = true
	case 1:
		ge.ForkEnabled, ge.ForkHeight = false, 2
	case 2:
		ge.ForkEnabled, ge.ForkHeight = true, 0
	case 3:
		// legacy genesis format: only the old checkInUpdate field
		ge.ForkLegacy, ge.ForkHeight = true, int64(vh.Pick(r, uint64(0), 1, 2, 3, 4))
	default:
		ge.ForkEnabled, ge.ForkHeight = true, 3
	}
	nv := 1 + r.Intn(3)
	for i := 0; i < nv; i++ {
		k := make([]byte, 32)
		k[0] = byte(0xA0 + i)
		if r.Chance(1, 4) {
			k = g.U.ValKeys[r.Intn(len(g.U.ValKeys))]
		}
		ge.Validators = append(ge.Validators, KV{K: k, P: int64(10 * (1 + r.Intn(2)))})
	}
	// MakePowermap adds the powers of equal keys; keep keys distinct so genesis is what Tendermint accepts
	seen := map[string]bool{}
	var vs []KV
	for _, v := range ge.Validators {
		if !seen[string(v.K)] {
			seen[string(v.K)] = true
			vs = append(vs, v)
		}
	}
	ge.Validators = vs
	ge.DevMode = r.Chance(1, 10)
	g.G = ge
	return ge
}

func (g *Gen) nextNonce() uint64 { g.nonce++; return g.nonce }

func (g *Gen) memberKey(a *app.ShutterApp) int {
	// a key index of the universe that is a keyper of some config, if any
	var idx []int
	for i, ad := range g.U.Addrs {
		for _, c := range a.Configs {
			if c.IsKeyper(ad) {
				idx = append(idx, i)
				break
			}
		}
	}
	if len(idx) == 0 {
		return g.R.Intn(len(g.U.Addrs))
	}
	return idx[g.R.Intn(len(idx))]
}

func (g *Gen) lastMemberKey(a *app.ShutterApp) int {
	lc := a.Configs[len(a.Configs)-1]
	var idx []int
	for i, ad := range g.U.Addrs {
		if lc.IsKeyper(ad) {
			idx = append(idx, i)
		}
	}
	if len(idx) == 0 {
		return g.R.Intn(len(g.U.Addrs))
	}
	return idx[g.R.Intn(len(idx))]
}

func (g *Gen) someAddrs(k int) [][]byte {
	// only the first six keys of the universe ever become keypers; the others are outsiders
	p := g.R.Perm(6)
	out := [][]byte{}
	for i := 0; i < k && i < len(p); i++ {
		out = append(out, g.U.Addrs[p[i]].Bytes())
	}
	return out
}

// candidate configs for voting: a small pool so that votes can agree
func (g *Gen) candidate(a *app.ShutterApp) *shmsg.Message {
	r := g.R
	lc := a.Configs[len(a.Configs)-1]
	if len(g.cands) > 0 && r.Chance(3, 4) {
		return g.cands[r.Intn(len(g.cands))]
	}
	// near-duplicates: the numbers of an existing candidate (or of the last accepted config)
	// with the keyper list permuted, extended or truncated - equal as sets or as prefixes, but
	// not the identical configuration
	if r.Chance(1, 4) {
		var act, thr, idx uint64
		var ks []common.Address
		if len(g.cands) > 0 && r.Chance(2, 3) {
			b := g.cands[r.Intn(len(g.cands))].GetBatchConfig()
			act, thr, idx = b.ActivationBlockNumber, b.Threshold, b.KeyperConfigIndex
			for _, k := range b.Keypers {
				ks = append(ks, common.BytesToAddress(k))
			}
		} else {
			act, thr, idx = lc.ActivationBlockNumber, lc.Threshold, lc.KeyperConfigIndex
			ks = append(ks, lc.Keypers...)
		}
		switch r.Intn(4) {
		case 0: // reversed
			for i, j := 0, len(ks)-1; i < j; i, j = i+1, j-1 {
				ks[i], ks[j] = ks[j], ks[i]
			}
		case 1: // rotated
			if len(ks) > 1 {
				ks = append(ks[1:], ks[0])
			}
		case 2: // one more keyper at the end
			for _, b := range g.someAddrs(6) {
				a := common.BytesToAddress(b)
				dup := false
				for _, k := range ks {
					dup = dup || k == a
				}
				if !dup {
					ks = append(ks, a)
					break
				}
			}
		default: // last keyper dropped
			if len(ks) > 1 {
				ks = ks[:len(ks)-1]
			}
		}
		m := shmsg.NewBatchConfig(act, ks, thr, idx)
		if len(g.cands) < 3 {
			g.cands = append(g.cands, m)
		} else {
			g.cands[r.Intn(3)] = m
		}
		return m
	}
	n := 2 + r.Intn(3)
	ks := []common.Address{}
	for _, b := range g.someAddrs(n) {
		ks = append(ks, common.BytesToAddress(b))
	}
	thr := uint64(1 + r.Intn(n))
	idx := lc.KeyperConfigIndex + 1 + uint64(r.Intn(2))
	act := lc.ActivationBlockNumber + uint64(r.Intn(3))
	if g.Weird && r.Chance(1, 3) {
		thr = vh.Pick(r, uint64(1)<<63, (uint64(1)<<63)+5, ^uint64(0), uint64(n)+1, 0)
	}
	if r.Chance(1, 12) {
		switch r.Intn(5) {
		case 0:
			thr = 0
		case 1:
			thr = uint64(n) + 1
		case 2:
			idx = lc.KeyperConfigIndex
		case 3:
			if lc.ActivationBlockNumber > 0 {
				act = lc.ActivationBlockNumber - 1
			}
		case 4:
			ks = append(ks, ks[0])
		}
	}
	m := shmsg.NewBatchConfig(act, ks, thr, idx)
	if r.Chance(1, 25) {
		m.GetBatchConfig().Keypers[0] = m.GetBatchConfig().Keypers[0][:19]
	}
	if len(g.cands) < 3 {
		g.cands = append(g.cands, m)
	} else {
		g.cands[r.Intn(3)] = m
	}
	return m
}

func (g *Gen) eonChoice(a *app.ShutterApp) uint64 {
	r := g.R
	switch r.Intn(8) {
	case 0:
		return a.EONCounter + 1
	case 1:
		return a.EONCounter - 1
	case 2:
		return 0
	}
	return a.EONCounter
}

// NextTx draws one raw transaction.
func (g *Gen) NextTx(a *app.ShutterApp) ([]byte, string) { return g.NextTxBy(a, -1) }

// NextTxBy draws one raw transaction; forced >= 0 fixes the signing key.
func (g *Gen) NextTxBy(a *app.ShutterApp, forced int) ([]byte, string) {
	r := g.R
	chain := g.G.ChainID
	key := g.memberKey(a)
	if r.Chance(1, 12) {
		key = r.Intn(len(g.U.Keys)) // possibly an outsider
	}
	if forced >= 0 {
		key = forced
	}
	if forced < 0 && g.lastMsg != nil && r.Chance(1, 10) {
		k2 := g.memberKey(a)
		if k2 != g.lastKey {
			raw := SignTx(g.U.Keys[k2], chain, g.lastNonce, g.lastMsg)
			g.sent = append(g.sent, raw)
			return raw, fmt.Sprintf("twin payload (same message and nonce as key %d's) by key %d", g.lastKey, k2)
		}
	}
	var m *shmsg.Message
	note := ""
	w := r.Intn(100)
	switch {
	case w < 24:
		m = g.candidate(a)
		if r.Chance(5, 6) && forced < 0 {
			key = g.lastMemberKey(a)
		}
		note = "vote"
	case w < 38:
		bn := uint64(0)
		for _, c := range a.Configs {
			if !c.Started {
				bn = c.ActivationBlockNumber
			}
		}
		bn = vh.Pick(r, bn, bn, bn+1, 0, bn+5)
		m = shmsg.NewBlockSeen(bn)
		note = "blockseen"
	case w < 54:
		vk := g.U.ValKeys[key]
		switch r.Intn(10) {
		case 0:
			vk = g.U.ValKeys[r.Intn(len(g.U.ValKeys))] // possibly shared with another keyper
		case 1:
			vk = []byte(app.NonExistentValidator.Ed25519pubkey)
		case 2:
			vk = vk[:31]
		case 3:
			if len(g.G.Validators) > 0 {
				vk = g.G.Validators[0].K // a genesis validator key
			}
		}
		ek := g.U.EncKeys[key]
		if r.Chance(1, 10) {
			ek = append([]byte{0x05}, ek[1:]...)
		}
		m = &shmsg.Message{Payload: &shmsg.Message_CheckIn{CheckIn: &shmsg.CheckIn{ValidatorPublicKey: vk, EncryptionPublicKey: ek}}}
		note = "checkin"
	case w < 70:
		m = shmsg.NewDKGResult(g.eonChoice(a), r.Chance(1, 2))
		note = "dkgresult"
	case w < 76:
		rs := g.someAddrs(1 + r.Intn(3))
		ev := [][]byte{}
		for range rs {
			n := 1 + r.Intn(4)
			if r.Chance(1, 6) {
				n = vh.Pick(r, 0, 32, 33, 255, 1000)
			}
			ev = append(ev, r.Bytes(n))
		}
		if r.Chance(1, 10) {
			ev = ev[:len(ev)-1]
		}
		if r.Chance(1, 10) {
			rs[0] = rs[0][:19]
		}
		m = &shmsg.Message{Payload: &shmsg.Message_PolyEval{PolyEval: &shmsg.PolyEval{Eon: g.eonChoice(a), Receivers: rs, EncryptedEvals: ev}}}
		note = "polyeval"
	case w < 82:
		gs := [][]byte{}
		for i := 0; i < 1+r.Intn(3); i++ {
			gs = append(gs, g.U.Gammas[r.Intn(len(g.U.Gammas))])
		}
		if r.Chance(1, 8) {
			bad := append([]byte{}, gs[0]...)
			bad[5] ^= 0x40
			gs[0] = bad
		}
		m = &shmsg.Message{Payload: &shmsg.Message_PolyCommitment{PolyCommitment: &shmsg.PolyCommitment{Eon: g.eonChoice(a), Gammas: gs}}}
		note = "polycommitment"
	case w < 87:
		ac := g.someAddrs(r.Intn(3))
		if r.Chance(1, 10) && len(ac) > 0 {
			ac = append(ac, ac[0])
		}
		m = &shmsg.Message{Payload: &shmsg.Message_Accusation{Accusation: &shmsg.Accusation{Eon: g.eonChoice(a), Accused: ac}}}
		note = "accusation"
	case w < 92:
		ac := g.someAddrs(r.Intn(3))
		ev := [][]byte{}
		for range ac {
			// mostly small values; sometimes values at the widths an encoder could assume
			// (one BLS scalar is 32 bytes; nothing in the application bounds an evaluation)
			n := r.Intn(4)
			if r.Chance(1, 4) {
				n = vh.Pick(r, 31, 32, 33, 48, 64)
			}
			eb := r.Bytes(n)
			if n >= 31 && r.Chance(1, 2) {
				for i := range eb {
					eb[i] = 0xff
				}
			}
			e := new(big.Int).SetBytes(eb).Bytes()
			if r.Chance(1, 4) {
				e = append([]byte{0, 0}, e...) // leading zeros are stripped by the application
			}
			ev = append(ev, e)
		}
		if r.Chance(1, 10) {
			ev = append(ev, []byte{1})
		}
		m = &shmsg.Message{Payload: &shmsg.Message_Apology{Apology: &shmsg.Apology{Eon: g.eonChoice(a), Accusers: ac, PolyEvals: ev}}}
		note = "apology"
	default:
		if g.NoJunk || forced >= 0 {
			m = shmsg.NewBlockSeen(0)
			note = "blockseen"
			break
		}
		return g.junk(a)
	}
	nonce := g.nextNonce()
	raw := SignTx(g.U.Keys[key], chain, nonce, m)
	g.sent = append(g.sent, raw)
	g.lastMsg, g.lastNonce, g.lastKey = m, nonce, key
	return raw, fmt.Sprintf("%s by key %d", note, key)
}

// junk: the malformed stream.
func (g *Gen) junk(a *app.ShutterApp) ([]byte, string) {
	r := g.R
	key := r.Intn(len(g.U.Keys))
	switch r.Intn(8) {
	case 0:
		return r.Bytes(r.Intn(120)), "random bytes"
	case 1:
		return []byte("!!not*base64??"), "not base64"
	case 2:
		raw := SignTx(g.U.Keys[key], g.G.ChainID, g.nextNonce(), shmsg.NewBlockSeen(1))
		return raw[:r.Intn(len(raw))], "truncated"
	case 3:
		return SignTx(g.U.Keys[key], "other-chain", g.nextNonce(), shmsg.NewBlockSeen(1)), "wrong chain"
	case 4:
		if len(g.sent) > 0 {
			return g.sent[r.Intn(len(g.sent))], "replay"
		}
		return []byte{}, "empty"
	case 5:
		return SignRaw(g.U.Keys[key], &shmsg.MessageWithNonce{ChainId: []byte(g.G.ChainID), RandomNonce: g.nextNonce()}), "no payload"
	case 6:
		raw := SignTx(g.U.Keys[key], g.G.ChainID, g.nextNonce(), shmsg.NewDKGResult(a.EONCounter, true))
		b := append([]byte{}, raw...)
		b[r.Intn(len(b))] ^= byte(1 << r.Intn(6))
		return b, "bit flip"
	}
	return SignRaw(g.U.Keys[key], &shmsg.MessageWithNonce{ChainId: []byte(g.G.ChainID), RandomNonce: g.nextNonce(), Msg: &shmsg.Message{}}), "empty oneof"
}

// RandomHistory generates and executes a history of nblocks blocks on a fresh application.
func (g *Gen) RandomHistory(nblocks, maxTx int) (History, []Resp, *app.ShutterApp) {
	ge := g.RandomGenesis()
	a, err := NewApp(ge)
	if err != nil {
		panic(err)
	}
	h := History{Genesis: ge}
	var rs []Resp
	do := func(c Call) {
		h.Calls = append(h.Calls, c)
		rs = append(rs, Exec(a, c))
	}
	for b := 1; b <= nblocks; b++ {
		do(Call{Kind: "begin", Height: int64(b)})
		nt := g.R.Intn(maxTx + 1)
		for i := 0; i < nt; i++ {
			raw, note := g.NextTx(a)
			if g.R.Chance(1, 3) {
				do(Call{Kind: "check", Tx: raw, Note: note})
			}
			do(Call{Kind: "deliver", Tx: raw, Note: note})
		}
		do(Call{Kind: "end", Height: int64(b)})
		do(Call{Kind: "commit"})
	}
	return h, rs, a
}

// TransitionTx draws a transaction from a distribution biased towards validator-set
// transitions: check-ins (first, late and repeated, with shared / placeholder / genesis keys),
// block-seen reports at the activation block of an unstarted config, and votes for one
// candidate config per history; the rest comes from NextTx.
func (g *Gen) TransitionTx(a *app.ShutterApp) ([]byte, string) {
	r := g.R
	w := r.Intn(100)
	switch {
	case w < 35:
		key := r.Intn(6)
		vk := g.U.ValKeys[key]
		switch r.Intn(12) {
		case 0:
			vk = g.U.ValKeys[r.Intn(6)]
		case 1:
			vk = []byte(app.NonExistentValidator.Ed25519pubkey)
		case 2:
			if len(g.G.Validators) > 0 {
				vk = g.G.Validators[0].K
			}
		case 3, 4:
			// a fresh key: a re-check-in after the fork changes the validator identity
			vk = append([]byte{byte(0xE0 + r.Intn(4))}, g.U.ValKeys[key][1:]...)
		}
		m := &shmsg.Message{Payload: &shmsg.Message_CheckIn{CheckIn: &shmsg.CheckIn{ValidatorPublicKey: vk, EncryptionPublicKey: g.U.EncKeys[key]}}}
		raw := SignTx(g.U.Keys[key], g.G.ChainID, g.nextNonce(), m)
		g.sent = append(g.sent, raw)
		return raw, fmt.Sprintf("checkin by key %d", key)
	case w < 60:
		bn := uint64(1)
		for _, c := range a.Configs {
			if !c.Started && c.ActivationBlockNumber > bn {
				bn = c.ActivationBlockNumber
			}
		}
		key := g.memberKey(a)
		raw := SignTx(g.U.Keys[key], g.G.ChainID, g.nextNonce(), shmsg.NewBlockSeen(bn+uint64(r.Intn(2))))
		g.sent = append(g.sent, raw)
		return raw, fmt.Sprintf("blockseen by key %d", key)
	case w < 85:
		lc := a.Configs[len(a.Configs)-1]
		if len(g.cands) == 0 || g.cands[0].GetBatchConfig().KeyperConfigIndex <= lc.KeyperConfigIndex {
			n := 2 + r.Intn(3)
			ks := []common.Address{}
			for _, b := range g.someAddrs(n) {
				ks = append(ks, common.BytesToAddress(b))
			}
			g.cands = []*shmsg.Message{shmsg.NewBatchConfig(lc.ActivationBlockNumber+uint64(1+r.Intn(2)), ks, uint64(1+r.Intn(n)), lc.KeyperConfigIndex+1)}
		}
		key := g.lastMemberKey(a)
		raw := SignTx(g.U.Keys[key], g.G.ChainID, g.nextNonce(), g.cands[0])
		g.sent = append(g.sent, raw)
		return raw, fmt.Sprintf("vote by key %d", key)
	}
	return g.NextTx(a)
}

// TransitionHistory is RandomHistory with the transition-biased transaction distribution.
func (g *Gen) TransitionHistory(nblocks, maxTx int) (History, []Resp, *app.ShutterApp) {
	ge := g.RandomGenesis()
	ge.DevMode = false
	g.G = ge
	a, err := NewApp(ge)
	if err != nil {
		panic(err)
	}
	h := History{Genesis: ge}
	var rs []Resp
	do := func(c Call) {
		h.Calls = append(h.Calls, c)
		rs = append(rs, Exec(a, c))
	}
	for b := 1; b <= nblocks; b++ {
		do(Call{Kind: "begin", Height: int64(b)})
		nt := 1 + g.R.Intn(maxTx)
		for i := 0; i < nt; i++ {
			raw, note := g.TransitionTx(a)
			do(Call{Kind: "deliver", Tx: raw, Note: note})
		}
		do(Call{Kind: "end", Height: int64(b)})
		do(Call{Kind: "commit"})
	}
	return h, rs, a
}

// evalBytes draws the bytes of a polynomial evaluation / encrypted evaluation: mostly short,
// sometimes at and around the widths an encoder could assume (32 = one BLS scalar).
func (g *Gen) evalBytes(minLen int) []byte {
	r := g.R
	n := minLen + r.Intn(4)
	if r.Chance(1, 3) {
		n = vh.Pick(r, 31, 32, 33, 48, 64, 255)
	}
	b := r.Bytes(n)
	if n >= 31 && r.Chance(1, 2) {
		for i := range b {
			b[i] = 0xff
		}
	}
	return b
}

// DKGTx draws a transaction biased towards ACCEPTED messages of a running key generation: once
// a DKG instance exists, a keyper of its config sends a commitment, evaluations to other
// members, an accusation of other members, an apology to other members (with evaluations of
// every width, none of which the application bounds) or a result vote, all for the newest eon;
// before that it votes a config in. One transaction in five comes from NextTx.
func (g *Gen) DKGTx(a *app.ShutterApp) ([]byte, string) {
	r := g.R
	if r.Chance(1, 5) {
		return g.NextTx(a)
	}
	var newest uint64
	found := false
	for e := range a.DKGMap {
		if !found || e > newest {
			newest, found = e, true
		}
	}
	if !found {
		return g.TransitionTx(a)
	}
	return g.dkgTxFor(a, newest, newest)
}

// dkgTxFor: a DKG message for eon `eon` sent by a member of the config of eon `cfgEon` (the two
// differ only when a late message is addressed to an old eon).
func (g *Gen) dkgTxFor(a *app.ShutterApp, cfgEon, eon uint64) ([]byte, string) {
	r := g.R
	newest := eon
	d := a.DKGMap[cfgEon]
	if d == nil {
		return g.TransitionTx(a)
	}
	var members []int
	for i, ad := range g.U.Addrs {
		if d.Config.IsKeyper(ad) {
			members = append(members, i)
		}
	}
	if len(members) == 0 {
		return g.TransitionTx(a)
	}
	key := members[r.Intn(len(members))]
	others := func() [][]byte {
		var out [][]byte
		for _, p := range r.Perm(len(members)) {
			if members[p] != key && (len(out) == 0 || r.Chance(1, 2)) {
				out = append(out, g.U.Addrs[members[p]].Bytes())
			}
		}
		return out
	}
	var m *shmsg.Message
	var note string
	switch r.Intn(6) {
	case 0:
		gs := [][]byte{}
		for i := uint64(0); i < d.Config.Threshold && i < 8; i++ {
			gs = append(gs, g.U.Gammas[r.Intn(len(g.U.Gammas))])
		}
		if r.Chance(1, 6) {
			gs = append(gs, g.U.Gammas[0])
		}
		m = &shmsg.Message{Payload: &shmsg.Message_PolyCommitment{PolyCommitment: &shmsg.PolyCommitment{Eon: newest, Gammas: gs}}}
		note = "dkg polycommitment"
	case 1:
		rs := others()
		ev := [][]byte{}
		for range rs {
			ev = append(ev, g.evalBytes(1))
		}
		m = &shmsg.Message{Payload: &shmsg.Message_PolyEval{PolyEval: &shmsg.PolyEval{Eon: newest, Receivers: rs, EncryptedEvals: ev}}}
		note = "dkg polyeval"
	case 2:
		m = &shmsg.Message{Payload: &shmsg.Message_Accusation{Accusation: &shmsg.Accusation{Eon: newest, Accused: others()}}}
		note = "dkg accusation"
	case 3, 4:
		ac := others()
		ev := [][]byte{}
		for range ac {
			ev = append(ev, new(big.Int).SetBytes(g.evalBytes(0)).Bytes())
		}
		m = &shmsg.Message{Payload: &shmsg.Message_Apology{Apology: &shmsg.Apology{Eon: newest, Accusers: ac, PolyEvals: ev}}}
		note = "dkg apology"
	default:
		m = shmsg.NewDKGResult(newest, r.Chance(1, 3))
		note = "dkg result"
	}
	if cfgEon != eon {
		note += fmt.Sprintf(" (late, eon %d)", eon)
	}
	raw := SignTx(g.U.Keys[key], g.G.ChainID, g.nextNonce(), m)
	g.sent = append(g.sent, raw)
	return raw, fmt.Sprintf("%s by key %d", note, key)
}

// ManyEonsHistory: one config is voted in and its key generation fails `eons-1` times in a row
// (threshold many members vote "failed", the application starts the next eon with the same
// config); between the restarts and in two final blocks members send late but legal DKG messages
// addressed to EVERY eon started so far, the oldest included. The application keeps every DKG
// instance for ever, so each of them is accepted or refused by the rules of its own eon.
func (g *Gen) ManyEonsHistory(eons int) (History, []Resp, *app.ShutterApp) {
	n, t := 3+g.R.Intn(2), 2
	ge := Genesis{Threshold: 2, ChainID: "verif-chain", ForkNil: true, Validators: []KV{{K: make([]byte, 32), P: 10}}}
	for i := 0; i < n; i++ {
		ge.Keypers = append(ge.Keypers, g.U.Addrs[i].Bytes())
	}
	g.G = ge
	a, err := NewApp(ge)
	if err != nil {
		panic(err)
	}
	h := History{Genesis: ge}
	var rs []Resp
	do := func(c Call) {
		h.Calls = append(h.Calls, c)
		rs = append(rs, Exec(a, c))
	}
	height := int64(0)
	begin := func() { height++; do(Call{Kind: "begin", Height: height}) }
	end := func() { do(Call{Kind: "end", Height: height}); do(Call{Kind: "commit"}) }
	late := func(k int) {
		for i := 0; i < k && a.EONCounter > 0; i++ {
			eon := 1 + uint64(g.R.Intn(int(a.EONCounter)))
			if g.R.Chance(1, 3) {
				eon = 1
			}
			raw, note := g.dkgTxFor(a, a.EONCounter, eon)
			do(Call{Kind: "deliver", Tx: raw, Note: note})
		}
	}
	begin()
	cfg := shmsg.NewBatchConfig(0, g.U.Addrs[:n], uint64(t), 1)
	for i := 0; i < t; i++ {
		do(Call{Kind: "deliver", Tx: SignTx(g.U.Keys[i], ge.ChainID, g.nextNonce(), cfg), Note: "vote"})
	}
	end()
	for e := 1; e < eons; e++ {
		begin()
		late(g.R.Intn(3))
		for _, i := range g.R.Perm(n)[:t] {
			do(Call{Kind: "deliver", Tx: SignTx(g.U.Keys[i], ge.ChainID, g.nextNonce(), shmsg.NewDKGResult(a.EONCounter, false)), Note: "dkg result failed"})
		}
		end()
	}
	for b := 0; b < 2; b++ {
		begin()
		late(3 + g.R.Intn(4))
		end()
	}
	return h, rs, a
}

// DKGHistory: a history drawn from DKGTx (no dev mode, so that validator updates are real).
func (g *Gen) DKGHistory(nblocks, maxTx int) (History, []Resp, *app.ShutterApp) {
	ge := g.RandomGenesis()
	ge.DevMode = false
	g.G = ge
	a, err := NewApp(ge)
	if err != nil {
		panic(err)
	}
	h := History{Genesis: ge}
	var rs []Resp
	do := func(c Call) {
		h.Calls = append(h.Calls, c)
		rs = append(rs, Exec(a, c))
	}
	for b := 1; b <= nblocks; b++ {
		do(Call{Kind: "begin", Height: int64(b)})
		nt := 1 + g.R.Intn(maxTx)
		for i := 0; i < nt; i++ {
			raw, note := g.DKGTx(a)
			if g.R.Chance(1, 4) {
				do(Call{Kind: "check", Tx: raw, Note: note})
			}
			do(Call{Kind: "deliver", Tx: raw, Note: note})
		}
		do(Call{Kind: "end", Height: int64(b)})
		do(Call{Kind: "commit"})
	}
	return h, rs, a
}

// TxStats counts, for a history and its responses, "<note kind>:code<k>" of every delivered
// transaction and every event type emitted (input-distribution evidence).
func TxStats(h History, rs []Resp, into map[string]int) {
	for i, c := range h.Calls {
		if c.Kind != "deliver" || i >= len(rs) {
			continue
		}
		kind := c.Note
		if j := indexOf(kind, " by key"); j >= 0 {
			kind = kind[:j]
		}
		into[fmt.Sprintf("tx:%s:code%d", kind, rs[i].Code)]++
	}
}

func indexOf(s, sub string) int {
	for i := 0; i+len(sub) <= len(s); i++ {
		if s[i:i+len(sub)] == sub {
			return i
		}
	}
	return -1
}
