//go:build verif

// Driver for C09 (shuttermint replicas never diverge).
package main

import (
	"fmt"
	"os"
	"path/filepath"

	abcitypes "github.com/tendermint/tendermint/abci/types"

	"github.com/shutter-network/rolling-shutter/rolling-shutter/app"

	"github.com/shutter-network/rolling-shutter/rolling-shutter/shmsg"

	"verifharness/appdrv"
	"verifharness/vh"
)

var tmpDir string

var (
	univ        *appdrv.Universe
	mempoolOnly uint64
)

// replicate runs the history on two further replicas and compares every marshalled response
// and the final state projection.
func replicate(run *vh.Run, h appdrv.History, reps int, key string) bool {
	ok := true
	for k := 0; k < reps && ok; k++ {
		a1, err := appdrv.NewApp(h.Genesis)
		if err != nil {
			panic(err)
		}
		a2, _ := appdrv.NewApp(h.Genesis)
		// the second replica is stopped and restarted from its state file after one commit
		restartAt := -1
		if tmpDir != "" {
			var commits []int
			for i, c := range h.Calls {
				if c.Kind == "commit" {
					commits = append(commits, i)
				}
			}
			if len(commits) > 0 {
				restartAt = commits[run.RNG.Intn(len(commits))]
			}
		}
		// the two replicas execute the same blocks but see different mempool traffic: the second
		// one skips some CheckTx calls of the history and checks some transactions of LATER
		// blocks early (the property is about the block sequence, whatever each node's mempool saw)
		var later [][]byte
		for _, c := range h.Calls {
			if c.Kind == "deliver" {
				later = append(later, c.Tx)
			}
		}
		r1s := make([]string, len(h.Calls))
		lastEnd := int64(0)
		for i, c := range h.Calls {
			if c.Kind == "end" {
				lastEnd = c.Height
			}
			if c.Kind == "check" {
				appdrv.RawResp(a1, c)
				if run.RNG.Chance(1, 2) {
					appdrv.RawResp(a2, c)
				}
				continue
			}
			// ... and mempool-only traffic: transactions that never enter a block (lost, or sent by
			// outsiders), offered to the second replica alone
			if c.Kind == "begin" && univ != nil && run.RNG.Chance(1, 2) {
				for n := 0; n < 1+run.RNG.Intn(2); n++ {
					mempoolOnly++
					k := run.RNG.Intn(len(univ.Keys))
					raw := appdrv.SignTx(univ.Keys[k], h.Genesis.ChainID, 900000+mempoolOnly, shmsg.NewBlockSeen(uint64(run.RNG.Intn(9))))
					appdrv.RawResp(a2, appdrv.Call{Kind: "check", Tx: raw})
				}
			}
			if c.Kind == "begin" && len(later) > 0 && run.RNG.Chance(1, 2) {
				for n := 0; n < 1+run.RNG.Intn(3); n++ {
					appdrv.RawResp(a2, appdrv.Call{Kind: "check", Tx: later[run.RNG.Intn(len(later))]})
				}
			}
			r1, r2 := appdrv.RawResp(a1, c), appdrv.RawResp(a2, c)
			r1s[i] = r1
			// the second replica writes its state file at commits of its own choosing
			if c.Kind == "commit" && tmpDir != "" && i != restartAt && run.RNG.Chance(1, 3) {
				a2.Gobpath = filepath.Join(tmpDir, "c09.gob")
				_ = a2.PersistToDisk()
				a2.Gobpath = ""
			}
			if i == restartAt {
				a2.Gobpath = filepath.Join(tmpDir, "c09.gob")
				if err := a2.PersistToDisk(); err == nil {
					if sa, err := app.LoadShutterAppFromFile(a2.Gobpath); err == nil {
						a2 = &sa
						a2.Gobpath = ""
						// the handshake: Tendermint asks the restarted application for its height and
						// replays every block above it; the replayed blocks must be answered as the
						// first replica answered them
						info := a2.Info(abcitypes.RequestInfo{}).LastBlockHeight
						if info > lastEnd {
							run.Violate(vh.Violation{Key: key + ":handshake", What: fmt.Sprintf("restarted after call %d: the application reports height %d, the last executed block is %d", i, info, lastEnd), Case: h})
							ok = false
							break
						}
						if info < lastEnd {
							from := -1
							for j := 0; j <= i; j++ {
								if h.Calls[j].Kind == "begin" && h.Calls[j].Height > info {
									from = j
									break
								}
							}
							for j := from; from >= 0 && j <= i; j++ {
								if h.Calls[j].Kind == "check" {
									continue
								}
								if rr := appdrv.RawResp(a2, h.Calls[j]); rr != r1s[j] {
									run.Violate(vh.Violation{Key: key + ":handshake", What: fmt.Sprintf("restarted after call %d: the application reports height %d although block %d is in its state; the handshake replays call %d (%s %s), which is answered differently the second time", i, info, lastEnd, j, h.Calls[j].Kind, h.Calls[j].Note),
										Case: h, Observed: []string{fmt.Sprintf("%q", r1s[j]), fmt.Sprintf("%q", rr)}})
									ok = false
									break
								}
							}
							if !ok {
								break
							}
						}
					}
				}
			}
			if r1 != r2 {
				run.Violate(vh.Violation{Key: key, What: fmt.Sprintf("two replicas answer call %d (%s %s) differently", i, c.Kind, c.Note),
					Case: h, Observed: []string{fmt.Sprintf("%q", r1), fmt.Sprintf("%q", r2)}})
				ok = false
				break
			}
		}
		if ok && appdrv.ProjCoq(a1) != appdrv.ProjCoq(a2) {
			run.Violate(vh.Violation{Key: key, What: "two replicas hold different state after the same blocks", Case: h})
			ok = false
		}
		// everything the application holds except the node-local parts (its mempool bookkeeping,
		// where and when it saved), field by field by reflection: an entry that only one replica
		// has is a difference even when no answer shows it yet
		local := []string{"CheckTxState", "Gobpath", "LastSaved"}
		if d1, d2 := appdrv.DeepState(a1, local...), appdrv.DeepState(a2, local...); ok && d1 != d2 {
			run.Violate(vh.Violation{Key: key + ":deep-state", What: "two replicas hold different state after the same blocks (field-by-field comparison; the answers agreed)", Case: h,
				Observed: []string{d1, d2}})
			ok = false
		}
	}
	return ok
}

func emit(run *vh.Run, h appdrv.History) {
	rs, a, err := appdrv.RunHistory(h)
	if err != nil {
		panic(err)
	}
	id := run.NextID()
	nev, codes := 0, map[uint32]int{}
	for _, r := range rs {
		nev += len(r.Events)
		if r.Kind == "deliver" {
			codes[r.Code]++
		}
		if r.Panic != "" {
			run.Dist["panic"]++
		}
	}
	for c, n := range codes {
		run.Dist[fmt.Sprintf("deliver_code_%d", c)] += n
	}
	run.Dist["events"] += nev
	run.Dist["calls"] += len(h.Calls)
	run.Dist[fmt.Sprintf("configs_%d", len(a.Configs))]++
	nontrivial := nev >= 3 && len(a.Configs) >= 1 && codes[0] >= 3
	run.AddCase(id, appdrv.CaseCoq(id, h, rs, a), h, fmt.Sprint(h.Calls), nontrivial)
}

// voteSplit: n = 4, t = 2, initial DKG result votes true,true,false,false: both candidates
// reach the threshold (needs 2t <= n).
func voteSplit(u *appdrv.Universe, order []bool) appdrv.History {
	g := appdrv.Genesis{Threshold: 2, ChainID: "verif-chain", ForkNil: true,
		Validators: []appdrv.KV{{K: make([]byte, 32), P: 10}}}
	for i := 0; i < 4; i++ {
		g.Keypers = append(g.Keypers, u.Addrs[i].Bytes())
	}
	h := appdrv.History{Genesis: g}
	h.Calls = append(h.Calls, appdrv.Call{Kind: "begin", Height: 1})
	// a config vote by two members starts eon 1 with the new config (threshold 2 of 4)
	cfg := shmsg.NewBatchConfig(0, u.Addrs[:4], 2, 1)
	nonce := uint64(100)
	for i := 0; i < 2; i++ {
		nonce++
		h.Calls = append(h.Calls, appdrv.Call{Kind: "deliver", Tx: appdrv.SignTx(u.Keys[i], g.ChainID, nonce, cfg), Note: "vote"})
	}
	for i, s := range order {
		nonce++
		h.Calls = append(h.Calls, appdrv.Call{Kind: "deliver", Tx: appdrv.SignTx(u.Keys[i], g.ChainID, nonce, shmsg.NewDKGResult(1, s)), Note: fmt.Sprintf("dkgresult %v", s)})
	}
	h.Calls = append(h.Calls, appdrv.Call{Kind: "end", Height: 1}, appdrv.Call{Kind: "commit"})
	return h
}

func main() {
	run := vh.Start("Verif.Corr.C09", 40)
	run.SetPreamble("From Verif Require Import Model.Powermap Model.App Corr.App.\nOpen Scope N_scope.")
	defer run.Finish()
	run.Rule = "ABCI histories generated online against the real app (6-key universe, 2-5 genesis keypers, 3 candidate configs, all message types, malformed stream); each history runs once for the model comparison and on two further replica pairs compared bytewise; non-trivial = at least 3 events and 3 accepted transactions; distinct by call list"
	u := appdrv.NewUniverse(8)
	univ = u
	if d, err := os.MkdirTemp("", "verif-c09-"); err == nil {
		tmpDir = d
		defer os.RemoveAll(d)
	}
	if run.Replay != "" {
		var h appdrv.History
		if err := run.LoadReplay(&h); err != nil {
			panic(err)
		}
		replicate(run, h, 64, "C09:replicas-diverge")
		emit(run, h)
		return
	}
	// forced: vote-split histories, repeated so that map iteration order has a chance to differ
	for _, order := range [][]bool{{true, true, false, false}, {true, false, true, false}, {false, false, true, true}, {false, true, false, true}} {
		h := voteSplit(u, order)
		replicate(run, h, run.Scale(48, 400), "C09:replicas-diverge")
		emit(run, h)
	}
	// forced: one sender with many transactions (more than any plausible bound on per-sender
	// bookkeeping), then the same transactions delivered again: whatever a node forgets, all
	// nodes must forget alike (seeded C09d evicted a nonce in map order once a sender had 256)
	{
		g := appdrv.Genesis{ChainID: "verif-chain", Threshold: 2, Validators: []appdrv.KV{{K: make([]byte, 32), P: 10}}}
		for i := 0; i < 3; i++ {
			g.Keypers = append(g.Keypers, u.Addrs[i].Bytes())
		}
		h := appdrv.History{Genesis: g}
		const many = 300
		var txs [][]byte
		for i := 0; i < many; i++ {
			txs = append(txs, appdrv.SignTx(u.Keys[0], g.ChainID, uint64(5000+i), shmsg.NewBlockSeen(uint64(i%7))))
		}
		height := int64(0)
		block := func(part [][]byte, note string) {
			height++
			h.Calls = append(h.Calls, appdrv.Call{Kind: "begin", Height: height})
			for _, t := range part {
				h.Calls = append(h.Calls, appdrv.Call{Kind: "deliver", Tx: t, Note: note})
			}
			h.Calls = append(h.Calls, appdrv.Call{Kind: "end", Height: height}, appdrv.Call{Kind: "commit"})
		}
		for i := 0; i < many; i += 50 {
			block(txs[i:i+50], "many-nonces")
		}
		for i := 0; i < many; i += 60 {
			block(txs[i:i+60], "many-nonces again")
		}
		replicate(run, h, run.Scale(6, 40), "C09:replicas-diverge")
		emit(run, h)
		run.Dist["forced:one-sender-300-nonces-then-replayed"]++
	}
	// forced: one sender fills its per-block mempool quota (and more) through CheckTx before the
	// block that carries the same transactions is executed; the replicas of a pair see different
	// subsets of those CheckTx calls (seeded C09h let DeliverTx read the mempool's per-sender count)
	{
		g := appdrv.Genesis{ChainID: "verif-chain", Threshold: 2, Validators: []appdrv.KV{{K: make([]byte, 32), P: 10}}}
		for i := 0; i < 3; i++ {
			g.Keypers = append(g.Keypers, u.Addrs[i].Bytes())
		}
		h := appdrv.History{Genesis: g}
		for b := int64(1); b <= 2; b++ {
			var txs [][]byte
			for i := 0; i < 14; i++ {
				txs = append(txs, appdrv.SignTx(u.Keys[0], g.ChainID, uint64(7000+100*int(b)+i), shmsg.NewBlockSeen(uint64(i))))
			}
			for _, t := range txs {
				h.Calls = append(h.Calls, appdrv.Call{Kind: "check", Tx: t, Note: "mempool quota"})
			}
			h.Calls = append(h.Calls, appdrv.Call{Kind: "begin", Height: b})
			for _, t := range txs {
				h.Calls = append(h.Calls, appdrv.Call{Kind: "deliver", Tx: t, Note: "mempool quota"})
			}
			h.Calls = append(h.Calls, appdrv.Call{Kind: "end", Height: b}, appdrv.Call{Kind: "commit"})
		}
		replicate(run, h, run.Scale(8, 40), "C09:replicas-diverge")
		emit(run, h)
		run.Dist["forced:sender-over-mempool-quota"]++
	}
	n := run.Scale(300, 6000)
	for i := 0; i < n; i++ {
		g := &appdrv.Gen{U: u, R: run.RNG.Fork(), Weird: i%5 == 0}
		var h appdrv.History
		if i%10 == 9 {
			h, _, _ = g.ManyEonsHistory(4 + run.RNG.Intn(4))
			run.Dist["history:many-eons"]++
		} else if i%5 == 4 {
			h, _, _ = g.DKGHistory(5+run.RNG.Intn(6), 8)
		} else if i%2 == 1 {
			h, _, _ = g.TransitionHistory(3+run.RNG.Intn(6), 8)
		} else {
			h, _, _ = g.RandomHistory(3+run.RNG.Intn(6), 7)
		}
		replicate(run, h, 1, "C09:replicas-diverge")
		emit(run, h)
	}
}
