//go:build verif

// Driver for C12 (validator updates lead to the intended, live validator set).
package main

import (
	"bytes"
	"fmt"
	"sort"

	abcitypes "github.com/tendermint/tendermint/abci/types"

	"github.com/shutter-network/rolling-shutter/rolling-shutter/app"

	"verifharness/appdrv"
	"verifharness/vh"
)

type kv struct {
	K []byte `json:"k"`
	P int64  `json:"p"`
}

func pmOf(l []kv) app.Powermap {
	m := app.Powermap{}
	for _, e := range l {
		m[app.ValidatorPubkey{Ed25519pubkey: string(e.K)}] = e.P
	}
	return m
}

func coqKVs(l []kv) string {
	xs := make([]string, len(l))
	for i, e := range l {
		xs[i] = vh.CPair(vh.CBytes(e.K), vh.CZ(e.P))
	}
	return vh.CList(xs)
}

func updatesOf(us []abcitypes.ValidatorUpdate) []kv {
	var out []kv
	for _, u := range us {
		out = append(out, kv{K: u.PubKey.GetEd25519(), P: u.Power})
	}
	return out
}

// refApply is the reference Tendermint rule (ValidatorSet.UpdateWithChangeSet), written from
// tendermint/types/validator_set.go: duplicates, negative powers, removal of an absent
// validator and an empty resulting set are errors.
func refApply(vs map[string]int64, ups []kv) (map[string]int64, string) {
	if len(ups) == 0 {
		return vs, ""
	}
	seen := map[string]bool{}
	for _, u := range ups {
		if seen[string(u.K)] {
			return nil, "duplicate"
		}
		seen[string(u.K)] = true
		if u.P < 0 {
			return nil, "negative"
		}
	}
	out := map[string]int64{}
	for k, p := range vs {
		out[k] = p
	}
	for _, u := range ups {
		if u.P == 0 {
			if _, ok := out[string(u.K)]; !ok {
				return nil, "remove-absent"
			}
			delete(out, string(u.K))
		} else {
			out[string(u.K)] = u.P
		}
	}
	if len(out) == 0 {
		return nil, "empty"
	}
	return out, ""
}

type diffCase struct {
	Kind string `json:"kind"`
	Old  []kv   `json:"old"`
	New  []kv   `json:"new"`
}

func genPM(r *vh.RNG, keys [][]byte, allowEmpty bool) []kv {
	var out []kv
	for _, k := range keys {
		if r.Chance(1, 2) {
			out = append(out, kv{K: k, P: int64(10 * (1 + r.Intn(4)))})
		}
	}
	if len(out) == 0 && !allowEmpty {
		out = append(out, kv{K: keys[r.Intn(len(keys))], P: 10})
	}
	return out
}

func runDiff(run *vh.Run, c diffCase) {
	id := run.NextID()
	var ups []kv
	panicked, msg := vh.Guard(func() {
		ups = updatesOf(app.DiffPowermaps(pmOf(c.Old), pmOf(c.New)).ValidatorUpdates())
	})
	if panicked {
		run.Violate(vh.Violation{Key: "C12:diff-panic", What: "DiffPowermaps/ValidatorUpdates panicked: " + msg, Case: c})
		return
	}
	// oracle: sorted strictly, removal only of present keys, fold gives exactly new
	old := map[string]int64{}
	for _, e := range c.Old {
		old[string(e.K)] = e.P
	}
	want := map[string]int64{}
	for _, e := range c.New {
		want[string(e.K)] = e.P
	}
	for i := 1; i < len(ups); i++ {
		if bytes.Compare(ups[i-1].K, ups[i].K) >= 0 {
			run.Violate(vh.Violation{Key: "C12:updates-not-strictly-sorted", What: "validator updates not strictly sorted by key", Case: c, Observed: ups})
		}
	}
	got, err := refApply(old, ups)
	if err != "" {
		run.Violate(vh.Violation{Key: "C12:apply-fails:" + err, What: "Tendermint would refuse the change set: " + err, Case: c, Observed: ups})
	} else if !sameMap(got, want) {
		run.Violate(vh.Violation{Key: "C12:apply-wrong-set", What: "applying the updates does not yield the intended set", Case: c, Observed: ups, Expected: c.New})
	}
	nontrivial := len(ups) >= 2
	run.Dist[fmt.Sprintf("diff:updates=%d", min(len(ups), 6))]++
	run.AddCase(id, vh.CApp("CDiff", vh.CN(id), coqKVs(c.Old), coqKVs(c.New), coqKVs(ups)), c,
		fmt.Sprint(c), nontrivial)
}

func sameMap(a, b map[string]int64) bool {
	if len(a) != len(b) {
		return false
	}
	for k, v := range a {
		if w, ok := b[k]; !ok || w != v {
			return false
		}
	}
	return true
}

func sortKV(l []kv) {
	sort.Slice(l, func(i, j int) bool { return bytes.Compare(l[i].K, l[j].K) < 0 })
}

// histOracle folds the end-block validator updates over the genesis validator set with the
// reference Tendermint rule and compares with the application's own map and with the set
// the property says is intended.
func histOracle(run *vh.Run, h appdrv.History, rs []appdrv.Resp, finalVals map[string]int64) {
	if h.Genesis.DevMode {
		return
	}
	vs := map[string]int64{}
	for _, v := range h.Genesis.Validators {
		vs[string(v.K)] += v.P
	}
	// replay on a second app instance to look at the state after every EndBlock
	a, _ := appdrv.NewApp(h.Genesis)
	// the oracle's own table of validator identities: written by ACCEPTED check-ins only
	// (a check-in answered with a non-zero code must not register or change an identity)
	ownIDs := map[string]string{}
	// the oracle's own record of the highest main-chain block each sender reported (accepted
	// block-seen messages), from which it decides itself when a configuration has to be started
	ownSeen := map[string]uint64{}
	ownStarted := map[int]bool{}
	lastEnd := int64(0)
	for i, c := range h.Calls {
		eonBefore := a.EONCounter
		appdrv.Exec(a, c)
		if c.Kind == "end" && rs[i].Panic == "" {
			lastEnd = c.Height
		}
		// the check-in update fork, decided by the oracle itself from the genesis, the height of
		// the block being executed and the eon counter: a repeated check-in is dismissed as
		// "already seen" exactly before the fork and replaces the key from the fork on
		if c.Kind == "deliver" && rs[i].Panic == "" {
			if m, ok := appdrv.MessageOf(c.Tx); ok && m.GetCheckIn() != nil {
				if _, signer, ok := appdrv.DecodeTx(c.Tx); ok {
					_, known := ownIDs[string(signer)]
					active := ownForkActive(h.Genesis, lastEnd+1, eonBefore)
					if rs[i].Code == 2 && !(known && !active) {
						run.Violate(vh.Violation{Key: "C12:check-in-dismissed-although-it-must-count", What: fmt.Sprintf("call %d (%s): a check-in is dismissed as already seen in block %d (first check-in of the sender: %v; check-in update fork active: %v)", i, c.Note, lastEnd+1, !known, active), Case: histCase{"hist", h}})
						return
					}
					if rs[i].Code == 0 && known && !active {
						run.Violate(vh.Violation{Key: "C12:check-in-replaced-before-the-fork", What: fmt.Sprintf("call %d (%s): a repeated check-in is accepted in block %d although the check-in update fork is not active", i, c.Note, lastEnd+1), Case: histCase{"hist", h}})
						return
					}
				}
			}
		}
		if c.Kind == "deliver" && rs[i].Panic == "" && rs[i].Code == 0 {
			if m, ok := appdrv.MessageOf(c.Tx); ok && m.GetBlockSeen() != nil {
				if _, signer, ok := appdrv.DecodeTx(c.Tx); ok {
					if bn := m.GetBlockSeen().BlockNumber; bn > ownSeen[string(signer)] {
						ownSeen[string(signer)] = bn
					}
				}
			}
		}
		if c.Kind == "end" && rs[i].Panic == "" {
			// a configuration is started exactly when a threshold of the PRECEDING configuration's
			// keypers (its own for the first one) have reported a block at or past its activation block
			for j, cfg := range a.Configs {
				prev := a.Configs[0]
				if j > 0 {
					prev = a.Configs[j-1]
				}
				if !ownStarted[j] {
					var n uint64
					for _, k := range prev.Keypers {
						if b, ok := ownSeen[string(k.Bytes())]; ok && b >= cfg.ActivationBlockNumber {
							n++
						}
					}
					if n >= prev.Threshold {
						ownStarted[j] = true
					}
				}
				if ownStarted[j] != cfg.Started {
					run.Violate(vh.Violation{Key: "C12:config-start-differs-from-block-seen-quorum", What: fmt.Sprintf("call %d: configuration %d started=%v, but by the accepted block-seen reports it should be started=%v", i, j, cfg.Started, ownStarted[j]), Case: histCase{"hist", h}})
					return
				}
			}
		}
		if c.Kind == "deliver" && rs[i].Panic == "" {
			if m, ok := appdrv.MessageOf(c.Tx); ok && m.GetCheckIn() != nil && rs[i].Code == 0 {
				if _, signer, ok := appdrv.DecodeTx(c.Tx); ok {
					ownIDs[string(signer)] = string(m.GetCheckIn().ValidatorPublicKey)
				}
			}
			appIDs := map[string]string{}
			for k, v := range a.Identities {
				appIDs[string(k.Bytes())] = v.Ed25519pubkey
			}
			if len(appIDs) != len(ownIDs) {
				run.Violate(vh.Violation{Key: "C12:identity-without-accepted-check-in", What: fmt.Sprintf("call %d (%s): the application's validator identities are not the ones of the accepted check-ins", i, c.Note), Case: histCase{"hist", h}})
				return
			}
			for k, v := range ownIDs {
				if appIDs[k] != v {
					run.Violate(vh.Violation{Key: "C12:identity-without-accepted-check-in", What: fmt.Sprintf("call %d (%s): the application's validator identities are not the ones of the accepted check-ins", i, c.Note), Case: histCase{"hist", h}})
					return
				}
			}
		}
		if c.Kind != "end" || rs[i].Panic != "" {
			continue
		}
		var ups []kv
		for _, u := range rs[i].Updates {
			ups = append(ups, kv{K: u.K, P: u.P})
		}
		for j := 1; j < len(ups); j++ {
			if bytes.Compare(ups[j-1].K, ups[j].K) >= 0 {
				run.Violate(vh.Violation{Key: "C12:updates-not-strictly-sorted", What: fmt.Sprintf("call %d: validator updates not strictly sorted", i), Case: histCase{"hist", h}, Observed: ups})
			}
		}
		nvs, err := refApply(vs, ups)
		if err != "" {
			run.Violate(vh.Violation{Key: "C12:apply-fails:" + err, What: fmt.Sprintf("call %d: Tendermint would refuse the validator updates: %s", i, err), Case: histCase{"hist", h}, Observed: ups})
			return
		}
		vs = nvs
		appVals := map[string]int64{}
		for k, p := range a.Validators {
			appVals[k.Ed25519pubkey] = p
		}
		if !sameMap(vs, appVals) {
			run.Violate(vh.Violation{Key: "C12:fold-differs-from-app", What: fmt.Sprintf("call %d: folding the updates does not give the application's validator map", i), Case: histCase{"hist", h}})
			return
		}
		// intended set: newest started config with its check-in quorum met
		var eff *app.BatchConfig
		for j := len(a.Configs) - 1; j >= 0; j-- {
			if a.Configs[j].Started && a.Configs[j].ValidatorsUpdated {
				eff = a.Configs[j]
				break
			}
		}
		if eff != nil {
			want := map[string]int64{}
			checked := 0
			for _, k := range eff.Keypers {
				if id, ok := ownIDs[string(k.Bytes())]; ok {
					want[id] += 10
					checked++
				} else {
					want[app.NonExistentValidator.Ed25519pubkey] += 10
				}
			}
			if !sameMap(want, appVals) {
				run.Violate(vh.Violation{Key: "C12:not-intended-set", What: fmt.Sprintf("call %d: validator map is not 10 per keyper of the effective config", i), Case: histCase{"hist", h}})
			}
			n := len(eff.Keypers)
			if 3*checked <= 2*n || uint64(checked) < eff.Threshold {
				run.Violate(vh.Violation{Key: "C12:less-than-two-thirds-checked-in", What: fmt.Sprintf("call %d: effective config has %d of %d keypers checked in (threshold %d)", i, checked, n, eff.Threshold), Case: histCase{"hist", h}})
			}
			run.Dist["effective_config_heights"]++
		}
	}
}

// ownForkActive: the rule of the check-in update fork as the documentation of forks.go states
// it - a chain with an override is governed by the override's eon alone, any other chain by
// "enabled and current height >= fork height" (a genesis without fork heights is migrated to
// "disabled" by InitChain: never, unless the chain has an override; the legacy genesis format:
// enabled at the height it names).
func ownForkActive(g appdrv.Genesis, height int64, eon uint64) bool {
	overrides := map[string]uint64{"shutter-gnosis-1000": 9, "shutter-chiado-102000": 13, "shutter-api-gnosis-1001": 13,
		"shutter-service-chiado-1000": 9, "shutter-api-gnosis-1002": 0}
	if e, ok := overrides[g.ChainID]; ok {
		return eon >= e
	}
	if g.ForkNil {
		return false
	}
	if g.ForkLegacy {
		return height >= g.ForkHeight
	}
	return g.ForkEnabled && height >= g.ForkHeight
}

type histCase struct {
	Kind    string         `json:"kind"`
	History appdrv.History `json:"history"`
}

func runHist(run *vh.Run, h appdrv.History) {
	rs, a, err := appdrv.RunHistory(h)
	if err != nil {
		panic(err)
	}
	fv := map[string]int64{}
	for k, p := range a.Validators {
		fv[k.Ed25519pubkey] = p
	}
	histOracle(run, h, rs, fv)
	id := run.NextID()
	nup := 0
	for _, r := range rs {
		if len(r.Updates) > 0 {
			nup++
		}
	}
	run.Dist[fmt.Sprintf("hist:blocks_with_updates=%d", min(nup, 4))]++
	run.AddCase(id, vh.CApp("CHist", appdrv.CaseCoq(id, h, rs, a)), histCase{"hist", h}, fmt.Sprint(h.Calls), nup >= 1)
}

func main() {
	run := vh.Start("Verif.Corr.C12", 60)
	run.SetPreamble("From Verif Require Import Model.Powermap Model.App Corr.App.\nOpen Scope N_scope.")
	defer run.Finish()
	run.Rule = "(a) powermap pairs over a small key universe (exhaustive over 3 keys x powers {absent,10,20} first, then random over 6 keys); non-trivial = at least two validator updates produced; distinct by canonical rendering of the case; (b) ABCI histories on the real application (check-ins incl. shared / placeholder / genesis validator keys, config votes, block-seen reports), non-trivial = at least one block with validator updates; oracle: reference Tendermint fold, intended set, two-thirds test after every EndBlock"
	if run.Replay != "" {
		var hc histCase
		if err := run.LoadReplay(&hc); err == nil && hc.Kind == "hist" {
			runHist(run, hc.History)
			return
		}
		var c diffCase
		if err := run.LoadReplay(&c); err != nil {
			panic(err)
		}
		runDiff(run, c)
		return
	}
	keys := [][]byte{}
	for i := 0; i < 6; i++ {
		k := make([]byte, 32)
		k[0] = byte(0x10 * (i + 1))
		k[31] = byte(i)
		keys = append(keys, k)
	}
	keys = append(keys, []byte(app.NonExistentValidator.Ed25519pubkey))
	// exhaustive small table: 3 keys, each absent / 10 / 20 on both sides, new non-empty
	pw := []int64{-1, 10, 20}
	for a := 0; a < 27; a++ {
		for b := 1; b < 27; b++ {
			var o, n []kv
			x, y := a, b
			for i := 0; i < 3; i++ {
				if pw[x%3] > 0 {
					o = append(o, kv{keys[i], pw[x%3]})
				}
				if pw[y%3] > 0 {
					n = append(n, kv{keys[i], pw[y%3]})
				}
				x /= 3
				y /= 3
			}
			if len(n) == 0 {
				continue
			}
			runDiff(run, diffCase{"diff", o, n})
		}
	}
	n := run.Scale(600, 20000)
	for i := 0; i < n; i++ {
		o := genPM(run.RNG, keys, true)
		nw := genPM(run.RNG, keys, false)
		runDiff(run, diffCase{"diff", o, nw})
	}
	// histories on the real application: check-ins, config votes, block-seen reports
	u := appdrv.NewUniverse(8)
	nh := run.Scale(250, 5000)
	for i := 0; i < nh; i++ {
		g := &appdrv.Gen{U: u, R: run.RNG.Fork(), NoJunk: i%2 == 0}
		var h appdrv.History
		if i%3 != 0 {
			h, _, _ = g.TransitionHistory(4+run.RNG.Intn(8), 8)
		} else {
			h, _, _ = g.RandomHistory(4+run.RNG.Intn(8), 8)
		}
		runHist(run, h)
	}
}
