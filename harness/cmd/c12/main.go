//go:build verif

// Driver for C12 (validator updates lead to the intended, live validator set).
package main

import (
	"bytes"
	"fmt"
	"sort"

	abcitypes "github.com/tendermint/tendermint/abci/types"

	"github.com/shutter-network/rolling-shutter/rolling-shutter/app"

	"verifharness/vh"
)

type kv struct {
	K []byte `json:"k"`
	P int64  `json:"p"`
}

func pmOf(l []kv) app.Powermap {
	m := app.Powermap{}
	for _, e := range l {
		m[app.ValidatorPubkey{Ed25519pubkey: string(e.K)}] = e.P
	}
	return m
}

func coqKVs(l []kv) string {
	xs := make([]string, len(l))
	for i, e := range l {
		xs[i] = vh.CPair(vh.CBytes(e.K), vh.CZ(e.P))
	}
	return vh.CList(xs)
}

func updatesOf(us []abcitypes.ValidatorUpdate) []kv {
	var out []kv
	for _, u := range us {
		out = append(out, kv{K: u.PubKey.GetEd25519(), P: u.Power})
	}
	return out
}

// refApply is the reference Tendermint rule (ValidatorSet.UpdateWithChangeSet), written from
// tendermint/types/validator_set.go: duplicates, negative powers, removal of an absent
// validator and an empty resulting set are errors.
func refApply(vs map[string]int64, ups []kv) (map[string]int64, string) {
	if len(ups) == 0 {
		return vs, ""
	}
	seen := map[string]bool{}
	for _, u := range ups {
		if seen[string(u.K)] {
			return nil, "duplicate"
		}
		seen[string(u.K)] = true
		if u.P < 0 {
			return nil, "negative"
		}
	}
	out := map[string]int64{}
	for k, p := range vs {
		out[k] = p
	}
	for _, u := range ups {
		if u.P == 0 {
			if _, ok := out[string(u.K)]; !ok {
				return nil, "remove-absent"
			}
			delete(out, string(u.K))
		} else {
			out[string(u.K)] = u.P
		}
	}
	if len(out) == 0 {
		return nil, "empty"
	}
	return out, ""
}

type diffCase struct {
	Kind string `json:"kind"`
	Old  []kv   `json:"old"`
	New  []kv   `json:"new"`
}

func genPM(r *vh.RNG, keys [][]byte, allowEmpty bool) []kv {
	var out []kv
	for _, k := range keys {
		if r.Chance(1, 2) {
			out = append(out, kv{K: k, P: int64(10 * (1 + r.Intn(4)))})
		}
	}
	if len(out) == 0 && !allowEmpty {
		out = append(out, kv{K: keys[r.Intn(len(keys))], P: 10})
	}
	return out
}

func runDiff(run *vh.Run, c diffCase) {
	id := run.NextID()
	var ups []kv
	panicked, msg := vh.Guard(func() {
		ups = updatesOf(app.DiffPowermaps(pmOf(c.Old), pmOf(c.New)).ValidatorUpdates())
	})
	if panicked {
		run.Violate(vh.Violation{Key: "C12:diff-panic", What: "DiffPowermaps/ValidatorUpdates panicked: " + msg, Case: c})
		return
	}
	// oracle: sorted strictly, removal only of present keys, fold gives exactly new
	old := map[string]int64{}
	for _, e := range c.Old {
		old[string(e.K)] = e.P
	}
	want := map[string]int64{}
	for _, e := range c.New {
		want[string(e.K)] = e.P
	}
	for i := 1; i < len(ups); i++ {
		if bytes.Compare(ups[i-1].K, ups[i].K) >= 0 {
			run.Violate(vh.Violation{Key: "C12:updates-not-strictly-sorted", What: "validator updates not strictly sorted by key", Case: c, Observed: ups})
		}
	}
	got, err := refApply(old, ups)
	if err != "" {
		run.Violate(vh.Violation{Key: "C12:apply-fails:" + err, What: "Tendermint would refuse the change set: " + err, Case: c, Observed: ups})
	} else if !sameMap(got, want) {
		run.Violate(vh.Violation{Key: "C12:apply-wrong-set", What: "applying the updates does not yield the intended set", Case: c, Observed: ups, Expected: c.New})
	}
	nontrivial := len(ups) >= 2
	run.Dist[fmt.Sprintf("diff:updates=%d", min(len(ups), 6))]++
	run.AddCase(id, vh.CApp("CDiff", vh.CN(id), coqKVs(c.Old), coqKVs(c.New), coqKVs(ups)), c,
		fmt.Sprint(c), nontrivial)
}

func sameMap(a, b map[string]int64) bool {
	if len(a) != len(b) {
		return false
	}
	for k, v := range a {
		if w, ok := b[k]; !ok || w != v {
			return false
		}
	}
	return true
}

func sortKV(l []kv) {
	sort.Slice(l, func(i, j int) bool { return bytes.Compare(l[i].K, l[j].K) < 0 })
}

func main() {
	run := vh.Start("Verif.Corr.C12", 400)
	defer run.Finish()
	run.Rule = "powermap pairs over a small key universe (exhaustive over 3 keys x powers {absent,10,20} first, then random over 6 keys); non-trivial = at least two validator updates produced; distinct by canonical rendering of the case"
	if run.Replay != "" {
		var c diffCase
		if err := run.LoadReplay(&c); err != nil {
			panic(err)
		}
		runDiff(run, c)
		return
	}
	keys := [][]byte{}
	for i := 0; i < 6; i++ {
		k := make([]byte, 32)
		k[0] = byte(0x10 * (i + 1))
		k[31] = byte(i)
		keys = append(keys, k)
	}
	keys = append(keys, []byte(app.NonExistentValidator.Ed25519pubkey))
	// exhaustive small table: 3 keys, each absent / 10 / 20 on both sides, new non-empty
	pw := []int64{-1, 10, 20}
	for a := 0; a < 27; a++ {
		for b := 1; b < 27; b++ {
			var o, n []kv
			x, y := a, b
			for i := 0; i < 3; i++ {
				if pw[x%3] > 0 {
					o = append(o, kv{keys[i], pw[x%3]})
				}
				if pw[y%3] > 0 {
					n = append(n, kv{keys[i], pw[y%3]})
				}
				x /= 3
				y /= 3
			}
			if len(n) == 0 {
				continue
			}
			runDiff(run, diffCase{"diff", o, n})
		}
	}
	n := run.Scale(600, 20000)
	for i := 0; i < n; i++ {
		o := genPM(run.RNG, keys, true)
		nw := genPM(run.RNG, keys, false)
		runDiff(run, diffCase{"diff", o, nw})
	}
}
