//go:build verif

// Spec variants for C18: the guard's lookup order.
//
// On the shipped document no concrete path is matched by a path template, so the order in
// which findOperation consults the spec (exact path first, then templates in map order) is
// never decisive there. It is part of the mechanism all the same: kproapi.ConfigMiddlewareWithSpec
// is exported and the document grows. The variants below are the real document (GetSwagger)
// plus added operations whose concrete path is also matched by a template of the other
// classification (both directions), or by two templates; every added operation gets a route on
// the generated chi router next to the real ones, and the guard is given the extended spec.
//
// Reference decision (oracle): the operation the router dispatches to decides. With write
// operations disabled a dispatch to (or entry into) an operation not marked read-only is a
// violation, the canonical request of a read-only operation must be dispatched, and the same
// request must get the same answer every time: each request is repeated on several freshly
// built middleware/router instances, several times each (Go's map iteration order varies per
// loop). Requests here are plain spellings only (no percent-escapes): the spelling dimension
// is the business of the main stream on the real document.
package main

import (
	"encoding/json"
	"fmt"
	"net/http"
	"sort"
	"strings"

	chimiddleware "github.com/deepmap/oapi-codegen/pkg/chi-middleware"
	"github.com/getkin/kin-openapi/openapi3"
	"github.com/go-chi/chi/v5"
	"github.com/go-chi/chi/v5/middleware"
	"github.com/jackc/pgx/v4/pgxpool"

	"github.com/shutter-network/rolling-shutter/rolling-shutter/keyper/kprapi"
	"github.com/shutter-network/rolling-shutter/rolling-shutter/keyper/kproapi"

	"verifharness/vh"
)

type addedOp struct {
	Method   string `json:"method"`
	Template string `json:"template"`
	OpID     string `json:"operation_id"`
	Ro       string `json:"x_read_only"` // "true" | "false" | "absent"
}

func (a addedOp) readOnly() bool { return a.Ro == "true" }
func (a addedOp) handlerName() string {
	return "Added:" + strings.ToUpper(a.OpID[:1]) + a.OpID[1:]
}

type variant struct {
	Name  string
	Added []addedOp
	Paths []string // request paths below the mount prefix
}

var variants = []variant{
	{
		Name:  "write-concrete-under-read-only-template",
		Added: []addedOp{{"GET", "/decryptionKey/regenerate/all", "regenerateDecryptionKeys", "false"}},
		Paths: []string{"/decryptionKey/regenerate/all", "/decryptionKey/regenerate/other", "/decryptionKey/7/all", "/decryptionKey/7/" + epoch64, "/decryptionKey/regenerate/all/", "/decryptionKey/regenerate", "/ping", "/shutdown"},
	},
	{
		Name: "read-only-concrete-under-write-template",
		Added: []addedOp{
			{"GET", "/admin/{action}/{target}", "adminAction", "false"},
			{"GET", "/admin/status/all", "adminStatus", "true"},
		},
		Paths: []string{"/admin/status/all", "/admin/status/7", "/admin/7/all", "/admin/7/7", "/admin/status", "/admin/status/all/", "/eons"},
	},
	{
		Name: "write-concrete-under-added-read-only-template-post",
		Added: []addedOp{
			{"POST", "/jobs/{id}", "getJobByPost", "true"},
			{"POST", "/jobs/purge", "purgeJobs", "false"},
		},
		Paths: []string{"/jobs/purge", "/jobs/7", "/jobs/purge/", "/jobs", "/shutdown", "/decryptionTrigger"},
	},
	{
		Name: "write-concrete-under-two-read-only-templates",
		Added: []addedOp{
			{"GET", "/items/{a}/list", "listItemsOf", "true"},
			{"GET", "/items/all/{b}", "itemOfAll", "true"},
			{"GET", "/items/all/list", "rebuildItemList", "false"},
		},
		Paths: []string{"/items/all/list", "/items/7/list", "/items/all/7", "/items/7/7", "/items/all/list/"},
	},
	{
		Name: "read-only-concrete-under-two-write-templates",
		Added: []addedOp{
			{"GET", "/tasks/{a}/info", "touchTask", "false"},
			{"GET", "/tasks/top/{b}", "dropTopTask", "false"},
			{"GET", "/tasks/top/info", "topTaskInfo", "true"},
		},
		Paths: []string{"/tasks/top/info", "/tasks/7/info", "/tasks/top/7", "/tasks/7/7"},
	},
	{
		Name: "unmarked-concrete-under-read-only-template-put",
		Added: []addedOp{
			{"PUT", "/cfg/{key}", "readCfgByPut", "true"},
			{"PUT", "/cfg/reset", "resetCfg", "absent"},
		},
		Paths: []string{"/cfg/reset", "/cfg/7", "/cfg/reset/", "/cfg"},
	},
	{
		Name:  "write-template-over-the-real-read-only-paths",
		Added: []addedOp{{"GET", "/{section}", "dropSection", "false"}},
		Paths: []string{"/ping", "/eons", "/7", "/shutdown", "/decryptionKey", "/decryptionKey/7/" + epoch64},
	},
}

func variantByName(name string) *variant {
	for i := range variants {
		if variants[i].Name == name {
			return &variants[i]
		}
	}
	return nil
}

// variantSpec returns the getSpec function handed to ConfigMiddlewareWithSpec: the embedded
// document plus the added operations, built anew on every call (as GetSwagger does).
func variantSpec(v *variant) func() (*openapi3.T, error) {
	return func() (*openapi3.T, error) {
		spec, err := kproapi.GetSwagger()
		if err != nil {
			return nil, err
		}
		spec.Servers = nil
		for _, a := range v.Added {
			op := openapi3.NewOperation()
			op.OperationID = a.OpID
			op.Description = "added by the verification harness"
			op.Responses = openapi3.NewResponses()
			if a.Ro != "absent" {
				op.Extensions = map[string]interface{}{"x-read-only": json.RawMessage(a.Ro)}
			}
			for _, seg := range strings.Split(a.Template, "/") {
				if strings.HasPrefix(seg, "{") {
					p := openapi3.NewPathParameter(seg[1 : len(seg)-1]).WithSchema(openapi3.NewStringSchema())
					op.AddParameter(p)
				}
			}
			item := spec.Paths[a.Template]
			if item == nil {
				item = &openapi3.PathItem{}
				spec.Paths[a.Template] = item
			}
			item.SetOperation(a.Method, op)
		}
		return spec, nil
	}
}

// newVariantStacks: the four stacks of newStacks for a spec variant (full = with
// OapiRequestValidator built from the extended spec).
func newVariantStacks(pool *pgxpool.Pool, v *variant) ([]*stack, error) {
	var out []*stack
	getSpec := variantSpec(v)
	for _, full := range []bool{true, false} {
		for _, write := range []bool{false, true} {
			srv, _, trig, shut := kprapi.VerifNewServer(pool, cfg{write}, nil, 16)
			st := &stack{write: write, full: full, trigger: trig, shutdown: shut}
			api := chi.NewRouter()
			if full {
				spec, err := getSpec()
				if err != nil {
					return nil, err
				}
				var mw func(http.Handler) http.Handler
				if panicked, msg := vh.Guard(func() { mw = chimiddleware.OapiRequestValidator(spec) }); panicked {
					return nil, fmt.Errorf("request validator refuses the extended spec: %s", msg)
				}
				api.Use(mw)
				st.name = "variant-full"
			} else {
				st.name = "variant-nv"
			}
			api.Use(kproapi.ConfigMiddlewareWithSpec(write, getSpec))
			_ = kproapi.HandlerFromMux(recorder{inner: srv, entered: &st.entered}, api)
			for _, a := range v.Added {
				name := a.handlerName()
				api.MethodFunc(a.Method, a.Template, func(w http.ResponseWriter, _ *http.Request) {
					st.entered = append(st.entered, name)
					_, _ = w.Write([]byte("added"))
				})
			}
			root := chi.NewRouter()
			root.Use(middleware.Logger)
			root.Use(middleware.Recoverer)
			root.Mount(mountPrefix, http.StripPrefix(mountPrefix, api))
			st.handler = root
			if write {
				st.name += "-on"
			} else {
				st.name += "-off"
			}
			out = append(out, st)
		}
	}
	return out, nil
}

// variantOps: the operations of the variant as the oracle sees them.
func (w *world) variantOps(v *variant) []yamlOp {
	ops := append([]yamlOp{}, w.ops...)
	for _, a := range v.Added {
		ops = append(ops, yamlOp{Method: a.Method, Template: a.Template, OpID: a.OpID, ReadOnly: a.readOnly()})
	}
	return ops
}

func plainCanonical(template string) string {
	segs := strings.Split(template, "/")
	for i, s := range segs {
		if strings.HasPrefix(s, "{") {
			segs[i] = "7"
		}
	}
	return strings.Join(segs, "/")
}

const (
	variantInstances = 4
	variantRepsNV    = 4 // per instance
	variantRepsFull  = 2
)

func variantMethods(v *variant) []string {
	seen := map[string]bool{}
	var out []string
	for _, m := range []string{"GET", "POST"} {
		seen[m] = true
		out = append(out, m)
	}
	for _, a := range v.Added {
		if !seen[a.Method] {
			seen[a.Method] = true
			out = append(out, a.Method)
		}
	}
	return append(out, "DELETE")
}

func coqAdded(v *variant) string {
	var xs []string
	for _, a := range v.Added {
		ro := map[string]string{"true": "RoTrue", "false": "RoFalse", "absent": "RoAbsent"}[a.Ro]
		xs = append(xs, vh.CApp("mk_op", vh.CStr(a.Method), vh.CStr(a.Template), ro, vh.CStr(a.OpID)))
	}
	return vh.CList(xs)
}

// runVariantCase serves one request of a variant on every instance, judges it and records
// the model case.
func (w *world) runVariantCase(v *variant, instances [][]*stack, c reqCase) {
	run := w.run
	id := run.NextID()
	raw := rawRequest(c)
	ops := w.variantOps(v)
	opFor := func(method, pattern string) *yamlOp {
		for i := range ops {
			if ops[i].Method == method && ops[i].Template == pattern {
				return &ops[i]
			}
		}
		return nil
	}
	opByHandler := func(h string) *yamlOp {
		for i := range ops {
			if ops[i].handlerName() == h || "Added:"+ops[i].handlerName() == h {
				return &ops[i]
			}
		}
		return nil
	}
	// canonical request of which operation?
	var canon *yamlOp
	for i := range ops {
		if ops[i].Method == c.Method && mountPrefix+plainCanonical(ops[i].Template) == string(c.path()) && !strings.Contains(ops[i].Template, "{epochID}") {
			canon = &ops[i]
		}
	}
	var first [4]observation
	var parsedOK bool
	var path, rawPath string
	for si := 0; si < 4; si++ {
		counts := map[string]int{}
		samples := map[string]observation{}
		n := 0
		for _, stacks := range instances {
			st := stacks[si]
			reps := variantRepsNV
			if st.full {
				reps = variantRepsFull
			}
			for k := 0; k < reps; k++ {
				var o observation
				var parsed *http.Request
				if panicked, msg := vh.Guard(func() { o, parsed = serveOnce(st, raw, true) }); panicked {
					run.Violate(vh.Violation{Key: "C18:panic-escaped-router", What: "serving the request panicked through the router: " + msg, Case: c})
					return
				}
				if parsed != nil {
					parsedOK, path, rawPath = true, parsed.URL.Path, parsed.URL.RawPath
				}
				if n == 0 {
					first[si] = o
				}
				n++
				counts[o.key()]++
				samples[o.key()] = o
			}
		}
		st := instances[0][si]
		if len(counts) > 1 {
			var outs []map[string]any
			keys := make([]string, 0, len(counts))
			for k := range counts {
				keys = append(keys, k)
			}
			sort.Strings(keys)
			for _, k := range keys {
				outs = append(outs, map[string]any{"times": counts[k], "outcome": samples[k]})
			}
			run.Violate(vh.Violation{Key: "C18:nondeterministic-decision", What: fmt.Sprintf("spec variant %s: the same request served %d times on %s got different answers", v.Name, n, st.name), Case: c, Observed: outs, Expected: "one answer"})
		}
		for _, o := range samples {
			if !st.write {
				if o.Shutdown > 0 || o.Trigger > 0 {
					run.Violate(vh.Violation{Key: "C18:write-disabled-channel-send-variant", What: "spec variant " + v.Name + ": with write operations disabled a request caused a send on the shutdown/trigger channel (" + st.name + ")", Case: c, Observed: o, Expected: "no send"})
				}
				if o.Class == "dispatch" {
					if op := opFor(o.Method, o.Pattern); op == nil || !op.ReadOnly || criticalOps[op.OpID] {
						run.Violate(vh.Violation{Key: "C18:write-disabled-dispatch-to-write-operation", What: fmt.Sprintf("spec variant %s: with write operations disabled a request was dispatched to %s %s, which is not marked read-only (%s, %d of %d identical requests)", v.Name, o.Method, o.Pattern, st.name, counts[o.key()], n), Case: c, Observed: o, Expected: "403/404, no dispatch"})
					}
				}
				for _, h := range o.Entered {
					if op := opByHandler(h); op == nil || !op.ReadOnly || criticalOps[op.OpID] {
						run.Violate(vh.Violation{Key: "C18:write-disabled-handler-entered", What: fmt.Sprintf("spec variant %s: with write operations disabled the handler %s was entered (%s, %d of %d identical requests)", v.Name, h, st.name, counts[o.key()], n), Case: c, Observed: o, Expected: "not entered"})
					}
				}
			}
			if canon != nil && (st.write || canon.ReadOnly) && !(st.full && o.Class == "validator") {
				if !(o.Class == "dispatch" && o.Pattern == canon.Template && o.Method == canon.Method) {
					key, mode := "C18:read-only-operation-unreachable", "disabled"
					if st.write {
						key, mode = "C18:write-enabled-operation-unreachable", "enabled"
					}
					run.Violate(vh.Violation{Key: key, What: fmt.Sprintf("spec variant %s: with write operations %s the canonical request of %s does not reach it (%s, %d of %d identical requests)", v.Name, mode, canon.OpID, st.name, counts[o.key()], n), Case: c, Observed: o, Expected: "dispatch to " + canon.Method + " " + canon.Template})
				}
			}
		}
		run.Dist[st.name+":"+first[si].Class]++
	}
	parsedTerm := "None"
	if parsedOK {
		parsedTerm = vh.CSome(vh.CPair(vh.CStr(path), vh.CStr(rawPath)))
	}
	run.Dist["kind:variant"]++
	term := vh.CApp("CVar", vh.CN(id), coqAdded(v), vh.CStr(c.Method), vh.CBytes(c.path()), parsedTerm,
		coqObs(first[0]), coqObs(first[1]), coqObs(first[2]), coqObs(first[3]))
	run.AddCase(id, term, c, "variant "+v.Name+" "+c.Method+" "+c.PathHex, first[2].Class != "outside" && first[2].Class != "outer405" && first[2].Class != "baduri")
}

func (w *world) variantInstances(pool *pgxpool.Pool, v *variant) [][]*stack {
	var instances [][]*stack
	for i := 0; i < variantInstances; i++ {
		st, err := newVariantStacks(pool, v)
		if err != nil {
			w.run.Tie("spec variant " + v.Name + ": " + err.Error())
			return nil
		}
		instances = append(instances, st)
	}
	return instances
}

// runVariants: every variant x its paths x a few methods.
func (w *world) runVariants(pool *pgxpool.Pool) {
	for i := range variants {
		v := &variants[i]
		instances := w.variantInstances(pool, v)
		if instances == nil {
			continue
		}
		for _, p := range v.Paths {
			for _, m := range variantMethods(v) {
				c := mkCase("variant", m, []byte(mountPrefix+p), "", "origin", v.Name)
				c.Variant = v.Name
				w.runVariantCase(v, instances, c)
			}
		}
	}
}
