//go:build verif

// Request sequences for C18: the guard's answer must not depend on what the server was asked
// before.
//
// One server instance per mode (the real setupRouter through the hook; next to it the
// validator-less stack) is asked a long sequence: the guarded probes (canonical requests of every
// operation, the write operations in a few spellings), then, one after the other and each
// several times, every auxiliary route the router serves outside the guard - /api.json, the
// swagger ui file server (SWAGGER_UI is set to a scratch directory while the routers are built),
// /metrics, unknown paths, HEAD / OPTIONS / POST on them and on API paths - with all probes again
// after each of them.
//
// Oracle: per request as everywhere (record); plus: a probe gets the same answer at every
// position of the sequence as on the fresh instance. A case of this stream carries the
// auxiliary requests served before it (`before`), so a replay rebuilds a fresh instance, serves
// them, serves the probe, and compares with another fresh instance that was asked nothing.
package main

import (
	"encoding/hex"
	"fmt"
	"os"
	"path/filepath"
	"strconv"

	"github.com/jackc/pgx/v4/pgxpool"

	"verifharness/vh"
)

type seqStep struct {
	Method  string `json:"method"`
	PathHex string `json:"path_hex"`
	PathQ   string `json:"path"`
}

func mkStep(method, path string) seqStep {
	return seqStep{Method: method, PathHex: hex.EncodeToString([]byte(path)), PathQ: strconv.Quote(path)}
}

func (s seqStep) asCase() reqCase {
	p, _ := hex.DecodeString(s.PathHex)
	return mkCase("sequence-aux", s.Method, p, "", "origin", "")
}

// auxRequests: routes of setupRouter outside the guard, and requests the guard or the routers
// answer without reaching an operation.
var auxRequests = []seqStep{
	mkStep("GET", "/api.json"),
	mkStep("HEAD", "/api.json"),
	mkStep("OPTIONS", "/api.json"),
	mkStep("POST", "/api.json"),
	mkStep("GET", "/api.json/"),
	mkStep("GET", "/metrics"),
	mkStep("GET", "/metrics/"),
	mkStep("POST", "/metrics"),
	mkStep("GET", "/ui/"),
	mkStep("GET", "/ui/index.html"),
	mkStep("GET", "/ui/missing.js"),
	mkStep("HEAD", "/ui/index.html"),
	mkStep("GET", "/ui"),
	mkStep("GET", "/"),
	mkStep("GET", "/unknown"),
	mkStep("GET", "/v1"),
	mkStep("GET", "/v1/unknown"),
	mkStep("HEAD", "/v1/ping"),
	mkStep("OPTIONS", "/v1/ping"),
	mkStep("OPTIONS", "/v1/shutdown"),
	mkStep("HEAD", "/v1/eons"),
	mkStep("FOO", "/v1/ping"),
	mkStep("GET", "/v1/shutdown"),
	mkStep("DELETE", "/v1/eons"),
}

const seqAuxRepeats = 3

// withSwaggerUI builds stacks while SWAGGER_UI points at a scratch directory, so that
// setupRouter mounts the ui file server as well.
func withSwaggerUI(outDir string, build func() []*stack) []*stack {
	dir := filepath.Join(outDir, "swagger-ui")
	_ = os.MkdirAll(dir, 0o755)
	_ = os.WriteFile(filepath.Join(dir, "index.html"), []byte("<html>verif</html>\n"), 0o644)
	old, had := os.LookupEnv("SWAGGER_UI")
	os.Setenv("SWAGGER_UI", dir)
	defer func() {
		if had {
			os.Setenv("SWAGGER_UI", old)
		} else {
			os.Unsetenv("SWAGGER_UI")
		}
	}()
	return build()
}

func (w *world) freshStacks(pool *pgxpool.Pool) []*stack {
	return withSwaggerUI(w.run.Out, func() []*stack { return newStacks(pool) })
}

func (w *world) probes() []job {
	var out []job
	for i := range w.ops {
		if p, ok := canonicalPath(w.ops[i]); ok {
			c := mkCase("sequence", w.ops[i].Method, []byte(p), "", "origin", w.ops[i].OpID)
			out = append(out, job{c, &w.ops[i]})
		}
	}
	for _, s := range []seqStep{
		mkStep("POST", "/v1/shutdown/"), mkStep("POST", "/v1/%73hutdown"), mkStep("POST", "/v1//decryptionTrigger"),
		mkStep("GET", "/v1/ping/"), mkStep("POST", "/v1/ping"), mkStep("GET", "/v1/decryptionKey/7/abc"),
	} {
		c := s.asCase()
		c.Kind = "sequence"
		out = append(out, job{c, nil})
	}
	return out
}

func sameAnswers(a, b execResult) (bool, int) {
	for i := range a.first {
		if a.first[i].key() != b.first[i].key() {
			return false, i
		}
	}
	return true, -1
}

// changed reports a probe whose answer differs from the fresh instance's.
func (w *world) changed(c reqCase, fresh, now execResult, si int) {
	w.run.Violate(vh.Violation{
		Key:      "C18:answer-changes-over-request-sequence",
		What:     fmt.Sprintf("the same request gets a different answer on %s after other requests were served by the same server instance (%d auxiliary requests before it)", w.stacks[si].name, len(c.Before)),
		Case:     c,
		Observed: map[string]any{"on_fresh_instance": fresh.first[si], "after_the_requests_before": now.first[si]},
		Expected: "the answer of the fresh instance",
	})
}

// minimise looks for a single earlier request after which the probe already answers differently.
func (w *world) minimise(pool *pgxpool.Pool, c reqCase, fresh execResult) reqCase {
	seen := map[string]bool{}
	for _, s := range c.Before {
		k := s.Method + " " + s.PathHex
		if seen[k] {
			continue
		}
		seen[k] = true
		stacks := w.freshStacks(pool)
		execCase(stacks, s.asCase())
		if same, _ := sameAnswers(fresh, execCase(stacks, c)); !same {
			c.Before = []seqStep{s}
			return c
		}
	}
	return c
}

func (w *world) runSequences(pool *pgxpool.Pool) {
	saved := w.stacks
	defer func() { w.stacks = saved }()
	w.stacks = w.freshStacks(pool) // ONE instance per mode for the whole sequence
	probes := w.probes()
	fresh := make([]execResult, len(probes))
	var before []seqStep
	reported := map[int]bool{}
	round := func(first bool) {
		for i, p := range probes {
			c := p.c
			c.Before = append([]seqStep{}, before...)
			res := execCase(w.stacks, c)
			if first {
				fresh[i] = res
			} else if same, si := sameAnswers(fresh[i], res); !same && res.panicMsg == "" && !reported[i] {
				reported[i] = true
				w.changed(w.minimise(pool, c, fresh[i]), fresh[i], res, si)
			}
			w.record(c, p.canon, res)
			w.run.Dist["sequence:probe"]++
		}
	}
	round(true)
	for _, a := range auxRequests {
		for k := 0; k < seqAuxRepeats; k++ {
			c := a.asCase()
			c.Before = append([]seqStep{}, before...)
			w.record(c, nil, execCase(w.stacks, c))
			w.run.Dist["sequence:aux"]++
			before = append(before, a)
			if k == 0 || k == seqAuxRepeats-1 {
				round(false)
			}
		}
	}
}

// replaySequence: fresh instance, the requests before, the request; another fresh instance,
// the request only.
func (w *world) replaySequence(pool *pgxpool.Pool, c reqCase, canon *yamlOp) {
	ref := execCase(w.freshStacks(pool), c)
	w.stacks = w.freshStacks(pool)
	for _, s := range c.Before {
		execCase(w.stacks, s.asCase())
	}
	res := execCase(w.stacks, c)
	if same, si := sameAnswers(ref, res); !same {
		w.changed(c, ref, res, si)
	}
	w.record(c, canon, res)
}
