//go:build verif

// Concurrent requests for C18: the guard's verdict for a request must not depend on what
// else is in flight.
//
// (A) barrier rounds on ONE server instance per mode (the real setupRouter through the hook):
//
//	in every round a mix of read-only and state-changing requests is released together by
//	a barrier and awaited with a WaitGroup.
//
// (B) deterministic overlap: the real guard (kproapi.ConfigMiddlewareWithSpec) with the real
//
//	generated routes and the real handlers, and a getSpec whose first call after arming
//	blocks: request A is parked inside its spec load, requests B are then sent and seen
//	entering the router (a door middleware in front of the guard); A is released when all
//	B have been answered, or a short while after the last B passed the door (only then a
//	timer is involved: it bounds how long a B that *waits for A* is given to do so; on a
//	correct guard every B is answered without A, however slow the machine is).
//
// Oracle per request, as everywhere: write operations disabled => no dispatch to an operation
// not marked read-only, nothing sent on the shutdown / trigger channels, read-only canonical
// requests are dispatched (and /ping answers "pong"); write enabled => every canonical request
// is dispatched and every dispatched write operation sends exactly once; and the answer of a
// request in a round equals its answer when served alone on the same instance.
// These executions have no model-side case (the model is sequential): oracle only.
package main

import (
	"bufio"
	"bytes"
	"context"
	"fmt"
	"net/http"
	"net/http/httptest"
	"sync"
	"sync/atomic"
	"time"

	"github.com/getkin/kin-openapi/openapi3"
	"github.com/go-chi/chi/v5"
	"github.com/go-chi/chi/v5/middleware"
	"github.com/jackc/pgx/v4/pgxpool"

	"github.com/shutter-network/rolling-shutter/rolling-shutter/keyper/kprapi"
	"github.com/shutter-network/rolling-shutter/rolling-shutter/keyper/kproapi"

	"verifharness/vh"
)

type enteredKey struct{}

// ctxRecorder notes the entered ServerInterface method in a slice carried by the request
// context (one per request, so concurrent requests do not share it).
type ctxRecorder struct{ inner kproapi.ServerInterface }

func noteEntered(q *http.Request, name string) {
	if p, ok := q.Context().Value(enteredKey{}).(*[]string); ok {
		*p = append(*p, name)
	}
}

func (r ctxRecorder) GetDecryptionKey(w http.ResponseWriter, q *http.Request, eon int, epochID kproapi.EpochID) {
	noteEntered(q, "GetDecryptionKey")
	r.inner.GetDecryptionKey(w, q, eon, epochID)
}

func (r ctxRecorder) SubmitDecryptionTrigger(w http.ResponseWriter, q *http.Request) {
	noteEntered(q, "SubmitDecryptionTrigger")
	r.inner.SubmitDecryptionTrigger(w, q)
}

func (r ctxRecorder) GetEons(w http.ResponseWriter, q *http.Request) {
	noteEntered(q, "GetEons")
	r.inner.GetEons(w, q)
}

func (r ctxRecorder) Ping(w http.ResponseWriter, q *http.Request) {
	noteEntered(q, "Ping")
	r.inner.Ping(w, q)
}

func (r ctxRecorder) Shutdown(w http.ResponseWriter, q *http.Request) {
	noteEntered(q, "Shutdown")
	r.inner.Shutdown(w, q)
}

type concObs struct {
	observation
	Body string `json:"body,omitempty"`
}

// serveShared serves one raw request on a handler that other goroutines use at the same
// time: nothing shared is touched, channel sends are counted per round by the caller.
func serveShared(h http.Handler, raw []byte) concObs {
	req, err := http.ReadRequest(bufio.NewReader(bytes.NewReader(raw)))
	if err != nil {
		return concObs{observation: observation{Class: "baduri", Status: 400}}
	}
	rctx := chi.NewRouteContext()
	var entered []string
	ctx := context.WithValue(req.Context(), chi.RouteCtxKey, rctx)
	ctx = context.WithValue(ctx, enteredKey{}, &entered)
	req = req.WithContext(ctx)
	rec := httptest.NewRecorder()
	h.ServeHTTP(rec, req)
	o := concObs{observation: observation{Status: rec.Code, Entered: entered}}
	body := rec.Body.String()
	if len(body) <= 40 {
		o.Body = body
	}
	pats := rctx.RoutePatterns
	isMount := len(pats) > 0 && (pats[0] == mountPrefix || pats[0] == mountPrefix+"/" || pats[0] == mountPrefix+"/*")
	switch {
	case !isMount:
		o.Class = "outside"
	case len(pats) >= 2:
		o.Class = "dispatch"
		o.Pattern = pats[1]
		o.Method = rctx.RouteMethod
	case rec.Code == http.StatusForbidden && body == "Endpoint not enabled\n":
		o.Class = "guard403"
	case rec.Code == http.StatusNotFound && body == "Endpoint not found\n":
		o.Class = "guard404"
	case rec.Code == http.StatusNotFound && body == "404 page not found\n":
		o.Class = "plain404"
	case rec.Code == http.StatusMethodNotAllowed && body == "":
		o.Class = "inner405"
	default:
		o.Class = "validator"
	}
	return o
}

func (o concObs) verdict() string {
	return fmt.Sprintf("%s|%s|%s|%d|%v|%s", o.Class, o.Method, o.Pattern, o.Status, o.Entered, o.Body)
}

// ---------------------------------------------------------------------------------------

type concStack struct {
	name     string
	write    bool
	handler  http.Handler
	srv      *kprapi.Server
	gate     *blockingSpec // (B) only
	door     chan string   // (B) only
	drainAll func() (int, int)
}

// blockingSpec is the getSpec handed to ConfigMiddlewareWithSpec in (B).
type blockingSpec struct {
	armed   atomic.Bool
	entered chan struct{}
	release chan struct{}
	calls   atomic.Int64
}

func (g *blockingSpec) get() (*openapi3.T, error) {
	g.calls.Add(1)
	if g.armed.CompareAndSwap(true, false) {
		g.entered <- struct{}{}
		<-g.release
	}
	return kproapi.GetSwagger()
}

func newConcStacks(pool *pgxpool.Pool, blocked bool) []*concStack {
	var out []*concStack
	for _, write := range []bool{false, true} {
		srv, router, trig, shut := kprapi.VerifNewServer(pool, cfg{write}, nil, 256)
		st := &concStack{write: write, srv: srv}
		st.drainAll = func() (int, int) {
			s, t := 0, 0
			for {
				select {
				case <-shut:
					s++
				case <-trig:
					t++
				default:
					return s, t
				}
			}
		}
		if !blocked {
			st.handler = router
			st.name = "concurrent-full"
		} else {
			st.gate = &blockingSpec{entered: make(chan struct{}, 1), release: make(chan struct{})}
			st.door = make(chan string, 256)
			api := chi.NewRouter()
			api.Use(func(next http.Handler) http.Handler {
				return http.HandlerFunc(func(w http.ResponseWriter, r *http.Request) {
					st.door <- r.Method + " " + r.URL.Path
					next.ServeHTTP(w, r)
				})
			})
			api.Use(kproapi.ConfigMiddlewareWithSpec(write, st.gate.get))
			_ = kproapi.HandlerFromMux(ctxRecorder{inner: srv}, api)
			root := chi.NewRouter()
			root.Use(middleware.Logger)
			root.Use(middleware.Recoverer)
			root.Mount(mountPrefix, http.StripPrefix(mountPrefix, api))
			st.handler = root
			st.name = "concurrent-blocked-spec-load"
		}
		if write {
			st.name += "-on"
		} else {
			st.name += "-off"
		}
		out = append(out, st)
	}
	return out
}

// ---------------------------------------------------------------------------------------
// judging a round

type roundResult struct {
	steps    []seqStep
	obs      []concObs
	shutdown int
	trigger  int
}

func (w *world) opOfStep(s seqStep) *yamlOp {
	for i := range w.ops {
		if p, ok := canonicalPath(w.ops[i]); ok && w.ops[i].Method == s.Method && hexOf(p) == s.PathHex {
			return &w.ops[i]
		}
	}
	return nil
}

func hexOf(s string) string { return mkStep("", s).PathHex }

func (w *world) concCase(kind string, s seqStep, round []seqStep, note string) reqCase {
	c := s.asCase()
	c.Kind = kind
	c.Note = note
	c.Round = round
	return c
}

// judgeRound applies the per-request oracle and the comparison with the answers given when
// each request is served alone. Returns the number of violations reported.
func (w *world) judgeRound(st *concStack, kind, note string, rr roundResult, alone map[string]concObs) int {
	run := w.run
	n := 0
	viol := func(v vh.Violation) { run.Violate(v); n++ }
	wantShutdown, wantTrigger := 0, 0
	for i, s := range rr.steps {
		o := rr.obs[i]
		c := w.concCase(kind, s, rr.steps, note)
		canon := w.opOfStep(s)
		if !st.write {
			if o.Class == "dispatch" {
				if op := w.opFor(o.Method, o.Pattern); op == nil || !op.ReadOnly || criticalOps[op.OpID] {
					viol(vh.Violation{Key: "C18:write-disabled-dispatch-to-write-operation", What: fmt.Sprintf("with write operations disabled, and other requests in flight, a request was dispatched to %s %s, which oapi.yaml does not mark read-only (%s)", o.Method, o.Pattern, st.name), Case: c, Observed: o, Expected: "403, no dispatch"})
				}
			}
			for _, h := range o.Entered {
				if op := w.opByHandler(h); op == nil || !op.ReadOnly || criticalOps[op.OpID] {
					viol(vh.Violation{Key: "C18:write-disabled-handler-entered", What: "with write operations disabled, and other requests in flight, the handler " + h + " was entered (" + st.name + ")", Case: c, Observed: o, Expected: "not entered"})
				}
			}
		}
		if canon != nil && (st.write || canon.ReadOnly) {
			ok := o.Class == "dispatch" && o.Pattern == canon.Template && o.Method == canon.Method
			if ok && canon.OpID == "ping" {
				ok = o.Body == "pong"
			}
			if ok && st.gate != nil {
				ok = len(o.Entered) == 1 && o.Entered[0] == canon.handlerName()
			}
			if !ok {
				key, mode := "C18:read-only-operation-unreachable", "disabled"
				if st.write {
					key, mode = "C18:write-enabled-operation-unreachable", "enabled"
				}
				viol(vh.Violation{Key: key, What: fmt.Sprintf("with write operations %s, and other requests in flight, the canonical request of %s does not reach it (%s)", mode, canon.OpID, st.name), Case: c, Observed: o, Expected: "dispatch to " + canon.Method + " " + canon.Template})
			}
			if st.write && o.Class == "dispatch" {
				switch canon.OpID {
				case "shutdown":
					wantShutdown++
				case "SubmitDecryptionTrigger":
					wantTrigger++
				}
			}
		}
		if a, ok := alone[s.Method+" "+s.PathHex]; ok && a.verdict() != o.verdict() {
			viol(vh.Violation{Key: "C18:answer-depends-on-concurrent-requests", What: "the same request gets a different answer on " + st.name + " when other requests are in flight than when it is served alone", Case: c, Observed: map[string]any{"served_alone": a, "in_the_round": o}, Expected: "the answer given when served alone"})
		}
		run.Dist[st.name+":"+o.Class]++
		run.CountOnly("concurrent "+st.name+" "+s.Method+" "+s.PathHex, true)
	}
	if rr.shutdown != wantShutdown || rr.trigger != wantTrigger {
		key := "C18:write-disabled-channel-send-concurrent"
		what := fmt.Sprintf("with write operations disabled a round of concurrent requests caused %d sends on the shutdown channel and %d on the trigger channel (%s)", rr.shutdown, rr.trigger, st.name)
		if st.write {
			key = "C18:write-enabled-sends-differ-concurrent"
			what = fmt.Sprintf("with write operations enabled a round of concurrent requests caused %d/%d sends on the shutdown/trigger channels, %d/%d write operations were dispatched (%s)", rr.shutdown, rr.trigger, wantShutdown, wantTrigger, st.name)
		}
		c := w.concCase(kind, rr.steps[0], rr.steps, note)
		viol(vh.Violation{Key: key, What: what, Case: c, Observed: map[string]int{"shutdown_sends": rr.shutdown, "trigger_sends": rr.trigger}, Expected: map[string]int{"shutdown_sends": wantShutdown, "trigger_sends": wantTrigger}})
	}
	return n
}

func (w *world) serveAlone(st *concStack, steps []seqStep) map[string]concObs {
	alone := map[string]concObs{}
	for _, s := range steps {
		k := s.Method + " " + s.PathHex
		if _, ok := alone[k]; !ok {
			alone[k] = serveShared(st.handler, rawRequest(s.asCase()))
		}
	}
	st.drainAll()
	return alone
}

// ---------------------------------------------------------------------------------------
// (A) barrier rounds

var barrierMix = func() []seqStep {
	var out []seqStep
	add := func(n int, m, p string) {
		for i := 0; i < n; i++ {
			out = append(out, mkStep(m, p))
		}
	}
	// interleaved, so that goroutine start order mixes the kinds
	for i := 0; i < 4; i++ {
		add(2, "GET", "/v1/ping")
		add(2, "POST", "/v1/shutdown")
		add(1, "POST", "/v1/decryptionTrigger")
	}
	add(2, "GET", "/v1/eons")
	add(2, "GET", "/v1/decryptionKey/7/"+epoch64)
	return out
}()

func barrierRound(st *concStack, steps []seqStep) (roundResult, bool) {
	rr := roundResult{steps: steps, obs: make([]concObs, len(steps))}
	raws := make([][]byte, len(steps))
	for i, s := range steps {
		raws[i] = rawRequest(s.asCase())
	}
	start := make(chan struct{})
	var ready, done sync.WaitGroup
	for i := range steps {
		ready.Add(1)
		done.Add(1)
		go func(i int) {
			defer done.Done()
			ready.Done()
			<-start
			vh.Guard(func() { rr.obs[i] = serveShared(st.handler, raws[i]) })
		}(i)
	}
	ready.Wait()
	close(start)
	finished := make(chan struct{})
	go func() { done.Wait(); close(finished) }()
	select {
	case <-finished:
	case <-time.After(5 * time.Minute):
		return rr, false
	}
	rr.shutdown, rr.trigger = st.drainAll()
	return rr, true
}

func (w *world) runBarrier(pool *pgxpool.Pool, steps []seqStep, rounds int) {
	for _, st := range newConcStacks(pool, false) {
		alone := w.serveAlone(st, steps)
		reported := 0
		for r := 0; r < rounds && reported < 3; r++ {
			rr, ok := barrierRound(st, steps)
			if !ok {
				w.run.Violate(vh.Violation{Key: "C18:concurrent-requests-hang", What: "a round of concurrent requests was not answered within five minutes (" + st.name + ")", Case: w.concCase("concurrent", steps[0], steps, "barrier")})
				return
			}
			if w.judgeRound(st, "concurrent", "barrier", rr, alone) > 0 {
				reported++
			}
		}
	}
}

// ---------------------------------------------------------------------------------------
// (B) deterministic overlap through a blocked spec load

type overlap struct {
	a  seqStep
	bs []seqStep
}

var overlaps = []overlap{
	{mkStep("GET", "/v1/ping"), []seqStep{mkStep("POST", "/v1/shutdown"), mkStep("POST", "/v1/decryptionTrigger"), mkStep("GET", "/v1/eons")}},
	{mkStep("POST", "/v1/shutdown"), []seqStep{mkStep("GET", "/v1/ping"), mkStep("GET", "/v1/eons"), mkStep("POST", "/v1/decryptionTrigger")}},
	{mkStep("GET", "/v1/unknown"), []seqStep{mkStep("GET", "/v1/ping"), mkStep("POST", "/v1/shutdown")}},
	{mkStep("POST", "/v1/decryptionTrigger"), []seqStep{mkStep("GET", "/v1/ping"), mkStep("GET", "/v1/ping")}},
	{mkStep("GET", "/v1/decryptionKey/7/"+epoch64), []seqStep{mkStep("POST", "/v1/shutdown"), mkStep("POST", "/v1/shutdown")}},
}

const (
	generous   = 5 * time.Minute        // nothing on a correct tree ever waits this long
	graceAfter = 150 * time.Millisecond // how long a B that waits for A is given to be caught waiting
)

// overlapRound: steps[0] is A (parked in its spec load), the others are the Bs.
func overlapRound(st *concStack, steps []seqStep) (roundResult, string) {
	rr := roundResult{steps: steps, obs: make([]concObs, len(steps))}
	for len(st.door) > 0 {
		<-st.door
	}
	st.gate.armed.Store(true)
	var done sync.WaitGroup
	done.Add(1)
	go func() {
		defer done.Done()
		vh.Guard(func() { rr.obs[0] = serveShared(st.handler, rawRequest(steps[0].asCase())) })
	}()
	select {
	case <-st.gate.entered:
	case <-time.After(generous):
		st.gate.armed.Store(false)
		return rr, "the guard did not load the spec for the first request"
	}
	<-st.door // A's own passage
	var bdone sync.WaitGroup
	for i := 1; i < len(steps); i++ {
		i := i
		done.Add(1)
		bdone.Add(1)
		go func() {
			defer done.Done()
			defer bdone.Done()
			vh.Guard(func() { rr.obs[i] = serveShared(st.handler, rawRequest(steps[i].asCase())) })
		}()
	}
	for i := 1; i < len(steps); i++ {
		select {
		case <-st.door:
		case <-time.After(generous):
			st.gate.release <- struct{}{}
			return rr, "a request did not arrive at the guard"
		}
	}
	bfin := make(chan struct{})
	go func() { bdone.Wait(); close(bfin) }()
	select {
	case <-bfin: // every B was answered while A is still loading: nothing waits for A
	case <-time.After(graceAfter):
	}
	st.gate.release <- struct{}{}
	fin := make(chan struct{})
	go func() { done.Wait(); close(fin) }()
	select {
	case <-fin:
	case <-time.After(generous):
		return rr, "requests were not answered after the first one was released"
	}
	rr.shutdown, rr.trigger = st.drainAll()
	return rr, ""
}

func (w *world) runOverlaps(pool *pgxpool.Pool, which []overlap, repeats int) {
	for _, st := range newConcStacks(pool, true) {
		for _, ov := range which {
			steps := append([]seqStep{ov.a}, ov.bs...)
			alone := w.serveAlone(st, steps)
			for k := 0; k < repeats; k++ {
				rr, problem := overlapRound(st, steps)
				if problem != "" {
					w.run.Tie("concurrent stream (" + st.name + "): " + problem)
					return
				}
				if w.judgeRound(st, "concurrent-overlap", "blocked-spec-load", rr, alone) > 0 {
					break
				}
			}
		}
	}
}

func (w *world) runConcurrent(pool *pgxpool.Pool) {
	w.runOverlaps(pool, overlaps, 3)
	w.runBarrier(pool, barrierMix, w.run.Scale(40, 200))
}

// replayConcurrent re-runs the round of a recorded case.
func (w *world) replayConcurrent(pool *pgxpool.Pool, c reqCase) {
	if len(c.Round) == 0 {
		return
	}
	if c.Kind == "concurrent-overlap" {
		w.runOverlaps(pool, []overlap{{c.Round[0], c.Round[1:]}}, 5)
		return
	}
	w.runBarrier(pool, c.Round, 100)
}
