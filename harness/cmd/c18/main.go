//go:build verif

// Driver for C18 (read-only mode blocks every state-changing HTTP endpoint).
//
// Implementation side: the real router of kprapi.Server (setupRouter, through the verif hook
// kprapi.VerifNewServer) with write operations disabled and enabled, and next to it the same
// stack without OapiRequestValidator (real guard middleware kproapi.ConfigMiddleware, real
// generated chi routes, real handlers behind a recording decorator), so that the guard's own
// path matching meets the mutated spellings that the validator would otherwise stop first.
// Requests are parsed by http.ReadRequest from raw bytes, the way the server does.
//
// Oracle (from the property text, reading oapi.yaml itself, no use of the Coq model):
//
//	write disabled  => nothing is sent on the shutdown / decryption-trigger channels, no route is
//	                   dispatched (and no handler entered) whose operation is not marked
//	                   x-read-only: true in oapi.yaml, in particular not shutdown /
//	                   SubmitDecryptionTrigger; the canonical request of every read-only
//	                   operation is dispatched to it;
//	write enabled   => the canonical request of every operation is dispatched to it;
//	always          => serving the same request again gives the same outcome.
package main

import (
	"bufio"
	"bytes"
	"context"
	"encoding/hex"
	"fmt"
	"io"
	"log"
	"net/http"
	"net/http/httptest"
	"os"
	"path/filepath"
	"runtime"
	"sort"
	"strconv"
	"strings"
	"sync"

	"github.com/ethereum/go-ethereum/common"
	"github.com/ghodss/yaml"
	"github.com/go-chi/chi/v5"
	"github.com/go-chi/chi/v5/middleware"
	"github.com/jackc/pgx/v4/pgxpool"

	"github.com/shutter-network/rolling-shutter/rolling-shutter/keyper/epochkghandler"
	"github.com/shutter-network/rolling-shutter/rolling-shutter/keyper/kprapi"
	"github.com/shutter-network/rolling-shutter/rolling-shutter/keyper/kproapi"
	"github.com/shutter-network/rolling-shutter/rolling-shutter/medley/broker"

	"verifharness/vh"
)

// ---------------------------------------------------------------------------------------
// the stacks under test

type cfg struct{ write bool }

func (c cfg) GetHTTPListenAddress() string   { return "127.0.0.1:0" }
func (c cfg) GetAddress() common.Address     { return common.Address{} }
func (c cfg) GetInstanceID() uint64          { return 0 }
func (c cfg) GetEnableWriteOperations() bool { return c.write }

// recorder notes which ServerInterface method was entered, then calls the real handler.
type recorder struct {
	inner   kproapi.ServerInterface
	entered *[]string
}

func (r recorder) GetDecryptionKey(w http.ResponseWriter, q *http.Request, eon int, epochID kproapi.EpochID) {
	*r.entered = append(*r.entered, "GetDecryptionKey")
	r.inner.GetDecryptionKey(w, q, eon, epochID)
}

func (r recorder) SubmitDecryptionTrigger(w http.ResponseWriter, q *http.Request) {
	*r.entered = append(*r.entered, "SubmitDecryptionTrigger")
	r.inner.SubmitDecryptionTrigger(w, q)
}

func (r recorder) GetEons(w http.ResponseWriter, q *http.Request) {
	*r.entered = append(*r.entered, "GetEons")
	r.inner.GetEons(w, q)
}

func (r recorder) Ping(w http.ResponseWriter, q *http.Request) {
	*r.entered = append(*r.entered, "Ping")
	r.inner.Ping(w, q)
}

func (r recorder) Shutdown(w http.ResponseWriter, q *http.Request) {
	*r.entered = append(*r.entered, "Shutdown")
	r.inner.Shutdown(w, q)
}

type stack struct {
	name     string // full-off, full-on, nv-off, nv-on
	write    bool
	full     bool
	handler  http.Handler
	trigger  chan *broker.Event[*epochkghandler.DecryptionTrigger]
	shutdown chan struct{}
	entered  []string
}

const mountPrefix = "/v1" // as in kprapi.setupRouter; only used to build the validator-less stack

func newStacks(pool *pgxpool.Pool) []*stack {
	var out []*stack
	for _, full := range []bool{true, false} {
		for _, write := range []bool{false, true} {
			srv, router, trig, shut := kprapi.VerifNewServer(pool, cfg{write}, nil, 16)
			st := &stack{write: write, full: full, trigger: trig, shutdown: shut}
			if full {
				st.handler = router
				st.name = "full"
			} else {
				// setupAPIRouter without its first middleware, mounted as setupRouter mounts it
				api := chi.NewRouter()
				api.Use(kproapi.ConfigMiddleware(write))
				_ = kproapi.HandlerFromMux(recorder{inner: srv, entered: &st.entered}, api)
				root := chi.NewRouter()
				root.Use(middleware.Logger)
				root.Use(middleware.Recoverer)
				root.Mount(mountPrefix, http.StripPrefix(mountPrefix, api))
				st.handler = root
				st.name = "nv"
			}
			if write {
				st.name += "-on"
			} else {
				st.name += "-off"
			}
			out = append(out, st)
		}
	}
	return out
}

// ---------------------------------------------------------------------------------------
// one request

type reqCase struct {
	Kind    string `json:"kind"`
	Method  string `json:"method"`
	PathHex string `json:"path_hex"` // path part of the request target (before '?')
	PathQ   string `json:"path"`     // the same, quoted, for the reader
	Query   string `json:"query"`    // "" or "?..."
	Form    string `json:"form"`     // "origin" | "absolute"
	Note    string `json:"note,omitempty"`
	Variant string `json:"variant,omitempty"` // spec variant (variants.go); "" = the real document
	// sequence stream (sequences.go): auxiliary requests served by the same server instance before
	Before []seqStep `json:"before,omitempty"`
	// concurrent stream (concurrent.go): the requests of the round this request was part of
	Round []seqStep `json:"round,omitempty"`
}

func (c reqCase) path() []byte { b, _ := hex.DecodeString(c.PathHex); return b }

func mkCase(kind, method string, path []byte, query, form, note string) reqCase {
	if method == "CONNECT" {
		// net/http reads a CONNECT target that does not start with "/" as an authority
		// (request-line parsing, not path handling): keep to origin-form there
		form = "origin"
	}
	return reqCase{Kind: kind, Method: method, PathHex: hex.EncodeToString(path), PathQ: strconv.Quote(string(path)), Query: query, Form: form, Note: note}
}

const triggerBody = `{"epoch_id":"0x1111111111111111111111111111111111111111111111111111111111111111","block_number":7}`

func rawRequest(c reqCase) []byte {
	var b bytes.Buffer
	b.WriteString(c.Method)
	b.WriteByte(' ')
	if c.Form == "absolute" {
		b.WriteString("http://verif")
	}
	b.Write(c.path())
	b.WriteString(c.Query)
	b.WriteString(" HTTP/1.1\r\nHost: verif\r\n")
	up := strings.ToUpper(c.Method)
	if up != "GET" && up != "HEAD" {
		fmt.Fprintf(&b, "Content-Type: application/json\r\nContent-Length: %d\r\n\r\n%s", len(triggerBody), triggerBody)
	} else {
		b.WriteString("\r\n")
	}
	return b.Bytes()
}

type observation struct {
	Class    string   `json:"class"`
	Method   string   `json:"route_method,omitempty"`
	Pattern  string   `json:"route_pattern,omitempty"`
	Status   int      `json:"status"`
	Entered  []string `json:"entered,omitempty"`
	Shutdown int      `json:"shutdown_sends"`
	Trigger  int      `json:"trigger_sends"`
}

func (o observation) key() string {
	return fmt.Sprintf("%s|%s|%s|%d|%v|%d|%d", o.Class, o.Method, o.Pattern, o.Status, o.Entered, o.Shutdown, o.Trigger)
}

func drain(st *stack) (int, int) {
	s, t := 0, 0
	for {
		select {
		case <-st.shutdown:
			s++
		case <-st.trigger:
			t++
		default:
			return s, t
		}
	}
}

// serveOnce parses the raw request like the server does and serves it. seeded: with our own
// chi routing context in the request context (to read the matched patterns afterwards).
func serveOnce(st *stack, raw []byte, seeded bool) (observation, *http.Request) {
	req, err := http.ReadRequest(bufio.NewReader(bytes.NewReader(raw)))
	if err != nil {
		return observation{Class: "baduri", Status: 400}, nil
	}
	parsed := req
	rctx := chi.NewRouteContext()
	if seeded {
		req = req.WithContext(context.WithValue(req.Context(), chi.RouteCtxKey, rctx))
	}
	rec := httptest.NewRecorder()
	st.entered = st.entered[:0]
	drain(st)
	st.handler.ServeHTTP(rec, req)
	o := observation{Status: rec.Code}
	o.Shutdown, o.Trigger = drain(st)
	o.Entered = append([]string{}, st.entered...)
	if !seeded {
		o.Class = "unseeded"
		return o, parsed
	}
	body := rec.Body.String()
	pats := rctx.RoutePatterns
	isMount := len(pats) > 0 && (pats[0] == mountPrefix || pats[0] == mountPrefix+"/" || pats[0] == mountPrefix+"/*")
	switch {
	case len(pats) == 0 && rec.Code == http.StatusMethodNotAllowed && methodClass(req.Method) != req.Method:
		// no route matched at all and the method is none of the nine standard ones
		o.Class = "outer405"
	case !isMount:
		o.Class = "outside"
	case len(pats) >= 2:
		o.Class = "dispatch"
		o.Pattern = pats[1]
		o.Method = rctx.RouteMethod
	case rec.Code == http.StatusForbidden && body == "Endpoint not enabled\n":
		o.Class = "guard403"
	case rec.Code == http.StatusNotFound && body == "Endpoint not found\n":
		o.Class = "guard404"
	case rec.Code == http.StatusNotFound && body == "404 page not found\n":
		o.Class = "plain404"
	case rec.Code == http.StatusMethodNotAllowed && body == "":
		o.Class = "inner405"
	default:
		o.Class = "validator"
	}
	return o, parsed
}

func coqObs(o observation) string {
	switch o.Class {
	case "baduri":
		return "OBadURI"
	case "outer405":
		return "OOuter405"
	case "outside":
		return "OOutside"
	case "validator":
		return "OValidator"
	case "guard404":
		return "OGuard404"
	case "guard403":
		return "OGuard403"
	case "plain404":
		return "OPlain404"
	case "inner405":
		return "OInner405"
	case "dispatch":
		return vh.CApp("ODispatch", vh.CStr(o.Method), vh.CStr(o.Pattern))
	}
	panic("unknown class " + o.Class)
}

// ---------------------------------------------------------------------------------------
// the OpenAPI document as the oracle reads it

type yamlOp struct {
	Method, Template, OpID string
	ReadOnly               bool
	Params                 []yamlParam
}

type yamlParam struct{ Name, Type, Pattern string }

func (o yamlOp) handlerName() string { return strings.ToUpper(o.OpID[:1]) + o.OpID[1:] }

func readYAML(repo string) ([]yamlOp, error) {
	b, err := os.ReadFile(filepath.Join(repo, "keyper", "kproapi", "oapi.yaml"))
	if err != nil {
		return nil, err
	}
	var doc map[string]any
	if err := yaml.Unmarshal(b, &doc); err != nil {
		return nil, err
	}
	schemas := map[string]any{}
	if c, ok := doc["components"].(map[string]any); ok {
		if s, ok := c["schemas"].(map[string]any); ok {
			schemas = s
		}
	}
	resolve := func(s map[string]any) map[string]any {
		if ref, ok := s["$ref"].(string); ok {
			if t, ok := schemas[strings.TrimPrefix(ref, "#/components/schemas/")].(map[string]any); ok {
				return t
			}
		}
		return s
	}
	paths, _ := doc["paths"].(map[string]any)
	var out []yamlOp
	for tpl, item := range paths {
		im, _ := item.(map[string]any)
		for m, opv := range im {
			switch m {
			case "get", "put", "post", "delete", "options", "head", "patch", "trace":
			default:
				continue
			}
			om, _ := opv.(map[string]any)
			op := yamlOp{Method: strings.ToUpper(m), Template: tpl}
			op.OpID, _ = om["operationId"].(string)
			if v, ok := om["x-read-only"].(bool); ok && v {
				op.ReadOnly = true
			}
			if ps, ok := om["parameters"].([]any); ok {
				for _, pv := range ps {
					pm, _ := pv.(map[string]any)
					if pm["in"] != "path" {
						continue
					}
					p := yamlParam{}
					p.Name, _ = pm["name"].(string)
					if s, ok := pm["schema"].(map[string]any); ok {
						s = resolve(s)
						p.Type, _ = s["type"].(string)
						p.Pattern, _ = s["pattern"].(string)
					}
					op.Params = append(op.Params, p)
				}
			}
			if op.OpID == "" {
				return nil, fmt.Errorf("oapi.yaml: %s %s has no operationId", m, tpl)
			}
			out = append(out, op)
		}
	}
	sort.Slice(out, func(i, j int) bool { return out[i].Template+" "+out[i].Method < out[j].Template+" "+out[j].Method })
	return out, nil
}

const epoch64 = "0x2222222222222222222222222222222222222222222222222222222222222222"

// validValue gives a parameter value that satisfies the parameter's schema, if we know how.
func validValue(p yamlParam) (string, bool) {
	switch {
	case p.Type == "integer":
		return "7", true
	case p.Type == "string" && p.Pattern == "^0x[0-9a-f]{64}$":
		return epoch64, true
	case p.Type == "string" && p.Pattern == "":
		return "x1", true
	}
	return "", false
}

func canonicalPath(op yamlOp) (string, bool) {
	ok := true
	segs := strings.Split(op.Template, "/")
	for i, s := range segs {
		if strings.HasPrefix(s, "{") && strings.HasSuffix(s, "}") {
			name := s[1 : len(s)-1]
			found := false
			for _, p := range op.Params {
				if p.Name == name {
					v, k := validValue(p)
					segs[i], found = v, k
				}
			}
			if !found {
				segs[i], ok = "7", false
			}
		}
	}
	return mountPrefix + strings.Join(segs, "/"), ok
}

// ---------------------------------------------------------------------------------------
// running a case: all stacks, oracle, model case

type world struct {
	run    *vh.Run
	stacks []*stack
	ops    []yamlOp
}

func (w *world) opFor(method, pattern string) *yamlOp {
	for i := range w.ops {
		if w.ops[i].Method == method && w.ops[i].Template == pattern {
			return &w.ops[i]
		}
	}
	return nil
}

func (w *world) opByHandler(name string) *yamlOp {
	for i := range w.ops {
		if w.ops[i].handlerName() == name {
			return &w.ops[i]
		}
	}
	return nil
}

var criticalOps = map[string]bool{"shutdown": true, "SubmitDecryptionTrigger": true}

// execResult is what serving one request on every stack gave (computed by a worker, judged
// and recorded in generation order afterwards).
type execResult struct {
	first, second, unseeded [4]observation
	hasUnseeded             [4]bool
	parsedOK                bool
	path, rawPath           string
	panicMsg                string
}

func execCase(stacks []*stack, c reqCase) execResult {
	var res execResult
	raw := rawRequest(c)
	for i, st := range stacks {
		var parsed *http.Request
		panicked, msg := vh.Guard(func() {
			res.first[i], parsed = serveOnce(st, raw, true)
			res.second[i], _ = serveOnce(st, raw, true)
			// production path (chi takes its routing context from its own pool)
			if st.full && res.first[i].Class != "baduri" {
				res.unseeded[i], _ = serveOnce(st, raw, false)
				res.hasUnseeded[i] = true
			}
		})
		if panicked {
			res.panicMsg = st.name + ": " + msg
			return res
		}
		if parsed != nil {
			res.parsedOK, res.path, res.rawPath = true, parsed.URL.Path, parsed.URL.RawPath
		}
	}
	return res
}

type job struct {
	c     reqCase
	canon *yamlOp // when non-nil, c is the canonical request of that operation (reachability oracle)
}

// runAll executes the jobs on `workers` private copies of the four stacks and records them
// in order.
func (w *world) runAll(jobs []job, pool *pgxpool.Pool) {
	workers := runtime.NumCPU()
	if workers > 12 {
		workers = 12
	}
	if workers > len(jobs) {
		workers = 1
	}
	results := make([]execResult, len(jobs))
	var wg sync.WaitGroup
	for k := 0; k < workers; k++ {
		stacks := w.stacks
		if k > 0 {
			stacks = newStacks(pool)
		}
		wg.Add(1)
		go func(k int, stacks []*stack) {
			defer wg.Done()
			for i := k; i < len(jobs); i += workers {
				results[i] = execCase(stacks, jobs[i].c)
			}
		}(k, stacks)
	}
	wg.Wait()
	for i := range jobs {
		w.record(jobs[i].c, jobs[i].canon, results[i])
	}
}

func (w *world) record(c reqCase, canon *yamlOp, res execResult) {
	run := w.run
	id := run.NextID()
	if res.panicMsg != "" {
		run.Violate(vh.Violation{Key: "C18:panic-escaped-router", What: "serving the request panicked through the router: " + res.panicMsg, Case: c})
		return
	}
	obs := res.first
	for i, st := range w.stacks {
		o1, o2 := res.first[i], res.second[i]
		if o1.key() != o2.key() {
			run.Violate(vh.Violation{Key: "C18:nondeterministic-decision", What: "the same request served twice on " + st.name + " gave different outcomes", Case: c, Observed: []observation{o1, o2}})
		}
		if res.hasUnseeded[i] {
			o3 := res.unseeded[i]
			if o3.Status != o1.Status || o3.Shutdown != o1.Shutdown || o3.Trigger != o1.Trigger {
				run.Tie(fmt.Sprintf("serving %s %s with and without a pre-seeded chi context differs: %+v vs %+v", c.Method, c.PathQ, o1, o3))
			}
		}
		// ---- oracle
		if !st.write {
			if o1.Shutdown > 0 {
				run.Violate(vh.Violation{Key: "C18:write-disabled-shutdown-sent", What: "with write operations disabled a request caused a send on the shutdown channel (" + st.name + ")", Case: c, Observed: o1, Expected: "no send"})
			}
			if o1.Trigger > 0 {
				run.Violate(vh.Violation{Key: "C18:write-disabled-trigger-sent", What: "with write operations disabled a request caused a send on the decryption trigger channel (" + st.name + ")", Case: c, Observed: o1, Expected: "no send"})
			}
			if o1.Class == "dispatch" {
				op := w.opFor(o1.Method, o1.Pattern)
				if op == nil || !op.ReadOnly || criticalOps[op.OpID] {
					run.Violate(vh.Violation{Key: "C18:write-disabled-dispatch-to-write-operation", What: fmt.Sprintf("with write operations disabled a request was dispatched to %s %s, which oapi.yaml does not mark read-only (%s)", o1.Method, o1.Pattern, st.name), Case: c, Observed: o1, Expected: "403/404, no dispatch"})
				}
			}
			for _, h := range o1.Entered {
				op := w.opByHandler(h)
				if op == nil || !op.ReadOnly || criticalOps[op.OpID] {
					run.Violate(vh.Violation{Key: "C18:write-disabled-handler-entered", What: "with write operations disabled the handler " + h + " was entered (" + st.name + ")", Case: c, Observed: o1, Expected: "not entered"})
				}
			}
		}
		if canon != nil && (st.write || canon.ReadOnly) {
			ok := o1.Class == "dispatch" && o1.Pattern == canon.Template && o1.Method == canon.Method
			if ok && !st.full {
				ok = len(o1.Entered) == 1 && o1.Entered[0] == canon.handlerName()
			}
			if ok && st.write && canon.OpID == "shutdown" {
				ok = o1.Shutdown == 1
			}
			if ok && st.write && canon.OpID == "SubmitDecryptionTrigger" {
				ok = o1.Trigger == 1
			}
			if !ok {
				if st.write {
					run.Violate(vh.Violation{Key: "C18:write-enabled-operation-unreachable", What: "with write operations enabled the canonical request of " + canon.OpID + " does not reach it (" + st.name + ")", Case: c, Observed: o1, Expected: "dispatch to " + canon.Method + " " + canon.Template})
				} else {
					run.Violate(vh.Violation{Key: "C18:read-only-operation-unreachable", What: "with write operations disabled the canonical request of the read-only operation " + canon.OpID + " does not reach it (" + st.name + ")", Case: c, Observed: o1, Expected: "dispatch to " + canon.Method + " " + canon.Template})
				}
			}
		}
		run.Dist[st.name+":"+o1.Class]++
	}
	// ---- model case
	parsedTerm := "None"
	if res.parsedOK {
		parsedTerm = vh.CSome(vh.CPair(vh.CStr(res.path), vh.CStr(res.rawPath)))
	}
	allBad := obs[0].Class == "baduri"
	for _, o := range obs {
		if (o.Class == "baduri") != allBad {
			run.Tie("request parsed on one stack but not on another")
		}
	}
	reachedGuard := false
	for _, o := range obs[2:] {
		switch o.Class {
		case "guard403", "guard404", "dispatch", "plain404", "inner405":
			reachedGuard = true
		}
	}
	run.Dist["method:"+methodClass(c.Method)]++
	run.Dist["kind:"+c.Kind]++
	term := vh.CApp("CReq", vh.CN(id), vh.CStr(c.Method), vh.CBytes(c.path()), parsedTerm,
		coqObs(obs[0]), coqObs(obs[1]), coqObs(obs[2]), coqObs(obs[3]))
	run.AddCase(id, term, c, c.Method+" "+c.PathHex, reachedGuard)
}

func methodClass(m string) string {
	switch m {
	case "GET", "POST", "PUT", "DELETE", "PATCH", "HEAD", "OPTIONS", "CONNECT", "TRACE":
		return m
	}
	if strings.ToUpper(m) != m {
		return "not-upper-case"
	}
	return "made-up"
}

// ---------------------------------------------------------------------------------------
// generation

var methods = []string{"GET", "POST", "PUT", "DELETE", "PATCH", "HEAD", "OPTIONS", "CONNECT", "TRACE",
	"get", "post", "Post", "delete", "FOO", "GETX", "PURGE"}

var eonValues = []string{"7", "0", "123", "-1", "abc", "1.5", "", "%37", "7%2F8", "a%2Fb", "%2F", "{eon}", "{x}", "..", ".", "%2e%2e", "007", "99999999999999999999", "7;a=b", "%00", "\xff", "é"}
var epochValues = []string{epoch64, "0x" + strings.Repeat("ab", 32), "0x" + strings.Repeat("AB", 32), "0xabc", "abc", "", "%30x" + strings.Repeat("2", 64), epoch64 + "%2Fx", "x%2Fshutdown", "{epochID}", "{a/b}", "..", "0x" + strings.Repeat("2", 63) + "%32"}
var genericValues = []string{"x1", "7", "", "%2F", "a%2Fb", "{x}", "..", "abc"}

func pickValue(r *vh.RNG, name string, valid bool, op *yamlOp) string {
	if valid && op != nil {
		for _, p := range op.Params {
			if p.Name == name {
				if v, ok := validValue(p); ok {
					return v
				}
			}
		}
	}
	switch name {
	case "eon":
		return eonValues[r.Intn(len(eonValues))]
	case "epochID":
		return epochValues[r.Intn(len(epochValues))]
	}
	return genericValues[r.Intn(len(genericValues))]
}

func instantiate(r *vh.RNG, op *yamlOp, valid bool) []string {
	segs := strings.Split(strings.TrimPrefix(op.Template, "/"), "/")
	for i, s := range segs {
		if strings.HasPrefix(s, "{") && strings.HasSuffix(s, "}") {
			segs[i] = pickValue(r, s[1:len(s)-1], valid, op)
		}
	}
	return segs
}

var prefixes = []string{"/v1", "/v1", "/v1", "/v1", "/v1", "/v1", "/v1", "/v1", "/v1", "/v1", "/v1", "/v1", "/v1", "/v1", "/v1", "/v1", "/v1", "/v1", "", "/V1", "/v1/v1", "/v2", "//v1", "/v1/.", "/./v1", "/v1/..", "/%76%31", "/%761", "/v1%2F", "/v1%2f", "/v1;x", "/api.json", "/metrics", "/ui", "/v", "/v11"}

func pctEncode(b byte, lower bool) string {
	s := fmt.Sprintf("%%%02X", b)
	if lower {
		s = strings.ToLower(s)
	}
	return s
}

// mutate applies one spelling mutation to the path string.
func mutate(r *vh.RNG, p string) (string, string) {
	slashes := []int{}
	for i := 0; i < len(p); i++ {
		if p[i] == '/' {
			slashes = append(slashes, i)
		}
	}
	switch r.Intn(22) {
	case 0:
		return p + "/", "trailing-slash"
	case 1:
		if len(slashes) > 0 {
			i := slashes[r.Intn(len(slashes))]
			return p[:i] + "/" + p[i:], "double-slash"
		}
	case 2:
		if len(slashes) > 0 {
			i := slashes[r.Intn(len(slashes))]
			return p[:i] + vh.Pick(r, "/.", "/..", "/x/..", "/./.", "/%2e", "/%2E%2E") + p[i:], "dot-segment"
		}
	case 3, 4:
		if len(p) > 1 {
			i := 1 + r.Intn(len(p)-1)
			if p[i] != '/' && p[i] != '%' {
				return p[:i] + pctEncode(p[i], r.Bool()) + p[i+1:], "percent-encoded-char"
			}
		}
	case 5, 6:
		if len(slashes) > 1 {
			i := slashes[1+r.Intn(len(slashes)-1)]
			return p[:i] + vh.Pick(r, "%2F", "%2f") + p[i+1:], "encoded-slash"
		}
	case 7:
		if len(p) > 1 {
			i := 1 + r.Intn(len(p)-1)
			c := p[i]
			if 'a' <= c && c <= 'z' {
				return p[:i] + string(c-32) + p[i+1:], "case-change"
			}
			if 'A' <= c && c <= 'Z' {
				return p[:i] + string(c+32) + p[i+1:], "case-change"
			}
		}
	case 8:
		return strings.ToUpper(p), "upper-case"
	case 9:
		if len(slashes) > 0 {
			i := slashes[r.Intn(len(slashes))]
			j := strings.IndexByte(p[i+1:], '/')
			end := len(p)
			if j >= 0 {
				end = i + 1 + j
			}
			return p[:i+1] + vh.Pick(r, "{x}", "{a/b}", "{}", "{x", "x}", "*", "{eon}", "{epochID}", "{x}{y}") + p[end:], "brace-segment"
		}
	case 10:
		return p + vh.Pick(r, ";a=b", "#frag", ".json", "%00", "\xff", "é", "\\", "%2e%2e", "%20", "+", "%", "x", "%0a", "%25"), "junk-suffix"
	case 11:
		i := r.Intn(len(p) + 1)
		return p[:i] + vh.Pick(r, "%zz", "%", "%4", "%g0", "%0g") + p[i:], "invalid-escape"
	case 12:
		i := r.Intn(len(p) + 1)
		return p[:i] + vh.Pick(r, "\x01", "\x7f", "\t", "\x1f") + p[i:], "control-byte"
	case 13:
		if len(p) > 1 {
			i := 1 + r.Intn(len(p)-1)
			if p[i] != '/' {
				return p[:i] + "%25" + fmt.Sprintf("%02x", p[i]) + p[i+1:], "escaped-percent"
			}
		}
	case 14:
		if len(slashes) > 1 {
			i := slashes[len(slashes)-1]
			return p[:i], "drop-last-segment"
		}
	case 15:
		return p + "/" + vh.Pick(r, "shutdown", "ping", "decryptionTrigger", "eons", "x"), "extra-segment"
	case 16:
		if len(slashes) > 1 {
			i := slashes[1+r.Intn(len(slashes)-1)]
			return p[:i] + "/" + vh.Pick(r, "ping/..", "eons/../", "%2e%2e", "shutdown/..") + p[i:], "traversal"
		}
	case 17:
		i := r.Intn(len(p) + 1)
		return p[:i] + vh.Pick(r, "\xff", "\xc3\xa9", "\xe2\x80\xae", "\x80") + p[i:], "non-ascii"
	case 18:
		if len(p) > 1 {
			// encode every letter
			var sb strings.Builder
			for i := 0; i < len(p); i++ {
				if p[i] != '/' && p[i] != '%' && r.Chance(1, 2) {
					sb.WriteString(pctEncode(p[i], r.Bool()))
				} else {
					sb.WriteByte(p[i])
				}
			}
			return sb.String(), "percent-encoded-many"
		}
	case 19:
		return p + "%2F", "encoded-trailing-slash"
	case 20:
		if len(slashes) > 1 {
			i := slashes[1+r.Intn(len(slashes)-1)]
			return p[:i+1] + p[i:], "double-slash-inner"
		}
	}
	return p, "none"
}

var queries = []string{"", "", "", "", "?", "?x=1", "?path=/v1/ping", "?%zz", "?a=b?c=d", "?/v1/shutdown"}

func genRandom(r *vh.RNG, ops []yamlOp) (reqCase, *yamlOp) {
	method := methods[0]
	switch {
	case r.Chance(3, 10):
		method = "POST"
	case r.Chance(3, 7):
		method = "GET"
	default:
		method = methods[r.Intn(len(methods))]
	}
	var segs []string
	var base *yamlOp
	switch k := r.Intn(12); {
	case k < 9:
		base = &ops[r.Intn(len(ops))]
		segs = instantiate(r, base, r.Chance(1, 2))
		if r.Chance(1, 2) {
			method = vh.Pick(r, base.Method, base.Method, method)
		}
	case k == 9:
		segs = []string{vh.Pick(r, "unknown", "", "v1", "api.json", "Ping", "shutdown ", "shutdownx", "shut", "metrics")}
	case k == 10:
		segs = []string{vh.Pick(r, "ping", "shutdown", "eons", "decryptionTrigger", "decryptionKey"), vh.Pick(r, "x", "7", "", "shutdown")}
	default:
		segs = nil
	}
	p := prefixes[r.Intn(len(prefixes))]
	if segs != nil {
		p += "/" + strings.Join(segs, "/")
	}
	var notes []string
	n := vh.Pick(r, 0, 1, 1, 1, 2, 2, 3)
	for i := 0; i < n; i++ {
		var what string
		p, what = mutate(r, p)
		notes = append(notes, what)
	}
	p = strings.NewReplacer(" ", "%20", "\r", "%0d", "\n", "%0a", "?", "%3F").Replace(p)
	form := "origin"
	if r.Chance(1, 12) {
		form = "absolute"
	}
	if !strings.HasPrefix(p, "/") && (form == "origin" || p != "") {
		p = "/" + p
	}
	return mkCase("random", method, []byte(p), queries[r.Intn(len(queries))], form, strings.Join(notes, ",")), nil
}

// fixedSpellings: hand-enumerated spellings of one canonical path (forced into every run).
func fixedSpellings(canon, template string) [][2]string {
	rest := strings.TrimPrefix(canon, mountPrefix) // "/shutdown"
	first := rest[1:2]
	out := [][2]string{
		{canon, "canonical"},
		{canon + "/", "trailing-slash"},
		{mountPrefix + "/" + rest, "double-slash-after-mount"},
		{"/" + canon, "double-slash-before-mount"},
		{canon + "//", "double-trailing-slash"},
		{mountPrefix + "/." + rest, "dot-segment"},
		{mountPrefix + "/x/.." + rest, "dotdot-segment"},
		{mountPrefix + "/ping/.." + rest, "traversal-from-ping"},
		{mountPrefix + "/" + pctEncode(first[0], false) + rest[2:], "first-letter-encoded-upper-hex"},
		{mountPrefix + "/" + pctEncode(first[0], true) + rest[2:], "first-letter-encoded-lower-hex"},
		{mountPrefix + "%2F" + rest[1:], "encoded-slash-after-mount"},
		{mountPrefix + "%2f" + rest[1:], "encoded-slash-after-mount-lower"},
		{"/%76%31" + rest, "mount-encoded"},
		{"/V1" + rest, "mount-upper"},
		{mountPrefix + strings.ToUpper(rest), "upper-case"},
		{mountPrefix + mountPrefix + rest, "mount-twice"},
		{rest, "no-mount"},
		{canon + "%2F", "encoded-trailing-slash"},
		{canon + ";a=b", "matrix-param"},
		{canon + "#x", "fragment"},
		{canon + "%00", "nul"},
		{canon + "%", "invalid-escape"},
		{canon + "\x01", "control-byte"},
		{mountPrefix + "/%25" + fmt.Sprintf("%02x", first[0]) + rest[2:], "escaped-percent"},
		{mountPrefix + rest + "/{x}", "extra-brace-segment"},
		{mountPrefix + "/{x}", "brace-only"},
		{mountPrefix, "mount-only"},
		{mountPrefix + "/", "mount-slash"},
		{"/", "root"},
	}
	if strings.Contains(template, "{") {
		// the template text itself, and the template with other "parameter names" (kin-openapi's
		// Paths.Find erases what is between braces, even a slash)
		re := strings.NewReplacer("{", "{x/y", "}", "z}")
		out = append(out,
			[2]string{mountPrefix + template, "template-verbatim"},
			[2]string{mountPrefix + re.Replace(template), "template-with-slash-in-braces"},
			[2]string{mountPrefix + strings.NewReplacer("{", "%7B", "}", "%7D").Replace(template), "template-braces-encoded"},
		)
	}
	if i := strings.LastIndex(rest, "/"); i > 0 {
		out = append(out,
			[2]string{mountPrefix + rest[:i] + "%2F" + rest[i+1:], "encoded-slash-inside"},
			[2]string{mountPrefix + rest[:i] + "//" + rest[i+1:], "double-slash-inside"},
			[2]string{mountPrefix + rest[:i] + "/", "last-parameter-empty"},
			[2]string{mountPrefix + rest[:i], "last-segment-dropped"},
			[2]string{mountPrefix + rest[:i] + "/{a/b}", "brace-with-slash"},
			[2]string{mountPrefix + rest[:i] + "/x%2Fshutdown", "encoded-slash-then-shutdown"},
		)
	}
	return out
}

func main() {
	run := vh.Start("Verif.Corr.C18", 250)
	defer run.Finish()
	run.SetPreamble("From Verif Require Import Model.HttpGuard.") // mk_op, rokind in variant cases
	run.Rule = "requests = method x path spelling (canonical paths of every operation of oapi.yaml under hand-enumerated spellings x all methods first, then PRNG: template instantiation with valid/invalid parameter values, mount-prefix variants, 0-3 spelling mutations, query strings, absolute-form targets); each is served on four stacks (full router and validator-less router, write operations disabled and enabled), twice each; then spec variants (the real document plus added operations whose concrete path is also matched by a template of the other read-only classification, or by two templates) x plain paths x a few methods, each repeated 16 times on the validator-less and 8 times on the full stack over 4 freshly built instances; then one long request sequence on ONE server instance per mode: the guarded probes again after each of 24 auxiliary requests (/api.json, swagger ui, /metrics, unknown paths, HEAD/OPTIONS/POST on them), each auxiliary request 3 times, a probe must get the fresh instance's answer at every position; non-trivial = the request got past the root router to the guard on the validator-less stack; distinct by (method, path bytes)"

	// chi's request logger prints every request; keep the middleware, drop the output
	middleware.DefaultLogger = middleware.RequestLogger(&middleware.DefaultLogFormatter{Logger: log.New(io.Discard, "", 0), NoColor: true})

	pc, err := pgxpool.ParseConfig("host=/nonexistent-verif-c18 user=x dbname=x")
	if err != nil {
		panic(err)
	}
	pc.LazyConnect = true
	pool, err := pgxpool.ConnectConfig(context.Background(), pc)
	if err != nil {
		panic(err)
	}
	defer pool.Close()

	ops, err := readYAML(run.Repo)
	if err != nil {
		panic(err)
	}
	w := &world{run: run, stacks: newStacks(pool), ops: ops}

	if run.Replay != "" {
		var c reqCase
		if err := run.LoadReplay(&c); err != nil {
			panic(err)
		}
		if c.Variant != "" {
			v := variantByName(c.Variant)
			if v == nil {
				panic("unknown spec variant " + c.Variant)
			}
			if inst := w.variantInstances(pool, v); inst != nil {
				w.runVariantCase(v, inst, c)
			}
			return
		}
		var canon *yamlOp
		if c.Kind == "canonical" || (c.Kind == "sequence" && c.Note != "") {
			for i := range ops {
				if p, ok := canonicalPath(ops[i]); ok && p == string(c.path()) && ops[i].Method == c.Method {
					canon = &ops[i]
				}
			}
		}
		if c.Kind == "concurrent" || c.Kind == "concurrent-overlap" {
			w.replayConcurrent(pool, c)
			return
		}
		if c.Kind == "sequence" || c.Kind == "sequence-aux" {
			w.replaySequence(pool, c, canon)
			return
		}
		w.runAll([]job{{c, canon}}, pool)
		return
	}

	var jobs []job
	// 1. canonical requests (reachability)
	for i := range ops {
		p, ok := canonicalPath(ops[i])
		if !ok {
			run.Tie("cannot build a schema-valid canonical request for " + ops[i].OpID)
			continue
		}
		jobs = append(jobs, job{mkCase("canonical", ops[i].Method, []byte(p), "", "origin", ops[i].OpID), &ops[i]})
	}
	// 2. forced: every method x hand-enumerated spellings of every canonical path
	for i := range ops {
		p, _ := canonicalPath(ops[i])
		for _, sp := range fixedSpellings(p, ops[i].Template) {
			for _, m := range methods {
				jobs = append(jobs, job{mkCase("forced", m, []byte(sp[0]), "", "origin", ops[i].OpID+":"+sp[1]), nil})
			}
			jobs = append(jobs, job{mkCase("forced", ops[i].Method, []byte(sp[0]), "?x=1", "origin", ops[i].OpID+":"+sp[1]+"+query"), nil})
			jobs = append(jobs, job{mkCase("forced", ops[i].Method, []byte(sp[0]), "", "absolute", ops[i].OpID+":"+sp[1]+"+absolute-form"), nil})
		}
	}
	// 3. corpus
	for _, f := range run.CorpusFiles() {
		run.Replay = f
		var c reqCase
		if err := run.LoadReplay(&c); err == nil {
			jobs = append(jobs, job{c, nil})
		}
		run.Replay = ""
	}
	// 4. random
	n := run.Scale(3500, 150000)
	for i := 0; i < n; i++ {
		c, _ := genRandom(run.RNG, ops)
		jobs = append(jobs, job{c, nil})
	}
	w.runAll(jobs, pool)
	// 5. spec variants: the guard's lookup order (exact path before templates, map order)
	w.runVariants(pool)
	// 6. request sequences on one server instance per mode (auxiliary routes between the probes)
	w.runSequences(pool)
	// 7. concurrent requests on one server instance per mode (barrier rounds, blocked spec load)
	w.runConcurrent(pool)
}
