//go:build verif

// Driver for C03 (every honest keyper obtains the correct key under any gossip delivery order).
//
// gossipsim (harness/gossipdrv/sim.go): n real handler stacks of one flavour (core, Gnosis,
// Shutter service; for Gnosis also the access node), each on its own fake database. A schedule
// triggers keypers (real ConstructDecryptionKeyShares + the flavour's real messaging
// middleware) and delivers published messages (real combined validator, then - only on Accept -
// real P2PMessaging.Handle; what the handlers return is published after passing the sender's
// own validator). The model (Model/GossipNet.v) replays every schedule; the oracle below is
// written from the property text.
package main

import (
	"fmt"
	"runtime"
	"sort"
	"strings"
	"sync"

	g "verifharness/gossipdrv"
	"verifharness/vh"
)

const (
	idA = "a1a1a1a1a1a1a1a1a1a1a1a1a1a1a1a1a1a1a1a1a1a1a1a1a1a1a1a1a1a1a1a1"
	idB = "b2b2b2b2b2b2b2b2b2b2b2b2b2b2b2b2b2b2b2b2b2b2b2b2b2b2b2b2b2b2b2b2"
	// near identities: equal length, same first and last bytes, different in the middle
	idN1 = "c5c6000000000000000000000000000000000000000000000000000000001112"
	idN2 = "c5c6000000000000000000000000000100000000000000000000000000001112"
	idN3 = "c5c6ffffffffffffffffffffffffffffffffffffffffffffffffffffffff1112"
)

func wide(id string) string { return id + strings.Repeat("00", 20) }

type caseJ struct {
	Cfg      g.SimConfig `json:"cfg"`
	Ops      []g.SimOp   `json:"ops"`
	Complete bool        `json:"complete"` // every share message reaches every other keyper (up to n-t losses per receiver), every keys message everyone
	Rounds   bool        `json:"rounds,omitempty"` // several trigger rounds with different identity lists: only the quiescence part of the oracle applies
	Origin   string      `json:"origin"`
}

func (c *caseJ) key() string { return fmt.Sprintf("%+v/%+v", c.Cfg, c.Ops) }

// idents: k = 1, 2: that many distinct identities; k = 5, 6: two / three NEAR identities (same
// length, same first and last bytes); k = 3: [A, A, B]; k = 4: [A, A] - a trigger
// may name the same identity preimage twice (keypers sort, they never deduplicate), so the
// lists are non-decreasing, not strictly increasing.
func idents(fl string, k int) []string {
	var ids []string
	switch k {
	case 3:
		ids = []string{idA, idA, idB}
	case 4:
		ids = []string{idA, idA}
	case 7: // mixed lengths: the bytewise order (the producers') and the numeric order of the big-endian values disagree
		ids = []string{"0100", "ff"}
	case 8:
		ids = []string{"0100", "02", "ff"}
	case 9:
		ids = []string{"00ff", "010000", "ffff"}
	case 5:
		ids = []string{idN1, idN2}
	case 6:
		ids = []string{idN1, idN2, idN3}
	default:
		ids = []string{idA, idB}[:k]
	}
	if fl == "gnosis" {
		for i := range ids {
			ids[i] = wide(ids[i])
		}
	}
	return ids
}

// ---------------------------------------------------------------------------------------------
// schedules

type event struct {
	trigger  bool
	from, to int
}

// interleavings enumerates all orders of the triggers of `set` and the deliveries `dels`
// (each delivery after its sender's trigger), one representative per renaming of the nodes:
// nodes are numbered in order of first appearance.
func interleavings(n int, set []int, dels [][2]int, emit func([]g.SimOp)) {
	var evs []event
	for _, i := range set {
		evs = append(evs, event{trigger: true, from: i})
	}
	for _, d := range dels {
		evs = append(evs, event{from: d[0], to: d[1]})
	}
	used := make([]bool, len(evs))
	triggered := make([]bool, n)
	var cur []event
	var rec func()
	canonical := func() bool {
		next := 0
		seen := make([]bool, n)
		see := func(i int) bool {
			if seen[i] {
				return true
			}
			if i != next {
				return false
			}
			seen[i] = true
			next++
			return true
		}
		for _, e := range cur {
			if !see(e.from) {
				return false
			}
			if !e.trigger && !see(e.to) {
				return false
			}
		}
		return true
	}
	rec = func() {
		if !canonical() {
			return
		}
		if len(cur) == len(evs) {
			ops := make([]g.SimOp, len(cur))
			for i, e := range cur {
				if e.trigger {
					ops[i] = g.SimOp{K: "T", Node: e.from}
				} else {
					ops[i] = g.SimOp{K: "S", From: e.from, Node: e.to}
				}
			}
			emit(ops)
			return
		}
		for i, e := range evs {
			if used[i] || (!e.trigger && !triggered[e.from]) {
				continue
			}
			used[i] = true
			if e.trigger {
				triggered[e.from] = true
			}
			cur = append(cur, e)
			rec()
			cur = cur[:len(cur)-1]
			if e.trigger {
				triggered[e.from] = false
			}
			used[i] = false
		}
	}
	rec()
}

func allDeliveries(n int, set []int) [][2]int {
	var out [][2]int
	for _, i := range set {
		for j := 0; j < n; j++ {
			if j != i {
				out = append(out, [2]int{i, j})
			}
		}
	}
	return out
}

// withKeys places the keys deliveries: lazily at the end, or eagerly after every operation.
func withKeys(ops []g.SimOp, eager bool) []g.SimOp {
	var out []g.SimOp
	for _, o := range ops {
		out = append(out, o)
		if eager {
			out = append(out, g.SimOp{K: "K"})
		}
	}
	return append(out, g.SimOp{K: "K"})
}

// randomSchedule: a random subset of >= t triggered keypers, every share delivery except up to
// n-t per receiver (only while the receiver keeps t distinct sources incl. itself), in random
// order, with duplicates and keys flushes sprinkled in.
func randomSchedule(r *vh.RNG, fl string, n, t, nid int) *caseJ {
	perm := r.Perm(n)
	k := t + r.Intn(n-t+1)
	set := append([]int(nil), perm[:k]...)
	sort.Ints(set)
	inSet := map[int]bool{}
	for _, i := range set {
		inSet[i] = true
	}
	var evs []event
	for _, i := range set {
		evs = append(evs, event{trigger: true, from: i})
	}
	for j := 0; j < n; j++ {
		var srcs []int
		for _, i := range set {
			if i != j {
				srcs = append(srcs, i)
			}
		}
		have := len(srcs)
		if inSet[j] {
			have++
		}
		// lose up to n-t incoming share messages, keeping t distinct sources
		lose := 0
		if have > t {
			lose = r.Intn(min(n-t, have-t) + 1)
		}
		p := r.Perm(len(srcs))
		for x, idx := range p {
			if x < lose {
				continue
			}
			evs = append(evs, event{from: srcs[idx], to: j})
		}
	}
	// random linear extension
	var ops []g.SimOp
	triggered := map[int]bool{}
	for len(evs) > 0 {
		var ready []int
		for i, e := range evs {
			if e.trigger || triggered[e.from] {
				ready = append(ready, i)
			}
		}
		i := ready[r.Intn(len(ready))]
		e := evs[i]
		evs = append(evs[:i], evs[i+1:]...)
		if e.trigger {
			triggered[e.from] = true
			ops = append(ops, g.SimOp{K: "T", Node: e.from})
			if r.Chance(1, 8) {
				ops = append(ops, g.SimOp{K: "T", Node: e.from}) // the trigger fires twice
			}
		} else {
			ops = append(ops, g.SimOp{K: "S", From: e.from, Node: e.to})
			if r.Chance(1, 5) {
				ops = append(ops, g.SimOp{K: "S", From: e.from, Node: e.to}) // duplicate
			}
		}
		if r.Chance(1, 4) {
			ops = append(ops, g.SimOp{K: "K"})
		}
	}
	ops = append(ops, g.SimOp{K: "K"})
	if r.Chance(1, 3) {
		ops = append(ops, g.SimOp{K: "KA"}, g.SimOp{K: "K"})
	}
	if r.Chance(1, 4) {
		// late duplicates of share messages, after the keys exist
		for i := 0; i < 2; i++ {
			ops = append(ops, g.SimOp{K: "S", From: set[r.Intn(len(set))], Node: r.Intn(n)})
		}
		ops = append(ops, g.SimOp{K: "K"})
	}
	return &caseJ{Cfg: g.SimConfig{Flavour: fl, N: n, T: t, Idents: idents(fl, nid)}, Ops: ops, Complete: true,
		Origin: fmt.Sprintf("random:%s:n=%d,t=%d,triggered=%d", fl, n, t, k)}
}

// twoRounds: every keyper is triggered for the first identity only, these share messages and
// the keys messages are delivered; then every keyper is triggered for both identities (the
// key of the first one exists by then) and those messages are delivered.
func twoRounds(r *vh.RNG, fl string, n, t int) *caseJ {
	return rounds(r, fl, n, t, 2, [][]int{{0}, {0, 1}}, "rounds")
}

// nearRounds: consecutive decryption rounds in the same processes whose identities are near
// each other (same length, same first and last bytes, different middle), in either order, and
// a last round naming all of them - anything keyed by an abbreviation of the identity collides.
func nearRounds(r *vh.RNG, fl string, n, t int, reverse bool) *caseJ {
	sel := [][]int{{0}, {1}, {2}, {0, 1, 2}}
	if reverse {
		sel = [][]int{{2}, {1}, {0}, {0, 1, 2}}
	}
	return rounds(r, fl, n, t, 6, sel, "near-rounds")
}

func rounds(r *vh.RNG, fl string, n, t, kind int, sels [][]int, name string) *caseJ {
	var ops []g.SimOp
	round := func(sel []int, slot, txp int64) {
		var evs []event
		for i := 0; i < n; i++ {
			evs = append(evs, event{trigger: true, from: i})
			for j := 0; j < n; j++ {
				if j != i {
					evs = append(evs, event{from: i, to: j})
				}
			}
		}
		triggered := map[int]bool{}
		for len(evs) > 0 {
			var ready []int
			for i, e := range evs {
				if e.trigger || triggered[e.from] {
					ready = append(ready, i)
				}
			}
			i := ready[r.Intn(len(ready))]
			e := evs[i]
			evs = append(evs[:i], evs[i+1:]...)
			if e.trigger {
				triggered[e.from] = true
				ops = append(ops, g.SimOp{K: "T", Node: e.from, Ids: sel, Slot: slot, Txp: txp})
			} else {
				ops = append(ops, g.SimOp{K: "S", From: e.from, Node: e.to})
			}
		}
		ops = append(ops, g.SimOp{K: "K"})
	}
	for i, sel := range sels {
		round(sel, g.SimSlot+int64(i), g.SimTxp+int64(i))
	}
	return &caseJ{Cfg: g.SimConfig{Flavour: fl, N: n, T: t, Idents: idents(fl, kind)}, Ops: ops, Complete: true, Rounds: true,
		Origin: fmt.Sprintf("%s:%s:n=%d,t=%d", name, fl, n, t)}
}

// partialSchedule: an arbitrary prefix-like schedule (not everything is delivered): only the
// conditional part of the oracle applies.
func partialSchedule(r *vh.RNG, fl string, n, t int) *caseJ {
	c := randomSchedule(r, fl, n, t, 1)
	cut := 1 + r.Intn(len(c.Ops))
	c.Ops = c.Ops[:cut]
	c.Complete = false
	c.Origin = strings.Replace(c.Origin, "random:", "partial:", 1)
	return c
}

// ---------------------------------------------------------------------------------------------
// oracle

func oracle(run *vh.Run, c *caseJ, res *g.SimResult) {
	fl := c.Cfg.Flavour
	violate := func(key, what string, observed any) {
		run.Violate(vh.Violation{Key: "C03:" + fl + ":" + key, What: what, Case: c, Observed: observed})
	}
	firstTrigger := map[int]bool{}
	opIdx := 0
	_ = opIdx
	for i, st := range res.Steps {
		if st.Crash != "" {
			violate("panic", fmt.Sprintf("step %d panicked: %s", i, st.Crash), st)
		}
		if st.Kind != "" && st.Verdict != "accept" {
			violate("honest-"+st.Kind+"-message-rejected-by-honest-peer",
				fmt.Sprintf("step %d: the %s message of keyper %d was not accepted (%s)", i, st.Kind, st.From, st.Verdict), st)
		}
		for _, p := range st.Pubs {
			f := strings.Split(p, ":")
			if f[1] != "accept" && !(c.Rounds && fl == "gnosis" && f[0] == "keys") {
				// (a Gnosis keyper that derives the keys of a later slot before its own trigger for
				// that slot still holds the previous trigger row: its middleware attaches the old
				// slot's signatures, and the local validation drops that message - the hypothesis
				// "the current trigger row names the tuple" of C03_single_node_progress)
				violate("own-publish-rejected", fmt.Sprintf("step %d: a node's own %s message does not pass its own validator (%s)", i, f[0], f[1]), st)
			}
			if f[0] == "keys" && fl != "core" {
				// exactly t signatures, the smallest keyper indices the emitter knows, ascending
				var idx []int
				fmt.Sscan(strings.NewReplacer("[", "", "]", "").Replace(f[2]))
				for _, x := range strings.Fields(strings.Trim(f[2], "[]")) {
					var v int
					fmt.Sscan(x, &v)
					idx = append(idx, v)
				}
				if (len(idx) != c.Cfg.T || !sort.IntsAreSorted(idx)) && f[1] == "accept" {
					violate("keys-message-signer-set", fmt.Sprintf("step %d: keys message with signers %v (threshold %d)", i, idx, c.Cfg.T), st)
				}
			}
		}
	}
	// triggers: an honest keyper that is triggered for the first time publishes its share message
	si := 0
	for _, o := range c.Ops {
		if o.K == "T" && si < len(res.Steps) {
			if !firstTrigger[o.Node] {
				firstTrigger[o.Node] = true
				if len(res.Steps[si].Pubs) != 1 {
					violate("trigger-without-share-message", fmt.Sprintf("keyper %d was triggered and published %d messages (%s)", o.Node, len(res.Steps[si].Pubs), res.Steps[si].ProdErr), res.Steps[si])
				}
			}
		}
		if o.K == "T" || o.K == "S" || o.K == "D" {
			si++
		} else {
			break // abstract keys flushes expand into several steps; the alignment is only needed for the triggers before the first flush
		}
	}
	// quiescence
	for j, rows := range res.Keys {
		have := map[string]bool{}
		for _, k := range rows {
			if !k.Correct {
				violate("wrong-key-stored", fmt.Sprintf("keyper %d stores a key for %s that is not the epoch secret key", j, k.Ident), rows)
			}
			if k.Eon == g.SimKci {
				have[k.Ident] = true
			}
		}
		all := true
		for _, id := range c.Cfg.Idents {
			if !have[id] {
				all = false
			}
		}
		if all {
			continue
		}
		switch {
		case c.Rounds && c.Complete:
			violate("no-key-at-quiescence", fmt.Sprintf("keyper %d lacks a key although every keyper was triggered for every identity and all messages were delivered", j), rows)
		case c.Rounds:
		case len(res.ForeignShares[j]) >= c.Cfg.T:
			violate("no-key-after-t-share-messages", fmt.Sprintf("keyper %d handled share messages of %d distinct keypers and stores no key", j, len(res.ForeignShares[j])), rows)
		case res.CompletedOwn[j]:
			violate("no-key-after-own-plus-foreign-shares", fmt.Sprintf("keyper %d handled a share message while holding t distinct shares (its own included) and stores no key", j), rows)
		case res.GotKeys[j]:
			violate("no-key-after-keys-message", fmt.Sprintf("keyper %d handled a keys message and stores no key", j), rows)
		case c.Complete:
			violate("no-key-at-quiescence", fmt.Sprintf("keyper %d stores no key although at least t keypers were triggered and all messages were delivered (up to n-t lost share messages per receiver)", j), rows)
		}
	}
}

// ---------------------------------------------------------------------------------------------

func main() {
	run := vh.Start("Verif.Corr.C03", 60)
	defer run.Finish()
	run.SetPreamble("From Verif Require Import Model.EpochKG Model.EpochKGLabels Model.EpochKGHandler Model.GossipNet.\nOpen Scope N_scope.")
	run.Rule = "schedules on n real handler stacks per flavour: (core, n=3, t=2, one identity) all interleavings of the three triggers and six share deliveries up to renaming of the nodes, keys messages delivered lazily (quick: every 2nd of them, keys messages delivered lazily; thorough: all, and eagerly as well), all interleavings with two triggered keypers; all interleavings with two triggered keypers whose trigger names the same identity twice; sampled complete schedules (one or two identities, [A, A, B], [A, A]) with losses (up to n-t share messages per receiver), duplicates, repeated triggers for core / service / Gnosis (+ access node, its storage built through the node's own chain sync callbacks in the orders keyper set then eon key / eon key then keyper set / keyper set announced again after the key, in turn), n <= 5, one or two identities; sampled partial schedules; sampled two-round schedules (every keyper triggered for the first identity, then for both); core: identities of different lengths whose bytewise and numeric orders disagree ([0100, ff], [0100, 02, ff], [00ff, 010000, ffff]); rounds over near identities (same length, same first and last bytes) in both orders and triggers naming two of them; non-trivial = at least one keys message was published; distinct by canonical rendering of configuration and schedule"
	workers := runtime.NumCPU() / 2
	if workers < 1 {
		workers = 1
	}
	if workers > 8 {
		workers = 8
	}
	const per = 6
	pool := g.NewSimPool(run, workers*per)
	defer pool.Close()
	for _, nt := range [][2]int{{3, 2}, {4, 2}, {4, 3}, {5, 3}} {
		pool.Material(nt[0], nt[1])
	}

	var cases []*caseJ
	// the access node of a generated Gnosis schedule is built in one of the three orders, in turn
	// (a replayed or corpus schedule says which itself)
	assignAccess, nGnosis := false, 0
	emit := func(c *caseJ) {
		if assignAccess && c.Cfg.Flavour == "gnosis" && c.Cfg.Access == "" {
			c.Cfg.Access = g.AccessOrders[nGnosis%len(g.AccessOrders)]
			nGnosis++
		}
		cases = append(cases, c)
	}
	if run.Replay != "" {
		var c caseJ
		if err := run.LoadReplay(&c); err != nil {
			panic(err)
		}
		emit(&c)
	} else {
		for _, f := range run.CorpusFiles() {
			var c caseJ
			run.Replay = f
			if err := run.LoadReplay(&c); err == nil && len(c.Ops) > 0 {
				c.Origin = "corpus:" + c.Origin
				emit(&c)
			}
			run.Replay = ""
		}
		assignAccess = true
		core := g.SimConfig{Flavour: "core", N: 3, T: 2, Idents: idents("core", 1)}
		stride := run.Scale(2, 1)
		count := 0
		interleavings(3, []int{0, 1, 2}, allDeliveries(3, []int{0, 1, 2}), func(ops []g.SimOp) {
			count++
			if count%stride == 0 {
				emit(&caseJ{Cfg: core, Ops: withKeys(ops, false), Complete: true, Origin: "exhaustive:core:all-triggered:lazy-keys"})
				if run.Thorough {
					emit(&caseJ{Cfg: core, Ops: withKeys(ops, true), Complete: true, Origin: "exhaustive:core:all-triggered:eager-keys"})
				}
			}
		})
		run.Dist["exhaustive:interleavings-of-3-triggers-6-deliveries"] = count
		for _, fl := range []string{"core", "service", "gnosis"} {
			cfg := g.SimConfig{Flavour: fl, N: 3, T: 2, Idents: idents(fl, 1)}
			interleavings(3, []int{0, 1}, allDeliveries(3, []int{0, 1}), func(ops []g.SimOp) {
				emit(&caseJ{Cfg: cfg, Ops: withKeys(ops, false), Complete: true, Origin: "exhaustive:" + fl + ":two-triggered:lazy-keys"})
				emit(&caseJ{Cfg: cfg, Ops: withKeys(ops, true), Complete: true, Origin: "exhaustive:" + fl + ":two-triggered:eager-keys"})
			})
		}
		// the same identity preimage twice in one trigger (non-decreasing, not strictly increasing)
		for _, fl := range []string{"core", "service", "gnosis"} {
			cfg := g.SimConfig{Flavour: fl, N: 3, T: 2, Idents: idents(fl, 4)}
			interleavings(3, []int{0, 1}, allDeliveries(3, []int{0, 1}), func(ops []g.SimOp) {
				emit(&caseJ{Cfg: cfg, Ops: withKeys(ops, false), Complete: true, Origin: "exhaustive:" + fl + ":two-triggered:repeated-identity"})
			})
		}
		// identities of different lengths (core flavour: block numbers in minimal big-endian form, ...)
		for _, k := range []int{7, 8, 9} {
			cfg := g.SimConfig{Flavour: "core", N: 3, T: 2, Idents: idents("core", k)}
			n := 0
			interleavings(3, []int{0, 1}, allDeliveries(3, []int{0, 1}), func(ops []g.SimOp) {
				n++
				if n%4 == 1 {
					emit(&caseJ{Cfg: cfg, Ops: withKeys(ops, false), Complete: true, Origin: "exhaustive:core:two-triggered:mixed-length-identities"})
				}
			})
			for i := 0; i < run.Scale(4, 60); i++ {
				c := randomSchedule(run.RNG.Fork(), "core", 3, 2, k)
				c.Origin = strings.Replace(c.Origin, "random:", "random-mixed-length:", 1)
				emit(c)
			}
		}
		if run.Thorough {
			for _, fl := range []string{"service", "gnosis"} {
				cfg := g.SimConfig{Flavour: fl, N: 3, T: 2, Idents: idents(fl, 1)}
				interleavings(3, []int{0, 1, 2}, allDeliveries(3, []int{0, 1, 2}), func(ops []g.SimOp) {
					emit(&caseJ{Cfg: cfg, Ops: withKeys(ops, false), Complete: true, Origin: "exhaustive:" + fl + ":all-triggered:lazy-keys"})
				})
			}
		}
		shapes := [][3]int{{3, 2, 1}, {3, 2, 2}, {4, 2, 1}, {4, 3, 1}, {5, 3, 1}, {3, 2, 3}, {4, 2, 4}}
		for _, fl := range []string{"core", "service", "gnosis"} {
			for i, n := 0, run.Scale(110, 1700); i < n; i++ {
				sh := shapes[run.RNG.Intn(len(shapes))]
				emit(randomSchedule(run.RNG.Fork(), fl, sh[0], sh[1], sh[2]))
			}
			for i, n := 0, run.Scale(40, 600); i < n; i++ {
				sh := shapes[run.RNG.Intn(len(shapes))]
				emit(partialSchedule(run.RNG.Fork(), fl, sh[0], sh[1]))
			}
			for i, n := 0, run.Scale(25, 400); i < n; i++ {
				sh := shapes[run.RNG.Intn(len(shapes))]
				emit(twoRounds(run.RNG.Fork(), fl, sh[0], sh[1]))
			}
			for i, n := 0, run.Scale(8, 150); i < n; i++ {
				emit(nearRounds(run.RNG.Fork(), fl, 3, 2, i%2 == 1))
				emit(randomSchedule(run.RNG.Fork(), fl, 3, 2, 5)) // one trigger naming two near identities
			}
		}
	}

	results := make([]*g.SimResult, len(cases))
	jobs := make(chan int, len(cases))
	for i := range cases {
		jobs <- i
	}
	close(jobs)
	var wg sync.WaitGroup
	for w := 0; w < workers; w++ {
		wg.Add(1)
		go func(base int) {
			defer wg.Done()
			for i := range jobs {
				results[i] = pool.Sim(base, cases[i].Cfg, cases[i].Ops)
			}
		}(w * per)
	}
	wg.Wait()
	for i, c := range cases {
		res := results[i]
		oracle(run, c, res)
		id := run.NextID()
		keysMsgs := 0
		for _, k := range res.MsgKinds {
			if k == "keys" {
				keysMsgs++
			}
		}
		run.Dist["origin:"+strings.Join(strings.SplitN(c.Origin, ":", 3)[:2], ":")]++
		run.Dist[fmt.Sprintf("%s:keys-messages=%d", c.Cfg.Flavour, min(keysMsgs, 4))]++
		run.Dist[fmt.Sprintf("steps=%d", (len(res.Steps)/5)*5)]++
		run.AddCase(id, vh.CApp("CNet", vh.CN(id), res.Coq), c, c.key(), keysMsgs > 0)
	}
}
