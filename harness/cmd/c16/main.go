//go:build verif

// Driver for C16 (an event trigger fires iff a matching log occurs in time, whatever the
// batching).  The real MultiEventSyncer with both processors (registration processor, trigger
// processor) runs against ethfake + pgfake.  One scenario = one block tree with trigger
// registrations and plain logs + several runs (range limit, sequence of observed heads,
// updates of the decrypted flag), every run from an empty database and ending at the same head.
// Oracle (independent of the Coq model, matching decided by the generator's labels): after
// every Sync whose position lies on the canonical chain the fired rows are sound (each records
// the earliest matching log in the trigger's window) and complete for the triggers that are not
// decrypted; the final fired sets of the runs without flag updates are equal.
package main

import (
	"bytes"
	"crypto/sha256"
	"encoding/hex"
	"encoding/json"
	"fmt"
	"math"
	"math/big"
	"os"
	"sort"
	"strings"
	"time"

	"github.com/ethereum/go-ethereum/common"
	"github.com/ethereum/go-ethereum/crypto"
	triggerRegistryV1Bindings "github.com/shutter-network/contracts/v2/bindings/shuttereventtriggerregistryv1"

	"github.com/shutter-network/rolling-shutter/rolling-shutter/keyperimpl/shutterservice"
	"github.com/shutter-network/rolling-shutter/rolling-shutter/keyperimpl/shutterservice/database"

	"verifharness/ethfake"
	"verifharness/pgfake"
	"verifharness/syncrig"
	"verifharness/vh"
)

const d10Key = "C16:registration-and-log-in-same-sync-range"
const d9Key = "C16:trigger-registered-before-sync-start"
const reregKey = "C16:reregistration-lost-after-rollback"

// DefSpec is a trigger definition by labels: logs of contract A, optionally with topic0 = T,
// optionally with first data word >= Gte.  Bad > 0: bytes that are not a valid definition.
type DefSpec struct {
	A     uint8      `json:"a"`
	T     int        `json:"t"`   // -1: any
	Gte   int64      `json:"gte"` // -1: none
	Preds []PredSpec `json:"preds,omitempty"`
	Bad   int        `json:"bad,omitempty"`
}

// PredSpec is an unsigned-integer predicate on one word of the log: Ref 0..3 is the topic with that
// index, Ref >= 4 the static data word Ref-4; Op is lt | lte | eq | gt | gte; Arg is decimal
// (any size).
type PredSpec struct {
	Ref int    `json:"ref"`
	Op  string `json:"op"`
	Arg string `json:"arg"`
}

func bigOf(dec string) *big.Int {
	n, ok := new(big.Int).SetString(dec, 10)
	if !ok {
		panic("bad number " + dec)
	}
	return n
}

type Op struct {
	Head int               `json:"head,omitempty"`
	Dec  *int              `json:"dec,omitempty"` // set the decrypted flag of the n-th registration of the scenario (in block order)
	RPC  *syncrig.RPCFault `json:"rpc,omitempty"`
	DB   *syncrig.DBFault  `json:"db,omitempty"`
}

type Run struct {
	Range uint64 `json:"range"`
	Ops   []Op   `json:"ops"`
}

type Scenario struct {
	Start  uint64              `json:"start"`
	Depth  int                 `json:"depth"`
	Defs   []DefSpec           `json:"defs"`
	Blocks []syncrig.BlockSpec `json:"blocks"`
	Runs   []Run               `json:"runs"`
	Note   string              `json:"note,omitempty"`
}

func defBytes(d DefSpec) []byte {
	switch d.Bad {
	case 1:
		return []byte{0x01, 0xc0}
	case 2:
		return []byte{}
	case 3:
		return []byte{0x02, 0xff}
	}
	td := shutterservice.EventTriggerDefinition{Contract: syncrig.LogAddr(d.A)}
	if d.T >= 0 {
		t := syncrig.Topic(uint8(d.T))
		td.LogPredicates = append(td.LogPredicates, shutterservice.LogPredicate{
			LogValueRef:    shutterservice.LogValueRef{Offset: 0},
			ValuePredicate: shutterservice.ValuePredicate{Op: shutterservice.BytesEq, ByteArgs: [][]byte{t[:]}},
		})
	}
	if d.Gte >= 0 {
		td.LogPredicates = append(td.LogPredicates, shutterservice.LogPredicate{
			LogValueRef:    shutterservice.LogValueRef{Offset: 4},
			ValuePredicate: shutterservice.ValuePredicate{Op: shutterservice.UintGte, IntArgs: []*big.Int{big.NewInt(d.Gte)}},
		})
	}
	for _, p := range d.Preds {
		op := map[string]shutterservice.Op{"lt": shutterservice.UintLt, "lte": shutterservice.UintLte, "eq": shutterservice.UintEq,
			"gt": shutterservice.UintGt, "gte": shutterservice.UintGte}[p.Op]
		td.LogPredicates = append(td.LogPredicates, shutterservice.LogPredicate{
			LogValueRef:    shutterservice.LogValueRef{Offset: uint64(p.Ref)},
			ValuePredicate: shutterservice.ValuePredicate{Op: op, IntArgs: []*big.Int{bigOf(p.Arg)}},
		})
	}
	return td.MarshalBytes()
}

// The reference for "this log matches this definition", written from the definition's meaning and
// not from eventtrigger.go: the log is emitted by the definition's contract; a topic-0 constraint
// is equality of the whole word; every unsigned-integer predicate compares the FULL 32-byte word
// (topic with the given index, or static data word, zero-extended where the log has no such word)
// as an unbounded big-endian integer with the argument.
func labelMatch(d DefSpec, l *syncrig.Lg) bool {
	if d.Bad != 0 || l.A != d.A {
		return false
	}
	topics, data := l.TopicWords(), l.DataWords()
	if d.T >= 0 && topics[0] != syncrig.Topic(uint8(d.T)) {
		return false
	}
	word := func(ref int) *big.Int {
		var w [32]byte
		if ref < 4 {
			if ref < len(topics) {
				w = topics[ref]
			}
		} else if ref-4 < len(data) {
			w = data[ref-4]
		}
		return new(big.Int).SetBytes(w[:])
	}
	holds := func(op string, v, arg *big.Int) bool {
		c := v.Cmp(arg)
		switch op {
		case "lt":
			return c < 0
		case "lte":
			return c <= 0
		case "eq":
			return c == 0
		case "gt":
			return c > 0
		case "gte":
			return c >= 0
		}
		panic("unknown op " + op)
	}
	if d.Gte >= 0 && !holds("gte", word(4), big.NewInt(d.Gte)) {
		return false
	}
	for _, p := range d.Preds {
		if !holds(p.Op, word(p.Ref), bigOf(p.Arg)) {
			return false
		}
	}
	return true
}

// ---------------------------------------------------------------------------------------
// Coq rendering (byte strings bound once per case)

var em *syncrig.Emitter

func cB(b []byte) string { return em.B(b) }

func cBig(x *big.Int) string { return vh.CBigZ(x) }
func cU64(x uint64) string  { return vh.CBigZ(new(big.Int).SetUint64(x)) }
func cUevTrig(eon *big.Int, prefix, sender, def []byte, valid bool, exp *big.Int) string {
	return vh.CApp("mkuev", cBig(eon), cB(prefix), cB(sender), "0%Z", cB(def), vh.CBool(valid), cBig(exp), "0%Z", "0%Z")
}
func cPev(block int64, bhash []byte, tx, log int64, item string) string {
	return vh.CApp("mkpev", vh.CZ(block), cB(bhash), vh.CZ(tx), vh.CZ(log), item)
}
func cKey(eon int64, prefix []byte, sender string, def []byte) string {
	return vh.CApp("KTrigger", vh.CZ(eon), cB(prefix), cB(common.HexToAddress(sender).Bytes()), cB(def))
}
func cFaults(fs []string) string {
	xs := make([]string, len(fs))
	for i, f := range fs {
		switch f {
		case "fail":
			xs[i] = "Fail"
		case "fail-applied":
			xs[i] = "FailApplied"
		default:
			xs[i] = "NoFault"
		}
	}
	return vh.CList(xs)
}

func cStatus(s syncrig.Status) string {
	if !s.Present {
		return "None"
	}
	return vh.CSome(vh.CPair(vh.CZ(s.Number), cB(s.Hash)))
}

// ---------------------------------------------------------------------------------------

type firedRow struct {
	Eon    int64  `json:"eon"`
	Ident  []byte `json:"ident"`
	Prefix []byte `json:"prefix"`
	Sender string `json:"sender"`
	Block  int64  `json:"block"`
	BHash  []byte `json:"bhash"`
	Tx     int64  `json:"tx"`
	Log    int64  `json:"log"`
}

func readFired(r *syncrig.Rig) []firedRow {
	var out []firedRow
	for _, x := range r.PG.Store().Table("fired_triggers").Rows() {
		out = append(out, firedRow{Eon: x["eon"].(int64), Ident: x["identity"].([]byte), Prefix: x["identity_prefix"].([]byte),
			Sender: x["sender"].(string), Block: x["block_number"].(int64), BHash: x["block_hash"].([]byte),
			Tx: x["tx_index"].(int64), Log: x["log_index"].(int64)})
	}
	return out
}

type world struct {
	run        *vh.Run
	rig        *syncrig.Rig
	empty      *pgfake.Store
	scenarioNo int
}

type regInfo struct {
	blockID int
	idx     int // item index = log index
	ev      *syncrig.Ev
	ident   []byte
	def     []byte
}

func identOf(e *syncrig.Ev, def []byte) []byte {
	p := syncrig.Prefix(e.P)
	return crypto.Keccak256(p[:], syncrig.Sender(e.S).Bytes(), def)
}

func admissibleReg(sc *Scenario, e *syncrig.Ev) bool {
	return e.Noise == 0 && e.Eon <= math.MaxInt64 && e.Exp <= math.MaxInt64 && sc.Defs[e.Def].Bad == 0
}

// regKey is the registration's key (eon, identity): the identity covers prefix, sender and the
// definition BYTES - two entries of Scenario.Defs that encode to the same bytes are the same
// definition, and registering them for one (eon, prefix, sender) is the same key twice.
func regKey(sc *Scenario, e *syncrig.Ev) string {
	return fmt.Sprintf("%d/%d/%d/%x", e.Eon, e.P, e.S, defBytes(sc.Defs[e.Def]))
}

func forkNumber(a, b *ethfake.Block, upto int64) int64 {
	if upto < 0 {
		return -1
	}
	ba, bb := ethfake.Branch(a), ethfake.Branch(b)
	for n := int64(0); n <= upto; n++ {
		if n >= int64(len(ba)) || n >= int64(len(bb)) || ba[n] != bb[n] {
			return n
		}
	}
	return -1
}

type pos struct {
	Block, Tx, Log int64
	BHash         []byte
}

// runScenario executes all runs of a scenario.
func (w *world) runScenario(sc *Scenario) {
	run := w.run
	rig := w.rig
	defs := make([][]byte, len(sc.Defs))
	for i, d := range sc.Defs {
		defs[i] = defBytes(d)
	}
	rig.PG.ClearRuntimeIssues()
	if err := rig.Build("multi", defs, sc.Blocks); err != nil {
		panic(err)
	}
	defer func() { rig.Client.Close(); rig.Eth.Close(); rig.Client, rig.Eth = nil, nil }()
	// real validity / real matcher, for the model's inputs
	implValid := make([]bool, len(defs))
	tdefs := make([]shutterservice.EventTriggerDefinition, len(defs))
	for i, d := range defs {
		implValid[i] = tdefs[i].UnmarshalBytes(d) == nil
		if implValid[i] != (sc.Defs[i].Bad == 0) {
			run.Tie(fmt.Sprintf("definition %d: label valid=%v, UnmarshalBytes says %v", i, sc.Defs[i].Bad == 0, implValid[i]))
		}
	}
	// registrations of the scenario in block-id order, and identity -> registration
	var regs []regInfo
	byIdent := map[string]*regInfo{}
	for id := 1; id < len(rig.Blocks); id++ {
		for li, it := range rig.ItemsOf(rig.Blocks[id]) {
			if it.Ev != nil {
				regs = append(regs, regInfo{blockID: id, idx: li, ev: it.Ev, def: defs[it.Ev.Def], ident: identOf(it.Ev, defs[it.Ev.Def])})
			}
		}
	}
	for i := range regs {
		byIdent[fmt.Sprintf("%d/%x", regs[i].ev.Eon, regs[i].ident)] = &regs[i]
	}
	logID := func(b *ethfake.Block, li int) uint64 { return uint64(b.ID)*1000 + uint64(li) }

	type final struct {
		fired    map[string]pos
		clean    bool // no decrypt ops, no violation other than D10
		d10      bool
		complete bool
		missed   bool // a non-D10 missed fire was reported
		hasDec   bool
	}
	var finals []final
	effStart := sc.Start + 1
	for ri, rn := range sc.Runs {
		rig.PG.SetStore(w.empty)
		contract, err := triggerRegistryV1Bindings.NewShuttereventtriggerregistryv1(syncrig.TriggerAddr, rig.Client)
		if err != nil {
			panic(err)
		}
		syncer, err := shutterservice.NewMultiEventSyncer(rig.Pool, rig.Client, sc.Start, []shutterservice.EventProcessor{
			shutterservice.NewEventTriggerRegisteredEventProcessor(contract, rig.Pool),
			shutterservice.NewTriggerProcessor(rig.Client, rig.Pool),
		})
		if err != nil {
			panic(err)
		}
		syncer.AssumedReorgDepth = sc.Depth
		syncer.MaxRequestBlockRange = rn.Range
		fin := final{clean: true}
		assumptionOK := true
		var ghost *ethfake.Block
		rangeOf := map[int]int{} // block id -> serial number of the range it was last synced in
		rangeSerial := 0
		knownMissed := map[string]bool{}
		verdictReported := map[string]bool{}
		lostReg := map[string]bool{} // identities whose registration row was lost to the re-registration defect
		regsReported := false
		hasDec := false
		var lastHead *ethfake.Block
		trunc := func(oi int) *Scenario {
			c := *sc
			c.Runs = []Run{{Range: rn.Range, Ops: append([]Op(nil), rn.Ops[:oi+1]...)}}
			return &c
		}
		for oi, op := range rn.Ops {
			if op.Dec != nil {
				hasDec = true
				if *op.Dec < 0 || *op.Dec >= len(regs) {
					continue
				}
				rg := regs[*op.Dec]
				preRows := rig.ReadRows("multi")
				err := database.New(rig.Pool).UpdateEventBasedDecryptedFlags(rig.Ctx, database.UpdateEventBasedDecryptedFlagsParams{
					Eons: []int64{int64(rg.ev.Eon)}, Identities: [][]byte{rg.ident}})
				if err != nil {
					panic(err)
				}
				postRows := rig.ReadRows("multi")
				id := run.NextID()
						p := syncrig.Prefix(rg.ev.P)
				term := vh.CApp("CTDecrypt", vh.CN(id), cRegRows(preRows), cDecrypted(preRows),
					cKey(int64(rg.ev.Eon), p[:], syncrig.Sender(rg.ev.S).Hex(), rg.def), cDecrypted(postRows))
				em.Add(id, term, map[string]any{"scenario_no": w.scenarioNo, "run": ri, "op": oi, "seed": run.Seed}, fmt.Sprintf("dec/%d/%d/%d", w.scenarioNo, ri, oi), false)
				continue
			}
			hb := rig.Blocks[op.Head]
			lastHead = hb
			rig.Eth.SetHead(hb)
			branch := ethfake.Branch(hb)
			pre := rig.ReadStatus("multi")
			preRows := rig.ReadRows("multi")
			preFired := readFired(rig)
			D := int64(sc.Depth)
			if pre.Present && ghost != nil {
				k := pre.Number
				agreeUpto := k - D
				if agreeUpto < 0 {
					agreeUpto = 0
				}
				if forkNumber(ghost, hb, agreeUpto) >= 0 {
					assumptionOK = false
				}
				if f := forkNumber(ghost, hb, k); f >= 0 && int64(hb.Number) > k+1 {
					assumptionOK = false
				}
			}
			seen := map[string]bool{}
			for _, b := range branch {
				for _, it := range rig.ItemsOf(b) {
					if it.Ev != nil && admissibleReg(sc, it.Ev) {
						// ShutterEventTriggerRegistryV1.register has no "already registered" check (unlike
						// ShutterRegistry): the same identity may be registered again, e.g. to extend its ttl.
						// The canonical meaning is the upsert's: the last registration in chain order
						// determines the row.
						if seen[regKey(sc, it.Ev)] {
							run.Dist["step-with-reregistration-on-branch"]++
						}
						seen[regKey(sc, it.Ev)] = true
					}
				}
			}
			out := rig.RunSync(syncer, hb.Header, op.RPC, op.DB)
			if op.RPC != nil || len(out.DBFaults) > 0 {
				run.Dist["sync-with-fault"]++
			}
			post := rig.ReadStatus("multi")
			postRows := rig.ReadRows("multi")
			postFired := readFired(rig)
			if out.Panic != "" {
				run.Violate(vh.Violation{Key: "C16:panic", What: "Sync panicked: " + out.Panic, Case: trunc(oi)})
				fin.clean = false
				break
			}
			if out.Err != nil {
				run.Dist["sync-error"]++
			}
			if post.Present != pre.Present || post.Number != pre.Number || !bytes.Equal(post.Hash, pre.Hash) {
				ghost = hb
			}
			// the ranges of this Sync, read off the registration processor's eth_getLogs calls
			trigTopic := strings.ToLower(syncrig.TriggerAddr.Hex())
			for _, c := range out.RPCCalls {
				if c.Method != "eth_getLogs" || !strings.Contains(strings.ToLower(c.Params), trigTopic) {
					continue
				}
				var ps []struct {
					From string `json:"fromBlock"`
					To   string `json:"toBlock"`
				}
				if json.Unmarshal([]byte(c.Params), &ps) != nil || len(ps) == 0 {
					continue
				}
				from, ok1 := new(big.Int).SetString(strings.TrimPrefix(ps[0].From, "0x"), 16)
				to, ok2 := new(big.Int).SetString(strings.TrimPrefix(ps[0].To, "0x"), 16)
				if !ok1 || !ok2 {
					continue
				}
				rangeSerial++
				for n := from.Uint64(); n <= to.Uint64() && n < uint64(len(branch)); n++ {
					rangeOf[branch[n].ID] = rangeSerial
				}
			}
			// D14, exact shape: this Sync rolled back to block `to` (its first range starts at or below the
			// old position, or it left the position with an empty hash below the old one); an identity
			// whose row sat in a deleted block (> to) because a later registration had moved it there,
			// while an earlier registration of the same identity is on the new canonical chain at a
			// block <= to, has lost its row although it is canonically registered.
			if pre.Present {
				to := int64(-1)
				if post.Present && len(post.Hash) == 0 && post.Number < pre.Number {
					to = post.Number
				}
				for _, c := range out.RPCCalls {
					if c.Method != "eth_getLogs" || !strings.Contains(strings.ToLower(c.Params), trigTopic) {
						continue
					}
					var ps []struct {
						From string `json:"fromBlock"`
					}
					if json.Unmarshal([]byte(c.Params), &ps) == nil && len(ps) > 0 {
						if from, ok := new(big.Int).SetString(strings.TrimPrefix(ps[0].From, "0x"), 16); ok && from.Int64() <= pre.Number && (to < 0 || from.Int64()-1 < to) {
							to = from.Int64() - 1
						}
					}
					break // the first range of this Sync
				}
				if to >= 0 && to < pre.Number {
					for _, r := range preRows {
						if r.Block <= to {
							continue
						}
						ik := fmt.Sprintf("%d/%x", r.Eon, r.Ident)
						if lostReg[ik] {
							continue
						}
						for n := int64(effStart); n <= to && n < int64(len(branch)); n++ {
							for _, it := range rig.ItemsOf(branch[n]) {
								if it.Ev != nil && admissibleReg(sc, it.Ev) && fmt.Sprintf("%d/%x", it.Ev.Eon, identOf(it.Ev, defs[it.Ev.Def])) == ik && !lostReg[ik] {
									lostReg[ik] = true
									fin.clean = false
									run.Violate(vh.Violation{Key: reregKey, What: "a rollback deleted the only row of an identity whose earlier registration is still on the canonical chain (the upsert of a later registration had moved the row into the deleted blocks)",
										Case: trunc(oi), Observed: map[string]any{"row_before_rollback": r, "rollback_to": to, "earlier_registration_block": n}})
								}
							}
						}
					}
				}
			}
			// ---- correspondence case
			id := run.NextID()
				hashes := map[uint64]bool{hb.Number: true}
			for _, n := range []int64{pre.Number, post.Number, pre.Number + 1, int64(hb.Number) - 1} {
				if n >= 0 && n < int64(len(branch)) {
					hashes[uint64(n)] = true
				}
			}
			for _, c := range out.RPCCalls {
				if c.Method == "eth_getBlockByNumber" {
					var ps []json.RawMessage
					var s string
					if json.Unmarshal([]byte(c.Params), &ps) == nil && len(ps) > 0 && json.Unmarshal(ps[0], &s) == nil {
						if n, ok := new(big.Int).SetString(strings.TrimPrefix(s, "0x"), 16); ok && n.IsUint64() && n.Uint64() < uint64(len(branch)) {
							hashes[n.Uint64()] = true
						}
					}
				}
			}
			var hnums []uint64
			for n := range hashes {
				hnums = append(hnums, n)
			}
			sort.Slice(hnums, func(i, j int) bool { return hnums[i] < hnums[j] })
			hs := make([]string, len(hnums))
			for i, n := range hnums {
				hs[i] = vh.CPair(cU64(n), cB(branch[n].Hash.Bytes()))
			}
			var items []string
			mt := make([][]string, len(defs))
			for _, b := range branch {
				for li, it := range rig.ItemsOf(b) {
					switch {
					case it.Ev != nil && it.Ev.Noise == 0:
						e := it.Ev
						p := syncrig.Prefix(e.P)
						items = append(items, cPev(int64(b.Number), b.Hash.Bytes(), int64(it.Tx), int64(li),
							vh.CApp("IReg", cUevTrig(new(big.Int).SetUint64(e.Eon), p[:], syncrig.Sender(e.S).Bytes(), defs[e.Def], implValid[e.Def], new(big.Int).SetUint64(e.Exp)))))
					case it.Lg != nil:
						lid := logID(b, li)
						items = append(items, cPev(int64(b.Number), b.Hash.Bytes(), int64(it.Tx), int64(li), vh.CApp("ILog", vh.CN(lid))))
						lg := b.Logs[li]
						for di := range defs {
							if !implValid[di] {
								continue
							}
							q, err := tdefs[di].ToFilterQuery()
							real := false
							if err == nil && ethfake.Matches(&lg, q.Addresses, q.Topics) {
								m, merr := tdefs[di].Match(&lg)
								real = merr == nil && m
							}
							if ref := labelMatch(sc.Defs[di], it.Lg); real != ref && !verdictReported[fmt.Sprint(di, "/", lid)] {
								verdictReported[fmt.Sprint(di, "/", lid)] = true
								run.Violate(vh.Violation{Key: "C16:match-verdict-differs-from-reference",
									What:     "the implementation's verdict (ToFilterQuery + Match) on a log differs from the definition's meaning (full-word unsigned comparison / word equality)",
									Case:     trunc(oi),
									Observed: map[string]any{"definition": sc.Defs[di], "log": it.Lg, "implementation_says": real},
									Expected: map[string]any{"matches": ref}})
								fin.clean = false
							}
							if real {
								mt[di] = append(mt[di], vh.CN(lid))
							}
						}
					}
				}
			}
			var mts []string
			for di := range defs {
				if implValid[di] {
					mts = append(mts, vh.CPair(cB(defs[di]), vh.CList(mt[di])))
				}
			}
			defOfIdent := func(eon int64, ident []byte) []byte {
				if r := byIdent[fmt.Sprintf("%d/%x", eon, ident)]; r != nil {
					return r.def
				}
				return []byte("unknown")
			}
			cFired := func(fs []firedRow) string {
				xs := make([]string, len(fs))
				for i, f := range fs {
					xs[i] = vh.CApp("mkfired", cKey(f.Eon, f.Prefix, f.Sender, defOfIdent(f.Eon, f.Ident)), vh.CZ(f.Block), cB(f.BHash), vh.CZ(f.Tx), vh.CZ(f.Log))
				}
				return vh.CList(xs)
			}
			parent := common.Hash{}
			if hb.Parent != nil {
				parent = hb.Parent.Hash
			}
			term := vh.CApp("CTSync", vh.CN(id), cU64(sc.Start), vh.CZ(D), cU64(rn.Range),
				cStatus(pre), cRegRows(preRows), cDecrypted(preRows), cFired(preFired),
				cU64(hb.Number), cB(parent.Bytes()), vh.CList(hs), vh.CList(items), vh.CList(mts),
				cFaults(out.RPCFaults), cFaults(out.DBFaults),
				vh.CBool(out.Err == nil), cStatus(post), cRegRows(postRows), cDecrypted(postRows), cFired(postFired))
			js := map[string]any{"scenario_no": w.scenarioNo, "run": ri, "op": oi, "seed": run.Seed}
			if oi == len(rn.Ops)-1 {
				js["scenario"] = trunc(oi)
			}
			h := sha256.Sum256([]byte(fmt.Sprintf("%d/%d/%d/%d", run.Seed, w.scenarioNo, ri, oi)))
			if out.Misplaced {
				run.Dist["fault-misplaced:case-not-recorded"]++
			} else {
				em.Add(id, term, js, hex.EncodeToString(h[:8]), len(postFired) > 0 && len(postRows) > 1)
			}

			// ---- oracle
			onCanon := post.Present && post.Number >= 0 && post.Number < int64(len(branch)) && bytes.Equal(branch[post.Number].Hash.Bytes(), post.Hash)
			if !onCanon || !assumptionOK {
				continue
			}
			k := post.Number
			decrypted := map[string]bool{}
			for _, r := range postRows {
				if r.Decrypt {
					decrypted[fmt.Sprintf("%d/%x", r.Eon, r.Ident)] = true
				}
			}
			want := map[string]pos{}     // identity key -> the log that fires it
			wantReg := map[string]*regInfo{} // identity key -> the registration in force when it fires (or the last one)
			logBlockOf := map[string]int{} // identity key -> block id of that log
			reregistered := map[string]bool{}
			{
				// Block by block: at a block m the row of an identity is its LAST registration in a block
				// before m (registrations of block m itself are not yet visible to the logs of m); a
				// matching log of block m <= that registration's expiry fires it, once.
				type cur struct {
					reg *regInfo
					ev  *syncrig.Ev
				}
				inForce := map[string]cur{}
				for n := int64(effStart); n <= k; n++ {
					b := branch[n]
					items := rig.ItemsOf(b)
					for lj, lt := range items {
						if lt.Lg == nil {
							continue
						}
						for ik, c := range inForce {
							if _, done := want[ik]; done {
								continue
							}
							if uint64(n) <= c.ev.Exp && labelMatch(sc.Defs[c.ev.Def], lt.Lg) {
								want[ik] = pos{Block: n, Tx: int64(lt.Tx), Log: int64(lj), BHash: b.Hash.Bytes()}
								logBlockOf[ik] = b.ID
								wantReg[ik] = c.reg
							}
						}
					}
					for li, it := range items {
						if it.Ev == nil || !admissibleReg(sc, it.Ev) {
							continue
						}
						ik := fmt.Sprintf("%d/%x", it.Ev.Eon, identOf(it.Ev, defs[it.Ev.Def]))
						var ri *regInfo
						for i := range regs {
							if regs[i].blockID == b.ID && regs[i].idx == li {
								ri = &regs[i]
							}
						}
						if _, again := inForce[ik]; again {
							reregistered[ik] = true
						}
						inForce[ik] = cur{reg: ri, ev: it.Ev}
						if _, done := want[ik]; !done {
							wantReg[ik] = ri
						}
					}
				}
			}
			// C15 for the two-processor configuration: the registration table is exactly the canonical
			// chain's admissible registrations of [sync start, k]
			{
				var wantRegs []string
				lastOf := map[string]string{} // identity -> "block/log" of its last registration
				for n := int64(effStart); n <= k; n++ {
					for li, it := range rig.ItemsOf(branch[n]) {
						if it.Ev != nil && admissibleReg(sc, it.Ev) {
							lastOf[fmt.Sprintf("%d/%x", it.Ev.Eon, identOf(it.Ev, defs[it.Ev.Def]))] = fmt.Sprintf("%d/%d", n, li)
						}
					}
				}
				for n := int64(effStart); n <= k; n++ {
					for li, it := range rig.ItemsOf(branch[n]) {
						if it.Ev != nil && admissibleReg(sc, it.Ev) &&
							lastOf[fmt.Sprintf("%d/%x", it.Ev.Eon, identOf(it.Ev, defs[it.Ev.Def]))] == fmt.Sprintf("%d/%d", n, li) {
							wantRegs = append(wantRegs, fmt.Sprintf("%d/%d/%d/%x/%d", n, li, it.Ev.Eon, identOf(it.Ev, defs[it.Ev.Def]), it.Ev.Exp))
						}
					}
				}
				var gotRegs []string
				before := false
				for _, r := range syncrig.SortRows(postRows) {
					gotRegs = append(gotRegs, fmt.Sprintf("%d/%d/%d/%x/%d", r.Block, r.Log, r.Eon, r.Ident, r.Exp))
					if r.Block < int64(effStart) {
						before = true
					}
					if !bytes.Equal(r.BHash, branch[min(r.Block, int64(len(branch)-1))].Hash.Bytes()) {
						gotRegs[len(gotRegs)-1] += "/abandoned-block"
					}
				}
				if strings.Join(gotRegs, ",") != strings.Join(wantRegs, ",") && !regsReported {
					regsReported = true
					key := "C16:registrations-differ-from-canonical"
					what := "position on the canonical chain but the registration table differs from the canonical chain's admissible registrations"
					if before {
						key = d9Key
					}
					// are all differences consequences of rows lost in the exact D14 shape (detected at the rollback)?
					gotSet, wantSet := map[string]bool{}, map[string]bool{}
					for _, x := range gotRegs {
						gotSet[x] = true
					}
					for _, x := range wantRegs {
						wantSet[x] = true
					}
					onlyRereg := true
					identOfRow := func(x string) string { p := strings.Split(x, "/"); return p[2] + "/" + p[3] }
					for _, x := range append(append([]string{}, gotRegs...), wantRegs...) {
						if gotSet[x] != wantSet[x] && !lostReg[identOfRow(x)] {
							onlyRereg = false
						}
					}
					if !before && onlyRereg {
						key = reregKey
						what = "the registration table lacks (or has a later, different row for) an identity whose row a rollback deleted although an earlier registration is on the canonical chain"
					}
					run.Violate(vh.Violation{Key: key, What: what, Case: trunc(oi), Observed: gotRegs, Expected: wantRegs})
					if !before {
						fin.clean = false
					}
				}
			}
			// rollback (C16_rollback_unfires): after a Sync that rolled back, no registration and no fired
			// row of a block above the rollback target that is not on the new branch survives
			for _, f := range postFired {
				if f.Block >= int64(len(branch)) || !bytes.Equal(f.BHash, branch[f.Block].Hash.Bytes()) {
					run.Violate(vh.Violation{Key: "C16:fired-row-of-abandoned-block", What: "a fired row of an abandoned block survived the rollback", Case: trunc(oi), Observed: f})
					fin.clean = false
				}
			}
			got := map[string]firedRow{}
			for _, f := range postFired {
				got[fmt.Sprintf("%d/%x", f.Eon, f.Ident)] = f
			}
			violated := false
			sameRange := func(ik string) bool {
				rg := wantReg[ik]
				lb, ok := logBlockOf[ik]
				return rg != nil && ok && rangeOf[rg.blockID] != 0 && rangeOf[rg.blockID] == rangeOf[lb]
			}
			reportD10 := func(ik string, wp pos) {
				if knownMissed[ik] {
					return
				}
				knownMissed[ik] = true
				fin.d10 = true
				run.Violate(vh.Violation{Key: d10Key, What: "a trigger registered inside a sync range is not matched against the later logs of that range: it does not fire on the earliest matching log (or never)",
					Case: trunc(oi), Observed: map[string]any{"fired": postFired, "registration_block": rig.Blocks[wantReg[ik].blockID].Number, "range_limit": rn.Range}, Expected: wp})
			}
			for ik, f := range got { // soundness
				wp, ok := want[ik]
				if ok && wp.Block == f.Block && wp.Tx == f.Tx && wp.Log == f.Log && bytes.Equal(wp.BHash, f.BHash) {
					continue
				}
				if lostReg[ik] {
					continue // consequence of the lost row (reported under its own key when the rollback deleted it)
				}
				if ok && (knownMissed[ik] || sameRange(ik)) {
					reportD10(ik, wp) // fired on a later log because the earliest one was in the registration's range
					continue
				}
				// the D10 shape with a RE-registration: a registration of this identity lies inside the very
				// range in which the recorded log was matched, in a block before the log's block - the log was
				// judged with the stale row (e.g. the old, longer expiry) although the canonical verdict
				// depends on the registration inside the range
				if int(f.Block) < len(branch) {
					d10 := false
					for n := int64(effStart); n < f.Block; n++ {
						for _, it := range rig.ItemsOf(branch[n]) {
							if it.Ev != nil && admissibleReg(sc, it.Ev) && fmt.Sprintf("%d/%x", it.Ev.Eon, identOf(it.Ev, defs[it.Ev.Def])) == ik &&
								rangeOf[branch[n].ID] != 0 && rangeOf[branch[n].ID] == rangeOf[branch[f.Block].ID] {
								d10 = true
							}
						}
					}
					if d10 {
						if !knownMissed[ik] {
							knownMissed[ik] = true
							fin.d10 = true
							run.Violate(vh.Violation{Key: d10Key, What: "a trigger (re-)registered inside a sync range is matched against the later logs of that range with the row as it was before the range",
								Case: trunc(oi), Observed: f, Expected: wp})
						}
						continue
					}
				}
				if rg := byIdent[ik]; rg != nil && rig.Blocks[rg.blockID].Number < effStart {
					// D9 (C15): after a rollback to before the sync start the resync stored a registration older than the sync start
					if !knownMissed[ik] {
						knownMissed[ik] = true
						run.Violate(vh.Violation{Key: d9Key, What: "a trigger registered before the sync start was stored by the resync after a rollback to before the sync start (D9) and fired",
							Case: trunc(oi), Observed: f})
					}
					fin.clean = false
					continue
				}
				run.Violate(vh.Violation{Key: "C16:spurious-or-wrong-fire", What: "a fired row does not record the earliest matching log of the trigger's window on the canonical chain",
					Case: trunc(oi), Observed: f, Expected: wp})
				violated, fin.clean = true, false
				break
			}
			for ik, wp := range want { // completeness for triggers that are not decrypted
				if _, ok := got[ik]; ok || decrypted[ik] || knownMissed[ik] {
					continue
				}
				if lostReg[ik] {
					knownMissed[ik] = true // consequence of the lost registration, reported under its own key
					fin.clean = false
					continue
				}
				if sameRange(ik) {
					reportD10(ik, wp)
				} else {
					knownMissed[ik] = true
					run.Violate(vh.Violation{Key: "C16:missed-fire", What: "a matching log in the window of a registered, not decrypted trigger did not fire it",
						Case: trunc(oi), Observed: postFired, Expected: wp})
					fin.clean = false
					fin.missed = true // the run goes on: its final fired set is compared with the other runs'
				}
			}
			if violated {
				break
			}
			if oi == len(rn.Ops)-1 {
				fin.complete = true
				fin.fired = map[string]pos{}
				for ik, f := range got {
					fin.fired[ik] = pos{Block: f.Block, Tx: f.Tx, Log: f.Log, BHash: f.BHash}
				}
			}
		}
		if hasDec {
			fin.clean = false
			fin.hasDec = true
		}
		_ = lastHead
		run.Dist[fmt.Sprintf("run:range=%d", min(int(rn.Range), 11))]++
		if fin.d10 {
			run.Dist["run:with-D10-miss"]++
		}
		finals = append(finals, fin)
	}
	// equal across runs (runs without flag updates that ended on the canonical chain)
	var ref *final
	for i := range finals {
		f := &finals[i]
		if !f.complete || f.hasDec || (!f.clean && !f.missed) {
			continue
		}
		if ref == nil {
			ref = f
			continue
		}
		same := len(ref.fired) == len(f.fired)
		for k, p := range ref.fired {
			q, ok := f.fired[k]
			if !ok || q.Block != p.Block || q.Log != p.Log {
				same = false
			}
		}
		if !same {
			key := "C16:batching-dependent"
			if (ref.d10 || f.d10) && !ref.missed && !f.missed {
				key = d10Key
			}
			run.Violate(vh.Violation{Key: key, What: "the same chain gives different fired sets under different partitions of the head sequence / range limits", Case: sc,
				Observed: f.fired, Expected: ref.fired})
		}
	}
	rig.CheckTies(func(s string) { run.Tie(s) })
}

func cRegRows(rows []syncrig.Row) string {
	xs := make([]string, len(rows))
	for i, r := range rows {
		xs[i] = cPev(r.Block, r.BHash, r.Tx, r.Log, vh.CApp("IReg", cUevTrig(big.NewInt(r.Eon), r.Prefix, common.HexToAddress(r.Sender).Bytes(), r.Def, true, big.NewInt(r.Exp))))
	}
	return vh.CList(xs)
}

func cDecrypted(rows []syncrig.Row) string {
	var xs []string
	for _, r := range rows {
		if r.Decrypt {
			xs = append(xs, cKey(r.Eon, r.Prefix, r.Sender, r.Def))
		}
	}
	return vh.CList(xs)
}

// ---------------------------------------------------------------------------------------
// generation

type gen struct {
	r      *vh.RNG
	sc     *Scenario
	parent []int
	number []uint64
	keys   []map[string]bool
	nregs  int
	fresh  int
	seen   []syncrig.Ev // admissible registrations generated so far (any branch)
}

func (g *gen) ancestorAt(id int, num uint64) int {
	for g.number[id] > num {
		id = g.parent[id]
	}
	return id
}

func (g *gen) addBlock(parent int, salt uint64, pending *[]syncrig.Item) int {
	r := g.r
	id := len(g.parent)
	keys := map[string]bool{}
	for k := range g.keys[parent] {
		keys[k] = true
	}
	num := g.number[parent] + 1
	var items []syncrig.Item
	add := func(it syncrig.Item) { it.Tx = uint(len(items)); items = append(items, it) }
	// logs and registrations interleaved
	n := r.Intn(4)
	for i := 0; i < n; i++ {
		if r.Chance(1, 2) {
			lg := &syncrig.Lg{A: uint8(1 + r.Intn(2)), T: uint8(r.Intn(3)), V: uint64(r.Intn(10))}
			if r.Chance(1, 3) { // a log of contract 3 with full-size words around the predicates' arguments
				lg.A = 3
				var args []string
				for _, d := range g.sc.Defs {
					for _, p := range d.Preds {
						args = append(args, p.Arg)
					}
				}
				if len(args) > 0 && r.Chance(2, 3) {
					lg.W = wordNear(r, args[r.Intn(len(args))])
				} else {
					lg.W = vh.Pick(r, bigWords...)
				}
				if len(args) > 0 && r.Chance(1, 2) {
					lg.T1 = wordNear(r, args[r.Intn(len(args))])
				} else if r.Chance(1, 2) {
					lg.T1 = vh.Pick(r, bigWords...)
				}
			}
			add(syncrig.Item{Lg: lg})
			continue
		}
		g.fresh++
		e := syncrig.Ev{Eon: uint64(r.Intn(2)), P: uint8(g.fresh % 250), S: uint8(1 + g.fresh/250), Def: r.Intn(len(g.sc.Defs))}
		// one sender registering several triggers: same eon and identity prefix with another definition
		// (a different identity), and the controls: same definition with a fresh prefix (the default
		// above), another sender with the same prefix
		if len(g.seen) > 0 {
			switch r.Intn(5) {
			case 0, 1:
				o := g.seen[r.Intn(len(g.seen))]
				e.Eon, e.P, e.S = o.Eon, o.P, o.S
				e.Def = (o.Def + 1 + r.Intn(len(g.sc.Defs)-1)) % len(g.sc.Defs)
			case 2:
				o := g.seen[r.Intn(len(g.seen))]
				e.Eon, e.P, e.Def = o.Eon, o.P, o.Def
				e.S = o.S + 100
			}
		}
		// expiry at every relative offset: this block, next, a few later, far, (rarely) already past
		switch r.Intn(8) {
		case 0:
			e.Exp = num
		case 1:
			e.Exp = num + 1
		case 2, 3:
			e.Exp = num + 2 + uint64(r.Intn(4))
		case 4:
			if num > 0 {
				e.Exp = num - 1
			}
		default:
			e.Exp = num + 50
		}
		switch r.Intn(30) {
		case 0:
			e.Eon = math.MaxInt64 + 1
		case 1:
			e.Exp = math.MaxInt64 + 1
		case 2:
			e.Noise = 1
		}
		if len(*pending) > 0 && r.Chance(1, 3) { // the same registration as on the abandoned branch
			pe := (*pending)[r.Intn(len(*pending))]
			if pe.Ev != nil {
				e = *pe.Ev
			}
		}
		// re-registration of the same identity (same eon, prefix, sender, definition) with another expiry:
		// the registry allows it, e.g. to extend the ttl
		if len(g.seen) > 0 && r.Chance(1, 6) {
			o := g.seen[r.Intn(len(g.seen))]
			if keys[regKey(g.sc, &o)] {
				exp := e.Exp
				e = o
				e.Exp = exp
			}
		}
		if admissibleReg(g.sc, &e) {
			if keys[regKey(g.sc, &e)] && !(len(g.seen) > 0 && r.Chance(1, 2)) {
				continue
			}
			keys[regKey(g.sc, &e)] = true
			g.seen = append(g.seen, e)
		}
		add(syncrig.Item{Ev: &e})
	}
	g.sc.Blocks = append(g.sc.Blocks, syncrig.BlockSpec{Parent: parent, Salt: salt, Items: items})
	g.parent = append(g.parent, parent)
	g.number = append(g.number, num)
	g.keys = append(g.keys, keys)
	return id
}

// boundary families for unsigned predicates: arguments below, at and above 2^64, words whose high
// 192 bits are non-zero
var (
	two64    = new(big.Int).Lsh(big.NewInt(1), 64)
	bigArgs  = []string{"5", "2000000000000000000", "10000000000000000000", "18446744073709551615", "18446744073709551616", "18446744073709551617", "30000000000000000000", "340282366920938463463374607431768211456"}
	bigWords = []string{"4", "5", "6", "18446744073709551615", "18446744073709551616", "18446744073709551617", "20000000000000000000",
		"115792089237316195423570985008687907853269984665640564039457584007913129639935"}
)

func wordNear(r *vh.RNG, arg string) string {
	// arg + k*2^64 + {-1, 0, 1}
	n := bigOf(arg)
	n.Add(n, new(big.Int).Mul(two64, big.NewInt(int64(r.Intn(3)))))
	n.Add(n, big.NewInt(int64(r.Intn(3)-1)))
	if n.Sign() < 0 {
		n.SetInt64(0)
	}
	return n.String()
}

func genScenario(r *vh.RNG, forks bool) *Scenario {
	sc := &Scenario{Start: vh.Pick[uint64](r, 0, 0, 0, 2, 5), Depth: vh.Pick(r, 2, 3, 10)}
	sc.Defs = []DefSpec{{A: 1, T: -1, Gte: -1}, {A: 1, T: 0, Gte: -1}, {A: 2, T: 1, Gte: 5}, {A: 2, T: -1, Gte: 3}}
	// two predicates on full words: a static data word and the second topic of contract 3
	for i := 0; i < 2; i++ {
		d := DefSpec{A: 3, T: -1, Gte: -1, Preds: []PredSpec{{
			Ref: vh.Pick(r, 4, 4, 1), Op: vh.Pick(r, "lt", "lte", "eq", "gt", "gte"), Arg: vh.Pick(r, bigArgs...)}}}
		dup := false
		for _, o := range sc.Defs {
			if bytes.Equal(defBytes(o), defBytes(d)) {
				dup = true
			}
		}
		if !dup { // the same definition twice would only be another name for it
			sc.Defs = append(sc.Defs, d)
		}
	}
	if r.Chance(1, 3) {
		sc.Defs = append(sc.Defs, DefSpec{Bad: 1 + r.Intn(3)})
	}
	g := &gen{r: r, sc: sc, parent: []int{0}, number: []uint64{0}, keys: []map[string]bool{{}}}
	tip := 0
	salt := uint64(0)
	var none []syncrig.Item
	story := []int{}
	for i := int(sc.Start) + 1 + r.Intn(3); i > 0; i-- {
		tip = g.addBlock(tip, salt, &none)
	}
	story = append(story, tip)
	steps := 8 + r.Intn(10)
	for s := 0; s < steps; s++ {
		if forks && r.Chance(1, 5) && g.number[tip] > 2 {
			d := 1 + r.Intn(sc.Depth)
			if uint64(d) > g.number[tip]-1 {
				d = int(g.number[tip] - 1)
			}
			fp := g.ancestorAt(tip, g.number[tip]-uint64(d))
			var pend []syncrig.Item
			for id := tip; id != fp; id = g.parent[id] {
				pend = append(pend, sc.Blocks[id-1].Items...)
			}
			salt++
			target := g.number[tip] + 1
			nt := fp
			for g.number[nt] < target {
				nt = g.addBlock(nt, salt, &pend)
			}
			tip = nt
		} else {
			tip = g.addBlock(tip, salt, &none)
		}
		story = append(story, tip)
	}
	final := tip
	heads := func(ids []int) []Op {
		ops := make([]Op, len(ids))
		for i, h := range ids {
			ops[i] = Op{Head: h}
		}
		return ops
	}
	// block by block (range limit 1), following the story
	sc.Runs = append(sc.Runs, Run{Range: 1, Ops: heads(story)})
	// one jump
	sc.Runs = append(sc.Runs, Run{Range: 10_000, Ops: heads([]int{final})})
	// the story with the default limit
	sc.Runs = append(sc.Runs, Run{Range: 10_000, Ops: heads(story)})
	// random sub-sequence of the story with a small limit
	var sub []int
	for i, h := range story {
		if i == len(story)-1 || r.Chance(1, 2) {
			sub = append(sub, h)
		}
	}
	if forks {
		sub = story // skipping heads can break the "first head of a fork is at most one past the synced block" assumption
	}
	sc.Runs = append(sc.Runs, Run{Range: vh.Pick[uint64](r, 2, 3, 5), Ops: heads(sub)})
	// the story under failures: a faulty Sync is followed by a retry on the same head
	{
		var ops []Op
		for i, h := range story {
			if i < len(story)-1 && r.Chance(1, 3) {
				op := Op{Head: h}
				if r.Chance(1, 2) {
					op.RPC = &syncrig.RPCFault{Call: r.Intn(7), Kind: vh.Pick(r, "rpc-error", "http-500", "drop")}
				} else {
					op.DB = &syncrig.DBFault{Op: r.Intn(8), Mode: vh.Pick(r, "stmt", "drop", "drop-commit", "drop-after-commit"), Sub: r.Intn(8)}
				}
				ops = append(ops, op)
			}
			ops = append(ops, Op{Head: h})
		}
		sc.Runs = append(sc.Runs, Run{Range: vh.Pick[uint64](r, 1, 2, 3, 10_000), Ops: ops})
	}
	// block by block with updates of the decrypted flag
	if r.Chance(1, 2) {
		nreg := 0
		for _, b := range sc.Blocks {
			for _, it := range b.Items {
				if it.Ev != nil {
					nreg++
				}
			}
		}
		var ops []Op
		for _, h := range story {
			ops = append(ops, Op{Head: h})
			if nreg > 0 && r.Chance(1, 3) {
				d := r.Intn(nreg)
				ops = append(ops, Op{Dec: &d})
			}
		}
		sc.Runs = append(sc.Runs, Run{Range: vh.Pick[uint64](r, 1, 1, 3), Ops: ops})
	}
	return sc
}

// forced: registration at b, matching logs at every offset relative to b and to the expiry
func forcedScenarios() []*Scenario {
	var out []*Scenario
	lg := func(a, t uint8, v uint64) syncrig.Item { return syncrig.Item{Lg: &syncrig.Lg{A: a, T: t, V: v}} }
	reg := func(p uint8, def int, exp uint64) syncrig.Item {
		return syncrig.Item{Ev: &syncrig.Ev{Eon: 1, P: p, S: 1, Def: def, Exp: exp}}
	}
	defs := []DefSpec{{A: 1, T: -1, Gte: -1}, {A: 2, T: 1, Gte: 5}}
	// D10: registration in block 3, matching log in block 4
	sc := &Scenario{Start: 0, Depth: 10, Defs: defs, Note: "registration at block 3, matching log at block 4"}
	sc.Blocks = []syncrig.BlockSpec{{Parent: 0, Count: 2}, {Parent: 2, Items: []syncrig.Item{reg(1, 0, 100)}}, {Parent: 3, Items: []syncrig.Item{lg(1, 0, 0)}}, {Parent: 4, Count: 2}}
	sc.Runs = []Run{{Range: 1, Ops: []Op{{Head: 6}}}, {Range: 10_000, Ops: []Op{{Head: 6}}}, {Range: 10_000, Ops: []Op{{Head: 3}, {Head: 6}}}, {Range: 2, Ops: []Op{{Head: 6}}}}
	out = append(out, sc)
	// offsets: same block (before and after the registration), next block, at expiry, after expiry
	sc = &Scenario{Start: 0, Depth: 10, Defs: defs, Note: "logs in the registration block, at the expiry block and after it"}
	sc.Blocks = []syncrig.BlockSpec{
		{Parent: 0, Items: []syncrig.Item{lg(1, 0, 0)}},
		{Parent: 1, Items: []syncrig.Item{lg(1, 0, 0), reg(1, 0, 5), lg(1, 1, 0), reg(2, 1, 4), reg(3, 0, 2)}}, // block 2
		{Parent: 2, Items: []syncrig.Item{lg(2, 1, 4)}},                                                     // 3: below the threshold of def 1
		{Parent: 3, Items: []syncrig.Item{lg(2, 1, 7)}},                                                     // 4: expiry block of trigger 2
		{Parent: 4, Items: []syncrig.Item{lg(1, 2, 0), lg(2, 1, 9)}},                                        // 5: expiry block of trigger 1
		{Parent: 5, Items: []syncrig.Item{lg(1, 0, 0)}},
	}
	sc.Runs = []Run{{Range: 1, Ops: []Op{{Head: 2}, {Head: 3}, {Head: 4}, {Head: 5}, {Head: 6}}}, {Range: 1, Ops: []Op{{Head: 6}}}, {Range: 3, Ops: []Op{{Head: 2}, {Head: 6}}}}
	out = append(out, sc)
	// a reorg un-fires: fired at block 4 on branch a, the log is missing on branch b, reappears at block 6
	sc = &Scenario{Start: 0, Depth: 2, Defs: defs, Note: "fired on the abandoned branch, fires again later on the new branch"}
	sc.Blocks = []syncrig.BlockSpec{
		{Parent: 0, Count: 1}, {Parent: 1, Items: []syncrig.Item{reg(1, 0, 100)}}, {Parent: 2, Count: 1}, // 1,2,3
		{Parent: 3, Items: []syncrig.Item{lg(1, 0, 0)}}, // 4 (a)
		{Parent: 3, Salt: 1, Count: 2},                  // 5,6 = numbers 4', 5'
		{Parent: 6, Salt: 1, Items: []syncrig.Item{lg(1, 0, 0)}}, // 7 = number 6'
	}
	sc.Runs = []Run{{Range: 1, Ops: []Op{{Head: 3}, {Head: 4}, {Head: 6}, {Head: 7}}}, {Range: 1, Ops: []Op{{Head: 7}}}, {Range: 10_000, Ops: []Op{{Head: 2}, {Head: 4}, {Head: 6}, {Head: 7}}}}
	out = append(out, sc)
	// D10 through a reorg in block-by-block operation with the default range limit: the trigger had
	// fired, the rollback deletes registration and fired row, the resync of the last blocks is one range
	sc = &Scenario{Start: 0, Depth: 3, Defs: defs, Note: "rollback over a registration that had fired: the resync range contains registration and log"}
	sc.Blocks = []syncrig.BlockSpec{
		{Parent: 0, Count: 2}, {Parent: 2, Items: []syncrig.Item{reg(1, 0, 100)}}, {Parent: 3, Items: []syncrig.Item{lg(1, 0, 0)}}, {Parent: 4, Count: 1}, // 1,2,3,4,5
		{Parent: 4, Salt: 1, Count: 2}, // 6,7 = numbers 5', 6'
	}
	sc.Runs = []Run{{Range: 1, Ops: []Op{{Head: 3}, {Head: 4}, {Head: 5}, {Head: 7}}}, {Range: 10_000, Ops: []Op{{Head: 3}, {Head: 4}, {Head: 5}, {Head: 7}}}}
	out = append(out, sc)
	// one sender, one eon, one identity prefix, two definitions (two identities): a log that matches
	// both in one block, and logs that match them in different blocks of one jump; controls: same
	// definition with another prefix, another sender with the same prefix (seed C16d)
	{
		d2 := []DefSpec{{A: 1, T: -1, Gte: -1}, {A: 1, T: 0, Gte: -1}}
		regS := func(p, snd uint8, def int) syncrig.Item {
			return syncrig.Item{Ev: &syncrig.Ev{Eon: 1, P: p, S: snd, Def: def, Exp: 100}}
		}
		sc := &Scenario{Start: 0, Depth: 10, Defs: d2, Note: "two triggers of one sender with the same prefix and different definitions, one log matches both"}
		sc.Blocks = []syncrig.BlockSpec{
			{Parent: 0, Items: []syncrig.Item{regS(1, 1, 0), regS(1, 1, 1), regS(2, 1, 0), regS(1, 2, 1)}}, // 1
			{Parent: 1, Count: 1},                              // 2
			{Parent: 2, Items: []syncrig.Item{lg(1, 0, 0)}},    // 3: matches both definitions
			{Parent: 3, Count: 1},                              // 4
		}
		sc.Runs = []Run{{Range: 1, Ops: []Op{{Head: 1}, {Head: 2}, {Head: 3}, {Head: 4}}}, {Range: 10_000, Ops: []Op{{Head: 1}, {Head: 4}}}, {Range: 2, Ops: []Op{{Head: 1}, {Head: 4}}}}
		out = append(out, sc)
		sc = &Scenario{Start: 0, Depth: 10, Defs: d2, Note: "two triggers of one sender with the same prefix: their logs lie in different blocks, one range or two"}
		sc.Blocks = []syncrig.BlockSpec{
			{Parent: 0, Items: []syncrig.Item{regS(1, 1, 0), regS(1, 1, 1), regS(2, 1, 1)}}, // 1
			{Parent: 1, Items: []syncrig.Item{lg(1, 1, 0)}},                 // 2: matches definition 0 only
			{Parent: 2, Items: []syncrig.Item{lg(1, 0, 0), lg(1, 0, 0)}},    // 3: two logs in one block matching definition 1 (and 0)
			{Parent: 3, Count: 2},                                           // 4, 5
		}
		sc.Runs = []Run{{Range: 1, Ops: []Op{{Head: 1}, {Head: 5}}}, {Range: 10_000, Ops: []Op{{Head: 1}, {Head: 5}}}, {Range: 2, Ops: []Op{{Head: 1}, {Head: 5}}},
			{Range: 3, Ops: []Op{{Head: 1}, {Head: 2}, {Head: 5}}}}
		out = append(out, sc)
	}
	// the same trigger registered twice with different expiry blocks (ttl extended / shortened), a
	// matching log between the two expiries; both registrations in one range or in two (seed C16j)
	for _, ext := range []bool{true, false} {
		e1, e2 := uint64(3), uint64(100)
		if !ext {
			e1, e2 = 100, 3
		}
		d2 := []DefSpec{{A: 1, T: -1, Gte: -1}}
		sc := &Scenario{Start: 0, Depth: 10, Defs: d2, Note: fmt.Sprintf("one identity registered twice, expiry %d then %d, matching log in block 6", e1, e2)}
		sc.Blocks = []syncrig.BlockSpec{
			{Parent: 0, Items: []syncrig.Item{reg(1, 0, e1)}}, // 1
			{Parent: 1, Items: []syncrig.Item{reg(1, 0, e2)}}, // 2: the same identity again
			{Parent: 2, Count: 3},                             // 3..5
			{Parent: 5, Items: []syncrig.Item{lg(1, 0, 0)}},   // 6
			{Parent: 6, Count: 1},                             // 7
		}
		sc.Runs = []Run{{Range: 1, Ops: []Op{{Head: 3}, {Head: 7}}}, {Range: 2, Ops: []Op{{Head: 3}, {Head: 7}}}, {Range: 10_000, Ops: []Op{{Head: 3}, {Head: 7}}},
			{Range: 10_000, Ops: []Op{{Head: 1}, {Head: 2}, {Head: 7}}}}
		out = append(out, sc)
	}
	// unsigned predicates on full words (18-decimal token amounts): 20 tokens against thresholds of 2,
	// 10 and 30 tokens, 2^64 and its neighbours, on a static data word and on the second topic
	{
		tok := func(n int64) string { return new(big.Int).Mul(big.NewInt(n), bigOf("1000000000000000000")).String() }
		pd := func(ref int, op, arg string) DefSpec {
			return DefSpec{A: 3, T: -1, Gte: -1, Preds: []PredSpec{{Ref: ref, Op: op, Arg: arg}}}
		}
		wdefs := []DefSpec{pd(4, "gt", tok(2)), pd(4, "gte", tok(10)), pd(4, "lt", tok(30)), pd(4, "lt", tok(2)), pd(4, "eq", "1553255926290448384"),
			pd(1, "gte", "18446744073709551615"), pd(1, "lte", "5"), pd(4, "gt", "18446744073709551616"), pd(1, "eq", "18446744073709551617")}
		sc := &Scenario{Start: 0, Depth: 10, Defs: wdefs, Note: "unsigned predicates on words above 2^64"}
		var regs []syncrig.Item
		for i := range wdefs {
			regs = append(regs, reg(uint8(1+i), i, 100))
		}
		wl := func(w, t1 string) syncrig.Item { return syncrig.Item{Lg: &syncrig.Lg{A: 3, T: 0, W: w, T1: t1}} }
		sc.Blocks = []syncrig.BlockSpec{
			{Parent: 0, Items: regs},
			{Parent: 1, Items: []syncrig.Item{wl(tok(20), "18446744073709551621")}}, // 20 tokens; topic 2^64 + 5
			{Parent: 2, Items: []syncrig.Item{wl("18446744073709551616", "18446744073709551617")}},
			{Parent: 3, Items: []syncrig.Item{wl("36893488147419103237", "4")}}, // 2*2^64 + 5
		}
		sc.Runs = []Run{{Range: 1, Ops: []Op{{Head: 1}, {Head: 2}, {Head: 3}, {Head: 4}}}, {Range: 1, Ops: []Op{{Head: 4}}}}
		out = append(out, sc)
	}
	// forced reorganisations for C16_rollback_unfires: depths 1..3 below a fired trigger, the fork
	// removes the log (un-fire), keeps it at another position, or re-registers the trigger itself
	for depth := 1; depth <= 3; depth++ {
		for variant := 0; variant < 3; variant++ {
			sc := &Scenario{Start: 0, Depth: 3, Defs: defs, Note: fmt.Sprintf("rollback un-fires: fork %d below the head, variant %d", depth, variant)}
			sc.Blocks = []syncrig.BlockSpec{
				{Parent: 0, Items: []syncrig.Item{reg(1, 0, 100)}}, // 1
				{Parent: 1, Items: []syncrig.Item{reg(2, 1, 100)}}, // 2
				{Parent: 2, Count: 1},                              // 3
				{Parent: 3, Items: []syncrig.Item{lg(1, 0, 0)}},    // 4: fires trigger 1
				{Parent: 4, Items: []syncrig.Item{lg(2, 1, 9)}},    // 5: fires trigger 2
				{Parent: 5, Count: 1},                              // 6
			}
			forkParent := 6 - depth
			var branchItems [][]syncrig.Item
			switch variant {
			case 0: // the new branch has no logs
				branchItems = [][]syncrig.Item{nil, nil, nil, nil}
			case 1: // the logs come back later and in the other order
				branchItems = [][]syncrig.Item{nil, {lg(2, 1, 9)}, {lg(1, 0, 0)}, nil}
			default: // another trigger is registered and fires on the new branch
				branchItems = [][]syncrig.Item{{reg(3, 0, 100)}, {lg(1, 0, 0)}, nil, nil}
			}
			parent := forkParent
			var heads []Op
			for i := 0; i < depth+1; i++ {
				sc.Blocks = append(sc.Blocks, syncrig.BlockSpec{Parent: parent, Salt: uint64(10 + variant), Items: branchItems[i]})
				parent = 6 + i + 1
			}
			for _, h := range []int{3, 4, 5, 6, parent} {
				heads = append(heads, Op{Head: h})
			}
			sc.Runs = []Run{{Range: 1, Ops: heads}, {Range: 1, Ops: []Op{{Head: parent}}}}
			out = append(out, sc)
		}
	}
	return out
}

// sweepScenarios: one fault at every RPC call index / database operation index of the Sync that
// stores a registration and fires two triggers in two ranges, and of the Sync that rolls back.
func sweepScenarios(full bool) []*Scenario {
	var out []*Scenario
	lg := func(a, t uint8, v uint64) syncrig.Item { return syncrig.Item{Lg: &syncrig.Lg{A: a, T: t, V: v}} }
	reg := func(p uint8, def int, exp uint64) syncrig.Item {
		return syncrig.Item{Ev: &syncrig.Ev{Eon: 1, P: p, S: 1, Def: def, Exp: exp}}
	}
	defs := []DefSpec{{A: 1, T: -1, Gte: -1}, {A: 2, T: 1, Gte: 5}}
	base := func() *Scenario {
		sc := &Scenario{Start: 0, Depth: 2, Defs: defs, Note: "fault sweep"}
		sc.Blocks = []syncrig.BlockSpec{
			{Parent: 0, Items: []syncrig.Item{reg(1, 0, 100), reg(2, 1, 100)}}, // 1
			{Parent: 1, Count: 1}, // 2
			{Parent: 2, Items: []syncrig.Item{lg(1, 0, 0), reg(3, 0, 100)}},    // 3
			{Parent: 3, Items: []syncrig.Item{lg(2, 1, 7)}},                    // 4
			{Parent: 4, Items: []syncrig.Item{lg(1, 0, 0)}},                    // 5
			{Parent: 4, Salt: 1, Count: 2},                                     // 6 (5'), 7 (6')
		}
		return sc
	}
	add := func(second bool, rpc *syncrig.RPCFault, db *syncrig.DBFault) {
		sc := base()
		if second { // the fault hits the Sync that detects the reorganisation
			sc.Runs = []Run{{Range: 2, Ops: []Op{{Head: 1}, {Head: 5}, {Head: 7, RPC: rpc, DB: db}, {Head: 7}}}}
		} else { // the fault hits the Sync over two ranges with two active triggers
			sc.Runs = []Run{{Range: 2, Ops: []Op{{Head: 1}, {Head: 5, RPC: rpc, DB: db}, {Head: 5}, {Head: 7}}}}
		}
		out = append(out, sc)
	}
	for _, second := range []bool{false, true} {
		for call := 0; call < 8; call++ {
			add(second, &syncrig.RPCFault{Call: call, Kind: []string{"rpc-error", "http-500", "drop"}[call%3]}, nil)
		}
		for op := 0; op < 7; op++ {
			add(second, nil, &syncrig.DBFault{Op: op, Mode: "stmt", Sub: 0})
			add(second, nil, &syncrig.DBFault{Op: op, Mode: "drop-commit"})
			add(second, nil, &syncrig.DBFault{Op: op, Mode: "drop-after-commit"})
			if full {
				for sub := 1; sub < 4; sub++ {
					add(second, nil, &syncrig.DBFault{Op: op, Mode: "stmt", Sub: sub})
				}
				for sub := 0; sub < 14; sub++ {
					add(second, nil, &syncrig.DBFault{Op: op, Mode: "drop", Sub: sub})
				}
			}
		}
	}
	return out
}

func loadReplay(path string) (*Scenario, error) {
	b, err := os.ReadFile(path)
	if err != nil {
		return nil, err
	}
	var wr struct {
		Case          json.RawMessage `json:"case"`
		FirstMismatch struct {
			Case struct {
				Scenario *Scenario `json:"scenario"`
			} `json:"case"`
		} `json:"first_mismatch"`
	}
	if err := json.Unmarshal(b, &wr); err != nil {
		return nil, err
	}
	var sc Scenario
	if len(wr.Case) > 0 && json.Unmarshal(wr.Case, &sc) == nil && len(sc.Runs) > 0 {
		return &sc, nil
	}
	if wr.FirstMismatch.Case.Scenario != nil {
		return wr.FirstMismatch.Case.Scenario, nil
	}
	if json.Unmarshal(b, &sc) == nil && len(sc.Runs) > 0 {
		return &sc, nil
	}
	return nil, fmt.Errorf("%s: no scenario found", path)
}

func main() {
	run := vh.Start("Verif.Corr.C16", 60)
	defer run.Finish()
	em = syncrig.NewEmitter(run, 60, "")
	defer em.Close()
	run.Rule = "one case per Sync call of the real MultiEventSyncer (registration + trigger processors) and per decrypted-flag update; non-trivial = at least one fired row and two registrations stored after the call"
	rig, err := syncrig.New(run.Repo)
	if err != nil {
		panic(err)
	}
	defer rig.Close()
	w := &world{run: run, rig: rig, empty: rig.PG.Store().Snapshot()}
	t0 := time.Now()
	exec := func(sc *Scenario) {
		if rig.Broken || (!run.Thorough && time.Since(t0) > 75*time.Second) {
			run.Dist["skipped:rig-broken-or-time-budget"]++
			return
		}
		w.scenarioNo++
		w.runScenario(sc)
	}
	if run.Replay != "" {
		sc, err := loadReplay(run.Replay)
		if err != nil {
			panic(err)
		}
		exec(sc)
		return
	}
	for _, f := range run.CorpusFiles() {
		if sc, err := loadReplay(f); err == nil {
			exec(sc)
		}
	}
	for _, sc := range forcedScenarios() {
		exec(sc)
	}
	for _, sc := range sweepScenarios(run.Thorough) {
		exec(sc)
	}
	n := run.Scale(45, 800)
	for i := 0; i < n; i++ {
		exec(genScenario(run.RNG.Fork(), i%3 == 0))
	}
}
