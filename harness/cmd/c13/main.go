//go:build verif

// Driver for C13 (shuttermint restarted from its saved state continues identically; a crash
// while the state file is written leaves the previous file intact).
package main

import (
	"fmt"
	"io"
	"os"
	"os/signal"
	"path/filepath"
	"syscall"

	abcitypes "github.com/tendermint/tendermint/abci/types"

	"github.com/shutter-network/rolling-shutter/rolling-shutter/app"

	"verifharness/appdrv"
	"verifharness/vh"
)

type restartCase struct {
	History appdrv.History `json:"history"`
	Cut     int            `json:"cut"` // number of calls before the restart (the last one is a commit); -1: crash sweep case
	CrashAt int64          `json:"crash_at,omitempty"`
}

func copyFile(src, dst string) error {
	in, err := os.Open(src)
	if err != nil {
		return err
	}
	defer in.Close()
	out, err := os.Create(dst)
	if err != nil {
		return err
	}
	defer out.Close()
	_, err = io.Copy(out, in)
	return err
}

// uninterrupted runs the history on a persisting node and keeps a copy of the state file after
// every commit.
func uninterrupted(dir string, h appdrv.History) ([]appdrv.Resp, *app.ShutterApp, map[int]string, map[int]int64) {
	gob := filepath.Join(dir, "app.gob")
	os.Remove(gob)
	a, err := appdrv.NewAppAt(h.Genesis, gob)
	if err != nil {
		panic(err)
	}
	var rs []appdrv.Resp
	saves := map[int]string{}
	heights := map[int]int64{}
	lastEnd := int64(0)
	for i, c := range h.Calls {
		rs = append(rs, appdrv.Exec(a, c))
		if c.Kind == "end" {
			lastEnd = c.Height
		}
		if c.Kind == "commit" {
			p := filepath.Join(dir, fmt.Sprintf("save_%d.gob", i))
			if err := copyFile(gob, p); err == nil {
				saves[i+1] = p
				heights[i+1] = lastEnd
			}
		}
	}
	return rs, a, saves, heights
}

func restart(run *vh.Run, h appdrv.History, cut int, file string, wantHeight int64, base []appdrv.Resp, baseFinal, baseDeep string) {
	rc := restartCase{History: h, Cut: cut}
	bad := func(key, what string, obs any) {
		run.Violate(vh.Violation{Key: key, What: what, Case: rc, Observed: obs})
	}
	sa, err := app.LoadShutterAppFromFile(file)
	if err != nil {
		bad("C13:saved-state-does-not-load", fmt.Sprintf("state saved at call %d does not load: %v", cut, err), nil)
		return
	}
	a := &sa
	// the restarted node keeps its own save schedule: it goes on saving after every block, or
	// (every other restart) never saves again - when a node writes its file is its own business
	// and must not show in what it answers (seeded C13j pruned old DKG instances while saving)
	if cut%2 == 1 {
		a.Gobpath = ""
	}
	info := a.Info(abcitypes.RequestInfo{}).LastBlockHeight
	if info != wantHeight {
		bad("C13:info-height", fmt.Sprintf("restarted node reports height %d, last executed block before the save was %d", info, wantHeight), nil)
	}
	var rs []appdrv.Resp
	for i, c := range h.Calls[cut:] {
		r := appdrv.Exec(a, c)
		rs = append(rs, r)
		if r.Key() != base[cut+i].Key() {
			bad("C13:restarted-node-answers-differently", fmt.Sprintf("after a restart from the save at call %d, call %d (%s %s) is answered differently", cut, cut+i, c.Kind, c.Note),
				[]appdrv.Resp{base[cut+i], r})
			return
		}
	}
	if appdrv.StateString(a, nil) != baseFinal {
		bad("C13:restarted-node-state-differs", fmt.Sprintf("after a restart from the save at call %d the final state differs", cut), nil)
	} else if d := appdrv.DeepState(a, "Gobpath", "LastSaved"); d != baseDeep {
		bad("C13:restarted-node-state-differs", fmt.Sprintf("after a restart from the save at call %d the final state differs (field-by-field comparison)", cut), []string{baseDeep, d})
	}
	id := run.NextID()
	ev := 0
	for _, r := range rs {
		ev += len(r.Events)
	}
	run.Dist[fmt.Sprintf("restart:remaining_calls<%d", 10*(1+len(rs)/10))]++
	term := vh.CApp("CRestart", vh.CN(id), appdrv.GenesisCoq(h.Genesis), appdrv.CallsCoq(h.Calls[:cut]), appdrv.CallsCoq(h.Calls[cut:]),
		vh.CZ(info), appdrv.RespsCoq(rs), appdrv.ProjCoq(a))
	run.AddCase(id, term, rc, fmt.Sprint(h.Calls, cut), ev >= 1 && cut >= 5)
}

func doHistory(run *vh.Run, dir string, h appdrv.History, cuts int) {
	base, a, saves, heights := uninterrupted(dir, h)
	final := appdrv.StateString(a, nil)
	finalDeep := appdrv.DeepState(a, "Gobpath", "LastSaved")
	// a node that never writes a state file answers the same calls the same way
	if plain, pa, err := appdrv.RunHistory(h); err == nil {
		for i := range plain {
			if i < len(base) && plain[i].Key() != base[i].Key() {
				run.Violate(vh.Violation{Key: "C13:saving-changes-behaviour", What: fmt.Sprintf("a node that saves after every block and one that never saves answer call %d (%s %s) differently", i, h.Calls[i].Kind, h.Calls[i].Note),
					Case: restartCase{History: h, Cut: 0}, Observed: []appdrv.Resp{base[i], plain[i]}})
				break
			}
		}
		if appdrv.StateString(pa, nil) != final {
			run.Violate(vh.Violation{Key: "C13:saving-changes-state", What: "a node that saves after every block and one that never saves hold different state after the same calls", Case: restartCase{History: h, Cut: 0}})
		}
	}
	var points []int
	for k := range saves {
		points = append(points, k)
	}
	// deterministic order
	for i := 0; i < len(points); i++ {
		for j := i + 1; j < len(points); j++ {
			if points[j] < points[i] {
				points[i], points[j] = points[j], points[i]
			}
		}
	}
	if cuts > 0 && len(points) > cuts {
		perm := run.RNG.Perm(len(points))
		var sel []int
		for _, p := range perm[:cuts] {
			sel = append(sel, points[p])
		}
		points = sel
	}
	for _, k := range points {
		restart(run, h, k, saves[k], heights[k], base, final, finalDeep)
	}
	for _, p := range saves {
		os.Remove(p)
	}
}

// crashSweep: the write of the temporary file fails at byte k (RLIMIT_FSIZE), for a sweep of
// k; afterwards the main file must load to the previously saved state.
func crashSweep(run *vh.Run, dir string, h appdrv.History, step int64) {
	gob := filepath.Join(dir, "crash.gob")
	os.Remove(gob)
	os.Remove(gob + ".tmp")
	a, err := appdrv.NewAppAt(h.Genesis, gob)
	if err != nil {
		panic(err)
	}
	// run all but the last block with persistence at every commit; remember the previous state
	lastBegin := 0
	for i, c := range h.Calls {
		if c.Kind == "begin" {
			lastBegin = i
		}
	}
	for _, c := range h.Calls[:lastBegin] {
		appdrv.Exec(a, c)
	}
	prev := appdrv.StateString(a, nil)
	a.Gobpath = "" // the last block is executed without saving
	for _, c := range h.Calls[lastBegin:] {
		appdrv.Exec(a, c)
	}
	a.Gobpath = gob
	// size of the new image
	if err := a.PersistToDisk(); err != nil {
		panic(err)
	}
	st, _ := os.Stat(gob)
	size := st.Size()
	newState := appdrv.StateString(a, nil)
	signal.Ignore(syscall.SIGXFSZ)
	var old syscall.Rlimit
	syscall.Getrlimit(syscall.RLIMIT_FSIZE, &old)
	for k := int64(0); k <= size+1; k += step {
		// restore the previous file: re-run to the previous save point is expensive, so write the
		// previous image back by loading/saving through a second instance
		b, _ := appdrv.NewApp(h.Genesis)
		for _, c := range h.Calls[:lastBegin] {
			appdrv.Exec(b, c)
		}
		b.Gobpath = gob
		if err := b.PersistToDisk(); err != nil {
			panic(err)
		}
		lim := old
		lim.Cur = uint64(k)
		syscall.Setrlimit(syscall.RLIMIT_FSIZE, &lim)
		perr := a.PersistToDisk()
		syscall.Setrlimit(syscall.RLIMIT_FSIZE, &old)
		rc := restartCase{History: h, Cut: -1, CrashAt: k}
		sa, lerr := app.LoadShutterAppFromFile(gob)
		if lerr != nil {
			run.Violate(vh.Violation{Key: "C13:crash-leaves-unloadable-file", What: fmt.Sprintf("write failed at byte %d of %d (%v); afterwards the state file does not load: %v", k, size, perr, lerr), Case: rc})
			continue
		}
		got := appdrv.StateString(&sa, nil)
		switch {
		case perr != nil && got != prev:
			run.Violate(vh.Violation{Key: "C13:crash-changes-saved-state", What: fmt.Sprintf("write failed at byte %d of %d; the state file no longer holds the previous state", k, size), Case: rc})
		case perr == nil && got != newState:
			run.Violate(vh.Violation{Key: "C13:saved-state-wrong", What: fmt.Sprintf("PersistToDisk succeeded under a %d byte limit but the file does not hold the new state", k), Case: rc})
		}
		run.CountOnly(fmt.Sprintf("crash %v %d", h.Calls, k), perr != nil)
		if perr != nil {
			run.Dist["crash:write-failed"]++
		} else {
			run.Dist["crash:write-succeeded"]++
		}
	}
	os.Remove(gob)
	os.Remove(gob + ".tmp")
}

func main() {
	run := vh.Start("Verif.Corr.C13", 40)
	run.SetPreamble("From Verif Require Import Model.Powermap Model.App Model.AppPersist Corr.App.\nOpen Scope N_scope.")
	defer run.Finish()
	run.Rule = "ABCI histories on a persisting node (PersistMinDuration = 0, state file copied after every commit); for sampled (quick) or all (thorough) save points the node is restarted with LoadShutterAppFromFile and replays the remaining calls, every response and the final state compared with the uninterrupted node and with the model's snapshot/load; non-trivial restart = at least 5 calls before and at least one event after; plus a crash sweep: the write of the temporary file fails at byte k (RLIMIT_FSIZE) and the main file must still load to the previous state"
	app.PersistMinDuration = 0
	dir, err := os.MkdirTemp("", "verif-c13-")
	if err != nil {
		panic(err)
	}
	defer os.RemoveAll(dir)
	u := appdrv.NewUniverse(8)
	if run.Replay != "" {
		var rc restartCase
		if err := run.LoadReplay(&rc); err != nil {
			panic(err)
		}
		if rc.Cut < 0 {
			crashSweep(run, dir, rc.History, 1)
		} else {
			doHistory(run, dir, rc.History, 0)
		}
		return
	}
	n := run.Scale(120, 2500)
	cuts := 4
	if run.Thorough {
		cuts = 0
	}
	for i := 0; i < n; i++ {
		g := &appdrv.Gen{U: u, R: run.RNG.Fork(), Weird: i%7 == 0}
		var h appdrv.History
		if i%10 == 9 {
			h, _, _ = g.ManyEonsHistory(4 + run.RNG.Intn(4))
			run.Dist["history:many-eons"]++
		} else if i%5 == 4 {
			h, _, _ = g.DKGHistory(5+run.RNG.Intn(6), 8)
		} else if i%2 == 1 {
			h, _, _ = g.TransitionHistory(3+run.RNG.Intn(7), 8)
		} else {
			h, _, _ = g.RandomHistory(3+run.RNG.Intn(7), 7)
		}
		doHistory(run, dir, h, cuts)
	}
	// crash sweeps
	ns := run.Scale(2, 20)
	for i := 0; i < ns; i++ {
		g := &appdrv.Gen{U: u, R: run.RNG.Fork(), NoJunk: true}
		h, _, _ := g.RandomHistory(4+run.RNG.Intn(4), 7)
		step := int64(37)
		if run.Thorough {
			step = 1
		}
		crashSweep(run, dir, h, step)
	}
}
