//go:build verif

// Driver for C04 (gossip validation accepts exactly the well-formed, cryptographically valid
// messages) and for the handler stream (b) of C01.
//
// Streams:
//
//	core     a (receiver state, message) pair on a core keyper node: the handler's own
//	         ValidateMessage (rejection class), the REAL combined topic validator on the
//	         marshalled envelope, the database before/after validation, and - only when the
//	         validator accepted - the REAL P2PMessaging.Handle with the rows it wrote and the
//	         messages it returned. Oracle: the right-hand side of the property recomputed from
//	         the case description (gossipdrv.WfCore).
//	flavour  Gnosis / Shutter-service nodes: two validators per topic; the combined validator
//	         must reject as soon as one of them does.
//	env      envelope mutations (topic, version, foreign payload, garbage).
//	producer key-shares messages made by the real producers (ConstructDecryptionKeyShares, the
//	         flavour's messaging middleware), delivered to a second node; its keys message to a third.
//	hist     histories of DecryptionKeyShareHandler.HandleMessage calls with the row order of
//	         the unordered share SELECT permuted (C01 stream (b)).
package main

import (
	"bytes"
	"encoding/hex"
	"fmt"
	"math"
	"sort"
	"strings"

	"google.golang.org/protobuf/proto"
	anypb "google.golang.org/protobuf/types/known/anypb"

	"github.com/shutter-network/rolling-shutter/rolling-shutter/p2pmsg"

	g "verifharness/gossipdrv"
	"verifharness/pgfake"
	"verifharness/vh"
)

const (
	inst    = 7
	maxKeys = 3
	idA     = "a1a1a1a1a1a1a1a1a1a1a1a1a1a1a1a1a1a1a1a1a1a1a1a1a1a1a1a1a1a1a1a1"
	idB     = "b2b2b2b2b2b2b2b2b2b2b2b2b2b2b2b2b2b2b2b2b2b2b2b2b2b2b2b2b2b2b2b2"
	idC     = "c3c3c3c3c3c3c3c3c3c3c3c3c3c3c3c3c3c3c3c3c3c3c3c3c3c3c3c3c3c3c3c3"
	idD     = "d4d4d4d4d4d4d4d4d4d4d4d4d4d4d4d4d4d4d4d4d4d4d4d4d4d4d4d4d4d4d4d4"
)

// gnosis identities are 52 bytes wide
func wide(id string) string { return id + strings.Repeat("00", 20) }

type envSpec struct {
	RegTopic string `json:"reg_topic,omitempty"` // the topic whose validator is run (default: the message's)
	MsgTopic string `json:"msg_topic,omitempty"` // topic field of the pubsub message (default: RegTopic)
	Version  string `json:"version,omitempty"`   // envelope version (default 0.0.1)
	Payload  string `json:"payload,omitempty"`   // "" | garbage | nomessage | foreign | unknowntype
}

type histStep struct {
	Msg       *g.Msg `json:"msg"`
	OrderSeed uint64 `json:"order_seed"`
}

type caseJ struct {
	Kind    string     `json:"kind"` // core | flavour | env | hist
	Flavour string     `json:"flavour"`
	State   *g.State   `json:"state"`
	Msg     *g.Msg     `json:"msg,omitempty"`
	Env     envSpec    `json:"env"`
	Steps   []histStep `json:"steps,omitempty"`
	Prod    *prodSpec  `json:"prod,omitempty"`
	Outside bool       `json:"outside,omitempty"` // outside the property's quantifier: correspondence only
	Origin  string     `json:"origin"`
}

func (c *caseJ) key() string {
	return fmt.Sprintf("%s/%s/%s/%+v/%+v/%+v/%+v", c.Kind, c.Flavour, c.State.Name, c.Msg, c.Env, c.Steps, c.Prod)
}

// ---------------------------------------------------------------------------------------------
// receiver states

func baseState() *g.State {
	return &g.State{Name: "base", Inst: inst, MaxKeys: maxKeys, Self: 0,
		Configs:   []g.ConfigRow{{Kci: 1, Keypers: []int{0, 1, 2}}, {Kci: 3, Keypers: []int{0, 1, 2}}},
		Eons:      []g.EonRow{{Eon: 5, Kci: 1}},
		Dkg:       []g.DkgRow{{Eon: 5, Kind: "ok", Set: 0, NShares: 3, T: 2}},
		KSets:     []g.KSetRow{{Kci: 1, Keypers: []int{0, 1, 2}, Threshold: 2}},
		Collators: []g.CollRow{{Act: 0, Addr: 4}},
	}
}

func states() []*g.State {
	var out []*g.State
	add := func(name string, f func(s *g.State)) {
		s := baseState()
		s.Name = name
		f(s)
		out = append(out, s)
	}
	add("base", func(s *g.State) {})
	add("not-a-keyper", func(s *g.State) { s.Self = 5 })
	add("other-set-only", func(s *g.State) { s.Configs = []g.ConfigRow{{Kci: 1, Keypers: []int{1, 2, 5}}} })
	add("no-batch-config", func(s *g.State) { s.Configs = nil })
	add("no-eon", func(s *g.State) { s.Eons = nil })
	add("no-dkg-result", func(s *g.State) { s.Dkg = nil })
	add("failed-dkg", func(s *g.State) { s.Dkg = []g.DkgRow{{Eon: 5, Kind: "failed"}} })
	add("garbled-dkg", func(s *g.State) { s.Dkg = []g.DkgRow{{Eon: 5, Kind: "garbled"}} })
	add("restarted-no-result", func(s *g.State) { s.Eons = append(s.Eons, g.EonRow{Eon: 6, Kci: 1}) })
	add("restarted-failed-then-ok", func(s *g.State) {
		s.Eons = []g.EonRow{{Eon: 6, Kci: 1}, {Eon: 5, Kci: 1}}
		s.Dkg = []g.DkgRow{{Eon: 5, Kind: "failed"}, {Eon: 6, Kind: "ok", Set: 0, NShares: 3, T: 2}}
	})
	add("restarted-other-key", func(s *g.State) {
		s.Eons = []g.EonRow{{Eon: 5, Kci: 1}, {Eon: 6, Kci: 1}}
		s.Dkg = []g.DkgRow{{Eon: 5, Kind: "ok", Set: 0, NShares: 3, T: 2}, {Eon: 6, Kind: "ok", Set: 1, NShares: 3, T: 2}}
	})
	add("key-stored-same", func(s *g.State) {
		s.Keys = []g.KeyRow{{Eon: 1, Ident: idA, Val: g.Val{Kind: "key", Set: 0, Ident: idA}}}
	})
	add("key-stored-different", func(s *g.State) {
		s.Keys = []g.KeyRow{{Eon: 1, Ident: idA, Val: g.Val{Kind: "junk", Ident: idA, Tag: 3}}}
	})
	add("key-stored-other-eon", func(s *g.State) {
		s.Keys = []g.KeyRow{{Eon: 3, Ident: idA, Val: g.Val{Kind: "junk", Ident: idA, Tag: 3}}}
	})
	add("two-public-key-shares", func(s *g.State) { s.Dkg = []g.DkgRow{{Eon: 5, Kind: "ok", Set: 0, NShares: 2, T: 2}} })
	add("max-zero", func(s *g.State) { s.MaxKeys = 0 })
	add("max-one", func(s *g.State) { s.MaxKeys = 1 })
	add("shares-stored", func(s *g.State) {
		s.Shares = []g.ShareRow{{Eon: 1, Ident: idA, Kidx: 0, Val: g.Val{Kind: "share", Set: 0, Keyper: 0, Ident: idA}},
			{Eon: 1, Ident: idB, Kidx: 0, Val: g.Val{Kind: "share", Set: 0, Keyper: 0, Ident: idB}}}
	})
	return out
}

// states outside the property's quantifier (no batch config index fits them): correspondence only
func outsideStates() []*g.State {
	s := baseState()
	s.Name = "eon-index-beyond-int32"
	s.Eons = append(s.Eons, g.EonRow{Eon: 9, Kci: 1<<32 + 1})
	s.Dkg = append(s.Dkg, g.DkgRow{Eon: 9, Kind: "ok", Set: 0, NShares: 3, T: 2})
	t := baseState()
	t.Name = "max-beyond-int63"
	t.MaxKeys = 1<<63 + 5
	return []*g.State{s, t}
}

// ---------------------------------------------------------------------------------------------
// messages and their mutations

func share(set, keyper int, id string) g.Val { return g.Val{Kind: "share", Set: set, Keyper: keyper, Ident: id} }
func key(set int, id string) g.Val           { return g.Val{Kind: "key", Set: set, Ident: id} }

func baseShares() *g.Msg {
	return &g.Msg{Type: "shares", Inst: inst, Eon: 1, Kidx: 1, Extra: g.Extra{Kind: "none"},
		Items: []g.Item{{Ident: idA, Val: share(0, 1, idA)}, {Ident: idB, Val: share(0, 1, idB)}}}
}

func baseKeys() *g.Msg {
	return &g.Msg{Type: "keys", Inst: inst, Eon: 1, Extra: g.Extra{Kind: "none"},
		Items: []g.Item{{Ident: idA, Val: key(0, idA)}, {Ident: idB, Val: key(0, idB)}}}
}

type mutation struct {
	name string
	f    func(m *g.Msg)
}

// good value for an item of the (possibly already mutated) message
func goodVal(m *g.Msg, id string) g.Val {
	if m.Type == "shares" {
		return share(0, int(m.Kidx%3), id)
	}
	return key(0, id)
}

// aggregate: elements that are individually wrong while their sum is the sum of the right
// ones (a validator that checks one aggregated pairing equation would accept them)
func aggregate(add func(name string, f func(m *g.Msg)), third string) {
	comb := func(ts ...g.Term) g.Val { return g.Val{Kind: "comb", Terms: ts} }
	d := func(tag int) g.Val { return g.Val{Kind: "junk", Ident: idD, Tag: 40 + tag} }
	add("aggregate:values-exchanged", func(m *g.Msg) {
		if len(m.Items) > 1 {
			m.Items[0].Val, m.Items[1].Val = m.Items[1].Val, m.Items[0].Val
		}
	})
	add("aggregate:+D,-D", func(m *g.Msg) {
		if len(m.Items) > 1 {
			m.Items[0].Val = comb(g.Term{Val: m.Items[0].Val}, g.Term{Val: d(1)})
			m.Items[1].Val = comb(g.Term{Val: m.Items[1].Val}, g.Term{Val: d(1), Neg: true})
		}
	})
	add("aggregate:+D1,+D2,-D1-D2", func(m *g.Msg) {
		if len(m.Items) == 2 {
			id := third
			if len(m.Items[0].Ident) > 64 {
				id = wide(third)
			}
			m.Items = append(m.Items, g.Item{Ident: id, Val: goodVal(m, id)})
		}
		if len(m.Items) > 2 {
			m.Items[0].Val = comb(g.Term{Val: m.Items[0].Val}, g.Term{Val: d(1)})
			m.Items[1].Val = comb(g.Term{Val: m.Items[1].Val}, g.Term{Val: d(2)})
			m.Items[2].Val = comb(g.Term{Val: m.Items[2].Val}, g.Term{Val: d(1), Neg: true}, g.Term{Val: d(2), Neg: true})
		}
	})
	add("aggregate:sum-of-both,infinity", func(m *g.Msg) {
		if len(m.Items) > 1 {
			a, b := m.Items[0].Val, m.Items[1].Val
			m.Items[0].Val = comb(g.Term{Val: a}, g.Term{Val: b})
			m.Items[1].Val = g.Val{Kind: "inf"}
		}
	})
	add("aggregate:infinity,sum-of-both", func(m *g.Msg) {
		if len(m.Items) > 1 {
			a, b := m.Items[0].Val, m.Items[1].Val
			m.Items[1].Val = comb(g.Term{Val: a}, g.Term{Val: b})
			m.Items[0].Val = g.Val{Kind: "inf"}
		}
	})
	add("aggregate:2A,B-A", func(m *g.Msg) {
		if len(m.Items) > 1 {
			a, b := m.Items[0].Val, m.Items[1].Val
			m.Items[0].Val = comb(g.Term{Val: a}, g.Term{Val: a})
			m.Items[1].Val = comb(g.Term{Val: b}, g.Term{Val: a, Neg: true})
		}
	})
}

func mutations() []mutation {
	var ms []mutation
	add := func(name string, f func(m *g.Msg)) { ms = append(ms, mutation{name, f}) }
	add("none", func(m *g.Msg) {})
	aggregate(add, idC)
	add("instance+1", func(m *g.Msg) { m.Inst++ })
	add("instance=0", func(m *g.Msg) { m.Inst = 0 })
	for _, e := range []uint64{0, 2, 3, math.MaxInt64, 1 << 63, math.MaxUint64, 1<<32 + 1} {
		e := e
		add(fmt.Sprintf("eon=%d", e), func(m *g.Msg) { m.Eon = e })
	}
	for _, k := range []uint64{0, 2, 3, 4, 1 << 31, 1 << 63, math.MaxUint64} {
		k := k
		add(fmt.Sprintf("kidx=%d", k), func(m *g.Msg) { m.Kidx = k })
		add(fmt.Sprintf("kidx=%d+own-shares", k), func(m *g.Msg) {
			m.Kidx = k
			if m.Type == "shares" {
				for i := range m.Items {
					m.Items[i].Val = share(0, int(k%3), m.Items[i].Ident)
				}
			}
		})
	}
	vals := []struct {
		n string
		v func(m *g.Msg, id string) g.Val
	}{
		{"junk", func(m *g.Msg, id string) g.Val { return g.Val{Kind: "junk", Ident: id, Tag: 1} }},
		{"stored-junk", func(m *g.Msg, id string) g.Val { return g.Val{Kind: "junk", Ident: id, Tag: 3} }},
		{"other-keyper", func(m *g.Msg, id string) g.Val { return share(0, int((m.Kidx+1)%3), id) }},
		{"other-identity", func(m *g.Msg, id string) g.Val { return goodVal(m, idD) }},
		{"other-eon-key", func(m *g.Msg, id string) g.Val {
			v := goodVal(m, id)
			v.Set = 1
			return v
		}},
		{"key-for-share", func(m *g.Msg, id string) g.Val {
			if m.Type == "shares" {
				return key(0, id)
			}
			return share(0, 1, id)
		}},
		{"empty", func(m *g.Msg, id string) g.Val { return g.Val{Kind: "empty"} }},
		{"short", func(m *g.Msg, id string) g.Val { return g.Val{Kind: "short"} }},
		{"not-in-g1", func(m *g.Msg, id string) g.Val { return g.Val{Kind: "notg1"} }},
	}
	for _, v := range vals {
		for pos := 0; pos < 2; pos++ {
			v, pos := v, pos
			add(fmt.Sprintf("value[%d]=%s", pos, v.n), func(m *g.Msg) {
				if pos < len(m.Items) {
					m.Items[pos].Val = v.v(m, m.Items[pos].Ident)
				}
			})
		}
	}
	// neighbouring elements with the SAME identity (legal: the order is non-decreasing), one of
	// them with a value that is not the valid one for that identity: at the second position, at
	// the first, and as a third element behind two good ones
	for _, v := range vals {
		v := v
		add("equal-neighbour[1]="+v.n, func(m *g.Msg) {
			if len(m.Items) > 1 {
				m.Items[1].Ident = m.Items[0].Ident
				m.Items[1].Val = v.v(m, m.Items[1].Ident)
			}
		})
		add("equal-neighbour[0]="+v.n, func(m *g.Msg) {
			if len(m.Items) > 1 {
				m.Items[1].Ident = m.Items[0].Ident
				m.Items[1].Val = goodVal(m, m.Items[1].Ident)
				m.Items[0].Val = v.v(m, m.Items[0].Ident)
			}
		})
		add("equal-neighbour[2]="+v.n, func(m *g.Msg) {
			if len(m.Items) > 1 {
				id := m.Items[1].Ident
				m.Items = append(m.Items, g.Item{Ident: id, Val: v.v(m, id)})
			}
		})
	}
	add("equal-neighbour[2]=good", func(m *g.Msg) {
		if len(m.Items) > 1 {
			id := m.Items[1].Ident
			m.Items = append(m.Items, g.Item{Ident: id, Val: goodVal(m, id)})
		}
	})
	add("identity[0]=other", func(m *g.Msg) {
		if len(m.Items) > 0 {
			m.Items[0].Ident = "a0"
		}
	})
	add("identity[1]=empty", func(m *g.Msg) {
		if len(m.Items) > 1 {
			m.Items[1].Ident = ""
		}
	})
	add("order-swapped", func(m *g.Msg) {
		if len(m.Items) > 1 {
			m.Items[0], m.Items[1] = m.Items[1], m.Items[0]
		}
	})
	add("identity-repeated", func(m *g.Msg) {
		if len(m.Items) > 1 {
			m.Items[1] = m.Items[0]
		}
	})
	add("count=0", func(m *g.Msg) { m.Items = nil })
	add("count=1", func(m *g.Msg) {
		if len(m.Items) > 1 {
			m.Items = m.Items[:1]
		}
	})
	add("count=max", func(m *g.Msg) { m.Items = append(m.Items, g.Item{Ident: idC, Val: goodVal(m, idC)}) })
	add("count=max+1", func(m *g.Msg) {
		m.Items = append(m.Items, g.Item{Ident: idC, Val: goodVal(m, idC)}, g.Item{Ident: idD, Val: goodVal(m, idD)})
	})
	for _, k := range []string{"gnosis", "service", "optimism", "gnosisnil", "servicenil", "optimismnil"} {
		k := k
		add("extra="+k, func(m *g.Msg) {
			m.Extra = g.Extra{Kind: k}
			if m.Type == "shares" && (k == "gnosis" || k == "service") {
				m.Extra.Sig = &g.Sig{Kind: "stray"}
			}
		})
	}
	return ms
}

// ---------------------------------------------------------------------------------------------
// envelopes

func topicOf(m *g.Msg) string {
	switch m.Type {
	case "shares":
		return "decryptionKeyShares"
	case "keys":
		return "decryptionKeys"
	case "eonpk":
		return "EonPublicKey"
	case "trigger":
		return "decryptionTrigger"
	}
	return "primevCommitment"
}

func encode(mat *g.Material, m *g.Msg, e envSpec) []byte {
	version := e.Version
	if version == "" {
		version = p2pmsg.EnvelopeVersion
	}
	switch e.Payload {
	case "garbage":
		return []byte{0xff, 0xff, 0xff, 0x07, 0x01}
	case "nomessage":
		b, _ := proto.Marshal(&p2pmsg.Envelope{Version: version})
		return b
	case "foreign":
		a, _ := anypb.New(&p2pmsg.KeyShare{IdentityPreimage: []byte{1}, Share: []byte{2}})
		b, _ := proto.Marshal(&p2pmsg.Envelope{Version: version, Message: a})
		return b
	case "unknowntype":
		b, _ := proto.Marshal(&p2pmsg.Envelope{Version: version, Message: &anypb.Any{TypeUrl: "type.googleapis.com/no.such.Type", Value: []byte{1, 2}}})
		return b
	}
	a, err := anypb.New(m.Build(mat))
	if err != nil {
		panic(err)
	}
	b, err := proto.Marshal(&p2pmsg.Envelope{Version: version, Message: a})
	if err != nil {
		panic(err)
	}
	return b
}

// ---------------------------------------------------------------------------------------------
// running cases

type runner struct {
	run *vh.Run
	w   *g.World
	mat *g.Material
}

const (
	keyD1     = "C04:shares:keyper-index-outside-dkg-result-panics"
	keyStored = "C04:validation-writes-to-database"
)

func (r *runner) violate(c *caseJ, key, what string, observed, expected any) {
	r.run.Violate(vh.Violation{Key: key, What: what, Case: c, Observed: observed, Expected: expected})
}

func which(fl string, m *g.Msg) []string {
	core := map[string]string{"shares": "VsCoreShares", "keys": "VsCoreKeys", "eonpk": "VsCoreEonPK"}
	var out []string
	switch fl {
	case "gnosis":
		if m.Type == "shares" {
			out = append(out, "VsGnosisShares")
		} else if m.Type == "keys" {
			out = append(out, "VsGnosisKeys")
		}
	case "service":
		if m.Type == "shares" {
			out = append(out, "VsServiceShares")
		} else if m.Type == "keys" {
			out = append(out, "VsServiceKeys")
		}
	}
	if fl == "access" {
		// the access node has its one validator of keys messages and no core validators
		if m.Type == "keys" {
			return []string{"VsAccessKeys"}
		}
		return nil
	}
	if v, ok := core[m.Type]; ok {
		out = append(out, v)
	}
	return out
}

// signerSet is the keyper set whose members' signatures a Gnosis keys message must carry: the
// observer's keyper_set row of a Gnosis keyper, the stored keyper set of the access node.
func signerSet(fl string, st *g.State, eon uint64) ([]int, int, bool) {
	if fl == "access" {
		for _, a := range st.AnKSets {
			if a.Eon == eon {
				return a.Keypers, int(a.Threshold), true
			}
		}
		return nil, 0, false
	}
	for _, k := range st.KSets {
		if uint64(k.Kci) == eon {
			return k.Keypers, int(k.Threshold), true
		}
	}
	return nil, 0, false
}

// signaturesValid: every signature of a Gnosis keys message, taken alone, is the (deterministic)
// signature of the member its signer index names over the message's own slot data. Returns the
// first offending position. Messages whose signer list does not name members are not judged.
func signaturesValid(mat *g.Material, fl string, st *g.State, m *g.Msg) (bool, int) {
	if m.Type != "keys" || m.Extra.Kind != "gnosis" {
		return true, -1
	}
	keypers, _, ok := signerSet(fl, st, m.Eon)
	own := m.OwnTuple()
	if !ok || own == nil || !own.Hashable() || len(m.Extra.Sigs) != len(m.Extra.Signers) {
		return true, -1
	}
	for i, sg := range m.Extra.Sigs {
		si := m.Extra.Signers[i]
		if si >= uint64(len(keypers)) || keypers[si] < 0 {
			return true, -1
		}
		want := mat.SigBytes(g.Sig{Kind: "by", Key: keypers[si], T: own})
		if !bytes.Equal(mat.SigBytes(sg), want) {
			return false, i
		}
	}
	return true, -1
}

// keyLabels renders the decryption_key table with labels.
func (r *runner) keyRows() string {
	var xs []string
	for _, row := range r.w.Srv.Store().Table("decryption_key").Rows() {
		id := row["epoch_id"].([]byte)
		xs = append(xs, "("+vh.CZ(row["eon"].(int64))+", "+vh.CBytes(id)+", "+r.mat.ClassifyKey(id, row["decryption_key"].([]byte))+")")
	}
	return vh.CList(xs)
}

func (r *runner) shareRows() string {
	var xs []string
	for _, row := range r.w.Srv.Store().Table("decryption_key_share").Rows() {
		xs = append(xs, "("+vh.CZ(row["eon"].(int64))+", "+vh.CBytes(row["epoch_id"].([]byte))+", "+vh.CZ(row["keyper_index"].(int64))+", "+
			vh.CBytes(row["decryption_key_share"].([]byte))+")")
	}
	return vh.CList(xs)
}

// houtOf classifies what the key share handler returned.
func (r *runner) houtOf(h g.HandleResult) string {
	if h.Exec.Crashed() {
		return "HPanic"
	}
	if h.Err != "" {
		switch {
		case strings.Contains(h.Err, "int64 overflow"):
			return "(HErr EEonOverflow)"
		case strings.Contains(h.Err, "failed to get dkg result"):
			return "(HErr ENoDkgResult)"
		case strings.Contains(h.Err, "even though we have enough shares"):
			return "(HErr EEnoughSharesNoKey)"
		case strings.Contains(h.Err, "gob") || strings.Contains(h.Err, "EOF") || strings.Contains(h.Err, "unexpected"):
			return "(HErr EDkgDecode)"
		}
		r.run.Tie("key share handler: unclassified error: " + h.Err)
		return "(HErr EDkgDecode)"
	}
	if len(h.Out) == 0 {
		return "HNone"
	}
	if len(h.Out) > 1 {
		r.run.Tie("key share handler returned more than one message")
	}
	km, ok := h.Out[0].(*p2pmsg.DecryptionKeys)
	if !ok {
		r.run.Tie("key share handler returned a message that is not DecryptionKeys")
		return "HNone"
	}
	xs := make([]string, len(km.Keys))
	for i, k := range km.Keys {
		xs[i] = vh.CPair(vh.CBytes(k.IdentityPreimage), r.mat.ClassifyKey(k.IdentityPreimage, k.Key))
	}
	return vh.CApp("HKeys", vh.CList(xs))
}

// runCore: one (state, message) pair on a core node.
func (r *runner) runCore(c *caseJ) {
	run, w, mat := r.run, r.w, r.mat
	mat.CanonMsg(c.Msg)
	c.Msg.Fill()
	w.Install(c.State)
	n := w.Node("core", c.State)
	pm := c.Msg.Build(mat)
	vs := "VsCoreShares"
	if c.Msg.Type == "keys" {
		vs = "VsCoreKeys"
	}
	dump0 := w.Dump()
	d := n.ValidateDirect(vs, pm)
	stCoq := c.State.Coq(mat)
	id := run.NextID()
	run.AddCase(id, vh.CApp("CDirect", vh.CN(id), vs, stCoq, c.Msg.Coq(mat), d.Coq(), vh.CNat(d.Exec.Stmts)), c, c.key()+"/direct", d.Verdict == "accept")
	topic := topicOf(c.Msg)
	data := encode(mat, c.Msg, c.Env)
	res, ex := n.Combined(topic, topic, data)
	dump1 := w.Dump()
	wire, _ := mat.DecodeWire(data)
	id2 := run.NextID()
	run.AddCase(id2, vh.CApp("CCombined", vh.CN(id2), "NCore", stCoq, g.CoqTopic(topic), g.CoqTopic(topic), wire, g.CoqVres(res)), c, c.key()+"/combined", res == "accept")
	run.Dist["core:"+c.Msg.Type+":"+res]++
	run.Dist["core:state:"+c.State.Name]++
	if d.Verdict == "reject" {
		run.Dist["core:reject:"+d.Reason]++
	}

	// oracle
	if !c.Outside {
		wf, why := g.WfCore(mat, c.State, c.Msg)
		if c.Msg.NilInner() {
			wf2, _ := g.WfCore(mat, c.State, c.Msg.AfterWire())
			wf = wf && wf2
		}
		switch {
		case res == "panic" || res == "timeout" || d.Verdict == "panic" || d.Verdict == "timeout":
			k := "C04:" + c.Msg.Type + ":validator-panics"
			if c.Msg.Type == "shares" && strings.Contains(ex.Panic+d.Err, "index out of range") {
				k = keyD1
			}
			r.violate(c, k, "the validator panicked instead of returning a verdict: "+ex.Panic+d.Err, res, "reject")
		case wf && res != "accept":
			r.violate(c, "C04:"+c.Msg.Type+":false-reject", "a well-formed, valid message was not accepted ("+d.Err+")", res, "accept")
		case !wf && res == "accept":
			r.violate(c, "C04:"+c.Msg.Type+":false-accept", "accepted although: "+why, res, "reject")
		}
		// element-wise reference verdict with the real cryptography
		if ok, i := g.ElementsValid(mat, c.State, c.Msg); !ok && res == "accept" {
			r.violate(c, "C04:"+c.Msg.Type+":accepted-although-an-element-is-invalid",
				fmt.Sprintf("accepted although element %d is not the valid %s for its identity (real shcrypto verification of that element alone fails)", i, c.Msg.Type), res, "reject")
		}
		if (res == "accept") != (d.Verdict == "accept") && res != "panic" && d.Verdict != "panic" {
			r.violate(c, "C04:combined-differs-from-only-validator", "the combined validator and the topic's only validator disagree", res, d.Verdict)
		}
	}
	if dump1 != dump0 {
		r.violate(c, keyStored, "the database changed during validation", nil, nil)
	}
	if res != "accept" {
		// rejected: libp2p drops the message, no handler runs, nothing is stored, nothing is sent
		return
	}
	// accepted: the handlers run
	rec := &g.OrderRecorder{RNG: vh.NewRNG(uint64(id) * 77)}
	w.Srv.SetRowOrder(rec.Order)
	keys0 := r.keyRows()
	h := n.Handle(pm)
	w.Srv.SetRowOrder(nil)
	if h.Exec.Crashed() {
		r.violate(c, "C04:"+c.Msg.Type+":handler-panics-on-accepted-message", "Handle panicked on an accepted message: "+h.Exec.Panic, nil, nil)
	}
	id3 := run.NextID()
	if c.Msg.Type == "shares" {
		step := vh.CApp("mkHStep", strings.TrimPrefix(strings.TrimSuffix(c.Msg.Coq(mat), ")"), "(MShares "), w.PermsFor(c.Msg.Eon, c.Msg.Ids(), rec), r.houtOf(h), r.shareRows(), r.keyRows())
		run.AddCase(id3, vh.CApp("CHist", vh.CN(id3), c.State.CoqCore(mat), keys0, vh.CList([]string{step})), c, c.key()+"/handle", len(h.Out) > 0)
		for _, o := range h.Out {
			if km, ok := o.(*p2pmsg.DecryptionKeys); ok {
				for _, k := range km.Keys {
					if !strings.HasPrefix(mat.ClassifyKey(k.IdentityPreimage, k.Key), "(LKey 0") && !c.Outside {
						r.violate(c, "C04:handler-emits-wrong-key", "the key share handler sent a key that is not the epoch key", nil, nil)
					}
				}
			}
		}
	} else {
		run.AddCase(id3, vh.CApp("CHandle", vh.CN(id3), "NCore", stCoq, "[]", c.Msg.Coq(mat), g.CoqHres(h.Exec)), c, c.key()+"/handle", true)
		if len(h.Out) != 0 {
			r.violate(c, "C04:keys-handler-sends", "the keys handler returned messages", len(h.Out), 0)
		}
		// every key of the accepted message is stored afterwards (first writer wins)
		rows := w.Srv.Store().Table("decryption_key").Rows()
		for _, it := range c.Msg.Items {
			found := false
			for _, row := range rows {
				if row["eon"].(int64) == int64(c.Msg.Eon) && hex.EncodeToString(row["epoch_id"].([]byte)) == it.Ident {
					found = true
				}
			}
			if !found {
				r.violate(c, "C04:accepted-key-not-stored", "a key of an accepted message is not in the database", it.Ident, nil)
			}
		}
	}
}

// runFlavour: a message on a Gnosis or service node; all validators of the topic directly and
// the combined validator.
func (r *runner) runFlavour(c *caseJ) {
	run, w, mat := r.run, r.w, r.mat
	mat.CanonMsg(c.Msg)
	c.Msg.Fill()
	w.Install(c.State)
	n := w.Node(c.Flavour, c.State)
	pm := c.Msg.Build(mat)
	stCoq := c.State.Coq(mat)
	dump0 := w.Dump()
	allAccept, anyPanic, flavourAccept := true, false, true
	for _, vs := range which(c.Flavour, c.Msg) {
		d := n.ValidateDirect(vs, pm)
		id := run.NextID()
		run.AddCase(id, vh.CApp("CDirect", vh.CN(id), vs, stCoq, c.Msg.Coq(mat), d.Coq(), vh.CNat(d.Exec.Stmts)), c, c.key()+"/"+vs, d.Verdict == "accept")
		if d.Verdict != "accept" {
			allAccept = false
			if !strings.HasPrefix(vs, "VsCore") {
				flavourAccept = false
			}
		}
		if d.Verdict == "panic" || d.Verdict == "timeout" {
			anyPanic = true
		}
		run.Dist[c.Flavour+":"+vs+":"+d.Verdict]++
	}
	topic := c.Env.RegTopic
	if topic == "" {
		topic = topicOf(c.Msg)
	}
	msgTopic := c.Env.MsgTopic
	if msgTopic == "" {
		msgTopic = topic
	}
	data := encode(mat, c.Msg, c.Env)
	res, ex := n.Combined(topic, msgTopic, data)
	wire, _ := mat.DecodeWire(data)
	id2 := run.NextID()
	run.AddCase(id2, vh.CApp("CCombined", vh.CN(id2), g.CoqNode(c.Flavour), stCoq, g.CoqTopic(topic), g.CoqTopic(msgTopic), wire, g.CoqVres(res)), c, c.key()+"/combined", res == "accept")
	run.Dist[c.Flavour+":combined:"+res]++
	// is the envelope / topic other than what a genuine sender produces?
	envMutated := msgTopic != topic || topic != topicOf(c.Msg) || c.Env.Payload != "" ||
		(c.Env.Version != "" && c.Env.Version != p2pmsg.EnvelopeVersion)
	if res == "panic" || res == "timeout" {
		r.violate(c, "C04:"+c.Flavour+":combined-validator-panics", "the combined validator panicked: "+ex.Panic, res, "reject")
	} else if envMutated {
		// (a topic without validators is not subscribed: the empty list accepts vacuously)
		if res == "accept" && n.M.VerifNumValidators(topic) > 0 {
			r.violate(c, "C04:"+c.Flavour+":envelope-mutation-accepted", "a message with a wrong topic / version / payload was accepted", res, "reject")
		}
	} else if !anyPanic && !c.Msg.NilInner() && c.Flavour == "access" {
		if res == "accept" {
			if ok, i := signaturesValid(mat, c.Flavour, c.State, c.Msg); !ok {
				r.violate(c, "C04:access:keys:accepted-although-a-signature-is-invalid",
					fmt.Sprintf("accepted although signature %d is not the named member's signature over the message's slot data", i), res, "reject")
			}
		}
		if (res == "accept") != allAccept {
			r.violate(c, "C04:access:combined-is-not-the-conjunction", "combined verdict is not 'all validators accept'", res, allAccept)
		}
	} else if !anyPanic && !c.Msg.NilInner() {
		if res == "accept" {
			if ok, i := signaturesValid(mat, c.Flavour, c.State, c.Msg); !ok {
				r.violate(c, "C04:"+c.Flavour+":keys:accepted-although-a-signature-is-invalid",
					fmt.Sprintf("accepted although signature %d is not the named member's signature over the message's slot data", i), res, "reject")
			}
			// the core validator is part of every keyper's chain: what it must refuse is refused here too
			if wf, why := g.WfCore(mat, c.State, c.Msg); !wf {
				r.violate(c, "C04:"+c.Flavour+":"+c.Msg.Type+":false-accept", "accepted although: "+why, res, "reject")
			}
			if ok, i := g.ElementsValid(mat, c.State, c.Msg); !ok {
				r.violate(c, "C04:"+c.Flavour+":"+c.Msg.Type+":accepted-although-an-element-is-invalid",
					fmt.Sprintf("accepted although element %d is not the valid %s for its identity (real shcrypto verification of that element alone fails)", i, c.Msg.Type), res, "reject")
			}
		}
		if res != "accept" && flavourAccept {
			// the flavour's own validator has no objection: the core rule decides
			if wf, _ := g.WfCore(mat, c.State, c.Msg); wf {
				r.violate(c, "C04:"+c.Flavour+":"+c.Msg.Type+":false-reject", "a well-formed, valid message was not accepted", res, "accept")
			}
		}
		// reject dominates: accepted iff every validator of the topic accepts
		if (res == "accept") != allAccept {
			r.violate(c, "C04:"+c.Flavour+":combined-is-not-the-conjunction", "combined verdict is not 'all validators accept'", res, allAccept)
		}
	}
	if w.Dump() != dump0 {
		r.violate(c, keyStored, "the database changed during validation", nil, nil)
	}
}

// runHist: a history of key share messages handled by the real handler (no validation gate:
// the handler re-verifies what it reads from the table).
func (r *runner) runHist(c *caseJ) {
	run, w, mat := r.run, r.w, r.mat
	w.Install(c.State)
	n := w.Node("core", c.State)
	keys0 := r.keyRows()
	var steps []string
	emitted := 0
	for _, s := range c.Steps {
		rec := &g.OrderRecorder{RNG: vh.NewRNG(s.OrderSeed)}
		existed := r.allKeysExist(s.Msg)
		w.Srv.SetRowOrder(rec.Order)
		h := n.Handle(s.Msg.Build(mat))
		w.Srv.SetRowOrder(nil)
		out := r.houtOf(h)
		if strings.HasPrefix(out, "(HKeys") {
			emitted++
		}
		steps = append(steps, vh.CApp("mkHStep", strings.TrimPrefix(strings.TrimSuffix(s.Msg.Coq(mat), ")"), "(MShares "), w.PermsFor(s.Msg.Eon, s.Msg.Ids(), rec), out, r.shareRows(), r.keyRows()))
		if h.Exec.Crashed() && !c.Outside {
			r.violate(c, "C01:handler-panics", "DecryptionKeyShareHandler.HandleMessage panicked: "+h.Exec.Panic, nil, nil)
		}
		// C01 oracle: a key is sent iff every identity of the message has valid shares of t
		// distinct keypers in the table (or nothing is sent because all keys already exist);
		// every key sent or stored is the epoch key
		if !c.Outside {
			r.histOracle(c, s.Msg, h, existed)
		}
	}
	id := run.NextID()
	run.Dist[fmt.Sprintf("hist:keys-messages=%d", min(emitted, 3))]++
	run.AddCase(id, vh.CApp("CHist", vh.CN(id), c.State.CoqCore(mat), keys0, vh.CList(steps)), c, c.key(), emitted > 0)
}

func (r *runner) histOracle(c *caseJ, m *g.Msg, h g.HandleResult, allExistBefore bool) {
	mat := r.mat
	st := c.State
	keyRows := r.w.Srv.Store().Table("decryption_key").Rows()
	for _, row := range keyRows {
		idb := row["epoch_id"].([]byte)
		if !strings.HasPrefix(mat.ClassifyKey(idb, row["decryption_key"].([]byte)), "(LKey") && !storedBefore(st, row) {
			r.violate(c, "C01:handler-stores-wrong-key", "a stored decryption key is not the epoch key of its identity", hex.EncodeToString(idb), nil)
		}
	}
	sent := len(h.Out) > 0
	_, dkg, _ := st.NamedSet(m.Eon)
	if allExistBefore || dkg == nil || h.Err != "" || len(m.Items) == 0 {
		if sent {
			r.violate(c, "C01:handler-sends-without-cause", "a keys message was sent although all keys existed / the key generation has no usable result / the handler failed", nil, nil)
		}
		return
	}
	shareRows := r.w.Srv.Store().Table("decryption_key_share").Rows()
	enough := true
	for _, it := range m.Items {
		valid := map[int64]bool{}
		for _, row := range shareRows {
			if row["eon"].(int64) != int64(m.Eon) || hex.EncodeToString(row["epoch_id"].([]byte)) != it.Ident {
				continue
			}
			k := row["keyper_index"].(int64)
			if k >= 0 && k < int64(dkg.NShares) && string(row["decryption_key_share"].([]byte)) == string(mat.Bytes(share(dkg.Set, int(k), it.Ident))) {
				valid[k] = true
			}
		}
		if len(valid) < dkg.T {
			enough = false
		}
	}
	if sent && !enough {
		r.violate(c, "C01:handler-key-from-fewer-than-t", "a keys message was sent although some identity has fewer than t valid shares stored", nil, nil)
	}
	if !sent && enough {
		r.violate(c, "C01:handler-no-key-at-threshold", "every identity has t valid shares stored but no keys message was sent", nil, nil)
	}
	if sent {
		km := h.Out[0].(*p2pmsg.DecryptionKeys)
		if len(km.Keys) != len(m.Items) {
			r.violate(c, "C01:handler-keys-do-not-match-message", "the keys message does not carry one key per identity of the share message", len(km.Keys), len(m.Items))
		}
		for i, k := range km.Keys {
			want := vh.CApp("LKey", vh.CN(uint64(dkg.Set)), vh.CBytes(k.IdentityPreimage))
			if i < len(m.Items) && hex.EncodeToString(k.IdentityPreimage) != m.Items[i].Ident {
				r.violate(c, "C01:handler-keys-do-not-match-message", "identity order of the keys message differs", nil, nil)
			}
			if mat.ClassifyKey(k.IdentityPreimage, k.Key) != want {
				r.violate(c, "C01:handler-emits-wrong-key", "the derived key is not the epoch secret key of the identity", hex.EncodeToString(k.IdentityPreimage), nil)
			}
		}
	}
}

func storedBefore(st *g.State, row pgfake.Row) bool {
	for _, k := range st.Keys {
		if k.Eon == row["eon"].(int64) && k.Ident == hex.EncodeToString(row["epoch_id"].([]byte)) {
			return true
		}
	}
	return false
}

func (r *runner) allKeysExist(m *g.Msg) bool {
	rows := r.w.Srv.Store().Table("decryption_key").Rows()
	for _, it := range m.Items {
		found := false
		for _, row := range rows {
			if row["eon"].(int64) == int64(m.Eon) && hex.EncodeToString(row["epoch_id"].([]byte)) == it.Ident {
				found = true
			}
		}
		if !found {
			return false
		}
	}
	return true
}

func sortedKeys(m map[string]int) []string {
	out := make([]string, 0, len(m))
	for k := range m {
		out = append(out, k)
	}
	sort.Strings(out)
	return out
}

// ---------------------------------------------------------------------------------------------
// generation

func (r *runner) forced(emit func(*caseJ)) {
	muts := mutations()
	sts := states()
	// every single-field mutation against the base state, both message types
	for _, base := range []func() *g.Msg{baseShares, baseKeys} {
		for _, mu := range muts {
			m := base()
			mu.f(m)
			emit(&caseJ{Kind: "core", Flavour: "core", State: sts[0], Msg: m, Origin: "forced:base-state:" + mu.name})
		}
		// the valid message and the mutations that interact with the state, against every state
		for _, st := range sts[1:] {
			for _, name := range []string{"none", "eon=3", "kidx=2", "kidx=2+own-shares", "kidx=3", "value[0]=junk", "value[0]=stored-junk",
				"value[0]=other-eon-key", "value[1]=other-eon-key", "count=1", "count=max", "count=max+1", "count=0", "order-swapped"} {
				for _, mu := range muts {
					if mu.name == name {
						m := base()
						mu.f(m)
						emit(&caseJ{Kind: "core", Flavour: "core", State: st, Msg: m, Origin: "forced:" + st.Name + ":" + mu.name})
					}
				}
			}
		}
		// a message made entirely with the other eon key, against the restarted key generation
		m := base()
		for i := range m.Items {
			m.Items[i].Val.Set = 1
		}
		for _, st := range sts {
			if st.Name == "restarted-other-key" || st.Name == "base" {
				emit(&caseJ{Kind: "core", Flavour: "core", State: st, Msg: m.Clone(), Origin: "forced:" + st.Name + ":all-values-other-eon-key"})
			}
		}
		for _, st := range outsideStates() {
			for _, e := range []uint64{1, 1<<32 + 1} {
				m := base()
				m.Eon = e
				emit(&caseJ{Kind: "core", Flavour: "core", State: st, Msg: m, Outside: true, Origin: "outside:" + st.Name})
			}
		}
	}
	// envelope mutations on a core node
	for _, base := range []func() *g.Msg{baseShares, baseKeys} {
		for _, e := range []envSpec{
			{MsgTopic: "decryptionTrigger"}, {MsgTopic: "someOtherTopic"}, {Version: "0.0.2"}, {Version: ""}, {Version: "0.0.1 "},
			{Payload: "garbage"}, {Payload: "nomessage"}, {Payload: "foreign"}, {Payload: "unknowntype"},
			{RegTopic: "decryptionKeys"}, {RegTopic: "decryptionKeyShares"}, {RegTopic: "EonPublicKey"}, {RegTopic: "primevCommitment"},
		} {
			if e.Version == "" && e.Payload == "" && e.MsgTopic == "" && e.RegTopic == "" {
				e.Version = "0"
			}
			emit(&caseJ{Kind: "env", Flavour: "core", State: sts[0], Msg: base(), Env: e, Origin: "forced:envelope"})
		}
	}
	r.forcedNear(emit)
	r.forcedFlavour(emit)
	r.forcedSignerSets(emit)
	r.forcedHist(emit)
	r.forcedProducer(emit)
}

// flavourMsg builds a message that every validator of a Gnosis / service node accepts in the
// base state: the right Extra with genuine signatures.
func flavourMsg(fl, typ string) *g.Msg {
	ida, idb := idA, idB
	if fl == "gnosis" {
		ida, idb = wide(idA), wide(idB)
	}
	var m *g.Msg
	if typ == "shares" {
		m = &g.Msg{Type: "shares", Inst: inst, Eon: 1, Kidx: 1,
			Items: []g.Item{{Ident: ida, Val: share(0, 1, ida)}, {Ident: idb, Val: share(0, 1, idb)}}}
		m.Extra = g.Extra{Kind: fl, Slot: 10, Txp: 4, Sig: &g.Sig{Kind: "by", Key: 1}}
	} else {
		m = &g.Msg{Type: "keys", Inst: inst, Eon: 1,
			Items: []g.Item{{Ident: ida, Val: key(0, ida)}, {Ident: idb, Val: key(0, idb)}}}
		m.Extra = g.Extra{Kind: fl, Slot: 10, Txp: 4, Signers: []uint64{0, 2}, Sigs: []g.Sig{{Kind: "by", Key: 0}, {Kind: "by", Key: 2}}}
	}
	if fl == "service" {
		m.Extra.Slot, m.Extra.Txp = 0, 0
	}
	return m
}

func flavourMutations(fl string) []mutation {
	var ms []mutation
	add := func(name string, f func(m *g.Msg)) { ms = append(ms, mutation{name, f}) }
	add("none", func(m *g.Msg) {})
	aggregate(func(name string, f func(m *g.Msg)) { add(name+"-resigned", f) }, idC)
	// the core validator's concern only
	add("value[0]=junk", func(m *g.Msg) { m.Items[0].Val = g.Val{Kind: "junk", Ident: m.Items[0].Ident, Tag: 1} })
	add("value[1]=other-eon-key", func(m *g.Msg) {
		if m.Items[1].Val.Kind != "junk" {
			m.Items[1].Val.Set = 1
		}
	})
	add("count=max+1-resigned", func(m *g.Msg) {
		for _, id := range []string{idC, idD} {
			if fl == "gnosis" {
				id = wide(id)
			}
			m.Items = append(m.Items, g.Item{Ident: id, Val: goodVal(m, id)})
		}
	})
	// the flavour validator's concern only
	add("signature=stray", func(m *g.Msg) {
		if m.Type == "shares" {
			m.Extra.Sig = &g.Sig{Kind: "stray"}
		} else if len(m.Extra.Sigs) > 1 {
			m.Extra.Sigs[1] = g.Sig{Kind: "stray"}
		}
	})
	add("signature=short", func(m *g.Msg) {
		if m.Type == "shares" {
			m.Extra.Sig = &g.Sig{Kind: "short64"}
		} else if len(m.Extra.Sigs) > 0 {
			m.Extra.Sigs[0] = g.Sig{Kind: "short64"}
		}
	})
	add("signature-of-other-keyper", func(m *g.Msg) {
		if m.Type == "shares" {
			m.Extra.Sig = &g.Sig{Kind: "by", Key: 2}
		} else if len(m.Extra.Sigs) > 0 {
			m.Extra.Sigs[0] = g.Sig{Kind: "by", Key: 1}
		}
	})
	add("extra=none", func(m *g.Msg) { m.Extra = g.Extra{Kind: "none"} })
	add("extra=other-flavour", func(m *g.Msg) {
		if fl == "gnosis" {
			m.Extra.Kind = "service"
		} else {
			m.Extra.Kind = "gnosis"
		}
	})
	add("extra=optimism", func(m *g.Msg) { m.Extra = g.Extra{Kind: "optimism"} })
	add("extra=nil-inner", func(m *g.Msg) { m.Extra = g.Extra{Kind: fl + "nil"} })
	add("signers-fewer", func(m *g.Msg) {
		if m.Type == "keys" && len(m.Extra.Signers) > 0 && len(m.Extra.Sigs) > 0 {
			m.Extra.Signers, m.Extra.Sigs = m.Extra.Signers[:1], m.Extra.Sigs[:1]
		}
	})
	add("signatures-fewer", func(m *g.Msg) {
		if m.Type == "keys" && len(m.Extra.Sigs) > 0 {
			m.Extra.Sigs = m.Extra.Sigs[:1]
		}
	})
	add("signatures-more", func(m *g.Msg) {
		if m.Type == "keys" {
			m.Extra.Sigs = append(m.Extra.Sigs, g.Sig{Kind: "by", Key: 1})
		}
	})
	add("no-signers-no-signatures", func(m *g.Msg) {
		if m.Type == "keys" {
			m.Extra.Signers, m.Extra.Sigs = nil, nil
		}
	})
	add("signers-unordered", func(m *g.Msg) {
		if m.Type == "keys" {
			m.Extra.Signers = []uint64{2, 0}
			m.Extra.Sigs = []g.Sig{{Kind: "by", Key: 2}, {Kind: "by", Key: 0}}
		}
	})
	add("signer-out-of-range", func(m *g.Msg) {
		if m.Type == "keys" {
			m.Extra.Signers = []uint64{0, 3}
		}
	})
	// both
	add("instance+1", func(m *g.Msg) { m.Inst++ })
	add("instance+1-resigned", func(m *g.Msg) { m.Inst++ })
	add("identity-repeated-resigned", func(m *g.Msg) {
		if len(m.Items) > 1 {
			m.Items[1] = m.Items[0]
		}
	})
	add("equal-neighbour[1]=junk-resigned", func(m *g.Msg) {
		if len(m.Items) > 1 {
			m.Items[1].Ident = m.Items[0].Ident
			m.Items[1].Val = g.Val{Kind: "junk", Ident: m.Items[1].Ident, Tag: 1}
		}
	})
	add("equal-neighbour[1]=other-eon-key-resigned", func(m *g.Msg) {
		if len(m.Items) > 1 {
			m.Items[1].Ident = m.Items[0].Ident
			m.Items[1].Val = goodVal(m, m.Items[1].Ident)
			m.Items[1].Val.Set = 1
		}
	})
	add("eon=2", func(m *g.Msg) { m.Eon = 2 })
	add("eon=2^63", func(m *g.Msg) { m.Eon = 1 << 63 })
	add("kidx=3", func(m *g.Msg) { m.Kidx = 3 })
	add("kidx=0", func(m *g.Msg) { m.Kidx = 0 })
	add("slot=2^63", func(m *g.Msg) { m.Extra.Slot = 1 << 63 })
	add("txp=2^31", func(m *g.Msg) { m.Extra.Txp = 1 << 31 })
	add("txp=2^63", func(m *g.Msg) { m.Extra.Txp = 1 << 63 })
	add("identity-narrow", func(m *g.Msg) {
		m.Items[0].Ident = "a0"
		m.Items[0].Val = goodVal(m, "a0")
	})
	return ms
}

func (r *runner) forcedFlavour(emit func(*caseJ)) {
	sts := states()
	for _, fl := range []string{"gnosis", "service"} {
		for _, typ := range []string{"shares", "keys"} {
			for _, mu := range flavourMutations(fl) {
				m := flavourMsg(fl, typ)
				resign := strings.HasSuffix(mu.name, "-resigned")
				if !resign {
					m.Fill() // signatures are over the unmutated message
				}
				mu.f(m)
				emit(&caseJ{Kind: "flavour", Flavour: fl, State: sts[0], Msg: m, Origin: "forced:" + fl + ":" + mu.name})
			}
			// receiver states: the observer's keyper set differs from the core tables
			for _, f := range []func(s *g.State){
				func(s *g.State) { s.Name = "no-keyper-set"; s.KSets = nil },
				func(s *g.State) { s.Name = "keyper-set-of-two"; s.KSets = []g.KSetRow{{Kci: 1, Keypers: []int{0, 1}, Threshold: 2}} },
				func(s *g.State) { s.Name = "keyper-set-bad-address"; s.KSets = []g.KSetRow{{Kci: 1, Keypers: []int{0, -1, 2}, Threshold: 2}} },
				func(s *g.State) { s.Name = "keyper-set-threshold-3"; s.KSets = []g.KSetRow{{Kci: 1, Keypers: []int{0, 1, 2}, Threshold: 3}} },
				func(s *g.State) { s.Name = "not-a-keyper"; s.Self = 5 },
				func(s *g.State) { s.Name = "failed-dkg"; s.Dkg = []g.DkgRow{{Eon: 5, Kind: "failed"}} },
			} {
				st := baseState()
				f(st)
				emit(&caseJ{Kind: "flavour", Flavour: fl, State: st, Msg: flavourMsg(fl, typ), Origin: "forced:" + fl + ":state:" + st.Name})
			}
			for _, e := range []envSpec{{MsgTopic: "decryptionTrigger"}, {Version: "0.0.2"}, {Payload: "foreign"}, {RegTopic: "EonPublicKey"}} {
				emit(&caseJ{Kind: "flavour", Flavour: fl, State: sts[0], Msg: flavourMsg(fl, typ), Env: e, Origin: "forced:" + fl + ":envelope"})
			}
		}
	}
}

// forcedSignerSets: Gnosis keys messages for keyper sets of five with threshold 3 and 4, as a
// Gnosis keyper and as the access node see them: the genuine message, and one signature
// replaced at EVERY position - by an outsider's, by another member's, by the right member's over
// other slot data, by bytes that are no signature.
func (r *runner) forcedSignerSets(emit func(*caseJ)) {
	members := []int{0, 1, 2, 3, 4}
	for _, fl := range []string{"gnosis", "access"} {
		for _, th := range []int{3, 4} {
			for _, signers := range map[int][][]uint64{3: {{0, 1, 2}, {0, 2, 4}}, 4: {{0, 1, 2, 3}, {0, 1, 3, 4}}}[th] {
				st := baseState()
				st.Name = fmt.Sprintf("signer-set-of-5-threshold-%d", th)
				st.KSets = []g.KSetRow{{Kci: 1, Keypers: members, Threshold: int32(th)}}
				if fl == "access" {
					st.Name = "access:" + st.Name
					st.AnKeys = []g.AnKey{{Eon: 1, Set: 0}}
					st.AnKSets = []g.AnKSet{{Eon: 1, Keypers: members, Threshold: int32(th)}}
				}
				build := func() *g.Msg {
					m := flavourMsg("gnosis", "keys")
					m.Extra.Signers = append([]uint64(nil), signers...)
					m.Extra.Sigs = nil
					for _, si := range signers {
						m.Extra.Sigs = append(m.Extra.Sigs, g.Sig{Kind: "by", Key: members[si]})
					}
					m.Fill()
					return m
				}
				tag := fmt.Sprintf("forced:%s:signer-set:t=%d:signers=%v", fl, th, signers)
				emit(&caseJ{Kind: "flavour", Flavour: fl, State: st, Msg: build(), Origin: tag + ":genuine"})
				for p := range signers {
					own := build().OwnTuple()
					otherSlot := *own
					otherSlot.Slot++
					otherTxp := *own
					otherTxp.Txp++
					for _, rep := range []struct {
						name string
						sig  g.Sig
					}{
						{"outsider", g.Sig{Kind: "by", Key: 6, T: own}},
						{"other-member", g.Sig{Kind: "by", Key: members[signers[(p+1)%len(signers)]], T: own}},
						{"non-signing-member", g.Sig{Kind: "by", Key: members[(int(signers[p])+1)%len(members)], T: own}},
						{"other-slot", g.Sig{Kind: "by", Key: members[signers[p]], T: &otherSlot}},
						{"other-tx-pointer", g.Sig{Kind: "by", Key: members[signers[p]], T: &otherTxp}},
						{"stray", g.Sig{Kind: "stray"}},
						{"short", g.Sig{Kind: "short64"}},
						{"bad-v", g.Sig{Kind: "badv"}},
					} {
						m := build()
						m.Extra.Sigs[p] = rep.sig
						emit(&caseJ{Kind: "flavour", Flavour: fl, State: st, Msg: m, Origin: fmt.Sprintf("%s:signature[%d]=%s", tag, p, rep.name)})
					}
				}
			}
		}
	}
}

// nearFamilies: groups of identities that are near each other - same length, same first and
// last bytes, different middle; one byte apart; a leading zero byte more; short ones. Anything
// keyed by an abbreviation or a truncation of the identity confuses the members of a group.
// Each group is listed in ascending byte order.
func nearFamilies(tag string) [][]string {
	mid := func(a, b, c string) string { return tag + a + strings.Repeat(b, 27) + c + "1112" }
	return [][]string{
		{mid("c6", "00", "00"), mid("c6", "00", "01"), mid("c6", "ff", "ff")},
		{"00" + mid("c7", "33", "33"), mid("c7", "33", "33"), mid("c7", "33", "33") + "00"},
		{tag + "b200c3d4", tag + "b201c3d4", tag + "b2ffc3d4"},
		{tag + "b2c3", tag + "b2c3d4", tag + "b2c3d400"},
		{tag, tag + "00", tag + "0000"},
	}
}

// forcedNear: valid messages for near identities validated one after the other on the same
// handler instance (and in the same process: caches outlive a case), ascending for one set of
// families and descending for another; then one message naming several of them.
func (r *runner) forcedNear(emit func(*caseJ)) {
	st := states()[0]
	mk := func(typ string, ids ...string) *g.Msg {
		m := baseShares()
		if typ == "keys" {
			m = baseKeys()
		}
		m.Items = nil
		for _, id := range ids {
			m.Items = append(m.Items, g.Item{Ident: id, Val: goodVal(m, id)})
		}
		return m
	}
	for _, typ := range []string{"shares", "keys"} {
		for dir, tag := range []string{"d1", "e2"} {
			for fi, fam := range nearFamilies(tag) {
				order := append([]string(nil), fam...)
				if dir == 1 {
					for i, j := 0, len(order)-1; i < j; i, j = i+1, j-1 {
						order[i], order[j] = order[j], order[i]
					}
				}
				for _, id := range order {
					emit(&caseJ{Kind: "core", Flavour: "core", State: st, Msg: mk(typ, id), Origin: fmt.Sprintf("forced:near:%s:family-%d:single", []string{"ascending", "descending"}[dir], fi)})
				}
				emit(&caseJ{Kind: "core", Flavour: "core", State: st, Msg: mk(typ, fam...), Origin: fmt.Sprintf("forced:near:family-%d:together", fi)})
			}
		}
	}
	// identities of different lengths, sorted bytewise as the honest producers sort them; the
	// numeric order of the big-endian values is another one (0100 < ff bytewise, 256 > 255)
	for _, typ := range []string{"shares", "keys"} {
		for _, ids := range [][]string{{"0100", "ff"}, {"010000", "ffff"}, {"0100", "02"}, {"00ff", "ff"}, {"0100", "02", "ff"}, {"00ff", "010000", "ffff"},
			{"01", "0100"}, {"05", "06"}, {"", "00", "0000"}} {
			emit(&caseJ{Kind: "core", Flavour: "core", State: st, Msg: mk(typ, ids...), Origin: "forced:mixed-length-identities"})
		}
	}
	// Gnosis / service nodes: the first family (Gnosis identities are 52 bytes: 32 + 20 of the sender)
	for _, fl := range []string{"gnosis", "service"} {
		for _, typ := range []string{"shares", "keys"} {
			fam := nearFamilies("f3")[0]
			if fl == "gnosis" {
				for i := range fam {
					fam[i] = wide(fam[i])
				}
			}
			for _, ids := range [][]string{{fam[0]}, {fam[1]}, {fam[2]}, fam} {
				m := flavourMsg(fl, typ)
				m.Items = nil
				for _, id := range ids {
					m.Items = append(m.Items, g.Item{Ident: id, Val: goodVal(m, id)})
				}
				emit(&caseJ{Kind: "flavour", Flavour: fl, State: st, Msg: m, Origin: "forced:near:" + fl})
			}
		}
	}
}

func sharesFrom(kidx int, ids ...string) *g.Msg {
	m := &g.Msg{Type: "shares", Inst: inst, Eon: 1, Kidx: uint64(kidx), Extra: g.Extra{Kind: "none"}}
	for _, id := range ids {
		m.Items = append(m.Items, g.Item{Ident: id, Val: share(0, kidx%3, id)})
	}
	return m
}

func (r *runner) forcedHist(emit func(*caseJ)) {
	base := baseState()
	hist := func(origin string, st *g.State, ms ...*g.Msg) {
		c := &caseJ{Kind: "hist", Flavour: "core", State: st, Origin: origin}
		for i, m := range ms {
			c.Steps = append(c.Steps, histStep{Msg: m, OrderSeed: uint64(1000 + i)})
		}
		emit(c)
	}
	hist("forced:hist:threshold-in-order", base, sharesFrom(0, idA), sharesFrom(1, idA), sharesFrom(2, idA))
	hist("forced:hist:two-identities", base, sharesFrom(0, idA, idB), sharesFrom(2, idA), sharesFrom(2, idB), sharesFrom(1, idA, idB))
	hist("forced:hist:repeat", base, sharesFrom(1, idA), sharesFrom(1, idA), sharesFrom(0, idA), sharesFrom(0, idA))
	junk := sharesFrom(1, idA)
	junk.Items[0].Val = g.Val{Kind: "junk", Ident: idA, Tag: 2}
	hist("forced:hist:junk-first-blocks-sender", base, junk, sharesFrom(1, idA), sharesFrom(0, idA), sharesFrom(2, idA))
	other := sharesFrom(1, idA)
	other.Items[0].Val = share(1, 1, idA)
	hist("forced:hist:other-eon-share", base, other, sharesFrom(0, idA), sharesFrom(2, idA))
	stored := baseState()
	stored.Name = "shares-stored"
	stored.Shares = []g.ShareRow{{Eon: 1, Ident: idA, Kidx: 2, Val: share(0, 2, idA)}, {Eon: 1, Ident: idA, Kidx: 0, Val: g.Val{Kind: "junk", Ident: idA, Tag: 5}}}
	hist("forced:hist:rows-before", stored, sharesFrom(1, idA))
	keyed := baseState()
	keyed.Name = "key-stored-same"
	keyed.Keys = []g.KeyRow{{Eon: 1, Ident: idA, Val: key(0, idA)}}
	hist("forced:hist:key-exists", keyed, sharesFrom(0, idA), sharesFrom(1, idA), sharesFrom(1, idA, idB), sharesFrom(0, idA, idB))
	for _, name := range []string{"failed-dkg", "garbled-dkg", "no-dkg-result"} {
		for _, st := range states() {
			if st.Name == name {
				hist("forced:hist:"+name, st, sharesFrom(0, idA), sharesFrom(1, idA))
			}
		}
	}
	big := sharesFrom(0, idA)
	big.Eon = 1 << 63
	hist("forced:hist:eon-overflow", base, big)
	// a stored row with a keyper index outside the DKG result: outside C01's quantifier
	bad := baseState()
	bad.Name = "row-with-index-3"
	bad.Shares = []g.ShareRow{{Eon: 1, Ident: idA, Kidx: 3, Val: share(0, 0, idA)}}
	c := &caseJ{Kind: "hist", Flavour: "core", State: bad, Outside: true, Origin: "outside:hist:row-index-out-of-range",
		Steps: []histStep{{Msg: sharesFrom(1, idA), OrderSeed: 5}}}
	emit(c)
}

func (r *runner) random(rng *vh.RNG, emit func(*caseJ)) {
	muts := mutations()
	sts := states()
	// pairs (and triples) of mutations against random states
	base := baseShares
	if rng.Bool() {
		base = baseKeys
	}
	m := base()
	var names []string
	k := 1 + rng.Intn(3)
	for i := 0; i < k; i++ {
		mu := muts[rng.Intn(len(muts))]
		mu.f(m)
		names = append(names, mu.name)
	}
	st := sts[0]
	if rng.Chance(2, 3) {
		st = sts[rng.Intn(len(sts))]
	}
	emit(&caseJ{Kind: "core", Flavour: "core", State: st, Msg: m, Origin: "random:" + strings.Join(names, "+")})
}

func (r *runner) randomFlavour(rng *vh.RNG, emit func(*caseJ)) {
	fl := vh.Pick(rng, "gnosis", "service")
	typ := vh.Pick(rng, "shares", "keys")
	muts := flavourMutations(fl)
	m := flavourMsg(fl, typ)
	m.Fill()
	var names []string
	for i := 0; i < 2; i++ {
		mu := muts[rng.Intn(len(muts))]
		mu.f(m)
		names = append(names, mu.name)
	}
	emit(&caseJ{Kind: "flavour", Flavour: fl, State: states()[0], Msg: m, Origin: "random:" + fl + ":" + strings.Join(names, "+")})
}

func (r *runner) randomHist(rng *vh.RNG, emit func(*caseJ)) {
	c := &caseJ{Kind: "hist", Flavour: "core", State: baseState(), Origin: "random:hist"}
	ids := []string{idA, idB, idC}[:1+rng.Intn(3)]
	n := 3 + rng.Intn(6)
	for i := 0; i < n; i++ {
		kidx := rng.Intn(3)
		var sel []string
		for _, id := range ids {
			if rng.Chance(2, 3) {
				sel = append(sel, id)
			}
		}
		if len(sel) == 0 {
			sel = ids[:1]
		}
		m := sharesFrom(kidx, sel...)
		if rng.Chance(1, 5) {
			j := rng.Intn(len(m.Items))
			switch rng.Intn(4) {
			case 0:
				m.Items[j].Val = g.Val{Kind: "junk", Ident: m.Items[j].Ident, Tag: rng.Intn(4)}
			case 1:
				m.Items[j].Val = share(1, kidx, m.Items[j].Ident)
			case 2:
				m.Items[j].Val = share(0, (kidx+1)%3, m.Items[j].Ident)
			case 3:
				m.Items[j].Val = g.Val{Kind: "empty"}
			}
		}
		c.Steps = append(c.Steps, histStep{Msg: m, OrderSeed: rng.U64()})
	}
	emit(c)
}

func main() {
	run := vh.Start("Verif.Corr.C04", 150)
	defer run.Finish()
	run.SetPreamble("From Verif Require Import Model.EpochKG Model.EpochKGLabels Model.EpochKGHandler.\nOpen Scope N_scope.")
	run.Rule = "core stream: (receiver state, message) pairs on a core keyper - every single-field mutation of a valid key-shares / keys message against the base state, the state-sensitive ones against 17 receiver states, then random pairs/triples of mutations x random states; non-trivial = the validator accepted (the decision is exercised both ways: see the distribution of rejection classes); flavour stream: Gnosis / service nodes with two validators per topic; hist stream: histories of key share messages through the real handler with permuted row order, non-trivial = at least one keys message was produced; distinct by canonical case rendering"
	mat := g.NewMaterial(1, 3, 2)
	w := g.NewWorld(run, mat)
	defer w.Close()
	r := &runner{run: run, w: w, mat: mat}
	exec := func(c *caseJ) {
		switch c.Kind {
		case "core":
			r.runCore(c)
		case "flavour", "env":
			r.runFlavour(c)
		case "hist":
			r.runHist(c)
		case "producer":
			r.runProducer(c)
		default:
			panic("kind " + c.Kind)
		}
	}
	if run.Replay != "" {
		var c caseJ
		if err := run.LoadReplay(&c); err != nil {
			panic(err)
		}
		exec(&c)
		return
	}
	for _, f := range run.CorpusFiles() {
		var c caseJ
		run.Replay = f
		if err := run.LoadReplay(&c); err == nil && c.Kind != "" {
			c.Origin = "corpus:" + c.Origin
			exec(&c)
		}
		run.Replay = ""
	}
	r.forced(exec)
	for i, n := 0, run.Scale(700, 12000); i < n; i++ {
		r.random(run.RNG.Fork(), exec)
	}
	for i, n := 0, run.Scale(150, 2500); i < n; i++ {
		r.randomFlavour(run.RNG.Fork(), exec)
	}
	for i, n := 0, run.Scale(120, 2500); i < n; i++ {
		r.randomHist(run.RNG.Fork(), exec)
	}
}
