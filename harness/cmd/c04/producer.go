//go:build verif

package main

import (
	"context"
	"encoding/hex"
	"fmt"

	"github.com/ethereum/go-ethereum/crypto"

	"github.com/shutter-network/rolling-shutter/rolling-shutter/keyper/database"
	"github.com/shutter-network/rolling-shutter/rolling-shutter/keyper/epochkghandler"
	"github.com/shutter-network/rolling-shutter/rolling-shutter/keyperimpl/gnosis"
	"github.com/shutter-network/rolling-shutter/rolling-shutter/keyperimpl/shutterservice"
	"github.com/shutter-network/rolling-shutter/rolling-shutter/medley/configuration"
	"github.com/shutter-network/rolling-shutter/rolling-shutter/medley/encodeable/keys"
	"github.com/shutter-network/rolling-shutter/rolling-shutter/medley/identitypreimage"
	"github.com/shutter-network/rolling-shutter/rolling-shutter/medley/retry"
	"github.com/shutter-network/rolling-shutter/rolling-shutter/medley/service"
	"github.com/shutter-network/rolling-shutter/rolling-shutter/p2p"
	"github.com/shutter-network/rolling-shutter/rolling-shutter/p2pmsg"

	g "verifharness/gossipdrv"
	"verifharness/pgfake"
	"verifharness/vh"
)

// The producer stream: key-shares messages made by the REAL producers
// (epochkghandler.KeyShareHandler.ConstructDecryptionKeyShares with the sender's DKG result,
// then - Gnosis / service - the real messaging middleware's SendMessage, which signs and adds
// the Extra), delivered to a receiver node of the same flavour; the keys message the receiver's
// handlers return at the threshold is delivered to a third node.

type prodSpec struct {
	Idents   []string `json:"idents"`
	Senders  []int    `json:"senders"`
	Receiver int      `json:"receiver"`
	Third    int      `json:"third"`
}

// recMessaging records what a messaging middleware sends.
type recMessaging struct{ sent []p2pmsg.Message }

func (r *recMessaging) Start(context.Context, service.Runner) error { return nil }
func (r *recMessaging) SendMessage(_ context.Context, m p2pmsg.Message, _ ...retry.Option) error {
	r.sent = append(r.sent, m)
	return nil
}
func (r *recMessaging) AddValidator(p2p.ValidatorFunc, ...p2pmsg.Message) {}
func (r *recMessaging) AddMessageHandler(...p2p.MessageHandler)          {}

func stateFor(self int) *g.State {
	s := baseState()
	s.Name = fmt.Sprintf("keyper-%d", self)
	s.Self = self
	s.Dkg = []g.DkgRow{{Eon: 5, Kind: "ok", Set: 0, NShares: 3, T: 2, Keyper: self}}
	return s
}

const prodSlot, prodTxp = 12, 3

func (r *runner) installProd(fl string, self int, idents []string) *g.State {
	st := stateFor(self)
	r.w.Install(st)
	if fl == "gnosis" {
		var pre [][]byte
		for _, id := range idents {
			b, _ := hex.DecodeString(id)
			pre = append(pre, b)
		}
		if err := r.w.Srv.Store().Insert(pgfake.TableGnosisCurrentDecryptionTrigger, pgfake.Row{"eon": int64(1), "slot": int64(prodSlot),
			"tx_pointer": int64(prodTxp), "identities_hash": crypto.Keccak256(pre...)}); err != nil {
			panic(err)
		}
	}
	return st
}

func (r *runner) produce(c *caseJ, sender int) (p2pmsg.Message, error) {
	w, mat := r.w, r.mat
	r.installProd(c.Flavour, sender, c.Prod.Idents)
	ksh := &epochkghandler.KeyShareHandler{InstanceID: inst, KeyperAddress: mat.Addrs[sender], MaxNumKeysPerMessage: maxKeys, DBPool: w.Pool}
	var pre []identitypreimage.IdentityPreimage
	for _, id := range c.Prod.Idents {
		b, _ := hex.DecodeString(id)
		pre = append(pre, identitypreimage.IdentityPreimage(b))
	}
	msg, err := ksh.ConstructDecryptionKeyShares(w.Ctx, database.Eon{Eon: 5, Height: 1, KeyperConfigIndex: 1}, pre)
	if err != nil {
		return nil, err
	}
	selfKey := &keys.ECDSAPrivate{Key: mat.Keys[sender]}
	rec := &recMessaging{}
	switch c.Flavour {
	case "gnosis":
		cfg := &gnosis.Config{InstanceID: inst, MaxNumKeysPerMessage: maxKeys,
			Gnosis: &gnosis.GnosisConfig{Node: &configuration.EthnodeConfig{PrivateKey: selfKey}, SecondsPerSlot: 5, GenesisSlotTimestamp: 1000}}
		if err := gnosis.NewMessagingMiddleware(rec, w.Pool, cfg).SendMessage(w.Ctx, msg); err != nil {
			return nil, err
		}
	case "service":
		cfg := &shutterservice.Config{InstanceID: inst, MaxNumKeysPerMessage: maxKeys,
			Chain: &shutterservice.ChainConfig{Node: &configuration.EthnodeConfig{PrivateKey: selfKey}, Contracts: &shutterservice.ContractsConfig{}}}
		if err := shutterservice.NewMessagingMiddleware(rec, w.Pool, cfg).SendMessage(w.Ctx, msg); err != nil {
			return nil, err
		}
	default:
		return msg, nil
	}
	if len(rec.sent) != 1 {
		return nil, fmt.Errorf("the middleware sent %d messages", len(rec.sent))
	}
	return rec.sent[0], nil
}

// deliver runs the combined validator of the message's topic on the marshalled message and,
// if it accepts, Handle; the state rendered for the model is the static part (what validators
// of key-shares messages and of keys messages on a fresh node read).
func (r *runner) deliver(c *caseJ, n *g.Node, st *g.State, pm p2pmsg.Message, what string) ([]p2pmsg.Message, bool) {
	run, mat := r.run, r.mat
	data, err := p2pmsg.Marshal(pm, nil)
	if err != nil {
		panic(err)
	}
	topic := pm.Topic()
	res, ex := n.Combined(topic, topic, data)
	wire, _ := mat.DecodeWire(data)
	id := run.NextID()
	run.AddCase(id, vh.CApp("CCombined", vh.CN(id), g.CoqNode(c.Flavour), st.Coq(mat), g.CoqTopic(topic), g.CoqTopic(topic), wire, g.CoqVres(res)),
		c, fmt.Sprintf("%s/%s/%d", c.key(), what, id), res == "accept")
	run.Dist["producer:"+c.Flavour+":"+what+":"+res]++
	if res != "accept" {
		r.violate(c, "C04:"+c.Flavour+":genuine-message-not-accepted", "a message made by the real producer ("+what+") was not accepted: "+res+" "+ex.Panic, res, "accept")
		return nil, false
	}
	h := n.Handle(pm)
	if h.Exec.Crashed() {
		r.violate(c, "C04:"+c.Flavour+":handler-panics-on-accepted-message", "Handle panicked on a genuine message: "+h.Exec.Panic, nil, nil)
	}
	return h.Out, true
}

func (r *runner) runProducer(c *caseJ) {
	w := r.w
	var msgs []p2pmsg.Message
	for _, s := range c.Prod.Senders {
		m, err := r.produce(c, s)
		if err != nil {
			r.run.Tie(fmt.Sprintf("producer stream: keyper %d could not produce its message: %v", s, err))
			return
		}
		msgs = append(msgs, m)
	}
	st := r.installProd(c.Flavour, c.Prod.Receiver, c.Prod.Idents)
	n := w.Node(c.Flavour, st)
	distinct := map[int]bool{}
	var keysMsg p2pmsg.Message
	for i, m := range msgs {
		out, ok := r.deliver(c, n, st, m, "shares")
		if !ok {
			return
		}
		distinct[c.Prod.Senders[i]] = true
		for _, o := range out {
			if _, isKeys := o.(*p2pmsg.DecryptionKeys); isKeys && keysMsg == nil {
				keysMsg = o
			}
		}
		if len(distinct) < r.mat.T && len(out) > 0 {
			r.violate(c, "C04:"+c.Flavour+":message-sent-before-threshold", "the handlers returned a message before t distinct keypers' shares arrived", len(out), 0)
		}
	}
	if len(distinct) >= r.mat.T && keysMsg == nil {
		r.violate(c, "C04:"+c.Flavour+":no-keys-message-at-threshold", "shares of t distinct keypers were accepted and handled but no keys message was returned", nil, nil)
		return
	}
	if keysMsg == nil {
		return
	}
	st3 := r.installProd(c.Flavour, c.Prod.Third, c.Prod.Idents)
	n3 := w.Node(c.Flavour, st3)
	r.deliver(c, n3, st3, keysMsg, "keys")
	// every key of the accepted keys message is the epoch key and is stored now
	km := keysMsg.(*p2pmsg.DecryptionKeys)
	for _, k := range km.Keys {
		if r.mat.ClassifyKey(k.IdentityPreimage, k.Key) != vh.CApp("LKey", vh.CN(0), vh.CBytes(k.IdentityPreimage)) {
			r.violate(c, "C04:"+c.Flavour+":produced-key-is-not-the-epoch-key", "the keys message made from genuine shares carries a wrong key", hex.EncodeToString(k.IdentityPreimage), nil)
		}
	}
}

func (r *runner) forcedProducer(emit func(*caseJ)) {
	for _, fl := range []string{"core", "gnosis", "service"} {
		ids := []string{idA, idB}
		if fl == "gnosis" {
			ids = []string{wide(idA), wide(idB)}
		}
		for _, p := range []prodSpec{
			{Idents: ids[:1], Senders: []int{0, 1}, Receiver: 2, Third: 1},
			{Idents: ids, Senders: []int{2, 0}, Receiver: 1, Third: 0},
			{Idents: ids, Senders: []int{1, 1, 2}, Receiver: 0, Third: 2},
			{Idents: ids[1:], Senders: []int{0, 1, 2}, Receiver: 2, Third: 0},
			{Idents: ids, Senders: []int{1}, Receiver: 0, Third: 2},
		} {
			p := p
			emit(&caseJ{Kind: "producer", Flavour: fl, State: stateFor(p.Receiver), Prod: &p, Origin: "forced:producer:" + fl})
		}
	}
}
