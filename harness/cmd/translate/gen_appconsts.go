package main

// AppConsts: constants, tables and loop-free integer functions of the shuttermint application,
// regenerated from the source on every check that lists it:
//   app/checktx.go      MaxTxsPerBlock
//   app/app.go          the voting power added per keyper in makePowermap (pm[...] += N),
//                       the bytes of NonExistentValidator, numRequiredTransitionValidators
//                       (translated statement by statement)
//   app/forks.go        forkHeightOverrides (chain id -> override height / eon),
//                       ForkHeight.IsForkActive (translated: nil tests become option matches)
//   shtxresp            Ok / Error / Seen
// The generator refuses source it does not understand.

import (
	"fmt"
	"go/ast"
	"go/parser"
	"go/token"
	"path/filepath"
	"sort"
	"strconv"
	"strings"
)

func init() { register("AppConsts", genAppConsts) }

func parseFile(repo, rel string) (*ast.File, *token.FileSet, error) {
	fset := token.NewFileSet()
	f, err := parser.ParseFile(fset, filepath.Join(repo, rel), nil, 0)
	return f, fset, err
}

func findFunc(f *ast.File, name string) *ast.FuncDecl {
	for _, d := range f.Decls {
		if fd, ok := d.(*ast.FuncDecl); ok && fd.Name.Name == name {
			return fd
		}
	}
	return nil
}

func hexOfString(s string) string {
	var sb strings.Builder
	for i := 0; i < len(s); i++ {
		fmt.Fprintf(&sb, "%02x", s[i])
	}
	return sb.String()
}

// ---- a tiny translator for loop-free integer functions -------------------------------------

type tr struct {
	rename map[string]string   // Go expression text -> Coq variable
	locals map[string]bool     // variables introduced by :=
	subst  map[string]ast.Expr // locals bound to an expression the translator has no value for (inlined where used)
	nonNil map[string]bool     // pointer expressions known to be non-nil on the current path
	derefs map[string]string   // pointer expression text -> Coq name of the pointed-to value
	guards map[string]string   // renamed expression text -> pointer that must be non-nil where it is evaluated
	err    error
}

// nilFacts: the pointer expressions a condition establishes as non-nil in its then / else branch
// (only the plain forms `p != nil`, `p == nil`).
func nilFacts(c ast.Expr) (thenFacts, elseFacts []string) {
	if b, ok := c.(*ast.BinaryExpr); ok && exprText(b.Y) == "nil" {
		switch b.Op {
		case token.NEQ:
			return []string{exprText(b.X)}, nil
		case token.EQL:
			return nil, []string{exprText(b.X)}
		}
	}
	return nil, nil
}

func (t *tr) withNonNil(facts []string, f func() string) string {
	var added []string
	for _, p := range facts {
		if !t.nonNil[p] {
			if t.nonNil == nil {
				t.nonNil = map[string]bool{}
			}
			t.nonNil[p] = true
			added = append(added, p)
		}
	}
	out := f()
	for _, p := range added {
		delete(t.nonNil, p)
	}
	return out
}

// text is exprText with the inlined locals expanded, so that `n := msg.RandomNonce` followed by
// `Check(sender, n)` is looked up in the rename table as `Check(sender,msg.RandomNonce)`.
func (t *tr) text(e ast.Expr) string {
	switch x := e.(type) {
	case *ast.Ident:
		if r, ok := t.subst[x.Name]; ok {
			return t.text(r)
		}
		return x.Name
	case *ast.SelectorExpr:
		return t.text(x.X) + "." + x.Sel.Name
	case *ast.StarExpr:
		return "*" + t.text(x.X)
	case *ast.BasicLit:
		return x.Value
	case *ast.IndexExpr:
		return t.text(x.X) + "[" + t.text(x.Index) + "]"
	case *ast.CallExpr:
		args := []string{}
		for _, a := range x.Args {
			args = append(args, t.text(a))
		}
		return t.text(x.Fun) + "(" + strings.Join(args, ",") + ")"
	case *ast.BinaryExpr:
		return t.text(x.X) + " " + x.Op.String() + " " + t.text(x.Y)
	case *ast.UnaryExpr:
		return x.Op.String() + t.text(x.X)
	case *ast.ParenExpr:
		return "(" + t.text(x.X) + ")"
	}
	return fmt.Sprintf("%T", e)
}

// pureExpr: no call except conversions and len; map/slice reads and field selections are pure.
func pureExpr(e ast.Expr) bool {
	pure := true
	ast.Inspect(e, func(n ast.Node) bool {
		if c, ok := n.(*ast.CallExpr); ok {
			if id, ok := c.Fun.(*ast.Ident); ok {
				switch id.Name {
				case "len", "int", "int64", "uint64", "int32", "uint32":
					return true
				}
			}
			pure = false
		}
		return true
	})
	return pure
}

func (t *tr) fail(format string, a ...any) string {
	if t.err == nil {
		t.err = fmt.Errorf(format, a...)
	}
	return "0"
}

func exprText(e ast.Expr) string {
	switch x := e.(type) {
	case *ast.Ident:
		return x.Name
	case *ast.SelectorExpr:
		return exprText(x.X) + "." + x.Sel.Name
	case *ast.StarExpr:
		return "*" + exprText(x.X)
	case *ast.BasicLit:
		return x.Value
	case *ast.IndexExpr:
		return exprText(x.X) + "[" + exprText(x.Index) + "]"
	case *ast.CallExpr:
		args := []string{}
		for _, a := range x.Args {
			args = append(args, exprText(a))
		}
		return exprText(x.Fun) + "(" + strings.Join(args, ",") + ")"
	}
	return fmt.Sprintf("%T", e)
}

func (t *tr) expr(e ast.Expr) string {
	if v, ok := t.rename[t.text(e)]; ok {
		if req, ok := t.guards[t.text(e)]; ok && !t.nonNil[req] {
			return t.fail("%s is evaluated on a path where %s is not known to be non-nil", t.text(e), req)
		}
		return v
	}
	if id, ok := e.(*ast.Ident); ok {
		if r, ok := t.subst[id.Name]; ok {
			return t.expr(r)
		}
	}
	switch x := e.(type) {
	case *ast.BasicLit:
		if x.Kind == token.INT {
			return x.Value
		}
	case *ast.ParenExpr:
		return "(" + t.expr(x.X) + ")"
	case *ast.BinaryExpr:
		a, b := t.expr(x.X), t.expr(x.Y)
		switch x.Op {
		case token.ADD:
			return "(" + a + " + " + b + ")"
		case token.SUB:
			return "(" + a + " - " + b + ")"
		case token.MUL:
			return "(" + a + " * " + b + ")"
		case token.QUO:
			return "(Z.quot " + a + " " + b + ")"
		case token.EQL:
			return "(" + a + " =? " + b + ")"
		case token.GEQ:
			return "(" + b + " <=? " + a + ")"
		case token.LEQ:
			return "(" + a + " <=? " + b + ")"
		case token.GTR:
			return "(" + b + " <? " + a + ")"
		case token.LSS:
			return "(" + a + " <? " + b + ")"
		case token.LAND:
			return "(" + a + " && " + b + ")"
		case token.LOR:
			return "(" + a + " || " + b + ")"
		}
	case *ast.UnaryExpr:
		if x.Op == token.NOT {
			return "(negb " + t.expr(x.X) + ")"
		}
	case *ast.StarExpr:
		p := exprText(x.X)
		if v, ok := t.derefs[p]; ok {
			if !t.nonNil[p] {
				return t.fail("dereference of %s on a path where it is not known to be non-nil", p)
			}
			return v
		}
	case *ast.CallExpr:
		if id, ok := x.Fun.(*ast.Ident); ok && len(x.Args) == 1 {
			switch id.Name {
			case "uint64":
				return "((" + t.expr(x.Args[0]) + ") mod 18446744073709551616)"
			case "int", "int64":
				return "(gen_to_int64 (" + t.expr(x.Args[0]) + "))"
			}
		}
	case *ast.Ident:
		if x.Name == "true" || x.Name == "false" || t.locals[x.Name] {
			return x.Name
		}
	}
	return t.fail("cannot translate expression %s", exprText(e))
}

// errStmts translates the body of a function that returns `error` into a boolean: `return nil`
// is true, every other return (errors.Errorf(...), a propagated err) is false. Two idioms are
// understood: `err := recv.EnsureValid()` followed by `if err != nil { return err }` (the callee's
// translation is called with `validCall`), and `x := app.LastConfig()` (skipped: the fields of x
// are parameters).
func (t *tr) errStmts(ss []ast.Stmt, validCall string) string {
	if len(ss) == 0 {
		return t.fail("function body falls off the end")
	}
	switch s := ss[0].(type) {
	case *ast.ReturnStmt:
		if len(s.Results) != 1 {
			return t.fail("return with %d results", len(s.Results))
		}
		if id, ok := s.Results[0].(*ast.Ident); ok && id.Name == "nil" {
			return "true"
		}
		return "false"
	case *ast.AssignStmt:
		if len(s.Lhs) == 1 && len(s.Rhs) == 1 && s.Tok == token.DEFINE {
			if call, ok := s.Rhs[0].(*ast.CallExpr); ok {
				if sel, ok := call.Fun.(*ast.SelectorExpr); ok {
					switch sel.Sel.Name {
					case "EnsureValid":
						// must be followed by `if err != nil { return err }`
						if len(ss) >= 2 {
							if is, ok := ss[1].(*ast.IfStmt); ok && is.Else == nil && is.Init == nil {
								if c, ok := is.Cond.(*ast.BinaryExpr); ok && c.Op == token.NEQ && exprText(c.X) == exprText(s.Lhs[0]) && exprText(c.Y) == "nil" {
									return "if negb (" + validCall + ") then false\n  else (" + t.errStmts(ss[2:], validCall) + ")"
								}
							}
						}
						return t.fail("EnsureValid call not followed by the error propagation idiom")
					case "LastConfig":
						return t.errStmts(ss[1:], validCall)
					}
				}
			}
		}
		// a local: x := e
		if len(s.Lhs) == 1 && len(s.Rhs) == 1 && s.Tok == token.DEFINE {
			if id, ok := s.Lhs[0].(*ast.Ident); ok {
				rhs := t.expr(s.Rhs[0])
				if t.locals == nil {
					t.locals = map[string]bool{}
				}
				t.locals[id.Name] = true
				return "let " + id.Name + " := " + rhs + " in\n  " + t.errStmts(ss[1:], validCall)
			}
		}
		return t.fail("unsupported assignment in an error-returning function")
	case *ast.IfStmt:
		if s.Init != nil || s.Else != nil {
			return t.fail("unsupported if form")
		}
		return "if " + t.expr(s.Cond) + " then (" + t.errStmts(s.Body.List, validCall) + ")\n  else (" + t.errStmts(ss[1:], validCall) + ")"
	case *ast.ExprStmt:
		if _, isCall := s.X.(*ast.CallExpr); isCall {
			return t.errStmts(ss[1:], validCall)
		}
	}
	return t.fail("unsupported statement %T in an error-returning function", ss[0])
}

// stmts translates a statement list that ends in a return on every path.
func (t *tr) stmts(ss []ast.Stmt) string {
	if len(ss) == 0 {
		return t.fail("function body falls off the end")
	}
	switch s := ss[0].(type) {
	case *ast.ReturnStmt:
		if len(s.Results) != 1 {
			return t.fail("return with %d results", len(s.Results))
		}
		return t.expr(s.Results[0])
	case *ast.AssignStmt:
		if len(s.Lhs) == 1 && len(s.Rhs) == 1 && s.Tok != token.DEFINE {
			if _, isIndex := s.Lhs[0].(*ast.IndexExpr); isIndex {
				// a state update after the decision (m[k] = v); the decision is what is translated
				return t.stmts(ss[1:])
			}
		}
		if len(s.Lhs) != 1 || len(s.Rhs) != 1 || s.Tok != token.DEFINE {
			return t.fail("unsupported assignment")
		}
		id, ok := s.Lhs[0].(*ast.Ident)
		if !ok {
			return t.fail("unsupported assignment target")
		}
		// a local bound to a side-effect-free expression is inlined where it is used
		if !pureExpr(s.Rhs[0]) {
			return t.fail("local %s is bound to an expression with a call the translator does not know", id.Name)
		}
		if t.subst == nil {
			t.subst = map[string]ast.Expr{}
		}
		t.subst[id.Name] = s.Rhs[0]
		return t.stmts(ss[1:])
	case *ast.IfStmt:
		if s.Init != nil {
			return t.fail("unsupported if form")
		}
		cond := t.expr(s.Cond)
		// the statements after an if without else are its else branch (every path returns)
		var elseStmts []ast.Stmt
		switch e := s.Else.(type) {
		case nil:
			elseStmts = ss[1:]
		case *ast.BlockStmt:
			elseStmts = append(append([]ast.Stmt{}, e.List...), ss[1:]...)
		case *ast.IfStmt:
			elseStmts = append([]ast.Stmt{e}, ss[1:]...)
		default:
			return t.fail("unsupported else form")
		}
		thenFacts, elseFacts := nilFacts(s.Cond)
		a := t.withNonNil(thenFacts, func() string { return t.stmts(append(append([]ast.Stmt{}, s.Body.List...), ss[1:]...)) })
		b := t.withNonNil(elseFacts, func() string { return t.stmts(elseStmts) })
		return "if " + cond + " then (" + a + ")\n  else (" + b + ")"
	case *ast.SwitchStmt:
		// a tagless switch is an if / else-if chain in source order, default last
		if s.Init != nil || s.Tag != nil {
			return t.fail("unsupported switch form")
		}
		var chain ast.Stmt
		var deflt []ast.Stmt
		var clauses []*ast.CaseClause
		for _, c := range s.Body.List {
			cc := c.(*ast.CaseClause)
			for _, st := range cc.Body {
				if br, ok := st.(*ast.BranchStmt); ok && (br.Tok == token.FALLTHROUGH || br.Tok == token.BREAK) {
					return t.fail("unsupported branch statement in a switch")
				}
			}
			if cc.List == nil {
				deflt = cc.Body
			} else if len(cc.List) == 1 {
				clauses = append(clauses, cc)
			} else {
				return t.fail("unsupported case list")
			}
		}
		var tail ast.Stmt
		if deflt != nil {
			tail = &ast.BlockStmt{List: deflt}
		}
		for i := len(clauses) - 1; i >= 0; i-- {
			is := &ast.IfStmt{Cond: clauses[i].List[0], Body: &ast.BlockStmt{List: clauses[i].Body}}
			if tail != nil {
				is.Else = tail
			}
			tail = is
		}
		chain = tail
		if chain == nil {
			return t.stmts(ss[1:])
		}
		if b, ok := chain.(*ast.BlockStmt); ok {
			return t.stmts(append(append([]ast.Stmt{}, b.List...), ss[1:]...))
		}
		return t.stmts(append([]ast.Stmt{chain}, ss[1:]...))
	case *ast.IncDecStmt:
		// a state update after the decision; the decision is what is translated
		return t.stmts(ss[1:])
	case *ast.ExprStmt, *ast.EmptyStmt:
		// comments / logging calls are not part of the value
		if es, ok := s.(*ast.ExprStmt); ok {
			if _, isCall := es.X.(*ast.CallExpr); !isCall {
				return t.fail("unsupported expression statement")
			}
		}
		return t.stmts(ss[1:])
	}
	return t.fail("unsupported statement %T", ss[0])
}

// isForkActive translates ForkHeight.IsForkActive: the shape is checked piece by piece and the
// nil tests on the override pointers become matches on options.
func translateIsForkActive(fd *ast.FuncDecl) (string, error) {
	bad := func(s string) (string, error) { return "", fmt.Errorf("IsForkActive: unexpected shape: %s", s) }
	if fd == nil || fd.Recv == nil || len(fd.Recv.List) != 1 || len(fd.Recv.List[0].Names) != 1 {
		return bad("receiver")
	}
	recv := fd.Recv.List[0].Names[0].Name
	var params []string
	for _, p := range fd.Type.Params.List {
		for _, n := range p.Names {
			params = append(params, n.Name)
		}
	}
	if len(params) != 3 {
		return bad("parameters")
	}
	ov, ch, ce := params[0], params[1], params[2]
	// The function is translated statement by statement over "flat" arguments: presence flags of
	// the three pointers and the pointed-to values (used only under the corresponding nil
	// guard - a dereference outside its guard is refused, it would be a nil-pointer panic).
	t := &tr{
		rename: map[string]string{
			ov + " != nil": "ov", ov + " == nil": "(negb ov)",
			ov + ".Height != nil": "ovh", ov + ".Height == nil": "(negb ovh)",
			ov + ".Eon != nil": "ove", ov + ".Eon == nil": "(negb ove)",
			recv + ".Enabled": "en", recv + ".Height": "h", ch: "ch", ce: "ce",
		},
		derefs: map[string]string{ov + ".Height": "oh", ov + ".Eon": "oe"},
		guards: map[string]string{
			ov + ".Height != nil": ov, ov + ".Height == nil": ov, ov + ".Eon != nil": ov, ov + ".Eon == nil": ov,
		},
	}
	// override.X may only be inspected where override itself is non-nil
	body := t.stmts(fd.Body.List)
	if t.err != nil {
		return "", fmt.Errorf("IsForkActive: %v", t.err)
	}
	var sb strings.Builder
	sb.WriteString("(* ForkHeight.IsForkActive, statement by statement: ov / ovh / ove = the override, its Height and its Eon\n   pointer are non-nil; oh / oe the values they point to (read only under the nil guard) *)\n")
	fmt.Fprintf(&sb, "Definition gen_is_fork_active_flat (ov ovh ove en : bool) (oh oe h ch ce : Z) : bool :=\n  %s.\n\n", body)
	sb.WriteString("Definition gen_is_fork_active (override : option (option Z * option N)) (enabled : bool) (height cur_height : Z) (cur_eon : N) : bool :=\n")
	sb.WriteString("  gen_is_fork_active_flat\n    (match override with Some _ => true | None => false end)\n    (match override with Some (Some _, _) => true | _ => false end)\n    (match override with Some (_, Some _) => true | _ => false end)\n    enabled\n    (match override with Some (Some v, _) => v | _ => 0 end)\n    (match override with Some (_, Some v) => Z.of_N v | _ => 0 end)\n    height cur_height (Z.of_N cur_eon).\n")
	return sb.String(), nil
}

func genAppConsts(repo string) (string, error) {
	var sb strings.Builder
	sb.WriteString("(* GENERATED by harness/cmd/translate (gen_appconsts.go) from the repository source - do not edit. *)\n")
	sb.WriteString("From Coq Require Import String.\nFrom Coq Require Import List NArith ZArith Bool.\nFrom Verif Require Import Lib.Bytes.\nImport ListNotations.\nOpen Scope Z_scope.\n\n")
	sb.WriteString("Definition gen_to_int64 (x : Z) : Z := let m := x mod 18446744073709551616 in if m <? 9223372036854775808 then m else m - 18446744073709551616.\n\n")

	// MaxTxsPerBlock
	f, _, err := parseFile(repo, "app/checktx.go")
	if err != nil {
		return "", err
	}
	found := false
	for _, d := range f.Decls {
		gd, ok := d.(*ast.GenDecl)
		if !ok || gd.Tok != token.CONST {
			continue
		}
		for _, sp := range gd.Specs {
			vs := sp.(*ast.ValueSpec)
			for i, n := range vs.Names {
				if n.Name == "MaxTxsPerBlock" && i < len(vs.Values) {
					if bl, ok := vs.Values[i].(*ast.BasicLit); ok {
						fmt.Fprintf(&sb, "Definition gen_max_txs_per_block : Z := %s.\n", bl.Value)
						found = true
					}
				}
			}
		}
	}
	if !found {
		return "", fmt.Errorf("MaxTxsPerBlock not found as a literal constant in app/checktx.go")
	}

	// shtxresp codes (iota block Ok, Error, Seen)
	f, _, err = parseFile(repo, "keyper/shutterevents/shtxresp/code.go")
	if err != nil {
		// file name may differ: scan the directory
		return "", err
	}
	var codes []string
	for _, d := range f.Decls {
		gd, ok := d.(*ast.GenDecl)
		if !ok || gd.Tok != token.CONST {
			continue
		}
		for i, sp := range gd.Specs {
			vs := sp.(*ast.ValueSpec)
			if i == 0 {
				if len(vs.Values) != 1 || exprText(vs.Values[0]) != "iota" {
					return "", fmt.Errorf("shtxresp: first constant is not iota")
				}
			} else if len(vs.Values) != 0 {
				return "", fmt.Errorf("shtxresp: explicit value in iota block")
			}
			for _, n := range vs.Names {
				codes = append(codes, n.Name)
			}
		}
	}
	for i, c := range codes {
		fmt.Fprintf(&sb, "Definition gen_code_%s : N := %d%%N.\n", strings.ToLower(c), i)
	}
	if len(codes) != 3 {
		return "", fmt.Errorf("shtxresp: expected 3 codes, found %v", codes)
	}

	// app.go: power per keyper, NonExistentValidator, numRequiredTransitionValidators
	f, _, err = parseFile(repo, "app/app.go")
	if err != nil {
		return "", err
	}
	mp := findFunc(f, "makePowermap")
	if mp == nil {
		return "", fmt.Errorf("makePowermap not found")
	}
	var incs []string
	ast.Inspect(mp, func(n ast.Node) bool {
		if as, ok := n.(*ast.AssignStmt); ok && as.Tok == token.ADD_ASSIGN && len(as.Rhs) == 1 {
			if bl, ok := as.Rhs[0].(*ast.BasicLit); ok {
				incs = append(incs, bl.Value)
			}
		}
		return true
	})
	if len(incs) != 2 || incs[0] != incs[1] {
		return "", fmt.Errorf("makePowermap: expected two equal `+= literal` statements, found %v", incs)
	}
	fmt.Fprintf(&sb, "Definition gen_power_per_keyper : Z := %s.\n", incs[0])
	// NonExistentValidator: k := [32]byte{'n','o',...}
	initf := findFunc(f, "init")
	var nev []byte
	if initf != nil {
		ast.Inspect(initf, func(n ast.Node) bool {
			if cl, ok := n.(*ast.CompositeLit); ok {
				if at, ok := cl.Type.(*ast.ArrayType); ok && exprText(at.Elt) == "byte" {
					if l, ok := at.Len.(*ast.BasicLit); ok {
						ln, _ := strconv.Atoi(l.Value)
						nev = make([]byte, ln)
						for i, e := range cl.Elts {
							if bl, ok := e.(*ast.BasicLit); ok && bl.Kind == token.CHAR {
								r, _, _, err := strconv.UnquoteChar(bl.Value[1:len(bl.Value)-1], '\'')
								if err == nil && i < ln {
									nev[i] = byte(r)
								}
							}
						}
					}
				}
			}
			return true
		})
	}
	if len(nev) != 32 {
		return "", fmt.Errorf("NonExistentValidator literal not found in app.init")
	}
	fmt.Fprintf(&sb, "Definition gen_nonexistent_validator : bytes := hx \"%s\"%%string.\n\n", hexOfString(string(nev)))

	nr := findFunc(f, "numRequiredTransitionValidators")
	if nr == nil || len(nr.Type.Params.List) != 1 || len(nr.Type.Params.List[0].Names) != 1 {
		return "", fmt.Errorf("numRequiredTransitionValidators: unexpected signature")
	}
	cfg := nr.Type.Params.List[0].Names[0].Name
	t := &tr{rename: map[string]string{"len(" + cfg + ".Keypers)": "len_keypers", cfg + ".Threshold": "threshold"}}
	body := t.stmts(nr.Body.List)
	if t.err != nil {
		return "", fmt.Errorf("numRequiredTransitionValidators: %v", t.err)
	}
	fmt.Fprintf(&sb, "(* numRequiredTransitionValidators, statement by statement; len_keypers is an int, threshold a uint64 *)\nDefinition gen_num_required_transition (len_keypers threshold : Z) : Z :=\n  %s.\n\n", body)

	// checkConfig (app.go) and BatchConfig.EnsureValid (shutterevents/batchconfig.go)
	cc := findFunc(f, "checkConfig")
	if cc == nil || len(cc.Type.Params.List) != 1 || len(cc.Type.Params.List[0].Names) != 1 {
		return "", fmt.Errorf("checkConfig: unexpected signature")
	}
	fb, _, err := parseFile(repo, "keyper/shutterevents/batchconfig.go")
	if err != nil {
		return "", err
	}
	ev := findFunc(fb, "EnsureValid")
	if ev == nil || ev.Recv == nil || len(ev.Recv.List) != 1 || len(ev.Recv.List[0].Names) != 1 {
		return "", fmt.Errorf("EnsureValid: unexpected signature")
	}
	bcv := ev.Recv.List[0].Names[0].Name
	te := &tr{rename: map[string]string{"len(" + bcv + ".Keypers)": "len_keypers", bcv + ".Threshold": "threshold"}}
	evBody := te.errStmts(ev.Body.List, "")
	if te.err != nil {
		return "", fmt.Errorf("EnsureValid: %v", te.err)
	}
	fmt.Fprintf(&sb, "(* BatchConfig.EnsureValid as a boolean (nil = true); len_keypers is an int, threshold a uint64 *)\nDefinition gen_ensure_valid (len_keypers threshold : Z) : bool :=\n  %s.\n\n", evBody)
	cv := cc.Type.Params.List[0].Names[0].Name
	tc := &tr{rename: map[string]string{
		cv + ".ActivationBlockNumber": "act", cv + ".KeyperConfigIndex": "idx",
		"lastConfig.ActivationBlockNumber": "last_act", "lastConfig.KeyperConfigIndex": "last_idx"}}
	ccBody := tc.errStmts(cc.Body.List, "gen_ensure_valid len_keypers threshold")
	if tc.err != nil {
		return "", fmt.Errorf("checkConfig: %v", tc.err)
	}
	fmt.Fprintf(&sb, "(* ShutterApp.checkConfig as a boolean; the last config's fields are parameters *)\nDefinition gen_check_config (len_keypers threshold act idx last_act last_idx : Z) : bool :=\n  %s.\n\n", ccBody)

	// CheckTxState.AddTx (checktx.go): the admission decision; the updates after it are skipped
	fc, _, err := parseFile(repo, "app/checktx.go")
	if err != nil {
		return "", err
	}
	at := findFunc(fc, "AddTx")
	if at == nil || at.Recv == nil || len(at.Recv.List) != 1 || len(at.Recv.List[0].Names) != 1 ||
		len(at.Type.Params.List) != 2 || len(at.Type.Params.List[0].Names) != 1 || len(at.Type.Params.List[1].Names) != 1 {
		return "", fmt.Errorf("AddTx: unexpected signature")
	}
	rv, sv, mv := at.Recv.List[0].Names[0].Name, at.Type.Params.List[0].Names[0].Name, at.Type.Params.List[1].Names[0].Name
	ta := &tr{rename: map[string]string{
		"len(" + rv + ".Members)":                                     "len_members",
		rv + ".Members[" + sv + "]":                                   "is_member",
		rv + ".TxCounts[" + sv + "]":                                  "tx_count",
		rv + ".NonceTracker.Check(" + sv + "," + mv + ".RandomNonce)": "nonce_fresh",
		"MaxTxsPerBlock":                                              "gen_max_txs_per_block"}}
	atBody := ta.stmts(at.Body.List)
	if ta.err != nil {
		return "", fmt.Errorf("AddTx: %v", ta.err)
	}
	fmt.Fprintf(&sb, "(* CheckTxState.AddTx: whether the transaction is admitted *)\nDefinition gen_add_tx_ok (len_members : Z) (is_member : bool) (tx_count : Z) (nonce_fresh : bool) : bool :=\n  %s.\n\n", atBody)

	// forks.go
	f, _, err = parseFile(repo, "app/forks.go")
	if err != nil {
		return "", err
	}
	type ovr struct{ chain, h, e string }
	var table []ovr
	for _, d := range f.Decls {
		gd, ok := d.(*ast.GenDecl)
		if !ok || gd.Tok != token.VAR {
			continue
		}
		for _, sp := range gd.Specs {
			vs := sp.(*ast.ValueSpec)
			if len(vs.Names) != 1 || vs.Names[0].Name != "forkHeightOverrides" || len(vs.Values) != 1 {
				continue
			}
			cl, ok := vs.Values[0].(*ast.CompositeLit)
			if !ok {
				return "", fmt.Errorf("forkHeightOverrides is not a composite literal")
			}
			for _, el := range cl.Elts {
				kv, ok := el.(*ast.KeyValueExpr)
				if !ok {
					return "", fmt.Errorf("forkHeightOverrides: unexpected element")
				}
				kl, ok := kv.Key.(*ast.BasicLit)
				if !ok {
					return "", fmt.Errorf("forkHeightOverrides: key is not a literal")
				}
				chain, _ := strconv.Unquote(kl.Value)
				o := ovr{chain: chain, h: "None", e: "None"}
				okShape := false
				ast.Inspect(kv.Value, func(n ast.Node) bool {
					if inner, ok := n.(*ast.KeyValueExpr); ok {
						name := exprText(inner.Key)
						if call, ok := inner.Value.(*ast.CallExpr); ok && len(call.Args) == 1 {
							if bl, ok := call.Args[0].(*ast.BasicLit); ok {
								switch {
								case name == "Eon" && exprText(call.Fun) == "uint64Ptr":
									o.e = "Some " + bl.Value + "%N"
									okShape = true
								case name == "Height" && exprText(call.Fun) == "int64Ptr":
									o.h = "Some " + bl.Value
									okShape = true
								}
							}
						}
					}
					return true
				})
				if !okShape {
					return "", fmt.Errorf("forkHeightOverrides[%q]: no Eon/Height override understood", chain)
				}
				table = append(table, o)
			}
		}
	}
	if len(table) == 0 {
		return "", fmt.Errorf("forkHeightOverrides not found")
	}
	sort.Slice(table, func(i, j int) bool { return table[i].chain < table[j].chain })
	sb.WriteString("(* forkHeightOverrides: chain id -> (override height, override eon), sorted by chain id *)\nDefinition gen_fork_overrides : list (bytes * (option Z * option N)) := [\n")
	for i, o := range table {
		sep := ";"
		if i == len(table)-1 {
			sep = ""
		}
		fmt.Fprintf(&sb, "  (hx \"%s\"%%string, (%s, %s))%s  (* %s *)\n", hexOfString(o.chain), o.h, o.e, sep, o.chain)
	}
	sb.WriteString("].\n\n")
	var ifa *ast.FuncDecl
	for _, d := range f.Decls {
		if fd, ok := d.(*ast.FuncDecl); ok && fd.Name.Name == "IsForkActive" {
			ifa = fd
		}
	}
	s, err := translateIsForkActive(ifa)
	if err != nil {
		return "", err
	}
	sb.WriteString("(* ForkHeight.IsForkActive: nil tests on the override pointers rendered as option matches *)\n")
	sb.WriteString(s)
	return sb.String(), nil
}
