// SyncConsts: the constants of the contract-event syncers, for properties C15 and C16.
//
// Read (all below <repo>/):
//
//	keyperimpl/shutterservice/registrysyncer.go    AssumedReorgDepth, maxRequestBlockRange
//	keyperimpl/shutterservice/multieventsyncer.go  DefaultAssumedReorgDepth, DefaultMaxRequestBlockRange
//	keyperimpl/gnosis/sequencersyncer.go           AssumedReorgDepth
//	keyperimpl/gnosis/validatorsyncer.go           maxRequestBlockRange (used by sequencersyncer.go)
//
// and, compared as text (go/printer, comments dropped) with the text the Coq model
// Model/Syncer.v was written from: getNumReorgedBlocks (both packages), calculateReorgDepth,
// medley.GetSyncRanges.  A different text is an error: the model has to be re-read against it.
package main

import (
	"bytes"
	"fmt"
	"go/ast"
	"go/parser"
	"go/printer"
	"go/token"
	"path/filepath"
	"strconv"
	"strings"
)

func init() { register("SyncConsts", genSyncConsts) }

func scParse(path string) (*token.FileSet, *ast.File, error) {
	fset := token.NewFileSet()
	f, err := parser.ParseFile(fset, path, nil, parser.SkipObjectResolution)
	return fset, f, err
}

func scConst(f *ast.File, name string) (int64, error) {
	for _, d := range f.Decls {
		gd, ok := d.(*ast.GenDecl)
		if !ok || gd.Tok != token.CONST {
			continue
		}
		for _, sp := range gd.Specs {
			vs := sp.(*ast.ValueSpec)
			for i, n := range vs.Names {
				if n.Name != name {
					continue
				}
				if i >= len(vs.Values) {
					return 0, fmt.Errorf("constant %s has no initialiser", name)
				}
				bl, ok := vs.Values[i].(*ast.BasicLit)
				if !ok || bl.Kind != token.INT {
					return 0, fmt.Errorf("constant %s is not an integer literal", name)
				}
				v, err := strconv.ParseInt(strings.ReplaceAll(bl.Value, "_", ""), 0, 64)
				if err != nil {
					return 0, fmt.Errorf("constant %s: %v", name, err)
				}
				return v, nil
			}
		}
	}
	return 0, fmt.Errorf("constant %s not found", name)
}

func scFuncText(fset *token.FileSet, f *ast.File, name string) (string, error) {
	for _, d := range f.Decls {
		fd, ok := d.(*ast.FuncDecl)
		if !ok || fd.Name.Name != name || fd.Recv != nil {
			continue
		}
		fd.Doc = nil
		var buf bytes.Buffer
		if err := printer.Fprint(&buf, fset, fd); err != nil {
			return "", err
		}
		// drop blank lines left by removed comments
		var out []string
		for _, l := range strings.Split(buf.String(), "\n") {
			if strings.TrimSpace(l) != "" {
				out = append(out, l)
			}
		}
		return strings.Join(out, "\n"), nil
	}
	return "", fmt.Errorf("function %s not found", name)
}

const scNumReorgedText = `func getNumReorgedBlocks(syncedUntil *database.%s, header *types.Header) int {
	shouldBeParent := header.Number.Int64() == syncedUntil.BlockNumber+1
	isParent := bytes.Equal(header.ParentHash.Bytes(), syncedUntil.BlockHash)
	isReorg := shouldBeParent && !isParent
	if !isReorg {
		return 0
	}
	depth := AssumedReorgDepth
	if syncedUntil.BlockNumber < int64(depth) {
		return int(syncedUntil.BlockNumber)
	}
	return depth
}`

const scCalcDepthText = `func calculateReorgDepth(status *SyncStatus, header *types.Header, assumedReorgDepth int) int {
	shouldBeParent := header.Number.Int64() == status.BlockNumber+1
	isParent := bytes.Equal(header.ParentHash.Bytes(), status.BlockHash)
	isReorg := shouldBeParent && !isParent
	if !isReorg {
		return 0
	}
	depth := assumedReorgDepth
	if status.BlockNumber < int64(depth) {
		return int(status.BlockNumber)
	}
	return depth
}`

const scSyncRangesText = `func GetSyncRanges(start, end, maxRange uint64) [][2]uint64 {
	ranges := [][2]uint64{}
	for i := start; i <= end; i += maxRange {
		s := i
		e := i + maxRange - 1
		ranges = append(ranges, [2]uint64{s, e})
		if e > end {
			ranges[len(ranges)-1][1] = end
			break
		}
	}
	return ranges
}`

func scExpectText(fset *token.FileSet, f *ast.File, name, want, where string) error {
	got, err := scFuncText(fset, f, name)
	if err != nil {
		return fmt.Errorf("%s: %v", where, err)
	}
	if got != want {
		return fmt.Errorf("%s: %s is no longer the text Model/Syncer.v was written from:\n%s", where, name, got)
	}
	return nil
}

func genSyncConsts(repo string) (string, error) {
	type src struct{ rel string }
	files := map[string]*ast.File{}
	fsets := map[string]*token.FileSet{}
	for _, rel := range []string{
		"keyperimpl/shutterservice/registrysyncer.go", "keyperimpl/shutterservice/multieventsyncer.go",
		"keyperimpl/gnosis/sequencersyncer.go", "keyperimpl/gnosis/validatorsyncer.go", "medley/syncranges.go",
	} {
		fset, f, err := scParse(filepath.Join(repo, rel))
		if err != nil {
			return "", err
		}
		files[rel], fsets[rel] = f, fset
	}
	get := func(rel, name string) (int64, error) {
		v, err := scConst(files[rel], name)
		if err != nil {
			return 0, fmt.Errorf("%s: %v", rel, err)
		}
		return v, nil
	}
	var vals [6]int64
	var err error
	for i, q := range [][2]string{
		{"keyperimpl/shutterservice/registrysyncer.go", "AssumedReorgDepth"},
		{"keyperimpl/shutterservice/registrysyncer.go", "maxRequestBlockRange"},
		{"keyperimpl/shutterservice/multieventsyncer.go", "DefaultAssumedReorgDepth"},
		{"keyperimpl/shutterservice/multieventsyncer.go", "DefaultMaxRequestBlockRange"},
		{"keyperimpl/gnosis/sequencersyncer.go", "AssumedReorgDepth"},
		{"keyperimpl/gnosis/validatorsyncer.go", "maxRequestBlockRange"},
	} {
		if vals[i], err = get(q[0], q[1]); err != nil {
			return "", err
		}
	}
	rel := "keyperimpl/shutterservice/registrysyncer.go"
	if err := scExpectText(fsets[rel], files[rel], "getNumReorgedBlocks", fmt.Sprintf(scNumReorgedText, "IdentityRegisteredEventsSyncedUntil"), rel); err != nil {
		return "", err
	}
	rel = "keyperimpl/gnosis/sequencersyncer.go"
	if err := scExpectText(fsets[rel], files[rel], "getNumReorgedBlocks", fmt.Sprintf(scNumReorgedText, "TransactionSubmittedEventsSyncedUntil"), rel); err != nil {
		return "", err
	}
	rel = "keyperimpl/shutterservice/multieventsyncer.go"
	if err := scExpectText(fsets[rel], files[rel], "calculateReorgDepth", scCalcDepthText, rel); err != nil {
		return "", err
	}
	rel = "medley/syncranges.go"
	if err := scExpectText(fsets[rel], files[rel], "GetSyncRanges", scSyncRangesText, rel); err != nil {
		return "", err
	}
	var sb strings.Builder
	sb.WriteString("(* GENERATED by harness/cmd/translate (gen_syncconsts.go) from the repository source. Do not edit. *)\n")
	sb.WriteString("From Coq Require Import ZArith.\nOpen Scope Z_scope.\n\n")
	fmt.Fprintf(&sb, "(* keyperimpl/shutterservice/registrysyncer.go *)\nDefinition registry_assumed_reorg_depth : Z := %d.\nDefinition registry_max_request_block_range : Z := %d.\n\n", vals[0], vals[1])
	fmt.Fprintf(&sb, "(* keyperimpl/shutterservice/multieventsyncer.go (defaults set by NewMultiEventSyncer) *)\nDefinition multi_default_assumed_reorg_depth : Z := %d.\nDefinition multi_default_max_request_block_range : Z := %d.\n\n", vals[2], vals[3])
	fmt.Fprintf(&sb, "(* keyperimpl/gnosis/sequencersyncer.go, validatorsyncer.go *)\nDefinition sequencer_assumed_reorg_depth : Z := %d.\nDefinition sequencer_max_request_block_range : Z := %d.\n", vals[4], vals[5])
	return sb.String(), nil
}
