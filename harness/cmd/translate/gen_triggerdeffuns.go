package main

// TriggerDefFuns: the integer / decision logic of keyperimpl/shutterservice/eventtrigger.go,
// translated statement by statement on every check that lists it.
//
//   constants          Word, Version, the Op iota block (UintLt .. BytesEq)
//   decision tables    Op.Validate, Op.NumIntArgs, Op.NumByteArgs (switch statements),
//                      LogValueRef.Validate, LogValueRef.IsTopic, ValuePredicate.Validate,
//                      validateArgNums, validateArgValues (a range loop of error checks =
//                      forallb), LogPredicate.Validate (with the 32-byte rule of fix 2ce1f88)
//   dispatch           ValuePredicate.Match: which comparison every op code performs
//   loop head guards   the `if c { continue }` prefix of the range loops of ToFilterQuery and
//                      of the duplicate check in EventTriggerDefinition.Validate (which
//                      predicates the filter / the duplicate rule look at)
//   bounds arithmetic  readWordAsUint64, getOffsetDataValue (fix 9dbf1bd) and GetValue, with
//                      uint64 wrap-around written out on every +, -, *
//
// Error-returning functions become booleans (nil = true). Byte buffers are the model's vres
// (a panic of make / a slice expression is carried in the buffer). The translator refuses
// every statement or expression outside the forms listed at the functions below.
//
// NOT translated (library calls, slice growth, maps; covered by the hand-written model and the
// differential run only): EncodeRLP/DecodeRLP, MarshalBytes/UnmarshalBytes, the bodies of the
// loops of ToFilterQuery and of the duplicate check, the loop of EventTriggerDefinition.Match.

import (
	"fmt"
	"go/ast"
	"go/token"
	"strconv"
	"strings"
)

func init() { register("TriggerDefFuns", genTriggerDefFuns) }

const tdfSource = "keyperimpl/shutterservice/eventtrigger.go"

var coqReserved = map[string]bool{"length": true, "match": true, "end": true, "in": true, "fix": true, "let": true, "fun": true,
	"if": true, "then": true, "else": true, "return": true, "with": true, "as": true, "at": true, "forall": true, "exists": true,
	"Type": true, "Set": true, "Prop": true, "type": true, "data": true, "topics": true, "off": true, "dyn": true, "op": true}

func cname(s string) string {
	if coqReserved[s] {
		return s + "_"
	}
	return s
}

type tf struct {
	rename map[string]string // Go expression text -> Coq term
	consts map[string]string // package constants (Word, BytesEq, ...) -> Coq term
	locals map[string]bool
	wrap   bool   // +, -, * are uint64 operations (written with u64); refused otherwise
	buf    string // the []byte buffer variable of a value function
	data   string // Go text of the log data expression (log.Data)
	err    error
}

func (t *tf) fail(format string, a ...any) string {
	if t.err == nil {
		t.err = fmt.Errorf(format, a...)
	}
	return "0"
}

func (t *tf) local(n string) {
	if t.locals == nil {
		t.locals = map[string]bool{}
	}
	t.locals[n] = true
}

func (t *tf) expr(e ast.Expr) string {
	if v, ok := t.rename[exprText(e)]; ok {
		return v
	}
	switch x := e.(type) {
	case *ast.BasicLit:
		if x.Kind == token.INT {
			n, err := strconv.ParseInt(x.Value, 0, 64)
			if err == nil {
				return strconv.FormatInt(n, 10)
			}
		}
	case *ast.ParenExpr:
		return t.expr(x.X)
	case *ast.Ident:
		if v, ok := t.consts[x.Name]; ok {
			return v
		}
		if x.Name == "true" || x.Name == "false" {
			return x.Name
		}
		if t.locals[x.Name] {
			return cname(x.Name)
		}
	case *ast.UnaryExpr:
		if x.Op == token.NOT {
			return "(negb " + t.expr(x.X) + ")"
		}
	case *ast.BinaryExpr:
		// `x == nil` on a renamed operand
		if (x.Op == token.EQL || x.Op == token.NEQ) && exprText(x.Y) == "nil" {
			if v, ok := t.rename[exprText(x.X)+"==nil"]; ok {
				if x.Op == token.NEQ {
					return "(negb " + v + ")"
				}
				return v
			}
			return t.fail("nil test on %s not understood", exprText(x.X))
		}
		a, b := t.expr(x.X), t.expr(x.Y)
		switch x.Op {
		case token.ADD, token.SUB, token.MUL:
			if !t.wrap {
				return t.fail("arithmetic outside a uint64 function")
			}
			op := map[token.Token]string{token.ADD: "+", token.SUB: "-", token.MUL: "*"}[x.Op]
			return "(u64 (" + a + " " + op + " " + b + "))"
		case token.EQL:
			return "(" + a + " =? " + b + ")"
		case token.NEQ:
			return "(negb (" + a + " =? " + b + "))"
		case token.LSS:
			return "(" + a + " <? " + b + ")"
		case token.LEQ:
			return "(" + a + " <=? " + b + ")"
		case token.GTR:
			return "(" + b + " <? " + a + ")"
		case token.GEQ:
			return "(" + b + " <=? " + a + ")"
		case token.LAND:
			return "(" + a + " && " + b + ")"
		case token.LOR:
			return "(" + a + " || " + b + ")"
		}
	}
	return t.fail("cannot translate expression %s (%T)", exprText(e), e)
}

func endsInReturn(ss []ast.Stmt) bool {
	if len(ss) == 0 {
		return false
	}
	_, ok := ss[len(ss)-1].(*ast.ReturnStmt)
	return ok
}

// ---- error-returning functions as booleans ------------------------------------------------
//
// errSeq understands: `return nil` (true), any other `return` (false), `x := e`,
// `if c { ... }` (the block may fall through to the following statements),
// `if x := e; c { ... }`, `if err := CALL; err != nil { return err }` (CALL must have a
// translation in rename), `switch tag { case A, B: ... default: ... }` (no fallthrough), and a
// `for _, v := range XS { checks }` loop whose body only returns errors (forallb over `loops`).
func (t *tf) errSeq(ss []ast.Stmt, cont func() string) string {
	if len(ss) == 0 {
		return cont()
	}
	rest := func() string { return t.errSeq(ss[1:], cont) }
	switch s := ss[0].(type) {
	case *ast.ReturnStmt:
		if len(s.Results) != 1 {
			return t.fail("return with %d results in an error function", len(s.Results))
		}
		if exprText(s.Results[0]) == "nil" {
			return "true"
		}
		return "false"
	case *ast.AssignStmt:
		if s.Tok == token.DEFINE && len(s.Lhs) == 1 && len(s.Rhs) == 1 {
			if id, ok := s.Lhs[0].(*ast.Ident); ok {
				v := t.expr(s.Rhs[0])
				t.local(id.Name)
				return "let " + cname(id.Name) + " := " + v + " in\n  " + rest()
			}
		}
		return t.fail("unsupported assignment in an error function")
	case *ast.IfStmt:
		if s.Else != nil {
			return t.fail("if with else in an error function")
		}
		if s.Init != nil {
			as, ok := s.Init.(*ast.AssignStmt)
			if !ok || as.Tok != token.DEFINE || len(as.Lhs) != 1 || len(as.Rhs) != 1 {
				return t.fail("unsupported if initialiser")
			}
			lhs := exprText(as.Lhs[0])
			// if err := CALL; err != nil { return err }
			if c, ok := s.Cond.(*ast.BinaryExpr); ok && c.Op == token.NEQ && exprText(c.X) == lhs && exprText(c.Y) == "nil" {
				callee, ok := t.rename[exprText(as.Rhs[0])]
				if !ok {
					return t.fail("call %s has no translation", exprText(as.Rhs[0]))
				}
				if len(s.Body.List) != 1 {
					return t.fail("error propagation block has %d statements", len(s.Body.List))
				}
				if r, ok := s.Body.List[0].(*ast.ReturnStmt); !ok || len(r.Results) != 1 || exprText(r.Results[0]) == "nil" {
					return t.fail("error propagation block does not return the error")
				}
				return "if negb " + callee + " then false\n  else (" + rest() + ")"
			}
			v := t.expr(as.Rhs[0])
			t.local(lhs)
			return "let " + cname(lhs) + " := " + v + " in\n  if " + t.expr(s.Cond) + " then (" + t.errSeq(s.Body.List, rest) + ")\n  else (" + rest() + ")"
		}
		return "if " + t.expr(s.Cond) + " then (" + t.errSeq(s.Body.List, rest) + ")\n  else (" + rest() + ")"
	case *ast.SwitchStmt:
		return t.switchStmt(s, func(body []ast.Stmt) string { return t.errSeq(body, rest) }, rest)
	case *ast.RangeStmt:
		elems, ok := t.rename["range "+exprText(s.X)]
		if !ok || s.Value == nil || s.Tok != token.DEFINE {
			return t.fail("range over %s not understood", exprText(s.X))
		}
		v := exprText(s.Value)
		sub := &tf{rename: map[string]string{v + "==nil": "(fst a)", v + ".Sign()": "(snd a)"}, consts: t.consts}
		body := sub.errSeq(s.Body.List, func() string { return "true" })
		if sub.err != nil {
			return t.fail("loop body: %v", sub.err)
		}
		return "if negb (forallb (fun a : bool * Z => " + body + ") " + elems + ") then false\n  else (" + rest() + ")"
	}
	return t.fail("unsupported statement %T in an error function", ss[0])
}

// switchStmt renders `switch tag { case A, B: body ... default: body }` as nested ifs in source
// order; a missing default continues with `after`.
func (t *tf) switchStmt(s *ast.SwitchStmt, body func([]ast.Stmt) string, after func() string) string {
	if s.Init != nil || s.Tag == nil {
		return t.fail("unsupported switch form")
	}
	tag := t.expr(s.Tag)
	var def *ast.CaseClause
	var sb strings.Builder
	closers := 0
	for _, c := range s.Body.List {
		cc := c.(*ast.CaseClause)
		for _, st := range cc.Body {
			if b, ok := st.(*ast.BranchStmt); ok && b.Tok == token.FALLTHROUGH {
				return t.fail("fallthrough")
			}
		}
		if cc.List == nil {
			def = cc
			continue
		}
		var alts []string
		for _, e := range cc.List {
			alts = append(alts, "("+tag+" =? "+t.expr(e)+")")
		}
		fmt.Fprintf(&sb, "if %s then (%s)\n  else (", strings.Join(alts, " || "), body(cc.Body))
		closers++
	}
	if def != nil {
		sb.WriteString(body(def.Body))
	} else {
		sb.WriteString(after())
	}
	sb.WriteString(strings.Repeat(")", closers))
	return sb.String()
}

// retExpr: a function (or switch arm) that is just `return e`.
func (t *tf) retExpr(ss []ast.Stmt) string {
	if len(ss) == 1 {
		if r, ok := ss[0].(*ast.ReturnStmt); ok && len(r.Results) == 1 {
			return t.expr(r.Results[0])
		}
	}
	return t.fail("expected a single `return e`")
}

// ---- []byte-returning functions over the model's vres ------------------------------------------
//
// vstmts understands: `x := e` (uint64), `buf := make([]byte, n)`, `v, ok := readWordAsUint64(DATA, e)`
// followed by `if !ok { return nil }`, `copy(buf, DATA[a:b])`, `if c { ...return }`,
// `if c { updates }` (updates: `x := e`, `if d { x = e }`, copy), `if d { x = e }`, `if a <= b { return buf }`
// (rendered through the mirrored strict comparison, see mirror), `return nil`, `return buf`,
// and returns of calls that have a translation in rename.
func (t *tf) vstmts(ss []ast.Stmt) string {
	if len(ss) == 0 {
		return t.fail("value function falls off the end")
	}
	rest := func() string { return t.vstmts(ss[1:]) }
	switch s := ss[0].(type) {
	case *ast.ReturnStmt:
		if len(s.Results) != 1 {
			return t.fail("return with %d results in a value function", len(s.Results))
		}
		txt := exprText(s.Results[0])
		switch {
		case txt == "nil":
			return "VOk []"
		case t.buf != "" && txt == t.buf:
			return cname(t.buf)
		}
		if v, ok := t.rename[txt]; ok {
			return v
		}
		return t.fail("unsupported return value %s", txt)
	case *ast.AssignStmt:
		if s.Tok != token.DEFINE || len(s.Rhs) != 1 {
			return t.fail("unsupported assignment in a value function")
		}
		if len(s.Lhs) == 2 {
			// v, ok := readWordAsUint64(DATA, e); if !ok { return nil }
			call, ok := s.Rhs[0].(*ast.CallExpr)
			if !ok || exprText(call.Fun) != "readWordAsUint64" || len(call.Args) != 2 || exprText(call.Args[0]) != t.data {
				return t.fail("two-value assignment that is not readWordAsUint64(%s, e)", t.data)
			}
			v, okv := exprText(s.Lhs[0]), exprText(s.Lhs[1])
			if len(ss) < 2 {
				return t.fail("readWordAsUint64 result is not checked")
			}
			is, ok := ss[1].(*ast.IfStmt)
			if !ok || is.Init != nil || is.Else != nil || len(is.Body.List) != 1 {
				return t.fail("readWordAsUint64 result is not checked by `if !ok { return nil }`")
			}
			un, ok1 := is.Cond.(*ast.UnaryExpr)
			r, ok2 := is.Body.List[0].(*ast.ReturnStmt)
			if !ok1 || un.Op != token.NOT || exprText(un.X) != okv || !ok2 || len(r.Results) != 1 || exprText(r.Results[0]) != "nil" {
				return t.fail("readWordAsUint64 result is not checked by `if !ok { return nil }`")
			}
			start := t.expr(call.Args[1])
			t.local(v)
			return "match gen_read_word_as_uint64 data " + start + " with\n  | RPanic => VPanic\n  | RNo => VOk []\n  | RWord " + cname(v) + " =>\n  " + t.vstmts(ss[2:]) + "\n  end"
		}
		id, ok := s.Lhs[0].(*ast.Ident)
		if !ok || len(s.Lhs) != 1 {
			return t.fail("unsupported assignment target")
		}
		if call, ok := s.Rhs[0].(*ast.CallExpr); ok && exprText(call.Fun) == "make" {
			at, ok := call.Args[0].(*ast.ArrayType)
			if !ok || at.Len != nil || exprText(at.Elt) != "byte" || len(call.Args) != 2 || t.buf != "" {
				return t.fail("unsupported make")
			}
			n := t.expr(call.Args[1])
			t.buf = id.Name
			return "let " + cname(id.Name) + " := gen_make " + n + " in\n  " + rest()
		}
		v := t.expr(s.Rhs[0])
		t.local(id.Name)
		return "let " + cname(id.Name) + " := " + v + " in\n  " + rest()
	case *ast.ExprStmt:
		return t.copyStmt(s) + rest()
	case *ast.IfStmt:
		if s.Init != nil || s.Else != nil {
			return t.fail("unsupported if form in a value function")
		}
		// early return of the buffer, `if a <= b { return buf }`: the buffer stays as it is unless
		// b < a (the early-return form of `if b < a { updates }`)
		if len(s.Body.List) == 1 && t.buf != "" {
			if r, ok := s.Body.List[0].(*ast.ReturnStmt); ok && len(r.Results) == 1 && exprText(r.Results[0]) == t.buf {
				if c, swapped := t.mirror(s.Cond); swapped {
					return "if " + c + " then (" + rest() + ")\n  else " + cname(t.buf)
				}
			}
		}
		// if d { x = e } for a local x
		if txt, ok := t.condAssign(s); ok {
			return txt + "\n  " + rest()
		}
		if endsInReturn(s.Body.List) {
			c := t.expr(s.Cond)
			saved := t.buf
			body := t.vstmts(s.Body.List)
			t.buf = saved
			return "if " + c + " then (" + body + ")\n  else (" + rest() + ")"
		}
		if t.buf == "" {
			return t.fail("update block before the buffer exists")
		}
		b := cname(t.buf)
		return "let " + b + " := if " + t.expr(s.Cond) + " then (" + t.ublock(s.Body.List) + ") else " + b + " in\n  " + rest()
	}
	return t.fail("unsupported statement %T in a value function", ss[0])
}

// mirror: a condition `a <= b` (`a >= b`) is the negation of `b < a` (`a < b`) on integers. For
// those two forms it returns the strict comparison and true: the caller renders
// `if a <= b then X else Y` as `if b < a then Y else X`, the same function written with the one
// comparison the rest of the translation uses. Every other condition is returned as it is.
func (t *tf) mirror(c ast.Expr) (string, bool) {
	for {
		p, ok := c.(*ast.ParenExpr)
		if !ok {
			break
		}
		c = p.X
	}
	if b, ok := c.(*ast.BinaryExpr); ok {
		switch b.Op {
		case token.LEQ:
			return "(" + t.expr(b.Y) + " <? " + t.expr(b.X) + ")", true
		case token.GEQ:
			return "(" + t.expr(b.X) + " <? " + t.expr(b.Y) + ")", true
		}
	}
	return t.expr(c), false
}

// condAssign: `if d { x = e }` for a local x, i.e. x := if d then e else x.
func (t *tf) condAssign(s *ast.IfStmt) (string, bool) {
	if s.Init != nil || s.Else != nil || len(s.Body.List) != 1 {
		return "", false
	}
	as, ok := s.Body.List[0].(*ast.AssignStmt)
	if !ok || as.Tok != token.ASSIGN || len(as.Lhs) != 1 || len(as.Rhs) != 1 || !t.locals[exprText(as.Lhs[0])] {
		return "", false
	}
	x := cname(exprText(as.Lhs[0]))
	c, swapped := t.mirror(s.Cond)
	if swapped {
		return fmt.Sprintf("let %s := if %s then %s else %s in ", x, c, x, t.expr(as.Rhs[0])), true
	}
	return fmt.Sprintf("let %s := if %s then %s else %s in ", x, c, t.expr(as.Rhs[0]), x), true
}

// copy(buf, DATA[a:b])
func (t *tf) copyStmt(s *ast.ExprStmt) string {
	call, ok := s.X.(*ast.CallExpr)
	if !ok || exprText(call.Fun) != "copy" || len(call.Args) != 2 || t.buf == "" || exprText(call.Args[0]) != t.buf {
		return t.fail("unsupported expression statement in a value function")
	}
	sl, ok := call.Args[1].(*ast.SliceExpr)
	if !ok || exprText(sl.X) != t.data || sl.Low == nil || sl.High == nil || sl.Slice3 {
		return t.fail("copy source is not %s[a:b]", t.data)
	}
	b := cname(t.buf)
	return "let " + b + " := gen_copy " + b + " data " + t.expr(sl.Low) + " " + t.expr(sl.High) + " in\n  "
}

// ublock: a block that only updates locals and the buffer; its value is the buffer after it.
func (t *tf) ublock(ss []ast.Stmt) string {
	var sb strings.Builder
	for _, st := range ss {
		switch s := st.(type) {
		case *ast.AssignStmt:
			id, ok := s.Lhs[0].(*ast.Ident)
			if !ok || len(s.Lhs) != 1 || len(s.Rhs) != 1 || s.Tok != token.DEFINE || id.Name == t.buf {
				return t.fail("unsupported assignment in an update block")
			}
			v := t.expr(s.Rhs[0])
			t.local(id.Name)
			fmt.Fprintf(&sb, "let %s := %s in ", cname(id.Name), v)
		case *ast.IfStmt:
			// if d { x = e }
			txt, ok := t.condAssign(s)
			if !ok {
				return t.fail("unsupported conditional statement in an update block")
			}
			sb.WriteString(txt)
		case *ast.ExprStmt:
			sb.WriteString(t.copyStmt(s))
		default:
			return t.fail("unsupported statement %T in an update block", st)
		}
	}
	sb.WriteString(cname(t.buf))
	return sb.String()
}

// ---- helpers over the file ------------------------------------------------------------------

func findMethod(f *ast.File, recvType, name string) (*ast.FuncDecl, string) {
	for _, d := range f.Decls {
		fd, ok := d.(*ast.FuncDecl)
		if !ok || fd.Name.Name != name || fd.Recv == nil || len(fd.Recv.List) != 1 || len(fd.Recv.List[0].Names) != 1 {
			continue
		}
		ty := fd.Recv.List[0].Type
		if st, ok := ty.(*ast.StarExpr); ok {
			ty = st.X
		}
		if exprText(ty) == recvType {
			return fd, fd.Recv.List[0].Names[0].Name
		}
	}
	return nil, ""
}

func paramNames(fd *ast.FuncDecl) []string {
	var out []string
	for _, p := range fd.Type.Params.List {
		for _, n := range p.Names {
			out = append(out, n.Name)
		}
	}
	return out
}

// headGuards returns the conditions of the leading `if c { continue }` statements of the loop body.
func headGuards(body []ast.Stmt) []ast.Expr {
	var out []ast.Expr
	for _, st := range body {
		is, ok := st.(*ast.IfStmt)
		if !ok || is.Init != nil || is.Else != nil || len(is.Body.List) != 1 {
			break
		}
		b, ok := is.Body.List[0].(*ast.BranchStmt)
		if !ok || b.Tok != token.CONTINUE || b.Label != nil {
			break
		}
		out = append(out, is.Cond)
	}
	return out
}

// rangeLoops lists the `for ... := range <recv>.LogPredicates` loops of a function, in order.
func rangeLoops(fd *ast.FuncDecl, over string) []*ast.RangeStmt {
	var out []*ast.RangeStmt
	for _, st := range fd.Body.List {
		if rs, ok := st.(*ast.RangeStmt); ok && exprText(rs.X) == over {
			out = append(out, rs)
		}
	}
	return out
}

func genTriggerDefFuns(repo string) (string, error) {
	f, _, err := parseFile(repo, tdfSource)
	if err != nil {
		return "", err
	}
	var sb strings.Builder
	sb.WriteString("(* GENERATED by harness/cmd/translate (gen_triggerdeffuns.go) from " + tdfSource + " - do not edit. *)\n")
	sb.WriteString("From Coq Require Import List NArith ZArith Bool.\nFrom Verif Require Import Lib.Bytes Lib.Rlp Model.TriggerDef.\nImport ListNotations.\nOpen Scope Z_scope.\n\n")

	// ---- constants ------------------------------------------------------------------------
	consts := map[string]string{}
	var opNames []string
	for _, d := range f.Decls {
		gd, ok := d.(*ast.GenDecl)
		if !ok || gd.Tok != token.CONST {
			continue
		}
		iota := false
		for i, sp := range gd.Specs {
			vs := sp.(*ast.ValueSpec)
			if len(vs.Names) != 1 {
				return "", fmt.Errorf("const spec with %d names", len(vs.Names))
			}
			name := vs.Names[0].Name
			switch {
			case len(vs.Values) == 1 && exprText(vs.Values[0]) == "iota":
				if i != 0 || exprText(vs.Type) != "Op" {
					return "", fmt.Errorf("iota constant %s: not the first of an Op block", name)
				}
				iota = true
				opNames = append(opNames, name)
			case len(vs.Values) == 0:
				if !iota {
					return "", fmt.Errorf("constant %s has no value outside an iota block", name)
				}
				opNames = append(opNames, name)
			case len(vs.Values) == 1:
				bl, ok := vs.Values[0].(*ast.BasicLit)
				if !ok || bl.Kind != token.INT || iota {
					return "", fmt.Errorf("constant %s is not an integer literal", name)
				}
				n, err := strconv.ParseInt(bl.Value, 0, 64)
				if err != nil {
					return "", err
				}
				consts[name] = "gen_" + strings.ToLower(name)
				fmt.Fprintf(&sb, "Definition gen_%s : Z := %d.\n", strings.ToLower(name), n)
			default:
				return "", fmt.Errorf("constant %s not understood", name)
			}
		}
	}
	for _, want := range []string{"Word", "Version"} {
		if _, ok := consts[want]; !ok {
			return "", fmt.Errorf("constant %s not found", want)
		}
	}
	if len(opNames) == 0 {
		return "", fmt.Errorf("Op iota block not found")
	}
	sb.WriteString("(* the Op iota block *)\n")
	var opList []string
	for i, n := range opNames {
		c := "gen_op_" + strings.ToLower(n)
		consts[n] = c
		opList = append(opList, c)
		fmt.Fprintf(&sb, "Definition %s : Z := %d.\n", c, i)
	}
	fmt.Fprintf(&sb, "Definition gen_ops : list Z := [%s].\n\n", strings.Join(opList, "; "))

	sb.WriteString(`(* meaning of the buffer idioms: v := make([]byte, n); copy(v, src[lo:hi]);
   new(big.Int).SetBytes(src[lo:hi]).Uint64(); topics[i].Bytes() *)
Definition gen_make (n : Z) : vres :=
  if max_alloc <? n then VPanic else VOk (repeat 0%N (Z.to_nat n)).
Definition gen_copy (buf : vres) (src : bytes) (lo hi : Z) : vres :=
  match buf with
  | VPanic => VPanic
  | VOk v => match slice src lo hi with
             | None => VPanic
             | Some s => VOk (firstn (length v) s ++ skipn (length s) v)
             end
  end.
Definition gen_word_of (src : bytes) (lo hi : Z) : rres :=
  match slice src lo hi with None => RPanic | Some w => RWord (word_u64 w) end.
Definition gen_topic_bytes (topics : list bytes) (i : Z) : vres :=
  match nth_error topics (Z.to_nat i) with Some t => VOk t | None => VPanic end.

`)

	// ---- decision tables --------------------------------------------------------------------
	opv, opr := findMethod(f, "Op", "Validate")
	nia, nir := findMethod(f, "Op", "NumIntArgs")
	nba, nbr := findMethod(f, "Op", "NumByteArgs")
	if opv == nil || nia == nil || nba == nil {
		return "", fmt.Errorf("Op.Validate / NumIntArgs / NumByteArgs not found")
	}
	t := &tf{rename: map[string]string{opr: "op"}, consts: consts}
	body := t.errSeq(opv.Body.List, func() string { return t.fail("Op.Validate falls off the end") })
	if t.err != nil {
		return "", fmt.Errorf("Op.Validate: %v", t.err)
	}
	fmt.Fprintf(&sb, "(* Op.Validate (nil = true) *)\nDefinition gen_op_valid (op : Z) : bool :=\n  %s.\n\n", body)
	for _, x := range []struct {
		fd         *ast.FuncDecl
		recv, name string
	}{{nia, nir, "gen_num_int_args"}, {nba, nbr, "gen_num_byte_args"}} {
		t = &tf{rename: map[string]string{x.recv: "op"}, consts: consts}
		if len(x.fd.Body.List) != 1 {
			return "", fmt.Errorf("%s: expected a single switch", x.fd.Name.Name)
		}
		sw, ok := x.fd.Body.List[0].(*ast.SwitchStmt)
		if !ok {
			return "", fmt.Errorf("%s: expected a single switch", x.fd.Name.Name)
		}
		body = t.switchStmt(sw, t.retExpr, func() string { return t.fail("switch without default") })
		if t.err != nil {
			return "", fmt.Errorf("%s: %v", x.fd.Name.Name, t.err)
		}
		fmt.Fprintf(&sb, "(* Op.%s *)\nDefinition %s (op : Z) : Z :=\n  %s.\n\n", x.fd.Name.Name, x.name, body)
	}

	rv, rr := findMethod(f, "LogValueRef", "Validate")
	it, ir := findMethod(f, "LogValueRef", "IsTopic")
	if rv == nil || it == nil {
		return "", fmt.Errorf("LogValueRef.Validate / IsTopic not found")
	}
	t = &tf{rename: map[string]string{ir + ".Offset": "off"}, consts: consts}
	body = t.retExpr(it.Body.List)
	if t.err != nil {
		return "", fmt.Errorf("IsTopic: %v", t.err)
	}
	fmt.Fprintf(&sb, "(* LogValueRef.IsTopic *)\nDefinition gen_is_topic (off : Z) : bool :=\n  %s.\n\n", body)
	t = &tf{rename: map[string]string{rr + ".Offset": "off", rr + ".Dynamic": "dyn", "math.MaxUint32": "4294967295"}, consts: consts}
	body = t.errSeq(rv.Body.List, func() string { return t.fail("falls off the end") })
	if t.err != nil {
		return "", fmt.Errorf("LogValueRef.Validate: %v", t.err)
	}
	fmt.Fprintf(&sb, "(* LogValueRef.Validate (nil = true) *)\nDefinition gen_ref_validate (dyn : bool) (off : Z) : bool :=\n  %s.\n\n", body)

	van, vanr := findMethod(f, "ValuePredicate", "validateArgNums")
	vav, vavr := findMethod(f, "ValuePredicate", "validateArgValues")
	vpv, vpvr := findMethod(f, "ValuePredicate", "Validate")
	if van == nil || vav == nil || vpv == nil {
		return "", fmt.Errorf("ValuePredicate.Validate / validateArgNums / validateArgValues not found")
	}
	t = &tf{rename: map[string]string{vanr + ".Op.NumIntArgs()": "(gen_num_int_args op)", vanr + ".Op.NumByteArgs()": "(gen_num_byte_args op)",
		"len(" + vanr + ".IntArgs)": "n_ints", "len(" + vanr + ".ByteArgs)": "n_bytes"}, consts: consts}
	body = t.errSeq(van.Body.List, func() string { return t.fail("falls off the end") })
	if t.err != nil {
		return "", fmt.Errorf("validateArgNums: %v", t.err)
	}
	fmt.Fprintf(&sb, "(* ValuePredicate.validateArgNums; n_ints = len(IntArgs), n_bytes = len(ByteArgs) *)\nDefinition gen_validate_arg_nums (op n_ints n_bytes : Z) : bool :=\n  %s.\n\n", body)
	t = &tf{rename: map[string]string{"range " + vavr + ".IntArgs": "args"}, consts: consts}
	body = t.errSeq(vav.Body.List, func() string { return t.fail("falls off the end") })
	if t.err != nil {
		return "", fmt.Errorf("validateArgValues: %v", t.err)
	}
	fmt.Fprintf(&sb, "(* ValuePredicate.validateArgValues; an integer argument is seen as (arg == nil, arg.Sign()) *)\nDefinition gen_validate_arg_values (args : list (bool * Z)) : bool :=\n  %s.\n\n", body)
	t = &tf{rename: map[string]string{vpvr + ".Op.Validate()": "(gen_op_valid op)", vpvr + ".validateArgNums()": "(gen_validate_arg_nums op n_ints n_bytes)",
		vpvr + ".validateArgValues()": "(gen_validate_arg_values args)"}, consts: consts}
	body = t.errSeq(vpv.Body.List, func() string { return t.fail("falls off the end") })
	if t.err != nil {
		return "", fmt.Errorf("ValuePredicate.Validate: %v", t.err)
	}
	fmt.Fprintf(&sb, "(* ValuePredicate.Validate *)\nDefinition gen_vp_validate (op n_ints n_bytes : Z) (args : list (bool * Z)) : bool :=\n  %s.\n\n", body)

	lpv, lpr := findMethod(f, "LogPredicate", "Validate")
	if lpv == nil {
		return "", fmt.Errorf("LogPredicate.Validate not found")
	}
	t = &tf{rename: map[string]string{lpr + ".LogValueRef.Validate()": "(gen_ref_validate dyn off)", lpr + ".ValuePredicate.Validate()": "vp_ok",
		lpr + ".LogValueRef.IsTopic()": "(gen_is_topic off)", lpr + ".ValuePredicate.Op": "op",
		"len(" + lpr + ".ValuePredicate.ByteArgs[0])": "arg0_len"}, consts: consts}
	body = t.errSeq(lpv.Body.List, func() string { return t.fail("falls off the end") })
	if t.err != nil {
		return "", fmt.Errorf("LogPredicate.Validate: %v", t.err)
	}
	fmt.Fprintf(&sb, "(* LogPredicate.Validate; vp_ok = (ValuePredicate.Validate() == nil), arg0_len = len(ByteArgs[0]) *)\nDefinition gen_lp_validate (dyn : bool) (off op : Z) (vp_ok : bool) (arg0_len : Z) : bool :=\n  %s.\n\n", body)

	// ---- ValuePredicate.Match: the dispatch ---------------------------------------------------
	vm, vmr := findMethod(f, "ValuePredicate", "Match")
	if vm == nil || len(paramNames(vm)) != 1 || len(vm.Body.List) != 3 {
		return "", fmt.Errorf("ValuePredicate.Match: unexpected shape")
	}
	val := paramNames(vm)[0]
	as, ok := vm.Body.List[0].(*ast.AssignStmt)
	if !ok || as.Tok != token.DEFINE || len(as.Lhs) != 1 || len(as.Rhs) != 1 || exprText(as.Rhs[0]) != "new(big.Int).SetBytes("+val+")" {
		return "", fmt.Errorf("ValuePredicate.Match: first statement is not n := new(big.Int).SetBytes(%s)", val)
	}
	nv := exprText(as.Lhs[0])
	sw, ok := vm.Body.List[1].(*ast.SwitchStmt)
	last, ok2 := vm.Body.List[2].(*ast.ReturnStmt)
	if !ok || !ok2 || len(last.Results) != 2 || exprText(last.Results[0]) != "false" || exprText(last.Results[1]) == "nil" {
		return "", fmt.Errorf("ValuePredicate.Match: expected a switch followed by `return false, error`")
	}
	t = &tf{rename: map[string]string{vmr + ".Op": "op", nv + ".Cmp(" + vmr + ".IntArgs[0])": "c",
		"bytes.Equal(" + val + "," + vmr + ".ByteArgs[0])": "beq"}, consts: consts}
	arm := func(ss []ast.Stmt) string {
		if len(ss) == 1 {
			if r, ok := ss[0].(*ast.ReturnStmt); ok && len(r.Results) == 2 && exprText(r.Results[1]) == "nil" {
				return "MOk " + t.expr(r.Results[0])
			}
		}
		return t.fail("switch arm is not `return e, nil`")
	}
	body = t.switchStmt(sw, arm, func() string { return "MErr" })
	if t.err != nil {
		return "", fmt.Errorf("ValuePredicate.Match: %v", t.err)
	}
	fmt.Fprintf(&sb, "(* ValuePredicate.Match: c = n.Cmp(IntArgs[0]) in {-1,0,1}, beq = bytes.Equal(value, ByteArgs[0]) *)\nDefinition gen_vp_match (op c : Z) (beq : bool) : mres :=\n  %s.\n\n", body)

	// ---- loop head guards ---------------------------------------------------------------------
	tfq, dr := findMethod(f, "EventTriggerDefinition", "ToFilterQuery")
	dv, dvr := findMethod(f, "EventTriggerDefinition", "Validate")
	if tfq == nil || dv == nil {
		return "", fmt.Errorf("ToFilterQuery / EventTriggerDefinition.Validate not found")
	}
	guards := func(rs *ast.RangeStmt, what string) (string, error) {
		if rs.Value == nil {
			return "", fmt.Errorf("%s: loop has no value variable", what)
		}
		v := exprText(rs.Value)
		gs := headGuards(rs.Body.List)
		if len(gs) == 0 {
			return "", fmt.Errorf("%s: the loop does not start with `if c { continue }`", what)
		}
		g := &tf{rename: map[string]string{v + ".LogValueRef.IsTopic()": "(gen_is_topic off)", v + ".ValuePredicate.Op": "op"}, consts: consts}
		var parts []string
		for _, c := range gs {
			parts = append(parts, "negb "+g.expr(c))
		}
		if g.err != nil {
			return "", fmt.Errorf("%s: %v", what, g.err)
		}
		return strings.Join(parts, " && "), nil
	}
	fl := rangeLoops(tfq, dr+".LogPredicates")
	if len(fl) != 1 {
		return "", fmt.Errorf("ToFilterQuery: expected one loop over the predicates, found %d", len(fl))
	}
	g1, err := guards(fl[0], "ToFilterQuery")
	if err != nil {
		return "", err
	}
	fmt.Fprintf(&sb, "(* ToFilterQuery: the predicates its loop does not skip *)\nDefinition gen_filter_selects (off op : Z) : bool :=\n  %s.\n\n", g1)
	vl := rangeLoops(dv, dvr+".LogPredicates")
	if len(vl) != 2 {
		return "", fmt.Errorf("EventTriggerDefinition.Validate: expected two loops over the predicates, found %d", len(vl))
	}
	g2, err := guards(vl[1], "EventTriggerDefinition.Validate (duplicate check)")
	if err != nil {
		return "", err
	}
	fmt.Fprintf(&sb, "(* EventTriggerDefinition.Validate: the predicates its duplicate check does not skip *)\nDefinition gen_dup_check_selects (off op : Z) : bool :=\n  %s.\n\n", g2)

	// ---- bounds arithmetic ----------------------------------------------------------------------
	rw := findFunc(f, "readWordAsUint64")
	if rw == nil || rw.Recv != nil || len(paramNames(rw)) != 2 {
		return "", fmt.Errorf("readWordAsUint64: not found or unexpected signature")
	}
	pd, ps := paramNames(rw)[0], paramNames(rw)[1]
	t = &tf{rename: map[string]string{"uint64(len(" + pd + "))": "(zlen data)", ps: "start"}, consts: consts, wrap: true}
	var rsb strings.Builder
	stmts := rw.Body.List
	for len(stmts) > 1 {
		switch s := stmts[0].(type) {
		case *ast.AssignStmt:
			id, ok := s.Lhs[0].(*ast.Ident)
			if !ok || s.Tok != token.DEFINE || len(s.Lhs) != 1 || len(s.Rhs) != 1 {
				return "", fmt.Errorf("readWordAsUint64: unsupported assignment")
			}
			v := t.expr(s.Rhs[0])
			t.local(id.Name)
			fmt.Fprintf(&rsb, "let %s := %s in\n  ", cname(id.Name), v)
		case *ast.IfStmt:
			if s.Init != nil || s.Else != nil || len(s.Body.List) != 1 {
				return "", fmt.Errorf("readWordAsUint64: unsupported if")
			}
			r, ok := s.Body.List[0].(*ast.ReturnStmt)
			if !ok || len(r.Results) != 2 || exprText(r.Results[1]) != "false" {
				return "", fmt.Errorf("readWordAsUint64: guard does not `return _, false`")
			}
			fmt.Fprintf(&rsb, "if %s then RNo\n  else ", t.expr(s.Cond))
		default:
			return "", fmt.Errorf("readWordAsUint64: unsupported statement %T", stmts[0])
		}
		stmts = stmts[1:]
	}
	fin, ok := stmts[0].(*ast.ReturnStmt)
	if !ok || len(fin.Results) != 2 || exprText(fin.Results[1]) != "true" {
		return "", fmt.Errorf("readWordAsUint64: last statement is not `return word, true`")
	}
	// new(big.Int).SetBytes(data[lo:hi]).Uint64()
	okShape := false
	if c1, ok := fin.Results[0].(*ast.CallExpr); ok && len(c1.Args) == 0 {
		if s1, ok := c1.Fun.(*ast.SelectorExpr); ok && s1.Sel.Name == "Uint64" {
			if c2, ok := s1.X.(*ast.CallExpr); ok && len(c2.Args) == 1 && exprText(c2.Fun) == "new(big.Int).SetBytes" {
				if sl, ok := c2.Args[0].(*ast.SliceExpr); ok && exprText(sl.X) == pd && sl.Low != nil && sl.High != nil && !sl.Slice3 {
					fmt.Fprintf(&rsb, "gen_word_of data %s %s", t.expr(sl.Low), t.expr(sl.High))
					okShape = true
				}
			}
		}
	}
	if !okShape {
		return "", fmt.Errorf("readWordAsUint64: the returned word is not new(big.Int).SetBytes(%s[lo:hi]).Uint64()", pd)
	}
	if t.err != nil {
		return "", fmt.Errorf("readWordAsUint64: %v", t.err)
	}
	fmt.Fprintf(&sb, "(* readWordAsUint64; uint64(len(data)) is the length itself (a non-negative int) *)\nDefinition gen_read_word_as_uint64 (data : bytes) (start : Z) : rres :=\n  %s.\n\n", rsb.String())

	godv, gr := findMethod(f, "LogValueRef", "getOffsetDataValue")
	gv, gvr := findMethod(f, "LogValueRef", "GetValue")
	if godv == nil || gv == nil || len(paramNames(godv)) != 1 || len(paramNames(gv)) != 1 {
		return "", fmt.Errorf("getOffsetDataValue / GetValue not found")
	}
	lg := paramNames(godv)[0]
	t = &tf{rename: map[string]string{gr + ".Offset": "off", "uint64(len(" + lg + ".Data))": "(zlen data)"}, consts: consts, wrap: true, data: lg + ".Data"}
	body = t.vstmts(godv.Body.List)
	if t.err != nil {
		return "", fmt.Errorf("getOffsetDataValue: %v", t.err)
	}
	fmt.Fprintf(&sb, "(* LogValueRef.getOffsetDataValue; off = r.Offset, data = log.Data *)\nDefinition gen_get_offset_data_value (off : Z) (data : bytes) : vres :=\n  %s.\n\n", body)
	lg = paramNames(gv)[0]
	t = &tf{rename: map[string]string{gvr + ".Offset": "off", gvr + ".Dynamic": "dyn", gvr + ".IsTopic()": "(gen_is_topic off)",
		"uint64(len(" + lg + ".Data))": "(zlen data)", "uint64(len(" + lg + ".Topics))": "(Z.of_nat (length topics))",
		lg + ".Topics[" + gvr + ".Offset].Bytes()": "(gen_topic_bytes topics off)",
		gvr + ".getOffsetDataValue(" + lg + ")":    "(gen_get_offset_data_value off data)"}, consts: consts, wrap: true, data: lg + ".Data"}
	body = t.vstmts(gv.Body.List)
	if t.err != nil {
		return "", fmt.Errorf("GetValue: %v", t.err)
	}
	fmt.Fprintf(&sb, "(* LogValueRef.GetValue; topics = log.Topics, data = log.Data *)\nDefinition gen_get_value (dyn : bool) (off : Z) (topics : list bytes) (data : bytes) : vres :=\n  %s.\n", body)
	return sb.String(), nil
}
