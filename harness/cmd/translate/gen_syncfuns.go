// SyncFuns: statement-by-statement translation of the small pure functions of the contract-event
// syncers (properties C15, C16) into Gallina:
//
//	medley/syncranges.go                            GetSyncRanges     (a for loop -> fuelled recursion)
//	keyperimpl/shutterservice/registrysyncer.go     getNumReorgedBlocks
//	keyperimpl/gnosis/sequencersyncer.go            getNumReorgedBlocks
//	keyperimpl/shutterservice/multieventsyncer.go   calculateReorgDepth
//
// Proofs/SyncFuns.v proves the hand-written model functions (Model/Syncer.v) equal to the
// generated ones, so an edit of one of these functions that changes its meaning breaks a proof
// obligation, and an edit the translator does not understand is refused (an error).
//
// Understood Go: integer literals, identifiers (parameters, locals, integer constants of the same
// file), + and - (wrapping in the function's integer type), < <= > >= ==, && || !, min/max, the
// casts int / int64 / uint64, `x := e`, `if c { ... }` without else, `return e`; for the reorg
// helpers the accesses header.Number.Int64(), <status>.BlockNumber,
// bytes.Equal(header.ParentHash.Bytes(), <status>.BlockHash) and len(<status>.BlockHash) become parameters; for GetSyncRanges a
// single `for x := e; [c]; x += e` whose body (and, recursively, the body of every `if c { ...; break }`
// in it) consists of `v := e`, `ranges = append(ranges, [2]uint64{a, b})`,
// `ranges[len(ranges)-1][1] = e` and such ifs,
// preceded by `ranges := [][2]uint64{}` and followed by `return ranges`.
package main

import (
	"fmt"
	"go/ast"
	"go/parser"
	"go/token"
	"path/filepath"
	"strings"
)

func init() { register("SyncFuns", genSyncFuns) }

type sfTr struct {
	rename map[string]string // Go expression text -> Coq term
	locals map[string]bool
	consts map[string]string
	wrap   string // gen_u64 or gen_i64: the integer type the function computes in
	err    error
}

func (t *sfTr) fail(format string, a ...any) string {
	if t.err == nil {
		t.err = fmt.Errorf(format, a...)
	}
	return "0"
}

func sfText(e ast.Expr) string {
	switch x := e.(type) {
	case *ast.Ident:
		return x.Name
	case *ast.BasicLit:
		return x.Value
	case *ast.SelectorExpr:
		return sfText(x.X) + "." + x.Sel.Name
	case *ast.ParenExpr:
		return "(" + sfText(x.X) + ")"
	case *ast.CallExpr:
		args := []string{}
		for _, a := range x.Args {
			args = append(args, sfText(a))
		}
		return sfText(x.Fun) + "(" + strings.Join(args, ",") + ")"
	case *ast.BinaryExpr:
		return sfText(x.X) + x.Op.String() + sfText(x.Y)
	case *ast.UnaryExpr:
		return x.Op.String() + sfText(x.X)
	case *ast.IndexExpr:
		return sfText(x.X) + "[" + sfText(x.Index) + "]"
	}
	return fmt.Sprintf("<%T>", e)
}

// Coq keywords that Go identifiers may collide with
func sfName(n string) string {
	switch n {
	case "end", "in", "match", "with", "let", "fun", "if", "then", "else", "at", "as", "return", "for", "fix", "where":
		return n + "_"
	}
	return n
}

func (t *sfTr) expr(e ast.Expr) string {
	if v, ok := t.rename[sfText(e)]; ok {
		return v
	}
	switch x := e.(type) {
	case *ast.BasicLit:
		if x.Kind == token.INT {
			return strings.ReplaceAll(x.Value, "_", "")
		}
	case *ast.ParenExpr:
		return t.expr(x.X)
	case *ast.BinaryExpr:
		a, b := t.expr(x.X), t.expr(x.Y)
		switch x.Op {
		case token.ADD:
			return "(" + t.wrap + " (" + a + " + " + b + "))"
		case token.SUB:
			return "(" + t.wrap + " (" + a + " - " + b + "))"
		case token.EQL:
			return "(" + a + " =? " + b + ")"
		case token.GEQ:
			return "(" + b + " <=? " + a + ")"
		case token.LEQ:
			return "(" + a + " <=? " + b + ")"
		case token.GTR:
			return "(" + b + " <? " + a + ")"
		case token.LSS:
			return "(" + a + " <? " + b + ")"
		case token.LAND:
			return "(" + a + " && " + b + ")"
		case token.LOR:
			return "(" + a + " || " + b + ")"
		}
	case *ast.UnaryExpr:
		if x.Op == token.NOT {
			return "(negb " + t.expr(x.X) + ")"
		}
	case *ast.CallExpr:
		if id, ok := x.Fun.(*ast.Ident); ok {
			switch {
			case id.Name == "uint64" && len(x.Args) == 1:
				return "(gen_u64 " + t.expr(x.Args[0]) + ")"
			case (id.Name == "int" || id.Name == "int64") && len(x.Args) == 1:
				return "(gen_i64 " + t.expr(x.Args[0]) + ")"
			case id.Name == "min" && len(x.Args) == 2:
				return "(Z.min " + t.expr(x.Args[0]) + " " + t.expr(x.Args[1]) + ")"
			case id.Name == "max" && len(x.Args) == 2:
				return "(Z.max " + t.expr(x.Args[0]) + " " + t.expr(x.Args[1]) + ")"
			}
		}
	case *ast.Ident:
		if x.Name == "true" || x.Name == "false" {
			return x.Name
		}
		if t.locals[x.Name] {
			return sfName(x.Name)
		}
		if v, ok := t.consts[x.Name]; ok {
			return v
		}
	}
	return t.fail("cannot translate expression %s", sfText(e))
}

// stmts translates a loop-free statement list that returns on every path.
func (t *sfTr) stmts(ss []ast.Stmt) string {
	if len(ss) == 0 {
		return t.fail("function body falls off the end")
	}
	switch s := ss[0].(type) {
	case *ast.ReturnStmt:
		if len(s.Results) != 1 {
			return t.fail("return with %d results", len(s.Results))
		}
		return t.expr(s.Results[0])
	case *ast.AssignStmt:
		if len(s.Lhs) != 1 || len(s.Rhs) != 1 || s.Tok != token.DEFINE {
			return t.fail("unsupported assignment %s", sfText(s.Lhs[0]))
		}
		id, ok := s.Lhs[0].(*ast.Ident)
		if !ok {
			return t.fail("unsupported assignment target")
		}
		rhs := t.expr(s.Rhs[0])
		t.locals[id.Name] = true
		return "let " + sfName(id.Name) + " := " + rhs + " in\n  " + t.stmts(ss[1:])
	case *ast.IfStmt:
		if s.Init != nil || s.Else != nil {
			return t.fail("unsupported if form")
		}
		return "if " + t.expr(s.Cond) + " then (" + t.stmts(s.Body.List) + ")\n  else (" + t.stmts(ss[1:]) + ")"
	}
	return t.fail("unsupported statement %T", ss[0])
}

func sfIntConsts(f *ast.File) map[string]string {
	out := map[string]string{}
	for _, d := range f.Decls {
		gd, ok := d.(*ast.GenDecl)
		if !ok || gd.Tok != token.CONST {
			continue
		}
		for _, sp := range gd.Specs {
			vs := sp.(*ast.ValueSpec)
			for i, n := range vs.Names {
				if i < len(vs.Values) {
					if bl, ok := vs.Values[i].(*ast.BasicLit); ok && bl.Kind == token.INT {
						out[n.Name] = strings.ReplaceAll(bl.Value, "_", "")
					}
				}
			}
		}
	}
	return out
}

func sfFunc(f *ast.File, name string) *ast.FuncDecl {
	for _, d := range f.Decls {
		if fd, ok := d.(*ast.FuncDecl); ok && fd.Recv == nil && fd.Name.Name == name {
			return fd
		}
	}
	return nil
}

func sfParamNames(fd *ast.FuncDecl) []string {
	var out []string
	for _, fl := range fd.Type.Params.List {
		for _, n := range fl.Names {
			out = append(out, n.Name)
		}
	}
	return out
}

// reorg-depth helper: (status pointer, header [, depth int]) -> int
func sfReorgHelper(f *ast.File, goName, coqName string) (string, error) {
	fd := sfFunc(f, goName)
	if fd == nil {
		return "", fmt.Errorf("function %s not found", goName)
	}
	ps := sfParamNames(fd)
	if len(ps) != 2 && len(ps) != 3 {
		return "", fmt.Errorf("%s: expected (status, header[, depth]), got %d parameters", goName, len(ps))
	}
	st, hd := ps[0], ps[1]
	t := &sfTr{wrap: "gen_i64", locals: map[string]bool{}, consts: sfIntConsts(f), rename: map[string]string{
		hd + ".Number.Int64()": "(gen_i64 header_number)",
		st + ".BlockNumber":    "synced_number",
		"bytes.Equal(" + hd + ".ParentHash.Bytes()," + st + ".BlockHash)": "parent_is_synced_hash",
		"len(" + st + ".BlockHash)": "synced_hash_len",
	}}
	params := "(header_number synced_number : Z) (parent_is_synced_hash : bool) (synced_hash_len : Z)"
	if len(ps) == 3 {
		t.locals[ps[2]] = true
		params += " (" + sfName(ps[2]) + " : Z)"
	}
	body := t.stmts(fd.Body.List)
	if t.err != nil {
		return "", fmt.Errorf("%s: %v", goName, t.err)
	}
	return "Definition " + coqName + " " + params + " : Z :=\n  " + body + ".\n", nil
}

// GetSyncRanges: `ranges := [][2]uint64{}`, one for loop, `return ranges`
func sfSyncRanges(f *ast.File) (string, error) {
	const goName = "GetSyncRanges"
	bad := func(format string, a ...any) (string, error) {
		return "", fmt.Errorf(goName+": "+format, a...)
	}
	fd := sfFunc(f, goName)
	if fd == nil {
		return bad("not found")
	}
	ps := sfParamNames(fd)
	if len(ps) != 3 {
		return bad("expected three parameters")
	}
	body := fd.Body.List
	if len(body) != 3 {
		return bad("expected `ranges := ...; for ...; return ranges`, got %d statements", len(body))
	}
	as, ok := body[0].(*ast.AssignStmt)
	if !ok || as.Tok != token.DEFINE || len(as.Lhs) != 1 || sfText(as.Rhs[0]) != "<*ast.CompositeLit>" {
		return bad("first statement is not `ranges := [][2]uint64{}`")
	}
	if cl := as.Rhs[0].(*ast.CompositeLit); len(cl.Elts) != 0 {
		return bad("the result list does not start empty")
	}
	acc := sfText(as.Lhs[0])
	ret, ok := body[2].(*ast.ReturnStmt)
	if !ok || len(ret.Results) != 1 || sfText(ret.Results[0]) != acc {
		return bad("last statement is not `return %s`", acc)
	}
	loop, ok := body[1].(*ast.ForStmt)
	if !ok {
		return bad("second statement is not a for loop")
	}
	t := &sfTr{wrap: "gen_u64", locals: map[string]bool{}, consts: map[string]string{}, rename: map[string]string{}}
	for _, p := range ps {
		t.locals[p] = true
	}
	init, ok := loop.Init.(*ast.AssignStmt)
	if !ok || init.Tok != token.DEFINE || len(init.Lhs) != 1 {
		return bad("unsupported loop initialisation")
	}
	iv := sfText(init.Lhs[0])
	initE := t.expr(init.Rhs[0])
	t.locals[iv] = true
	cond := "true"
	if loop.Cond != nil {
		cond = t.expr(loop.Cond)
	}
	var post string
	switch p := loop.Post.(type) {
	case *ast.AssignStmt:
		if p.Tok != token.ADD_ASSIGN || sfText(p.Lhs[0]) != iv {
			return bad("unsupported loop post statement")
		}
		post = "(gen_u64 (" + sfName(iv) + " + " + t.expr(p.Rhs[0]) + "))"
	case *ast.IncDecStmt:
		if p.Tok != token.INC || sfText(p.X) != iv {
			return bad("unsupported loop post statement")
		}
		post = "(gen_u64 (" + sfName(iv) + " + 1))"
	default:
		return bad("unsupported loop post statement")
	}
	accN := sfName(acc)
	// body translates a statement list of the loop body; tail is what follows its last statement:
	// the next iteration at the top level, nothing inside an if (its list must end in break).
	var bodyErr error
	var lbody func(ss []ast.Stmt, tail string, ind string) string
	lbody = func(ss []ast.Stmt, tail string, ind string) string {
		fail := func(format string, a ...any) string {
			if bodyErr == nil {
				bodyErr = fmt.Errorf(format, a...)
			}
			return "GenRangesPanic"
		}
		if len(ss) == 0 {
			if tail == "" {
				return fail("an if in the loop must end in break")
			}
			return ind + tail
		}
		rest := ss[1:]
		switch x := ss[0].(type) {
		case *ast.BranchStmt:
			if x.Tok != token.BREAK || x.Label != nil || len(rest) != 0 {
				return fail("unsupported branch statement in the loop")
			}
			return ind + "GenRangesDone " + accN
		case *ast.AssignStmt:
			if len(x.Lhs) != 1 || len(x.Rhs) != 1 {
				return fail("unsupported assignment in the loop")
			}
			if x.Tok == token.DEFINE {
				id, ok := x.Lhs[0].(*ast.Ident)
				if !ok {
					return fail("unsupported assignment target in the loop")
				}
				rhs := t.expr(x.Rhs[0])
				t.locals[id.Name] = true
				return ind + "let " + sfName(id.Name) + " := " + rhs + " in\n" + lbody(rest, tail, ind)
			}
			if x.Tok != token.ASSIGN {
				return fail("unsupported assignment in the loop")
			}
			// ranges[len(ranges)-1][1] = e
			if sfText(x.Lhs[0]) == acc+"[len("+acc+")-1][1]" {
				return ind + "match gen_set_last_snd " + accN + " " + t.expr(x.Rhs[0]) + " with\n" +
					ind + "| Some " + accN + " =>\n" + lbody(rest, tail, ind+"    ") + "\n" +
					ind + "| None => GenRangesPanic\n" + ind + "end"
			}
			// ranges = append(ranges, [2]uint64{a, b})
			call, ok := x.Rhs[0].(*ast.CallExpr)
			if sfText(x.Lhs[0]) != acc || !ok || sfText(call.Fun) != "append" || len(call.Args) != 2 || sfText(call.Args[0]) != acc {
				return fail("unsupported assignment in the loop: %s", sfText(x.Lhs[0]))
			}
			cl, ok := call.Args[1].(*ast.CompositeLit)
			if !ok || len(cl.Elts) != 2 {
				return fail("append of something that is not a pair")
			}
			return ind + "let " + accN + " := " + accN + " ++ [(" + t.expr(cl.Elts[0]) + ", " + t.expr(cl.Elts[1]) + ")] in\n" + lbody(rest, tail, ind)
		case *ast.IfStmt:
			if x.Init != nil || x.Else != nil {
				return fail("unsupported if form in the loop")
			}
			c := t.expr(x.Cond)
			// the locals of the branch are not visible after it
			saved := map[string]bool{}
			for k, v := range t.locals {
				saved[k] = v
			}
			thenS := lbody(x.Body.List, "", ind+"    ")
			t.locals = saved
			return ind + "if " + c + " then (\n" + thenS + "\n" + ind + ") else (\n" + lbody(rest, tail, ind+"    ") + "\n" + ind + ")"
		}
		return fail("unsupported statement %T in the loop", ss[0])
	}
	pn0 := make([]string, len(ps))
	for i, p := range ps {
		pn0[i] = sfName(p)
	}
	next := "gen_get_sync_ranges_loop fuel' " + post + " " + accN + " " + strings.Join(pn0, " ")
	bodyS := lbody(loop.Body.List, next, "        ")
	if bodyErr != nil {
		return bad("%v", bodyErr)
	}
	if t.err != nil {
		return "", fmt.Errorf(goName+": %v", t.err)
	}
	pn := make([]string, len(ps))
	for i, p := range ps {
		pn[i] = sfName(p)
	}
	var out strings.Builder
	fmt.Fprintf(&out, "Fixpoint gen_get_sync_ranges_loop (fuel : nat) (%s : Z) (%s : list (Z * Z)) (%s : Z) : gen_ranges_outcome :=\n", sfName(iv), accN, strings.Join(pn, " "))
	out.WriteString("  match fuel with\n  | O => GenRangesOutOfFuel\n  | S fuel' =>\n")
	fmt.Fprintf(&out, "      if %s then (\n", cond)
	out.WriteString(bodyS)
	fmt.Fprintf(&out, "\n      ) else GenRangesDone %s\n  end.\n\n", accN)
	fmt.Fprintf(&out, "Definition gen_get_sync_ranges (fuel : nat) (%s : Z) : gen_ranges_outcome :=\n  gen_get_sync_ranges_loop fuel %s [] %s.\n", strings.Join(pn, " "), initE, strings.Join(pn, " "))
	return out.String(), nil
}

func genSyncFuns(repo string) (string, error) {
	parse := func(rel string) (*ast.File, error) {
		return parser.ParseFile(token.NewFileSet(), filepath.Join(repo, rel), nil, parser.SkipObjectResolution)
	}
	var sb strings.Builder
	sb.WriteString("(* GENERATED by harness/cmd/translate (gen_syncfuns.go) from the repository source. Do not edit. *)\n")
	sb.WriteString("From Coq Require Import List ZArith Bool.\nImport ListNotations.\nOpen Scope Z_scope.\n\n")
	sb.WriteString("Definition gen_u64 (x : Z) : Z := x mod 18446744073709551616.\n")
	sb.WriteString("Definition gen_i64 (x : Z) : Z :=\n  let y := x mod 18446744073709551616 in if y <? 9223372036854775808 then y else y - 18446744073709551616.\n\n")
	sb.WriteString("Inductive gen_ranges_outcome :=\n| GenRangesDone (rs : list (Z * Z))\n| GenRangesPanic       (* index out of range *)\n| GenRangesOutOfFuel.\n\n")
	sb.WriteString("(* ranges[len(ranges)-1][1] = v *)\nDefinition gen_set_last_snd (l : list (Z * Z)) (v : Z) : option (list (Z * Z)) :=\n  match rev l with [] => None | (a, _) :: r => Some (rev ((a, v) :: r)) end.\n\n")
	f, err := parse("medley/syncranges.go")
	if err != nil {
		return "", err
	}
	s, err := sfSyncRanges(f)
	if err != nil {
		return "", fmt.Errorf("medley/syncranges.go: %v", err)
	}
	sb.WriteString("(* medley/syncranges.go GetSyncRanges: the loop as a fuelled recursion *)\n" + s + "\n")
	for _, q := range [][3]string{
		{"keyperimpl/shutterservice/registrysyncer.go", "getNumReorgedBlocks", "gen_registry_num_reorged"},
		{"keyperimpl/gnosis/sequencersyncer.go", "getNumReorgedBlocks", "gen_sequencer_num_reorged"},
		{"keyperimpl/shutterservice/multieventsyncer.go", "calculateReorgDepth", "gen_multi_reorg_depth"},
	} {
		f, err := parse(q[0])
		if err != nil {
			return "", err
		}
		s, err := sfReorgHelper(f, q[1], q[2])
		if err != nil {
			return "", fmt.Errorf("%s: %v", q[0], err)
		}
		sb.WriteString("(* " + q[0] + " " + q[1] + " *)\n" + s + "\n")
	}
	return sb.String(), nil
}
