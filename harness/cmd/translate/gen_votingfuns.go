package main

// VotingFuns: app/voting.go (SetVote, AddVote, outcomeIndex, Outcome) and app/dkg.go (the four
// DKGInstance.Register*Msg functions) translated statement by statement into functions over the
// record types of Model/App.v (voting T, dkg).
//
// The fragment (everything else is REFUSED):
//   * the receiver is a record value that is rebuilt on every field write
//     (`v.Votes[k] = e`, `v.Candidates = append(v.Candidates, e)`, `dkg.XSeen[k] = struct{}{}`);
//   * `for i, x := range <slice> { ... }` whose body contains a return is a search loop
//     (find_first_idx: the body answers Some r or falls through); a write that can fall
//     through to the next iteration is refused;
//   * a range loop without return is a fold over ONE accumulator (the receiver or a local map);
//     ranging over a map FIELD adds an explicit enumeration parameter `enum_<Field>_<n>` so that
//     theorems quantify over every iteration order; ranging over a LOCAL map is refused (its
//     enumeration order would become part of the result: the shape of the repaired defect D6);
//   * `if [init;] c { ...; return }` (no else, body ends in return); `x := e`;
//     `m := make(map[int]int)`; `m[k]++`; `_, ok := M[k]`; `x, ok := m[k]`;
//     `idx, ok := recv.f(args); if !ok { ...return }` (a (value, ok) result is an option);
//   * the classification of returned errors: `nil`, a sentinel wrapped with %w, anything else.
//     Which sentinel app.go answers with "already seen" is read from app.go.

import (
	"fmt"
	"go/ast"
	"go/token"
	"os"
	"path/filepath"
	"regexp"
	"strings"
)

func init() { register("VotingFuns", genVotingFuns) }

type vfField struct {
	proj string // Coq projection
	kind string // amap_nat | list_T | set_pair | set_addr | N | config | voting_bool
}

type vfRec struct {
	ctor   string
	order  []string // Go field names in constructor order
	fields map[string]vfField
}

var vfVoting = &vfRec{ctor: "mkVoting", order: []string{"Votes", "Candidates"}, fields: map[string]vfField{
	"Votes": {"v_votes", "amap_nat"}, "Candidates": {"v_cands", "list_T"}}}

var vfDkg = &vfRec{ctor: "mkDkg", order: []string{"Config", "Eon", "SuccessVoting", "PolyEvalsSeen", "PolyCommitmentsSeen", "AccusationsSeen", "ApologiesSeen"},
	fields: map[string]vfField{
		"Config": {"d_config", "config"}, "Eon": {"d_eon", "N"}, "SuccessVoting": {"d_success", "voting_bool"},
		"PolyEvalsSeen": {"d_evals", "set_pair"}, "PolyCommitmentsSeen": {"d_commits", "set_addr"},
		"AccusationsSeen": {"d_accs", "set_addr"}, "ApologiesSeen": {"d_apos", "set_addr"}}}

type vft struct {
	recv    string // receiver name in the Go source
	crecv   string // receiver name in the Coq text
	rec     *vfRec
	kinds   map[string]string // local or renamed name -> kind
	rename  map[string]string // Go expression text -> Coq name
	eqVar   string            // the `var eq E` local
	enums   []string          // enumeration parameters, in order of the loops
	retf    func(t *vft, rs []ast.Expr) string
	sents   map[string]bool // sentinel error variables answered with "seen"
	err     error
	elemOf  map[string]string // kind of the elements of a renamed slice
	callees map[string]string // receiver method -> generated name (value-returning ones)
	loopFall string           // what `continue` means in the innermost loop
	constBool map[string]bool // locals whose value is known on the path being translated
}

func (t *vft) fail(format string, a ...any) string {
	if t.err == nil {
		t.err = fmt.Errorf(format, a...)
	}
	return "_"
}

func (t *vft) field(e ast.Expr) (string, vfField, bool) {
	se, ok := e.(*ast.SelectorExpr)
	if !ok {
		return "", vfField{}, false
	}
	id, ok := se.X.(*ast.Ident)
	if !ok || id.Name != t.recv {
		return "", vfField{}, false
	}
	f, ok := t.rec.fields[se.Sel.Name]
	return se.Sel.Name, f, ok
}

// with returns the receiver rebuilt with one field replaced.
func (t *vft) with(fieldName, val string) string {
	parts := []string{t.rec.ctor}
	for _, fn := range t.rec.order {
		if fn == fieldName {
			parts = append(parts, val)
		} else {
			parts = append(parts, "("+t.rec.fields[fn].proj+" "+t.crecv+")")
		}
	}
	return strings.Join(parts, " ")
}

func (t *vft) expr(e ast.Expr) (string, string) {
	if r, ok := t.rename[exprText(e)]; ok {
		return r, t.kinds[r]
	}
	switch x := e.(type) {
	case *ast.ParenExpr:
		s, k := t.expr(x.X)
		return "(" + s + ")", k
	case *ast.BasicLit:
		if x.Kind == token.INT {
			return x.Value, "lit"
		}
	case *ast.Ident:
		if x.Name == "true" || x.Name == "false" {
			return x.Name, "bool"
		}
		if k, ok := t.kinds[x.Name]; ok {
			return x.Name, k
		}
	case *ast.SelectorExpr:
		if _, f, ok := t.field(x); ok {
			return "(" + f.proj + " " + t.crecv + ")", f.kind
		}
	case *ast.UnaryExpr:
		if x.Op == token.NOT {
			s, k := t.expr(x.X)
			if k == "bool" {
				return "(negb " + s + ")", "bool"
			}
		}
	case *ast.CompositeLit:
		if exprText(x.Type) == "SenderReceiverPair" && len(x.Elts) == 2 {
			a, ka := t.expr(x.Elts[0])
			b, kb := t.expr(x.Elts[1])
			if ka == "addr" && kb == "addr" {
				return "(" + a + ", " + b + ")", "pair"
			}
		}
	case *ast.IndexExpr:
		// a read of a list field by index: nth_error (None = index panic)
		if _, f, ok := t.field(x.X); ok && f.kind == "list_T" {
			i, ki := t.expr(x.Index)
			if ki == "nat" {
				return "(nth_error (" + f.proj + " " + t.crecv + ") " + i + ")", "opt_T"
			}
		}
		if id, ok := x.X.(*ast.Ident); ok && t.kinds[id.Name] == "nmap" {
			i, ki := t.expr(x.Index)
			if ki == "nat" {
				return "(nget0 " + id.Name + " " + i + ")", "Z"
			}
		}
	case *ast.CallExpr:
		fn := exprText(x.Fun)
		switch {
		case fn == "len" && len(x.Args) == 1:
			s, k := t.expr(x.Args[0])
			if k == "list_T" || k == "list_addr" {
				return "(length " + s + ")", "nat"
			}
		case fn == t.recv+".Config.IsKeyper" && len(x.Args) == 1 && t.rec == vfDkg:
			s, k := t.expr(x.Args[0])
			if k == "addr" {
				return "(is_keyper (d_config " + t.crecv + ") " + s + ")", "bool"
			}
		case strings.HasSuffix(fn, ".IsKeyper") && len(x.Args) == 1:
			// a local that holds the instance's config
			if se, ok := x.Fun.(*ast.SelectorExpr); ok {
				if id, ok := se.X.(*ast.Ident); ok && t.kinds[id.Name] == "config" {
					s, k := t.expr(x.Args[0])
					if k == "addr" {
						return "(is_keyper " + id.Name + " " + s + ")", "bool"
					}
				}
			}
		case t.eqVar != "" && fn == t.eqVar+".Equals" && len(x.Args) == 2:
			a, ka := t.expr(x.Args[0])
			b, kb := t.expr(x.Args[1])
			if ka == "T" && kb == "T" {
				return "(eq " + a + " " + b + ")", "bool"
			}
		}
	case *ast.BinaryExpr:
		a, ka := t.expr(x.X)
		b, kb := t.expr(x.Y)
		if ka == "lit" && kb != "lit" {
			ka = kb
		}
		if kb == "lit" {
			kb = ka
		}
		if ka != kb {
			return t.fail("operands of %s have different kinds (%s, %s)", exprText(e), ka, kb), ""
		}
		switch x.Op {
		case token.LAND:
			if ka == "bool" {
				return "(" + a + " && " + b + ")", "bool"
			}
		case token.LOR:
			if ka == "bool" {
				return "(" + a + " || " + b + ")", "bool"
			}
		case token.EQL, token.NEQ:
			var s string
			switch ka {
			case "N":
				s = "(N.eqb " + a + " " + b + ")"
			case "addr":
				s = "(bytes_eqb " + a + " " + b + ")"
			case "nat":
				s = "(Nat.eqb " + a + " " + b + ")"
			case "Z":
				s = "(Z.eqb " + a + " " + b + ")"
			default:
				return t.fail("== on kind %s", ka), ""
			}
			if x.Op == token.NEQ {
				s = "(negb " + s + ")"
			}
			return s, "bool"
		case token.GEQ, token.LEQ, token.LSS, token.GTR:
			if ka == "nat" {
				switch x.Op {
				case token.GEQ:
					return "(Nat.leb " + b + " " + a + ")", "bool"
				case token.LEQ:
					return "(Nat.leb " + a + " " + b + ")", "bool"
				case token.LSS:
					return "(Nat.ltb " + a + " " + b + ")", "bool"
				case token.GTR:
					return "(Nat.ltb " + b + " " + a + ")", "bool"
				}
			}
			if ka == "Z" {
				switch x.Op {
				case token.GEQ:
					return "(Z.leb " + b + " " + a + ")", "bool"
				case token.LEQ:
					return "(Z.leb " + a + " " + b + ")", "bool"
				case token.LSS:
					return "(Z.ltb " + a + " " + b + ")", "bool"
				case token.GTR:
					return "(Z.ltb " + b + " " + a + ")", "bool"
				}
			}
		case token.SUB:
			// len(...) - 1 on a non-empty slice; on nat the subtraction is truncated, which the
			// agreement proof has to live with (it shows the slice is non-empty there)
			if ka == "nat" {
				return "(" + a + " - " + b + ")%nat", "nat"
			}
		case token.ADD:
			if ka == "Z" {
				return "(" + a + " + " + b + ")%Z", "Z"
			}
		}
	}
	return t.fail("cannot translate expression %s (%T)", exprText(e), e), ""
}

func vfEndsInReturn(ss []ast.Stmt) bool {
	if len(ss) == 0 {
		return false
	}
	_, ok := ss[len(ss)-1].(*ast.ReturnStmt)
	return ok
}

// vfTailAlwaysReturns: the statements end in a return and contain no `continue`, so a write made
// before them is part of the returned value and cannot be carried into another iteration.
func vfTailAlwaysReturns(ss []ast.Stmt) bool {
	if !vfEndsInReturn(ss) {
		return false
	}
	cont := false
	for _, st := range ss {
		ast.Inspect(st, func(n ast.Node) bool {
			if b, ok := n.(*ast.BranchStmt); ok && b.Tok == token.CONTINUE {
				cont = true
			}
			return !cont
		})
	}
	return !cont
}

// constCond: the value of a condition that is a local with a known value, or its negation.
func (t *vft) constCond(e ast.Expr) (bool, bool) {
	switch x := e.(type) {
	case *ast.ParenExpr:
		return t.constCond(x.X)
	case *ast.Ident:
		v, ok := t.constBool[x.Name]
		return v, ok
	case *ast.UnaryExpr:
		if x.Op == token.NOT {
			v, ok := t.constCond(x.X)
			return !v, ok
		}
	}
	return false, false
}

func vfEndsInContinue(ss []ast.Stmt) bool {
	if len(ss) == 0 {
		return false
	}
	b, ok := ss[len(ss)-1].(*ast.BranchStmt)
	return ok && b.Tok == token.CONTINUE && b.Label == nil
}

// indexLoop recognises `for i := 0; i < len(X); i++ { body }` and returns the equivalent
// `for i, i_elem := range X { body }`; reads X[i] in the body become i_elem.
func (t *vft) indexLoop(s *ast.ForStmt) *ast.RangeStmt {
	as, ok := s.Init.(*ast.AssignStmt)
	if !ok || as.Tok != token.DEFINE || len(as.Lhs) != 1 || len(as.Rhs) != 1 || exprText(as.Rhs[0]) != "0" {
		return nil
	}
	iv, ok := as.Lhs[0].(*ast.Ident)
	if !ok {
		return nil
	}
	cond, ok := s.Cond.(*ast.BinaryExpr)
	if !ok || cond.Op != token.LSS || exprText(cond.X) != iv.Name {
		return nil
	}
	call, ok := cond.Y.(*ast.CallExpr)
	if !ok || exprText(call.Fun) != "len" || len(call.Args) != 1 {
		return nil
	}
	inc, ok := s.Post.(*ast.IncDecStmt)
	if !ok || inc.Tok != token.INC || exprText(inc.X) != iv.Name {
		return nil
	}
	// the body must not assign the index variable or the slice
	bad := false
	ast.Inspect(s.Body, func(n ast.Node) bool {
		switch x := n.(type) {
		case *ast.AssignStmt:
			for _, l := range x.Lhs {
				if exprText(l) == iv.Name || exprText(l) == exprText(call.Args[0]) {
					bad = true
				}
			}
		case *ast.IncDecStmt:
			if exprText(x.X) == iv.Name {
				bad = true
			}
		}
		return !bad
	})
	if bad {
		return nil
	}
	elem := iv.Name + "_elem"
	t.rename[exprText(call.Args[0])+"["+iv.Name+"]"] = elem
	return &ast.RangeStmt{Key: ast.NewIdent(iv.Name), Value: ast.NewIdent(elem), Tok: token.DEFINE, X: call.Args[0], Body: s.Body}
}

func vfContainsReturn(n ast.Node) bool {
	found := false
	ast.Inspect(n, func(m ast.Node) bool {
		if _, ok := m.(*ast.ReturnStmt); ok {
			found = true
		}
		return !found
	})
	return found
}

// block translates the statements; fall is the value of falling off the end ("" = not allowed);
// search tells that we are inside a search loop body at a point that can fall through to the
// next iteration (writes are refused there); wrap is applied to returned values.
func (t *vft) block(ss []ast.Stmt, fall string, search bool, wrap func(string) string, ind string) string {
	var sb strings.Builder
	for i := 0; i < len(ss); i++ {
		switch s := ss[i].(type) {
		case *ast.ReturnStmt:
			if i != len(ss)-1 {
				return t.fail("statements after return")
			}
			sb.WriteString(ind + wrap(t.retf(t, s.Results)))
			return sb.String()
		case *ast.DeclStmt:
			gd, ok := s.Decl.(*ast.GenDecl)
			if !ok || gd.Tok != token.VAR || len(gd.Specs) != 1 {
				return t.fail("unsupported declaration")
			}
			vs := gd.Specs[0].(*ast.ValueSpec)
			if len(vs.Names) != 1 || len(vs.Values) != 0 {
				return t.fail("unsupported var declaration")
			}
			switch exprText(vs.Type) {
			case "E":
				t.eqVar = vs.Names[0].Name
			case "T":
				// `var n T` zero value returned together with ok=false: never looked at
				t.kinds[vs.Names[0].Name] = "zeroT"
			default:
				return t.fail("unsupported var declaration of type %s", exprText(vs.Type))
			}
		case *ast.AssignStmt:
			// (value, ok) := recv.method(args); if !ok { ... return }
			if s.Tok == token.DEFINE && len(s.Lhs) == 2 && len(s.Rhs) == 1 {
				if call, ok := s.Rhs[0].(*ast.CallExpr); ok {
					if se, ok := call.Fun.(*ast.SelectorExpr); ok && exprText(se.X) == t.recv {
						gen, known := t.callees[se.Sel.Name]
						if !known {
							return t.fail("call of unknown method %s", se.Sel.Name)
						}
						val, okv := exprText(s.Lhs[0]), exprText(s.Lhs[1])
						args := []string{}
						for _, a := range call.Args {
							as, _ := t.expr(a)
							args = append(args, as)
						}
						enumArgs := ""
						if gen == "gen_outcome_index" {
							t.enums = append(t.enums, "enum_Votes_1")
							enumArgs = " enum_Votes_1"
						}
						// a (value, ok) result is an option: the rest of the block is translated
						// once for ok = false (the value is not bound there: a use of it on that
						// path does not compile) and once for ok = true
						if t.constBool == nil {
							t.constBool = map[string]bool{}
						}
						t.constBool[okv] = false
						delete(t.kinds, val)
						noneS := t.block(ss[i+1:], fall, search, wrap, ind+"  ")
						t.constBool[okv] = true
						t.kinds[val] = "nat"
						someS := t.block(ss[i+1:], fall, search, wrap, ind+"  ")
						delete(t.constBool, okv)
						fmt.Fprintf(&sb, "%smatch %s %s%s %s with\n", ind, gen, t.crecv, enumArgs, strings.Join(args, " "))
						fmt.Fprintf(&sb, "%s| None =>\n%s\n", ind, noneS)
						fmt.Fprintf(&sb, "%s| Some %s =>\n%s\n%send", ind, val, someS, ind)
						return sb.String()
					}
				}
			}
			sb.WriteString(t.assign(s, search && !vfTailAlwaysReturns(ss[i+1:]), ind))
		case *ast.IncDecStmt:
			ix, ok := s.X.(*ast.IndexExpr)
			if !ok || s.Tok != token.INC {
				return t.fail("unsupported increment")
			}
			id, ok := ix.X.(*ast.Ident)
			if !ok || t.kinds[id.Name] != "nmap" {
				return t.fail("unsupported increment target")
			}
			if search && !vfTailAlwaysReturns(ss[i+1:]) {
				return t.fail("write in a search loop at a point that can fall through")
			}
			k, kk := t.expr(ix.Index)
			if kk != "nat" {
				return t.fail("index of %s is not an index value", id.Name)
			}
			fmt.Fprintf(&sb, "%slet %s := nset %s %s (nget0 %s %s + 1)%%Z in\n", ind, id.Name, id.Name, k, id.Name, k)
		case *ast.ExprStmt:
			call, ok := s.X.(*ast.CallExpr)
			if !ok {
				return t.fail("unsupported statement")
			}
			if exprText(call.Fun) == t.recv+".SetVote" && len(call.Args) == 2 && t.rec == vfVoting {
				if search && !vfTailAlwaysReturns(ss[i+1:]) {
					return t.fail("write in a search loop at a point that can fall through")
				}
				a, ka := t.expr(call.Args[0])
				b, kb := t.expr(call.Args[1])
				if ka != "addr" || kb != "T" {
					return t.fail("SetVote arguments")
				}
				fmt.Fprintf(&sb, "%slet %s := gen_set_vote eq %s %s %s in\n", ind, t.crecv, t.crecv, a, b)
			} else {
				return t.fail("unsupported call statement %s", exprText(call.Fun))
			}
		case *ast.IfStmt:
			if s.Init != nil {
				as, ok := s.Init.(*ast.AssignStmt)
				if !ok {
					return t.fail("unsupported if initialiser")
				}
				sb.WriteString(t.assign(as, search, ind))
			}
			if v, known := t.constCond(s.Cond); known {
				var live []ast.Stmt
				if v {
					live = s.Body.List
				} else if s.Else != nil {
					eb, ok := s.Else.(*ast.BlockStmt)
					if !ok {
						return t.fail("else-if chains are not understood")
					}
					live = eb.List
				}
				if vfEndsInReturn(live) || vfEndsInContinue(live) {
					return sb.String() + t.block(live, "", search, wrap, ind)
				}
				return sb.String() + t.block(append(append([]ast.Stmt{}, live...), ss[i+1:]...), fall, search, wrap, ind)
			}
			c, kc := t.expr(s.Cond)
			if kc != "bool" {
				return t.fail("condition %s is not boolean", exprText(s.Cond))
			}
			// the statements after the if are translated once; a branch that does not return
			// continues with that text (its own rebindings are in scope there)
			saved := t.err
			rest := t.block(ss[i+1:], fall, search, wrap, ind)
			restErr := t.err
			restOK := t.err == saved
			if !restOK {
				// an untranslatable remainder is only an error if some branch continues with it
				t.err = saved
			}
			branch := func(body []ast.Stmt) string {
				if vfEndsInReturn(body) || vfEndsInContinue(body) {
					return t.block(body, "", false, wrap, ind+"  ")
				}
				if !restOK {
					return t.fail("after `if %s`: %v", exprText(s.Cond), restErr)
				}
				return t.block(body, strings.TrimLeft(rest, " "), search, wrap, ind+"  ")
			}
			thenS := branch(s.Body.List)
			elseS := rest
			switch e := s.Else.(type) {
			case nil:
				if !restOK {
					return t.fail("after `if %s`: %v", exprText(s.Cond), restErr)
				}
			case *ast.BlockStmt:
				elseS = branch(e.List)
			default:
				return t.fail("else-if chains are not understood")
			}
			fmt.Fprintf(&sb, "%sif %s then\n%s\n%selse\n%s", ind, c, thenS, ind, elseS)
			return sb.String()
		case *ast.BranchStmt:
			if s.Tok != token.CONTINUE || s.Label != nil || i != len(ss)-1 || t.loopFall == "" {
				return t.fail("unsupported branch statement")
			}
			sb.WriteString(ind + t.loopFall)
			return sb.String()
		case *ast.ForStmt:
			rs := t.indexLoop(s)
			if rs == nil {
				return t.fail("only `for i := 0; i < len(x); i++` index loops are understood")
			}
			nss := append(append([]ast.Stmt{}, ss[:i]...), rs)
			nss = append(nss, ss[i+1:]...)
			ss = nss
			i--
			continue
		case *ast.RangeStmt:
			if vfContainsReturn(s.Body) {
				src, elemKind := t.rangeSource(s)
				key, val := "_", "_"
				if s.Key != nil && exprText(s.Key) != "_" {
					key = exprText(s.Key)
					t.kinds[key] = "nat"
				}
				if s.Value != nil && exprText(s.Value) != "_" {
					val = exprText(s.Value)
					t.kinds[val] = elemKind
				}
				if search {
					return t.fail("nested search loops")
				}
				savedFall := t.loopFall
				t.loopFall = "None"
				body := t.block(s.Body.List, "None", true, func(v string) string { return "Some (" + wrap(v) + ")" }, ind+"  ")
				t.loopFall = savedFall
				rest := t.block(ss[i+1:], fall, false, wrap, ind)
				keyb := key
				if key != "_" {
					keyb = "(" + key + " : nat)"
				}
				fmt.Fprintf(&sb, "%smatch find_first_idx (fun %s %s =>\n%s) %s with\n%s| Some r => r\n%s| None =>\n%s\n%send", ind, keyb, val, body, src, ind, ind, rest, ind)
				return sb.String()
			}
			if search {
				return t.fail("write loop inside a search loop")
			}
			sb.WriteString(t.foldLoop(s, ind))
		default:
			return t.fail("unsupported statement %T", ss[i])
		}
	}
	if fall == "" {
		return t.fail("control reaches the end of a block without return")
	}
	sb.WriteString(ind + fall)
	return sb.String()
}

// rangeSource: the list a slice loop runs over and the kind of its elements.
func (t *vft) rangeSource(s *ast.RangeStmt) (string, string) {
	if s.Tok != token.DEFINE {
		return t.fail("range with assignment"), ""
	}
	if _, f, ok := t.field(s.X); ok && f.kind == "list_T" {
		return "(" + f.proj + " " + t.crecv + ")", "T"
	}
	if r, ok := t.rename[exprText(s.X)]; ok && t.kinds[r] == "list_addr" {
		return r, "addr"
	}
	if id, ok := s.X.(*ast.Ident); ok && t.kinds[id.Name] == "nmap" {
		return t.fail("range over the local map %s: the iteration order of a Go map would decide the result", id.Name), ""
	}
	return t.fail("range over %s is not understood", exprText(s.X)), ""
}

func (t *vft) foldLoop(s *ast.RangeStmt, ind string) string {
	// accumulator: the receiver or one local map
	acc := ""
	ast.Inspect(s.Body, func(n ast.Node) bool {
		var target ast.Expr
		switch x := n.(type) {
		case *ast.AssignStmt:
			if x.Tok != token.DEFINE && len(x.Lhs) == 1 {
				target = x.Lhs[0]
			}
		case *ast.IncDecStmt:
			target = x.X
		}
		if target == nil {
			return true
		}
		root := target
		for {
			switch y := root.(type) {
			case *ast.IndexExpr:
				root = y.X
				continue
			case *ast.SelectorExpr:
				root = y.X
				continue
			}
			break
		}
		name := exprText(root)
		if acc != "" && acc != name {
			t.fail("loop writes two variables (%s, %s)", acc, name)
		}
		acc = name
		return true
	})
	if acc == "" || (acc != t.recv && t.kinds[acc] != "nmap") {
		return t.fail("loop without a recognised accumulator")
	}
	if acc == t.recv {
		acc = t.crecv
	}
	var src, binder string
	key, val := "", ""
	if s.Key != nil && exprText(s.Key) != "_" {
		key = exprText(s.Key)
	}
	if s.Value != nil && exprText(s.Value) != "_" {
		val = exprText(s.Value)
	}
	if fn, f, ok := t.field(s.X); ok && f.kind == "amap_nat" {
		// a map field: explicit enumeration parameter
		name := fmt.Sprintf("enum_%s_%d", fn, len(t.enums)+1)
		t.enums = append(t.enums, name)
		src = name
		binder = "kv"
		pre := ""
		if key != "" {
			t.kinds[key] = "addr"
			pre += "let " + key + " := fst kv in "
		}
		if val != "" {
			t.kinds[val] = "nat"
			pre += "let " + val + " := snd kv in "
		}
		savedFall := t.loopFall
		t.loopFall = acc
		body := t.block(s.Body.List, acc, false, func(v string) string { return t.fail("return in a fold loop") }, ind+"    ")
		t.loopFall = savedFall
		return fmt.Sprintf("%slet %s := fold_left (fun %s %s =>\n%s  %s\n%s) %s %s in\n", ind, acc, acc, binder, ind, pre, body, src, acc)
	}
	src, elemKind := t.rangeSource(s)
	if key != "" {
		return t.fail("index variable in a fold loop")
	}
	if val == "" {
		val = "_"
	} else {
		t.kinds[val] = elemKind
	}
	savedFall := t.loopFall
	t.loopFall = acc
	body := t.block(s.Body.List, acc, false, func(v string) string { return t.fail("return in a fold loop") }, ind+"    ")
	t.loopFall = savedFall
	return fmt.Sprintf("%slet %s := fold_left (fun %s %s =>\n%s) %s %s in\n", ind, acc, acc, val, body, src, acc)
}

func (t *vft) assign(s *ast.AssignStmt, search bool, ind string) string {
	// _, ok := M[k]   /   x, ok := m[k]
	if s.Tok == token.DEFINE && len(s.Lhs) == 2 && len(s.Rhs) == 1 {
		ix, ok := s.Rhs[0].(*ast.IndexExpr)
		if !ok {
			return t.fail("unsupported two-value assignment")
		}
		val, okv := exprText(s.Lhs[0]), exprText(s.Lhs[1])
		k, kk := t.expr(ix.Index)
		if _, f, isField := t.field(ix.X); isField {
			if val != "_" {
				return t.fail("value of a lookup in %s is used", exprText(ix.X))
			}
			t.kinds[okv] = "bool"
			switch {
			case f.kind == "amap_nat" && kk == "addr":
				return fmt.Sprintf("%slet %s := amem (%s %s) %s in\n", ind, okv, f.proj, t.crecv, k)
			case f.kind == "set_addr" && kk == "addr":
				return fmt.Sprintf("%slet %s := mem_addr %s (%s %s) in\n", ind, okv, k, f.proj, t.crecv)
			case f.kind == "set_pair" && kk == "pair":
				return fmt.Sprintf("%slet %s := pair_mem %s (%s %s) in\n", ind, okv, k, f.proj, t.crecv)
			}
			return t.fail("lookup in %s with a key of kind %s", exprText(ix.X), kk)
		}
		if id, isId := ix.X.(*ast.Ident); isId && t.kinds[id.Name] == "nmap" && kk == "nat" {
			out := ""
			t.kinds[okv] = "bool"
			out += fmt.Sprintf("%slet %s := nmem %s %s in\n", ind, okv, id.Name, k)
			if val != "_" {
				t.kinds[val] = "Z"
				out += fmt.Sprintf("%slet %s := nget0 %s %s in\n", ind, val, id.Name, k)
			}
			return out
		}
		return t.fail("unsupported lookup %s", exprText(s.Rhs[0]))
	}
	if len(s.Lhs) != 1 || len(s.Rhs) != 1 {
		return t.fail("unsupported assignment")
	}
	if s.Tok == token.DEFINE {
		id, ok := s.Lhs[0].(*ast.Ident)
		if !ok {
			return t.fail("unsupported definition")
		}
		if call, ok := s.Rhs[0].(*ast.CallExpr); ok && exprText(call.Fun) == "make" && (len(call.Args) == 1 || len(call.Args) == 2) {
			if mt, ok := call.Args[0].(*ast.MapType); ok && exprText(mt.Key) == "int" && exprText(mt.Value) == "int" {
				t.kinds[id.Name] = "nmap"
				return fmt.Sprintf("%slet %s := ([] : nmap) in\n", ind, id.Name)
			}
			return t.fail("make of an unsupported type")
		}
		v, k := t.expr(s.Rhs[0])
		t.kinds[id.Name] = k
		return fmt.Sprintf("%slet %s := %s in\n", ind, id.Name, v)
	}
	if s.Tok != token.ASSIGN {
		return t.fail("unsupported assignment operator")
	}
	if search {
		return t.fail("write in a search loop at a point that can fall through")
	}
	// recv.F[k] = e
	if ix, ok := s.Lhs[0].(*ast.IndexExpr); ok {
		fn, f, isField := t.field(ix.X)
		if !isField {
			return t.fail("unsupported indexed write")
		}
		k, kk := t.expr(ix.Index)
		switch {
		case f.kind == "amap_nat" && kk == "addr":
			v, kv := t.expr(s.Rhs[0])
			if kv != "nat" {
				return t.fail("vote written is not an index value")
			}
			return fmt.Sprintf("%slet %s := %s in\n", ind, t.crecv, t.with(fn, "(aset ("+f.proj+" "+t.crecv+") "+k+" "+v+")"))
		case f.kind == "set_addr" && kk == "addr" && isEmptyStructLit(s.Rhs[0]):
			return fmt.Sprintf("%slet %s := %s in\n", ind, t.crecv, t.with(fn, "(set_add mem_addr ("+f.proj+" "+t.crecv+") "+k+")"))
		case f.kind == "set_pair" && kk == "pair" && isEmptyStructLit(s.Rhs[0]):
			return fmt.Sprintf("%slet %s := %s in\n", ind, t.crecv, t.with(fn, "(set_add pair_mem ("+f.proj+" "+t.crecv+") "+k+")"))
		}
		return t.fail("unsupported write to %s", exprText(ix.X))
	}
	// recv.F = append(recv.F, e)
	if fn, f, isField := t.field(s.Lhs[0]); isField && f.kind == "list_T" {
		if call, ok := s.Rhs[0].(*ast.CallExpr); ok && exprText(call.Fun) == "append" && len(call.Args) == 2 && exprText(call.Args[0]) == exprText(s.Lhs[0]) {
			v, kv := t.expr(call.Args[1])
			if kv == "T" {
				return fmt.Sprintf("%slet %s := %s in\n", ind, t.crecv, t.with(fn, "(("+f.proj+" "+t.crecv+") ++ ["+v+"])"))
			}
		}
	}
	return t.fail("unsupported assignment to %s", exprText(s.Lhs[0]))
}

func isEmptyStructLit(e ast.Expr) bool {
	cl, ok := e.(*ast.CompositeLit)
	if !ok || len(cl.Elts) != 0 {
		return false
	}
	st, ok := cl.Type.(*ast.StructType)
	return ok && (st.Fields == nil || len(st.Fields.List) == 0)
}

func vfFindMethod(f *ast.File, recvBase, name string) (*ast.FuncDecl, string) {
	for _, d := range f.Decls {
		fd, ok := d.(*ast.FuncDecl)
		if !ok || fd.Name.Name != name || fd.Recv == nil || len(fd.Recv.List) != 1 || len(fd.Recv.List[0].Names) != 1 {
			continue
		}
		ty := fd.Recv.List[0].Type
		if st, ok := ty.(*ast.StarExpr); ok {
			ty = st.X
		}
		switch x := ty.(type) {
		case *ast.IndexListExpr:
			ty = x.X
		case *ast.IndexExpr:
			ty = x.X
		}
		if id, ok := ty.(*ast.Ident); ok && id.Name == recvBase {
			return fd, fd.Recv.List[0].Names[0].Name
		}
	}
	return nil, ""
}

func vfParams(fd *ast.FuncDecl) ([]string, []string) {
	var names, tys []string
	for _, p := range fd.Type.Params.List {
		for _, n := range p.Names {
			names = append(names, n.Name)
			tys = append(tys, exprText(p.Type))
		}
	}
	return names, tys
}

func genVotingFuns(repo string) (string, error) {
	vf, _, err := parseFile(repo, "app/voting.go")
	if err != nil {
		return "", err
	}
	df, _, err := parseFile(repo, "app/dkg.go")
	if err != nil {
		return "", err
	}
	appSrc, err := os.ReadFile(filepath.Join(repo, "app/app.go"))
	if err != nil {
		return "", err
	}
	var sb strings.Builder
	sb.WriteString("(* GENERATED by harness/cmd/translate (VotingFuns) from app/voting.go and app/dkg.go - do not edit. *)\n")
	sb.WriteString("From Coq Require Import List NArith ZArith Bool.\nFrom Verif Require Import Lib.Bytes Lib.Assoc Lib.Loops Model.App.\nImport ListNotations.\n\n")
	sb.WriteString("Definition pair_mem (p : addr * addr) (l : list (addr * addr)) : bool := mem_pair (fst p) (snd p) l.\n\n")

	// ---- voting.go
	type vspec struct {
		name, gen, sig string
		want           []string // parameter types expected
		kinds          []string
		retf           func(t *vft, rs []ast.Expr) string
		fall           string
		enumAfterRecv  bool
	}
	okPair := func(t *vft, rs []ast.Expr) string {
		if len(rs) != 2 {
			return t.fail("return of %d values", len(rs))
		}
		switch exprText(rs[1]) {
		case "false":
			return "None"
		case "true":
			v, k := t.expr(rs[0])
			if k != "nat" && k != "opt_T" {
				return t.fail("returned value of kind %s", k)
			}
			return "Some (" + v + ")"
		}
		return t.fail("second result is not a boolean constant")
	}
	specs := []vspec{
		{name: "SetVote", gen: "gen_set_vote", want: []string{"common.Address", "T"}, kinds: []string{"addr", "T"},
			sig: "{T : Type} (eq : T -> T -> bool) (%s : voting T) (%s : addr) (%s : T) : voting T",
			retf: func(t *vft, rs []ast.Expr) string {
				if len(rs) != 0 {
					return t.fail("SetVote returns a value")
				}
				return t.crecv
			}, fall: "RECV"},
		{name: "AddVote", gen: "gen_add_vote", want: []string{"common.Address", "T"}, kinds: []string{"addr", "T"},
			sig: "{T : Type} (eq : T -> T -> bool) (%s : voting T) (%s : addr) (%s : T) : option (voting T)",
			retf: func(t *vft, rs []ast.Expr) string {
				if len(rs) != 1 {
					return t.fail("AddVote returns %d values", len(rs))
				}
				switch exprText(rs[0]) {
				case "nil":
					return "Some (" + t.crecv + ")"
				case "errAlreadyVoted":
					return "None"
				}
				return t.fail("AddVote returns %s", exprText(rs[0]))
			}},
		{name: "outcomeIndex", gen: "gen_outcome_index", want: []string{"int"}, kinds: []string{"Z"},
			sig: "{T : Type} (%s : voting T) ENUMS(%s : Z) : option nat", retf: okPair, enumAfterRecv: true},
		{name: "Outcome", gen: "gen_outcome", want: []string{"int"}, kinds: []string{"Z"},
			sig: "{T : Type} (%s : voting T) ENUMS(%s : Z) : option (option T)", retf: okPair, enumAfterRecv: true},
	}
	for _, sp := range specs {
		fd, recv := vfFindMethod(vf, "Voting", sp.name)
		if fd == nil {
			return "", fmt.Errorf("voting.go: method %s not found", sp.name)
		}
		names, tys := vfParams(fd)
		if len(names) != len(sp.want) {
			return "", fmt.Errorf("voting.go: %s has %d parameters", sp.name, len(names))
		}
		t := &vft{recv: recv, crecv: recv, rec: vfVoting, kinds: map[string]string{}, rename: map[string]string{}, retf: sp.retf,
			callees: map[string]string{"outcomeIndex": "gen_outcome_index"}}
		for i := range names {
			if tys[i] != sp.want[i] {
				return "", fmt.Errorf("voting.go: %s parameter %s has type %s", sp.name, names[i], tys[i])
			}
			t.kinds[names[i]] = sp.kinds[i]
		}
		fall := sp.fall
		if fall == "RECV" {
			fall = recv
		}
		body := t.block(fd.Body.List, fall, false, func(v string) string { return v }, "  ")
		if t.err != nil {
			return "", fmt.Errorf("voting.go: %s: %v", sp.name, t.err)
		}
		args := []any{recv}
		for _, n := range names {
			args = append(args, n)
		}
		sig := sp.sig
		enums := ""
		for _, e := range t.enums {
			enums += "(" + e + " : amap nat) "
		}
		sig = strings.Replace(sig, "ENUMS", enums, 1)
		fmt.Fprintf(&sb, "(* Voting.%s *)\nDefinition %s %s :=\n%s.\n\n", sp.name, sp.gen, fmt.Sprintf(sig, args...), body)
	}

	// ---- dkg.go: which sentinel each Register*Msg call site in app.go answers with "seen"
	sentinels := map[string]bool{}
	for _, d := range df.Decls {
		if gd, ok := d.(*ast.GenDecl); ok && gd.Tok == token.VAR {
			for _, s := range gd.Specs {
				vs := s.(*ast.ValueSpec)
				if len(vs.Names) == 1 && len(vs.Values) == 1 {
					if call, ok := vs.Values[0].(*ast.CallExpr); ok && strings.HasSuffix(exprText(call.Fun), "errors.New") {
						sentinels[vs.Names[0].Name] = true
					}
				}
			}
		}
	}
	re := regexp.MustCompile(`err = dkg\.(Register\w+Msg)\(\*appMsg\)\s*if err != nil \{\s*if stderrors\.Is\(err, (\w+)\) \{\s*return makeAlreadySeenResponse\(`)
	seenOf := map[string]string{}
	for _, m := range re.FindAllStringSubmatch(string(appSrc), -1) {
		seenOf[m[1]] = m[2]
	}
	type dspec struct {
		name, gen, msgType string
		fields             map[string][2]string // msg field -> (coq name, kind)
		order              []string
	}
	dspecs := []dspec{
		{"RegisterPolyEvalMsg", "gen_register_poly_eval", "PolyEval", map[string][2]string{"Eon": {"msg_Eon", "N"}, "Sender": {"msg_Sender", "addr"}, "Receivers": {"msg_Receivers", "list_addr"}}, []string{"Eon", "Sender", "Receivers"}},
		{"RegisterPolyCommitmentMsg", "gen_register_poly_commitment", "PolyCommitment", map[string][2]string{"Eon": {"msg_Eon", "N"}, "Sender": {"msg_Sender", "addr"}}, []string{"Eon", "Sender"}},
		{"RegisterAccusationMsg", "gen_register_accusation", "Accusation", map[string][2]string{"Eon": {"msg_Eon", "N"}, "Sender": {"msg_Sender", "addr"}, "Accused": {"msg_Accused", "list_addr"}}, []string{"Eon", "Sender", "Accused"}},
		{"RegisterApologyMsg", "gen_register_apology", "Apology", map[string][2]string{"Eon": {"msg_Eon", "N"}, "Sender": {"msg_Sender", "addr"}, "Accusers": {"msg_Accusers", "list_addr"}}, []string{"Eon", "Sender", "Accusers"}},
	}
	coqTy := map[string]string{"N": "N", "addr": "addr", "list_addr": "list addr"}
	for _, sp := range dspecs {
		fd, recv := vfFindMethod(df, "DKGInstance", sp.name)
		if fd == nil {
			return "", fmt.Errorf("dkg.go: method %s not found", sp.name)
		}
		names, tys := vfParams(fd)
		if len(names) != 1 || tys[0] != sp.msgType {
			return "", fmt.Errorf("dkg.go: %s: unexpected parameters", sp.name)
		}
		seen, ok := seenOf[sp.name]
		if !ok || !sentinels[seen] {
			return "", fmt.Errorf("app.go: the call site of %s does not answer a sentinel of dkg.go with makeAlreadySeenResponse", sp.name)
		}
		msg := names[0]
		t := &vft{recv: recv, crecv: "d", rec: vfDkg, kinds: map[string]string{}, rename: map[string]string{}, callees: map[string]string{}}
		params := ""
		for _, fn := range sp.order {
			c := sp.fields[fn]
			t.rename[msg+"."+fn] = c[0]
			t.kinds[c[0]] = c[1]
			params += fmt.Sprintf(" (%s : %s)", c[0], coqTy[c[1]])
		}
		t.retf = func(t *vft, rs []ast.Expr) string {
			if len(rs) != 1 {
				return t.fail("%d results", len(rs))
			}
			if exprText(rs[0]) == "nil" {
				return "(" + t.crecv + ", None)"
			}
			call, ok := rs[0].(*ast.CallExpr)
			if !ok {
				return t.fail("returned error %s", exprText(rs[0]))
			}
			switch exprText(call.Fun) {
			case "errors.Errorf":
				return "(" + t.crecv + ", Some code_error)"
			case "fmt.Errorf":
				if len(call.Args) >= 2 {
					if lit, ok := call.Args[0].(*ast.BasicLit); ok && strings.HasPrefix(lit.Value, "\"%w") && !strings.Contains(lit.Value[3:], "%w") {
						s := exprText(call.Args[1])
						if s == seen {
							return "(" + t.crecv + ", Some code_seen)"
						}
						if sentinels[s] {
							return "(" + t.crecv + ", Some code_error)"
						}
					}
				}
			}
			return t.fail("returned error %s is not classified", exprText(rs[0]))
		}
		body := t.block(fd.Body.List, "", false, func(v string) string { return v }, "  ")
		if t.err != nil {
			return "", fmt.Errorf("dkg.go: %s: %v", sp.name, t.err)
		}
		fmt.Fprintf(&sb, "(* DKGInstance.%s; Some code = refused (code_seen: the sentinel %s, which app.go answers with makeAlreadySeenResponse) *)\nDefinition %s (d : dkg)%s : dkg * option N :=\n%s.\n\n", sp.name, seen, sp.gen, params, body)
	}
	return sb.String(), nil
}
