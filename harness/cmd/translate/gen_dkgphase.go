package main

// DkgPhase: keyper/dkgphase/phase.go, translated statement by statement:
//   NewConstantPhaseLength(l)          the four accumulated phase lengths as functions of l
//   PhaseLength.GetPhaseAtHeight       the chain of `if height < eonStartHeight+plen.x { return puredkg.X }`
// Control flow that means the same is brought to that shape first (flattenFlow): a tagless
// `switch` (cases in order, `default` last wherever it stands), `if ... else if ... else`,
// nested blocks; locals bound to call-free expressions are inlined by the shared translator.
// The generator refuses source it does not understand (other statements, fallthrough / break,
// a switch with a tag or an init statement, other fields, other result values).  int64 additions are translated as additions on Z (block heights and phase
// lengths are far below 2^63; stated as an assumption of C07).

import (
	"fmt"
	"go/ast"
	"go/token"
	"strings"
)

func init() { register("DkgPhase", genDkgPhase) }

var dkgPhaseFields = []string{"off", "dealing", "accusing", "apologizing"}

func genDkgPhase(repo string) (string, error) {
	f, _, err := parseFile(repo, "keyper/dkgphase/phase.go")
	if err != nil {
		return "", err
	}
	// ---- the struct has exactly the four int64 fields
	var st *ast.StructType
	for _, d := range f.Decls {
		gd, ok := d.(*ast.GenDecl)
		if !ok || gd.Tok != token.TYPE {
			continue
		}
		for _, sp := range gd.Specs {
			ts := sp.(*ast.TypeSpec)
			if ts.Name.Name == "PhaseLength" {
				st, _ = ts.Type.(*ast.StructType)
			}
		}
	}
	if st == nil {
		return "", fmt.Errorf("DkgPhase: type PhaseLength struct not found")
	}
	var fields []string
	for _, fl := range st.Fields.List {
		if exprText(fl.Type) != "int64" {
			return "", fmt.Errorf("DkgPhase: PhaseLength field of type %s", exprText(fl.Type))
		}
		for _, n := range fl.Names {
			fields = append(fields, n.Name)
		}
	}
	if strings.Join(fields, ",") != strings.Join(dkgPhaseFields, ",") {
		return "", fmt.Errorf("DkgPhase: PhaseLength fields are %v, expected %v", fields, dkgPhaseFields)
	}
	// ---- NewConstantPhaseLength
	nc := findFunc(f, "NewConstantPhaseLength")
	if nc == nil || nc.Recv != nil || len(nc.Type.Params.List) != 1 || len(nc.Type.Params.List[0].Names) != 1 ||
		exprText(nc.Type.Params.List[0].Type) != "int64" || len(nc.Body.List) != 1 {
		return "", fmt.Errorf("DkgPhase: NewConstantPhaseLength has an unexpected signature or body")
	}
	lname := nc.Type.Params.List[0].Names[0].Name
	ret, ok := nc.Body.List[0].(*ast.ReturnStmt)
	if !ok || len(ret.Results) != 1 {
		return "", fmt.Errorf("DkgPhase: NewConstantPhaseLength does not consist of one return")
	}
	un, ok := ret.Results[0].(*ast.UnaryExpr)
	if !ok || un.Op != token.AND {
		return "", fmt.Errorf("DkgPhase: NewConstantPhaseLength does not return &PhaseLength{...}")
	}
	cl, ok := un.X.(*ast.CompositeLit)
	if !ok || exprText(cl.Type) != "PhaseLength" || len(cl.Elts) != len(dkgPhaseFields) {
		return "", fmt.Errorf("DkgPhase: NewConstantPhaseLength does not return &PhaseLength{...} with four fields")
	}
	t1 := &tr{rename: map[string]string{lname: "l"}}
	vals := map[string]string{}
	for _, e := range cl.Elts {
		kv, ok := e.(*ast.KeyValueExpr)
		if !ok {
			return "", fmt.Errorf("DkgPhase: positional composite literal")
		}
		vals[exprText(kv.Key)] = t1.expr(kv.Value)
	}
	if t1.err != nil {
		return "", fmt.Errorf("DkgPhase: NewConstantPhaseLength: %v", t1.err)
	}
	var tuple []string
	for _, fn := range dkgPhaseFields {
		v, ok := vals[fn]
		if !ok {
			return "", fmt.Errorf("DkgPhase: NewConstantPhaseLength does not set %s", fn)
		}
		tuple = append(tuple, v)
	}
	// ---- GetPhaseAtHeight
	gp := findFunc(f, "GetPhaseAtHeight")
	if gp == nil || gp.Recv == nil || len(gp.Recv.List) != 1 || len(gp.Recv.List[0].Names) != 1 {
		return "", fmt.Errorf("DkgPhase: GetPhaseAtHeight not found or without receiver")
	}
	recv := gp.Recv.List[0].Names[0].Name
	var params []string
	for _, p := range gp.Type.Params.List {
		if exprText(p.Type) != "int64" {
			return "", fmt.Errorf("DkgPhase: GetPhaseAtHeight parameter of type %s", exprText(p.Type))
		}
		for _, n := range p.Names {
			params = append(params, n.Name)
		}
	}
	if len(params) != 2 || gp.Type.Results == nil || len(gp.Type.Results.List) != 1 || exprText(gp.Type.Results.List[0].Type) != "puredkg.Phase" {
		return "", fmt.Errorf("DkgPhase: GetPhaseAtHeight has an unexpected signature")
	}
	t2 := &tr{rename: map[string]string{
		params[0]: "height", params[1]: "eon_start_height",
		"puredkg.Off": "Off", "puredkg.Dealing": "Dealing", "puredkg.Accusing": "Accusing",
		"puredkg.Apologizing": "Apologizing", "puredkg.Finalized": "Finalized",
	}}
	for _, fn := range dkgPhaseFields {
		t2.rename[recv+"."+fn] = fn
	}
	flat, ferr := flattenFlow(gp.Body.List)
	if ferr != nil {
		return "", fmt.Errorf("DkgPhase: GetPhaseAtHeight: %v", ferr)
	}
	body := t2.stmts(flat)
	if t2.err != nil {
		return "", fmt.Errorf("DkgPhase: GetPhaseAtHeight: %v", t2.err)
	}
	var sb strings.Builder
	sb.WriteString("(* GENERATED by harness/cmd/translate (gen_dkgphase.go) from keyper/dkgphase/phase.go - do not edit.\n")
	sb.WriteString("   NewConstantPhaseLength and PhaseLength.GetPhaseAtHeight, statement by statement; int64\n")
	sb.WriteString("   arithmetic as arithmetic on Z. *)\n")
	sb.WriteString("From Coq Require Import ZArith Bool.\nFrom Verif Require Import Model.DKGPure.\nOpen Scope Z_scope.\n\n")
	fmt.Fprintf(&sb, "(* (off, dealing, accusing, apologizing) *)\nDefinition gen_new_constant_phase_length (l : Z) : Z * Z * Z * Z :=\n  (%s).\n\n", strings.Join(tuple, ", "))
	fmt.Fprintf(&sb, "Definition gen_get_phase_at_height (off dealing accusing apologizing height eon_start_height : Z) : phase :=\n  %s.\n\n", body)
	sb.WriteString("Definition gen_phase_at (l height eon_start_height : Z) : phase :=\n  let '(off, dealing, accusing, apologizing) := gen_new_constant_phase_length l in\n  gen_get_phase_at_height off dealing accusing apologizing height eon_start_height.\n")
	return sb.String(), nil
}

// flattenFlow rewrites a statement list into the shape tr.stmts reads: a sequence of
// `if cond { ...; return }` without else, followed by the remaining statements.  The statements
// after a conditional are appended to each of its branches (a branch that returns never reaches
// them; one that falls through continues with them, as in Go).
//   switch { case a, b: A; default: D; case c: C }; R   =>   if a || b { A; R }; if c { C; R }; D; R
//   if a { A } else if b { B } else { C }; R             =>   if a { A; R }; if b { B; R }; C; R
func flattenFlow(ss []ast.Stmt) ([]ast.Stmt, error) {
	if len(ss) == 0 {
		return nil, nil
	}
	rest, err := flattenFlow(ss[1:])
	if err != nil {
		return nil, err
	}
	join := func(a []ast.Stmt) ([]ast.Stmt, error) {
		return flattenFlow(append(append([]ast.Stmt{}, a...), ss[1:]...))
	}
	switch s := ss[0].(type) {
	case *ast.BlockStmt:
		return join(s.List)
	case *ast.IfStmt:
		if s.Init != nil {
			return nil, fmt.Errorf("if with an init statement")
		}
		body, err := join(s.Body.List)
		if err != nil {
			return nil, err
		}
		out := []ast.Stmt{&ast.IfStmt{If: s.If, Cond: s.Cond, Body: &ast.BlockStmt{List: body}}}
		switch e := s.Else.(type) {
		case nil:
			return append(out, rest...), nil
		case *ast.BlockStmt:
			tail, err := join(e.List)
			if err != nil {
				return nil, err
			}
			return append(out, tail...), nil
		case *ast.IfStmt:
			tail, err := flattenFlow(append([]ast.Stmt{e}, ss[1:]...))
			if err != nil {
				return nil, err
			}
			return append(out, tail...), nil
		}
		return nil, fmt.Errorf("unsupported else branch %T", s.Else)
	case *ast.SwitchStmt:
		if s.Init != nil || s.Tag != nil {
			return nil, fmt.Errorf("switch with a tag or an init statement")
		}
		var out []ast.Stmt
		var def []ast.Stmt
		seenDefault := false
		for _, c := range s.Body.List {
			cc, ok := c.(*ast.CaseClause)
			if !ok {
				return nil, fmt.Errorf("unsupported switch clause %T", c)
			}
			for _, b := range cc.Body {
				if br, ok := b.(*ast.BranchStmt); ok {
					return nil, fmt.Errorf("%s inside a switch", br.Tok)
				}
			}
			if cc.List == nil {
				if seenDefault {
					return nil, fmt.Errorf("two default clauses")
				}
				seenDefault = true
				def = cc.Body
				continue
			}
			cond := cc.List[0]
			for _, e := range cc.List[1:] {
				cond = &ast.BinaryExpr{X: cond, Op: token.LOR, Y: e}
			}
			body, err := join(cc.Body)
			if err != nil {
				return nil, err
			}
			out = append(out, &ast.IfStmt{If: cc.Case, Cond: cond, Body: &ast.BlockStmt{List: body}})
		}
		tail, err := join(def)
		if err != nil {
			return nil, err
		}
		return append(out, tail...), nil
	}
	return append([]ast.Stmt{ss[0]}, rest...), nil
}
