// translate regenerates coq/Generated/<Name>.v from the repository's current source.
// Each generator lives in its own file gen_<name>.go and registers itself in init().
// A generator must fail (non-nil error) when the source no longer has the shape it
// understands: that is reported by ./check as a broken tie, never silently skipped.
package main

import (
	"flag"
	"fmt"
	"os"
	"path/filepath"
)

// Generator produces the full text of Generated/<Name>.v from the repository root.
type Generator func(repo string) (string, error)

var generators = map[string]Generator{}

func register(name string, g Generator) { generators[name] = g }

func main() {
	repo := flag.String("repo", "/repo/rolling-shutter", "repository go module root")
	out := flag.String("out", "", "coq/Generated directory")
	flag.Parse()
	if *out == "" {
		fmt.Println("need -out")
		os.Exit(2)
	}
	rc := 0
	for _, name := range flag.Args() {
		g, ok := generators[name]
		if !ok {
			fmt.Printf("translate: unknown generator %s\n", name)
			rc = 1
			continue
		}
		text, err := g(*repo)
		if err != nil {
			fmt.Printf("translate: %s: %v\n", name, err)
			rc = 1
			continue
		}
		p := filepath.Join(*out, name+".v")
		old, _ := os.ReadFile(p)
		if string(old) == text {
			fmt.Printf("translate: %s unchanged\n", name)
			continue
		}
		if err := os.WriteFile(p, []byte(text), 0o644); err != nil {
			fmt.Printf("translate: %s: %v\n", name, err)
			rc = 1
			continue
		}
		fmt.Printf("translate: %s rewritten\n", name)
	}
	os.Exit(rc)
}
