package main

// EonPKLoop: the eon public key handler of the keyper (property C20), translated statement by
// statement into Gallina on every check:
//
//	keyper/eonpkhandler.go          queryAndHandleNewEonPubKeys (the query, the loop, every guard,
//	                                every return), broadcastEonPublicKey; loop (its shape only:
//	                                ticker, poll, error branch without continue, wait)
//	keyper/database/extend.go       GetKeyperIndex (a range loop with an early return)
//	medley/medley.go                Int64ToUint64Safe, Int32ToUint64Safe
//	p2pmsg/eonpublickey.go          NewSignedEonPublicKey (which parameter fills which field)
//	keyper/database/keyper.sqlc.gen.go  the field list of GetAndDeleteEonPublicKeysRow (checked)
//
// The translation is into a small state-and-early-return monad.  The state is the list of
// calls made to the publication mechanisms so far and the mechanisms' remaining answers; a
// statement list becomes an expression of type `gen_state * gen_flow`, where the flow is `Next`
// (control falls through to the next statement / the next loop iteration) or `Ret r` (the
// function has returned r).  `for _, x := range xs { B }` becomes
//
//	fold_left (fun acc x => gen_bind acc (fun st => B)) xs (st, Next)
//
// so a `return` inside the loop (Ret, absorbing in gen_bind) is visibly different from reaching
// the end of the body (Next): the D13 loop `return errors.Wrap(err, ...)` translates to
// `Ret (if err then RNil else RErr E)`, the repaired one to `if negb err then Ret (RErr E) else
// Next`.  External effects are explicit: the result of the database call is the parameter
// `query` (None: the call returned an error), Messaging.SendMessage and the registered
// EonPublicKeyHandlerFunc are `gen_env_call`, which records the call and consumes one answer.
// errors.Wrap(err, msg) is nil when err is nil; error values are classified by their message
// text with the table below (the same classes as the driver's).
//
// Understood Go (everything else is refused with an error): `x, err := f(e)` for the three
// translated helpers and the database call, `_, ok := database.GetKeyperIndex(pkh.config.GetAddress(), e)`,
// `err := ` / `err = ` a call of broadcastEonPublicKey / the handler func / SendMessage,
// `v := EonPublicKey{...}` with the four fields, `if [init;] c { ... }` without else (init a :=
// statement of the forms above, its variables local to the if), `continue` as the last statement
// of a block inside the loop (flow Cont: skips the rest of the body, becomes Next at the end of
// the iteration - unlike Ret, which is absorbing for the whole loop), `return`
// of nil / err / errors.Wrap(err, "...") / errors.Errorf("...", ...), one `for _, x := range xs`;
// conditions built from !, &&, ||, `err != nil`, `err == nil`, `pkh.broadcastEonPubKey`,
// `pkh.eonPubkeyHandler != nil`, boolean locals; field reads of the row and of EonPublicKey.

import (
	"fmt"
	"go/ast"
	"go/token"
	"strconv"
	"strings"
)

func init() { register("EonPKLoop", genEonPKLoop) }

// message text (prefix) -> error class of Model/EonPK.v
var epkMessages = []struct{ prefix, class string }{
	{"own keyper index not found", "ENotMember"},
	{"failed safe int cast", "ECast"},
	{"failed to broadcast eon public key", "EBroadcast"},
	{"failed to handle eon public key", "ECallback"},
	{"error while signing EonPublicKey", "EBroadcast"},
	{"error while broadcasting EonPublicKey", "EBroadcast"},
}

var epkRowFields = map[string]string{"EonPublicKey": "j_key", "Eon": "j_eon", "ActivationBlockNumber": "j_act",
	"Keypers": "j_keypers", "KeyperConfigIndex": "j_kci"}
var epkPKFields = map[string]string{"PublicKey": "pk_key", "ActivationBlock": "pk_act", "KeyperConfigIndex": "pk_kci", "Eon": "pk_eon"}

type epk struct {
	fn      string
	kinds   map[string]string // Go local -> row | pk | bool | z | bytes | call | err | rows
	errFrom map[string]string // err variable -> "query" (a bare `return err` is the query's error) | "call"
	recv    string            // receiver name of the handler methods
	loops   int
	inLoop  bool     // a `continue` is understood only inside the loop body
	bodies  []string // translated loop bodies, emitted as separate definitions
	err     error
}

func (t *epk) fail(format string, a ...any) string {
	if t.err == nil {
		t.err = fmt.Errorf("%s: %s", t.fn, fmt.Sprintf(format, a...))
	}
	return "(st, Next)"
}

func epkText(e ast.Expr) string {
	switch x := e.(type) {
	case *ast.ParenExpr:
		return "(" + epkText(x.X) + ")"
	case *ast.UnaryExpr:
		return x.Op.String() + epkText(x.X)
	case *ast.BinaryExpr:
		return epkText(x.X) + " " + x.Op.String() + " " + epkText(x.Y)
	case *ast.ArrayType:
		return "[]" + epkText(x.Elt)
	}
	return exprText(e)
}

func (t *epk) v(name string) string { return "v_" + name }

func (t *epk) ex(e ast.Expr) string {
	bad := func() string {
		t.fail("cannot translate expression %s", epkText(e))
		return "false"
	}
	switch x := e.(type) {
	case *ast.ParenExpr:
		return "(" + t.ex(x.X) + ")"
	case *ast.BasicLit:
		if x.Kind == token.INT {
			return x.Value
		}
	case *ast.Ident:
		if x.Name == "true" || x.Name == "false" {
			return x.Name
		}
		if k := t.kinds[x.Name]; k != "" && k != "err" {
			return t.v(x.Name)
		}
	case *ast.UnaryExpr:
		if x.Op == token.NOT {
			return "(negb " + t.ex(x.X) + ")"
		}
	case *ast.BinaryExpr:
		if id, ok := x.Y.(*ast.Ident); ok && id.Name == "nil" && (x.Op == token.NEQ || x.Op == token.EQL) {
			var isNil string // Coq boolean: the left side is nil
			if l, ok := x.X.(*ast.Ident); ok && t.kinds[l.Name] == "err" {
				isNil = t.v(l.Name)
			} else if epkText(x.X) == t.recv+".eonPubkeyHandler" {
				isNil = "(negb (h_cb h))"
			} else {
				return bad()
			}
			if x.Op == token.NEQ {
				return "(negb " + isNil + ")"
			}
			return isNil
		}
		switch x.Op {
		case token.LAND:
			return "(" + t.ex(x.X) + " && " + t.ex(x.Y) + ")"
		case token.LOR:
			return "(" + t.ex(x.X) + " || " + t.ex(x.Y) + ")"
		case token.LSS:
			return "(" + t.ex(x.X) + " <? " + t.ex(x.Y) + ")"
		case token.LEQ:
			return "(" + t.ex(x.X) + " <=? " + t.ex(x.Y) + ")"
		case token.GTR:
			return "(" + t.ex(x.Y) + " <? " + t.ex(x.X) + ")"
		case token.GEQ:
			return "(" + t.ex(x.Y) + " <=? " + t.ex(x.X) + ")"
		case token.EQL, token.NEQ:
			l, lok := x.X.(*ast.Ident)
			r, rok := x.Y.(*ast.Ident)
			if lok && rok && t.kinds[l.Name] == "bytes" && t.kinds[r.Name] == "bytes" {
				s := "(bytes_eqb " + t.v(l.Name) + " " + t.v(r.Name) + ")"
				if x.Op == token.NEQ {
					s = "(negb " + s + ")"
				}
				return s
			}
		}
	case *ast.SelectorExpr:
		switch epkText(x) {
		case t.recv + ".broadcastEonPubKey":
			return "(h_bcast h)"
		case t.recv + ".config.InstanceID":
			return "(h_instance h)"
		}
		if id, ok := x.X.(*ast.Ident); ok {
			switch t.kinds[id.Name] {
			case "row":
				if f, ok := epkRowFields[x.Sel.Name]; ok {
					return "(" + f + " " + t.v(id.Name) + ")"
				}
			case "pk":
				if f, ok := epkPKFields[x.Sel.Name]; ok {
					return "(" + f + " " + t.v(id.Name) + ")"
				}
			}
		}
	case *ast.CallExpr:
		if epkText(x) == t.recv+".config.GetAddress()" {
			return "(h_self h)"
		}
	}
	return bad()
}

func epkClass(msg ast.Expr) (string, bool) {
	lit, ok := msg.(*ast.BasicLit)
	if !ok || lit.Kind != token.STRING {
		return "", false
	}
	s, err := strconv.Unquote(lit.Value)
	if err != nil {
		return "", false
	}
	for _, m := range epkMessages {
		if strings.HasPrefix(s, m.prefix) {
			return m.class, true
		}
	}
	return "", false
}

// ret translates a return statement of a function whose only result is an error.
func (t *epk) ret(s *ast.ReturnStmt) string {
	if len(s.Results) != 1 {
		return t.fail("return with %d results", len(s.Results))
	}
	switch r := s.Results[0].(type) {
	case *ast.Ident:
		if r.Name == "nil" {
			return "(st, Ret RNil)"
		}
		if t.kinds[r.Name] == "err" && t.errFrom[r.Name] == "query" {
			return "(st, Ret (if " + t.v(r.Name) + " then RNil else RQuery))"
		}
		return t.fail("return of the unclassified error %s", r.Name)
	case *ast.CallExpr:
		switch epkText(r.Fun) {
		case "errors.Wrap":
			if len(r.Args) == 2 {
				if id, ok := r.Args[0].(*ast.Ident); ok && t.kinds[id.Name] == "err" {
					if class, ok := epkClass(r.Args[1]); ok {
						return "(st, Ret (if " + t.v(id.Name) + " then RNil else RErr " + class + "))"
					}
					return t.fail("errors.Wrap with a message that has no class: %s", epkText(r.Args[1]))
				}
			}
		case "errors.Errorf", "errors.New":
			if len(r.Args) >= 1 {
				if class, ok := epkClass(r.Args[0]); ok {
					return "(st, Ret (RErr " + class + "))"
				}
				return t.fail("error message that has no class: %s", epkText(r.Args[0]))
			}
		}
	}
	return t.fail("unsupported return %s", epkText(s.Results[0]))
}

func (t *epk) define(name, kind string) { t.kinds[name] = kind }

// block translates a statement list into a Coq expression of type gen_state * gen_flow; the
// current state is the Coq variable st.
func (t *epk) block(ss []ast.Stmt) string {
	if len(ss) == 0 {
		return "(st, Next)"
	}
	rest := func() string { return t.block(ss[1:]) }
	switch s := ss[0].(type) {
	case *ast.ReturnStmt:
		if len(ss) != 1 {
			return t.fail("statements after a return")
		}
		return t.ret(s)
	case *ast.IfStmt:
		if s.Else != nil {
			return t.fail("unsupported if form (else)")
		}
		// `if init; c { B }` is the assignment followed by `if c { B }`, the variables of the
		// init statement being local to the if
		saveK, saveE := copyMap(t.kinds), copyMap(t.errFrom)
		theIf := func() string {
			cond := t.ex(s.Cond)
			k2, e2 := copyMap(t.kinds), copyMap(t.errFrom)
			body := t.block(s.Body.List)
			t.kinds, t.errFrom = k2, e2
			return "if " + cond + " then (" + body + ") else (st, Next)"
		}
		var first string
		switch init := s.Init.(type) {
		case nil:
			first = theIf()
		case *ast.AssignStmt:
			if init.Tok != token.DEFINE {
				return t.fail("unsupported if form (init is not a := statement)")
			}
			first = t.assign(init, theIf)
		default:
			return t.fail("unsupported if form (init %T)", s.Init)
		}
		t.kinds, t.errFrom = saveK, saveE
		return "gen_bind (" + first + ") (fun st =>\n  " + rest() + ")"
	case *ast.BranchStmt:
		// `continue`: the rest of the body is skipped and the loop goes on - not a return
		if s.Tok != token.CONTINUE || s.Label != nil || !t.inLoop || len(ss) != 1 {
			return t.fail("unsupported branch statement %s", s.Tok)
		}
		return "(st, Cont)"
	case *ast.RangeStmt:
		xs, ok := s.X.(*ast.Ident)
		val, ok2 := s.Value.(*ast.Ident)
		if !ok || !ok2 || t.kinds[xs.Name] != "rows" || s.Tok != token.DEFINE || (s.Key != nil && epkText(s.Key) != "_") {
			return t.fail("unsupported range loop")
		}
		if t.loops++; t.loops > 1 {
			return t.fail("more than one loop")
		}
		saveK, saveE := copyMap(t.kinds), copyMap(t.errFrom)
		t.define(val.Name, "row")
		t.inLoop = true
		body := t.block(s.Body.List)
		t.inLoop = false
		t.kinds, t.errFrom = saveK, saveE
		t.bodies = append(t.bodies, fmt.Sprintf("Definition gen_loop_body (h : hcfg) (%s : joined) (st : gen_state) : gen_state * gen_flow :=\n  %s.\n", t.v(val.Name), body))
		return "gen_bind (fold_left (fun acc " + t.v(val.Name) + " => gen_bind acc (fun st => gen_end_iter (gen_loop_body h " + t.v(val.Name) + " st))) " + t.v(xs.Name) + " (st, Next)) (fun st =>\n  " + rest() + ")"
	case *ast.AssignStmt:
		return t.assign(s, rest)
	}
	return t.fail("unsupported statement %T", ss[0])
}

func copyMap(m map[string]string) map[string]string {
	c := map[string]string{}
	for k, v := range m {
		c[k] = v
	}
	return c
}

func (t *epk) assign(s *ast.AssignStmt, rest func() string) string {
	if len(s.Rhs) != 1 {
		return t.fail("unsupported assignment")
	}
	lhs := make([]string, len(s.Lhs))
	for i, l := range s.Lhs {
		id, ok := l.(*ast.Ident)
		if !ok {
			return t.fail("unsupported assignment target")
		}
		lhs[i] = id.Name
	}
	// v := EonPublicKey{PublicKey: .., ActivationBlock: .., KeyperConfigIndex: .., Eon: ..}
	if cl, ok := s.Rhs[0].(*ast.CompositeLit); ok && s.Tok == token.DEFINE && len(lhs) == 1 && epkText(cl.Type) == "EonPublicKey" {
		slot := map[string]string{}
		for _, el := range cl.Elts {
			kv, ok := el.(*ast.KeyValueExpr)
			if !ok {
				return t.fail("unkeyed EonPublicKey literal")
			}
			f, ok := epkPKFields[epkText(kv.Key)]
			if !ok || slot[f] != "" {
				return t.fail("unexpected field %s in the EonPublicKey literal", epkText(kv.Key))
			}
			slot[f] = t.ex(kv.Value)
		}
		if len(slot) != 4 {
			return t.fail("EonPublicKey literal does not set the four fields")
		}
		t.define(lhs[0], "pk")
		return fmt.Sprintf("let %s := mkPK %s %s %s %s in\n  %s", t.v(lhs[0]), slot["pk_key"], slot["pk_act"], slot["pk_kci"], slot["pk_eon"], rest())
	}
	call, ok := s.Rhs[0].(*ast.CallExpr)
	if !ok {
		return t.fail("unsupported assignment %s", epkText(s.Rhs[0]))
	}
	fun := epkText(call.Fun)
	defOrSet := func(name, kind string) bool {
		if s.Tok == token.DEFINE {
			t.define(name, kind)
			return true
		}
		return s.Tok == token.ASSIGN && t.kinds[name] == kind
	}
	switch {
	case fun == "database.New("+t.recv+".dbpool).GetAndDeleteEonPublicKeys" && len(lhs) == 2 && s.Tok == token.DEFINE:
		// the result of the database call is the parameter `query`
		t.define(lhs[0], "rows")
		t.define(lhs[1], "err")
		t.errFrom[lhs[1]] = "query"
		return fmt.Sprintf("let '(%s, %s) := match query with Some rows => (rows, true) | None => ([], false) end in\n  %s", t.v(lhs[0]), t.v(lhs[1]), rest())
	case fun == "database.GetKeyperIndex" && len(lhs) == 2 && lhs[0] == "_" && len(call.Args) == 2 && s.Tok == token.DEFINE:
		a, b := t.ex(call.Args[0]), t.ex(call.Args[1])
		t.define(lhs[1], "bool")
		return fmt.Sprintf("let %s := snd (gen_get_keyper_index %s %s) in\n  %s", t.v(lhs[1]), a, b, rest())
	case (fun == "medley.Int64ToUint64Safe" || fun == "medley.Int32ToUint64Safe") && len(lhs) == 2 && len(call.Args) == 1 && s.Tok == token.DEFINE:
		g := "gen_int64_to_uint64_safe"
		if fun == "medley.Int32ToUint64Safe" {
			g = "gen_int32_to_uint64_safe"
		}
		arg := t.ex(call.Args[0])
		t.define(lhs[0], "z")
		t.define(lhs[1], "err")
		t.errFrom[lhs[1]] = "call"
		return fmt.Sprintf("let '(%s, %s) := match %s %s with Some x => (x, true) | None => (0, false) end in\n  %s", t.v(lhs[0]), t.v(lhs[1]), g, arg, rest())
	case fun == "p2pmsg.NewSignedEonPublicKey" && len(lhs) == 2 && len(call.Args) == 6 && s.Tok == token.DEFINE:
		// signing is modelled as total (the driver checks the signature of every message)
		var as []string
		for _, a := range call.Args[:5] {
			as = append(as, t.ex(a))
		}
		if epkText(call.Args[5]) != t.recv+".config.Ethereum.PrivateKey.Key" {
			return t.fail("NewSignedEonPublicKey is not given the keyper's key")
		}
		t.define(lhs[0], "call")
		t.define(lhs[1], "err")
		t.errFrom[lhs[1]] = "call"
		return fmt.Sprintf("let %s := gen_new_signed_eon_public_key %s in\n  let %s := true in\n  %s", t.v(lhs[0]), strings.Join(as, " "), t.v(lhs[1]), rest())
	case len(lhs) == 1 && len(call.Args) == 2 && epkText(call.Args[0]) == "ctx":
		// an effect: err := / err = <mechanism>(ctx, x)
		var eff string
		arg, _ := call.Args[1].(*ast.Ident)
		switch {
		case arg == nil:
		case fun == t.recv+".broadcastEonPublicKey" && t.kinds[arg.Name] == "pk":
			eff = "gen_broadcast_eon_public_key h " + t.v(arg.Name) + " st"
		case fun == t.recv+".eonPubkeyHandler" && t.kinds[arg.Name] == "pk":
			eff = "gen_env_call (CCallback " + t.v(arg.Name) + ") st"
		case fun == t.recv+".messaging.SendMessage" && t.kinds[arg.Name] == "call":
			eff = "gen_env_call " + t.v(arg.Name) + " st"
		}
		if eff == "" || !defOrSet(lhs[0], "err") {
			return t.fail("unsupported call %s", epkText(call))
		}
		t.errFrom[lhs[0]] = "call"
		return fmt.Sprintf("let '(st, %s) := %s in\n  %s", t.v(lhs[0]), eff, rest())
	}
	return t.fail("unsupported assignment from %s", epkText(call))
}

// ---------------------------------------------------------------------------------------

func epkParams(fd *ast.FuncDecl) (names, types []string) {
	for _, p := range fd.Type.Params.List {
		for _, n := range p.Names {
			names = append(names, n.Name)
			types = append(types, epkText(p.Type))
		}
	}
	return
}

func epkStructFields(f *ast.File, name string) ([]string, bool) {
	for _, d := range f.Decls {
		gd, ok := d.(*ast.GenDecl)
		if !ok || gd.Tok != token.TYPE {
			continue
		}
		for _, sp := range gd.Specs {
			ts := sp.(*ast.TypeSpec)
			st, ok := ts.Type.(*ast.StructType)
			if ts.Name.Name != name || !ok {
				continue
			}
			var out []string
			for _, fl := range st.Fields.List {
				for _, n := range fl.Names {
					out = append(out, n.Name+" "+epkText(fl.Type))
				}
			}
			return out, true
		}
	}
	return nil, false
}

func epkSafeCast(f *ast.File, goName, coqName, argType string) (string, error) {
	fd := findFunc(f, goName)
	if fd == nil || fd.Recv != nil {
		return "", fmt.Errorf("%s not found", goName)
	}
	names, types := epkParams(fd)
	if len(names) != 1 || types[0] != argType || len(fd.Body.List) != 2 {
		return "", fmt.Errorf("%s: unexpected shape", goName)
	}
	is, ok := fd.Body.List[0].(*ast.IfStmt)
	r2, ok2 := fd.Body.List[1].(*ast.ReturnStmt)
	if !ok || !ok2 || is.Init != nil || is.Else != nil || len(is.Body.List) != 1 || len(r2.Results) != 2 {
		return "", fmt.Errorf("%s: unexpected shape", goName)
	}
	r1, ok := is.Body.List[0].(*ast.ReturnStmt)
	if !ok || len(r1.Results) != 2 || epkText(r1.Results[1]) == "nil" {
		return "", fmt.Errorf("%s: the guarded return does not return an error", goName)
	}
	// the value is uint64(i) with nil: under the negated guard i >= 0 the conversion keeps the value
	if epkText(r2.Results[0]) != "uint64("+names[0]+")" || epkText(r2.Results[1]) != "nil" {
		return "", fmt.Errorf("%s: the final return is not `uint64(%s), nil`", goName, names[0])
	}
	t := &epk{fn: goName, kinds: map[string]string{names[0]: "z"}, errFrom: map[string]string{}}
	cond := t.ex(is.Cond)
	if t.err != nil {
		return "", t.err
	}
	return fmt.Sprintf("(* medley.%s: Some = the value with a nil error *)\nDefinition %s (%s : Z) : option Z :=\n  if %s then None else Some %s.\n\n", goName, coqName, t.v(names[0]), cond, t.v(names[0])), nil
}

func epkGetKeyperIndex(f *ast.File) (string, error) {
	const fn = "GetKeyperIndex"
	bad := func(s string) (string, error) { return "", fmt.Errorf("%s: unexpected shape: %s", fn, s) }
	fd := findFunc(f, fn)
	if fd == nil || fd.Recv != nil {
		return bad("not found")
	}
	names, types := epkParams(fd)
	if len(names) != 2 || types[1] != "[]string" || len(fd.Body.List) != 3 {
		return bad("signature or statement count")
	}
	as, ok := fd.Body.List[0].(*ast.AssignStmt)
	if !ok || as.Tok != token.DEFINE || len(as.Lhs) != 1 || epkText(as.Rhs[0]) != "shdb.EncodeAddress("+names[0]+")" {
		return bad("first statement is not `x := shdb.EncodeAddress(addr)`")
	}
	hexaddr := epkText(as.Lhs[0])
	rs, ok := fd.Body.List[1].(*ast.RangeStmt)
	last, ok2 := fd.Body.List[2].(*ast.ReturnStmt)
	if !ok || !ok2 || epkText(rs.X) != names[1] || rs.Key == nil || rs.Value == nil || len(rs.Body.List) != 1 || len(last.Results) != 2 {
		return bad("loop / final return")
	}
	i, a := epkText(rs.Key), epkText(rs.Value)
	is, ok := rs.Body.List[0].(*ast.IfStmt)
	if !ok || is.Init != nil || is.Else != nil || len(is.Body.List) != 1 {
		return bad("loop body")
	}
	r, ok := is.Body.List[0].(*ast.ReturnStmt)
	if !ok || len(r.Results) != 2 || epkText(r.Results[0]) != "uint64("+i+")" {
		return bad("return inside the loop")
	}
	t := &epk{fn: fn, kinds: map[string]string{hexaddr: "bytes", a: "bytes", i: "z"}, errFrom: map[string]string{}}
	cond := t.ex(is.Cond)
	found := t.ex(r.Results[1])
	if epkText(last.Results[0]) != "uint64(0)" && epkText(last.Results[0]) != "0" {
		return bad("final index")
	}
	notFound := t.ex(last.Results[1])
	if t.err != nil {
		return "", t.err
	}
	// the loop with its early return: the accumulator is (next index, Some result once returned)
	return fmt.Sprintf(`(* database.GetKeyperIndex; %s is shdb.EncodeAddress(addr).  The early return inside the loop is
   the Some in the accumulator. *)
Definition gen_get_keyper_index (%s : bytes) (%s : list bytes) : Z * bool :=
  match fold_left (fun (acc : Z * option (Z * bool)) %s =>
                     match acc with
                     | (%s, Some r) => (%s, Some r)
                     | (%s, None) => if %s then (%s, Some (%s, %s)) else (%s + 1, None)
                     end) %s (0, None) with
  | (_, Some r) => r
  | (_, None) => (0, %s)
  end.

`, hexaddr, t.v(hexaddr), t.v(names[1]), t.v(a), t.v(i), t.v(i), t.v(i), cond, t.v(i), t.v(i), found, t.v(i), t.v(names[1]), notFound), nil
}

func epkNewSigned(f *ast.File) (string, error) {
	const fn = "NewSignedEonPublicKey"
	bad := func(s string) (string, error) { return "", fmt.Errorf("%s: unexpected shape: %s", fn, s) }
	fd := findFunc(f, fn)
	if fd == nil || fd.Recv != nil {
		return bad("not found")
	}
	names, types := epkParams(fd)
	want := []string{"uint64", "[]byte", "uint64", "uint64", "uint64", "*ecdsa.PrivateKey"}
	if len(names) != 6 || strings.Join(types, ",") != strings.Join(want, ",") {
		return bad("parameters " + strings.Join(types, ","))
	}
	if len(fd.Body.List) != 4 {
		return bad("statement count")
	}
	as, ok := fd.Body.List[0].(*ast.AssignStmt)
	if !ok || as.Tok != token.DEFINE || len(as.Lhs) != 1 || len(as.Rhs) != 1 {
		return bad("first statement")
	}
	cand := epkText(as.Lhs[0])
	ue, ok := as.Rhs[0].(*ast.UnaryExpr)
	if !ok || ue.Op != token.AND {
		return bad("first statement is not `x := &EonPublicKey{...}`")
	}
	cl, ok := ue.X.(*ast.CompositeLit)
	if !ok || epkText(cl.Type) != "EonPublicKey" {
		return bad("first statement is not `x := &EonPublicKey{...}`")
	}
	isParam := map[string]bool{}
	for _, n := range names[:5] {
		isParam[n] = true
	}
	slot := map[string]string{}
	for _, el := range cl.Elts {
		kv, ok := el.(*ast.KeyValueExpr)
		if !ok {
			return bad("unkeyed literal")
		}
		id, ok := kv.Value.(*ast.Ident)
		if !ok || !isParam[id.Name] || slot[epkText(kv.Key)] != "" {
			return bad("field " + epkText(kv.Key))
		}
		slot[epkText(kv.Key)] = "v_" + id.Name
	}
	for _, k := range []string{"InstanceId", "PublicKey", "ActivationBlock", "KeyperConfigIndex", "Eon"} {
		if slot[k] == "" {
			return bad("field " + k + " is not set")
		}
	}
	if len(slot) != 5 {
		return bad("unexpected fields")
	}
	s2, ok := fd.Body.List[1].(*ast.AssignStmt)
	if !ok || epkText(s2.Rhs[0]) != "Sign("+cand+","+names[5]+")" {
		return bad("second statement is not the signing of the candidate")
	}
	r, ok := fd.Body.List[3].(*ast.ReturnStmt)
	if !ok || len(r.Results) != 2 || epkText(r.Results[0]) != cand || epkText(r.Results[1]) != "nil" {
		return bad("final return")
	}
	return fmt.Sprintf(`(* p2pmsg.NewSignedEonPublicKey: which parameter fills which field of the message (the
   signature is not modelled) *)
Definition gen_new_signed_eon_public_key (v_%s : Z) (v_%s : bytes) (v_%s v_%s v_%s : Z) : call :=
  CBroadcast %s (mkPK %s %s %s %s).

`, names[0], names[1], names[2], names[3], names[4], slot["InstanceId"], slot["PublicKey"], slot["ActivationBlock"], slot["KeyperConfigIndex"], slot["Eon"]), nil
}

const epkPrelude = `(* GENERATED by harness/cmd/translate (gen_eonpkloop.go) from keyper/eonpkhandler.go,
   keyper/database/extend.go, medley/medley.go, p2pmsg/eonpublickey.go - do not edit. *)
From Coq Require Import List ZArith Bool.
From Verif Require Import Lib.Bytes Model.EonPK.
Import ListNotations.
Open Scope Z_scope.

(* ---- fixed vocabulary of the translation (not read from the source) ---- *)
(* what a function returned: nil, the error of the database call, an error of a class *)
Inductive gen_ret := RNil | RQuery | RErr (e : err).
(* control: fall through to the next statement, continue (skip the rest of the loop body),
   or the function has returned *)
Inductive gen_flow := Next | Cont | Ret (r : gen_ret).
(* the calls made to the publication mechanisms so far, the mechanisms' remaining answers *)
Definition gen_state := (list (call * bool) * list bool)%type.
Definition gen_bind (r : gen_state * gen_flow) (k : gen_state -> gen_state * gen_flow) : gen_state * gen_flow :=
  match r with
  | (st, Next) => k st
  | (st, Cont) => (st, Cont)
  | (st, Ret x) => (st, Ret x)
  end.
(* the end of one loop iteration: a continue and reaching the end of the body both go on to
   the next iteration, a return does not *)
Definition gen_end_iter (r : gen_state * gen_flow) : gen_state * gen_flow :=
  match r with
  | (st, Cont) => (st, Next)
  | x => x
  end.
(* a call of a mechanism: it is recorded with the mechanism's answer; true = a nil error *)
Definition gen_env_call (c : call) (st : gen_state) : gen_state * bool :=
  let (a, ans') := next_answer (snd st) in ((fst st ++ [(c, a)], ans'), a).
(* the error result of a translated function as the boolean "is nil" *)
Definition gen_is_nil (f : gen_flow) : bool :=
  match f with Next | Cont | Ret RNil => true | Ret _ => false end.

(* ---- translated from the source ---- *)
`

func genEonPKLoop(repo string) (string, error) {
	var sb strings.Builder
	sb.WriteString(epkPrelude)

	// the row type of the query and the published record: the field names the translation maps
	fq, _, err := parseFile(repo, "keyper/database/keyper.sqlc.gen.go")
	if err != nil {
		return "", err
	}
	rowF, ok := epkStructFields(fq, "GetAndDeleteEonPublicKeysRow")
	if !ok || strings.Join(rowF, ";") != "EonPublicKey []byte;Eon int64;ActivationBlockNumber int64;Keypers []string;KeyperConfigIndex int32" {
		return "", fmt.Errorf("GetAndDeleteEonPublicKeysRow: unexpected fields %v", rowF)
	}
	fh, _, err := parseFile(repo, "keyper/eonpkhandler.go")
	if err != nil {
		return "", err
	}
	pkF, ok := epkStructFields(fh, "EonPublicKey")
	if !ok || strings.Join(pkF, ";") != "PublicKey []byte;ActivationBlock uint64;KeyperConfigIndex uint64;Eon uint64" {
		return "", fmt.Errorf("keyper.EonPublicKey: unexpected fields %v", pkF)
	}

	fm, _, err := parseFile(repo, "medley/medley.go")
	if err != nil {
		return "", err
	}
	for _, c := range [][3]string{{"Int64ToUint64Safe", "gen_int64_to_uint64_safe", "int64"}, {"Int32ToUint64Safe", "gen_int32_to_uint64_safe", "int32"}} {
		s, err := epkSafeCast(fm, c[0], c[1], c[2])
		if err != nil {
			return "", err
		}
		sb.WriteString(s)
	}
	fe, _, err := parseFile(repo, "keyper/database/extend.go")
	if err != nil {
		return "", err
	}
	s, err := epkGetKeyperIndex(fe)
	if err != nil {
		return "", err
	}
	sb.WriteString(s)
	fp, _, err := parseFile(repo, "p2pmsg/eonpublickey.go")
	if err != nil {
		return "", err
	}
	if s, err = epkNewSigned(fp); err != nil {
		return "", err
	}
	sb.WriteString(s)

	// broadcastEonPublicKey(ctx, eonPubKey) error
	bc := findFunc(fh, "broadcastEonPublicKey")
	if bc == nil || bc.Recv == nil || len(bc.Recv.List) != 1 || len(bc.Recv.List[0].Names) != 1 {
		return "", fmt.Errorf("broadcastEonPublicKey: not found")
	}
	names, types := epkParams(bc)
	if len(names) != 2 || names[0] != "ctx" || types[1] != "EonPublicKey" || bc.Type.Results == nil || len(bc.Type.Results.List) != 1 || epkText(bc.Type.Results.List[0].Type) != "error" {
		return "", fmt.Errorf("broadcastEonPublicKey: unexpected signature")
	}
	t := &epk{fn: "broadcastEonPublicKey", recv: bc.Recv.List[0].Names[0].Name, kinds: map[string]string{names[1]: "pk"}, errFrom: map[string]string{}}
	body := t.block(bc.Body.List)
	if t.err != nil {
		return "", t.err
	}
	if t.loops != 0 {
		return "", fmt.Errorf("broadcastEonPublicKey: unexpected loop")
	}
	fmt.Fprintf(&sb, "(* eonPubKeyHandler.broadcastEonPublicKey; the boolean is \"the returned error is nil\" *)\nDefinition gen_broadcast_eon_public_key (h : hcfg) (%s : pubkey) (st : gen_state) : gen_state * bool :=\n  let r :=\n  %s in\n  (fst r, gen_is_nil (snd r)).\n\n", t.v(names[1]), body)

	// queryAndHandleNewEonPubKeys(ctx) error
	qh := findFunc(fh, "queryAndHandleNewEonPubKeys")
	if qh == nil || qh.Recv == nil || len(qh.Recv.List) != 1 || len(qh.Recv.List[0].Names) != 1 {
		return "", fmt.Errorf("queryAndHandleNewEonPubKeys: not found")
	}
	names, _ = epkParams(qh)
	if len(names) != 1 || names[0] != "ctx" || qh.Type.Results == nil || len(qh.Type.Results.List) != 1 || epkText(qh.Type.Results.List[0].Type) != "error" {
		return "", fmt.Errorf("queryAndHandleNewEonPubKeys: unexpected signature")
	}
	if n := len(qh.Body.List); n == 0 {
		return "", fmt.Errorf("queryAndHandleNewEonPubKeys: empty body")
	} else if _, ok := qh.Body.List[n-1].(*ast.ReturnStmt); !ok {
		return "", fmt.Errorf("queryAndHandleNewEonPubKeys: the body does not end in a return")
	}
	t2 := &epk{fn: "queryAndHandleNewEonPubKeys", recv: qh.Recv.List[0].Names[0].Name, kinds: map[string]string{}, errFrom: map[string]string{}}
	body2 := t2.block(qh.Body.List)
	if t2.err != nil {
		return "", t2.err
	}
	if t2.loops != 1 || len(t2.bodies) != 1 {
		return "", fmt.Errorf("queryAndHandleNewEonPubKeys: expected exactly one range loop over the rows of the query")
	}
	sb.WriteString("(* the body of the loop of queryAndHandleNewEonPubKeys *)\n" + t2.bodies[0] + "\n")
	fmt.Fprintf(&sb, "(* eonPubKeyHandler.queryAndHandleNewEonPubKeys; query = what GetAndDeleteEonPublicKeys returned\n   (None: an error), answers = what the mechanisms will answer; result: the calls made and what\n   the function returned *)\nDefinition gen_query_and_handle (h : hcfg) (query : option (list joined)) (answers : list bool) : list (call * bool) * gen_ret :=\n  let st : gen_state := ([], answers) in\n  let r :=\n  %s in\n  (fst (fst r), match snd r with Ret x => x | _ => RNil end).\n", body2)
	lp, err := epkLoopShape(fh)
	if err != nil {
		return "", err
	}
	sb.WriteString(lp)
	return sb.String(), nil
}

// epkLoopShape reads eonPubKeyHandler.loop.  Understood is exactly the ticker form: a
// time.NewTicker(eonPubkeyTickerTime) created before an endless for loop whose body polls once
// (err := pkh.<method>(ctx)), handles the error in an `if err != nil { ... }` block that leaves the
// iteration only by `return` under `pkh.stopOnErrors` (no continue / break / goto), and then waits
// in a select for ctx.Done() (return) or the ticker's channel.  A Ticker re-arms itself, so on
// every path that does not return the next poll happens one interval later.  Anything else
// (a Timer that has to be Reset, a continue that skips the wait, ...) is refused.
func epkLoopShape(f *ast.File) (string, error) {
	bad := func(s string) (string, error) { return "", fmt.Errorf("loop: unexpected shape: %s", s) }
	fd := findFunc(f, "loop")
	if fd == nil || fd.Recv == nil || len(fd.Recv.List) != 1 || len(fd.Recv.List[0].Names) != 1 {
		return bad("not found")
	}
	recv := fd.Recv.List[0].Names[0].Name
	var ticker, polled string
	var forStmt *ast.ForStmt
	for _, st := range fd.Body.List {
		switch x := st.(type) {
		case *ast.AssignStmt:
			if len(x.Lhs) == 1 && len(x.Rhs) == 1 && epkText(x.Rhs[0]) == "time.NewTicker(eonPubkeyTickerTime)" && x.Tok == token.DEFINE {
				ticker = epkText(x.Lhs[0])
				continue
			}
			return bad("statement before the loop: " + epkText(x.Rhs[0]))
		case *ast.DeferStmt:
			if epkText(x.Call) != ticker+".Stop()" {
				return bad("defer " + epkText(x.Call))
			}
		case *ast.ForStmt:
			if forStmt != nil || x.Init != nil || x.Cond != nil || x.Post != nil {
				return bad("for statement")
			}
			forStmt = x
		default:
			return bad(fmt.Sprintf("statement %T", st))
		}
	}
	if ticker == "" || forStmt == nil || len(forStmt.Body.List) != 3 {
		return bad("no ticker, no loop, or a loop body that is not poll / error handling / wait")
	}
	as, ok := forStmt.Body.List[0].(*ast.AssignStmt)
	if !ok || len(as.Lhs) != 1 || len(as.Rhs) != 1 || epkText(as.Lhs[0]) != "err" {
		return bad("first statement of the body is not `err := <poll>`")
	}
	if call, ok := as.Rhs[0].(*ast.CallExpr); ok && len(call.Args) == 1 && epkText(call.Args[0]) == "ctx" {
		polled = epkText(call.Fun)
	}
	if polled != recv+".queryAndHandleNewEonPubKeys" {
		return bad("the loop does not call queryAndHandleNewEonPubKeys(ctx)")
	}
	is, ok := forStmt.Body.List[1].(*ast.IfStmt)
	if !ok || is.Init != nil || is.Else != nil || epkText(is.Cond) != "err != nil" {
		return bad("second statement of the body is not `if err != nil { ... }`")
	}
	leaves := ""
	ast.Inspect(is.Body, func(n ast.Node) bool {
		switch x := n.(type) {
		case *ast.BranchStmt:
			leaves = x.Tok.String()
		case *ast.FuncLit:
			return false
		}
		return true
	})
	if leaves != "" {
		return bad("the error branch leaves the iteration by " + leaves + " (the wait for the next tick is skipped)")
	}
	for _, st := range is.Body.List {
		switch x := st.(type) {
		case *ast.ReturnStmt:
			return bad("the error branch returns unconditionally")
		case *ast.IfStmt:
			if epkText(x.Cond) != recv+".stopOnErrors" || x.Else != nil {
				return bad("conditional in the error branch: " + epkText(x.Cond))
			}
		case *ast.ExprStmt: // logging
		default:
			return bad(fmt.Sprintf("statement %T in the error branch", st))
		}
	}
	sel, ok := forStmt.Body.List[2].(*ast.SelectStmt)
	if !ok || len(sel.Body.List) != 2 {
		return bad("third statement of the body is not a select with two cases")
	}
	sawDone, sawTick := false, false
	for _, cc := range sel.Body.List {
		c := cc.(*ast.CommClause)
		es, ok := c.Comm.(*ast.ExprStmt)
		if !ok {
			return bad("select case")
		}
		switch epkText(es.X) {
		case "<-ctx.Done()":
			if n := len(c.Body); n == 0 {
				return bad("ctx.Done() case does not return")
			} else if _, ok := c.Body[n-1].(*ast.ReturnStmt); !ok {
				return bad("ctx.Done() case does not return")
			}
			sawDone = true
		case "<-" + ticker + ".C":
			if len(c.Body) != 0 {
				return bad("ticker case has a body")
			}
			sawTick = true
		default:
			return bad("select case " + epkText(es.X))
		}
	}
	if !sawDone || !sawTick {
		return bad("select does not wait for both ctx.Done() and the ticker")
	}
	return `
(* eonPubKeyHandler.loop, read structurally (not translated into a function): a time.Ticker with
   the polling interval, an endless loop of poll / error handling / wait for ctx.Done() or the
   ticker; the error branch leaves the iteration only by returning when stopOnErrors is set.
   A polling run that returns an error is therefore followed by the next poll one interval
   later, like a successful one: the loop is a sequence of polling ticks. *)
Definition gen_loop_polls_again_after (run_failed : bool) (stop_on_errors : bool) : bool :=
  if run_failed then negb stop_on_errors else true.
`, nil
}
