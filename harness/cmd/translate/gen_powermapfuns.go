package main

// PowermapFuns: app/powermap.go translated statement by statement.
//
//   DiffPowermaps            two `for k[, v] := range m` loops updating one result map: every
//                            loop becomes a fold_left over an explicit enumeration of the
//                            ranged map (an extra parameter, so that the theorems quantify
//                            over every iteration order), every `res[k] = e` an `aset`
//   Powermap.ValidatorUpdates  a range loop appending one update per entry, then SortValidators
//   SortValidators           the comparator handed to sort.Slice
//
// The translator understands a small imperative fragment with ONE mutable variable (the
// result) and refuses everything else: `res := make(T)` / `var res T`, range loops over a map
// parameter, `if c { ... }` without else, `_, ok := m[k]`, `x := m[k]`, `res[k] = e`,
// `res[k] += e`, `res = append(res, T{Power: p, PubKey: ...k...})`, `return res`.

import (
	"fmt"
	"go/ast"
	"go/token"
	"strings"
)

func init() { register("PowermapFuns", genPowermapFuns) }

type imp struct {
	res     string          // name of the mutable result variable
	maps    map[string]bool // map-typed parameters (reads m[k] default to 0)
	locals  map[string]bool
	ranged  []string          // ranged maps, in order of the loops
	slices  map[string]bool   // slice parameters (ranged directly, in order)
	rename  map[string]string // Go expression text -> Coq name (fields of the receiver, constants)
	counter bool              // the result is a uint64 counter
	err     error
}

func (t *imp) nm(e ast.Expr) string {
	s := exprText(e)
	if r, ok := t.rename[s]; ok {
		return r
	}
	return s
}

func (t *imp) fail(format string, a ...any) string {
	if t.err == nil {
		t.err = fmt.Errorf(format, a...)
	}
	return "res"
}

func (t *imp) expr(e ast.Expr) string {
	if r, ok := t.rename[exprText(e)]; ok {
		return r
	}
	switch x := e.(type) {
	case *ast.BasicLit:
		if x.Kind == token.INT {
			return x.Value
		}
	case *ast.Ident:
		if t.locals[x.Name] || x.Name == "true" || x.Name == "false" {
			return x.Name
		}
	case *ast.ParenExpr:
		return "(" + t.expr(x.X) + ")"
	case *ast.UnaryExpr:
		if x.Op == token.NOT {
			return "(negb " + t.expr(x.X) + ")"
		}
	case *ast.IndexExpr:
		if id, ok := x.X.(*ast.Ident); ok && (t.maps[id.Name] || id.Name == t.res) {
			return "(pget0 " + id.Name + " " + t.expr(x.Index) + ")"
		}
	case *ast.BinaryExpr:
		a, b := t.expr(x.X), t.expr(x.Y)
		switch x.Op {
		case token.EQL:
			return "(Z.eqb " + a + " " + b + ")"
		case token.NEQ:
			return "(negb (Z.eqb " + a + " " + b + "))"
		case token.ADD:
			return "(" + a + " + " + b + ")"
		case token.SUB:
			return "(" + a + " - " + b + ")"
		case token.LSS:
			return "(Z.ltb " + a + " " + b + ")"
		case token.LEQ:
			return "(Z.leb " + a + " " + b + ")"
		case token.GTR:
			return "(Z.ltb " + b + " " + a + ")"
		case token.GEQ:
			return "(Z.leb " + b + " " + a + ")"
		case token.LAND:
			return "(" + a + " && " + b + ")"
		case token.LOR:
			return "(" + a + " || " + b + ")"
		}
	}
	return t.fail("cannot translate expression %s (%T)", exprText(e), e)
}

// block translates a statement list into a Coq expression of the result map's type, in which
// the current value of the result is the variable named t.res; the value of the block is the
// result after it.
func (t *imp) block(ss []ast.Stmt, topLevel bool) string {
	var sb strings.Builder
	for i, st := range ss {
		switch s := st.(type) {
		case *ast.ReturnStmt:
			if !topLevel || i != len(ss)-1 || len(s.Results) != 1 || exprText(s.Results[0]) != t.res {
				return t.fail("unsupported return")
			}
			// handled by the final value below
		case *ast.DeclStmt, *ast.EmptyStmt:
			// `var res T` is recognised by the caller
		case *ast.AssignStmt:
			sb.WriteString(t.assign(s))
		case *ast.IfStmt:
			if s.Init != nil {
				as, ok := s.Init.(*ast.AssignStmt)
				if !ok {
					return t.fail("unsupported if form")
				}
				sb.WriteString(t.assign(as))
			}
			// `if c { ...; continue }` in a loop body: the rest of the body is the else branch
			if n := len(s.Body.List); n > 0 && s.Else == nil && !topLevel {
				if br, ok := s.Body.List[n-1].(*ast.BranchStmt); ok && br.Tok == token.CONTINUE && br.Label == nil {
					fmt.Fprintf(&sb, "if %s then (%s) else (%s)", t.expr(s.Cond), t.block(s.Body.List[:n-1], false), t.block(ss[i+1:], false))
					return sb.String()
				}
			}
			els := t.res
			if s.Else != nil {
				eb, ok := s.Else.(*ast.BlockStmt)
				if !ok {
					return t.fail("unsupported else form")
				}
				els = "(" + t.block(eb.List, false) + ")"
			}
			fmt.Fprintf(&sb, "let %s := if %s then (%s) else %s in\n  ", t.res, t.expr(s.Cond), t.block(s.Body.List, false), els)
		case *ast.IncDecStmt:
			if !t.counter || exprText(s.X) != t.res || s.Tok != token.INC {
				return t.fail("unsupported increment")
			}
			fmt.Fprintf(&sb, "let %s := (%s + 1) mod 18446744073709551616 in\n  ", t.res, t.res)
		case *ast.RangeStmt:
			sb.WriteString(t.rangeLoop(s))
		case *ast.ExprStmt:
			// SortValidators(res)
			if call, ok := s.X.(*ast.CallExpr); ok && exprText(call.Fun) == "SortValidators" && len(call.Args) == 1 && exprText(call.Args[0]) == t.res {
				fmt.Fprintf(&sb, "let %s := gen_sort_validators %s in\n  ", t.res, t.res)
			} else {
				return t.fail("unsupported statement %s", exprText(s.X))
			}
		default:
			return t.fail("unsupported statement %T", st)
		}
	}
	sb.WriteString(t.res)
	return sb.String()
}

func (t *imp) assign(s *ast.AssignStmt) string {
	// _, ok := m[k]
	if s.Tok == token.DEFINE && len(s.Lhs) == 2 && len(s.Rhs) == 1 {
		if ix, ok := s.Rhs[0].(*ast.IndexExpr); ok {
			if m := t.nm(ix.X); t.maps[m] {
				okv := exprText(s.Lhs[1])
				t.locals[okv] = true
				out := fmt.Sprintf("let %s := amem %s %s in\n  ", okv, m, t.expr(ix.Index))
				if v := exprText(s.Lhs[0]); v != "_" {
					// the value is only meaningful when ok; the zero value of a key type is empty
					t.locals[v] = true
					out += fmt.Sprintf("let %s := match aget %s %s with Some x => x | None => [] end in\n  ", v, m, t.expr(ix.Index))
				}
				return out
			}
		}
		return t.fail("unsupported two-value assignment")
	}
	if len(s.Lhs) != 1 || len(s.Rhs) != 1 {
		return t.fail("unsupported assignment")
	}
	// x := e
	if s.Tok == token.DEFINE {
		if id, ok := s.Lhs[0].(*ast.Ident); ok {
			if id.Name == t.res {
				// res := make(T)
				if call, ok := s.Rhs[0].(*ast.CallExpr); ok && exprText(call.Fun) == "make" {
					return fmt.Sprintf("let %s := [] in\n  ", t.res)
				}
				return t.fail("unsupported initialisation of the result")
			}
			v := t.expr(s.Rhs[0])
			t.locals[id.Name] = true
			return fmt.Sprintf("let %s := %s in\n  ", id.Name, v)
		}
	}
	// res[k] = e, res[k] += e
	if ix, ok := s.Lhs[0].(*ast.IndexExpr); ok && exprText(ix.X) == t.res {
		k := t.expr(ix.Index)
		switch s.Tok {
		case token.ASSIGN:
			return fmt.Sprintf("let %s := aset %s %s %s in\n  ", t.res, t.res, k, t.expr(s.Rhs[0]))
		case token.ADD_ASSIGN:
			return fmt.Sprintf("let %s := aset %s %s (pget0 %s %s + %s) in\n  ", t.res, t.res, k, t.res, k, t.expr(s.Rhs[0]))
		}
	}
	// res = append(res, T{Power: p, PubKey: ... k ...})
	if s.Tok == token.ASSIGN && exprText(s.Lhs[0]) == t.res {
		if call, ok := s.Rhs[0].(*ast.CallExpr); ok && exprText(call.Fun) == "append" && len(call.Args) == 2 && exprText(call.Args[0]) == t.res {
			if cl, ok := call.Args[1].(*ast.CompositeLit); ok {
				var power, key string
				for _, el := range cl.Elts {
					kv, ok := el.(*ast.KeyValueExpr)
					if !ok {
						return t.fail("unsupported composite literal")
					}
					switch exprText(kv.Key) {
					case "Power":
						power = t.expr(kv.Value)
					case "PubKey":
						// the only local mentioned inside the key expression is the map key
						ast.Inspect(kv.Value, func(n ast.Node) bool {
							if id, ok := n.(*ast.Ident); ok && t.locals[id.Name] {
								if key != "" && key != id.Name {
									t.fail("PubKey mentions two locals")
								}
								key = id.Name
							}
							return true
						})
					default:
						return t.fail("unexpected field %s", exprText(kv.Key))
					}
				}
				if power == "" || key == "" {
					return t.fail("append: Power or PubKey missing")
				}
				return fmt.Sprintf("let %s := %s ++ [(%s, %s)] in\n  ", t.res, t.res, key, power)
			}
		}
	}
	return t.fail("unsupported assignment")
}

func (t *imp) rangeLoop(s *ast.RangeStmt) string {
	if id, ok := s.X.(*ast.Ident); ok && t.slices[id.Name] && s.Tok == token.DEFINE {
		if (s.Key != nil && exprText(s.Key) != "_") || s.Value == nil {
			return t.fail("range over a slice: only `for _, x := range` is understood")
		}
		el := exprText(s.Value)
		t.locals[el] = true
		return fmt.Sprintf("let %s := fold_left (fun %s %s =>\n    %s) %s %s in\n  ", t.res, t.res, el, t.block(s.Body.List, false), id.Name, t.res)
	}
	m, ok := s.X.(*ast.Ident)
	if !ok || !t.maps[m.Name] || s.Tok != token.DEFINE {
		return t.fail("range over something that is not a map or slice parameter")
	}
	t.ranged = append(t.ranged, m.Name)
	var sb strings.Builder
	fmt.Fprintf(&sb, "let %s := fold_left (fun %s kv =>\n    ", t.res, t.res)
	if s.Key != nil && exprText(s.Key) != "_" {
		t.locals[exprText(s.Key)] = true
		fmt.Fprintf(&sb, "let %s := fst kv in ", exprText(s.Key))
	}
	if s.Value != nil && exprText(s.Value) != "_" {
		t.locals[exprText(s.Value)] = true
		fmt.Fprintf(&sb, "let %s := snd kv in ", exprText(s.Value))
	}
	sb.WriteString("\n    " + t.block(s.Body.List, false))
	fmt.Fprintf(&sb, ") enum_%s_%d %s in\n  ", m.Name, len(t.ranged), t.res)
	return sb.String()
}

func genPowermapFuns(repo string) (string, error) {
	f, _, err := parseFile(repo, "app/powermap.go")
	if err != nil {
		return "", err
	}
	var sb strings.Builder
	sb.WriteString("(* GENERATED by harness/cmd/translate (PowermapFuns) from app/powermap.go - do not edit. *)\n")
	sb.WriteString("From Coq Require Import List ZArith Bool.\nFrom Verif Require Import Lib.Bytes Lib.Assoc Lib.Sorting Model.Powermap Model.App Generated.AppConsts.\nImport ListNotations.\nOpen Scope Z_scope.\n\n")

	// SortValidators: sort.Slice(validators, func(i, j int) bool { return bytes.Compare(K(i), K(j)) < 0 })
	sv := findFunc(f, "SortValidators")
	if sv == nil || len(sv.Body.List) != 1 {
		return "", fmt.Errorf("SortValidators: unexpected shape")
	}
	cmpOp := ""
	if es, ok := sv.Body.List[0].(*ast.ExprStmt); ok {
		if call, ok := es.X.(*ast.CallExpr); ok && exprText(call.Fun) == "sort.Slice" && len(call.Args) == 2 {
			if fl, ok := call.Args[1].(*ast.FuncLit); ok && len(fl.Body.List) == 1 && len(fl.Type.Params.List) == 1 && len(fl.Type.Params.List[0].Names) == 2 {
				i, j := fl.Type.Params.List[0].Names[0].Name, fl.Type.Params.List[0].Names[1].Name
				if rs, ok := fl.Body.List[0].(*ast.ReturnStmt); ok && len(rs.Results) == 1 {
					if be, ok := rs.Results[0].(*ast.BinaryExpr); ok && exprText(be.Y) == "0" {
						if cc, ok := be.X.(*ast.CallExpr); ok && exprText(cc.Fun) == "bytes.Compare" && len(cc.Args) == 2 {
							arr := exprText(call.Args[0])
							a, b := exprText(cc.Args[0]), exprText(cc.Args[1])
							wantA := arr + "[" + i + "].PubKey.GetEd25519()"
							wantB := arr + "[" + j + "].PubKey.GetEd25519()"
							switch {
							case a == wantA && b == wantB && be.Op == token.LSS, a == wantB && b == wantA && be.Op == token.GTR:
								cmpOp = "Lt"
							case a == wantA && b == wantB && be.Op == token.GTR, a == wantB && b == wantA && be.Op == token.LSS:
								cmpOp = "Gt"
							case a == wantA && b == wantB && be.Op == token.LEQ:
								cmpOp = "Le"
							}
						}
					}
				}
			}
		}
	}
	switch cmpOp {
	case "Lt":
		sb.WriteString("(* less(i, j) of SortValidators: bytes.Compare(key i, key j) < 0 *)\nDefinition gen_validator_less (a b : bytes) : bool := match bytes_cmp a b with Lt => true | _ => false end.\n\n")
	case "Gt":
		sb.WriteString("(* less(i, j) of SortValidators: bytes.Compare(key i, key j) > 0 *)\nDefinition gen_validator_less (a b : bytes) : bool := match bytes_cmp a b with Gt => true | _ => false end.\n\n")
	case "Le":
		sb.WriteString("(* less(i, j) of SortValidators: bytes.Compare(key i, key j) <= 0 *)\nDefinition gen_validator_less (a b : bytes) : bool := match bytes_cmp a b with Gt => false | _ => true end.\n\n")
	default:
		return "", fmt.Errorf("SortValidators: comparator not understood")
	}
	// insertion sort by the translated comparator: the sorted permutation is unique for a strict
	// total order on distinct keys, which is what Proofs/PowermapFuns.v establishes
	sb.WriteString("Fixpoint gen_insert (x : bytes * Z) (l : list (bytes * Z)) : list (bytes * Z) :=\n  match l with\n  | [] => [x]\n  | y :: r => if gen_validator_less (fst y) (fst x) then y :: gen_insert x r else x :: l\n  end.\nDefinition gen_sort_validators (l : list (bytes * Z)) : list (bytes * Z) := fold_right gen_insert [] l.\n\n")

	// DiffPowermaps
	dp := findFunc(f, "DiffPowermaps")
	if dp == nil || dp.Recv != nil || len(dp.Type.Params.List) != 1 || len(dp.Type.Params.List[0].Names) != 2 {
		return "", fmt.Errorf("DiffPowermaps: unexpected signature")
	}
	o, n := dp.Type.Params.List[0].Names[0].Name, dp.Type.Params.List[0].Names[1].Name
	resName := ""
	if len(dp.Body.List) > 0 {
		if as, ok := dp.Body.List[0].(*ast.AssignStmt); ok && as.Tok == token.DEFINE && len(as.Lhs) == 1 {
			resName = exprText(as.Lhs[0])
		}
	}
	if resName == "" {
		return "", fmt.Errorf("DiffPowermaps: the first statement does not create the result")
	}
	t := &imp{res: resName, maps: map[string]bool{o: true, n: true}, locals: map[string]bool{}}
	body := t.block(dp.Body.List, true)
	if t.err != nil {
		return "", fmt.Errorf("DiffPowermaps: %v", t.err)
	}
	var enums []string
	for i, m := range t.ranged {
		enums = append(enums, fmt.Sprintf("enum_%s_%d", m, i+1))
	}
	fmt.Fprintf(&sb, "(* DiffPowermaps; %s: the enumerations of the ranged maps, one per loop, in source order (ranged: %s) *)\n", strings.Join(enums, " "), strings.Join(t.ranged, ", "))
	fmt.Fprintf(&sb, "Definition gen_diff_powermaps (%s %s %s : powermap) : powermap :=\n  %s.\n", o, n, strings.Join(enums, " "), body)
	fmt.Fprintf(&sb, "Definition gen_diff_ranged : list nat := [%s].  (* 0 = first parameter, 1 = second *)\n\n", func() string {
		var xs []string
		for _, m := range t.ranged {
			if m == o {
				xs = append(xs, "0%nat")
			} else {
				xs = append(xs, "1%nat")
			}
		}
		return strings.Join(xs, "; ")
	}())

	// ValidatorUpdates
	vu := findFunc(f, "ValidatorUpdates")
	if vu == nil || vu.Recv == nil || len(vu.Recv.List) != 1 || len(vu.Recv.List[0].Names) != 1 {
		return "", fmt.Errorf("ValidatorUpdates: unexpected signature")
	}
	pm := vu.Recv.List[0].Names[0].Name
	resName = ""
	if len(vu.Body.List) > 0 {
		if ds, ok := vu.Body.List[0].(*ast.DeclStmt); ok {
			if gd, ok := ds.Decl.(*ast.GenDecl); ok && gd.Tok == token.VAR && len(gd.Specs) == 1 {
				if vs, ok := gd.Specs[0].(*ast.ValueSpec); ok && len(vs.Names) == 1 && len(vs.Values) == 0 {
					resName = vs.Names[0].Name
				}
			}
		}
	}
	if resName == "" {
		return "", fmt.Errorf("ValidatorUpdates: the first statement does not declare the result")
	}
	t2 := &imp{res: resName, maps: map[string]bool{pm: true}, locals: map[string]bool{}}
	body2 := t2.block(vu.Body.List, true)
	if t2.err != nil {
		return "", fmt.Errorf("ValidatorUpdates: %v", t2.err)
	}
	if len(t2.ranged) != 1 {
		return "", fmt.Errorf("ValidatorUpdates: expected one range loop")
	}
	fmt.Fprintf(&sb, "(* Powermap.ValidatorUpdates over an enumeration of the map *)\nDefinition gen_validator_updates (%s enum_%s_1 : powermap) : list (bytes * Z) :=\n  let %s := [] in\n  %s.\n", pm, pm, resName, body2)

	// ShutterApp.makePowermap and countCheckedInKeypers (app.go): loops over a keyper slice
	fa, _, err := parseFile(repo, "app/app.go")
	if err != nil {
		return "", err
	}
	for _, spec := range []struct {
		name, coq, ty string
		counter       bool
	}{{"makePowermap", "gen_make_powermap", "powermap", false}, {"countCheckedInKeypers", "gen_count_checked_in", "Z", true}} {
		fd := findFunc(fa, spec.name)
		if fd == nil || fd.Recv == nil || len(fd.Recv.List) != 1 || len(fd.Recv.List[0].Names) != 1 ||
			len(fd.Type.Params.List) != 1 || len(fd.Type.Params.List[0].Names) != 1 || len(fd.Body.List) == 0 {
			return "", fmt.Errorf("%s: unexpected signature", spec.name)
		}
		recv, arg := fd.Recv.List[0].Names[0].Name, fd.Type.Params.List[0].Names[0].Name
		rn, init := "", ""
		switch st := fd.Body.List[0].(type) {
		case *ast.AssignStmt:
			if st.Tok == token.DEFINE && len(st.Lhs) == 1 && !spec.counter {
				rn, init = exprText(st.Lhs[0]), ""
			}
		case *ast.DeclStmt:
			if gd, ok := st.Decl.(*ast.GenDecl); ok && gd.Tok == token.VAR && len(gd.Specs) == 1 && spec.counter {
				if vs, ok := gd.Specs[0].(*ast.ValueSpec); ok && len(vs.Names) == 1 && len(vs.Values) == 0 && exprText(vs.Type) == "uint64" {
					rn, init = vs.Names[0].Name, "let "+vs.Names[0].Name+" := 0 in\n  "
				}
			}
		}
		if rn == "" {
			return "", fmt.Errorf("%s: the first statement does not create the result", spec.name)
		}
		ti := &imp{res: rn, maps: map[string]bool{"ids": true}, slices: map[string]bool{arg: true}, locals: map[string]bool{},
			rename:  map[string]string{recv + ".Identities": "ids", "NonExistentValidator": "gen_nonexistent_validator"},
			counter: spec.counter}
		b := ti.block(fd.Body.List, true)
		if ti.err != nil {
			return "", fmt.Errorf("%s: %v", spec.name, ti.err)
		}
		fmt.Fprintf(&sb, "\n(* ShutterApp.%s; ids = app.Identities *)\nDefinition %s (ids : amap bytes) (%s : list bytes) : %s :=\n  %s%s.\n", spec.name, spec.coq, arg, spec.ty, init, b)
	}

	// ShutterApp.CurrentValidators: a search through app.Configs (from the end or from the start)
	// for the first config satisfying a condition on its flags; its keypers make the power map
	cv := findFunc(fa, "CurrentValidators")
	if cv == nil || cv.Recv == nil || len(cv.Recv.List) != 1 || len(cv.Recv.List[0].Names) != 1 || len(cv.Body.List) != 2 {
		return "", fmt.Errorf("CurrentValidators: unexpected shape")
	}
	recv := cv.Recv.List[0].Names[0].Name
	cfgs := recv + ".Configs"
	var elem string // Go text of the element inspected in the loop body
	var loopBody []ast.Stmt
	reverse := false
	switch lp := cv.Body.List[0].(type) {
	case *ast.ForStmt:
		init, ok1 := lp.Init.(*ast.AssignStmt)
		cond, ok2 := lp.Cond.(*ast.BinaryExpr)
		post, ok3 := lp.Post.(*ast.IncDecStmt)
		if !ok1 || !ok2 || !ok3 || len(init.Lhs) != 1 || len(init.Rhs) != 1 || init.Tok != token.DEFINE {
			return "", fmt.Errorf("CurrentValidators: loop header not understood")
		}
		i := exprText(init.Lhs[0])
		switch {
		case exprText(init.Rhs[0]) == "*ast.BinaryExpr" && exprText(init.Rhs[0].(*ast.BinaryExpr).X) == "len("+cfgs+")" && init.Rhs[0].(*ast.BinaryExpr).Op == token.SUB && exprText(init.Rhs[0].(*ast.BinaryExpr).Y) == "1" &&
			exprText(cond.X) == i && cond.Op == token.GEQ && exprText(cond.Y) == "0" && exprText(post.X) == i && post.Tok == token.DEC:
			reverse = true
		case exprText(init.Rhs[0]) == "0" && exprText(cond.X) == i && cond.Op == token.LSS && exprText(cond.Y) == "len("+cfgs+")" && exprText(post.X) == i && post.Tok == token.INC:
			reverse = false
		default:
			return "", fmt.Errorf("CurrentValidators: loop header not understood")
		}
		elem = cfgs + "[" + i + "]"
		loopBody = lp.Body.List
	case *ast.RangeStmt:
		if exprText(lp.X) != cfgs || lp.Tok != token.DEFINE {
			return "", fmt.Errorf("CurrentValidators: range over something else than the configs")
		}
		if lp.Value != nil && exprText(lp.Value) != "_" {
			elem = exprText(lp.Value)
		} else if lp.Key != nil && exprText(lp.Key) != "_" {
			elem = cfgs + "[" + exprText(lp.Key) + "]"
		} else {
			return "", fmt.Errorf("CurrentValidators: range without variables")
		}
		loopBody = lp.Body.List
	default:
		return "", fmt.Errorf("CurrentValidators: first statement is not a loop")
	}
	if len(loopBody) != 1 {
		return "", fmt.Errorf("CurrentValidators: loop body not understood")
	}
	ifs, ok := loopBody[0].(*ast.IfStmt)
	if !ok || ifs.Init != nil || ifs.Else != nil || len(ifs.Body.List) != 1 {
		return "", fmt.Errorf("CurrentValidators: loop body not understood")
	}
	ret, ok := ifs.Body.List[0].(*ast.ReturnStmt)
	if !ok || len(ret.Results) != 1 || exprText(ret.Results[0]) != recv+".makePowermap("+elem+".Keypers)" {
		return "", fmt.Errorf("CurrentValidators: the loop does not return makePowermap of the inspected config's keypers")
	}
	last, ok := cv.Body.List[1].(*ast.ReturnStmt)
	if !ok || len(last.Results) != 1 || exprText(last.Results[0]) != recv+".Validators" {
		return "", fmt.Errorf("CurrentValidators: the fallback is not app.Validators")
	}
	tc := &tr{rename: map[string]string{elem + ".Started": "(c_started c)", elem + ".ValidatorsUpdated": "(c_valupd c)"}}
	cond := tc.expr(ifs.Cond)
	if tc.err != nil {
		return "", fmt.Errorf("CurrentValidators: %v", tc.err)
	}
	order := "configs"
	if reverse {
		order = "(rev configs)"
	}
	fmt.Fprintf(&sb, "\n(* ShutterApp.CurrentValidators: the first config %s satisfying the test *)\nDefinition gen_current_validators (ids : amap bytes) (validators : powermap) (configs : list config) : powermap :=\n  match find (fun c => %s) %s with\n  | Some c => gen_make_powermap ids (c_keypers c)\n  | None => validators\n  end.\n",
		map[bool]string{true: "from the end", false: "from the start"}[reverse], cond, order)
	return sb.String(), nil
}
