package main

// GnosisSlotFuns: the decision logic of the Gnosis keyper's slot processing and transaction
// pointer bookkeeping (property C19), translated statement by statement into Gallina:
//
//	keyperimpl/gnosis/newslot.go
//	  getDecryptionIdentityPreimages   whole body: the uint64 row limit and its MaxInt32 test, the
//	                                   query (a function parameter), the selection loop with the
//	                                   uint64 gas counter, the break test and the error return
//	                                   (a Fixpoint over the events), the final sort
//	  transactionSubmittedEventToIdentityPreimage, makeSlotIdentityPreimage   (buffer writes)
//	  sortIdentityPreimages            the comparator handed to sort.Slice
//	  getTxPointer                     whole body (several mutable variables, if / else if / else):
//	                                   initialisation of a missing row, age / outdated decision,
//	                                   fallback to the event count
//	  maybeTriggerDecryption           the two guards in front (slot already seen, block already
//	                                   synced), nextBlock, and the order of the calls that follow
//	  triggerDecryption                the order and arguments of its calls, the trigger fields
//	keyperimpl/gnosis/handlers.go           DecryptionKeysHandler.HandleMessage: newTxPointer and the
//	keyperimpl/gnosis/messagingmiddleware.go advanceTxPointer:          SetTxPointer parameters
//
// Integer expressions are typed: arithmetic in uint64 / int64 wraps (written out), casts are
// written out. Database and library calls are parameters of the generated functions.
// Proofs/GnosisSlotFuns.v proves Model/GnosisSlot.v equal to the generated definitions. The
// generator refuses (error) every statement or expression form it does not know.

import (
	"fmt"
	"go/ast"
	"go/token"
	"strconv"
	"strings"
)

func init() { register("GnosisSlotFuns", genGnosisSlotFuns) }

const (
	gsTwo64 = "18446744073709551616"
	gsTwo63 = "9223372036854775808"
)

// gsVal is a translated expression with its Go type: u64 i64 i32 int bool const(untyped integer)
type gsVal struct{ coq, typ string }

type gsTr struct {
	env  map[string]gsVal // Go expression text -> Coq term and type
	err  error
	errs []string // messages of the error returns, in the order their ordinals were given
}

func (t *gsTr) fail(format string, a ...any) gsVal {
	if t.err == nil {
		t.err = fmt.Errorf(format, a...)
	}
	return gsVal{"0", "const"}
}

func (t *gsTr) failS(format string, a ...any) string {
	t.fail(format, a...)
	return "GenFail"
}

func gsWrap(typ, e string) string {
	switch typ {
	case "u64":
		return "((" + e + ") mod " + gsTwo64 + ")"
	case "i64", "int":
		return "(gen_to_int64 (" + e + "))"
	case "i32":
		return "(gen_to_int32 (" + e + "))"
	}
	return e
}

// gsText renders an expression for lookups in the environment and for the call listings.
func gsText(e ast.Expr) string {
	switch x := e.(type) {
	case nil:
		return ""
	case *ast.Ident:
		return x.Name
	case *ast.BasicLit:
		return x.Value
	case *ast.SelectorExpr:
		return gsText(x.X) + "." + x.Sel.Name
	case *ast.StarExpr:
		return "*" + gsText(x.X)
	case *ast.UnaryExpr:
		return x.Op.String() + gsText(x.X)
	case *ast.ParenExpr:
		return "(" + gsText(x.X) + ")"
	case *ast.BinaryExpr:
		return gsText(x.X) + " " + x.Op.String() + " " + gsText(x.Y)
	case *ast.IndexExpr:
		return gsText(x.X) + "[" + gsText(x.Index) + "]"
	case *ast.SliceExpr:
		return gsText(x.X) + "[" + gsText(x.Low) + ":" + gsText(x.High) + "]"
	case *ast.CallExpr:
		args := []string{}
		for _, a := range x.Args {
			args = append(args, gsText(a))
		}
		return gsText(x.Fun) + "(" + strings.Join(args, ", ") + ")"
	case *ast.CompositeLit:
		elts := []string{}
		for _, el := range x.Elts {
			elts = append(elts, gsText(el))
		}
		return gsText(x.Type) + "{" + strings.Join(elts, ", ") + "}"
	case *ast.KeyValueExpr:
		return gsText(x.Key) + ": " + gsText(x.Value)
	case *ast.ArrayType:
		return "[]" + gsText(x.Elt)
	}
	return fmt.Sprintf("<%T>", e)
}

func gsUnify(a, b gsVal) (string, bool) {
	switch {
	case a.typ == b.typ:
		return a.typ, true
	case a.typ == "const":
		return b.typ, true
	case b.typ == "const":
		return a.typ, true
	}
	return "", false
}

// expr translates a typed integer / boolean expression.
func (t *gsTr) expr(e ast.Expr) gsVal {
	if v, ok := t.env[gsText(e)]; ok {
		return v
	}
	switch x := e.(type) {
	case *ast.BasicLit:
		if x.Kind == token.INT {
			return gsVal{x.Value, "const"}
		}
	case *ast.ParenExpr:
		v := t.expr(x.X)
		return gsVal{"(" + v.coq + ")", v.typ}
	case *ast.Ident:
		switch x.Name {
		case "true", "false":
			return gsVal{x.Name, "bool"}
		}
	case *ast.SelectorExpr:
		switch gsText(x) {
		case "math.MaxInt32":
			return gsVal{"2147483647", "const"}
		case "math.MaxInt64":
			return gsVal{"9223372036854775807", "const"}
		}
	case *ast.UnaryExpr:
		if x.Op == token.NOT {
			v := t.expr(x.X)
			if v.typ != "bool" {
				return t.fail("! applied to a %s", v.typ)
			}
			return gsVal{"(negb " + v.coq + ")", "bool"}
		}
	case *ast.CallExpr:
		if id, ok := x.Fun.(*ast.Ident); ok && len(x.Args) == 1 {
			switch id.Name {
			case "uint64":
				return gsVal{gsWrap("u64", t.expr(x.Args[0]).coq), "u64"}
			case "int64":
				return gsVal{gsWrap("i64", t.expr(x.Args[0]).coq), "i64"}
			case "int32":
				return gsVal{gsWrap("i32", t.expr(x.Args[0]).coq), "i32"}
			}
		}
	case *ast.BinaryExpr:
		a, b := t.expr(x.X), t.expr(x.Y)
		switch x.Op {
		case token.LAND, token.LOR:
			if a.typ != "bool" || b.typ != "bool" {
				return t.fail("%s on non-booleans in %s", x.Op, gsText(e))
			}
			op := " && "
			if x.Op == token.LOR {
				op = " || "
			}
			return gsVal{"(" + a.coq + op + b.coq + ")", "bool"}
		}
		typ, ok := gsUnify(a, b)
		if !ok || typ == "bool" {
			return t.fail("operands of %s have types %s and %s", gsText(e), a.typ, b.typ)
		}
		switch x.Op {
		case token.ADD:
			return gsVal{gsWrap(typ, a.coq+" + "+b.coq), typ}
		case token.SUB:
			return gsVal{gsWrap(typ, a.coq+" - "+b.coq), typ}
		case token.QUO:
			if typ != "u64" {
				return t.fail("division in type %s", typ)
			}
			// Go panics on a zero divisor; Z.quot x 0 = 0: the agreement lemma excludes it
			return gsVal{"(Z.quot " + a.coq + " " + b.coq + ")", typ}
		case token.EQL:
			return gsVal{"(" + a.coq + " =? " + b.coq + ")", "bool"}
		case token.LSS:
			return gsVal{"(" + a.coq + " <? " + b.coq + ")", "bool"}
		case token.LEQ:
			return gsVal{"(" + a.coq + " <=? " + b.coq + ")", "bool"}
		case token.GTR:
			return gsVal{"(" + b.coq + " <? " + a.coq + ")", "bool"}
		case token.GEQ:
			return gsVal{"(" + b.coq + " <=? " + a.coq + ")", "bool"}
		}
	}
	return t.fail("cannot translate expression %s", gsText(e))
}

func (t *gsTr) boolExpr(e ast.Expr) string {
	v := t.expr(e)
	if v.typ != "bool" {
		t.fail("condition %s is not boolean", gsText(e))
	}
	return v.coq
}

// errMessage extracts the message literal of errors.New / Errorf / Wrap / Wrapf, "" for a
// propagated error variable.
func gsErrMessage(e ast.Expr) string {
	if call, ok := e.(*ast.CallExpr); ok {
		for _, a := range call.Args {
			if bl, ok := a.(*ast.BasicLit); ok && bl.Kind == token.STRING {
				s, _ := strconv.Unquote(bl.Value)
				return s
			}
		}
	}
	return ""
}

// isErrCheck recognises `if err != nil { return X, E }` and returns E.
func gsIsErrCheck(s ast.Stmt) (ast.Expr, bool) {
	is, ok := s.(*ast.IfStmt)
	if !ok || is.Init != nil || is.Else != nil || len(is.Body.List) != 1 {
		return nil, false
	}
	c, ok := is.Cond.(*ast.BinaryExpr)
	if !ok || c.Op != token.NEQ || gsText(c.X) != "err" || gsText(c.Y) != "nil" {
		return nil, false
	}
	r, ok := is.Body.List[0].(*ast.ReturnStmt)
	if !ok || len(r.Results) != 2 {
		return nil, false
	}
	return r.Results[1], true
}

func gsIsLogCall(s ast.Stmt) bool {
	es, ok := s.(*ast.ExprStmt)
	if !ok {
		return false
	}
	if _, ok := es.X.(*ast.CallExpr); !ok {
		return false
	}
	txt := gsText(es.X)
	return strings.HasPrefix(txt, "log.") || strings.HasPrefix(txt, "metrics")
}

// ---- byte string expressions (buffer writes) -------------------------------------------------

func (t *gsTr) bytesExpr(e ast.Expr, byteVars map[string]string) string {
	if v, ok := byteVars[gsText(e)]; ok {
		return v
	}
	switch x := e.(type) {
	case *ast.CallExpr:
		// X.Bytes()
		if sel, ok := x.Fun.(*ast.SelectorExpr); ok && sel.Sel.Name == "Bytes" && len(x.Args) == 0 {
			if inner, ok := sel.X.(*ast.CallExpr); ok && gsText(inner.Fun) == "common.BigToHash" && len(inner.Args) == 1 {
				return "(be_bytes 32 " + t.bigExpr(inner.Args[0]) + ")"
			}
			if v, ok := byteVars[gsText(sel.X)]; ok {
				return v
			}
		}
		// T(e): a conversion to a byte slice type
		if len(x.Args) == 1 && strings.HasSuffix(gsText(x.Fun), "IdentityPreimage") {
			return t.bytesExpr(x.Args[0], byteVars)
		}
	case *ast.SliceExpr:
		if x.High == nil && x.Max == nil && x.Low != nil {
			if bl, ok := x.Low.(*ast.BasicLit); ok && bl.Kind == token.INT {
				return "(skipn " + bl.Value + " " + t.bytesExpr(x.X, byteVars) + ")"
			}
		}
	}
	t.fail("cannot translate byte expression %s", gsText(e))
	return "[]"
}

func (t *gsTr) bigExpr(e ast.Expr) string {
	switch gsText(e) {
	case "common.Big0":
		return "0"
	}
	if call, ok := e.(*ast.CallExpr); ok && len(call.Args) == 1 {
		if sel, ok := call.Fun.(*ast.SelectorExpr); ok && sel.Sel.Name == "SetUint64" && gsText(sel.X) == "new(big.Int)" {
			v := t.expr(call.Args[0])
			if v.typ == "u64" {
				return v.coq
			}
		}
	}
	t.fail("cannot translate big integer expression %s", gsText(e))
	return "0"
}

// bufferFunction translates a function of the shape
//
//	[x, err := shdb.DecodeAddress(<field>); if err != nil { return ..., err }]
//	var buf bytes.Buffer; buf.Write(e)...; return T(buf.Bytes())[, nil]
//
// into the concatenation of the written byte strings.
func (t *gsTr) bufferFunction(ss []ast.Stmt, byteVars map[string]string, fallible bool) string {
	if len(ss) == 0 {
		t.fail("buffer function falls off the end")
		return "[]"
	}
	switch s := ss[0].(type) {
	case *ast.AssignStmt:
		if s.Tok == token.DEFINE && len(s.Lhs) == 2 && len(s.Rhs) == 1 && gsText(s.Lhs[1]) == "err" && fallible {
			if call, ok := s.Rhs[0].(*ast.CallExpr); ok && gsText(call.Fun) == "shdb.DecodeAddress" && len(call.Args) == 1 {
				arg, ok := byteVars[gsText(call.Args[0])]
				if ok && len(ss) >= 2 {
					if _, isCheck := gsIsErrCheck(ss[1]); isCheck {
						v := gsText(s.Lhs[0])
						byteVars[v] = v
						byteVars[v+".Bytes()"] = v
						return "match decode_address " + arg + " with\n  | None => None\n  | Some " + v + " =>\n  " + t.bufferFunction(ss[2:], byteVars, fallible) + "\n  end"
					}
				}
			}
		}
	case *ast.DeclStmt:
		if gd, ok := s.Decl.(*ast.GenDecl); ok && gd.Tok == token.VAR && len(gd.Specs) == 1 {
			if vs, ok := gd.Specs[0].(*ast.ValueSpec); ok && len(vs.Names) == 1 && len(vs.Values) == 0 && gsText(vs.Type) == "bytes.Buffer" {
				b := vs.Names[0].Name
				byteVars[b] = b
				byteVars[b+".Bytes()"] = b
				return "let " + b + " : bytes := [] in\n  " + t.bufferFunction(ss[1:], byteVars, fallible)
			}
		}
	case *ast.ExprStmt:
		if call, ok := s.X.(*ast.CallExpr); ok && len(call.Args) == 1 {
			if sel, ok := call.Fun.(*ast.SelectorExpr); ok && sel.Sel.Name == "Write" {
				if b, ok := byteVars[gsText(sel.X)]; ok {
					return "let " + b + " := " + b + " ++ " + t.bytesExpr(call.Args[0], byteVars) + " in\n  " + t.bufferFunction(ss[1:], byteVars, fallible)
				}
			}
		}
	case *ast.ReturnStmt:
		if fallible && len(s.Results) == 2 && gsText(s.Results[1]) == "nil" {
			return "Some " + t.bytesExpr(s.Results[0], byteVars)
		}
		if !fallible && len(s.Results) == 1 {
			return t.bytesExpr(s.Results[0], byteVars)
		}
	}
	t.fail("unsupported statement in a buffer function: %T", ss[0])
	return "[]"
}

// ---- getDecryptionIdentityPreimages ----------------------------------------------------------

type gsIdents struct {
	t        *gsTr
	ids      string // the identity list variable
	idsEmpty bool   // the list is statically known to be empty at this point
	loopText string // the generated Fixpoint for the loop
}

func (g *gsIdents) nextErr(msg string) int {
	g.t.errs = append(g.t.errs, msg)
	return len(g.t.errs)
}

func (g *gsIdents) body(ss []ast.Stmt) string {
	t := g.t
	if len(ss) == 0 {
		return t.failS("getDecryptionIdentityPreimages falls off the end")
	}
	rest := func(n int) string { return g.body(ss[n:]) }
	switch s := ss[0].(type) {
	case *ast.AssignStmt:
		if len(s.Rhs) != 1 {
			return t.failS("unsupported assignment %s", gsText(s.Lhs[0]))
		}
		lhs0 := gsText(s.Lhs[0])
		// ids := []T{} / ids = []T{makeSlotIdentityPreimage(slot)}
		if cl, ok := s.Rhs[0].(*ast.CompositeLit); ok && len(s.Lhs) == 1 {
			if _, isArr := cl.Type.(*ast.ArrayType); isArr {
				if s.Tok == token.DEFINE && len(cl.Elts) == 0 && g.ids == "" {
					g.ids = lhs0
					g.idsEmpty = true
					t.env["len("+lhs0+")"] = gsVal{"(Z.of_nat (length " + lhs0 + "))", "int"}
					return "let " + lhs0 + " : list bytes := [] in\n  " + rest(1)
				}
				if s.Tok == token.ASSIGN && lhs0 == g.ids && len(cl.Elts) == 1 {
					if call, ok := cl.Elts[0].(*ast.CallExpr); ok && gsText(call.Fun) == "makeSlotIdentityPreimage" && len(call.Args) == 1 {
						v := t.expr(call.Args[0])
						if v.typ != "u64" {
							return t.failS("makeSlotIdentityPreimage argument is not a uint64")
						}
						g.idsEmpty = false
						return "let " + lhs0 + " := [gen_slot_identity " + v.coq + "] in\n  " + rest(1)
					}
				}
			}
		}
		// x := <expression that is a configuration field or parameter>: a pure alias, inlined
		if s.Tok == token.DEFINE && len(s.Lhs) == 1 {
			if v, ok := t.env[gsText(s.Rhs[0])]; ok && (v.typ == "u64" || v.typ == "i64") && strings.Contains(gsText(s.Rhs[0]), ".") {
				t.env[lhs0] = v
				return rest(1)
			}
		}
		// ids := make([]T, 0[, capacity]): the empty list (a capacity has no meaning here)
		if call, ok := s.Rhs[0].(*ast.CallExpr); ok && s.Tok == token.DEFINE && len(s.Lhs) == 1 && gsText(call.Fun) == "make" && g.ids == "" &&
			(len(call.Args) == 2 || len(call.Args) == 3) && gsText(call.Args[1]) == "0" {
			if _, isArr := call.Args[0].(*ast.ArrayType); isArr {
				g.ids = lhs0
				g.idsEmpty = true
				t.env["len("+lhs0+")"] = gsVal{"(Z.of_nat (length " + lhs0 + "))", "int"}
				return "let " + lhs0 + " : list bytes := [] in\n  " + rest(1)
			}
		}
		// ids = append(ids, makeSlotIdentityPreimage(slot)); on the statically empty list this is
		// the one-element list
		if call, ok := s.Rhs[0].(*ast.CallExpr); ok && s.Tok == token.ASSIGN && len(s.Lhs) == 1 && lhs0 == g.ids && g.ids != "" &&
			gsText(call.Fun) == "append" && len(call.Args) == 2 && gsText(call.Args[0]) == g.ids {
			if inner, ok := call.Args[1].(*ast.CallExpr); ok && gsText(inner.Fun) == "makeSlotIdentityPreimage" && len(inner.Args) == 1 {
				v := t.expr(inner.Args[0])
				if v.typ != "u64" {
					return t.failS("makeSlotIdentityPreimage argument is not a uint64")
				}
				if g.idsEmpty {
					g.idsEmpty = false
					return "let " + lhs0 + " := [gen_slot_identity " + v.coq + "] in\n  " + rest(1)
				}
				return "let " + lhs0 + " := " + lhs0 + " ++ [gen_slot_identity " + v.coq + "] in\n  " + rest(1)
			}
		}
		if call, ok := s.Rhs[0].(*ast.CallExpr); ok && s.Tok == token.DEFINE {
			fun := gsText(call.Fun)
			switch {
			case len(s.Lhs) == 1 && strings.HasSuffix(fun, ".New"):
				return rest(1) // a query object
			case len(s.Lhs) == 2 && gsText(s.Lhs[1]) == "err" && strings.HasSuffix(fun, ".GetTransactionSubmittedEvents") && len(call.Args) == 2:
				cl, ok := call.Args[1].(*ast.CompositeLit)
				if !ok || len(ss) < 2 {
					return t.failS("GetTransactionSubmittedEvents: unexpected arguments")
				}
				fields := map[string]string{}
				for _, el := range cl.Elts {
					kv, ok := el.(*ast.KeyValueExpr)
					if !ok {
						return t.failS("GetTransactionSubmittedEvents: positional parameters")
					}
					fields[gsText(kv.Key)] = t.expr(kv.Value).coq
				}
				if len(fields) != 3 || fields["Eon"] == "" || fields["Index"] == "" || fields["Limit"] == "" {
					return t.failS("GetTransactionSubmittedEvents: parameters %v", fields)
				}
				e, isCheck := gsIsErrCheck(ss[1])
				if !isCheck {
					return t.failS("GetTransactionSubmittedEvents is not followed by the error check")
				}
				k := g.nextErr(gsErrMessage(e))
				ev := lhs0
				t.env[ev] = gsVal{ev, "events"}
				return fmt.Sprintf("match query %s %s %s with\n  | None => GenErr %d\n  | Some %s =>\n  %s\n  end", fields["Eon"], fields["Index"], fields["Limit"], k, ev, rest(2))
			case len(s.Lhs) == 1 && fun == "sortIdentityPreimages" && len(call.Args) == 1 && gsText(call.Args[0]) == g.ids:
				t.env[lhs0] = gsVal{lhs0, "ids"}
				return "let " + lhs0 + " := gen_sort_identities " + g.ids + " in\n  " + rest(1)
			}
		}
		// x := <integer expression>
		if s.Tok == token.DEFINE && len(s.Lhs) == 1 {
			v := t.expr(s.Rhs[0])
			if t.err != nil {
				return "GenFail"
			}
			if v.typ == "const" || v.typ == "bool" {
				return t.failS("local %s has no integer type", lhs0)
			}
			t.env[lhs0] = gsVal{lhs0, v.typ}
			return "let " + lhs0 + " := " + v.coq + " in\n  " + rest(1)
		}
	case *ast.IfStmt:
		// if c { return X, errors.New("...") }
		if s.Init == nil && s.Else == nil && len(s.Body.List) == 1 {
			if r, ok := s.Body.List[0].(*ast.ReturnStmt); ok && len(r.Results) == 2 && gsText(r.Results[1]) != "nil" {
				c := t.boolExpr(s.Cond)
				k := g.nextErr(gsErrMessage(r.Results[1]))
				return fmt.Sprintf("if %s then GenErr %d\n  else %s", c, k, rest(1))
			}
		}
	case *ast.RangeStmt:
		if ev, ok := t.env[gsText(s.X)]; ok && ev.typ == "events" && s.Tok == token.DEFINE && gsText(s.Key) == "_" && s.Value != nil {
			// the loop updates one uint64 counter declared before it: the target of its `+=`
			counter := ""
			for _, bs := range s.Body.List {
				if as, ok := bs.(*ast.AssignStmt); ok && as.Tok == token.ADD_ASSIGN && len(as.Lhs) == 1 {
					if v, ok := t.env[gsText(as.Lhs[0])]; ok && v.typ == "u64" && v.coq == gsText(as.Lhs[0]) {
						if counter != "" && counter != v.coq {
							return t.failS("the loop updates two counters")
						}
						counter = v.coq
					}
				}
			}
			if counter == "" {
				return t.failS("the loop has no uint64 counter")
			}
			k := g.nextErr("")
			g.loopText = g.loop(gsText(s.Value), counter, s.Body.List)
			return fmt.Sprintf("match gen_sel_loop gas_limit %s %s %s with\n  | None => GenErr %d\n  | Some %s =>\n  %s\n  end", counter, g.ids, ev.coq, k, g.ids, rest(1))
		}
	case *ast.ReturnStmt:
		if len(s.Results) == 2 && gsText(s.Results[1]) == "nil" {
			if v, ok := t.env[gsText(s.Results[0])]; ok && v.typ == "ids" {
				return "GenOk " + v.coq
			}
			if gsText(s.Results[0]) == g.ids {
				return "GenOk " + g.ids
			}
			if call, ok := s.Results[0].(*ast.CallExpr); ok && gsText(call.Fun) == "sortIdentityPreimages" && len(call.Args) == 1 && gsText(call.Args[0]) == g.ids && g.ids != "" {
				return "GenOk (gen_sort_identities " + g.ids + ")"
			}
		}
	}
	return t.failS("getDecryptionIdentityPreimages: unsupported statement %T (%s)", ss[0], gsStmtHead(ss[0]))
}

func gsStmtHead(s ast.Stmt) string {
	switch x := s.(type) {
	case *ast.AssignStmt:
		return gsText(x.Lhs[0]) + " " + x.Tok.String() + " " + gsText(x.Rhs[0])
	case *ast.ExprStmt:
		return gsText(x.X)
	case *ast.IfStmt:
		return "if " + gsText(x.Cond)
	}
	return ""
}

// loop translates the body of `for _, event := range events` into a Fixpoint over the events.
func (g *gsIdents) loop(event, counter string, body []ast.Stmt) string {
	t := g.t
	t.env[event+".GasLimit"] = gsVal{"(q_gas " + event + ")", "i64"}
	var step func(ss []ast.Stmt) string
	step = func(ss []ast.Stmt) string {
		if len(ss) == 0 {
			return "gen_sel_loop gas_limit " + counter + " " + g.ids + " rest_events"
		}
		switch s := ss[0].(type) {
		case *ast.AssignStmt:
			if len(s.Lhs) == 1 && len(s.Rhs) == 1 && gsText(s.Lhs[0]) == counter && s.Tok == token.ADD_ASSIGN {
				v := t.expr(s.Rhs[0])
				if v.typ != "u64" {
					t.fail("the counter is incremented by a %s", v.typ)
				}
				return "let " + counter + " := " + gsWrap("u64", counter+" + "+v.coq) + " in\n    " + step(ss[1:])
			}
			if len(s.Lhs) == 2 && len(s.Rhs) == 1 && s.Tok == token.DEFINE && gsText(s.Lhs[1]) == "err" && len(ss) >= 2 {
				if call, ok := s.Rhs[0].(*ast.CallExpr); ok && gsText(call.Fun) == "transactionSubmittedEventToIdentityPreimage" && len(call.Args) == 1 && gsText(call.Args[0]) == event {
					if _, isCheck := gsIsErrCheck(ss[1]); isCheck {
						v := gsText(s.Lhs[0])
						t.env[v] = gsVal{v, "id"}
						return "match gen_event_identity " + event + " with\n    | None => None\n    | Some " + v + " =>\n    " + step(ss[2:]) + "\n    end"
					}
				}
			}
			if len(s.Lhs) == 1 && len(s.Rhs) == 1 && s.Tok == token.ASSIGN && gsText(s.Lhs[0]) == g.ids {
				if call, ok := s.Rhs[0].(*ast.CallExpr); ok && gsText(call.Fun) == "append" && len(call.Args) == 2 && gsText(call.Args[0]) == g.ids {
					if v, ok := t.env[gsText(call.Args[1])]; ok && v.typ == "id" {
						return "let " + g.ids + " := " + g.ids + " ++ [" + v.coq + "] in\n    " + step(ss[1:])
					}
				}
			}
		case *ast.IfStmt:
			if s.Init == nil && s.Else == nil && len(s.Body.List) == 1 {
				if br, ok := s.Body.List[0].(*ast.BranchStmt); ok && br.Tok == token.BREAK && br.Label == nil {
					return "if " + t.boolExpr(s.Cond) + " then Some " + g.ids + "\n    else " + step(ss[1:])
				}
			}
		}
		t.fail("selection loop: unsupported statement %T (%s)", ss[0], gsStmtHead(ss[0]))
		return "None"
	}
	text := step(body)
	return fmt.Sprintf("Fixpoint gen_sel_loop (gas_limit %s : Z) (%s : list bytes) (events : list qrow) : option (list bytes) :=\n  match events with\n  | [] => Some %s\n  | %s :: rest_events =>\n    %s\n  end.\n",
		counter, g.ids, g.ids, event, text)
}

// ---- getTxPointer: several mutable variables -------------------------------------------------

type gsPtr struct {
	t     *gsTr
	vars  []string // state variables in declaration order, then "writes"
	types map[string]string
}

func (p *gsPtr) tuple() string { return "(" + strings.Join(p.vars, ", ") + ")" }

// block translates a statement list into a term of type option (state tuple); `final` is what a
// list that runs to its end evaluates to (the tuple, for nested blocks).
func (p *gsPtr) block(ss []ast.Stmt, top bool) string {
	t := p.t
	if len(ss) == 0 {
		if top {
			t.fail("getTxPointer falls off the end")
			return "None"
		}
		return "Some " + p.tuple()
	}
	rest := func(n int) string { return p.block(ss[n:], top) }
	if gsIsLogCall(ss[0]) {
		return rest(1)
	}
	switch s := ss[0].(type) {
	case *ast.AssignStmt:
		if len(s.Rhs) == 1 {
			lhs0 := gsText(s.Lhs[0])
			if call, ok := s.Rhs[0].(*ast.CallExpr); ok {
				fun := gsText(call.Fun)
				switch {
				case s.Tok == token.DEFINE && len(s.Lhs) == 1 && (strings.HasSuffix(fun, ".New") || fun == "fmt.Sprint"):
					return rest(1)
				case s.Tok == token.ASSIGN && len(s.Lhs) == 1 && lhs0 == "err" && strings.HasSuffix(fun, ".SetTxPointer") && len(call.Args) == 2 && len(ss) >= 2:
					if _, isCheck := gsIsErrCheck(ss[1]); isCheck {
						w, ok := gsSetTxPointerParams(t, call.Args[1])
						if !ok {
							return "None"
						}
						return "let writes := writes ++ [" + w + "] in\n  if set_error then None else\n  " + rest(2)
					}
				case s.Tok == token.ASSIGN && len(s.Lhs) == 2 && gsText(s.Lhs[1]) == "err" && strings.HasSuffix(fun, ".GetTransactionSubmittedEventCount") && len(ss) >= 2:
					if _, isCheck := gsIsErrCheck(ss[1]); isCheck && p.types[lhs0] == "i64" {
						return "match count with\n  | None => None\n  | Some count_value =>\n  let " + lhs0 + " := count_value in\n  " + rest(2) + "\n  end"
					}
				}
			}
			if s.Tok == token.ASSIGN && len(s.Lhs) == 1 && p.types[lhs0] != "" {
				v := t.expr(s.Rhs[0])
				if typ, ok := gsUnify(v, gsVal{"", p.types[lhs0]}); !ok || typ != p.types[lhs0] {
					t.fail("assignment of a %s to %s", v.typ, lhs0)
				}
				return "let " + lhs0 + " := " + v.coq + " in\n  " + rest(1)
			}
		}
	case *ast.IfStmt:
		if s.Init == nil {
			join := "match " + p.ifChain(s) + " with\n  | None => None\n  | Some " + p.tuple() + " =>\n  " + rest(1) + "\n  end"
			return join
		}
	case *ast.ReturnStmt:
		if len(s.Results) == 2 {
			if gsText(s.Results[1]) == "nil" && top {
				v := t.expr(s.Results[0])
				return "Some (" + v.coq + ", writes)"
			}
			if gsText(s.Results[1]) != "nil" {
				return "None"
			}
		}
	}
	t.fail("getTxPointer: unsupported statement %T (%s)", ss[0], gsStmtHead(ss[0]))
	return "None"
}

func (p *gsPtr) ifChain(s *ast.IfStmt) string {
	c := p.t.boolExpr(s.Cond)
	thenB := p.block(s.Body.List, false)
	elseB := "Some " + p.tuple()
	switch e := s.Else.(type) {
	case nil:
	case *ast.BlockStmt:
		elseB = p.block(e.List, false)
	case *ast.IfStmt:
		if e.Init != nil {
			p.t.fail("else-if with an init statement")
		}
		elseB = p.ifChain(e)
	default:
		p.t.fail("unsupported else form")
	}
	return "(if " + c + "\n   then (" + thenB + ")\n   else (" + elseB + "))"
}

// gsSetTxPointerParams renders SetTxPointerParams{Eon, Age: sql.NullInt64{Int64, Valid}, Value}
// as (eon, age, valid, value).
func gsSetTxPointerParams(t *gsTr, e ast.Expr) (string, bool) {
	cl, ok := e.(*ast.CompositeLit)
	if !ok || !strings.HasSuffix(gsText(cl.Type), "SetTxPointerParams") {
		t.fail("SetTxPointer: unexpected parameter %s", gsText(e))
		return "", false
	}
	var eon, age, valid, value string
	for _, el := range cl.Elts {
		kv, ok := el.(*ast.KeyValueExpr)
		if !ok {
			t.fail("SetTxPointerParams: positional fields")
			return "", false
		}
		switch gsText(kv.Key) {
		case "Eon":
			eon = t.expr(kv.Value).coq
		case "Value":
			value = t.expr(kv.Value).coq
		case "Age":
			acl, ok := kv.Value.(*ast.CompositeLit)
			if !ok || gsText(acl.Type) != "sql.NullInt64" {
				t.fail("SetTxPointerParams.Age is not a sql.NullInt64 literal")
				return "", false
			}
			for _, ael := range acl.Elts {
				akv, ok := ael.(*ast.KeyValueExpr)
				if !ok {
					t.fail("sql.NullInt64: positional fields")
					return "", false
				}
				switch gsText(akv.Key) {
				case "Int64":
					age = t.expr(akv.Value).coq
				case "Valid":
					valid = t.boolExpr(akv.Value)
				default:
					t.fail("sql.NullInt64: unexpected field %s", gsText(akv.Key))
				}
			}
		default:
			t.fail("SetTxPointerParams: unexpected field %s", gsText(kv.Key))
		}
	}
	if eon == "" || age == "" || valid == "" || value == "" {
		t.fail("SetTxPointerParams: a field is missing (Eon %q Age %q Valid %q Value %q)", eon, age, valid, value)
		return "", false
	}
	return "(" + eon + ", " + age + ", " + valid + ", " + value + ")", true
}

// ---- call listings ---------------------------------------------------------------------------

// gsCalls lists, in source order, the calls of the function whose callee name is of interest, as
// "name(arguments without ctx)".
func gsCalls(fd *ast.FuncDecl, names map[string]bool) []string {
	var out []string
	ast.Inspect(fd.Body, func(n ast.Node) bool {
		call, ok := n.(*ast.CallExpr)
		if !ok {
			return true
		}
		name := ""
		switch f := call.Fun.(type) {
		case *ast.Ident:
			name = f.Name
		case *ast.SelectorExpr:
			name = f.Sel.Name
		}
		if !names[name] {
			return true
		}
		args := []string{}
		for _, a := range call.Args {
			if gsText(a) != "ctx" {
				args = append(args, gsText(a))
			}
		}
		out = append(out, name+"("+strings.Join(args, ", ")+")")
		return true
	})
	return out
}

func gsStringList(xs []string) string {
	q := make([]string, len(xs))
	for i, x := range xs {
		q[i] = "\"" + strings.ReplaceAll(x, "\"", "\"\"") + "\"%string"
	}
	return "[" + strings.Join(q, ";\n   ") + "]"
}

func gsParamNames(fd *ast.FuncDecl) []string {
	var out []string
	for _, p := range fd.Type.Params.List {
		for _, n := range p.Names {
			out = append(out, n.Name)
		}
	}
	return out
}

// ---- the generator ---------------------------------------------------------------------------

func genGnosisSlotFuns(repo string) (string, error) {
	var sb strings.Builder
	sb.WriteString("(* GENERATED by harness/cmd/translate (gen_gnosisslotfuns.go) from keyperimpl/gnosis/newslot.go,\n   handlers.go and messagingmiddleware.go - do not edit. *)\n")
	sb.WriteString("From Coq Require Import String.\nFrom Coq Require Import List NArith ZArith Bool.\nFrom Verif Require Import Lib.Bytes Model.GnosisSlot.\nImport ListNotations.\nOpen Scope Z_scope.\n\n")
	sb.WriteString("Definition gen_to_int64 (x : Z) : Z := let m := x mod " + gsTwo64 + " in if m <? " + gsTwo63 + " then m else m - " + gsTwo64 + ".\n")
	sb.WriteString("Definition gen_to_int32 (x : Z) : Z := let m := x mod 4294967296 in if m <? 2147483648 then m else m - 4294967296.\n")
	sb.WriteString("Inductive gen_result := GenOk (ids : list bytes) | GenErr (n : nat) | GenFail.\n\n")

	f, _, err := parseFile(repo, "keyperimpl/gnosis/newslot.go")
	if err != nil {
		return "", err
	}

	// makeSlotIdentityPreimage
	ms := findFunc(f, "makeSlotIdentityPreimage")
	if ms == nil || len(gsParamNames(ms)) != 1 {
		return "", fmt.Errorf("makeSlotIdentityPreimage: unexpected signature")
	}
	slotP := gsParamNames(ms)[0]
	t := &gsTr{env: map[string]gsVal{slotP: {slotP, "u64"}}}
	body := t.bufferFunction(ms.Body.List, map[string]string{}, false)
	if t.err != nil {
		return "", fmt.Errorf("makeSlotIdentityPreimage: %v", t.err)
	}
	fmt.Fprintf(&sb, "(* makeSlotIdentityPreimage; common.BigToHash(x).Bytes() is the 32-byte big endian of x *)\nDefinition gen_slot_identity (%s : Z) : bytes :=\n  %s.\n\n", slotP, body)

	// transactionSubmittedEventToIdentityPreimage
	te := findFunc(f, "transactionSubmittedEventToIdentityPreimage")
	if te == nil || len(gsParamNames(te)) != 1 {
		return "", fmt.Errorf("transactionSubmittedEventToIdentityPreimage: unexpected signature")
	}
	evP := gsParamNames(te)[0]
	t = &gsTr{env: map[string]gsVal{}}
	body = t.bufferFunction(te.Body.List, map[string]string{evP + ".Sender": "(q_sender " + evP + ")", evP + ".IdentityPrefix": "(q_prefix " + evP + ")"}, true)
	if t.err != nil {
		return "", fmt.Errorf("transactionSubmittedEventToIdentityPreimage: %v", t.err)
	}
	fmt.Fprintf(&sb, "(* transactionSubmittedEventToIdentityPreimage; shdb.DecodeAddress is the model's decode_address *)\nDefinition gen_event_identity (%s : qrow) : option bytes :=\n  %s.\n\n", evP, body)

	// sortIdentityPreimages: the comparator of sort.Slice
	si := findFunc(f, "sortIdentityPreimages")
	cmpOp := ""
	if si != nil && len(gsParamNames(si)) == 1 && len(si.Body.List) == 4 {
		in := gsParamNames(si)[0]
		mk, ok1 := si.Body.List[0].(*ast.AssignStmt)
		cp, ok2 := si.Body.List[1].(*ast.ExprStmt)
		so, ok3 := si.Body.List[2].(*ast.ExprStmt)
		rt, ok4 := si.Body.List[3].(*ast.ReturnStmt)
		if ok1 && ok2 && ok3 && ok4 && mk.Tok == token.DEFINE && len(mk.Lhs) == 1 && len(rt.Results) == 1 {
			out := gsText(mk.Lhs[0])
			okShape := strings.HasPrefix(gsText(mk.Rhs[0]), "make(") && strings.HasSuffix(gsText(mk.Rhs[0]), ", len("+in+"))") &&
				gsText(cp.X) == "copy("+out+", "+in+")" && gsText(rt.Results[0]) == out
			if call, ok := so.X.(*ast.CallExpr); ok && okShape && gsText(call.Fun) == "sort.Slice" && len(call.Args) == 2 && gsText(call.Args[0]) == out {
				if fl, ok := call.Args[1].(*ast.FuncLit); ok && len(fl.Body.List) == 1 && len(fl.Type.Params.List) == 1 && len(fl.Type.Params.List[0].Names) == 2 {
					i, j := fl.Type.Params.List[0].Names[0].Name, fl.Type.Params.List[0].Names[1].Name
					if rs, ok := fl.Body.List[0].(*ast.ReturnStmt); ok && len(rs.Results) == 1 {
						if be, ok := rs.Results[0].(*ast.BinaryExpr); ok && gsText(be.Y) == "0" {
							if cc, ok := be.X.(*ast.CallExpr); ok && gsText(cc.Fun) == "bytes.Compare" && len(cc.Args) == 2 {
								a, b := gsText(cc.Args[0]), gsText(cc.Args[1])
								wa, wb := out+"["+i+"]", out+"["+j+"]"
								switch {
								case a == wa && b == wb && be.Op == token.LSS, a == wb && b == wa && be.Op == token.GTR:
									cmpOp = "Lt"
								case a == wa && b == wb && be.Op == token.GTR, a == wb && b == wa && be.Op == token.LSS:
									cmpOp = "Gt"
								case a == wa && b == wb && be.Op == token.LEQ, a == wb && b == wa && be.Op == token.GEQ:
									cmpOp = "Le"
								}
							}
						}
					}
				}
			}
		}
	}
	switch cmpOp {
	case "Lt":
		sb.WriteString("(* less(i, j) of sortIdentityPreimages: bytes.Compare(x[i], x[j]) < 0 *)\nDefinition gen_identity_less (a b : bytes) : bool := match bytes_cmp a b with Lt => true | _ => false end.\n")
	case "Gt":
		sb.WriteString("(* less(i, j) of sortIdentityPreimages: bytes.Compare(x[i], x[j]) > 0 *)\nDefinition gen_identity_less (a b : bytes) : bool := match bytes_cmp a b with Gt => true | _ => false end.\n")
	case "Le":
		sb.WriteString("(* less(i, j) of sortIdentityPreimages: bytes.Compare(x[i], x[j]) <= 0 *)\nDefinition gen_identity_less (a b : bytes) : bool := match bytes_cmp a b with Gt => false | _ => true end.\n")
	default:
		return "", fmt.Errorf("sortIdentityPreimages: shape or comparator not understood")
	}
	sb.WriteString("(* a sort by that comparator: insertion sort (every sorted permutation under a total order is this list) *)\n")
	sb.WriteString("Fixpoint gen_insert_identity (x : bytes) (l : list bytes) : list bytes :=\n  match l with\n  | [] => [x]\n  | y :: r => if gen_identity_less y x then y :: gen_insert_identity x r else x :: l\n  end.\nDefinition gen_sort_identities (l : list bytes) : list bytes := fold_right gen_insert_identity [] l.\n\n")

	// getDecryptionIdentityPreimages
	gi := findFunc(f, "getDecryptionIdentityPreimages")
	if gi == nil || gi.Recv == nil {
		return "", fmt.Errorf("getDecryptionIdentityPreimages not found")
	}
	ps := gsParamNames(gi)
	if len(ps) != 4 {
		return "", fmt.Errorf("getDecryptionIdentityPreimages: expected (ctx, slot, eon, txPointer), found %v", ps)
	}
	t = &gsTr{env: map[string]gsVal{
		ps[1]: {ps[1], "u64"}, ps[2]: {ps[2], "i64"}, ps[3]: {ps[3], "i64"},
		"kpr.config.Gnosis.EncryptedGasLimit":    {"gas_limit", "u64"},
		"kpr.config.Gnosis.MinGasPerTransaction": {"min_gas", "u64"},
	}}
	g := &gsIdents{t: t}
	body = g.body(gi.Body.List)
	if t.err != nil {
		return "", fmt.Errorf("getDecryptionIdentityPreimages: %v", t.err)
	}
	if g.loopText == "" || len(t.errs) != 3 {
		return "", fmt.Errorf("getDecryptionIdentityPreimages: expected a selection loop and three error returns, found %d", len(t.errs))
	}
	sb.WriteString("(* the loop of getDecryptionIdentityPreimages; None = the error return inside the loop *)\n")
	sb.WriteString(g.loopText + "\n")
	fmt.Fprintf(&sb, "(* getDecryptionIdentityPreimages; query = GetTransactionSubmittedEvents(eon, index, limit), None = it fails;\n   GenErr n = the n-th error return in source order (messages below) *)\n")
	fmt.Fprintf(&sb, "Definition gen_identities (gas_limit min_gas : Z) (query : Z -> Z -> Z -> option (list qrow)) (%s %s %s : Z) : gen_result :=\n  %s.\n", ps[1], ps[2], ps[3], body)
	fmt.Fprintf(&sb, "Definition gen_identities_errors : list string :=\n  %s.\n\n", gsStringList(t.errs))

	// getTxPointer
	gp := findFunc(f, "getTxPointer")
	if gp == nil || gp.Recv != nil {
		return "", fmt.Errorf("getTxPointer not found")
	}
	ps = gsParamNames(gp)
	if len(ps) != 4 {
		return "", fmt.Errorf("getTxPointer: expected (ctx, db, eon, maxTxPointerAge), found %v", ps)
	}
	t = &gsTr{env: map[string]gsVal{ps[2]: {ps[2], "i64"}, ps[3]: {ps[3], "i64"}}}
	p := &gsPtr{t: t, types: map[string]string{}}
	// leading declarations: the query object, `var x T`, and the GetTxPointer call
	stmts := gp.Body.List
	rowVar := ""
	idx := 0
	for ; idx < len(stmts); idx++ {
		if ds, ok := stmts[idx].(*ast.DeclStmt); ok {
			gd, ok := ds.Decl.(*ast.GenDecl)
			if !ok || gd.Tok != token.VAR || len(gd.Specs) != 1 {
				return "", fmt.Errorf("getTxPointer: unsupported declaration")
			}
			vs := gd.Specs[0].(*ast.ValueSpec)
			if len(vs.Names) != 1 || len(vs.Values) != 0 {
				return "", fmt.Errorf("getTxPointer: unsupported declaration")
			}
			var typ string
			switch gsText(vs.Type) {
			case "int64":
				typ = "i64"
			case "bool":
				typ = "bool"
			default:
				return "", fmt.Errorf("getTxPointer: variable of type %s", gsText(vs.Type))
			}
			p.vars = append(p.vars, vs.Names[0].Name)
			p.types[vs.Names[0].Name] = typ
			t.env[vs.Names[0].Name] = gsVal{vs.Names[0].Name, typ}
			continue
		}
		if as, ok := stmts[idx].(*ast.AssignStmt); ok && as.Tok == token.DEFINE && len(as.Rhs) == 1 {
			if call, ok := as.Rhs[0].(*ast.CallExpr); ok {
				fun := gsText(call.Fun)
				if len(as.Lhs) == 1 && (strings.HasSuffix(fun, ".New") || fun == "fmt.Sprint") {
					continue
				}
				if len(as.Lhs) == 2 && gsText(as.Lhs[1]) == "err" && strings.HasSuffix(fun, ".GetTxPointer") {
					rowVar = gsText(as.Lhs[0])
					idx++
					break
				}
			}
		}
		return "", fmt.Errorf("getTxPointer: unsupported leading statement %T (%s)", stmts[idx], gsStmtHead(stmts[idx]))
	}
	if rowVar == "" || len(p.vars) == 0 {
		return "", fmt.Errorf("getTxPointer: the GetTxPointer call or the variables were not found")
	}
	t.env[rowVar+".Value"] = gsVal{"db_value", "i64"}
	t.env[rowVar+".Age.Int64"] = gsVal{"db_age", "i64"}
	t.env[rowVar+".Age.Valid"] = gsVal{"db_age_valid", "bool"}
	t.env["err == pgx.ErrNoRows"] = gsVal{"no_rows", "bool"}
	t.env["err != nil"] = gsVal{"db_error", "bool"}
	p.vars = append(p.vars, "writes")
	body = p.block(stmts[idx:], true)
	if t.err != nil {
		return "", fmt.Errorf("getTxPointer: %v", t.err)
	}
	var inits []string
	for _, v := range p.vars[:len(p.vars)-1] {
		if p.types[v] == "bool" {
			inits = append(inits, "let "+v+" := false in")
		} else {
			inits = append(inits, "let "+v+" := 0 in")
		}
	}
	fmt.Fprintf(&sb, "(* getTxPointer. Inputs: the result of GetTxPointer (no_rows = pgx.ErrNoRows, db_error = another error,\n   db_value / db_age / db_age_valid = the row's Value, Age.Int64, Age.Valid), set_error = SetTxPointer fails,\n   count = GetTransactionSubmittedEventCount (None = it fails; consulted only when the code calls it).\n   Result: None = an error return; Some (pointer, SetTxPointer parameters (eon, age, valid, value) written). *)\n")
	fmt.Fprintf(&sb, "Definition gen_get_tx_pointer (%s %s : Z) (no_rows db_error : bool) (db_value db_age : Z) (db_age_valid set_error : bool) (count : option Z)\n  : option (Z * list (Z * Z * bool * Z)) :=\n  %s\n  let writes : list (Z * Z * bool * Z) := [] in\n  %s.\n\n", ps[2], ps[3], strings.Join(inits, "\n  "), body)

	// maybeTriggerDecryption: the two guards, nextBlock, the order of the calls
	mt := findFunc(f, "maybeTriggerDecryption")
	if mt == nil || len(gsParamNames(mt)) != 2 || len(mt.Body.List) < 2 {
		return "", fmt.Errorf("maybeTriggerDecryption: unexpected signature")
	}
	slotV := gsParamNames(mt)[1]
	first, ok := mt.Body.List[0].(*ast.IfStmt)
	if !ok || first.Init != nil || first.Else != nil || len(first.Body.List) != 1 {
		return "", fmt.Errorf("maybeTriggerDecryption: the first statement is not the latest-slot guard")
	}
	if r, ok := first.Body.List[0].(*ast.ReturnStmt); !ok || len(r.Results) != 1 || gsText(r.Results[0]) != "nil" {
		return "", fmt.Errorf("maybeTriggerDecryption: the latest-slot guard does not return nil")
	}
	fc, ok := first.Cond.(*ast.BinaryExpr)
	if !ok || fc.Op != token.LAND {
		return "", fmt.Errorf("maybeTriggerDecryption: guard condition is not a conjunction")
	}
	nn, ok := fc.X.(*ast.BinaryExpr)
	if !ok || nn.Op != token.NEQ || gsText(nn.Y) != "nil" {
		return "", fmt.Errorf("maybeTriggerDecryption: guard does not start with a nil test")
	}
	latest := gsText(nn.X)
	t = &gsTr{env: map[string]gsVal{slotV: {slotV, "u64"}, "*" + latest: {"latest_slot", "u64"}}}
	seen := t.boolExpr(fc.Y)
	if as, ok := mt.Body.List[1].(*ast.AssignStmt); !ok || as.Tok != token.ASSIGN || gsText(as.Lhs[0]) != latest || gsText(as.Rhs[0]) != "&"+slotV {
		return "", fmt.Errorf("maybeTriggerDecryption: the slot is not recorded right after the guard")
	}
	var synced, nextBlock string
	for _, st := range mt.Body.List {
		if is, ok := st.(*ast.IfStmt); ok && is.Init == nil && is.Else == nil && strings.HasPrefix(gsText(is.Cond), "syncedUntil.Slot") && len(is.Body.List) == 1 {
			if r, ok := is.Body.List[0].(*ast.ReturnStmt); ok && len(r.Results) == 1 && gsText(r.Results[0]) != "nil" {
				t.env["syncedUntil.Slot"] = gsVal{"synced_slot", "i64"}
				synced = t.boolExpr(is.Cond)
			}
		}
		if as, ok := st.(*ast.AssignStmt); ok && as.Tok == token.DEFINE && len(as.Lhs) == 1 && gsText(as.Lhs[0]) == "nextBlock" {
			t.env["syncedUntil.BlockNumber"] = gsVal{"synced_block", "i64"}
			nextBlock = t.expr(as.Rhs[0]).coq
		}
	}
	if t.err != nil {
		return "", fmt.Errorf("maybeTriggerDecryption: %v", t.err)
	}
	if synced == "" || nextBlock == "" {
		return "", fmt.Errorf("maybeTriggerDecryption: the synced-slot guard or nextBlock was not found")
	}
	fmt.Fprintf(&sb, "(* maybeTriggerDecryption: `%s != nil && ...` (return nil), then the slot is recorded *)\nDefinition gen_slot_seen (latest : option Z) (%s : Z) : bool :=\n  match latest with\n  | Some latest_slot => %s\n  | None => false\n  end.\n", latest, slotV, seen)
	fmt.Fprintf(&sb, "(* ... the block of the slot is already synced (an error) *)\nDefinition gen_slot_already_synced (synced_slot %s : Z) : bool := %s.\n", slotV, synced)
	fmt.Fprintf(&sb, "Definition gen_next_block (synced_block : Z) : Z := %s.\n", nextBlock)
	calls := gsCalls(mt, map[string]bool{"GetTransactionSubmittedEventsSyncedUntil": true, "GetKeyperSet": true, "Contains": true,
		"isProposerRegistered": true, "IncrementTxPointerAge": true, "triggerDecryption": true})
	fmt.Fprintf(&sb, "(* ... and the calls that follow, in source order *)\nDefinition gen_maybe_trigger_calls : list string :=\n  %s.\n\n", gsStringList(calls))

	// triggerDecryption: calls and the trigger's fields
	td := findFunc(f, "triggerDecryption")
	if td == nil {
		return "", fmt.Errorf("triggerDecryption not found")
	}
	calls = gsCalls(td, map[string]bool{"GetEonForBlockNumber": true, "getTxPointer": true, "getDecryptionIdentityPreimages": true,
		"SetCurrentDecryptionTrigger": true, "computeIdentitiesHash": true})
	var trigLit string
	ast.Inspect(td.Body, func(n ast.Node) bool {
		if cl, ok := n.(*ast.CompositeLit); ok && strings.HasSuffix(gsText(cl.Type), "DecryptionTrigger") {
			trigLit = gsText(cl)
		}
		return true
	})
	if trigLit == "" {
		return "", fmt.Errorf("triggerDecryption: the DecryptionTrigger literal was not found")
	}
	var kci string
	for _, st := range td.Body.List {
		if as, ok := st.(*ast.AssignStmt); ok && as.Tok == token.DEFINE && len(as.Lhs) == 1 && gsText(as.Lhs[0]) == "keyperConfigIndex" {
			kci = gsText(as.Rhs[0])
		}
	}
	fmt.Fprintf(&sb, "(* triggerDecryption: its calls in source order, the definition of keyperConfigIndex, the trigger literal *)\nDefinition gen_trigger_calls : list string :=\n  %s.\nDefinition gen_trigger_kci : string := \"%s\"%%string.\nDefinition gen_trigger_literal : string := \"%s\"%%string.\n\n", gsStringList(calls), kci, trigLit)

	// the pointer after a keys message: HandleMessage and advanceTxPointer
	for _, src := range []struct{ file, fun, recvType, name string }{
		{"keyperimpl/gnosis/handlers.go", "HandleMessage", "DecryptionKeysHandler", "gen_handler_set_pointer"},
		{"keyperimpl/gnosis/messagingmiddleware.go", "advanceTxPointer", "MessagingMiddleware", "gen_middleware_set_pointer"},
	} {
		f2, _, err := parseFile(repo, src.file)
		if err != nil {
			return "", err
		}
		var fd *ast.FuncDecl
		for _, d := range f2.Decls {
			if x, ok := d.(*ast.FuncDecl); ok && x.Name.Name == src.fun && x.Recv != nil && len(x.Recv.List) == 1 && strings.HasSuffix(gsText(x.Recv.List[0].Type), src.recvType) {
				fd = x
			}
		}
		if fd == nil {
			return "", fmt.Errorf("%s.%s not found", src.recvType, src.fun)
		}
		msgVar := gsParamNames(fd)[1]
		t = &gsTr{env: map[string]gsVal{
			"extra.TxPointer":          {"txp", "u64"},
			"len(" + msgVar + ".Keys)": {"nkeys", "int"},
			msgVar + ".Eon":            {"eon", "u64"},
		}}
		// the message variable may be re-bound by a type assertion: keys := msg.(*p2pmsg.DecryptionKeys)
		for _, st := range fd.Body.List {
			if as, ok := st.(*ast.AssignStmt); ok && as.Tok == token.DEFINE && len(as.Lhs) == 1 {
				if ta, ok := as.Rhs[0].(*ast.TypeAssertExpr); ok && gsText(ta.X) == msgVar {
					v := gsText(as.Lhs[0])
					t.env["len("+v+".Keys)"] = gsVal{"nkeys", "int"}
					t.env[v+".Eon"] = gsVal{"eon", "u64"}
				}
			}
		}
		var newPtr, params string
		for _, st := range fd.Body.List {
			as, ok := st.(*ast.AssignStmt)
			if !ok || len(as.Rhs) != 1 {
				continue
			}
			// x := len(<msg>.Keys): a pure alias, inlined
			if v, ok := t.env[gsText(as.Rhs[0])]; ok && as.Tok == token.DEFINE && len(as.Lhs) == 1 && v.typ == "int" && strings.HasPrefix(gsText(as.Rhs[0]), "len(") {
				t.env[gsText(as.Lhs[0])] = v
				continue
			}
			if as.Tok == token.DEFINE && len(as.Lhs) == 1 && gsText(as.Lhs[0]) == "newTxPointer" {
				// int64 arithmetic on an int operand: int and int64 are both 64 bits here
				v := t.exprInt64(as.Rhs[0])
				newPtr = v
				t.env["newTxPointer"] = gsVal{"newTxPointer", "i64"}
			}
			if call, ok := as.Rhs[0].(*ast.CallExpr); ok && strings.HasSuffix(gsText(call.Fun), ".SetTxPointer") && len(call.Args) == 2 {
				if newPtr == "" {
					return "", fmt.Errorf("%s: SetTxPointer before newTxPointer", src.fun)
				}
				if params != "" {
					return "", fmt.Errorf("%s: more than one SetTxPointer call", src.fun)
				}
				w, ok := gsSetTxPointerParams(t, call.Args[1])
				if !ok {
					return "", fmt.Errorf("%s: %v", src.fun, t.err)
				}
				params = w
			}
		}
		if t.err != nil {
			return "", fmt.Errorf("%s: %v", src.fun, t.err)
		}
		if newPtr == "" || params == "" {
			return "", fmt.Errorf("%s: newTxPointer or the SetTxPointer call was not found", src.fun)
		}
		fmt.Fprintf(&sb, "(* %s.%s: the SetTxPointer parameters (eon, age, valid, value); txp = extra.TxPointer, nkeys = len(Keys) *)\nDefinition %s (eon txp nkeys : Z) : Z * Z * bool * Z :=\n  let newTxPointer := %s in\n  %s.\n", src.recvType, src.fun, src.name, newPtr, params)
	}
	return sb.String(), nil
}

// exprInt64 translates an int64 expression in which `int64(len(...))` casts an int.
func (t *gsTr) exprInt64(e ast.Expr) string {
	v := t.expr(e)
	if v.typ != "i64" {
		t.fail("%s is not an int64 expression", gsText(e))
	}
	return v.coq
}
