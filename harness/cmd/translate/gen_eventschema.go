// Generator for coq/Generated/EventSchema.v (property C14).
//
// Reads keyper/shutterevents/{events.go,helpers.go,evtype/evtype.go} with go/ast and writes
//   - for every struct with a MakeABCIEvent method: the evtype string and the attribute list
//     (key, codec, Index flag, struct field the value is taken from, conversion on the way),
//   - for every `case evtype.X: return makeY(ev, height)` of MakeEvent, in switch order: the type
//     string, the names given to expectAttributes, the positional reads
//     `v, err := decodeK(ev.Attributes[i].Value)` in call order with the struct field that
//     finally receives v, and whether the result literal sets `Height: height`,
//   - whether expectAttributes starts with the `len(ev.Attributes) < len(names)` guard.
//
// Anything that does not have one of the shapes understood here is an error (never skipped).
package main

import (
	"bytes"
	"fmt"
	"go/ast"
	"go/parser"
	"go/printer"
	"go/token"
	"path/filepath"
	"strconv"
	"strings"
)

func init() { register("EventSchema", genEventSchema) }

type esEncAttr struct {
	Key, Codec, Field, Via string
	Index                  bool
}

type esEnc struct {
	Struct, TypeVar, TypeStr string
	Attrs                    []esEncAttr
}

type esRead struct {
	Pos               int
	Codec, Field, Via string
	Var               string
}

type esDec struct {
	TypeVar, TypeStr, Func, Struct string
	Names                          []string
	Reads                          []esRead
	Height                         bool
}

var esEncoderCodec = map[string]string{
	"encodeUint64":         "CUint64",
	"encodeAddress":        "CAddress",
	"encodeAddresses":      "CAddresses",
	"encodeByteSequence":   "CByteSequence",
	"encodeGammas":         "CGammas",
	"encodeECIESPublicKey": "CECIESPublicKey",
}

var esDecoderCodec = map[string]string{
	"decodeUint64":         "CUint64",
	"decodeAddress":        "CAddress",
	"decodeAddresses":      "CAddresses",
	"decodeByteSequence":   "CByteSequence",
	"decodeGammas":         "CGammas",
	"decodeECIESPublicKey": "CECIESPublicKey",
}

type esCtx struct {
	fset    *token.FileSet
	evtypes map[string]string // evtype variable -> string
	helpers map[string]struct {
		Codec string
		Index bool
	}
}

func (c *esCtx) src(n ast.Node) string {
	var b bytes.Buffer
	printer.Fprint(&b, c.fset, n)
	return strings.Join(strings.Fields(b.String()), " ")
}

func (c *esCtx) errf(n ast.Node, format string, a ...any) error {
	return fmt.Errorf("%s: %s", c.fset.Position(n.Pos()), fmt.Sprintf(format, a...))
}

func esStringLit(e ast.Expr) (string, bool) {
	bl, ok := e.(*ast.BasicLit)
	if !ok || bl.Kind != token.STRING {
		return "", false
	}
	s, err := strconv.Unquote(bl.Value)
	return s, err == nil
}

func esIsIdent(e ast.Expr, name string) bool {
	id, ok := e.(*ast.Ident)
	return ok && id.Name == name
}

// sel returns (x, sel) for an expression `x.sel` with x an identifier.
func esSel(e ast.Expr) (string, string, bool) {
	s, ok := e.(*ast.SelectorExpr)
	if !ok {
		return "", "", false
	}
	id, ok := s.X.(*ast.Ident)
	if !ok {
		return "", "", false
	}
	return id.Name, s.Sel.Name, true
}

func genEventSchema(repo string) (string, error) {
	dir := filepath.Join(repo, "keyper", "shutterevents")
	c := &esCtx{fset: token.NewFileSet(), evtypes: map[string]string{}, helpers: map[string]struct {
		Codec string
		Index bool
	}{}}
	parse := func(p string) (*ast.File, error) {
		return parser.ParseFile(c.fset, p, nil, parser.SkipObjectResolution)
	}
	evt, err := parse(filepath.Join(dir, "evtype", "evtype.go"))
	if err != nil {
		return "", err
	}
	var evtypeOrder []string
	for _, d := range evt.Decls {
		gd, ok := d.(*ast.GenDecl)
		if !ok || (gd.Tok != token.VAR && gd.Tok != token.CONST) {
			continue
		}
		for _, sp := range gd.Specs {
			vs := sp.(*ast.ValueSpec)
			if len(vs.Names) != len(vs.Values) {
				return "", c.errf(vs, "evtype: unsupported declaration")
			}
			for i, n := range vs.Names {
				s, ok := esStringLit(vs.Values[i])
				if !ok {
					return "", c.errf(vs, "evtype %s is not a string literal", n.Name)
				}
				c.evtypes[n.Name] = s
				evtypeOrder = append(evtypeOrder, n.Name)
			}
		}
	}
	hf, err := parse(filepath.Join(dir, "helpers.go"))
	if err != nil {
		return "", err
	}
	if err := c.readHelpers(hf); err != nil {
		return "", err
	}
	ef, err := parse(filepath.Join(dir, "events.go"))
	if err != nil {
		return "", err
	}
	var encs []esEnc
	makers := map[string]*ast.FuncDecl{}
	var makeEvent, expectAttrs *ast.FuncDecl
	for _, d := range ef.Decls {
		fd, ok := d.(*ast.FuncDecl)
		if !ok || fd.Body == nil {
			continue
		}
		switch {
		case fd.Recv != nil && fd.Name.Name == "MakeABCIEvent":
			e, err := c.readEncoder(fd)
			if err != nil {
				return "", err
			}
			encs = append(encs, e)
		case fd.Recv == nil && fd.Name.Name == "MakeEvent":
			makeEvent = fd
		case fd.Recv == nil && fd.Name.Name == "expectAttributes":
			expectAttrs = fd
		case fd.Recv == nil && strings.HasPrefix(fd.Name.Name, "make"):
			makers[fd.Name.Name] = fd
		}
	}
	if makeEvent == nil || expectAttrs == nil {
		return "", fmt.Errorf("events.go: MakeEvent or expectAttributes not found")
	}
	guard, err := c.readExpectAttributes(expectAttrs)
	if err != nil {
		return "", err
	}
	decs, err := c.readDispatch(makeEvent, makers)
	if err != nil {
		return "", err
	}
	if len(encs) == 0 || len(decs) == 0 {
		return "", fmt.Errorf("events.go: no events found")
	}

	var b strings.Builder
	b.WriteString("(* GENERATED by harness/cmd/translate (gen_eventschema.go) from\n")
	b.WriteString("   rolling-shutter/keyper/shutterevents/{events.go,helpers.go,evtype/evtype.go}.\n")
	b.WriteString("   Do not edit: ./check C14 rewrites this file from the repository's working tree. *)\n")
	b.WriteString("From Coq Require Import List String.\nImport ListNotations.\nLocal Open Scope string_scope.\n\n")
	b.WriteString("(* attribute codecs of marshal.go (encodeX / decodeX pairs); CSprintfD is fmt.Sprintf(\"%d\", uint64) *)\n")
	b.WriteString("Inductive codec := CUint64 | CSprintfD | CAddress | CAddresses | CByteSequence | CGammas | CECIESPublicKey.\n")
	b.WriteString("(* conversion between the struct field and the encoded value: none, or []*big.Int <-> [][]byte\n   through Bytes()/SetBytes (Apology.PolyEval) *)\n")
	b.WriteString("Inductive via := VDirect | VBigIntBytes.\n\n")
	b.WriteString("Record enc_attr := mk_enc_attr { ea_key : string; ea_codec : codec; ea_index : bool; ea_field : string; ea_via : via }.\n")
	b.WriteString("Record enc_schema := mk_enc { en_struct : string; en_type : string; en_attrs : list enc_attr }.\n")
	b.WriteString("Record dec_read := mk_dec_read { dr_pos : nat; dr_codec : codec; dr_field : string; dr_via : via }.\n")
	b.WriteString("Record dec_schema := mk_dec { de_type : string; de_func : string; de_struct : string; de_names : list string;\n  de_reads : list dec_read; de_height : bool }.\n\n")
	b.WriteString("(* evtype/evtype.go *)\nDefinition evtypes : list (string * string) := [\n")
	for i, n := range evtypeOrder {
		fmt.Fprintf(&b, "  (%s, %s)%s\n", coqStr(n), coqStr(c.evtypes[n]), sep(i, len(evtypeOrder)))
	}
	b.WriteString("].\n\n(* MakeABCIEvent methods, in source order *)\nDefinition encoders : list enc_schema := [\n")
	for i, e := range encs {
		fmt.Fprintf(&b, "  mk_enc %s %s [\n", coqStr(e.Struct), coqStr(e.TypeStr))
		for j, a := range e.Attrs {
			fmt.Fprintf(&b, "    mk_enc_attr %s %s %v %s %s%s\n", coqStr(a.Key), a.Codec, a.Index, coqStr(a.Field), a.Via, sep(j, len(e.Attrs)))
		}
		fmt.Fprintf(&b, "  ]%s\n", sep(i, len(encs)))
	}
	b.WriteString("].\n\n(* MakeEvent: the cases of the type switch in order, each with its makeXxx function *)\nDefinition decoders : list dec_schema := [\n")
	for i, d := range decs {
		names := make([]string, len(d.Names))
		for k, n := range d.Names {
			names[k] = coqStr(n)
		}
		fmt.Fprintf(&b, "  mk_dec %s %s %s [%s] [\n", coqStr(d.TypeStr), coqStr(d.Func), coqStr(d.Struct), strings.Join(names, "; "))
		for j, r := range d.Reads {
			fmt.Fprintf(&b, "    mk_dec_read %d %s %s %s%s\n", r.Pos, r.Codec, coqStr(r.Field), r.Via, sep(j, len(d.Reads)))
		}
		fmt.Fprintf(&b, "  ] %v%s\n", d.Height, sep(i, len(decs)))
	}
	b.WriteString("].\n\n(* expectAttributes begins with `if len(ev.Attributes) < len(names) { return error }` *)\n")
	fmt.Fprintf(&b, "Definition expect_attributes_length_guard : bool := %v.\n", guard)
	return b.String(), nil
}

func sep(i, n int) string {
	if i+1 < n {
		return ";"
	}
	return ""
}

func coqStr(s string) string {
	for _, r := range s {
		if r < 0x20 || r > 0x7e {
			// only printable ASCII names are expected in the schema
			return `"` + strings.ReplaceAll(fmt.Sprintf("%q", s), `"`, `""`) + `"`
		}
	}
	return `"` + strings.ReplaceAll(s, `"`, `""`) + `"`
}

// helpers.go: func newXPair(key string, value T) abcitypes.EventAttribute {
//
//	return abcitypes.EventAttribute{Key: key, Value: encodeX(value), [Index: true]} }
func (c *esCtx) readHelpers(f *ast.File) error {
	for _, d := range f.Decls {
		fd, ok := d.(*ast.FuncDecl)
		if !ok || fd.Recv != nil || fd.Body == nil {
			continue
		}
		if len(fd.Type.Params.List) != 2 || len(fd.Body.List) != 1 {
			return c.errf(fd, "helper %s: unsupported shape", fd.Name.Name)
		}
		p0, p1 := fd.Type.Params.List[0], fd.Type.Params.List[1]
		if len(p0.Names) != 1 || len(p1.Names) != 1 {
			return c.errf(fd, "helper %s: unsupported parameters", fd.Name.Name)
		}
		keyName, valName := p0.Names[0].Name, p1.Names[0].Name
		ret, ok := fd.Body.List[0].(*ast.ReturnStmt)
		if !ok || len(ret.Results) != 1 {
			return c.errf(fd, "helper %s: unsupported body", fd.Name.Name)
		}
		lit, ok := ret.Results[0].(*ast.CompositeLit)
		if !ok || c.src(lit.Type) != "abcitypes.EventAttribute" {
			return c.errf(fd, "helper %s: does not return an EventAttribute literal", fd.Name.Name)
		}
		key, codec, index, argSrc, err := c.readAttrLit(lit, func(e ast.Expr) (string, bool) {
			if esIsIdent(e, keyName) {
				return "<key>", true
			}
			return "", false
		})
		if err != nil {
			return err
		}
		if key != "<key>" || argSrc == nil || !esIsIdent(argSrc, valName) {
			return c.errf(fd, "helper %s: Key/Value are not the parameters", fd.Name.Name)
		}
		c.helpers[fd.Name.Name] = struct {
			Codec string
			Index bool
		}{codec, index}
	}
	if len(c.helpers) == 0 {
		return fmt.Errorf("helpers.go: no helper found")
	}
	return nil
}

// readAttrLit reads {Key: K, Value: enc(arg), Index: true}. keyOf maps the Key expression to a name.
func (c *esCtx) readAttrLit(lit *ast.CompositeLit, keyOf func(ast.Expr) (string, bool)) (key, codec string, index bool, arg ast.Expr, err error) {
	seen := map[string]bool{}
	for _, el := range lit.Elts {
		kv, ok := el.(*ast.KeyValueExpr)
		if !ok {
			return "", "", false, nil, c.errf(el, "attribute literal without field names")
		}
		name := c.src(kv.Key)
		if seen[name] {
			return "", "", false, nil, c.errf(el, "duplicate field %s", name)
		}
		seen[name] = true
		switch name {
		case "Key":
			k, ok := keyOf(kv.Value)
			if !ok {
				return "", "", false, nil, c.errf(kv.Value, "unsupported attribute key %s", c.src(kv.Value))
			}
			key = k
		case "Value":
			call, ok := kv.Value.(*ast.CallExpr)
			if !ok {
				return "", "", false, nil, c.errf(kv.Value, "attribute value is not a call: %s", c.src(kv.Value))
			}
			fn := c.src(call.Fun)
			switch {
			case fn == "fmt.Sprintf" && len(call.Args) == 2:
				if s, ok := esStringLit(call.Args[0]); !ok || s != "%d" {
					return "", "", false, nil, c.errf(call, "unsupported format %s", c.src(call.Args[0]))
				}
				codec, arg = "CSprintfD", call.Args[1]
			case esEncoderCodec[fn] != "" && len(call.Args) == 1:
				codec, arg = esEncoderCodec[fn], call.Args[0]
			default:
				return "", "", false, nil, c.errf(call, "unknown attribute encoder %s", c.src(call))
			}
		case "Index":
			switch c.src(kv.Value) {
			case "true":
				index = true
			case "false":
			default:
				return "", "", false, nil, c.errf(kv.Value, "unsupported Index value")
			}
		default:
			return "", "", false, nil, c.errf(el, "unknown attribute field %s", name)
		}
	}
	if !seen["Key"] || !seen["Value"] {
		return "", "", false, nil, c.errf(lit, "attribute literal without Key or Value")
	}
	return key, codec, index, arg, nil
}

func (c *esCtx) readEncoder(fd *ast.FuncDecl) (esEnc, error) {
	var e esEnc
	if len(fd.Recv.List) != 1 || len(fd.Recv.List[0].Names) != 1 {
		return e, c.errf(fd, "MakeABCIEvent: unsupported receiver")
	}
	recvType := c.src(fd.Recv.List[0].Type)
	if strings.HasPrefix(recvType, "*") {
		return e, c.errf(fd, "MakeABCIEvent: pointer receiver not supported")
	}
	e.Struct = recvType
	recv := fd.Recv.List[0].Names[0].Name
	// derived locals: L = [x.Bytes() for x in recv.F]
	derived := map[string]string{}
	declared := map[string]bool{}
	stmts := fd.Body.List
	if len(stmts) == 0 {
		return e, c.errf(fd, "%s.MakeABCIEvent: empty body", e.Struct)
	}
	for _, st := range stmts[:len(stmts)-1] {
		switch s := st.(type) {
		case *ast.DeclStmt:
			gd, ok := s.Decl.(*ast.GenDecl)
			if !ok || gd.Tok != token.VAR || len(gd.Specs) != 1 {
				return e, c.errf(st, "%s.MakeABCIEvent: unsupported declaration", e.Struct)
			}
			vs := gd.Specs[0].(*ast.ValueSpec)
			if len(vs.Names) != 1 || len(vs.Values) != 0 || c.src(vs.Type) != "[][]byte" {
				return e, c.errf(st, "%s.MakeABCIEvent: unsupported declaration", e.Struct)
			}
			declared[vs.Names[0].Name] = true
		case *ast.RangeStmt:
			// for _, x := range recv.F { L = append(L, x.Bytes()) }
			r, f, ok := esSel(s.X)
			val, vok := s.Value.(*ast.Ident)
			if !ok || r != recv || !vok || !esIsIdent(s.Key, "_") || len(s.Body.List) != 1 {
				return e, c.errf(st, "%s.MakeABCIEvent: unsupported loop", e.Struct)
			}
			as, ok := s.Body.List[0].(*ast.AssignStmt)
			if !ok || as.Tok != token.ASSIGN || len(as.Lhs) != 1 || len(as.Rhs) != 1 {
				return e, c.errf(st, "%s.MakeABCIEvent: unsupported loop body", e.Struct)
			}
			l, ok := as.Lhs[0].(*ast.Ident)
			if !ok || !declared[l.Name] || c.src(as.Rhs[0]) != fmt.Sprintf("append(%s, %s.Bytes())", l.Name, val.Name) {
				return e, c.errf(st, "%s.MakeABCIEvent: unsupported loop body %s", e.Struct, c.src(as))
			}
			if _, dup := derived[l.Name]; dup {
				return e, c.errf(st, "%s.MakeABCIEvent: %s filled twice", e.Struct, l.Name)
			}
			derived[l.Name] = f
		default:
			return e, c.errf(st, "%s.MakeABCIEvent: unsupported statement %s", e.Struct, c.src(st))
		}
	}
	ret, ok := stmts[len(stmts)-1].(*ast.ReturnStmt)
	if !ok || len(ret.Results) != 1 {
		return e, c.errf(fd, "%s.MakeABCIEvent: does not end in a return", e.Struct)
	}
	lit, ok := ret.Results[0].(*ast.CompositeLit)
	if !ok || c.src(lit.Type) != "abcitypes.Event" || len(lit.Elts) != 2 {
		return e, c.errf(ret, "%s.MakeABCIEvent: does not return an abcitypes.Event{Type, Attributes} literal", e.Struct)
	}
	var attrs *ast.CompositeLit
	for _, el := range lit.Elts {
		kv, ok := el.(*ast.KeyValueExpr)
		if !ok {
			return e, c.errf(el, "%s.MakeABCIEvent: unsupported event literal", e.Struct)
		}
		switch c.src(kv.Key) {
		case "Type":
			pkg, name, ok := esSel(kv.Value)
			if !ok || pkg != "evtype" {
				return e, c.errf(kv.Value, "%s.MakeABCIEvent: Type is not an evtype variable", e.Struct)
			}
			s, ok := c.evtypes[name]
			if !ok {
				return e, c.errf(kv.Value, "unknown evtype.%s", name)
			}
			e.TypeVar, e.TypeStr = name, s
		case "Attributes":
			al, ok := kv.Value.(*ast.CompositeLit)
			if !ok || c.src(al.Type) != "[]abcitypes.EventAttribute" {
				return e, c.errf(kv.Value, "%s.MakeABCIEvent: unsupported Attributes", e.Struct)
			}
			attrs = al
		default:
			return e, c.errf(el, "%s.MakeABCIEvent: unsupported event field", e.Struct)
		}
	}
	if attrs == nil || e.TypeVar == "" {
		return e, c.errf(ret, "%s.MakeABCIEvent: Type or Attributes missing", e.Struct)
	}
	for _, el := range attrs.Elts {
		var a esEncAttr
		var arg ast.Expr
		switch x := el.(type) {
		case *ast.CallExpr:
			h, ok := c.helpers[c.src(x.Fun)]
			if !ok || len(x.Args) != 2 {
				return e, c.errf(el, "%s.MakeABCIEvent: unknown attribute helper %s", e.Struct, c.src(x.Fun))
			}
			k, ok := esStringLit(x.Args[0])
			if !ok {
				return e, c.errf(el, "%s.MakeABCIEvent: attribute key is not a string literal", e.Struct)
			}
			a.Key, a.Codec, a.Index, arg = k, h.Codec, h.Index, x.Args[1]
		case *ast.CompositeLit:
			if x.Type != nil && c.src(x.Type) != "abcitypes.EventAttribute" {
				return e, c.errf(el, "%s.MakeABCIEvent: unsupported attribute literal", e.Struct)
			}
			k, codec, index, ar, err := c.readAttrLit(x, esStringLit)
			if err != nil {
				return e, err
			}
			a.Key, a.Codec, a.Index, arg = k, codec, index, ar
		default:
			return e, c.errf(el, "%s.MakeABCIEvent: unsupported attribute %s", e.Struct, c.src(el))
		}
		if r, f, ok := esSel(arg); ok && r == recv {
			a.Field, a.Via = f, "VDirect"
		} else if id, ok := arg.(*ast.Ident); ok && derived[id.Name] != "" {
			a.Field, a.Via = derived[id.Name], "VBigIntBytes"
		} else {
			return e, c.errf(arg, "%s.MakeABCIEvent: unsupported attribute argument %s", e.Struct, c.src(arg))
		}
		e.Attrs = append(e.Attrs, a)
	}
	return e, nil
}

func (c *esCtx) readExpectAttributes(fd *ast.FuncDecl) (bool, error) {
	const guardSrc = `if len(ev.Attributes) < len(names) { return errors.Errorf("expected at least %d attributes", len(names)) }`
	const loopSrc = `for i, n := range names { if ev.Attributes[i].Key != n { return errors.Errorf( "bad attribute, parsing event %s: expected %s, got %s at position %d", ev.Type, n, ev.Attributes[i].Key, i, ) } }`
	if c.src(fd.Type) != "func(ev abcitypes.Event, names ...string) error" {
		return false, c.errf(fd, "expectAttributes: unsupported signature %s", c.src(fd.Type))
	}
	var got []string
	for _, st := range fd.Body.List {
		got = append(got, c.src(st))
	}
	norm := func(s string) string { return strings.ReplaceAll(strings.ReplaceAll(s, " ", ""), ",)", ")") }
	withGuard := []string{guardSrc, loopSrc, "return nil"}
	match := func(want []string) bool {
		if len(got) != len(want) {
			return false
		}
		for i := range want {
			if norm(got[i]) != norm(want[i]) {
				return false
			}
		}
		return true
	}
	if match(withGuard) {
		return true, nil
	}
	if match(withGuard[1:]) {
		return false, nil
	}
	return false, c.errf(fd, "expectAttributes: body has neither of the two understood shapes: %s", strings.Join(got, " ; "))
}

func (c *esCtx) readDispatch(fd *ast.FuncDecl, makers map[string]*ast.FuncDecl) ([]esDec, error) {
	if c.src(fd.Type) != "func(ev abcitypes.Event, height int64) (IEvent, error)" || len(fd.Body.List) != 1 {
		return nil, c.errf(fd, "MakeEvent: unsupported shape")
	}
	sw, ok := fd.Body.List[0].(*ast.SwitchStmt)
	if !ok || sw.Init != nil || c.src(sw.Tag) != "ev.Type" {
		return nil, c.errf(fd, "MakeEvent: body is not `switch ev.Type`")
	}
	var out []esDec
	sawDefault := false
	for _, st := range sw.Body.List {
		cc := st.(*ast.CaseClause)
		if len(cc.Body) != 1 {
			return nil, c.errf(cc, "MakeEvent: unsupported case body")
		}
		ret, ok := cc.Body[0].(*ast.ReturnStmt)
		if !ok {
			return nil, c.errf(cc, "MakeEvent: case does not return")
		}
		if cc.List == nil {
			if len(ret.Results) != 2 || c.src(ret.Results[0]) != "nil" || !strings.HasPrefix(c.src(ret.Results[1]), "errors.Errorf(") {
				return nil, c.errf(cc, "MakeEvent: default does not return an error")
			}
			sawDefault = true
			continue
		}
		if len(ret.Results) != 1 {
			return nil, c.errf(cc, "MakeEvent: unsupported case body")
		}
		call, ok := ret.Results[0].(*ast.CallExpr)
		if !ok || len(call.Args) != 2 || !esIsIdent(call.Args[0], "ev") || !esIsIdent(call.Args[1], "height") {
			return nil, c.errf(cc, "MakeEvent: case does not return makeXxx(ev, height)")
		}
		fn := c.src(call.Fun)
		mk, ok := makers[fn]
		if !ok {
			return nil, c.errf(cc, "MakeEvent: unknown function %s", fn)
		}
		for _, e := range cc.List {
			pkg, name, ok := esSel(e)
			if !ok || pkg != "evtype" {
				return nil, c.errf(e, "MakeEvent: case is not an evtype variable")
			}
			s, ok := c.evtypes[name]
			if !ok {
				return nil, c.errf(e, "unknown evtype.%s", name)
			}
			d, err := c.readMaker(mk)
			if err != nil {
				return nil, err
			}
			d.TypeVar, d.TypeStr, d.Func = name, s, fn
			out = append(out, d)
		}
	}
	if !sawDefault {
		return nil, c.errf(fd, "MakeEvent: no default case returning an error")
	}
	return out, nil
}

func (c *esCtx) isErrCheck(st ast.Stmt) bool {
	return c.src(st) == "if err != nil { return nil, err }"
}

func (c *esCtx) readMaker(fd *ast.FuncDecl) (esDec, error) {
	var d esDec
	name := fd.Name.Name
	sig := c.src(fd.Type)
	const pre = "func(ev abcitypes.Event, height int64) (*"
	if !strings.HasPrefix(sig, pre) || !strings.HasSuffix(sig, ", error)") {
		return d, c.errf(fd, "%s: unsupported signature %s", name, sig)
	}
	d.Struct = strings.TrimSuffix(strings.TrimPrefix(sig, pre), ", error)")
	stmts := fd.Body.List
	if len(stmts) < 3 {
		return d, c.errf(fd, "%s: too short", name)
	}
	// err := expectAttributes(ev, "A", ...); if err != nil { return nil, err }
	as, ok := stmts[0].(*ast.AssignStmt)
	if !ok || as.Tok != token.DEFINE || len(as.Lhs) != 1 || !esIsIdent(as.Lhs[0], "err") || len(as.Rhs) != 1 {
		return d, c.errf(stmts[0], "%s: does not start with err := expectAttributes(...)", name)
	}
	call, ok := as.Rhs[0].(*ast.CallExpr)
	if !ok || c.src(call.Fun) != "expectAttributes" || len(call.Args) < 1 || !esIsIdent(call.Args[0], "ev") || call.Ellipsis != token.NoPos {
		return d, c.errf(stmts[0], "%s: does not start with err := expectAttributes(ev, ...)", name)
	}
	for _, a := range call.Args[1:] {
		s, ok := esStringLit(a)
		if !ok {
			return d, c.errf(a, "%s: attribute name is not a string literal", name)
		}
		d.Names = append(d.Names, s)
	}
	if !c.isErrCheck(stmts[1]) {
		return d, c.errf(stmts[1], "%s: expectAttributes error is not returned", name)
	}
	// local variable -> index into d.Reads
	readOf := map[string]int{}
	// derived: W = [new(big.Int).SetBytes(b) for b in V]
	derived := map[string]string{}
	declared := map[string]bool{}
	i := 2
	for ; i < len(stmts)-1; i++ {
		switch s := stmts[i].(type) {
		case *ast.DeclStmt:
			gd, ok := s.Decl.(*ast.GenDecl)
			if !ok || gd.Tok != token.VAR || len(gd.Specs) != 1 {
				return d, c.errf(s, "%s: unsupported declaration", name)
			}
			vs := gd.Specs[0].(*ast.ValueSpec)
			if len(vs.Names) != 1 || len(vs.Values) != 0 || c.src(vs.Type) != "[]*big.Int" {
				return d, c.errf(s, "%s: unsupported declaration", name)
			}
			declared[vs.Names[0].Name] = true
		case *ast.AssignStmt:
			// v, err := decodeK(ev.Attributes[i].Value)   (or .GetValue())
			if (s.Tok != token.DEFINE && s.Tok != token.ASSIGN) || len(s.Lhs) != 2 || !esIsIdent(s.Lhs[1], "err") || len(s.Rhs) != 1 {
				return d, c.errf(s, "%s: unsupported assignment %s", name, c.src(s))
			}
			v, ok := s.Lhs[0].(*ast.Ident)
			if !ok || v.Name == "_" {
				return d, c.errf(s, "%s: unsupported assignment %s", name, c.src(s))
			}
			call, ok := s.Rhs[0].(*ast.CallExpr)
			if !ok || len(call.Args) != 1 {
				return d, c.errf(s, "%s: unsupported assignment %s", name, c.src(s))
			}
			codec := esDecoderCodec[c.src(call.Fun)]
			if codec == "" {
				return d, c.errf(s, "%s: unknown attribute decoder %s", name, c.src(call.Fun))
			}
			arg := c.src(call.Args[0])
			var pos int
			var tail string
			if n, _ := fmt.Sscanf(arg, "ev.Attributes[%d]%s", &pos, &tail); n != 2 || (tail != ".Value" && tail != ".GetValue()") || pos < 0 {
				return d, c.errf(s, "%s: decoder argument is not ev.Attributes[i].Value: %s", name, arg)
			}
			if i+1 >= len(stmts)-1 || !c.isErrCheck(stmts[i+1]) {
				return d, c.errf(s, "%s: error of %s is not returned", name, c.src(call.Fun))
			}
			i++
			if _, dup := readOf[v.Name]; dup {
				return d, c.errf(s, "%s: %s assigned twice", name, v.Name)
			}
			readOf[v.Name] = len(d.Reads)
			d.Reads = append(d.Reads, esRead{Pos: pos, Codec: codec, Via: "VDirect", Var: v.Name})
		case *ast.RangeStmt:
			// for _, b := range V { e := new(big.Int); e.SetBytes(b); W = append(W, e) }
			src, ok := s.X.(*ast.Ident)
			val, vok := s.Value.(*ast.Ident)
			if !ok || !vok || !esIsIdent(s.Key, "_") || len(s.Body.List) != 3 {
				return d, c.errf(s, "%s: unsupported loop", name)
			}
			if _, ok := readOf[src.Name]; !ok {
				return d, c.errf(s, "%s: loop over %s which is not a decoded attribute", name, src.Name)
			}
			as3, ok := s.Body.List[2].(*ast.AssignStmt)
			if !ok || len(as3.Lhs) != 1 {
				return d, c.errf(s, "%s: unsupported loop body", name)
			}
			w, ok := as3.Lhs[0].(*ast.Ident)
			if !ok || !declared[w.Name] {
				return d, c.errf(s, "%s: unsupported loop body", name)
			}
			want := fmt.Sprintf("e := new(big.Int) ; e.SetBytes(%s) ; %s = append(%s, e)", val.Name, w.Name, w.Name)
			got := c.src(s.Body.List[0]) + " ; " + c.src(s.Body.List[1]) + " ; " + c.src(s.Body.List[2])
			if got != want {
				return d, c.errf(s, "%s: unsupported loop body %s", name, got)
			}
			if _, dup := derived[w.Name]; dup {
				return d, c.errf(s, "%s: %s filled twice", name, w.Name)
			}
			derived[w.Name] = src.Name
		default:
			return d, c.errf(stmts[i], "%s: unsupported statement %s", name, c.src(stmts[i]))
		}
	}
	// return &S{Field: v, ...}, nil
	ret, ok := stmts[len(stmts)-1].(*ast.ReturnStmt)
	if !ok || len(ret.Results) != 2 || c.src(ret.Results[1]) != "nil" {
		return d, c.errf(fd, "%s: does not end in return &%s{...}, nil", name, d.Struct)
	}
	un, ok := ret.Results[0].(*ast.UnaryExpr)
	if !ok || un.Op != token.AND {
		return d, c.errf(ret, "%s: does not return &%s{...}", name, d.Struct)
	}
	lit, ok := un.X.(*ast.CompositeLit)
	if !ok || c.src(lit.Type) != d.Struct {
		return d, c.errf(ret, "%s: does not return &%s{...}", name, d.Struct)
	}
	seen := map[string]bool{}
	for _, el := range lit.Elts {
		kv, ok := el.(*ast.KeyValueExpr)
		if !ok {
			return d, c.errf(el, "%s: result literal without field names", name)
		}
		field := c.src(kv.Key)
		if seen[field] {
			return d, c.errf(el, "%s: field %s set twice", name, field)
		}
		seen[field] = true
		val := kv.Value
		if u, ok := val.(*ast.UnaryExpr); ok && u.Op == token.AND {
			val = u.X
		}
		id, ok := val.(*ast.Ident)
		if !ok {
			return d, c.errf(el, "%s: unsupported field value %s", name, c.src(kv.Value))
		}
		if id.Name == "height" {
			if field != "Height" {
				return d, c.errf(el, "%s: height assigned to %s", name, field)
			}
			d.Height = true
			continue
		}
		via := "VDirect"
		v := id.Name
		if srcVar, ok := derived[v]; ok {
			via, v = "VBigIntBytes", srcVar
		}
		ri, ok := readOf[v]
		if !ok {
			return d, c.errf(el, "%s: field %s set from %s which is not a decoded attribute", name, field, id.Name)
		}
		if d.Reads[ri].Field != "" {
			return d, c.errf(el, "%s: %s used for two fields", name, v)
		}
		d.Reads[ri].Field, d.Reads[ri].Via = field, via
	}
	return d, nil
}
