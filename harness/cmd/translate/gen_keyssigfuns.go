package main

// KeysSigFuns: the signature validators of released decryption keys, translated statement by
// statement (second tie of C06):
//
//   keyperimpl/gnosis/handlers.go          validateSignerIndices, ValidateDecryptionKeysBasic,
//                                          ValidateDecryptionKeysSignatures,
//                                          DecryptionKeysHandler.ValidateMessage
//   keyperimpl/shutterservice/handlers.go  validateSignerIndices, ValidateDecryptionKeysSignatures
//   chainobserver/db/keyper/extend.go      KeyperSet.GetSubset
//   keyperimpl/gnosis/gnosisssztypes/slotdecryptionsignatures.go     NewSlotDecryptionSignatureData
//   keyperimpl/shutterservice/serviceztypes/decryptionsignatures.go  NewDecryptionSignatureData
//   gnosisaccessnode/decryptionkeyshandler.go  ValidateMessage, validateGnosisFields
//
// What is translated: every guard (with its comparison operator and the int32 / uint64 casts
// written out), the order of the guards, which rejection each one produces, every slice index
// (an index outside the slice is the outcome Panic), the loops (`for i, x := range l` and
// `for i := 0; i < len(l); i++` with early returns - the latter, when its body starts with
// `x := l[i]`, is emitted in the same form as the range loop; the accumulator loop of GetSubset), which
// list is indexed by which variable, and which fields reach the signature data in which role.
// What stays a parameter: the result of CheckSignature (`check`), of shdb.DecodeAddress
// (`decode`), of the keyper-set lookup (`lookup`) and of the access node's validateCommonFields.
//
// The translator understands a small fragment and REFUSES everything else (unknown statement
// or expression form, unknown rejection text, unknown callee, a callee called with other
// arguments than the ones it was translated for).

import (
	"fmt"
	"go/ast"
	"go/token"
	"sort"
	"strconv"
	"strings"
)

func init() { register("KeysSigFuns", genKeysSigFuns) }

// ksText renders an expression as canonical text (used as key of the rename tables and for
// shape checks).
func ksText(e ast.Expr) string {
	switch x := e.(type) {
	case nil:
		return ""
	case *ast.Ident:
		return x.Name
	case *ast.SelectorExpr:
		return ksText(x.X) + "." + x.Sel.Name
	case *ast.StarExpr:
		return "*" + ksText(x.X)
	case *ast.UnaryExpr:
		return x.Op.String() + ksText(x.X)
	case *ast.BinaryExpr:
		return ksText(x.X) + x.Op.String() + ksText(x.Y)
	case *ast.ParenExpr:
		return "(" + ksText(x.X) + ")"
	case *ast.BasicLit:
		return x.Value
	case *ast.IndexExpr:
		return ksText(x.X) + "[" + ksText(x.Index) + "]"
	case *ast.TypeAssertExpr:
		return ksText(x.X) + ".(" + ksText(x.Type) + ")"
	case *ast.ArrayType:
		return "[" + ksText(x.Len) + "]" + ksText(x.Elt)
	case *ast.CompositeLit:
		var el []string
		for _, a := range x.Elts {
			el = append(el, ksText(a))
		}
		return ksText(x.Type) + "{" + strings.Join(el, ",") + "}"
	case *ast.KeyValueExpr:
		return ksText(x.Key) + ":" + ksText(x.Value)
	case *ast.CallExpr:
		var args []string
		for _, a := range x.Args {
			args = append(args, ksText(a))
		}
		return ksText(x.Fun) + "(" + strings.Join(args, ",") + ")"
	}
	return fmt.Sprintf("<%T>", e)
}

// rejection texts -> reason constructors of Model/KeysSig.v
var ksReasons = []struct{ sub, reason string }{
	{"expected one signature per signer", "RSigCount"},
	{"signers, got", "RSignerCount"},
	{"duplicate signer index", "RDuplicate"},
	{"signer indices not ordered", "RUnordered"},
	{"signer index out of range", "ROutOfRange"},
	{"signature data object", "RTooManyIds"},
	{"failed to check", "RCheckError"},
	{"signature invalid", "RInvalidSig"},
	{"unexpected extra type", "RExtraType"},
	{"missing extra Gnosis data", "RExtraNil"},
	{"slot number too large", "RSlotTooLarge"},
	{"tx pointer too large", "RTxpTooLarge"},
	{"msg does not contain any keys", "RNoKeys"},
	{"no keyper set found", "RNoKeyperSet"},
	{"failed to get keyper set from database", "RNoKeyperSet"},
}

// how a `return a, b` is rendered, by kind of function
const (
	ksVerdictFn = iota // (pubsub.ValidationResult, error)
	ksSubsetFn         // ([]common.Address, error)
	ksDataFn           // (*SignatureData, error)
)

type ksCallee struct {
	// emit produces the Coq call for the given argument texts, or an error when the arguments
	// are not the ones the callee was translated for
	emit func(args []string) (string, error)
	// kind: "verdict" (res, err := f(..); if res != Accept [|| err != nil] { return res, err }),
	// "subset" (v, err := f(..); if err != nil { return Reject, err }),
	// "option" (v, err := f(..); if err != nil { return Reject, <text> }  or  v, ok := f(..); if !ok {..})
	kind string
	// list: the bound value is a list usable in len() and indexing
	list bool
}

type ks struct {
	fn      string
	kind    int
	rename  map[string]string // canonical Go text -> Coq term (number or boolean)
	lists   map[string]string // canonical Go text -> Coq list variable
	passthr map[string]string // canonical Go text -> Coq term passed through unchanged (fields of the signed data)
	callees map[string]ksCallee
	locals  map[string]bool
	alias   map[string]ast.Expr // pure locals (x := a.b.c): every use is replaced by the selector chain
	acc     string              // accumulator variable of an accumulator loop ("" outside)
	wrap    func(string) string
	fall    string // value when control falls off the end of the current block ("" = not allowed)
	cont    string // value of `continue` inside a loop body ("" outside a loop)
	idsVar  string // the local that holds the identity preimages once the idiom was seen
	err     error
}

func (t *ks) fail(format string, a ...any) string {
	if t.err == nil {
		t.err = fmt.Errorf(t.fn+": "+format, a...)
	}
	return "Panic"
}

func (t *ks) child() *ks {
	c := *t
	c.locals = map[string]bool{}
	for k, v := range t.locals {
		c.locals[k] = v
	}
	c.lists = map[string]string{}
	for k, v := range t.lists {
		c.lists[k] = v
	}
	if t.alias != nil {
		c.alias = map[string]ast.Expr{}
		for k, v := range t.alias {
			c.alias[k] = v
		}
	}
	return &c
}

// isFieldChain: an identifier followed by field selections only (no call, index or dereference):
// its value cannot change within the fragment, which has no assignment to fields.
func isFieldChain(e ast.Expr) bool {
	switch x := e.(type) {
	case *ast.Ident:
		return true
	case *ast.SelectorExpr:
		return isFieldChain(x.X)
	}
	return false
}

// isPureValue: a field chain, or len / an integer conversion of one (the fragment never assigns
// to a field, a slice or a parameter, so the value is the same wherever it is used).
func isPureValue(e ast.Expr) bool {
	if c, ok := e.(*ast.CallExpr); ok && len(c.Args) == 1 {
		switch ksText(c.Fun) {
		case "len", "uint64", "int", "int64", "int32":
			return isPureValue(c.Args[0]) || isFieldChain(c.Args[0])
		}
		return false
	}
	_, isSel := e.(*ast.SelectorExpr)
	return isSel && isFieldChain(e)
}

// resolve replaces the pure locals (see alias) inside an expression by what they stand for.
func (t *ks) resolve(e ast.Expr) ast.Expr {
	if len(t.alias) == 0 {
		return e
	}
	switch x := e.(type) {
	case *ast.Ident:
		if a, ok := t.alias[x.Name]; ok && !t.locals[x.Name] {
			return a
		}
	case *ast.SelectorExpr:
		return &ast.SelectorExpr{X: t.resolve(x.X), Sel: x.Sel}
	case *ast.ParenExpr:
		return &ast.ParenExpr{X: t.resolve(x.X)}
	case *ast.UnaryExpr:
		return &ast.UnaryExpr{Op: x.Op, X: t.resolve(x.X)}
	case *ast.BinaryExpr:
		return &ast.BinaryExpr{X: t.resolve(x.X), Op: x.Op, Y: t.resolve(x.Y)}
	case *ast.IndexExpr:
		return &ast.IndexExpr{X: t.resolve(x.X), Index: t.resolve(x.Index)}
	case *ast.CallExpr:
		args := make([]ast.Expr, len(x.Args))
		for i, a := range x.Args {
			args[i] = t.resolve(a)
		}
		return &ast.CallExpr{Fun: x.Fun, Args: args}
	}
	return e
}

// lenIsZero recognises the spellings of "the slice is empty" / "is not empty" over len(x), which
// is never negative: len(x) == 0, < 1, <= 0, 0 == len(x), 1 > len(x), 0 >= len(x), and their
// negations len(x) != 0, > 0, >= 1, ... ; all are emitted as (len =? 0) resp. its negation.
func lenIsZero(x *ast.BinaryExpr) (lenExpr ast.Expr, zero bool, ok bool) {
	isLen := func(e ast.Expr) bool {
		c, ok := e.(*ast.CallExpr)
		return ok && ksText(c.Fun) == "len" && len(c.Args) == 1
	}
	lit := func(e ast.Expr) string {
		if b, ok := e.(*ast.BasicLit); ok && b.Kind == token.INT {
			return b.Value
		}
		return ""
	}
	op, l, c := x.Op, x.X, lit(x.Y)
	if !isLen(l) {
		if !isLen(x.Y) || lit(x.X) == "" {
			return nil, false, false
		}
		l, c = x.Y, lit(x.X)
		switch op { // mirror: c op len  ==  len op' c
		case token.LSS:
			op = token.GTR
		case token.GTR:
			op = token.LSS
		case token.LEQ:
			op = token.GEQ
		case token.GEQ:
			op = token.LEQ
		}
	}
	switch {
	case op == token.EQL && c == "0", op == token.LSS && c == "1", op == token.LEQ && c == "0":
		return l, true, true
	case op == token.NEQ && c == "0", op == token.GEQ && c == "1", op == token.GTR && c == "0":
		return l, false, true
	}
	return nil, false, false
}

func (t *ks) expr(e ast.Expr) string {
	e = t.resolve(e)
	if be, ok := e.(*ast.BinaryExpr); ok {
		if l, zero, ok := lenIsZero(be); ok {
			v := "(" + t.expr(l) + " =? 0)"
			if !zero {
				v = "(negb " + v + ")"
			}
			return v
		}
	}
	if v, ok := t.rename[ksText(e)]; ok {
		return v
	}
	switch x := e.(type) {
	case *ast.BasicLit:
		if x.Kind == token.INT {
			return x.Value
		}
	case *ast.Ident:
		if x.Name == "true" || x.Name == "false" || t.locals[x.Name] {
			return x.Name
		}
	case *ast.ParenExpr:
		return "(" + t.expr(x.X) + ")"
	case *ast.SelectorExpr:
		switch ksText(x) {
		case "math.MaxInt64":
			return "9223372036854775807"
		case "math.MaxInt32":
			return "2147483647"
		}
	case *ast.UnaryExpr:
		if x.Op == token.NOT {
			// the negation of a comparison is the opposite comparison: !(a < b) is a >= b, ...
			inner := x.X
			for {
				p, ok := inner.(*ast.ParenExpr)
				if !ok {
					break
				}
				inner = p.X
			}
			if be, ok := inner.(*ast.BinaryExpr); ok {
				opp := map[token.Token]token.Token{token.LSS: token.GEQ, token.GEQ: token.LSS, token.GTR: token.LEQ,
					token.LEQ: token.GTR, token.EQL: token.NEQ, token.NEQ: token.EQL}
				if o, ok := opp[be.Op]; ok {
					return t.expr(&ast.BinaryExpr{X: be.X, Op: o, Y: be.Y})
				}
			}
			return "(negb " + t.expr(x.X) + ")"
		}
	case *ast.BinaryExpr:
		a, b := t.expr(x.X), t.expr(x.Y)
		switch x.Op {
		case token.ADD:
			return "(" + a + " + " + b + ")"
		case token.SUB:
			return "(" + a + " - " + b + ")"
		case token.EQL:
			return "(" + a + " =? " + b + ")"
		case token.NEQ:
			return "(negb (" + a + " =? " + b + "))"
		case token.LSS:
			return "(" + a + " <? " + b + ")"
		case token.LEQ:
			return "(" + a + " <=? " + b + ")"
		case token.GTR:
			return "(" + b + " <? " + a + ")"
		case token.GEQ:
			return "(" + b + " <=? " + a + ")"
		case token.LAND:
			return "(" + a + " && " + b + ")"
		case token.LOR:
			return "(" + a + " || " + b + ")"
		}
	case *ast.CallExpr:
		if id, ok := x.Fun.(*ast.Ident); ok && len(x.Args) == 1 {
			switch id.Name {
			case "len":
				if l, ok := t.lists[ksText(x.Args[0])]; ok {
					return "(Z.of_nat (length " + l + "))"
				}
			case "int32":
				return "(gen_to_int32 " + t.expr(x.Args[0]) + ")"
			case "uint64":
				return "(" + t.expr(x.Args[0]) + " mod 18446744073709551616)"
			case "int", "int64":
				return "(gen_to_int64 " + t.expr(x.Args[0]) + ")"
			}
		}
	}
	return t.fail("cannot translate expression %s", ksText(e))
}

// value renders an argument handed to a callee: a pass-through field, a list, or a number.
func (t *ks) value(e ast.Expr) string {
	e = t.resolve(e)
	k := ksText(e)
	if v, ok := t.passthr[k]; ok {
		return v
	}
	if v, ok := t.lists[k]; ok {
		return v
	}
	if t.idsVar != "" && k == t.idsVar {
		return "ids"
	}
	if id, ok := e.(*ast.Ident); ok && t.locals[id.Name] {
		return id.Name
	}
	if u, ok := e.(*ast.UnaryExpr); ok && u.Op == token.AND {
		return t.value(u.X)
	}
	return "<" + k + ">" // never a valid Coq term: callees reject what they do not expect
}

// ksEmptySlice: []T{}, make([]T, 0), make([]T, 0, c)
func ksEmptySlice(e ast.Expr) bool {
	if cl, ok := e.(*ast.CompositeLit); ok && len(cl.Elts) == 0 {
		at, isArr := cl.Type.(*ast.ArrayType)
		return isArr && at.Len == nil
	}
	if call, ok := e.(*ast.CallExpr); ok && ksText(call.Fun) == "make" && (len(call.Args) == 2 || len(call.Args) == 3) {
		at, isArr := call.Args[0].(*ast.ArrayType)
		return isArr && at.Len == nil && ksText(call.Args[1]) == "0"
	}
	return false
}

func ksErrText(e ast.Expr) (string, bool) {
	call, ok := e.(*ast.CallExpr)
	if !ok {
		return "", false
	}
	switch ksText(call.Fun) {
	case "errors.New", "errors.Errorf", "errors.Wrap", "errors.Wrapf":
	default:
		return "", false
	}
	for _, a := range call.Args {
		if bl, ok := a.(*ast.BasicLit); ok && bl.Kind == token.STRING {
			s, err := strconv.Unquote(bl.Value)
			if err == nil {
				return s, true
			}
		}
	}
	return "", false
}

func (t *ks) reasonOf(e ast.Expr) string {
	txt, ok := ksErrText(e)
	if !ok {
		return t.fail("rejection whose error is not errors.New/Errorf/Wrap/Wrapf with a literal text: %s", ksText(e))
	}
	for _, r := range ksReasons {
		if strings.Contains(txt, r.sub) {
			return r.reason
		}
	}
	return t.fail("unknown rejection text %q", txt)
}

// ret renders `return a, b`.
func (t *ks) ret(s *ast.ReturnStmt, subsetErrReason string) string {
	if len(s.Results) != 2 {
		return t.fail("return with %d results", len(s.Results))
	}
	a, b := ksText(s.Results[0]), ksText(s.Results[1])
	switch t.kind {
	case ksVerdictFn:
		switch {
		case a == "pubsub.ValidationAccept" && b == "nil":
			return t.wrap("Accept")
		case a == "pubsub.ValidationReject" && b == "err" && subsetErrReason != "":
			return t.wrap("(Reject " + subsetErrReason + ")")
		case a == "pubsub.ValidationReject" && b != "nil":
			return t.wrap("(Reject " + t.reasonOf(s.Results[1]) + ")")
		}
	case ksSubsetFn:
		switch {
		case a == "nil" && b != "nil":
			return t.wrap("SubErr")
		case a == t.acc && b == "nil":
			return t.wrap("(SubOk " + t.acc + ")")
		}
	}
	return t.fail("unsupported return %s, %s", a, b)
}

// isErrCheck recognises `if err != nil { return ... }` / `if !ok { return ... }` (one return, no else).
func ksGuardReturn(s ast.Stmt, cond string) (*ast.ReturnStmt, bool) {
	is, ok := s.(*ast.IfStmt)
	if !ok || is.Init != nil || is.Else != nil || len(is.Body.List) != 1 || ksText(is.Cond) != cond {
		return nil, false
	}
	r, ok := is.Body.List[0].(*ast.ReturnStmt)
	return r, ok
}

// stmts translates a statement list; the value of the translation is the value of the function
// (or of the loop body) when control enters the list.
func (t *ks) stmts(ss []ast.Stmt) string {
	if t.err != nil {
		return "Panic"
	}
	if len(ss) == 0 {
		if t.fall == "" {
			return t.fail("control falls off the end of the function")
		}
		return t.fall
	}
	rest := ss[1:]
	switch s := ss[0].(type) {
	case *ast.EmptyStmt:
		return t.stmts(rest)
	case *ast.BranchStmt:
		if s.Tok != token.CONTINUE || s.Label != nil || t.cont == "" || len(rest) != 0 {
			return t.fail("unsupported branch statement")
		}
		return t.cont
	case *ast.ReturnStmt:
		if len(rest) != 0 {
			return t.fail("statements after a return")
		}
		// `return f(...)` of a verdict function is `res, err := f(...); if res != Accept || err != nil
		// { return res, err }; return Accept, nil` (the callees return an error exactly with Reject)
		if call, ok := s.Results[0].(*ast.CallExpr); ok && len(s.Results) == 1 && t.kind == ksVerdictFn {
			res, errv := ast.NewIdent("gen_res"), ast.NewIdent("err")
			accept := &ast.SelectorExpr{X: ast.NewIdent("pubsub"), Sel: ast.NewIdent("ValidationAccept")}
			return t.stmts([]ast.Stmt{
				&ast.AssignStmt{Lhs: []ast.Expr{res, errv}, Tok: token.ASSIGN, Rhs: []ast.Expr{call}},
				&ast.IfStmt{Cond: &ast.BinaryExpr{X: &ast.BinaryExpr{X: res, Op: token.NEQ, Y: accept}, Op: token.LOR,
					Y: &ast.BinaryExpr{X: errv, Op: token.NEQ, Y: ast.NewIdent("nil")}},
					Body: &ast.BlockStmt{List: []ast.Stmt{&ast.ReturnStmt{Results: []ast.Expr{res, errv}}}}},
				&ast.ReturnStmt{Results: []ast.Expr{accept, ast.NewIdent("nil")}},
			})
		}
		return t.ret(s, "")
	case *ast.IfStmt:
		if s.Init != nil || s.Else != nil {
			return t.fail("unsupported if form")
		}
		cond := t.expr(s.Cond)
		// the block either returns or falls through into the rest
		inner := t.child()
		var restText string
		restText = t.stmts(rest)
		inner.fall = restText
		body := inner.stmts(s.Body.List)
		if inner.err != nil && t.err == nil {
			t.err = inner.err
		}
		return "if " + cond + " then (" + body + ")\n  else (" + restText + ")"
	case *ast.AssignStmt:
		return t.assign(s, rest)
	case *ast.RangeStmt:
		return t.rangeLoop(s, rest)
	case *ast.ForStmt:
		return t.forLoop(s, rest)
	}
	return t.fail("unsupported statement %T", ss[0])
}

func (t *ks) assign(s *ast.AssignStmt, rest []ast.Stmt) string {
	// subset = append(subset, v) inside an accumulator loop
	if s.Tok == token.ASSIGN && len(s.Lhs) == 1 && len(s.Rhs) == 1 && t.acc != "" && ksText(s.Lhs[0]) == t.acc {
		if call, ok := s.Rhs[0].(*ast.CallExpr); ok && ksText(call.Fun) == "append" && len(call.Args) == 2 && ksText(call.Args[0]) == t.acc {
			if id, ok := call.Args[1].(*ast.Ident); ok && t.locals[id.Name] {
				return "let " + t.acc + " := " + t.acc + " ++ [" + id.Name + "] in\n  " + t.stmts(rest)
			}
		}
		return t.fail("unsupported update of the accumulator")
	}
	// x := l[e]
	if s.Tok == token.DEFINE && len(s.Lhs) == 1 && len(s.Rhs) == 1 {
		id, ok := s.Lhs[0].(*ast.Ident)
		if !ok {
			return t.fail("unsupported assignment target")
		}
		if ix, ok := s.Rhs[0].(*ast.IndexExpr); ok {
			l, ok := t.lists[ksText(t.resolve(ix.X))]
			if !ok {
				return t.fail("index into %s, which is not a known list", ksText(ix.X))
			}
			idx := t.expr(ix.Index)
			t.locals[id.Name] = true
			panicV := t.wrap("Panic")
			if t.kind == ksSubsetFn {
				panicV = t.wrap("SubPanic")
			}
			return "match gen_index " + l + " " + idx + " with\n  | None => " + panicV + "\n  | Some " + id.Name + " =>\n  " + t.stmts(rest) + "\n  end"
		}
		// identityPreimages := []T{} (or make([]T, 0) / make([]T, 0, capacity): the capacity has no
		// meaning for the value) followed by the copying loop
		if ksEmptySlice(s.Rhs[0]) {
			if len(rest) >= 1 {
				if t.kind == ksSubsetFn && t.acc == "" {
					// subset := []common.Address{}: the accumulator of GetSubset
					t.acc = id.Name
					return "let " + id.Name + " := [] in\n  " + t.stmts(rest)
				}
				if rs, ok := rest[0].(*ast.RangeStmt); ok && t.isPreimageCopy(id.Name, rs) {
					t.idsVar = id.Name
					return t.stmts(rest[1:])
				}
			}
			return t.fail("unsupported empty slice literal %s", ksText(s.Rhs[0]))
		}
		// extra := keys.Extra.(*p2pmsg.DecryptionKeys_Gnosis).Gnosis
		// x := a.b.c  (a pure local): inlined at every use
		if isPureValue(s.Rhs[0]) && !t.locals[id.Name] {
			if t.alias == nil {
				t.alias = map[string]ast.Expr{}
			}
			if _, dup := t.alias[id.Name]; dup {
				return t.fail("pure local %s defined twice", id.Name)
			}
			t.alias[id.Name] = t.resolve(s.Rhs[0])
			return t.stmts(rest)
		}
		if sel, ok := s.Rhs[0].(*ast.SelectorExpr); ok && sel.Sel.Name == "Gnosis" {
			if ta, ok := sel.X.(*ast.TypeAssertExpr); ok {
				if v, ok := t.rename["assert:"+ksText(ta)]; ok {
					t.rename["bound:"+id.Name] = "gnosis-extra"
					return "if negb " + v + " then " + t.wrap("Panic") + "\n  else (" + t.stmts(rest) + ")"
				}
			}
			return t.fail("unsupported type assertion %s", ksText(s.Rhs[0]))
		}
		// keys := msg.(*p2pmsg.DecryptionKeys): the message handlers are registered for that type
		if ta, ok := s.Rhs[0].(*ast.TypeAssertExpr); ok {
			if v, ok := t.rename["msgassert:"+ksText(ta)]; ok {
				t.rename["bound:"+id.Name] = v
				return t.stmts(rest)
			}
			return t.fail("unsupported type assertion %s", ksText(ta))
		}
		// obsKeyperDB := obskeyperdatabase.New(h.dbpool): a handle, no decision
		if call, ok := s.Rhs[0].(*ast.CallExpr); ok && ksText(call.Fun) == "obskeyperdatabase.New" {
			t.rename["bound:"+id.Name] = "keyper-db"
			return t.stmts(rest)
		}
		return t.fail("unsupported definition %s := %s", id.Name, ksText(s.Rhs[0]))
	}
	// two values from a call or a type assertion
	if len(s.Lhs) == 2 && len(s.Rhs) == 1 && (s.Tok == token.DEFINE || s.Tok == token.ASSIGN) {
		v0, v1 := ksText(s.Lhs[0]), ksText(s.Lhs[1])
		// extra, ok := keys.Extra.(*p2pmsg.DecryptionKeys_Gnosis); if !ok { return Reject }
		if ta, ok := s.Rhs[0].(*ast.TypeAssertExpr); ok {
			v, known := t.rename["assert:"+ksText(ta)]
			if !known || len(rest) == 0 {
				return t.fail("unsupported type assertion %s", ksText(ta))
			}
			r, ok := ksGuardReturn(rest[0], "!"+v1)
			if !ok {
				return t.fail("type assertion not followed by `if !%s { return ... }`", v1)
			}
			t.rename["bound:"+v0] = "gnosis-extra-wrapper"
			return "if negb " + v + " then (" + t.ret(r, "") + ")\n  else (" + t.stmts(rest[1:]) + ")"
		}
		call, ok := s.Rhs[0].(*ast.CallExpr)
		if !ok {
			return t.fail("unsupported two-value assignment")
		}
		name := ksText(call.Fun)
		// method calls: receiver must be a known object
		if sel, ok := call.Fun.(*ast.SelectorExpr); ok {
			if role, ok := t.rename["bound:"+ksText(sel.X)]; ok {
				name = role + "." + sel.Sel.Name
			}
		}
		cal, ok := t.callees[name]
		if !ok {
			return t.fail("call of %s, which is not a known callee", name)
		}
		for i, a := range call.Args {
			if ix, ok := a.(*ast.IndexExpr); ok {
				if _, known := t.lists[ksText(t.resolve(ix.X))]; known {
					tmp := ast.NewIdent(fmt.Sprintf("gen_arg%d", i))
					nargs := append([]ast.Expr{}, call.Args...)
					nargs[i] = tmp
					return t.stmts(append([]ast.Stmt{
						&ast.AssignStmt{Lhs: []ast.Expr{tmp}, Tok: token.DEFINE, Rhs: []ast.Expr{ix}},
						&ast.AssignStmt{Lhs: s.Lhs, Tok: s.Tok, Rhs: []ast.Expr{&ast.CallExpr{Fun: call.Fun, Args: nargs}}},
					}, rest...))
				}
			}
		}
		var args []string
		for _, a := range call.Args {
			args = append(args, t.value(a))
		}
		callText, err := cal.emit(args)
		if err != nil {
			return t.fail("%v", err)
		}
		if len(rest) == 0 {
			return t.fail("result of %s not examined", name)
		}
		switch cal.kind {
		case "verdict":
			if v1 != "err" {
				return t.fail("%s: second result is not named err", name)
			}
			c1 := v0 + "!=pubsub.ValidationAccept"
			r, ok := ksGuardReturn(rest[0], c1)
			if !ok {
				r, ok = ksGuardReturn(rest[0], c1+"||err!=nil")
			}
			if !ok || len(r.Results) != 2 || ksText(r.Results[0]) != v0 || ksText(r.Results[1]) != "err" {
				return t.fail("%s: result not followed by `if %s != pubsub.ValidationAccept [|| err != nil] { return %s, err }`", name, v0, v0)
			}
			return "match " + callText + " with\n  | Accept =>\n  " + t.stmts(rest[1:]) + "\n  | gen_v => " + t.wrap("gen_v") + "\n  end"
		case "subset":
			r, ok := ksGuardReturn(rest[0], "err!=nil")
			if !ok || v1 != "err" {
				return t.fail("%s: result not followed by `if err != nil { return ... }`", name)
			}
			t.locals[v0] = true
			t.lists[v0] = v0
			return "match " + callText + " with\n  | SubErr => " + t.ret(r, "RSubset") + "\n  | SubPanic => " + t.wrap("Panic") + "\n  | SubOk " + v0 + " =>\n  " + t.stmts(rest[1:]) + "\n  end"
		case "option":
			cond := "err!=nil"
			if v1 != "err" {
				cond = "!" + v1
			}
			r, ok := ksGuardReturn(rest[0], cond)
			if !ok {
				return t.fail("%s: result not followed by `if %s { return ... }`", name, cond)
			}
			var none string
			if t.kind == ksSubsetFn {
				none = t.ret(r, "")
			} else {
				if len(r.Results) != 2 || ksText(r.Results[0]) != "pubsub.ValidationReject" {
					return t.fail("%s: failure does not reject", name)
				}
				none = t.wrap("(Reject " + t.reasonOf(r.Results[1]) + ")")
			}
			t.locals[v0] = true
			t.rename["bound:"+v0] = "value:" + name
			return "match " + callText + " with\n  | None => " + none + "\n  | Some " + v0 + " =>\n  " + t.stmts(rest[1:]) + "\n  end"
		}
	}
	return t.fail("unsupported assignment %s", ksText(s.Lhs[0]))
}

// isPreimageCopy: for _, key := range keys.Keys { p := identitypreimage.IdentityPreimage(key.IdentityPreimage); x = append(x, p) }
func (t *ks) isPreimageCopy(x string, rs *ast.RangeStmt) bool {
	if rs.Tok != token.DEFINE || ksText(rs.Key) != "_" || rs.Value == nil || len(rs.Body.List) != 2 {
		return false
	}
	if _, ok := t.rename["keyslist:"+ksText(rs.X)]; !ok {
		return false
	}
	k := ksText(rs.Value)
	a1, ok1 := rs.Body.List[0].(*ast.AssignStmt)
	a2, ok2 := rs.Body.List[1].(*ast.AssignStmt)
	if !ok1 || !ok2 || a1.Tok != token.DEFINE || len(a1.Lhs) != 1 || len(a1.Rhs) != 1 || a2.Tok != token.ASSIGN || len(a2.Lhs) != 1 || len(a2.Rhs) != 1 {
		return false
	}
	p := ksText(a1.Lhs[0])
	return ksText(a1.Rhs[0]) == "identitypreimage.IdentityPreimage("+k+".IdentityPreimage)" &&
		ksText(a2.Lhs[0]) == x && ksText(a2.Rhs[0]) == "append("+x+","+p+")"
}

// for i, x := range l { ... }   (early returns; in GetSubset with an accumulator)
func (t *ks) rangeLoop(s *ast.RangeStmt, rest []ast.Stmt) string {
	l, ok := t.lists[ksText(t.resolve(s.X))]
	if !ok || s.Tok != token.DEFINE {
		return t.fail("range over %s, which is not a known list", ksText(s.X))
	}
	body := t.child()
	iv, xv := "gen_i", "gen_x"
	if s.Key != nil && ksText(s.Key) != "_" {
		iv = ksText(s.Key)
		body.locals[iv] = true
	}
	if s.Value != nil && ksText(s.Value) != "_" {
		xv = ksText(s.Value)
		body.locals[xv] = true
	}
	var out string
	if t.acc != "" {
		body.wrap = func(v string) string { return "(inr " + v + ")" }
		body.fall = "(inl " + t.acc + ")"
		body.cont = body.fall
		b := body.stmts(s.Body.List)
		after := t.stmts(rest)
		out = "match gen_range_acc (fun " + t.acc + " " + xv + " =>\n  " + b + ") " + l + " " + t.acc + " with\n  | inr gen_r => gen_r\n  | inl " + t.acc + " =>\n  " + after + "\n  end"
		if iv != "gen_i" {
			return t.fail("accumulator loop with an index variable")
		}
	} else {
		body.wrap = func(v string) string { return "(Some " + t.wrap(v) + ")" }
		body.fall = "None"
		body.cont = "None"
		b := body.stmts(s.Body.List)
		after := t.stmts(rest)
		out = "match gen_range_until (fun " + iv + " " + xv + " =>\n  " + b + ") " + l + " 0 with\n  | Some gen_r => gen_r\n  | None =>\n  " + after + "\n  end"
	}
	if body.err != nil && t.err == nil {
		t.err = body.err
	}
	return out
}

// for i := 0; i < len(l); i++ { ... }
func (t *ks) forLoop(s *ast.ForStmt, rest []ast.Stmt) string {
	init, ok := s.Init.(*ast.AssignStmt)
	if !ok || init.Tok != token.DEFINE || len(init.Lhs) != 1 || len(init.Rhs) != 1 || ksText(init.Rhs[0]) != "0" {
		return t.fail("for loop that does not start with `i := 0`")
	}
	iv := ksText(init.Lhs[0])
	cond, ok := s.Cond.(*ast.BinaryExpr)
	if !ok || cond.Op != token.LSS || ksText(cond.X) != iv {
		return t.fail("for loop whose condition is not `%s < len(list)`", iv)
	}
	lc, ok := cond.Y.(*ast.CallExpr)
	if !ok || ksText(lc.Fun) != "len" || len(lc.Args) != 1 {
		return t.fail("for loop whose bound is not len(list)")
	}
	l, ok := t.lists[ksText(t.resolve(lc.Args[0]))]
	if !ok {
		return t.fail("for loop bounded by the length of %s, which is not a known list", ksText(lc.Args[0]))
	}
	post, ok := s.Post.(*ast.IncDecStmt)
	if !ok || post.Tok != token.INC || ksText(post.X) != iv {
		return t.fail("for loop whose step is not `%s++`", iv)
	}
	body := t.child()
	body.locals[iv] = true
	body.wrap = func(v string) string { return "(Some " + t.wrap(v) + ")" }
	body.fall = "None"
	body.cont = "None"
	// Normal form: `for i := 0; i < len(l); i++ { x := l[i]; ... }` IS `for i, x := range l { ... }`
	// (l[i] cannot be out of range under the loop condition, nothing in the fragment assigns to l or
	// i); both spellings are emitted as the range form, so that the choice between them is not
	// visible in the generated file.
	if len(s.Body.List) >= 1 {
		if as, ok := s.Body.List[0].(*ast.AssignStmt); ok && as.Tok == token.DEFINE && len(as.Lhs) == 1 && len(as.Rhs) == 1 {
			if ix, ok := as.Rhs[0].(*ast.IndexExpr); ok && ksText(t.resolve(ix.X)) == ksText(t.resolve(lc.Args[0])) && ksText(ix.Index) == iv {
				if xid, ok := as.Lhs[0].(*ast.Ident); ok && xid.Name != iv {
					body.locals[xid.Name] = true
					b := body.stmts(s.Body.List[1:])
					if body.err != nil && t.err == nil {
						t.err = body.err
					}
					after := t.stmts(rest)
					return "match gen_range_until (fun " + iv + " " + xid.Name + " =>\n  " + b + ") " + l + " 0 with\n  | Some gen_r => gen_r\n  | None =>\n  " + after + "\n  end"
				}
			}
		}
	}
	b := body.stmts(s.Body.List)
	if body.err != nil && t.err == nil {
		t.err = body.err
	}
	after := t.stmts(rest)
	return "match gen_count_until (fun " + iv + " =>\n  " + b + ") (length " + l + ") 0 with\n  | Some gen_r => gen_r\n  | None =>\n  " + after + "\n  end"
}

func ksParams(fd *ast.FuncDecl) []string {
	var out []string
	for _, p := range fd.Type.Params.List {
		for _, n := range p.Names {
			out = append(out, n.Name)
		}
	}
	return out
}

func ksRecv(fd *ast.FuncDecl) string {
	if fd.Recv == nil || len(fd.Recv.List) != 1 || len(fd.Recv.List[0].Names) != 1 {
		return ""
	}
	return fd.Recv.List[0].Names[0].Name
}

func ksMethod(f *ast.File, recvType, name string) *ast.FuncDecl {
	for _, d := range f.Decls {
		fd, ok := d.(*ast.FuncDecl)
		if !ok || fd.Name.Name != name || fd.Recv == nil || len(fd.Recv.List) != 1 {
			continue
		}
		if strings.TrimPrefix(ksText(fd.Recv.List[0].Type), "*") == recvType {
			return fd
		}
	}
	return nil
}

func ksExact(want ...string) func([]string) bool {
	return func(args []string) bool {
		if len(args) != len(want) {
			return false
		}
		for i := range want {
			if args[i] != want[i] {
				return false
			}
		}
		return true
	}
}

func ksVerdictCtx(fn string) *ks {
	return &ks{fn: fn, kind: ksVerdictFn, rename: map[string]string{}, lists: map[string]string{}, passthr: map[string]string{},
		callees: map[string]ksCallee{}, locals: map[string]bool{}, wrap: func(v string) string { return v }}
}

// ---- the individual functions -----------------------------------------------------------------

func ksSignerIndices(f *ast.File, flavour string) (string, error) {
	fd := findFunc(f, "validateSignerIndices")
	if fd == nil || fd.Recv != nil {
		return "", fmt.Errorf("%s validateSignerIndices not found", flavour)
	}
	ps := ksParams(fd)
	if len(ps) != 2 {
		return "", fmt.Errorf("%s validateSignerIndices: unexpected parameters", flavour)
	}
	t := ksVerdictCtx(flavour + " validateSignerIndices")
	t.lists[ps[0]+".SignerIndices"] = "signer_indices"
	t.rename[ps[1]] = "n"
	body := t.stmts(fd.Body.List)
	if t.err != nil {
		return "", t.err
	}
	return fmt.Sprintf("(* %s validateSignerIndices(extra, n): signer_indices = extra.SignerIndices (uint64 values), n an int *)\nDefinition gen_%s_validate_signer_indices (signer_indices : list Z) (n : Z) : verdict :=\n  %s.\n\n", flavour, flavour, body), nil
}

func ksGetSubset(f *ast.File) (string, error) {
	fd := ksMethod(f, "KeyperSet", "GetSubset")
	if fd == nil || ksRecv(fd) == "" || len(ksParams(fd)) != 1 {
		return "", fmt.Errorf("KeyperSet.GetSubset not found or unexpected signature")
	}
	t := ksVerdictCtx("KeyperSet.GetSubset")
	t.kind = ksSubsetFn
	t.lists[ksRecv(fd)+".Keypers"] = "keypers"
	t.lists[ksParams(fd)[0]] = "indices"
	t.callees["shdb.DecodeAddress"] = ksCallee{kind: "option", emit: func(a []string) (string, error) {
		if len(a) != 1 || strings.HasPrefix(a[0], "<") {
			return "", fmt.Errorf("shdb.DecodeAddress called with %v", a)
		}
		return "decode " + a[0], nil
	}}
	body := t.stmts(fd.Body.List)
	if t.err != nil {
		return "", t.err
	}
	return fmt.Sprintf("(* KeyperSet.GetSubset(indices): keypers = s.Keypers, decode = shdb.DecodeAddress (None: error) *)\nDefinition gen_get_subset {K : Type} (decode : K -> option N) (keypers : list K) (indices : list Z) : subset_res :=\n  %s.\n\n", body), nil
}

// New*SignatureData: if len(ids) > MAX { return nil, err }; the wrapping loop; return &T{F: v, ...}, nil
func ksNewData(f *ast.File, fname, coqName, ctor string, fields []string) (string, error) {
	fd := findFunc(f, fname)
	bad := func(s string) (string, error) { return "", fmt.Errorf("%s: unexpected shape: %s", fname, s) }
	if fd == nil || fd.Recv != nil {
		return bad("not found")
	}
	ps := ksParams(fd)
	if len(ps) != len(fields) {
		return bad("parameters")
	}
	ids := ps[len(ps)-1]
	body := fd.Body.List
	if len(body) != 4 {
		return bad(fmt.Sprintf("%d statements", len(body)))
	}
	is, ok := body[0].(*ast.IfStmt)
	if !ok || is.Init != nil || is.Else != nil || len(is.Body.List) != 1 {
		return bad("first statement is not the length guard")
	}
	t := ksVerdictCtx(fname)
	t.lists[ids] = ids
	guard := t.expr(is.Cond)
	if t.err != nil {
		return "", t.err
	}
	if r, ok := is.Body.List[0].(*ast.ReturnStmt); !ok || len(r.Results) != 2 || ksText(r.Results[0]) != "nil" || ksText(r.Results[1]) == "nil" {
		return bad("length guard does not return an error")
	}
	// wrapped := []T{}; for _, p := range ids { w := T{Bytes: p.Bytes()}; wrapped = append(wrapped, w) }
	as, ok := body[1].(*ast.AssignStmt)
	if !ok || as.Tok != token.DEFINE || len(as.Lhs) != 1 || len(as.Rhs) != 1 || ksText(as.Rhs[0]) != "[]IdentityPreimage{}" {
		return bad("wrapped list not created empty")
	}
	wrapped := ksText(as.Lhs[0])
	rs, ok := body[2].(*ast.RangeStmt)
	if !ok || ksText(rs.X) != ids || ksText(rs.Key) != "_" || rs.Value == nil || len(rs.Body.List) != 2 {
		return bad("wrapping loop")
	}
	p := ksText(rs.Value)
	w1, ok1 := rs.Body.List[0].(*ast.AssignStmt)
	w2, ok2 := rs.Body.List[1].(*ast.AssignStmt)
	if !ok1 || !ok2 || len(w1.Lhs) != 1 || len(w1.Rhs) != 1 || len(w2.Lhs) != 1 || len(w2.Rhs) != 1 ||
		ksText(w1.Rhs[0]) != "IdentityPreimage{Bytes:"+p+".Bytes()}" ||
		ksText(w2.Lhs[0]) != wrapped || ksText(w2.Rhs[0]) != "append("+wrapped+","+ksText(w1.Lhs[0])+")" {
		return bad("wrapping loop body")
	}
	r, ok := body[3].(*ast.ReturnStmt)
	if !ok || len(r.Results) != 2 || ksText(r.Results[1]) != "nil" {
		return bad("final return")
	}
	u, ok := r.Results[0].(*ast.UnaryExpr)
	if !ok || u.Op != token.AND {
		return bad("final return is not &T{...}")
	}
	cl, ok := u.X.(*ast.CompositeLit)
	if !ok || len(cl.Elts) != len(fields) {
		return bad("struct literal")
	}
	got := map[string]string{}
	for _, el := range cl.Elts {
		kv, ok := el.(*ast.KeyValueExpr)
		if !ok {
			return bad("struct literal without field names")
		}
		v := ksText(kv.Value)
		if v == wrapped {
			v = ids
		}
		found := false
		for _, q := range ps {
			found = found || q == v
		}
		if !found {
			return bad("field " + ksText(kv.Key) + " is not a parameter")
		}
		got[ksText(kv.Key)] = v
	}
	var args []string
	for _, fl := range fields {
		v, ok := got[fl]
		if !ok {
			return bad("field " + fl + " missing")
		}
		args = append(args, v)
	}
	var sig []string
	for _, q := range ps[:len(ps)-1] {
		sig = append(sig, q)
	}
	return fmt.Sprintf("(* %s: None = error; the constructor arguments are the struct fields %s in that order *)\nDefinition %s (%s : N) (%s : list bytes) : option tuple :=\n  if %s then None else Some (%s %s).\n\n",
		fname, strings.Join(fields, ", "), coqName, strings.Join(sig, " "), ids, guard, ctor, strings.Join(args, " ")), nil
}

type ksSigFn struct {
	flavour, sigField, newData, newDataGen string
	newArgs                                []string
}

func ksValidateSigs(f *ast.File, c ksSigFn) (string, error) {
	fd := findFunc(f, "ValidateDecryptionKeysSignatures")
	if fd == nil || fd.Recv != nil {
		return "", fmt.Errorf("%s ValidateDecryptionKeysSignatures not found", c.flavour)
	}
	ps := ksParams(fd)
	if len(ps) != 3 {
		return "", fmt.Errorf("%s ValidateDecryptionKeysSignatures: unexpected parameters", c.flavour)
	}
	keys, extra, set := ps[0], ps[1], ps[2]
	t := ksVerdictCtx(c.flavour + " ValidateDecryptionKeysSignatures")
	t.rename[set+".Threshold"] = "threshold"
	t.rename["keyslist:"+keys+".Keys"] = "ids"
	t.rename["bound:"+set] = "keyperset"
	t.lists[extra+".SignerIndices"] = "signer_indices"
	t.lists[extra+"."+c.sigField] = "signatures"
	t.lists[set+".Keypers"] = "keypers"
	t.passthr[keys+".InstanceId"] = "inst"
	t.passthr[keys+".Eon"] = "eon"
	t.passthr[extra+".Slot"] = "slot"
	t.passthr[extra+".TxPointer"] = "txp"
	// the second argument of validateSignerIndices is an expression, not a value: handled here
	t.callees["validateSignerIndices"] = ksCallee{kind: "verdict", emit: func(a []string) (string, error) {
		if len(a) != 2 || a[0] != "<"+extra+">" || a[1] != "<len("+set+".Keypers)>" {
			return "", fmt.Errorf("validateSignerIndices called with %v, expected (%s, len(%s.Keypers))", a, extra, set)
		}
		return "gen_" + c.flavour + "_validate_signer_indices signer_indices (Z.of_nat (length keypers))", nil
	}}
	t.callees["keyperset.GetSubset"] = ksCallee{kind: "subset", list: true, emit: func(a []string) (string, error) {
		if !ksExact("signer_indices")(a) {
			return "", fmt.Errorf("GetSubset called with %v, expected (%s.SignerIndices)", a, extra)
		}
		return "gen_get_subset decode keypers signer_indices", nil
	}}
	t.callees[c.newData] = ksCallee{kind: "option", emit: func(a []string) (string, error) {
		if !ksExact(c.newArgs...)(a) {
			return "", fmt.Errorf("%s called with %v, expected %v", c.newData, a, c.newArgs)
		}
		return c.newDataGen + " " + strings.Join(a, " "), nil
	}}
	t.callees["value:"+c.newData+".CheckSignature"] = ksCallee{kind: "option", emit: func(a []string) (string, error) {
		if len(a) != 2 || strings.HasPrefix(a[0], "<") || strings.HasPrefix(a[1], "<") {
			return "", fmt.Errorf("CheckSignature called with %v", a)
		}
		return "check gen_data " + a[0] + " " + a[1], nil
	}}
	body := t.stmts(fd.Body.List)
	if t.err != nil {
		return "", t.err
	}
	// the local that holds the signature data is whatever the source calls it
	for k, v := range t.rename {
		if v == "value:"+c.newData && strings.HasPrefix(k, "bound:") {
			body = strings.ReplaceAll(body, "| Some "+strings.TrimPrefix(k, "bound:")+" =>", "| Some gen_data =>")
		}
	}
	return fmt.Sprintf("(* %s ValidateDecryptionKeysSignatures(keys, extra, keyperSet): threshold, keypers = keyperSet.Threshold, .Keypers;\n   inst, eon, ids = keys.InstanceId, .Eon, the identity preimages of keys.Keys; slot, txp, signer_indices, signatures = the fields\n   of extra; check = CheckSignature (None: error), decode = shdb.DecodeAddress *)\nDefinition gen_%s_validate_sigs {K S : Type} (decode : K -> option N) (check : tuple -> S -> N -> option bool)\n    (threshold : Z) (keypers : list K) (inst eon slot txp : N) (ids : list bytes)\n    (signer_indices : list Z) (signatures : list S) : verdict :=\n  %s.\n\n", c.flavour, c.flavour, body), nil
}

func ksBasic(f *ast.File) (string, error) {
	fd := findFunc(f, "ValidateDecryptionKeysBasic")
	if fd == nil || fd.Recv != nil || len(ksParams(fd)) != 1 {
		return "", fmt.Errorf("ValidateDecryptionKeysBasic not found or unexpected signature")
	}
	keys := ksParams(fd)[0]
	t := ksVerdictCtx("ValidateDecryptionKeysBasic")
	t.rename["assert:"+keys+".Extra.(*p2pmsg.DecryptionKeys_Gnosis)"] = "extra_is_gnosis"
	// the wrapper's name is whatever the source binds; its fields are found through it
	var wrapper string
	for _, s := range fd.Body.List {
		if as, ok := s.(*ast.AssignStmt); ok && len(as.Lhs) == 2 && len(as.Rhs) == 1 {
			if _, ok := as.Rhs[0].(*ast.TypeAssertExpr); ok {
				wrapper = ksText(as.Lhs[0])
			}
		}
	}
	if wrapper == "" {
		return "", fmt.Errorf("ValidateDecryptionKeysBasic: the type assertion on keys.Extra was not found")
	}
	t.rename[wrapper+".Gnosis==nil"] = "gnosis_nil"
	t.rename[wrapper+".Gnosis.Slot"] = "slot"
	t.rename[wrapper+".Gnosis.TxPointer"] = "txp"
	t.rename["len("+keys+".Keys)"] = "len_keys"
	body := t.stmts(fd.Body.List)
	if t.err != nil {
		return "", t.err
	}
	return fmt.Sprintf("(* gnosis.ValidateDecryptionKeysBasic(keys): extra_is_gnosis = the type assertion on keys.Extra succeeds,\n   gnosis_nil = its Gnosis pointer is nil, slot, txp uint64 values, len_keys = len(keys.Keys) *)\nDefinition gen_validate_basic (extra_is_gnosis gnosis_nil : bool) (slot txp len_keys : Z) : verdict :=\n  %s.\n\n", body), nil
}

const ksBasicCall = "gen_validate_basic extra_is_gnosis gnosis_nil (Z.of_N slot) (Z.of_N txp) (Z.of_nat (length ids))"
const ksSigsCall = "(if gnosis_nil then Panic else gen_gnosis_validate_sigs decode check (fst keyperSet) (snd keyperSet) inst eon slot txp ids signer_indices signatures)"

// the keyper's and the access node's chains around the signature validator
func ksChain(fd *ast.FuncDecl, fn, coqName, pkgPrefix string, lookupCallee string, lookupArgs func(keys string) []string, header string, extraCallees func(t *ks, keys string)) (string, error) {
	if fd == nil {
		return "", fmt.Errorf("%s not found", fn)
	}
	t := ksVerdictCtx(fn)
	ps := ksParams(fd)
	keys := ps[len(ps)-1]
	// ValidateMessage(ctx, msg): keys is bound by the type assertion on msg
	for _, s := range fd.Body.List {
		if as, ok := s.(*ast.AssignStmt); ok && as.Tok == token.DEFINE && len(as.Lhs) == 1 && len(as.Rhs) == 1 {
			if ta, ok := as.Rhs[0].(*ast.TypeAssertExpr); ok && ksText(ta) == keys+".(*p2pmsg.DecryptionKeys)" {
				t.rename["msgassert:"+ksText(ta)] = "message"
				keys = ksText(as.Lhs[0])
				break
			}
		}
	}
	t.rename["assert:"+keys+".Extra.(*p2pmsg.DecryptionKeys_Gnosis)"] = "extra_is_gnosis"
	t.passthr[keys+".Eon"] = "eon"
	var extraVar string
	for _, s := range fd.Body.List {
		if as, ok := s.(*ast.AssignStmt); ok && as.Tok == token.DEFINE && len(as.Lhs) == 1 && len(as.Rhs) == 1 {
			if sel, ok := as.Rhs[0].(*ast.SelectorExpr); ok && sel.Sel.Name == "Gnosis" {
				extraVar = ksText(as.Lhs[0])
			}
		}
	}
	t.callees[pkgPrefix+"ValidateDecryptionKeysBasic"] = ksCallee{kind: "verdict", emit: func(a []string) (string, error) {
		if len(a) != 1 || a[0] != "<"+keys+">" {
			return "", fmt.Errorf("ValidateDecryptionKeysBasic called with %v, expected (%s)", a, keys)
		}
		return ksBasicCall, nil
	}}
	t.callees[pkgPrefix+"ValidateDecryptionKeysSignatures"] = ksCallee{kind: "verdict", emit: func(a []string) (string, error) {
		if len(a) != 3 || a[0] != "<"+keys+">" || a[1] != "<"+extraVar+">" || extraVar == "" || t.rename["bound:"+a[2]] != "value:"+lookupCallee {
			return "", fmt.Errorf("ValidateDecryptionKeysSignatures called with %v, expected (%s, %s, keyperSet)", a, keys, extraVar)
		}
		return ksSigsCall, nil
	}}
	want := lookupArgs(keys)
	t.callees[lookupCallee] = ksCallee{kind: "option", emit: func(a []string) (string, error) {
		if !ksExact(want...)(a) {
			return "", fmt.Errorf("%s called with %v, expected %v", lookupCallee, a, want)
		}
		return "lookup", nil
	}}
	if extraCallees != nil {
		extraCallees(t, keys)
	}
	body := t.stmts(fd.Body.List)
	if t.err != nil {
		return "", t.err
	}
	// the keyper set may be bound under any name in the source
	for k, v := range t.rename {
		if v == "value:"+lookupCallee && strings.HasPrefix(k, "bound:") {
			body = strings.ReplaceAll(body, "| Some "+strings.TrimPrefix(k, "bound:")+" =>", "| Some keyperSet =>")
		}
	}
	return header + "\n  " + body + ".\n\n", nil
}

func genKeysSigFuns(repo string) (string, error) {
	var sb strings.Builder
	sb.WriteString("(* GENERATED by harness/cmd/translate (gen_keyssigfuns.go) from the repository source - do not edit.\n   Read: keyperimpl/gnosis/handlers.go, keyperimpl/shutterservice/handlers.go, chainobserver/db/keyper/extend.go,\n   keyperimpl/gnosis/gnosisssztypes/slotdecryptionsignatures.go, keyperimpl/shutterservice/serviceztypes/decryptionsignatures.go,\n   gnosisaccessnode/decryptionkeyshandler.go. *)\n")
	sb.WriteString("From Coq Require Import List NArith ZArith Bool.\nFrom Verif Require Import Lib.Bytes Model.KeysSig.\nImport ListNotations.\nOpen Scope Z_scope.\n\n")
	sb.WriteString(`Definition gen_to_int32 (x : Z) : Z := let m := x mod 4294967296 in if m <? 2147483648 then m else m - 4294967296.
Definition gen_to_int64 (x : Z) : Z := let m := x mod 18446744073709551616 in if m <? 9223372036854775808 then m else m - 18446744073709551616.
(* l[i]: None = index out of range (a Go panic) *)
Definition gen_index {A : Type} (l : list A) (i : Z) : option A := if i <? 0 then None else nth_error l (Z.to_nat i).
(* for i, x := range l { body }: the body says Some r for "return r", None for "next element" *)
Fixpoint gen_range_until {A R : Type} (body : Z -> A -> option R) (l : list A) (i : Z) : option R :=
  match l with
  | [] => None
  | x :: r => match body i x with Some v => Some v | None => gen_range_until body r (i + 1) end
  end.
(* for i := 0; i < n; i++ { body }, n fixed before the loop: k iterations remain *)
Fixpoint gen_count_until {R : Type} (body : Z -> option R) (k : nat) (i : Z) : option R :=
  match k with
  | O => None
  | S k' => match body i with Some v => Some v | None => gen_count_until body k' (i + 1) end
  end.
(* for _, x := range l { body } with one accumulator: inr r for "return r", inl acc for "next element" *)
Fixpoint gen_range_acc {A Acc R : Type} (body : Acc -> A -> Acc + R) (l : list A) (acc : Acc) : Acc + R :=
  match l with
  | [] => inl acc
  | x :: r => match body acc x with inr v => inr v | inl acc' => gen_range_acc body r acc' end
  end.

`)
	gn, _, err := parseFile(repo, "keyperimpl/gnosis/handlers.go")
	if err != nil {
		return "", err
	}
	sv, _, err := parseFile(repo, "keyperimpl/shutterservice/handlers.go")
	if err != nil {
		return "", err
	}
	ext, _, err := parseFile(repo, "chainobserver/db/keyper/extend.go")
	if err != nil {
		return "", err
	}
	gd, _, err := parseFile(repo, "keyperimpl/gnosis/gnosisssztypes/slotdecryptionsignatures.go")
	if err != nil {
		return "", err
	}
	sd, _, err := parseFile(repo, "keyperimpl/shutterservice/serviceztypes/decryptionsignatures.go")
	if err != nil {
		return "", err
	}
	an, _, err := parseFile(repo, "gnosisaccessnode/decryptionkeyshandler.go")
	if err != nil {
		return "", err
	}
	parts := []func() (string, error){
		func() (string, error) { return ksSignerIndices(gn, "gnosis") },
		func() (string, error) { return ksSignerIndices(sv, "service") },
		func() (string, error) { return ksGetSubset(ext) },
		func() (string, error) {
			return ksNewData(gd, "NewSlotDecryptionSignatureData", "gen_new_gnosis_data", "TGnosis",
				[]string{"InstanceID", "Eon", "Slot", "TxPointer", "IdentityPreimages"})
		},
		func() (string, error) {
			return ksNewData(sd, "NewDecryptionSignatureData", "gen_new_service_data", "TService",
				[]string{"InstanceID", "Eon", "IdentityPreimages"})
		},
		func() (string, error) {
			return ksValidateSigs(gn, ksSigFn{flavour: "gnosis", sigField: "Signatures",
				newData: "gnosisssztypes.NewSlotDecryptionSignatureData", newDataGen: "gen_new_gnosis_data",
				newArgs: []string{"inst", "eon", "slot", "txp", "ids"}})
		},
		func() (string, error) {
			return ksValidateSigs(sv, ksSigFn{flavour: "service", sigField: "Signature",
				newData: "serviceztypes.NewDecryptionSignatureData", newDataGen: "gen_new_service_data",
				newArgs: []string{"inst", "eon", "ids"}})
		},
		func() (string, error) { return ksBasic(gn) },
		func() (string, error) {
			hdr := "(* gnosis DecryptionKeysHandler.ValidateMessage; lookup = result of GetKeyperSetByKeyperConfigIndex(ctx, int64(keys.Eon)) (None: error) *)\nDefinition gen_keyper_validate_message {K S : Type} (decode : K -> option N) (check : tuple -> S -> N -> option bool)\n    (lookup : option (Z * list K)) (extra_is_gnosis gnosis_nil : bool) (inst eon slot txp : N) (ids : list bytes)\n    (signer_indices : list Z) (signatures : list S) : verdict :="
			return ksChain(ksMethod(gn, "DecryptionKeysHandler", "ValidateMessage"), "gnosis DecryptionKeysHandler.ValidateMessage", "gen_keyper_validate_message", "",
				"keyper-db.GetKeyperSetByKeyperConfigIndex", func(keys string) []string { return []string{"<ctx>", "<int64(" + keys + ".Eon)>"} }, hdr, nil)
		},
		func() (string, error) {
			hdr := "(* gnosisaccessnode validateGnosisFields; lookup = result of storage.GetKeyperSet(keys.Eon) (None: not found) *)\nDefinition gen_an_validate_gnosis_fields {K S : Type} (decode : K -> option N) (check : tuple -> S -> N -> option bool)\n    (lookup : option (Z * list K)) (extra_is_gnosis gnosis_nil : bool) (inst eon slot txp : N) (ids : list bytes)\n    (signer_indices : list Z) (signatures : list S) : verdict :="
			fd := ksMethod(an, "DecryptionKeysHandler", "validateGnosisFields")
			recv := ""
			if fd != nil {
				recv = ksRecv(fd)
			}
			return ksChain(fd, "gnosisaccessnode validateGnosisFields", "gen_an_validate_gnosis_fields", "gnosis.",
				recv+".storage.GetKeyperSet", func(keys string) []string { return []string{"eon"} }, hdr, nil)
		},
		func() (string, error) {
			hdr := "(* gnosisaccessnode DecryptionKeysHandler.ValidateMessage; common = result of validateCommonFields(keys) *)\nDefinition gen_an_validate_message {K S : Type} (decode : K -> option N) (check : tuple -> S -> N -> option bool) (common : verdict)\n    (lookup : option (Z * list K)) (extra_is_gnosis gnosis_nil : bool) (inst eon slot txp : N) (ids : list bytes)\n    (signer_indices : list Z) (signatures : list S) : verdict :="
			fd := ksMethod(an, "DecryptionKeysHandler", "ValidateMessage")
			recv := ""
			if fd != nil {
				recv = ksRecv(fd)
			}
			return ksChain(fd, "gnosisaccessnode DecryptionKeysHandler.ValidateMessage", "gen_an_validate_message", "gnosis.",
				"unused", func(keys string) []string { return nil }, hdr, func(t *ks, keys string) {
					t.callees[recv+".validateCommonFields"] = ksCallee{kind: "verdict", emit: func(a []string) (string, error) {
						if len(a) != 1 || a[0] != "<"+keys+">" {
							return "", fmt.Errorf("validateCommonFields called with %v", a)
						}
						return "common", nil
					}}
					t.callees[recv+".validateGnosisFields"] = ksCallee{kind: "verdict", emit: func(a []string) (string, error) {
						if len(a) != 1 || a[0] != "<"+keys+">" {
							return "", fmt.Errorf("validateGnosisFields called with %v", a)
						}
						return "gen_an_validate_gnosis_fields decode check lookup extra_is_gnosis gnosis_nil inst eon slot txp ids signer_indices signatures", nil
					}}
				})
		},
	}
	for _, p := range parts {
		s, err := p()
		if err != nil {
			return "", err
		}
		sb.WriteString(s)
	}
	// the rejection texts the translation relied on (documentation)
	var subs []string
	for _, r := range ksReasons {
		subs = append(subs, fmt.Sprintf("%q -> %s", r.sub, r.reason))
	}
	sort.Strings(subs)
	sb.WriteString("(* rejection texts -> reasons: " + strings.ReplaceAll(strings.Join(subs, "; "), "*)", "* )") + " *)\n")
	return sb.String(), nil
}
