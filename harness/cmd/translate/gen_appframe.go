package main

// AppFrame: what the entry points of the shuttermint application that must NOT change the
// replicated state can write, read off the current source with go/types:
//
//   - gen_entry_writes: for CheckTx, Commit, PersistToDisk, Info, Query, BeginBlock,
//     PrepareProposal and ProcessProposal the set of struct fields ("Type.Field") that the method
//     or anything it calls inside the app package assigns, increments, index-assigns, deletes from
//     or copies into; writes through a local alias of map / slice / pointer type that mentions an
//     app type ("alias:<type>"); calls through interfaces or function values that are not closures
//     written in the same function ("dyn:<name>"; such closures are walked in place); and
//     values of app types handed to functions outside the package ("ext:<callee>:<type>").
//     The analysis is by static type, not by access path: a write to a field of a type is counted
//     wherever the object lives (an over-approximation, so nothing is missed by aliasing).
//   - gen_package_var_writes: every package-level variable of the app package with the functions
//     that write it after its initialisation (a process-wide cache would show up here).
//
// C09/C13's model gives CheckTx and Commit exactly the mempool bookkeeping to change and gives the
// others nothing; Proofs/AppFrame.v proves that frame for the model and compares these tables.

import (
	"fmt"
	"go/ast"
	"go/token"
	"go/types"
	"sort"
	"strings"
)

func init() { register("AppFrame", genAppFrame) }

var frameEntries = []string{"BeginBlock", "CheckTx", "Commit", "Info", "PersistToDisk", "PrepareProposal", "ProcessProposal", "Query"}

func genAppFrame(repo string) (string, error) {
	tp, err := typedApp(repo)
	if err != nil {
		return "", err
	}
	info, pkg := tp.info, tp.pkg
	if len(tp.terrs) > 0 {
		return "", fmt.Errorf("the app package does not type-check: %v", tp.terrs)
	}
	short := func(t types.Type) string {
		return types.TypeString(t, func(p *types.Package) string {
			if p.Path() == pkg.Path() {
				return ""
			}
			return p.Name()
		})
	}
	var mentionsApp func(t types.Type, depth int) bool
	mentionsApp = func(t types.Type, depth int) bool {
		if depth > 6 {
			return false
		}
		switch x := t.(type) {
		case *types.Alias:
			return mentionsApp(types.Unalias(x), depth+1)
		case *types.Named:
			if x.Obj().Pkg() != nil && strings.HasPrefix(x.Obj().Pkg().Path(), repoModule) {
				return true
			}
			return false
		case *types.Pointer:
			return mentionsApp(x.Elem(), depth+1)
		case *types.Slice:
			return mentionsApp(x.Elem(), depth+1)
		case *types.Array:
			return mentionsApp(x.Elem(), depth+1)
		case *types.Map:
			return mentionsApp(x.Key(), depth+1) || mentionsApp(x.Elem(), depth+1)
		}
		return false
	}

	type fn struct {
		decl   *ast.FuncDecl
		name   string
		writes map[string]bool
		calls  map[*types.Func]bool
	}
	funcs := map[*types.Func]*fn{}
	byName := map[string]*fn{}
	pkgVarWrites := map[string]map[string]bool{}
	var pkgVars []string
	for _, n := range pkg.Scope().Names() {
		if v, ok := pkg.Scope().Lookup(n).(*types.Var); ok {
			pkgVars = append(pkgVars, v.Name())
			pkgVarWrites[v.Name()] = map[string]bool{}
		}
	}
	sort.Strings(pkgVars)

	for _, f := range tp.files {
		for _, d := range f.Decls {
			fd, ok := d.(*ast.FuncDecl)
			if !ok || fd.Body == nil {
				continue
			}
			obj, _ := info.Defs[fd.Name].(*types.Func)
			if obj == nil {
				return "", fmt.Errorf("function %s has no type information", fd.Name.Name)
			}
			name := fd.Name.Name
			if fd.Recv != nil && len(fd.Recv.List) == 1 {
				name = strings.TrimPrefix(short(info.TypeOf(fd.Recv.List[0].Type)), "*") + "." + name
			}
			x := &fn{decl: fd, name: name, writes: map[string]bool{}, calls: map[*types.Func]bool{}}
			funcs[obj] = x
			byName[name] = x
		}
	}

	for _, x := range funcs {
		x := x
		// target: the innermost field, package variable or alias a write goes to
		var target func(e ast.Expr, through bool)
		target = func(e ast.Expr, through bool) {
			switch t := e.(type) {
			case *ast.ParenExpr:
				target(t.X, through)
			case *ast.IndexExpr:
				target(t.X, true)
			case *ast.SliceExpr:
				target(t.X, true)
			case *ast.StarExpr:
				target(t.X, true)
			case *ast.SelectorExpr:
				if sel, ok := info.Selections[t]; ok && sel.Kind() == types.FieldVal {
					recv := sel.Recv()
					if p, ok := recv.Underlying().(*types.Pointer); ok {
						recv = p.Elem()
					}
					x.writes[strings.TrimPrefix(short(recv), "*")+"."+t.Sel.Name] = true
					return
				}
				// qualified identifier of another package
				if o, ok := info.Uses[t.Sel].(*types.Var); ok && o.Pkg() != nil {
					x.writes["extvar:"+o.Pkg().Name()+"."+o.Name()] = true
				}
			case *ast.Ident:
				o, _ := info.Uses[t].(*types.Var)
				if o == nil {
					o, _ = info.Defs[t].(*types.Var)
				}
				if o == nil {
					return
				}
				if o.Parent() == pkg.Scope() {
					pkgVarWrites[o.Name()][x.name] = true
					return
				}
				if through && mentionsApp(o.Type(), 0) {
					x.writes["alias:"+short(o.Type())] = true
				}
			default:
				if through {
					x.writes["alias:"+short(info.TypeOf(e))] = true
				}
			}
		}
		ast.Inspect(x.decl.Body, func(n ast.Node) bool {
			switch s := n.(type) {
			case *ast.AssignStmt:
				for _, l := range s.Lhs {
					if id, ok := l.(*ast.Ident); ok && (id.Name == "_" || (s.Tok == token.DEFINE && info.Defs[id] != nil)) {
						continue
					}
					target(l, false)
				}
			case *ast.IncDecStmt:
				target(s.X, false)
			case *ast.RangeStmt:
				if s.Tok == token.ASSIGN {
					if s.Key != nil {
						target(s.Key, false)
					}
					if s.Value != nil {
						target(s.Value, false)
					}
				}
			case *ast.UnaryExpr:
				// &x.F handed on: whoever gets the pointer may write
				if s.Op == token.AND {
					if _, ok := s.X.(*ast.CompositeLit); !ok && mentionsApp(info.TypeOf(s.X), 0) {
						x.writes["addr:"+short(info.TypeOf(s.X))] = true
					}
				}
			case *ast.CallExpr:
				// conversions
				if tv, ok := info.Types[s.Fun]; ok && tv.IsType() {
					return true
				}
				var callee types.Object
				switch f := s.Fun.(type) {
				case *ast.Ident:
					callee = info.Uses[f]
				case *ast.SelectorExpr:
					if sel, ok := info.Selections[f]; ok {
						callee = sel.Obj()
						if sel.Kind() == types.MethodVal {
							if _, isIface := sel.Recv().Underlying().(*types.Interface); isIface {
								x.writes["dyn:"+f.Sel.Name] = true
								return true
							}
						}
					} else {
						callee = info.Uses[f.Sel]
					}
				case *ast.FuncLit:
					// called on the spot (defer func() {...}()): its body is part of this function
					return true
				default:
					x.writes["dyn:"+types.ExprString(s.Fun)] = true
					return true
				}
				switch c := callee.(type) {
				case *types.Builtin:
					switch c.Name() {
					case "delete", "copy", "clear":
						if len(s.Args) > 0 {
							target(s.Args[0], true)
						}
					}
				case *types.Func:
					if c.Pkg() == pkg {
						x.calls[c] = true
						return true
					}
					// a function of another package: which app values does it get?
					args := append([]ast.Expr{}, s.Args...)
					if f, ok := s.Fun.(*ast.SelectorExpr); ok {
						if _, isSel := info.Selections[f]; isSel {
							args = append(args, f.X)
						}
					}
					for _, a := range args {
						t := info.TypeOf(a)
						if t == nil {
							continue
						}
						_, isPtr := t.Underlying().(*types.Pointer)
						_, isMap := t.Underlying().(*types.Map)
						_, isSlice := t.Underlying().(*types.Slice)
						if (isPtr || isMap || isSlice) && mentionsApp(t, 0) {
							pk := ""
							if c.Pkg() != nil {
								pk = c.Pkg().Name() + "."
							}
							x.writes["ext:"+pk+c.Name()+":"+short(t)] = true
						}
					}
				case *types.Var:
					// a local variable holding a closure written in this very function: the closure's
					// body is walked with the rest of the function; anything else (a parameter, a
					// field, a package variable) is a call we cannot see through
					if !c.IsField() && c.Parent() != pkg.Scope() && c.Pos() >= x.decl.Body.Pos() && c.Pos() <= x.decl.Body.End() {
						return true
					}
					x.writes["dyn:"+c.Name()] = true
				case nil:
					x.writes["dyn:"+types.ExprString(s.Fun)] = true
				}
			case *ast.GoStmt:
				x.writes["go-statement"] = true
			}
			return true
		})
	}

	closure := func(root *fn) []string {
		seen := map[*fn]bool{}
		out := map[string]bool{}
		var visit func(f *fn)
		visit = func(f *fn) {
			if seen[f] {
				return
			}
			seen[f] = true
			for w := range f.writes {
				out[w] = true
			}
			for c := range f.calls {
				if g, ok := funcs[c]; ok {
					visit(g)
				} else {
					out["dyn:"+c.Name()] = true
				}
			}
		}
		visit(root)
		var l []string
		for w := range out {
			l = append(l, w)
		}
		sort.Strings(l)
		return l
	}

	var sb strings.Builder
	sb.WriteString("(* GENERATED by harness/cmd/translate (gen_appframe.go) from the repository source - do not edit. *)\n")
	sb.WriteString("From Coq Require Import String List.\nImport ListNotations.\nOpen Scope string_scope.\n\n")
	sb.WriteString("(* entry point of app.ShutterApp -> everything it (or what it calls inside the package) may write *)\n")
	sb.WriteString("Definition gen_entry_writes : list (string * list string) := [\n")
	for i, e := range frameEntries {
		f, ok := byName["ShutterApp."+e]
		if !ok {
			return "", fmt.Errorf("method ShutterApp.%s not found", e)
		}
		ws := closure(f)
		var q []string
		for _, w := range ws {
			q = append(q, "\""+w+"\"")
		}
		sep := ";"
		if i == len(frameEntries)-1 {
			sep = ""
		}
		fmt.Fprintf(&sb, "  (\"%s\", [%s])%s\n", e, strings.Join(q, "; "), sep)
	}
	sb.WriteString("].\n\n")
	sb.WriteString("(* package-level variable -> functions that write it after initialisation *)\n")
	sb.WriteString("Definition gen_package_var_writes : list (string * list string) := [\n")
	for i, v := range pkgVars {
		var ws []string
		for w := range pkgVarWrites[v] {
			ws = append(ws, "\""+w+"\"")
		}
		sort.Strings(ws)
		sep := ";"
		if i == len(pkgVars)-1 {
			sep = ""
		}
		fmt.Fprintf(&sb, "  (\"%s\", [%s])%s\n", v, strings.Join(ws, "; "), sep)
	}
	sb.WriteString("].\n")
	return sb.String(), nil
}
