// OapiTable: the keyper HTTP API as the source states it, for property C18.
//
// Read (all below <repo>/keyper):
//
//	kproapi/oapi.yaml        operations: (method, path template, x-read-only, operationId)
//	kproapi/oapi.gen.go      the spec embedded in swaggerSpec (what GetSwagger and therefore the
//	                         guard middleware sees at run time): the same four columns;
//	                         the routes registered in HandlerWithOptions (method, chi pattern,
//	                         wrapper); every wrapper must call the ServerInterface method of
//	                         the same name
//	kproapi/middleware.go    shouldEnableEndpoint is translated statement by statement;
//	                         the method switch of findOperation becomes a table; the remaining
//	                         text of isReadOnlyEndpoint / findOperation / ConfigMiddleware /
//	                         ConfigMiddlewareWithSpec must be the text the Coq model
//	                         (Model/HttpGuard.v) was written from
//	kprapi/kprapi.go         the mount prefix of the API router and the middleware order in
//	                         setupAPIRouter (text compared as well)
//	kprapi/*.go              which functions send on Server.trigger / Server.shutdownSig
//
// The generator refuses (returns an error for) every shape it does not understand.
package main

import (
	"bytes"
	"compress/gzip"
	"encoding/base64"
	"encoding/json"
	"fmt"
	"go/ast"
	"go/parser"
	"go/printer"
	"go/token"
	"io"
	"os"
	"path/filepath"
	"sort"
	"strconv"
	"strings"

	"github.com/getkin/kin-openapi/openapi3"
)

func init() { register("OapiTable", genOapiTable) }

type oapiOp struct {
	Method, Template, Ro, OpID string
}

type oapiRoute struct {
	Method, Pattern, Handler string
}

// ---------------------------------------------------------------------------------------
// helpers

func oapiParseFile(path string) (*token.FileSet, *ast.File, error) {
	fset := token.NewFileSet()
	f, err := parser.ParseFile(fset, path, nil, parser.SkipObjectResolution) // comments dropped
	if err != nil {
		return nil, nil, err
	}
	return fset, f, nil
}

func oapiFuncDecl(f *ast.File, recv, name string) *ast.FuncDecl {
	for _, d := range f.Decls {
		fd, ok := d.(*ast.FuncDecl)
		if !ok || fd.Name.Name != name {
			continue
		}
		if recv == "" && fd.Recv == nil {
			return fd
		}
		if recv != "" && fd.Recv != nil && len(fd.Recv.List) == 1 {
			t := fd.Recv.List[0].Type
			if st, ok := t.(*ast.StarExpr); ok {
				t = st.X
			}
			if id, ok := t.(*ast.Ident); ok && id.Name == recv {
				return fd
			}
		}
	}
	return nil
}

func oapiPrint(fset *token.FileSet, n any) string {
	var b bytes.Buffer
	if err := (&printer.Config{Mode: printer.RawFormat, Tabwidth: 1}).Fprint(&b, fset, n); err != nil {
		return "<unprintable: " + err.Error() + ">"
	}
	// canonical: single spaces, no blank lines
	return strings.Join(strings.Fields(b.String()), " ")
}

func oapiCanon(s string) string { return strings.Join(strings.Fields(s), " ") }

// oapiDiff points at the first place where the text now differs from the expected one.
func oapiDiff(got, want string) string {
	i := 0
	for i < len(got) && i < len(want) && got[i] == want[i] {
		i++
	}
	from := i - 60
	if from < 0 {
		from = 0
	}
	to := i + 100
	if to > len(got) {
		to = len(got)
	}
	return fmt.Sprintf("differs at byte %d: ...%s...", i, got[from:to])
}

func oapiStringLit(e ast.Expr) (string, bool) {
	bl, ok := e.(*ast.BasicLit)
	if !ok || bl.Kind != token.STRING {
		return "", false
	}
	s, err := strconv.Unquote(bl.Value)
	return s, err == nil
}

func oapiSafeLiteralChar(c byte) bool {
	return 'a' <= c && c <= 'z' || 'A' <= c && c <= 'Z' || '0' <= c && c <= '9' || c == '-' || c == '.' || c == '_' || c == '~'
}

func oapiIdentChar(c byte) bool {
	return 'a' <= c && c <= 'z' || 'A' <= c && c <= 'Z' || '0' <= c && c <= '9' || c == '_'
}

// checkTemplate accepts "/" followed by "/"-separated segments each of which is either a
// literal over [A-Za-z0-9._~-]* or one whole "{name}" with name over [A-Za-z0-9_]+.
func oapiCheckTemplate(t string) error {
	if t == "" || t[0] != '/' {
		return fmt.Errorf("path template %q does not start with /", t)
	}
	for _, seg := range strings.Split(t[1:], "/") {
		if strings.HasPrefix(seg, "{") && strings.HasSuffix(seg, "}") && len(seg) >= 3 {
			for i := 1; i < len(seg)-1; i++ {
				if !oapiIdentChar(seg[i]) {
					return fmt.Errorf("path template %q: parameter segment %q is not {identifier}", t, seg)
				}
			}
			continue
		}
		for i := 0; i < len(seg); i++ {
			if !oapiSafeLiteralChar(seg[i]) {
				return fmt.Errorf("path template %q: segment %q is neither a plain literal nor one whole {parameter}", t, seg)
			}
		}
	}
	return nil
}

func oapiRoKind(op *openapi3.Operation) string {
	v, ok := op.Extensions["x-read-only"]
	if !ok {
		return "RoAbsent"
	}
	switch x := v.(type) {
	case json.RawMessage:
		switch string(x) {
		case "true":
			return "RoTrue"
		case "false":
			return "RoFalse"
		}
		return "RoOther"
	case bool:
		if x {
			return "RoTrue"
		}
		return "RoFalse"
	}
	return "RoOther"
}

func oapiOpsOf(doc *openapi3.T, what string) ([]oapiOp, error) {
	var ops []oapiOp
	if len(doc.Paths) == 0 {
		return nil, fmt.Errorf("%s: no paths", what)
	}
	ids := map[string]bool{}
	for tpl, item := range doc.Paths {
		if err := oapiCheckTemplate(tpl); err != nil {
			return nil, fmt.Errorf("%s: %v", what, err)
		}
		if item == nil {
			return nil, fmt.Errorf("%s: path %s has no item", what, tpl)
		}
		if item.Ref != "" {
			return nil, fmt.Errorf("%s: path %s is a $ref (not understood)", what, tpl)
		}
		for m, op := range item.Operations() {
			if op.OperationID == "" {
				return nil, fmt.Errorf("%s: %s %s has no operationId", what, m, tpl)
			}
			for i := 0; i < len(op.OperationID); i++ {
				if !oapiIdentChar(op.OperationID[i]) || op.OperationID[i] == '_' {
					return nil, fmt.Errorf("%s: operationId %q is not a plain alphanumeric identifier", what, op.OperationID)
				}
			}
			if ids[op.OperationID] {
				return nil, fmt.Errorf("%s: duplicate operationId %q", what, op.OperationID)
			}
			ids[op.OperationID] = true
			ops = append(ops, oapiOp{Method: m, Template: tpl, Ro: oapiRoKind(op), OpID: op.OperationID})
		}
	}
	sort.Slice(ops, func(i, j int) bool {
		if ops[i].Template != ops[j].Template {
			return ops[i].Template < ops[j].Template
		}
		return ops[i].Method < ops[j].Method
	})
	return ops, nil
}

// ---------------------------------------------------------------------------------------
// oapi.gen.go

func oapiEmbeddedSpec(f *ast.File) ([]byte, error) {
	for _, d := range f.Decls {
		gd, ok := d.(*ast.GenDecl)
		if !ok || gd.Tok != token.VAR {
			continue
		}
		for _, sp := range gd.Specs {
			vs := sp.(*ast.ValueSpec)
			if len(vs.Names) != 1 || vs.Names[0].Name != "swaggerSpec" || len(vs.Values) != 1 {
				continue
			}
			cl, ok := vs.Values[0].(*ast.CompositeLit)
			if !ok {
				return nil, fmt.Errorf("swaggerSpec is not a composite literal")
			}
			var sb strings.Builder
			for _, e := range cl.Elts {
				s, ok := oapiStringLit(e)
				if !ok {
					return nil, fmt.Errorf("swaggerSpec has a non-literal element")
				}
				sb.WriteString(s)
			}
			zipped, err := base64.StdEncoding.DecodeString(sb.String())
			if err != nil {
				return nil, fmt.Errorf("swaggerSpec: %v", err)
			}
			zr, err := gzip.NewReader(bytes.NewReader(zipped))
			if err != nil {
				return nil, fmt.Errorf("swaggerSpec: %v", err)
			}
			return io.ReadAll(zr)
		}
	}
	return nil, fmt.Errorf("var swaggerSpec not found")
}

var oapiChiMethods = map[string]string{
	"Connect": "CONNECT", "Delete": "DELETE", "Get": "GET", "Head": "HEAD", "Options": "OPTIONS",
	"Patch": "PATCH", "Post": "POST", "Put": "PUT", "Trace": "TRACE",
}

// oapiRoutes reads HandlerWithOptions: after the preamble, a sequence of
//
//	r.Group(func(r chi.Router) { r.<Method>(options.BaseURL+"<pattern>", wrapper.<Name>) })
//
// and `return r`.
func oapiRoutes(fset *token.FileSet, f *ast.File) ([]oapiRoute, error) {
	fd := oapiFuncDecl(f, "", "HandlerWithOptions")
	if fd == nil {
		return nil, fmt.Errorf("func HandlerWithOptions not found")
	}
	const preamble = `r := options.BaseRouter if r == nil { r = chi.NewRouter() } if options.ErrorHandlerFunc == nil { options.ErrorHandlerFunc = func(w http.ResponseWriter, r *http.Request, err error) { http.Error(w, err.Error(), http.StatusBadRequest) } } wrapper := ServerInterfaceWrapper{ Handler: si, HandlerMiddlewares: options.Middlewares, ErrorHandlerFunc: options.ErrorHandlerFunc, }`
	var routes []oapiRoute
	var pre []string
	stmts := fd.Body.List
	i := 0
	for ; i < len(stmts); i++ {
		if es, ok := stmts[i].(*ast.ExprStmt); ok {
			if ce, ok := es.X.(*ast.CallExpr); ok && oapiPrint(fset, ce.Fun) == "r.Group" {
				break
			}
		}
		pre = append(pre, oapiPrint(fset, stmts[i]))
	}
	if got := strings.Join(pre, " "); got != oapiCanon(preamble) {
		return nil, fmt.Errorf("HandlerWithOptions: unexpected statements before the route registrations; %s", oapiDiff(got, oapiCanon(preamble)))
	}
	for ; i < len(stmts); i++ {
		if rs, ok := stmts[i].(*ast.ReturnStmt); ok && i == len(stmts)-1 && len(rs.Results) == 1 && oapiPrint(fset, rs.Results[0]) == "r" {
			break
		}
		bad := fmt.Errorf("HandlerWithOptions: statement not understood: %s", oapiPrint(fset, stmts[i]))
		es, ok := stmts[i].(*ast.ExprStmt)
		if !ok {
			return nil, bad
		}
		ce, ok := es.X.(*ast.CallExpr)
		if !ok || oapiPrint(fset, ce.Fun) != "r.Group" || len(ce.Args) != 1 {
			return nil, bad
		}
		fl, ok := ce.Args[0].(*ast.FuncLit)
		if !ok || oapiPrint(fset, fl.Type) != "func(r chi.Router)" || len(fl.Body.List) != 1 {
			return nil, bad
		}
		ies, ok := fl.Body.List[0].(*ast.ExprStmt)
		if !ok {
			return nil, bad
		}
		reg, ok := ies.X.(*ast.CallExpr)
		if !ok || len(reg.Args) != 2 {
			return nil, bad
		}
		sel, ok := reg.Fun.(*ast.SelectorExpr)
		if !ok || oapiPrint(fset, sel.X) != "r" {
			return nil, bad
		}
		method, ok := oapiChiMethods[sel.Sel.Name]
		if !ok {
			return nil, bad
		}
		be, ok := reg.Args[0].(*ast.BinaryExpr)
		if !ok || be.Op != token.ADD || oapiPrint(fset, be.X) != "options.BaseURL" {
			return nil, bad
		}
		pat, ok := oapiStringLit(be.Y)
		if !ok {
			return nil, bad
		}
		hs, ok := reg.Args[1].(*ast.SelectorExpr)
		if !ok || oapiPrint(fset, hs.X) != "wrapper" {
			return nil, bad
		}
		if err := oapiCheckTemplate(pat); err != nil {
			return nil, fmt.Errorf("HandlerWithOptions: %v", err)
		}
		routes = append(routes, oapiRoute{Method: method, Pattern: pat, Handler: hs.Sel.Name})
	}
	if i != len(stmts)-1 {
		return nil, fmt.Errorf("HandlerWithOptions: does not end in `return r`")
	}
	if len(routes) == 0 {
		return nil, fmt.Errorf("HandlerWithOptions: no routes")
	}
	// every wrapper hands over to the ServerInterface method of the same name, exactly once,
	// and to no other
	for _, r := range routes {
		wd := oapiFuncDecl(f, "ServerInterfaceWrapper", r.Handler)
		if wd == nil {
			return nil, fmt.Errorf("wrapper method ServerInterfaceWrapper.%s not found", r.Handler)
		}
		var called []string
		ast.Inspect(wd.Body, func(n ast.Node) bool {
			if ce, ok := n.(*ast.CallExpr); ok {
				if s, ok := ce.Fun.(*ast.SelectorExpr); ok && oapiPrint(fset, s.X) == "siw.Handler" {
					called = append(called, s.Sel.Name)
				}
			}
			return true
		})
		if len(called) != 1 || called[0] != r.Handler {
			return nil, fmt.Errorf("wrapper %s calls siw.Handler methods %v, expected exactly [%s]", r.Handler, called, r.Handler)
		}
	}
	// the default handlers go through HandlerWithOptions with an empty BaseURL
	if fd := oapiFuncDecl(f, "", "HandlerFromMux"); fd == nil ||
		oapiPrint(fset, fd.Body) != oapiCanon(`{ return HandlerWithOptions(si, ChiServerOptions{ BaseRouter: r, }) }`) {
		return nil, fmt.Errorf("HandlerFromMux is not `return HandlerWithOptions(si, ChiServerOptions{BaseRouter: r})`")
	}
	return routes, nil
}

// ---------------------------------------------------------------------------------------
// middleware.go

var oapiHTTPMethodConst = map[string]string{
	"http.MethodGet": "GET", "http.MethodHead": "HEAD", "http.MethodPost": "POST", "http.MethodPut": "PUT",
	"http.MethodPatch": "PATCH", "http.MethodDelete": "DELETE", "http.MethodConnect": "CONNECT",
	"http.MethodOptions": "OPTIONS", "http.MethodTrace": "TRACE",
}

// the texts Model/HttpGuard.v was written from (comments and layout ignored)
const oapiIsReadOnlyText = `func isReadOnlyEndpoint(operation *openapi3.Operation) bool {
	if val, exists := operation.Extensions["x-read-only"]; exists {
		if rawMsg, ok := val.(json.RawMessage); ok {
			return string(rawMsg) == "true"
		}
		if boolVal, ok := val.(bool); ok {
			return boolVal
		}
	}
	return false
}`

const oapiFindOperationHead = `pathItem := spec.Paths.Find(path)
	if pathItem == nil {
		for specPath, pItem := range spec.Paths {
			rePath := "^" + regexp.QuoteMeta(specPath)
			rePath = strings.ReplaceAll(rePath, ` + "`" + `\{` + "`" + `, "{")
			rePath = strings.ReplaceAll(rePath, ` + "`" + `\}` + "`" + `, "}")
			rePath = regexp.MustCompile(` + "`" + `\{[^/]+\}` + "`" + `).ReplaceAllString(rePath, ` + "`" + `[^/]+` + "`" + `)
			rePath += "$"
			if matched, _ := regexp.MatchString(rePath, path); matched {
				pathItem = pItem
				break
			}
		}
	}
	if pathItem == nil {
		return nil
	}`

const oapiConfigMiddlewareText = `func ConfigMiddleware(enableWriteOperations bool) MiddlewareFunc {
	return ConfigMiddlewareWithSpec(enableWriteOperations, GetSwagger)
}`

const oapiConfigMiddlewareWithSpecText = `func ConfigMiddlewareWithSpec(enableWriteOperations bool, getSpec func() (*openapi3.T, error)) MiddlewareFunc {
	return func(next http.Handler) http.Handler {
		return http.HandlerFunc(func(w http.ResponseWriter, r *http.Request) {
			spec, err := getSpec()
			if err != nil {
				http.Error(w, "Internal server error", http.StatusInternalServerError)
				return
			}
			operation := findOperation(spec, r.URL.Path, r.Method)
			if operation == nil {
				http.Error(w, "Endpoint not found", http.StatusNotFound)
				return
			}
			if !shouldEnableEndpoint(operation, enableWriteOperations) {
				http.Error(w, "Endpoint not enabled", http.StatusForbidden)
				return
			}
			next.ServeHTTP(w, r)
		})
	}
}`

var oapiPathItemField = map[string]string{
	"Connect": "CONNECT", "Delete": "DELETE", "Get": "GET", "Head": "HEAD", "Options": "OPTIONS",
	"Patch": "PATCH", "Post": "POST", "Put": "PUT", "Trace": "TRACE",
}

func oapiSameText(fset *token.FileSet, f *ast.File, name, want string) error {
	fd := oapiFuncDecl(f, "", name)
	if fd == nil {
		return fmt.Errorf("func %s not found", name)
	}
	if got := oapiPrint(fset, fd); got != oapiCanon(want) {
		return fmt.Errorf("func %s no longer has the text the model was written from; %s", name, oapiDiff(got, oapiCanon(want)))
	}
	return nil
}

// oapiBoolExpr translates a boolean expression over the two inputs of shouldEnableEndpoint.
func oapiBoolExpr(fset *token.FileSet, e ast.Expr, opParam, enParam string) (string, error) {
	switch x := e.(type) {
	case *ast.ParenExpr:
		return oapiBoolExpr(fset, x.X, opParam, enParam)
	case *ast.Ident:
		switch x.Name {
		case "true", "false":
			return x.Name, nil
		case enParam:
			return "enable_write", nil
		}
	case *ast.UnaryExpr:
		if x.Op == token.NOT {
			s, err := oapiBoolExpr(fset, x.X, opParam, enParam)
			return "(negb " + s + ")", err
		}
	case *ast.BinaryExpr:
		if x.Op == token.LAND || x.Op == token.LOR {
			a, err := oapiBoolExpr(fset, x.X, opParam, enParam)
			if err != nil {
				return "", err
			}
			b, err := oapiBoolExpr(fset, x.Y, opParam, enParam)
			if err != nil {
				return "", err
			}
			if x.Op == token.LAND {
				return "(andb " + a + " " + b + ")", nil
			}
			return "(orb " + a + " " + b + ")", nil
		}
	case *ast.CallExpr:
		if oapiPrint(fset, x) == "isReadOnlyEndpoint("+opParam+")" {
			return "is_read_only", nil
		}
	}
	return "", fmt.Errorf("shouldEnableEndpoint: expression not understood: %s", oapiPrint(fset, e))
}

// oapiShouldEnable translates the loop-free body (if c { return e } ... return e).
func oapiShouldEnable(fset *token.FileSet, f *ast.File) (string, error) {
	fd := oapiFuncDecl(f, "", "shouldEnableEndpoint")
	if fd == nil {
		return "", fmt.Errorf("func shouldEnableEndpoint not found")
	}
	if got := oapiPrint(fset, fd.Type); got != "func(operation *openapi3.Operation, enableWriteOperations bool) bool" {
		return "", fmt.Errorf("shouldEnableEndpoint: signature not understood: %s", got)
	}
	var tr func(stmts []ast.Stmt) (string, error)
	tr = func(stmts []ast.Stmt) (string, error) {
		if len(stmts) == 0 {
			return "", fmt.Errorf("shouldEnableEndpoint: a path falls off the end without return")
		}
		switch s := stmts[0].(type) {
		case *ast.ReturnStmt:
			if len(s.Results) != 1 {
				return "", fmt.Errorf("shouldEnableEndpoint: return not understood")
			}
			return oapiBoolExpr(fset, s.Results[0], "operation", "enableWriteOperations")
		case *ast.IfStmt:
			if s.Init != nil {
				return "", fmt.Errorf("shouldEnableEndpoint: if with init not understood")
			}
			c, err := oapiBoolExpr(fset, s.Cond, "operation", "enableWriteOperations")
			if err != nil {
				return "", err
			}
			// the then-branch must return on every path, so the rest is the else-branch
			th, err := tr(s.Body.List)
			if err != nil {
				return "", err
			}
			var el string
			if s.Else != nil {
				eb, ok := s.Else.(*ast.BlockStmt)
				if !ok {
					return "", fmt.Errorf("shouldEnableEndpoint: else-if not understood")
				}
				el, err = tr(append(append([]ast.Stmt{}, eb.List...), stmts[1:]...))
			} else {
				el, err = tr(stmts[1:])
			}
			if err != nil {
				return "", err
			}
			return "(if " + c + " then " + th + " else " + el + ")", nil
		}
		return "", fmt.Errorf("shouldEnableEndpoint: statement not understood: %s", oapiPrint(fset, stmts[0]))
	}
	return tr(fd.Body.List)
}

// oapiGuardSwitch reads findOperation: fixed head (compared as text), then
// `switch method { case http.MethodX: return pathItem.Y ... default: return nil }`.
func oapiGuardSwitch(fset *token.FileSet, f *ast.File) ([][2]string, error) {
	fd := oapiFuncDecl(f, "", "findOperation")
	if fd == nil {
		return nil, fmt.Errorf("func findOperation not found")
	}
	if got := oapiPrint(fset, fd.Type); got != "func(spec *openapi3.T, path string, method string) *openapi3.Operation" {
		return nil, fmt.Errorf("findOperation: signature not understood: %s", got)
	}
	n := len(fd.Body.List)
	if n < 2 {
		return nil, fmt.Errorf("findOperation: body not understood")
	}
	var head []string
	for _, s := range fd.Body.List[:n-1] {
		head = append(head, oapiPrint(fset, s))
	}
	if got := strings.Join(head, " "); got != oapiCanon(oapiFindOperationHead) {
		return nil, fmt.Errorf("findOperation: the path lookup no longer has the text the model was written from; %s", oapiDiff(got, oapiCanon(oapiFindOperationHead)))
	}
	sw, ok := fd.Body.List[n-1].(*ast.SwitchStmt)
	if !ok || sw.Init != nil || sw.Tag == nil || oapiPrint(fset, sw.Tag) != "method" {
		return nil, fmt.Errorf("findOperation: does not end in `switch method {...}`")
	}
	var out [][2]string
	seenDefault := false
	seen := map[string]bool{}
	for _, c := range sw.Body.List {
		cc := c.(*ast.CaseClause)
		if len(cc.Body) != 1 {
			return nil, fmt.Errorf("findOperation: case body not understood: %s", oapiPrint(fset, cc))
		}
		rs, ok := cc.Body[0].(*ast.ReturnStmt)
		if !ok || len(rs.Results) != 1 {
			return nil, fmt.Errorf("findOperation: case body not understood: %s", oapiPrint(fset, cc))
		}
		if cc.List == nil {
			if oapiPrint(fset, rs.Results[0]) != "nil" {
				return nil, fmt.Errorf("findOperation: default case does not return nil")
			}
			seenDefault = true
			continue
		}
		sel, ok := rs.Results[0].(*ast.SelectorExpr)
		if !ok || oapiPrint(fset, sel.X) != "pathItem" {
			return nil, fmt.Errorf("findOperation: case result not understood: %s", oapiPrint(fset, rs))
		}
		specMethod, ok := oapiPathItemField[sel.Sel.Name]
		if !ok {
			return nil, fmt.Errorf("findOperation: unknown PathItem field %s", sel.Sel.Name)
		}
		for _, e := range cc.List {
			var m string
			if s, ok := oapiStringLit(e); ok {
				m = s
			} else if v, ok := oapiHTTPMethodConst[oapiPrint(fset, e)]; ok {
				m = v
			} else {
				return nil, fmt.Errorf("findOperation: case label not understood: %s", oapiPrint(fset, e))
			}
			if seen[m] {
				return nil, fmt.Errorf("findOperation: duplicate case %s", m)
			}
			seen[m] = true
			out = append(out, [2]string{m, specMethod})
		}
	}
	if !seenDefault {
		// without a default the function would not compile (missing return), but say so
		return nil, fmt.Errorf("findOperation: switch has no default")
	}
	return out, nil
}

// ---------------------------------------------------------------------------------------
// kprapi

const oapiSetupAPIRouterText = `func (srv *Server) setupAPIRouter(swagger *openapi3.T) http.Handler {
	router := chi.NewRouter()
	router.Use(chimiddleware.OapiRequestValidator(swagger))
	router.Use(kproapi.ConfigMiddleware(srv.config.GetEnableWriteOperations()))
	_ = kproapi.HandlerFromMux(srv, router)
	return router
}`

// oapiMount reads setupRouter: the statements that touch `router` must be, in this order,
// NewRouter, Use(Logger), Use(Recoverer), Mount(p, http.StripPrefix(p, srv.setupAPIRouter(swagger))),
// Get("/api.json", ...), Mount("/metrics", ...), optionally Mount(path, ...) for the swagger
// ui, return router. Returns p.
func oapiMount(fset *token.FileSet, f *ast.File) (string, error) {
	if fd := oapiFuncDecl(f, "Server", "setupAPIRouter"); fd == nil {
		return "", fmt.Errorf("method Server.setupAPIRouter not found")
	} else if got := oapiPrint(fset, fd); got != oapiCanon(oapiSetupAPIRouterText) {
		return "", fmt.Errorf("Server.setupAPIRouter no longer has the text the model was written from; %s", oapiDiff(got, oapiCanon(oapiSetupAPIRouterText)))
	}
	fd := oapiFuncDecl(f, "Server", "setupRouter")
	if fd == nil {
		return "", fmt.Errorf("method Server.setupRouter not found")
	}
	var calls []string
	prefix := ""
	ast.Inspect(fd.Body, func(n ast.Node) bool {
		ce, ok := n.(*ast.CallExpr)
		if !ok {
			return true
		}
		sel, ok := ce.Fun.(*ast.SelectorExpr)
		if !ok || oapiPrint(fset, sel.X) != "router" {
			return true
		}
		switch sel.Sel.Name {
		case "Use":
			calls = append(calls, oapiPrint(fset, ce))
		case "Mount":
			if len(ce.Args) == 2 {
				if inner, ok := ce.Args[1].(*ast.CallExpr); ok && oapiPrint(fset, inner.Fun) == "http.StripPrefix" && len(inner.Args) == 2 &&
					oapiPrint(fset, inner.Args[1]) == "srv.setupAPIRouter(swagger)" {
					a, ok1 := oapiStringLit(ce.Args[0])
					b, ok2 := oapiStringLit(inner.Args[0])
					if ok1 && ok2 && a == b {
						prefix = a
						calls = append(calls, "MOUNT-API")
						return true
					}
				}
			}
			calls = append(calls, "Mount("+oapiPrint(fset, ce.Args[0])+")")
		default:
			calls = append(calls, sel.Sel.Name+"("+oapiPrint(fset, ce.Args[0])+")")
		}
		return true
	})
	want := []string{"router.Use(middleware.Logger)", "router.Use(middleware.Recoverer)", "MOUNT-API", `Get("/api.json")`, `Mount("/metrics")`, "Mount(path)"}
	if strings.Join(calls, " ; ") != strings.Join(want, " ; ") {
		return "", fmt.Errorf("Server.setupRouter: calls on router not understood: %s", strings.Join(calls, " ; "))
	}
	if !strings.Contains(oapiPrint(fset, fd.Body), `path := "/ui/"`) {
		return "", fmt.Errorf("Server.setupRouter: swagger ui path is not \"/ui/\"")
	}
	if len(prefix) < 2 || prefix[0] != '/' || strings.Contains(prefix[1:], "/") {
		return "", fmt.Errorf("Server.setupRouter: mount prefix %q is not a single plain segment", prefix)
	}
	for i := 1; i < len(prefix); i++ {
		if !oapiSafeLiteralChar(prefix[i]) {
			return "", fmt.Errorf("Server.setupRouter: mount prefix %q is not a single plain segment", prefix)
		}
	}
	return prefix, nil
}

// oapiSenders lists (channel field, function) for every send on srv.trigger / srv.shutdownSig
// in the non-test, non-verif files of the package.
func oapiSenders(dir string) ([][2]string, error) {
	files, _ := filepath.Glob(filepath.Join(dir, "*.go"))
	sort.Strings(files)
	var out [][2]string
	for _, p := range files {
		if strings.HasSuffix(p, "_test.go") {
			continue
		}
		src, err := os.ReadFile(p)
		if err != nil {
			return nil, err
		}
		if strings.HasPrefix(string(src), "//go:build verif") {
			continue
		}
		fset, f, err := oapiParseFile(p)
		if err != nil {
			return nil, err
		}
		var bad error
		for _, d := range f.Decls {
			fd, ok := d.(*ast.FuncDecl)
			if !ok || fd.Body == nil {
				continue
			}
			ast.Inspect(fd.Body, func(n ast.Node) bool {
				ss, ok := n.(*ast.SendStmt)
				if !ok {
					return true
				}
				ch := oapiPrint(fset, ss.Chan)
				switch ch {
				case "srv.trigger", "srv.shutdownSig":
					if fd.Recv == nil || oapiPrint(fset, fd.Recv.List[0].Type) != "*Server" {
						bad = fmt.Errorf("%s: send on %s outside a method of *Server (%s)", filepath.Base(p), ch, fd.Name.Name)
					}
					out = append(out, [2]string{strings.TrimPrefix(ch, "srv."), fd.Name.Name})
				default:
					bad = fmt.Errorf("%s: send on %s in %s not understood", filepath.Base(p), ch, fd.Name.Name)
				}
				return true
			})
		}
		if bad != nil {
			return nil, bad
		}
		// the two channel fields must not be copied to another name (a send through a copy
		// would not be seen above)
		txt := string(src)
		for _, fld := range []string{"trigger", "shutdownSig"} {
			for _, alias := range []string{":= srv." + fld + "\n", "= srv." + fld + "\n"} {
				if strings.Contains(txt, alias) {
					return nil, fmt.Errorf("%s: srv.%s is copied to another name (not understood)", filepath.Base(p), fld)
				}
			}
		}
	}
	sort.Slice(out, func(i, j int) bool { return out[i][0]+"/"+out[i][1] < out[j][0]+"/"+out[j][1] })
	return out, nil
}

// ---------------------------------------------------------------------------------------

func oapiCoqStr(s string) string { return `(bs "` + strings.ReplaceAll(s, `"`, `""`) + `")` }

func genOapiTable(repo string) (string, error) {
	kproapi := filepath.Join(repo, "keyper", "kproapi")
	kprapi := filepath.Join(repo, "keyper", "kprapi")

	// oapi.yaml
	yml, err := os.ReadFile(filepath.Join(kproapi, "oapi.yaml"))
	if err != nil {
		return "", err
	}
	ydoc, err := openapi3.NewLoader().LoadFromData(yml)
	if err != nil {
		return "", fmt.Errorf("oapi.yaml: %v", err)
	}
	yops, err := oapiOpsOf(ydoc, "oapi.yaml")
	if err != nil {
		return "", err
	}

	// oapi.gen.go
	gfset, gf, err := oapiParseFile(filepath.Join(kproapi, "oapi.gen.go"))
	if err != nil {
		return "", err
	}
	raw, err := oapiEmbeddedSpec(gf)
	if err != nil {
		return "", fmt.Errorf("oapi.gen.go: %v", err)
	}
	edoc, err := openapi3.NewLoader().LoadFromData(raw)
	if err != nil {
		return "", fmt.Errorf("oapi.gen.go: embedded spec: %v", err)
	}
	eops, err := oapiOpsOf(edoc, "oapi.gen.go (embedded spec)")
	if err != nil {
		return "", err
	}
	routes, err := oapiRoutes(gfset, gf)
	if err != nil {
		return "", fmt.Errorf("oapi.gen.go: %v", err)
	}
	for _, want := range []string{"func GetSwagger() (swagger *openapi3.T, err error)", "specData, err = rawSpec()", "swagger, err = loader.LoadFromData(specData)"} {
		if fd := oapiFuncDecl(gf, "", "GetSwagger"); fd == nil || !strings.Contains(oapiPrint(gfset, fd), want) {
			return "", fmt.Errorf("oapi.gen.go: GetSwagger does not load the embedded spec the way this generator assumes (%s)", want)
		}
	}

	// middleware.go
	mfset, mf, err := oapiParseFile(filepath.Join(kproapi, "middleware.go"))
	if err != nil {
		return "", err
	}
	if err := oapiSameText(mfset, mf, "isReadOnlyEndpoint", oapiIsReadOnlyText); err != nil {
		return "", fmt.Errorf("middleware.go: %v", err)
	}
	if err := oapiSameText(mfset, mf, "ConfigMiddleware", oapiConfigMiddlewareText); err != nil {
		return "", fmt.Errorf("middleware.go: %v", err)
	}
	if err := oapiSameText(mfset, mf, "ConfigMiddlewareWithSpec", oapiConfigMiddlewareWithSpecText); err != nil {
		return "", fmt.Errorf("middleware.go: %v", err)
	}
	should, err := oapiShouldEnable(mfset, mf)
	if err != nil {
		return "", fmt.Errorf("middleware.go: %v", err)
	}
	sw, err := oapiGuardSwitch(mfset, mf)
	if err != nil {
		return "", fmt.Errorf("middleware.go: %v", err)
	}

	// kprapi
	kfset, kf, err := oapiParseFile(filepath.Join(kprapi, "kprapi.go"))
	if err != nil {
		return "", err
	}
	mount, err := oapiMount(kfset, kf)
	if err != nil {
		return "", fmt.Errorf("kprapi.go: %v", err)
	}
	senders, err := oapiSenders(kprapi)
	if err != nil {
		return "", fmt.Errorf("kprapi: %v", err)
	}

	// cross-checks that are about shape (the semantic ones are Coq obligations on the table)
	for _, r := range routes {
		ok := false
		for _, o := range eops {
			if o.Method == r.Method && o.Template == r.Pattern {
				if strings.ToUpper(o.OpID[:1])+o.OpID[1:] != r.Handler {
					return "", fmt.Errorf("route %s %s is served by wrapper %s but the operation is called %s", r.Method, r.Pattern, r.Handler, o.OpID)
				}
				ok = true
			}
		}
		if !ok {
			return "", fmt.Errorf("route %s %s registered in oapi.gen.go has no operation in the embedded spec", r.Method, r.Pattern)
		}
	}

	var b strings.Builder
	b.WriteString("(* GENERATED by harness/cmd/translate/gen_oapitable.go - DO NOT EDIT.\n")
	b.WriteString("   Rewritten by ./check C18 from the repository's working tree:\n")
	b.WriteString("   keyper/kproapi/{oapi.yaml,oapi.gen.go,middleware.go}, keyper/kprapi/{kprapi.go,http.go}. *)\n")
	b.WriteString("From Coq Require Import List NArith Bool String.\n")
	b.WriteString("From Verif Require Import Lib.Bytes Model.HttpGuard.\n")
	b.WriteString("Import ListNotations.\nOpen Scope string_scope.\n\n")
	wops := func(name, comment string, ops []oapiOp) {
		fmt.Fprintf(&b, "(* %s *)\nDefinition %s : list spec_op := [\n", comment, name)
		for i, o := range ops {
			sep := ";"
			if i == len(ops)-1 {
				sep = ""
			}
			fmt.Fprintf(&b, "  mk_op %s %s %s %s%s\n", oapiCoqStr(o.Method), oapiCoqStr(o.Template), o.Ro, oapiCoqStr(o.OpID), sep)
		}
		b.WriteString("].\n\n")
	}
	wops("yaml_ops", "operations of kproapi/oapi.yaml: method, path template, x-read-only, operationId (sorted by template, method)", yops)
	wops("embedded_ops", "the same columns of the spec embedded in kproapi/oapi.gen.go (swaggerSpec), which is what GetSwagger returns at run time", eops)
	b.WriteString("(* routes registered by HandlerWithOptions, in registration order: method, chi pattern, ServerInterface method *)\nDefinition gen_routes : list route := [\n")
	for i, r := range routes {
		sep := ";"
		if i == len(routes)-1 {
			sep = ""
		}
		fmt.Fprintf(&b, "  mk_route %s %s %s%s\n", oapiCoqStr(r.Method), oapiCoqStr(r.Pattern), oapiCoqStr(r.Handler), sep)
	}
	b.WriteString("].\n\n")
	b.WriteString("(* findOperation's `switch method`: request method -> method of the PathItem field returned; any other method returns nil *)\nDefinition guard_switch : list (bytes * bytes) := [")
	for i, p := range sw {
		if i > 0 {
			b.WriteString("; ")
		}
		fmt.Fprintf(&b, "(%s, %s)", oapiCoqStr(p[0]), oapiCoqStr(p[1]))
	}
	b.WriteString("].\n\n")
	b.WriteString("(* shouldEnableEndpoint, translated statement by statement; is_read_only stands for isReadOnlyEndpoint(operation) *)\n")
	fmt.Fprintf(&b, "Definition should_enable_endpoint (is_read_only enable_write : bool) : bool :=\n  %s.\n\n", should)
	b.WriteString("(* functions of package kprapi that send on Server.<channel> *)\nDefinition channel_senders : list (bytes * bytes) := [")
	for i, p := range senders {
		if i > 0 {
			b.WriteString("; ")
		}
		fmt.Fprintf(&b, "(%s, %s)", oapiCoqStr(p[0]), oapiCoqStr(p[1]))
	}
	b.WriteString("].\n\n")
	fmt.Fprintf(&b, "(* setupRouter: router.Mount(p, http.StripPrefix(p, srv.setupAPIRouter(swagger))) *)\nDefinition mount_prefix : bytes := %s.\n\n", oapiCoqStr(mount))
	b.WriteString("Definition table : table := {|\n  t_mount := mount_prefix;\n  t_yaml_ops := yaml_ops;\n  t_embedded_ops := embedded_ops;\n  t_routes := gen_routes;\n  t_guard_switch := guard_switch;\n  t_should_enable := should_enable_endpoint;\n  t_senders := channel_senders\n|}.\n")
	return b.String(), nil
}
