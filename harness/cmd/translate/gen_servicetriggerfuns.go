package main

// ServiceTriggerFuns: the decision logic of the Shutter-service trigger path (property C02),
// regenerated from the source on every check that lists it.
//
//   keyperimpl/shutterservice/newblock.go
//     shouldTriggerDecryption     statement by statement as a boolean; the result of
//                                 resolveDecryptableEon (decryptable, the eon's activation block)
//                                 is a parameter, the strict timestamp comparison and the
//                                 activation block comparison are read off the source
//     resolveDecryptableEon       the chain "database call / no rows / test" as a boolean of
//                                 (row found?, is keyper?, dkg success?) per call, in source order
//     prepareTimeBasedTriggers    the early return test, the two query parameters, the new
//                                 latestTriggeredTime and the loop that selects the rows
//                                 (for range = fold_left with one mutable result)
//     sortIdentityPreimages       the comparator handed to sort.Slice
//   keyper/database/extend.go
//     GetKeyperIndex              the argument of GetBatchConfig (the int32 cast of the set index)
//   keyperimpl/shutterservice/triggerprocessor.go
//     FetchEvents                 the argument of GetActiveEventTriggerRegisteredEvents and the
//                                 expiry test on a log
//   keyperimpl/shutterservice/database/sql/queries/shutterservice.sql, keyper/database/sql/queries/keyper.sql
//     WHERE / ORDER BY / LIMIT of GetNotDecryptedIdentityRegisteredEvents,
//     GetActiveEventTriggerRegisteredEvents, GetEonForBlockNumber,
//     GetLatestStartedEonByKeyperConfigIndex, GetDKGResult, GetBatchConfig: every comparison
//     becomes a Coq boolean, ORDER BY a "sorts strictly before" test. The same clauses are
//     read from the constants in the *.sqlc.gen.go files (the text that is executed) and must
//     translate to the same definitions.
//
// Errors of database calls other than "no rows" are outside the model; the translator checks
// that they are propagated in the idiom it knows and drops that path. It refuses every shape
// it does not understand.

import (
	"fmt"
	"go/ast"
	"go/token"
	"os"
	"path/filepath"
	"regexp"
	"strings"
)

func init() { register("ServiceTriggerFuns", genServiceTriggerFuns) }

type stf struct {
	t *tr
}

func isIdent(e ast.Expr, name string) bool {
	id, ok := e.(*ast.Ident)
	return ok && id.Name == name
}

// isErrReturn: `return ..., <something that is not nil>` (the last result is the error).
func isErrReturn(s ast.Stmt) bool {
	r, ok := s.(*ast.ReturnStmt)
	if !ok || len(r.Results) == 0 {
		return false
	}
	return !isIdent(r.Results[len(r.Results)-1], "nil")
}

// isErrNotNil: `err != nil`
func isErrNotNil(e ast.Expr) bool {
	b, ok := e.(*ast.BinaryExpr)
	return ok && b.Op == token.NEQ && isIdent(b.X, "err") && isIdent(b.Y, "nil")
}

// isNoRows: `err == pgx.ErrNoRows` or `errors.Is(err, pgx.ErrNoRows)`
func isNoRows(e ast.Expr) bool {
	if b, ok := e.(*ast.BinaryExpr); ok {
		return b.Op == token.EQL && isIdent(b.X, "err") && exprText(b.Y) == "pgx.ErrNoRows"
	}
	return exprText(e) == "errors.Is(err,pgx.ErrNoRows)"
}

func isCallStmt(s ast.Stmt) bool {
	es, ok := s.(*ast.ExprStmt)
	if !ok {
		return false
	}
	_, ok = es.X.(*ast.CallExpr)
	return ok
}

// isNewQueries: `x := pkg.New(kpr.dbpool)`
func isNewQueries(s ast.Stmt) bool {
	as, ok := s.(*ast.AssignStmt)
	if !ok || as.Tok != token.DEFINE || len(as.Lhs) != 1 || len(as.Rhs) != 1 {
		return false
	}
	call, ok := as.Rhs[0].(*ast.CallExpr)
	if !ok {
		return false
	}
	sel, ok := call.Fun.(*ast.SelectorExpr)
	return ok && sel.Sel.Name == "New" && len(call.Args) == 1
}

// bindLocal records `x := e` for inlining when e is free of side effects: a pure expression
// (conversions, len, field selections) or an expression the rename table gives a value to
// (e.g. Header.Number.Int64()). It reports whether the statement was such a binding.
func bindLocal(t *tr, s ast.Stmt) bool {
	as, ok := s.(*ast.AssignStmt)
	if !ok || as.Tok != token.DEFINE || len(as.Lhs) != 1 || len(as.Rhs) != 1 {
		return false
	}
	id, ok := as.Lhs[0].(*ast.Ident)
	if !ok {
		return false
	}
	if _, known := t.rename[t.text(as.Rhs[0])]; !known && !pureExpr(as.Rhs[0]) {
		return false
	}
	if t.subst == nil {
		t.subst = map[string]ast.Expr{}
	}
	t.subst[id.Name] = as.Rhs[0]
	return true
}

// ---- shouldTriggerDecryption ------------------------------------------------------------------

// boolStmts translates the body of a function returning (bool, error): `return b, nil` is b.
func (g *stf) boolStmts(ss []ast.Stmt, eventVar string) string {
	t := g.t
	if len(ss) == 0 {
		return t.fail("function body falls off the end")
	}
	switch s := ss[0].(type) {
	case *ast.ReturnStmt:
		if len(s.Results) != 2 || !isIdent(s.Results[1], "nil") {
			return t.fail("return that is not `return <bool>, nil` outside the error idiom")
		}
		return t.expr(s.Results[0])
	case *ast.AssignStmt:
		if isNewQueries(s) {
			return g.boolStmts(ss[1:], eventVar)
		}
		// eon, decryptable, err := kpr.resolveDecryptableEon(ctx, coreKeyperDB, event.Eon)
		if s.Tok == token.DEFINE && len(s.Lhs) == 3 && len(s.Rhs) == 1 && isIdent(s.Lhs[2], "err") {
			call, ok := s.Rhs[0].(*ast.CallExpr)
			if ok && exprText(call.Fun) == "kpr.resolveDecryptableEon" && len(call.Args) == 3 && exprText(call.Args[2]) == eventVar+".Eon" {
				if len(ss) < 2 {
					return t.fail("resolveDecryptableEon call at the end of the body")
				}
				is, ok := ss[1].(*ast.IfStmt)
				if !ok || is.Init != nil || is.Else != nil || !isErrNotNil(is.Cond) || len(is.Body.List) != 1 || !isErrReturn(is.Body.List[0]) {
					return t.fail("resolveDecryptableEon call not followed by `if err != nil { return ..., err }`")
				}
				t.rename[exprText(s.Lhs[0])+".ActivationBlockNumber"] = "activation"
				t.rename[exprText(s.Lhs[1])] = "decryptable"
				return g.boolStmts(ss[2:], eventVar)
			}
		}
		if bindLocal(t, s) {
			return g.boolStmts(ss[1:], eventVar)
		}
		return t.fail("unsupported assignment %s", exprText(s.Rhs[0]))
	case *ast.IfStmt:
		if s.Init != nil || s.Else != nil {
			return t.fail("unsupported if form")
		}
		return "if " + t.expr(s.Cond) + " then (" + g.boolStmts(s.Body.List, eventVar) + ")\n  else (" + g.boolStmts(ss[1:], eventVar) + ")"
	case *ast.ExprStmt:
		if isCallStmt(s) { // logging
			return g.boolStmts(ss[1:], eventVar)
		}
	}
	return t.fail("unsupported statement %T", ss[0])
}

func translateShouldTrigger(f *ast.File) (string, error) {
	fd := findFunc(f, "shouldTriggerDecryption")
	if fd == nil || fd.Type.Params == nil || len(fd.Type.Params.List) != 3 || fd.Type.Results == nil || len(fd.Type.Results.List) != 2 {
		return "", fmt.Errorf("shouldTriggerDecryption: unexpected signature")
	}
	ev := fd.Type.Params.List[1].Names[0].Name
	blk := fd.Type.Params.List[2].Names[0].Name
	g := &stf{t: &tr{rename: map[string]string{
		ev + ".Timestamp":              "timestamp",
		blk + ".Header.Time":           "time",
		blk + ".Header.Number.Int64()": "number_i64",
	}}}
	body := g.boolStmts(fd.Body.List, ev)
	if g.t.err != nil {
		return "", fmt.Errorf("shouldTriggerDecryption: %v", g.t.err)
	}
	return "(* shouldTriggerDecryption: decryptable / activation are what resolveDecryptableEon answered for the\n   event's keyper set; timestamp is the row's int64 column, time the header's uint64, number_i64 is\n   Header.Number.Int64() *)\nDefinition gen_should_trigger (decryptable : bool) (activation number_i64 timestamp time : Z) : bool :=\n  " + body + ".\n\n", nil
}

// ---- resolveDecryptableEon --------------------------------------------------------------------

var resolveFound = map[string]string{
	"GetLatestStartedEonByKeyperConfigIndex": "eon_found",
	"GetKeyperIndex":                         "config_found",
	"GetDKGResultForKeyperConfigIndex":       "dkg_found",
}

// resolveStmts translates a body returning (Eon, bool, error) into the bool.
func resolveStmts(t *tr, ss []ast.Stmt, cfgParam string, eonVar *string) string {
	if len(ss) == 0 {
		return t.fail("function body falls off the end")
	}
	second := func(r *ast.ReturnStmt) string {
		if len(r.Results) != 3 || !isIdent(r.Results[2], "nil") {
			return t.fail("return that is not `return <eon>, <bool>, nil` outside the error idiom")
		}
		return t.expr(r.Results[1])
	}
	// block that ends in a non-error return, possibly after logging
	retOf := func(body []ast.Stmt) string {
		for _, s := range body[:len(body)-1] {
			if !isCallStmt(s) {
				return t.fail("unexpected statement before a return")
			}
		}
		r, ok := body[len(body)-1].(*ast.ReturnStmt)
		if !ok {
			return t.fail("block does not end in a return")
		}
		return second(r)
	}
	switch s := ss[0].(type) {
	case *ast.ReturnStmt:
		if len(s.Results) == 3 && isIdent(s.Results[1], "true") && exprText(s.Results[0]) != *eonVar {
			return t.fail("the eon returned as decryptable is not the row of GetLatestStartedEonByKeyperConfigIndex")
		}
		return second(s)
	case *ast.AssignStmt:
		if bindLocal(t, s) {
			return resolveStmts(t, ss[1:], cfgParam, eonVar)
		}
		if len(s.Rhs) != 1 || len(s.Lhs) < 2 || !isIdent(s.Lhs[len(s.Lhs)-1], "err") {
			return t.fail("unsupported assignment")
		}
		call, ok := s.Rhs[0].(*ast.CallExpr)
		if !ok {
			return t.fail("unsupported assignment")
		}
		sel, ok := call.Fun.(*ast.SelectorExpr)
		if !ok || exprText(sel.X) != "coreKeyperDB" {
			return t.fail("call %s is not a query on coreKeyperDB", exprText(call.Fun))
		}
		found, ok := resolveFound[sel.Sel.Name]
		if !ok {
			return t.fail("unknown query %s", sel.Sel.Name)
		}
		if len(call.Args) < 2 || exprText(call.Args[1]) != cfgParam {
			return t.fail("%s is not asked about the keyper set index parameter", sel.Sel.Name)
		}
		switch sel.Sel.Name {
		case "GetLatestStartedEonByKeyperConfigIndex":
			*eonVar = exprText(s.Lhs[0])
		case "GetKeyperIndex":
			if len(call.Args) != 3 || exprText(call.Args[2]) != "kpr.config.GetAddress()" || len(s.Lhs) != 3 {
				return t.fail("GetKeyperIndex is not asked about the keyper's own address")
			}
			t.rename[exprText(s.Lhs[1])] = "is_keyper"
		case "GetDKGResultForKeyperConfigIndex":
			t.rename[exprText(s.Lhs[0])+".Success"] = "dkg_success"
		}
		if len(ss) < 2 {
			return t.fail("query at the end of the body")
		}
		is, ok := ss[1].(*ast.IfStmt)
		if !ok || is.Init != nil || is.Else != nil || !isErrNotNil(is.Cond) || len(is.Body.List) != 2 {
			return t.fail("%s not followed by the error idiom", sel.Sel.Name)
		}
		nr, ok := is.Body.List[0].(*ast.IfStmt)
		if !ok || nr.Init != nil || nr.Else != nil || !isNoRows(nr.Cond) || !isErrReturn(is.Body.List[1]) {
			return t.fail("%s: the error idiom is not `if no rows { return ..., nil }; return ..., err`", sel.Sel.Name)
		}
		return "if negb " + found + " then (" + retOf(nr.Body.List) + ")\n  else (" + resolveStmts(t, ss[2:], cfgParam, eonVar) + ")"
	case *ast.IfStmt:
		if s.Init != nil || s.Else != nil {
			return t.fail("unsupported if form")
		}
		return "if " + t.expr(s.Cond) + " then (" + retOf(s.Body.List) + ")\n  else (" + resolveStmts(t, ss[1:], cfgParam, eonVar) + ")"
	}
	return t.fail("unsupported statement %T", ss[0])
}

func translateResolve(f *ast.File) (string, error) {
	fd := findFunc(f, "resolveDecryptableEon")
	if fd == nil || len(fd.Type.Params.List) != 3 || fd.Type.Results == nil || len(fd.Type.Results.List) != 3 {
		return "", fmt.Errorf("resolveDecryptableEon: unexpected signature")
	}
	cfg := fd.Type.Params.List[2].Names[0].Name
	t := &tr{rename: map[string]string{}}
	eonVar := ""
	body := resolveStmts(t, fd.Body.List, cfg, &eonVar)
	if t.err != nil {
		return "", fmt.Errorf("resolveDecryptableEon: %v", t.err)
	}
	return "(* resolveDecryptableEon, second result. eon_found / config_found / dkg_found: the query\n   GetLatestStartedEonByKeyperConfigIndex / GetBatchConfig inside GetKeyperIndex /\n   GetDKGResultForKeyperConfigIndex returned a row; on `true` the eon returned is the row of the first *)\nDefinition gen_resolve_decryptable (eon_found config_found is_keyper dkg_found dkg_success : bool) : bool :=\n  " + body + ".\n\n", nil
}

// ---- database.GetKeyperIndex: the cast of the keyper set index -----------------------------------

func translateKeyperIndexParam(repo string) (string, error) {
	f, _, err := parseFile(repo, "keyper/database/extend.go")
	if err != nil {
		return "", err
	}
	var fd *ast.FuncDecl
	for _, d := range f.Decls { // the method of *Queries, not the package level function of the same name
		if x, ok := d.(*ast.FuncDecl); ok && x.Name.Name == "GetKeyperIndex" && x.Recv != nil {
			fd = x
		}
	}
	if fd == nil || len(fd.Type.Params.List) != 3 || len(fd.Body.List) == 0 {
		return "", fmt.Errorf("GetKeyperIndex: unexpected signature")
	}
	idx := fd.Type.Params.List[1].Names[0].Name
	as, ok := fd.Body.List[0].(*ast.AssignStmt)
	if !ok || len(as.Rhs) != 1 {
		return "", fmt.Errorf("GetKeyperIndex: the first statement is not the batch config query")
	}
	call, ok := as.Rhs[0].(*ast.CallExpr)
	if !ok || !strings.HasSuffix(exprText(call.Fun), ".GetBatchConfig") || len(call.Args) != 2 {
		return "", fmt.Errorf("GetKeyperIndex: the first statement is not the batch config query")
	}
	var arg string
	switch exprText(call.Args[1]) {
	case "int32(" + idx + ")":
		arg = "(gen_to_int32 (idx))"
	case idx, "int64(" + idx + ")":
		arg = "idx"
	default:
		return "", fmt.Errorf("GetKeyperIndex: argument %s of GetBatchConfig not understood", exprText(call.Args[1]))
	}
	return "(* database.GetKeyperIndex: the argument of GetBatchConfig for keyper set index idx (an int64) *)\nDefinition gen_batch_config_param (idx : Z) : Z := " + arg + ".\n\n", nil
}

// ---- prepareTimeBasedTriggers -----------------------------------------------------------------

func translatePrepareTimeBased(f *ast.File) (string, error) {
	bad := func(format string, a ...any) (string, error) {
		return "", fmt.Errorf("prepareTimeBasedTriggers: "+format, a...)
	}
	fd := findFunc(f, "prepareTimeBasedTriggers")
	if fd == nil || len(fd.Type.Params.List) != 2 {
		return bad("unexpected signature")
	}
	blk := fd.Type.Params.List[1].Names[0].Name
	const latest = "kpr.latestTriggeredTime"
	timeExpr := blk + ".Header.Time"
	ss := fd.Body.List
	var sb strings.Builder
	i := 0
	next := func() ast.Stmt {
		for i < len(ss) && isCallStmt(ss[i]) { // fmt.Println / logging
			i++
		}
		if i >= len(ss) {
			return nil
		}
		s := ss[i]
		i++
		return s
	}
	notNil := func(e ast.Expr) bool {
		b, ok := e.(*ast.BinaryExpr)
		return ok && b.Op == token.NEQ && exprText(b.X) == latest && isIdent(b.Y, "nil")
	}
	t := &tr{rename: map[string]string{"*" + latest: "l", timeExpr: "time"}, locals: map[string]bool{}}

	// 1./2. the early return and the local lastTriggeredTime, in either of two equivalent shapes:
	//   (a) if latest != nil && E { return nil, nil }; last := c; if latest != nil { last = X }
	//   (b) last := c; if latest != nil { if E { return nil, nil }; last = X }
	// In both, E is evaluated only when latest != nil and before anything else happens.
	isNilNil := func(s ast.Stmt) bool {
		r, ok := s.(*ast.ReturnStmt)
		return ok && len(r.Results) == 2 && isIdent(r.Results[0], "nil") && isIdent(r.Results[1], "nil")
	}
	var earlyCond ast.Expr
	first := next()
	if s0, ok := first.(*ast.IfStmt); ok { // shape (a)
		if s0.Init != nil || s0.Else != nil || len(s0.Body.List) != 1 {
			return bad("first statement is not the early return")
		}
		c0, ok := s0.Cond.(*ast.BinaryExpr)
		if !ok || c0.Op != token.LAND || !notNil(c0.X) {
			return bad("early return condition is not `latestTriggeredTime != nil && ...`")
		}
		if !isNilNil(s0.Body.List[0]) {
			return bad("early return does not return nil, nil")
		}
		earlyCond = c0.Y
		first = next()
	}
	s1, ok := first.(*ast.AssignStmt)
	if !ok || s1.Tok != token.DEFINE || len(s1.Lhs) != 1 || len(s1.Rhs) != 1 {
		return bad("expected `lastTriggeredTime := 0`")
	}
	lastVar := exprText(s1.Lhs[0])
	if _, lit := s1.Rhs[0].(*ast.BasicLit); !lit {
		return bad("%s is not initialised with a literal", lastVar)
	}
	initV := t.expr(s1.Rhs[0])
	s2, ok := next().(*ast.IfStmt)
	if !ok || s2.Init != nil || s2.Else != nil || !notNil(s2.Cond) {
		return bad("expected `if latestTriggeredTime != nil { %s = ... }`", lastVar)
	}
	body2 := s2.Body.List
	if earlyCond == nil { // shape (b): the early return is the first statement of this block
		if len(body2) != 2 {
			return bad("no early return found")
		}
		e, ok := body2[0].(*ast.IfStmt)
		if !ok || e.Init != nil || e.Else != nil || len(e.Body.List) != 1 || !isNilNil(e.Body.List[0]) {
			return bad("no early return found")
		}
		earlyCond = e.Cond
		body2 = body2[1:]
	}
	if len(body2) != 1 {
		return bad("expected `if latestTriggeredTime != nil { %s = ... }`", lastVar)
	}
	a2, ok := body2[0].(*ast.AssignStmt)
	if !ok || a2.Tok != token.ASSIGN || len(a2.Lhs) != 1 || exprText(a2.Lhs[0]) != lastVar || len(a2.Rhs) != 1 {
		return bad("expected an assignment to %s", lastVar)
	}
	fmt.Fprintf(&sb, "(* prepareTimeBasedTriggers: no query when this holds (latest = *kpr.latestTriggeredTime, None = nil) *)\nDefinition gen_early_return (latest : option Z) (time : Z) : bool :=\n  match latest with Some l => %s | None => false end.\n\n", t.expr(earlyCond))
	fmt.Fprintf(&sb, "(* the local lastTriggeredTime (an int) *)\nDefinition gen_last_triggered (latest : option Z) : Z :=\n  match latest with Some l => %s | None => %s end.\n\n", t.expr(a2.Rhs[0]), initV)

	// 3. kpr.latestTriggeredTime = &block.Header.Time
	s3, ok := next().(*ast.AssignStmt)
	if !ok || s3.Tok != token.ASSIGN || len(s3.Lhs) != 1 || exprText(s3.Lhs[0]) != latest || len(s3.Rhs) != 1 {
		return bad("expected the update of latestTriggeredTime")
	}
	if u, ok := s3.Rhs[0].(*ast.UnaryExpr); !ok || u.Op != token.AND || exprText(u.X) != timeExpr {
		return bad("latestTriggeredTime is not set to &%s", timeExpr)
	}
	sb.WriteString("(* kpr.latestTriggeredTime after the call (when not returned early) *)\nDefinition gen_new_latest (time : Z) : option Z := Some time.\n\n")

	// 4. serviceDB := ...New(...); rows, err := serviceDB.GetNotDecryptedIdentityRegisteredEvents(ctx, Params{...})
	s4 := next()
	if !isNewQueries(s4) {
		return bad("expected the creation of the query object")
	}
	s5, ok := next().(*ast.AssignStmt)
	if !ok || s5.Tok != token.DEFINE || len(s5.Lhs) != 2 || !isIdent(s5.Lhs[1], "err") || len(s5.Rhs) != 1 {
		return bad("expected the window query")
	}
	rowsVar := exprText(s5.Lhs[0])
	q, ok := s5.Rhs[0].(*ast.CallExpr)
	if !ok || !strings.HasSuffix(exprText(q.Fun), ".GetNotDecryptedIdentityRegisteredEvents") || len(q.Args) != 2 {
		return bad("the query is not GetNotDecryptedIdentityRegisteredEvents")
	}
	cl, ok := q.Args[1].(*ast.CompositeLit)
	if !ok || len(cl.Elts) != 2 {
		return bad("query parameters are not a two-field literal")
	}
	t.rename[lastVar] = "last"
	params := map[string]string{}
	for _, el := range cl.Elts {
		kv, ok := el.(*ast.KeyValueExpr)
		if !ok {
			return bad("query parameters are not key/value")
		}
		params[exprText(kv.Key)] = t.expr(kv.Value)
	}
	if params["Timestamp"] == "" || params["Timestamp_2"] == "" {
		return bad("query parameters Timestamp / Timestamp_2 missing")
	}
	fmt.Fprintf(&sb, "(* $1 and $2 of GetNotDecryptedIdentityRegisteredEvents *)\nDefinition gen_window_p1 (last : Z) : Z := %s.\nDefinition gen_window_p2 (time : Z) : Z := %s.\n\n", params["Timestamp"], params["Timestamp_2"])
	// error idiom of the query: if err != nil && err != pgx.ErrNoRows { return nil, ... }
	s6, ok := next().(*ast.IfStmt)
	if !ok || s6.Init != nil || s6.Else != nil || len(s6.Body.List) != 1 || !isErrReturn(s6.Body.List[0]) {
		return bad("window query not followed by its error test")
	}
	// 5. res := make(...)
	s7, ok := next().(*ast.AssignStmt)
	if !ok || s7.Tok != token.DEFINE || len(s7.Lhs) != 1 || len(s7.Rhs) != 1 {
		return bad("expected the creation of the result slice")
	}
	if c, ok := s7.Rhs[0].(*ast.CallExpr); !ok || !isIdent(c.Fun, "make") || len(c.Args) != 2 || exprText(c.Args[1]) != "0" {
		return bad("the result slice is not made empty")
	}
	res := exprText(s7.Lhs[0])
	// 6. the loop
	loop, ok := next().(*ast.RangeStmt)
	if !ok || exprText(loop.X) != rowsVar || loop.Tok != token.DEFINE || loop.Value == nil || (loop.Key != nil && exprText(loop.Key) != "_") {
		return bad("expected `for _, event := range %s`", rowsVar)
	}
	ev := exprText(loop.Value)
	lb := loop.Body.List
	if len(lb) != 3 && len(lb) != 4 {
		return bad("loop body has %d statements, expected 3 or 4", len(lb))
	}
	l0, ok := lb[0].(*ast.AssignStmt)
	if !ok || l0.Tok != token.DEFINE || len(l0.Lhs) != 2 || !isIdent(l0.Lhs[1], "err") || len(l0.Rhs) != 1 {
		return bad("loop: expected `trigger, err := kpr.shouldTriggerDecryption(...)`")
	}
	c0l, ok := l0.Rhs[0].(*ast.CallExpr)
	if !ok || exprText(c0l.Fun) != "kpr.shouldTriggerDecryption" || len(c0l.Args) != 3 || exprText(c0l.Args[1]) != ev || exprText(c0l.Args[2]) != blk {
		return bad("loop: the verdict is not kpr.shouldTriggerDecryption(ctx, %s, %s) of the row at hand", ev, blk)
	}
	verdict := exprText(l0.Lhs[0])
	l1, ok := lb[1].(*ast.IfStmt)
	if !ok || l1.Init != nil || l1.Else != nil || !isErrNotNil(l1.Cond) || len(l1.Body.List) != 1 || !isErrReturn(l1.Body.List[0]) {
		return bad("loop: verdict not followed by the error idiom")
	}
	// `if C { res = append(res, ev) }`  or  `if !C { continue }; res = append(res, ev)`
	l2, ok := lb[2].(*ast.IfStmt)
	if !ok || l2.Init != nil || l2.Else != nil || len(l2.Body.List) != 1 {
		return bad("loop: expected `if trigger { append }`")
	}
	keepCond := l2.Cond
	appendStmt := l2.Body.List[0]
	if len(lb) == 4 {
		br, isBr := l2.Body.List[0].(*ast.BranchStmt)
		neg, isNeg := l2.Cond.(*ast.UnaryExpr)
		if !isBr || br.Tok != token.CONTINUE || br.Label != nil || !isNeg || neg.Op != token.NOT {
			return bad("loop: expected `if !trigger { continue }` before the append")
		}
		keepCond = neg.X
		appendStmt = lb[3]
	}
	tl := &tr{rename: map[string]string{}, locals: map[string]bool{verdict: true}}
	cond := tl.expr(keepCond)
	if tl.err != nil {
		return bad("loop: %v", tl.err)
	}
	ap, ok := appendStmt.(*ast.AssignStmt)
	if !ok || ap.Tok != token.ASSIGN || len(ap.Lhs) != 1 || exprText(ap.Lhs[0]) != res || len(ap.Rhs) != 1 || exprText(ap.Rhs[0]) != "append("+res+","+ev+")" {
		return bad("loop: the row is not appended to %s", res)
	}
	fmt.Fprintf(&sb, "(* the loop over the query result: should = shouldTriggerDecryption of the row and the block *)\nDefinition gen_select_rows {A : Type} (should : A -> bool) (rows : list A) : list A :=\n  fold_left (fun %s %s =>\n    let %s := should %s in\n    let %s := if %s then %s ++ [%s] else %s in\n    %s) rows [].\n\n", res, ev, verdict, ev, res, cond, res, ev, res, res)
	// 7. return kpr.createTriggersFromIdentityRegisteredEvents(ctx, res, block)
	last := next()
	r, ok := last.(*ast.ReturnStmt)
	if !ok || len(r.Results) != 1 || exprText(r.Results[0]) != "kpr.createTriggersFromIdentityRegisteredEvents(ctx,"+res+","+blk+")" {
		return bad("the selected rows are not handed to createTriggersFromIdentityRegisteredEvents")
	}
	if next() != nil {
		return bad("statements after the final return")
	}
	if t.err != nil {
		return bad("%v", t.err)
	}
	return sb.String(), nil
}

// ---- sortIdentityPreimages --------------------------------------------------------------------

func translateSortIdentities(f *ast.File) (string, error) {
	fd := findFunc(f, "sortIdentityPreimages")
	if fd == nil {
		return "", fmt.Errorf("sortIdentityPreimages not found")
	}
	op := ""
	n := 0
	ast.Inspect(fd, func(nd ast.Node) bool {
		call, ok := nd.(*ast.CallExpr)
		if !ok || exprText(call.Fun) != "sort.Slice" || len(call.Args) != 2 {
			return true
		}
		n++
		fl, ok := call.Args[1].(*ast.FuncLit)
		if !ok || len(fl.Body.List) != 1 || len(fl.Type.Params.List) != 1 || len(fl.Type.Params.List[0].Names) != 2 {
			return true
		}
		i, j := fl.Type.Params.List[0].Names[0].Name, fl.Type.Params.List[0].Names[1].Name
		arr := exprText(call.Args[0])
		rs, ok := fl.Body.List[0].(*ast.ReturnStmt)
		if !ok || len(rs.Results) != 1 {
			return true
		}
		be, ok := rs.Results[0].(*ast.BinaryExpr)
		if !ok || exprText(be.Y) != "0" {
			return true
		}
		cc, ok := be.X.(*ast.CallExpr)
		if !ok || exprText(cc.Fun) != "bytes.Compare" || len(cc.Args) != 2 {
			return true
		}
		a, b := exprText(cc.Args[0]), exprText(cc.Args[1])
		ai, aj := arr+"["+i+"]", arr+"["+j+"]"
		switch {
		case a == ai && b == aj && be.Op == token.LSS, a == aj && b == ai && be.Op == token.GTR:
			op = "Lt => true | _ => false"
		case a == ai && b == aj && be.Op == token.GTR, a == aj && b == ai && be.Op == token.LSS:
			op = "Gt => true | _ => false"
		case a == ai && b == aj && be.Op == token.LEQ:
			op = "Gt => false | _ => true"
		}
		return true
	})
	if n != 1 || op == "" {
		return "", fmt.Errorf("sortIdentityPreimages: comparator of sort.Slice not understood")
	}
	return "(* less(i, j) of sortIdentityPreimages *)\nDefinition gen_identity_less (a b : bytes) : bool := match bytes_cmp a b with " + op + " end.\n\n", nil
}

// ---- TriggerProcessor.FetchEvents -------------------------------------------------------------

func translateFetchEvents(repo string) (string, error) {
	f, _, err := parseFile(repo, "keyperimpl/shutterservice/triggerprocessor.go")
	if err != nil {
		return "", err
	}
	bad := func(format string, a ...any) (string, error) {
		return "", fmt.Errorf("FetchEvents: "+format, a...)
	}
	fd := findFunc(f, "FetchEvents")
	if fd == nil || len(fd.Type.Params.List) != 2 || len(fd.Type.Params.List[1].Names) != 2 {
		return bad("unexpected signature")
	}
	start, end := fd.Type.Params.List[1].Names[0].Name, fd.Type.Params.List[1].Names[1].Name
	var sb strings.Builder
	// the active-trigger query and its argument
	var activeArg ast.Expr
	var trigRows string
	var outer, inner *ast.RangeStmt
	fromOK, toOK := false, false
	ast.Inspect(fd, func(n ast.Node) bool {
		switch x := n.(type) {
		case *ast.AssignStmt:
			if len(x.Rhs) == 1 {
				if call, ok := x.Rhs[0].(*ast.CallExpr); ok && strings.HasSuffix(exprText(call.Fun), ".GetActiveEventTriggerRegisteredEvents") && len(call.Args) == 2 {
					activeArg = call.Args[1]
					trigRows = exprText(x.Lhs[0])
				}
				if len(x.Lhs) == 1 {
					switch exprText(x.Lhs[0]) {
					case "filterQuery.FromBlock":
						fromOK = exprText(x.Rhs[0]) == "new(big.Int).SetUint64("+start+")"
					case "filterQuery.ToBlock":
						toOK = exprText(x.Rhs[0]) == "new(big.Int).SetUint64("+end+")"
					}
				}
			}
		case *ast.RangeStmt:
			if trigRows != "" && exprText(x.X) == trigRows && outer == nil {
				outer = x
			} else if outer != nil && exprText(x.X) == "logs" && inner == nil {
				inner = x
			}
		}
		return true
	})
	if activeArg == nil || outer == nil || inner == nil || outer.Value == nil || inner.Value == nil {
		return bad("the query / the loop over triggers / the loop over logs was not found")
	}
	if !fromOK || !toOK {
		return bad("the log filter is not restricted to [%s, %s]", start, end)
	}
	trig, lg := exprText(outer.Value), exprText(inner.Value)
	t := &tr{rename: map[string]string{start: "start", lg + ".BlockNumber": "log_block", trig + ".ExpirationBlockNumber": "expiration"}}
	// locals bound to side-effect-free expressions (function level, in the loop over triggers
	// before the loop over logs, at the head of the loop over logs) are inlined
	for _, st := range fd.Body.List {
		bindLocal(t, st)
	}
	for _, st := range outer.Body.List {
		if st == ast.Stmt(inner) {
			break
		}
		bindLocal(t, st)
	}
	ib := inner.Body.List
	for len(ib) > 0 && bindLocal(t, ib[0]) {
		ib = ib[1:]
	}
	// the first statement of the inner loop must be the expiry test
	if len(ib) == 0 {
		return bad("empty loop over logs")
	}
	is, ok := ib[0].(*ast.IfStmt)
	if !ok || is.Init != nil || is.Else != nil || len(is.Body.List) != 1 {
		return bad("the loop over logs does not start with the expiry test")
	}
	if br, ok := is.Body.List[0].(*ast.BranchStmt); !ok || br.Tok != token.CONTINUE {
		return bad("the expiry test does not skip the log")
	}
	fmt.Fprintf(&sb, "(* FetchEvents: the argument of GetActiveEventTriggerRegisteredEvents *)\nDefinition gen_active_param (start : Z) : Z := %s.\n\n", t.expr(activeArg))
	cond := t.expr(is.Cond)
	if t.err != nil {
		return bad("%v", t.err)
	}
	if !strings.Contains(cond, "expiration") || !strings.Contains(cond, "log_block") {
		return bad("the first test on a log does not compare its block with the expiry block")
	}
	// no other `continue`-less path may append before the test: the append must come after it
	appended := false
	for _, s := range ib[1:] {
		ast.Inspect(s, func(n ast.Node) bool {
			if c, ok := n.(*ast.CallExpr); ok && isIdent(c.Fun, "append") {
				appended = true
			}
			return true
		})
	}
	if !appended {
		return bad("no event is appended after the expiry test")
	}
	fmt.Fprintf(&sb, "(* FetchEvents: a log is skipped when this holds (log_block is a uint64, expiration the int64 column) *)\nDefinition gen_log_expired (log_block expiration : Z) : bool := %s.\n\n", cond)
	return sb.String(), nil
}

// ---- SQL ----------------------------------------------------------------------------------------

type sqlQuery struct {
	where string
	order string
	limit string
}

var reSQLComment = regexp.MustCompile(`--[^\n]*`)

// sqlQueriesOf splits a text containing `-- name: X :kind` markers into query bodies.
func sqlQueriesOf(text string) map[string]string {
	out := map[string]string{}
	re := regexp.MustCompile(`-- name: (\w+) :\w+`)
	locs := re.FindAllStringSubmatchIndex(text, -1)
	for i, l := range locs {
		name := text[l[2]:l[3]]
		endPos := len(text)
		if i+1 < len(locs) {
			endPos = locs[i+1][0]
		}
		body := text[l[1]:endPos]
		if k := strings.IndexByte(body, '`'); k >= 0 { // a Go raw string ends here
			body = body[:k]
		}
		body = reSQLComment.ReplaceAllString(body, " ")
		body = strings.TrimSpace(strings.TrimSuffix(strings.TrimSpace(strings.Join(strings.Fields(body), " ")), ";"))
		out[name] = body
	}
	return out
}

// topLevelIndex finds kw (upper case, surrounded by spaces) outside parentheses.
func topLevelIndex(s, kw string) int {
	depth := 0
	up := strings.ToUpper(s)
	for i := 0; i < len(s); i++ {
		switch s[i] {
		case '(':
			depth++
		case ')':
			depth--
		}
		if depth == 0 && strings.HasPrefix(up[i:], " "+kw+" ") {
			return i
		}
	}
	return -1
}

func splitTopLevel(s, kw string) []string {
	var out []string
	for {
		k := topLevelIndex(" "+s+" ", kw)
		if k < 0 {
			out = append(out, strings.TrimSpace(s))
			return out
		}
		// k is an index into " "+s+" "
		out = append(out, strings.TrimSpace(s[:k]))
		s = s[k+len(kw)+1:]
	}
}

func parseSelect(body string) (sqlQuery, error) {
	var q sqlQuery
	s := " " + body + " "
	w := topLevelIndex(s, "WHERE")
	if w < 0 {
		return q, fmt.Errorf("no WHERE clause")
	}
	rest := s[w+len(" WHERE "):]
	if k := topLevelIndex(" "+rest, "LIMIT"); k >= 0 {
		q.limit = strings.TrimSpace(rest[k+len("LIMIT "):])
		rest = rest[:k]
	}
	if k := topLevelIndex(" "+rest, "ORDER BY"); k >= 0 {
		q.order = strings.TrimSpace(rest[k+len("ORDER BY "):])
		rest = rest[:k]
	}
	q.where = strings.TrimSpace(rest)
	return q, nil
}

var (
	reCmp     = regexp.MustCompile(`^(?:\w+\.)?(\w+) *(>=|<=|<>|=|<|>) *(.+)$`)
	reParamN  = regexp.MustCompile(`^\$(\d+)$`)
	reParamAt = regexp.MustCompile(`^(?:@(\w+)|sqlc\.arg\((\w+)\))$`)
	reNotEx   = regexp.MustCompile(`(?i)^NOT EXISTS *\( *SELECT 1 FROM (\w+) (\w+) WHERE (.+)\)$`)
	reInt     = regexp.MustCompile(`^\d+$`)
	reFlip    = regexp.MustCompile(`^(\$\d+|@\w+|sqlc\.arg\(\w+\)) *(>=|<=|<>|=|<|>) *((?:\w+\.)?\w+)$`)
)

// sqlWhere translates a conjunction of comparisons. corr: expected correlation conditions of a
// NOT EXISTS subquery, by table.
type sqlTr struct {
	cols   []string // in order of first appearance
	typ    map[string]string
	params []string
	named  map[string]string
}

func (t *sqlTr) col(name, typ string) string {
	if t.typ == nil {
		t.typ = map[string]string{}
	}
	if old, ok := t.typ[name]; ok {
		if old != typ {
			return ""
		}
		return name
	}
	t.typ[name] = typ
	t.cols = append(t.cols, name)
	return name
}

func (t *sqlTr) param(rhs string) string {
	if m := reParamN.FindStringSubmatch(rhs); m != nil {
		p := "p" + m[1]
		for _, q := range t.params {
			if q == p {
				return p
			}
		}
		t.params = append(t.params, p)
		return p
	}
	if m := reParamAt.FindStringSubmatch(rhs); m != nil {
		name := m[1] + m[2]
		if t.named == nil {
			t.named = map[string]string{}
		}
		if p, ok := t.named[name]; ok {
			return p
		}
		p := fmt.Sprintf("p%d", len(t.params)+1)
		t.named[name] = p
		t.params = append(t.params, p)
		return p
	}
	return ""
}

func (t *sqlTr) where(clause string, corr map[string][]string) (string, error) {
	var parts []string
	for _, c := range splitTopLevel(clause, "AND") {
		if m := reNotEx.FindStringSubmatch(c); m != nil {
			table, alias := m[1], m[2]
			want, ok := corr[table]
			if !ok {
				return "", fmt.Errorf("NOT EXISTS over unexpected table %s", table)
			}
			got := splitTopLevel(strings.TrimSpace(m[3]), "AND")
			if len(got) != len(want) {
				return "", fmt.Errorf("NOT EXISTS (%s): conditions %v, expected %v", table, got, want)
			}
			for i := range got {
				if strings.ReplaceAll(got[i], " ", "") != strings.ReplaceAll(strings.ReplaceAll(want[i], "T.", alias+"."), " ", "") {
					return "", fmt.Errorf("NOT EXISTS (%s): condition %q, expected %q with T = %s", table, got[i], want[i], alias)
				}
			}
			parts = append(parts, "negb "+t.col("exists_"+table, "bool"))
			continue
		}
		if f := reFlip.FindStringSubmatch(c); f != nil { // `$1 <= col` is `col >= $1`
			c = f[3] + " " + map[string]string{">=": "<=", "<=": ">=", "<": ">", ">": "<", "=": "=", "<>": "<>"}[f[2]] + " " + f[1]
		}
		m := reCmp.FindStringSubmatch(c)
		if m == nil {
			return "", fmt.Errorf("condition %q not understood", c)
		}
		colName, op, rhs := m[1], m[2], strings.TrimSpace(m[3])
		switch strings.ToLower(rhs) {
		case "true", "false":
			if op != "=" || t.col(colName, "bool") == "" {
				return "", fmt.Errorf("condition %q not understood", c)
			}
			parts = append(parts, "Bool.eqb "+colName+" "+strings.ToLower(rhs))
			continue
		}
		var r string
		if reInt.MatchString(rhs) {
			r = rhs
		} else if r = t.param(rhs); r == "" {
			return "", fmt.Errorf("right hand side %q not understood", rhs)
		}
		if t.col(colName, "Z") == "" {
			return "", fmt.Errorf("column %s used with two types", colName)
		}
		switch op {
		case ">=":
			parts = append(parts, "("+r+" <=? "+colName+")")
		case "<=":
			parts = append(parts, "("+colName+" <=? "+r+")")
		case "<":
			parts = append(parts, "("+colName+" <? "+r+")")
		case ">":
			parts = append(parts, "("+r+" <? "+colName+")")
		case "=":
			parts = append(parts, "("+colName+" =? "+r+")")
		default:
			return "", fmt.Errorf("operator %s not understood", op)
		}
	}
	return strings.Join(parts, " && "), nil
}

// sqlBefore renders ORDER BY as "row 1 sorts strictly before row 2".
func sqlBefore(order string) (cols []string, body string, err error) {
	type oc struct {
		col  string
		desc bool
	}
	var ocs []oc
	for _, p := range strings.Split(order, ",") {
		f := strings.Fields(p)
		switch {
		case len(f) == 1:
			ocs = append(ocs, oc{f[0], false})
		case len(f) == 2 && strings.EqualFold(f[1], "ASC"):
			ocs = append(ocs, oc{f[0], false})
		case len(f) == 2 && strings.EqualFold(f[1], "DESC"):
			ocs = append(ocs, oc{f[0], true})
		default:
			return nil, "", fmt.Errorf("ORDER BY item %q not understood", p)
		}
	}
	body = "false"
	for i := len(ocs) - 1; i >= 0; i-- {
		c := ocs[i].col
		lt := "(" + c + "_1 <? " + c + "_2)"
		if ocs[i].desc {
			lt = "(" + c + "_2 <? " + c + "_1)"
		}
		if i == len(ocs)-1 {
			body = lt
		} else {
			body = lt + " || ((" + c + "_1 =? " + c + "_2) && (" + body + "))"
		}
		cols = append([]string{c}, cols...)
	}
	return cols, body, nil
}

type sqlSpec struct {
	file, gen string // .sql file and the *.sqlc.gen.go file, relative to the module root
	query     string
	coq       string // name stem of the generated definitions
	corr      map[string][]string
	wantLimit string
}

var sqlSpecs = []sqlSpec{
	{"keyperimpl/shutterservice/database/sql/queries/shutterservice.sql", "keyperimpl/shutterservice/database/shutterservice.sqlc.gen.go",
		"GetNotDecryptedIdentityRegisteredEvents", "window", nil, ""},
	{"keyperimpl/shutterservice/database/sql/queries/shutterservice.sql", "keyperimpl/shutterservice/database/shutterservice.sqlc.gen.go",
		"GetActiveEventTriggerRegisteredEvents", "active", map[string][]string{"fired_triggers": {"T.eon = e.eon", "T.identity = e.identity"}}, ""},
	{"keyper/database/sql/queries/keyper.sql", "keyper/database/keyper.sqlc.gen.go", "GetEonForBlockNumber", "eon_for_block", nil, "1"},
	{"keyper/database/sql/queries/keyper.sql", "keyper/database/keyper.sqlc.gen.go", "GetLatestStartedEonByKeyperConfigIndex", "latest_eon", nil, "1"},
	{"keyper/database/sql/queries/keyper.sql", "keyper/database/keyper.sqlc.gen.go", "GetDKGResult", "dkg_result", nil, ""},
	{"keyper/database/sql/queries/keyper.sql", "keyper/database/keyper.sqlc.gen.go", "GetBatchConfig", "batch_config", nil, ""},
}

func renderSQL(spec sqlSpec, body string) (string, error) {
	q, err := parseSelect(body)
	if err != nil {
		return "", err
	}
	t := &sqlTr{}
	w, err := t.where(q.where, spec.corr)
	if err != nil {
		return "", err
	}
	if q.limit != spec.wantLimit {
		return "", fmt.Errorf("LIMIT %q, expected %q", q.limit, spec.wantLimit)
	}
	var sb strings.Builder
	var binders []string
	for _, c := range t.cols {
		binders = append(binders, "("+c+" : "+t.typ[c]+")")
	}
	for _, p := range t.params {
		binders = append(binders, "("+p+" : Z)")
	}
	fmt.Fprintf(&sb, "(* %s: WHERE %s *)\nDefinition gen_q_%s_where %s : bool :=\n  %s.\n", spec.query, q.where, spec.coq, strings.Join(binders, " "), w)
	if q.order != "" {
		cols, b, err := sqlBefore(q.order)
		if err != nil {
			return "", err
		}
		var bs []string
		for _, c := range cols {
			bs = append(bs, c+"_1 "+c+"_2")
		}
		fmt.Fprintf(&sb, "(* %s: ORDER BY %s - row 1 sorts strictly before row 2 *)\nDefinition gen_q_%s_before (%s : Z) : bool :=\n  %s.\n", spec.query, q.order, spec.coq, strings.Join(bs, " "), b)
	}
	sb.WriteString("\n")
	return sb.String(), nil
}

func translateSQL(repo string) (string, error) {
	var sb strings.Builder
	cache := map[string]map[string]string{}
	load := func(rel string) (map[string]string, error) {
		if m, ok := cache[rel]; ok {
			return m, nil
		}
		b, err := os.ReadFile(filepath.Join(repo, rel))
		if err != nil {
			return nil, err
		}
		m := sqlQueriesOf(string(b))
		cache[rel] = m
		return m, nil
	}
	for _, spec := range sqlSpecs {
		src, err := load(spec.file)
		if err != nil {
			return "", err
		}
		gen, err := load(spec.gen)
		if err != nil {
			return "", err
		}
		bs, ok1 := src[spec.query]
		bg, ok2 := gen[spec.query]
		if !ok1 || !ok2 {
			return "", fmt.Errorf("query %s not found in %s / %s", spec.query, spec.file, spec.gen)
		}
		a, err := renderSQL(spec, bs)
		if err != nil {
			return "", fmt.Errorf("%s (%s): %v", spec.query, spec.file, err)
		}
		b, err := renderSQL(spec, bg)
		if err != nil {
			return "", fmt.Errorf("%s (%s): %v", spec.query, spec.gen, err)
		}
		// the comment lines quote the clause text, which differs in parameter syntax only
		strip := func(s string) string {
			var keep []string
			for _, l := range strings.Split(s, "\n") {
				if !strings.HasPrefix(l, "(*") {
					keep = append(keep, l)
				}
			}
			return strings.Join(keep, "\n")
		}
		if strip(a) != strip(b) {
			return "", fmt.Errorf("%s: the query in %s and the executed text in %s translate differently:\n%s\n%s", spec.query, spec.file, spec.gen, a, b)
		}
		sb.WriteString(a)
	}
	return sb.String(), nil
}

// ---- the generator ------------------------------------------------------------------------------

func genServiceTriggerFuns(repo string) (string, error) {
	f, _, err := parseFile(repo, "keyperimpl/shutterservice/newblock.go")
	if err != nil {
		return "", err
	}
	var sb strings.Builder
	sb.WriteString("(* GENERATED by harness/cmd/translate (gen_servicetriggerfuns.go) from the repository source - do not edit. *)\n")
	sb.WriteString("From Coq Require Import List NArith ZArith Bool.\nFrom Verif Require Import Lib.Bytes.\nImport ListNotations.\nOpen Scope Z_scope.\n\n")
	sb.WriteString("Definition gen_to_int64 (x : Z) : Z := let m := x mod 18446744073709551616 in if m <? 9223372036854775808 then m else m - 18446744073709551616.\n")
	sb.WriteString("Definition gen_to_int32 (x : Z) : Z := let m := x mod 4294967296 in if m <? 2147483648 then m else m - 4294967296.\n\n")
	for _, part := range []func() (string, error){
		func() (string, error) { return translateShouldTrigger(f) },
		func() (string, error) { return translateResolve(f) },
		func() (string, error) { return translateKeyperIndexParam(repo) },
		func() (string, error) { return translatePrepareTimeBased(f) },
		func() (string, error) { return translateSortIdentities(f) },
		func() (string, error) { return translateFetchEvents(repo) },
		func() (string, error) { return translateSQL(repo) },
	} {
		s, err := part()
		if err != nil {
			return "", err
		}
		sb.WriteString(s)
	}
	return sb.String(), nil
}
